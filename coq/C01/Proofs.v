(* C01 proofs: the evaluator's truth value is the documented boolean meaning (holds), for every
   condition tree, every hit layout and every gene; the reported reasons hit the gene itself. *)
From Coq Require Import Lia ZifyBool.
From ASV.C01 Require Import Model.

(* ---------- induction principle for the nested type ---------- *)
Section Ind.
  Variable P : cond -> Prop.
  Variable Q : item -> Prop.
  Hypothesis HSingle : forall n p, P (Single n p).
  Hypothesis HScore : forall n p s, P (Score n p s).
  Hypothesis HMin : forall n k o, P (Minimum n k o).
  Hypothesis HCds : forall n subs, Forall Q subs -> P (Cds n subs).
  Hypothesis HGroup : forall n subs, Forall Q subs -> P (Group n subs).
  Hypothesis HICond : forall c, P c -> Q (ICond c).
  Hypothesis HIAnd : forall cs, Forall P cs -> Q (IAnd cs).

  Fixpoint cond_ind2 (c : cond) : P c :=
    match c with
    | Single n p => HSingle n p
    | Score n p s => HScore n p s
    | Minimum n k o => HMin n k o
    | Cds n subs => HCds n subs ((fix go (l : list item) : Forall Q l :=
        match l with [] => Forall_nil _ | i :: tl => Forall_cons _ (item_ind2 i) (go tl) end) subs)
    | Group n subs => HGroup n subs ((fix go (l : list item) : Forall Q l :=
        match l with [] => Forall_nil _ | i :: tl => Forall_cons _ (item_ind2 i) (go tl) end) subs)
    end
  with item_ind2 (i : item) : Q i :=
    match i with
    | ICond c => HICond c (cond_ind2 c)
    | IAnd cs => HIAnd cs ((fix go (l : list cond) : Forall P l :=
        match l with [] => Forall_nil _ | c :: tl => Forall_cons _ (cond_ind2 c) (go tl) end) cs)
    end.
End Ind.

(* ---------- generic list facts ---------- *)
Lemma existsb_ext_in {A} (f h : A -> bool) l : (forall x, In x l -> f x = h x) -> existsb f l = existsb h l.
Proof.
  induction l as [|x l IH]; cbn [existsb]; intros H; [reflexivity|].
  rewrite H by (left; reflexivity). rewrite IH; [reflexivity|]. intros y Hy. apply H. right. exact Hy.
Qed.
Lemma forallb_ext_in {A} (f h : A -> bool) l : (forall x, In x l -> f x = h x) -> forallb f l = forallb h l.
Proof.
  induction l as [|x l IH]; cbn [forallb]; intros H; [reflexivity|].
  rewrite H by (left; reflexivity). rewrite IH; [reflexivity|]. intros y Hy. apply H. right. exact Hy.
Qed.
Lemma existsb_map {A B} (f : A -> B) (p : B -> bool) l : existsb p (map f l) = existsb (fun x => p (f x)) l.
Proof. induction l as [|x l IH]; cbn; [reflexivity|]. rewrite IH. reflexivity. Qed.
Lemma forallb_map {A B} (f : A -> B) (p : B -> bool) l : forallb p (map f l) = forallb (fun x => p (f x)) l.
Proof. induction l as [|x l IH]; cbn; [reflexivity|]. rewrite IH. reflexivity. Qed.

Lemma bool_eq_iff (a b : bool) : (a = true <-> b = true) -> a = b.
Proof. destruct a, b; intros [H1 H2]; try reflexivity; [symmetry; apply H1; reflexivity|apply H2; reflexivity]. Qed.

(* ---------- sets ---------- *)
Lemma sinsert_In x y l : In y (sinsert x l) <-> y = x \/ In y l.
Proof.
  induction l as [|z l IH]; cbn [sinsert].
  - cbn. intuition.
  - destruct (x <? z) eqn:H1; [cbn; intuition|].
    destruct (x =? z) eqn:H2.
    + assert (x = z) by lia. subst. cbn. intuition.
    + cbn [In]. rewrite IH. intuition.
Qed.

Lemma sunion_In_acc : forall a acc y, In y (fold_left (fun acc x => sinsert x acc) a acc) <-> In y a \/ In y acc.
Proof.
  induction a as [|x a IH]; intros acc y; cbn [fold_left].
  - cbn. intuition.
  - rewrite IH. rewrite sinsert_In. cbn [In]. intuition.
Qed.
Lemma sunion_In a b y : In y (sunion a b) <-> In y a \/ In y b.
Proof. unfold sunion. apply sunion_In_acc. Qed.
Lemma sof_In l y : In y (sof l) <-> In y l.
Proof. unfold sof. rewrite sunion_In. cbn. intuition. Qed.
Lemma smem_In x l : smem x l = true <-> In x l.
Proof.
  unfold smem. rewrite existsb_exists. split.
  - intros (y & Hy & Heq). assert (x = y) by lia. subst. exact Hy.
  - intros H. exists x. split; [exact H|lia].
Qed.
Lemma sinter_In a b y : In y (sinter a b) <-> In y a /\ In y b.
Proof. unfold sinter. rewrite filter_In, sof_In, smem_In. reflexivity. Qed.

(* ---------- combining results ---------- *)
Lemma or_combine_acc : forall rs acc,
  met (fold_left (fun acc r => mkRes (met acc || met r) (sunion (matches r) (matches acc)) (amerge (ancs r) (ancs acc))) rs acc)
  = met acc || existsb met rs.
Proof.
  induction rs as [|r rs IH]; intros acc; cbn [fold_left existsb]; [rewrite orb_false_r; reflexivity|].
  rewrite IH. cbn [met]. rewrite orb_assoc. reflexivity.
Qed.
Lemma met_or_combine rs : met (or_combine rs) = existsb met rs.
Proof. unfold or_combine. rewrite or_combine_acc. reflexivity. Qed.

Lemma and_combine_acc : forall rs acc,
  met (fold_left (fun acc r => mkRes (met acc && met r) (sunion (matches r) (matches acc)) (amerge (ancs r) (ancs acc))) rs acc)
  = met acc && forallb met rs.
Proof.
  induction rs as [|r rs IH]; intros acc; cbn [fold_left forallb]; [rewrite andb_true_r; reflexivity|].
  rewrite IH. cbn [met]. rewrite andb_assoc. reflexivity.
Qed.
Lemma met_and_combine rs : met (and_combine rs) = forallb met rs.
Proof. unfold and_combine. rewrite and_combine_acc. reflexivity. Qed.

Lemma or_matches_acc : forall rs acc y,
  In y (matches (fold_left (fun acc r => mkRes (met acc || met r) (sunion (matches r) (matches acc)) (amerge (ancs r) (ancs acc))) rs acc))
  <-> In y (matches acc) \/ exists r, In r rs /\ In y (matches r).
Proof.
  induction rs as [|r rs IH]; intros acc y; cbn [fold_left].
  - split; [intros H; left; exact H|intros [H|(r & [] & _)]; exact H].
  - rewrite IH. cbn [matches]. rewrite sunion_In. split.
    + intros [[H|H]|(r' & Hr & Hy)].
      * right. exists r. split; [left; reflexivity|exact H].
      * left. exact H.
      * right. exists r'. split; [right; exact Hr|exact Hy].
    + intros [H|(r' & [Hr|Hr] & Hy)].
      * left. right. exact H.
      * subst. left. left. exact Hy.
      * right. exists r'. split; assumption.
Qed.
Lemma or_matches rs y : In y (matches (or_combine rs)) <-> exists r, In r rs /\ In y (matches r).
Proof. unfold or_combine. rewrite or_matches_acc. cbn. intuition. Qed.

Lemma and_matches_acc : forall rs acc y,
  In y (matches (fold_left (fun acc r => mkRes (met acc && met r) (sunion (matches r) (matches acc)) (amerge (ancs r) (ancs acc))) rs acc))
  <-> In y (matches acc) \/ exists r, In r rs /\ In y (matches r).
Proof.
  induction rs as [|r rs IH]; intros acc y; cbn [fold_left].
  - split; [intros H; left; exact H|intros [H|(r & [] & _)]; exact H].
  - rewrite IH. cbn [matches]. rewrite sunion_In. split.
    + intros [[H|H]|(r' & Hr & Hy)].
      * right. exists r. split; [left; reflexivity|exact H].
      * left. exact H.
      * right. exists r'. split; [right; exact Hr|exact Hy].
    + intros [H|(r' & [Hr|Hr] & Hy)].
      * left. right. exact H.
      * subst. left. left. exact Hy.
      * right. exists r'. split; assumption.
Qed.
Lemma and_matches rs y : In y (matches (and_combine rs)) <-> exists r, In r rs /\ In y (matches r).
Proof. unfold and_combine. rewrite and_matches_acc. cbn. intuition. Qed.

(* ---------- the documented meaning ---------- *)
Section Spec.
Variable cx : ctx.

Notation near := (near cx).
Notation count_in := (count_in cx).
Notation holds := (holds cx).
Notation reasons_raw := (reasons_raw cx).
Notation reasons := (reasons cx).
Notation anc_has := (anc_has cx).

(* every gene with recorded hits is a known gene *)
Definition results_known : Prop := forall o, In o (map fst (results cx)) -> In o (map fst (feats cx)).

Lemma assoc_Some_In {A} k (l : list (Z * A)) v : assoc k l = Some v -> In k (map fst l).
Proof.
  induction l as [|[k' v'] l IH]; cbn [assoc]; [discriminate|].
  destruct (k =? k') eqn:H; intros Hs.
  - left. cbn. lia.
  - right. apply IH. exact Hs.
Qed.

Lemma has_known o p : has cx o p = true -> In o (map fst (results cx)).
Proof.
  unfold has, poss, hits_of. destruct (assoc o (results cx)) eqn:Ha.
  - intros _. eapply assoc_Some_In. exact Ha.
  - cbn. discriminate.
Qed.
Lemma scored_known o p s : scored cx o p s = true -> In o (map fst (results cx)).
Proof.
  unfold scored, hits_of. destruct (assoc o (results cx)) eqn:Ha.
  - intros _. eapply assoc_Some_In. exact Ha.
  - cbn. discriminate.
Qed.
Lemma scored_has o p s : scored cx o p s = true -> has cx o p = true.
Proof.
  unfold scored, has, poss. rewrite existsb_exists. intros ((q, sc) & Hin & Hq).
  apply smem_In. apply in_map_iff. exists (q, sc). cbn [fst snd] in *. split; [lia|exact Hin].
Qed.

(* a scan over the genes with hits sees the same as a scan over all genes, for tests that can
   only succeed on genes with hits *)
Lemma scan_results_feats (f : Z -> bool) g : results_known ->
  (forall o, f o = true -> In o (map fst (results cx))) ->
  existsb f (result_others cx g) = existsb f (feat_others cx g).
Proof.
  intros Hk Hf. apply bool_eq_iff. unfold result_others, feat_others.
  rewrite !existsb_exists. split; intros (o & Hin & Ho); exists o; (split; [|exact Ho]);
    apply filter_In in Hin; destruct Hin as [Hin Hq]; apply filter_In; (split; [|exact Hq]).
  - apply Hk. exact Hin.
  - apply Hf. exact Ho.
Qed.

Lemma ainsert_nonempty g ps a : ainsert g ps a <> [].
Proof. destruct a as [|[h qs] r]; cbn [ainsert]; [discriminate|]. destruct (g <? h); [discriminate|]. destruct (g =? h); discriminate. Qed.

Lemma anc_fold_empty (f : Z -> bool) p : forall l acc,
  fold_left (fun acc o => if f o then ainsert o [p] acc else acc) l acc = [] <-> acc = [] /\ existsb f l = false.
Proof.
  induction l as [|o l IH]; intros acc; cbn [fold_left existsb].
  - intuition.
  - rewrite IH. destruct (f o); cbn [orb].
    + split; [intros [H _]; exfalso; exact (ainsert_nonempty _ _ _ H)|intros [_ H]; discriminate].
    + reflexivity.
Qed.

Lemma zlen_nonneg {A} (l : list A) : 0 <= zlen l.
Proof. unfold zlen. lia. Qed.

Lemma count_fold_ge : forall l acc, acc <= fold_left (fun acc o => acc + count_in [] o) l acc.
Proof. induction l as [|o l IH]; intros acc; cbn [fold_left]; [lia|]. etransitivity; [|apply IH]. unfold count_in. pose proof (zlen_nonneg (sinter [] (poss cx o))). lia. Qed.

Lemma count_fold_mono opts : forall l acc, acc <= fold_left (fun acc o => acc + count_in opts o) l acc.
Proof.
  induction l as [|o l IH]; intros acc; cbn [fold_left]; [lia|].
  etransitivity; [|apply IH]. unfold count_in. pose proof (zlen_nonneg (sinter opts (poss cx o))). lia.
Qed.

(* the Minimum loop: counting only the genes with a non-empty intersection changes nothing *)
Lemma minimum_count opts : forall l acc,
  fold_left (fun acc e => acc + zlen (snd e))
            (filter (fun e : Z * list Z => match snd e with [] => false | _ => true end)
                    (map (fun o => (o, sinter opts (poss cx o))) l)) acc
  = fold_left (fun acc o => acc + count_in opts o) l acc.
Proof.
  induction l as [|o l IH]; intros acc; cbn [map filter fold_left]; [reflexivity|].
  cbn [snd]. unfold count_in at 2. destruct (sinter opts (poss cx o)) eqn:Hs.
  - rewrite IH. cbn. f_equal. lia.
  - cbn [fold_left snd]. rewrite IH. reflexivity.
Qed.

Definition item_met (g : Z) (local : bool) (it : item) : bool :=
  match it with
  | ICond c => met (eval cx c g local)
  | IAnd cs => forallb (fun c => met (eval cx c g local)) cs
  end.
Definition item_holds (g : Z) (local : bool) (it : item) : bool :=
  match it with
  | ICond c => holds c g local
  | IAnd cs => forallb (fun c => holds c g local) cs
  end.

Lemma met_items g local subs :
  met (or_combine (map (fun it => match it with
                         | ICond c' => eval cx c' g local
                         | IAnd cs => and_combine (map (fun c' => eval cx c' g local) cs) end) subs))
  = existsb (item_met g local) subs.
Proof.
  rewrite met_or_combine, existsb_map. apply existsb_ext_in. intros [c|cs] _; cbn [item_met]; [reflexivity|].
  rewrite met_and_combine, forallb_map. reflexivity.
Qed.

Theorem eval_met_holds : results_known ->
  forall c g local, met (eval cx c g local) = holds c g local.
Proof.
  intros Hk.
  apply (cond_ind2 (fun c => forall g local, met (eval cx c g local) = holds c g local)
                   (fun it => forall g local, item_met g local it = item_holds g local it)).
  - (* Single *)
    intros neg p g local. cbn [eval holds].
    destruct (local || has cx g p) eqn:Hlf.
    + cbn [met]. destruct local; cbn [negb andb]; [rewrite orb_false_r; reflexivity|].
      cbn [orb] in Hlf. rewrite Hlf. reflexivity.
    + apply orb_false_iff in Hlf. destruct Hlf as [-> Hf]. rewrite Hf. cbn [negb andb orb].
      unfold near. rewrite <- (scan_results_feats (fun o => has cx o p) g Hk (fun o => has_known o p)).
      match goal with |- context [fold_left ?f (result_others cx g) []] => destruct (fold_left f (result_others cx g) []) eqn:Hfold end.
      * apply anc_fold_empty in Hfold. destruct Hfold as [_ ->]. cbn [met]. destruct neg; reflexivity.
      * cbn [met]. destruct (existsb (fun o => has cx o p) (result_others cx g)) eqn:He.
        -- destruct neg; reflexivity.
        -- exfalso. assert (Hem : fold_left (fun acc o => if has cx o p then ainsert o [p] acc else acc)
                                           (result_others cx g) [] = []) by (apply anc_fold_empty; split; [reflexivity|exact He]).
           rewrite Hem in Hfold. discriminate.
  - (* Score *)
    intros neg p s g local. cbn [eval holds].
    destruct (scored cx g p s) eqn:Hs.
    + rewrite (scored_has _ _ _ Hs). cbn [andb met orb]. destruct neg; reflexivity.
    + rewrite andb_false_r. cbn [orb]. destruct local; cbn [negb andb met]; [destruct neg; reflexivity|].
      assert (Heq : existsb (fun o => in_range cx g o && has cx o p && scored cx o p s) (map fst (results cx))
                    = existsb (fun o => scored cx o p s) (near g)).
      { unfold near. rewrite <- (scan_results_feats (fun o => scored cx o p s) g Hk (fun o => scored_known o p s)).
        apply bool_eq_iff. unfold result_others. rewrite !existsb_exists. split.
        - intros (o & Hin & Ho). apply andb_true_iff in Ho. destruct Ho as [Ho Hsc].
          apply andb_true_iff in Ho. destruct Ho as [Hr _].
          exists o. split; [|exact Hsc]. apply filter_In. split; [exact Hin|].
          apply andb_true_iff. split; [|exact Hr].
          destruct (o =? g) eqn:Hog; [|reflexivity]. assert (o = g) by lia. subst. rewrite Hs in Hsc. discriminate.
        - intros (o & Hin & Hsc). apply filter_In in Hin. destruct Hin as [Hin Hq].
          apply andb_true_iff in Hq. destruct Hq as [_ Hr].
          exists o. split; [exact Hin|]. rewrite Hr, Hsc, (scored_has _ _ _ Hsc). reflexivity. }
      rewrite Heq. destruct (existsb _ (near g)); cbn [met]; destruct neg; reflexivity.
  - (* Minimum *)
    intros neg k opts g local. cbn [eval holds]. fold (count_in opts g).
    destruct (k <=? count_in opts g) eqn:Hown.
    + cbn [met]. pose proof (count_fold_mono opts (near g) (count_in opts g)) as Hm.
      match goal with |- _ = xorb neg ?b => replace b with true by (symmetry; lia) end.
      destruct neg; reflexivity.
    + rewrite minimum_count. unfold near.
      match goal with |- context [k <=? ?t] => destruct (k <=? t) end; cbn [met]; destruct neg; reflexivity.
  - (* Cds *)
    intros neg subs HF g local. cbn [eval holds]. rewrite Forall_forall in HF.
    assert (Hsat : forall g', met (or_combine (map (fun it => match it with
                         | ICond c' => eval cx c' g' true
                         | IAnd cs => and_combine (map (fun c' => eval cx c' g' true) cs) end) subs))
                   = existsb (item_holds g' true) subs).
    { intros g'. rewrite met_items. apply existsb_ext_in. intros it Hit. apply HF. exact Hit. }
    rewrite Hsat. fold (item_holds g true).
    replace (existsb (fun it => match it with ICond c' => holds c' g true | IAnd cs => forallb (fun c' => holds c' g true) cs end) subs)
      with (existsb (item_holds g true) subs) by reflexivity.
    destruct local; cbn [orb negb andb].
    + cbn [met]. rewrite orb_false_r. reflexivity.
    + destruct (existsb (item_holds g true) subs) eqn:Hown; cbn [met orb]; [reflexivity|].
      rewrite (existsb_ext_in _ (fun o => existsb (item_holds o true) subs) (feat_others cx g) (fun o _ => Hsat o)).
      unfold near. rewrite xorb_comm. reflexivity.
  - (* Group *)
    intros neg subs HF g local. cbn [eval holds met]. rewrite met_items. f_equal.
    rewrite Forall_forall in HF. apply existsb_ext_in. intros it Hit. apply HF. exact Hit.
  - (* ICond *) intros c IH g local. cbn [item_met item_holds]. apply IH.
  - (* IAnd *) intros cs HF g local. cbn [item_met item_holds]. rewrite Forall_forall in HF.
    apply forallb_ext_in. intros c Hc. apply HF. exact Hc.
Qed.

(* negation is plain negation *)
Definition negate (c : cond) : cond :=
  match c with
  | Single n p => Single (negb n) p
  | Score n p s => Score (negb n) p s
  | Minimum n k o => Minimum (negb n) k o
  | Cds n s => Cds (negb n) s
  | Group n s => Group (negb n) s
  end.
Lemma holds_negate c g local : holds (negate c) g local = negb (holds c g local).
Proof. destruct c; cbn [negate holds]; destruct neg; cbn [negb]; rewrite ?xorb_true_l, ?xorb_false_l, ?negb_involutive; reflexivity. Qed.

(* every reported reason is a profile that hits the evaluated gene itself *)
Theorem eval_matches_hit_gene :
  forall c g local y, In y (matches (eval cx c g local)) -> has cx g y = true.
Proof.
  apply (cond_ind2 (fun c => forall g local y, In y (matches (eval cx c g local)) -> has cx g y = true)
                   (fun it => forall g local y,
                      In y (matches (match it with
                                     | ICond c' => eval cx c' g local
                                     | IAnd cs => and_combine (map (fun c' => eval cx c' g local) cs) end)) ->
                      has cx g y = true)).
  - intros neg p g local y. cbn [eval]. destruct (local || has cx g p).
    + cbn [matches]. destruct (has cx g p) eqn:Hh; [|intros []]. intros [<-|[]]. exact Hh.
    + destruct (fold_left _ _ _); cbn [matches]; intros [].
  - intros neg p s g local y. cbn [eval]. destruct (has cx g p && scored cx g p s) eqn:Hh.
    + cbn [matches]. intros [<-|[]]. apply andb_true_iff in Hh. apply Hh.
    + destruct local; [intros []|]. destruct (existsb _ _); intros [].
  - intros neg k opts g local y. cbn [eval].
    assert (Hin : In y (sinter opts (poss cx g)) -> has cx g y = true).
    { intros H. apply sinter_In in H. apply smem_In. apply H. }
    destruct (k <=? zlen (sinter opts (poss cx g))); [exact Hin|].
    destruct (k <=? _); exact Hin.
  - intros neg subs HF g local y. cbn [eval]. rewrite Forall_forall in HF.
    match goal with |- context [if ?b then _ else _] => destruct b end; cbn [matches]; [|intros []].
    intros Hy. apply or_matches in Hy. destruct Hy as (r & Hr & Hy). apply in_map_iff in Hr.
    destruct Hr as (it & <- & Hit). exact (HF it Hit g true y Hy).
  - intros neg subs HF g local y. cbn [eval matches]. rewrite Forall_forall in HF.
    intros Hy. apply or_matches in Hy. destruct Hy as (r & Hr & Hy). apply in_map_iff in Hr.
    destruct Hr as (it & <- & Hit). exact (HF it Hit g local y Hy).
  - intros c IH g local y. apply IH.
  - intros cs HF g local y Hy. rewrite Forall_forall in HF. apply and_matches in Hy.
    destruct Hy as (r & Hr & Hy). apply in_map_iff in Hr. destruct Hr as (c & <- & Hc). exact (HF c Hc g local y Hy).
Qed.

(* ---------- reasons: soundness and completeness ---------- *)
Definition item_matches (g : Z) (local : bool) (it : item) : list Z :=
  matches (match it with
           | ICond c' => eval cx c' g local
           | IAnd cs => and_combine (map (fun c' => eval cx c' g local) cs) end).
Definition item_reasons (g : Z) (local : bool) (it : item) : list Z :=
  match it with
  | ICond c' => reasons_raw c' g local
  | IAnd cs => flat_map (fun c' => reasons_raw c' g local) cs
  end.

Lemma matches_items g local subs y :
  (forall it, In it subs -> forall z, In z (item_matches g local it) <-> In z (item_reasons g local it)) ->
  In y (matches (or_combine (map (fun it => match it with
                         | ICond c' => eval cx c' g local
                         | IAnd cs => and_combine (map (fun c' => eval cx c' g local) cs) end) subs)))
  <-> In y (flat_map (item_reasons g local) subs).
Proof.
  intros H. rewrite or_matches, in_flat_map. split.
  - intros (r & Hr & Hy). apply in_map_iff in Hr. destruct Hr as (it & <- & Hit).
    exists it. split; [exact Hit|]. apply (H it Hit). exact Hy.
  - intros (it & Hit & Hy). eexists. split; [apply in_map_iff; exists it; split; [reflexivity|exact Hit]|].
    apply (H it Hit) in Hy. exact Hy.
Qed.

Lemma sat_local_met (Hk : results_known) subs g :
  met (or_combine (map (fun it => match it with
                         | ICond c' => eval cx c' g true
                         | IAnd cs => and_combine (map (fun c' => eval cx c' g true) cs) end) subs))
  = sat_local cx subs g.
Proof.
  rewrite met_items. unfold sat_local. apply existsb_ext_in. intros [c|cs] _; cbn [item_met].
  - apply eval_met_holds. exact Hk.
  - apply forallb_ext_in. intros c _. apply eval_met_holds. exact Hk.
Qed.

Theorem eval_matches_reasons_raw : results_known ->
  forall c g local y, In y (matches (eval cx c g local)) <-> In y (reasons_raw c g local).
Proof.
  intros Hk.
  apply (cond_ind2 (fun c => forall g local y, In y (matches (eval cx c g local)) <-> In y (reasons_raw c g local))
                   (fun it => forall g local y, In y (item_matches g local it) <-> In y (item_reasons g local it))).
  - (* Single *)
    intros neg p g local y. cbn [eval Model.reasons_raw]. destruct (has cx g p) eqn:Hh.
    + rewrite orb_true_r. cbn [matches]. reflexivity.
    + rewrite orb_false_r. destruct local; cbn [matches]; [reflexivity|].
      destruct (fold_left _ _ _); cbn [matches]; reflexivity.
  - (* Score *)
    intros neg p s g local y. cbn [eval Model.reasons_raw]. destruct (scored cx g p s) eqn:Hs.
    + rewrite (scored_has _ _ _ Hs). cbn [andb matches]. reflexivity.
    + rewrite andb_false_r. destruct local; cbn [matches]; [reflexivity|].
      destruct (existsb _ _); cbn [matches]; reflexivity.
  - (* Minimum *)
    intros neg k opts g local y. cbn [eval Model.reasons_raw].
    assert (Hin : In y (sinter opts (poss cx g)) <-> In y (filter (fun p => has cx g p) opts)).
    { rewrite sinter_In, filter_In. unfold has. rewrite smem_In. reflexivity. }
    destruct (k <=? zlen (sinter opts (poss cx g))); [exact Hin|].
    destruct (k <=? _); exact Hin.
  - (* Cds *)
    intros neg subs HF g local y. cbn [eval Model.reasons_raw]. rewrite Forall_forall in HF.
    rewrite (sat_local_met Hk).
    destruct (local || sat_local cx subs g); cbn [matches]; [|reflexivity].
    apply (matches_items g true subs y). intros it Hit z. apply (HF it Hit).
  - (* Group *)
    intros neg subs HF g local y. cbn [eval matches Model.reasons_raw]. rewrite Forall_forall in HF.
    apply (matches_items g local subs y). intros it Hit z. apply (HF it Hit).
  - intros c IH g local y. apply IH.
  - intros cs HF g local y. unfold item_matches, item_reasons. rewrite Forall_forall in HF.
    rewrite and_matches, in_flat_map. split.
    + intros (r & Hr & Hy). apply in_map_iff in Hr. destruct Hr as (c & <- & Hc).
      exists c. split; [exact Hc|]. apply (HF c Hc). exact Hy.
    + intros (c & Hc & Hy). eexists. split; [apply in_map_iff; exists c; split; [reflexivity|exact Hc]|].
      apply (HF c Hc). exact Hy.
Qed.

(* ---------- canonical form: reasons are reported as a strictly increasing list ---------- *)
Fixpoint ssorted (l : list Z) : Prop :=
  match l with [] => True | x :: r => (forall y, In y r -> x < y) /\ ssorted r end.

Lemma sinsert_sorted x l : ssorted l -> ssorted (sinsert x l).
Proof.
  induction l as [|z l IH]; cbn [sinsert ssorted].
  - intros _. split; [intros y []|exact I].
  - intros [Hz Hl]. destruct (x <? z) eqn:H1.
    + cbn [ssorted]. split; [|split; assumption].
      intros y [<-|Hy]; [lia|]. specialize (Hz y Hy). lia.
    + destruct (x =? z) eqn:H2; [cbn [ssorted]; split; assumption|].
      cbn [ssorted]. split; [|apply IH; exact Hl].
      intros y Hy. apply sinsert_In in Hy. destruct Hy as [->|Hy]; [lia|apply Hz; exact Hy].
Qed.
Lemma sunion_sorted_acc : forall a acc, ssorted acc -> ssorted (fold_left (fun acc x => sinsert x acc) a acc).
Proof. induction a as [|x a IH]; intros acc H; cbn [fold_left]; [exact H|]. apply IH. apply sinsert_sorted. exact H. Qed.
Lemma sunion_sorted a b : ssorted b -> ssorted (sunion a b).
Proof. apply sunion_sorted_acc. Qed.
Lemma sof_sorted l : ssorted (sof l).
Proof. apply sunion_sorted. exact I. Qed.
Lemma filter_sorted f l : ssorted l -> ssorted (filter f l).
Proof.
  induction l as [|x l IH]; cbn [filter ssorted]; [trivial|]. intros [Hx Hl].
  destruct (f x); [|apply IH; exact Hl]. cbn [ssorted]. split; [|apply IH; exact Hl].
  intros y Hy. apply filter_In in Hy. apply Hx. apply Hy.
Qed.
Lemma ssorted_ext : forall a b, ssorted a -> ssorted b -> (forall y, In y a <-> In y b) -> a = b.
Proof.
  induction a as [|x a IH]; intros [|z b] Ha Hb H.
  - reflexivity.
  - exfalso. apply (H z). left. reflexivity.
  - exfalso. apply (H x). left. reflexivity.
  - cbn [ssorted] in Ha, Hb. destruct Ha as [Hx Ha]. destruct Hb as [Hz Hb].
    assert (x = z).
    { pose proof (proj1 (H x) (or_introl eq_refl)) as H1. pose proof (proj2 (H z) (or_introl eq_refl)) as H2.
      destruct H1 as [H1|H1]; [lia|]. destruct H2 as [H2|H2]; [lia|].
      specialize (Hz x H1). specialize (Hx z H2). lia. }
    subst z. f_equal. apply IH; [exact Ha|exact Hb|].
    intros y. split; intros Hy.
    + destruct (proj1 (H y) (or_intror Hy)) as [Heq|H1]; [|exact H1]. exfalso. specialize (Hx y Hy). lia.
    + destruct (proj2 (H y) (or_intror Hy)) as [Heq|H1]; [|exact H1]. exfalso. specialize (Hz y Hy). lia.
Qed.

Lemma or_combine_sorted_acc : forall rs acc, ssorted (matches acc) ->
  ssorted (matches (fold_left (fun acc r => mkRes (met acc || met r) (sunion (matches r) (matches acc)) (amerge (ancs r) (ancs acc))) rs acc)).
Proof. induction rs as [|r rs IH]; intros acc H; cbn [fold_left]; [exact H|]. apply IH. cbn [matches]. apply sunion_sorted. exact H. Qed.
Lemma or_combine_sorted rs : ssorted (matches (or_combine rs)).
Proof. apply or_combine_sorted_acc. exact I. Qed.

Lemma eval_matches_sorted c g local : ssorted (matches (eval cx c g local)).
Proof.
  destruct c as [neg p|neg p s|neg k opts|neg subs|neg subs]; cbn [eval].
  - destruct (local || has cx g p).
    + cbn [matches]. destruct (has cx g p); cbn; auto. split; [intros y []|exact I].
    + destruct (fold_left _ _ _); cbn; exact I.
  - destruct (has cx g p && scored cx g p s); [cbn; split; [intros y []|exact I]|].
    destruct local; [cbn; exact I|]. destruct (existsb _ _); cbn; exact I.
  - assert (H : ssorted (sinter opts (poss cx g))) by (unfold sinter; apply filter_sorted, sof_sorted).
    destruct (k <=? _); [exact H|]. destruct (k <=? _); exact H.
  - match goal with |- context [if ?b then _ else _] => destruct b end; cbn [matches]; [apply or_combine_sorted|exact I].
  - cbn [matches]. apply or_combine_sorted.
Qed.

Theorem eval_matches_reasons : results_known ->
  forall c g local, matches (eval cx c g local) = reasons c g local.
Proof.
  intros Hk c g local. apply ssorted_ext; [apply eval_matches_sorted|apply sof_sorted|].
  intros y. unfold Model.reasons. rewrite sof_In. apply eval_matches_reasons_raw. exact Hk.
Qed.

Lemma nonempty_In {A} (l : list A) : nonempty l = true <-> exists y, In y l.
Proof. destruct l as [|x l]; cbn; split; [discriminate|intros (y & [])|intros _; exists x; left; reflexivity|reflexivity]. Qed.

(* anchor: reported as anchoring <=> formula true /\ at least one reason *)
Theorem is_anchor_anchors : results_known -> forall c g, is_anchor (detect cx c g) = anchors cx c g.
Proof.
  intros Hk c g. unfold is_anchor, anchors, detect. rewrite (eval_met_holds Hk), (eval_matches_reasons Hk). reflexivity.
Qed.

(* ---------- ancillary hits ---------- *)
Definition anc_mem (a : anc) (o p : Z) : Prop := exists ps, In (o, ps) a /\ In p ps.

Lemma anc_mem_nil o p : anc_mem [] o p <-> False.
Proof. split; [intros (ps & [] & _)|intros []]. Qed.
Lemma anc_mem_cons h qs r o p : anc_mem ((h, qs) :: r) o p <-> (o = h /\ In p qs) \/ anc_mem r o p.
Proof.
  unfold anc_mem. split.
  - intros (ps & [Heq|Hin] & Hp); [inversion Heq; subst; left; split; [reflexivity|exact Hp]|right; exists ps; split; assumption].
  - intros [[-> Hp]|(ps & Hin & Hp)]; [exists qs; split; [left; reflexivity|exact Hp]|exists ps; split; [right; exact Hin|exact Hp]].
Qed.
Lemma ainsert_mem g ps a o p : anc_mem (ainsert g ps a) o p <-> (o = g /\ In p ps) \/ anc_mem a o p.
Proof.
  induction a as [|[h qs] r IH]; cbn [ainsert].
  - rewrite anc_mem_cons. reflexivity.
  - destruct (g <? h) eqn:H1; [rewrite anc_mem_cons; reflexivity|].
    destruct (g =? h) eqn:H2.
    + assert (g = h) by lia. subst h. rewrite !anc_mem_cons, sunion_In. tauto.
    + rewrite !anc_mem_cons, IH. tauto.
Qed.
Lemma amerge_mem_acc : forall a acc o p,
  anc_mem (fold_left (fun acc e => ainsert (fst e) (snd e) acc) a acc) o p <-> anc_mem a o p \/ anc_mem acc o p.
Proof.
  induction a as [|[h qs] a IH]; intros acc o p; cbn [fold_left].
  - rewrite anc_mem_nil. tauto.
  - rewrite IH, ainsert_mem, anc_mem_cons. cbn [fst snd]. tauto.
Qed.
Lemma amerge_mem a b o p : anc_mem (amerge a b) o p <-> anc_mem a o p \/ anc_mem b o p.
Proof. apply amerge_mem_acc. Qed.

Lemma or_ancs_acc : forall rs acc o p,
  anc_mem (ancs (fold_left (fun acc r => mkRes (met acc || met r) (sunion (matches r) (matches acc)) (amerge (ancs r) (ancs acc))) rs acc)) o p
  <-> anc_mem (ancs acc) o p \/ exists r, In r rs /\ anc_mem (ancs r) o p.
Proof.
  induction rs as [|r rs IH]; intros acc o p; cbn [fold_left].
  - split; [intros H; left; exact H|intros [H|(r & [] & _)]; exact H].
  - rewrite IH. cbn [ancs]. rewrite amerge_mem. split.
    + intros [[H|H]|(r' & Hr & Hy)].
      * right. exists r. split; [left; reflexivity|exact H].
      * left. exact H.
      * right. exists r'. split; [right; exact Hr|exact Hy].
    + intros [H|(r' & [Hr|Hr] & Hy)].
      * left. right. exact H.
      * subst. left. left. exact Hy.
      * right. exists r'. split; assumption.
Qed.
Lemma or_ancs rs o p : anc_mem (ancs (or_combine rs)) o p <-> exists r, In r rs /\ anc_mem (ancs r) o p.
Proof. unfold or_combine. rewrite or_ancs_acc. cbn [ancs]. rewrite anc_mem_nil. tauto. Qed.
Lemma and_ancs_acc : forall rs acc o p,
  anc_mem (ancs (fold_left (fun acc r => mkRes (met acc && met r) (sunion (matches r) (matches acc)) (amerge (ancs r) (ancs acc))) rs acc)) o p
  <-> anc_mem (ancs acc) o p \/ exists r, In r rs /\ anc_mem (ancs r) o p.
Proof.
  induction rs as [|r rs IH]; intros acc o p; cbn [fold_left].
  - split; [intros H; left; exact H|intros [H|(r & [] & _)]; exact H].
  - rewrite IH. cbn [ancs]. rewrite amerge_mem. split.
    + intros [[H|H]|(r' & Hr & Hy)].
      * right. exists r. split; [left; reflexivity|exact H].
      * left. exact H.
      * right. exists r'. split; [right; exact Hr|exact Hy].
    + intros [H|(r' & [Hr|Hr] & Hy)].
      * left. right. exact H.
      * subst. left. left. exact Hy.
      * right. exists r'. split; assumption.
Qed.
Lemma and_ancs rs o p : anc_mem (ancs (and_combine rs)) o p <-> exists r, In r rs /\ anc_mem (ancs r) o p.
Proof. unfold and_combine. rewrite and_ancs_acc. cbn [ancs]. rewrite anc_mem_nil. tauto. Qed.

Lemma single_fold_mem (f : Z -> bool) q : forall l acc o p,
  anc_mem (fold_left (fun acc o' => if f o' then ainsert o' [q] acc else acc) l acc) o p
  <-> anc_mem acc o p \/ (In o l /\ f o = true /\ p = q).
Proof.
  induction l as [|x l IH]; intros acc o p; cbn [fold_left].
  - cbn [In]. tauto.
  - rewrite IH. destruct (f x) eqn:Hf.
    + rewrite ainsert_mem. cbn [In]. split.
      * intros [[[-> [<-|[]]]|H]|(H1 & H2 & H3)]; [right; auto|left; exact H|right; auto].
      * intros [H|([<-|H1] & H2 & H3)]; [left; right; exact H|left; left; split; [reflexivity|left; symmetry; exact H3]|right; auto].
    + cbn [In]. split.
      * intros [H|(H1 & H2 & H3)]; [left; exact H|right; auto].
      * intros [H|([<-|H1] & H2 & H3)]; [left; exact H|congruence|right; auto].
Qed.

Definition item_ancs (g : Z) (local : bool) (it : item) : anc :=
  ancs (match it with
        | ICond c' => eval cx c' g local
        | IAnd cs => and_combine (map (fun c' => eval cx c' g local) cs) end).
Definition item_anc_has (g : Z) (local : bool) (o p : Z) (it : item) : bool :=
  match it with
  | ICond c' => anc_has c' g local o p
  | IAnd cs => existsb (fun c' => anc_has c' g local o p) cs
  end.

Theorem eval_ancs_spec : results_known ->
  forall c g local o p, anc_mem (ancs (eval cx c g local)) o p <-> anc_has c g local o p = true.
Proof.
  intros Hk.
  apply (cond_ind2 (fun c => forall g local o p, anc_mem (ancs (eval cx c g local)) o p <-> anc_has c g local o p = true)
                   (fun it => forall g local o p, anc_mem (item_ancs g local it) o p <-> item_anc_has g local o p it = true)).
  - (* Single *)
    intros neg q g local o p. cbn [eval Model.anc_has].
    destruct local; cbn [orb negb andb]; [cbn [ancs]; rewrite anc_mem_nil; split; [intros []|discriminate]|].
    destruct (has cx g q) eqn:Hh; cbn [negb andb]; [cbn [ancs]; rewrite anc_mem_nil; split; [intros []|discriminate]|].
    match goal with |- anc_mem (ancs (match ?a with [] => _ | _ => _ end)) _ _ <-> _ =>
      assert (Heq : ancs (match a with [] => mkRes neg [] [] | _ => mkRes (negb neg) [] a end) = a) by (destruct a; reflexivity);
      rewrite Heq; clear Heq end.
    rewrite single_fold_mem, anc_mem_nil. split.
    + intros [[]|(Hin & Hf & ->)]. unfold result_others in Hin. apply filter_In in Hin. destruct Hin as [Hin Hr].
      rewrite Z.eqb_refl, Hf. cbn [andb]. rewrite andb_true_r. apply smem_In. unfold Model.near, feat_others.
      apply filter_In. split; [apply Hk; exact Hin|exact Hr].
    + intros H. apply andb_true_iff in H. destruct H as [H Hf]. apply andb_true_iff in H. destruct H as [Hpq Hn].
      assert (p = q) by lia. subst p. apply smem_In in Hn. unfold Model.near, feat_others in Hn.
      apply filter_In in Hn. destruct Hn as [_ Hr]. right. split; [|split; [exact Hf|reflexivity]].
      unfold result_others. apply filter_In. split; [apply (has_known _ _ Hf)|exact Hr].
  - (* Score *)
    intros neg q s g local o p. cbn [eval Model.anc_has].
    destruct (has cx g q && scored cx g q s); [cbn [ancs]; rewrite anc_mem_nil; split; [intros []|discriminate]|].
    destruct local; [cbn [ancs]; rewrite anc_mem_nil; split; [intros []|discriminate]|].
    destruct (existsb _ _); cbn [ancs]; rewrite anc_mem_nil; (split; [intros []|discriminate]).
  - (* Minimum *)
    intros neg k opts g local o p. cbn [eval Model.anc_has]. fold (count_in opts g).
    destruct (k <=? count_in opts g) eqn:Hown; cbn [negb andb]; [cbn [ancs]; rewrite anc_mem_nil; split; [intros []|discriminate]|].
    rewrite minimum_count. unfold count_total, Model.near.
    destruct (k <=? fold_left _ _ _); cbn [andb]; [|cbn [ancs]; rewrite anc_mem_nil; split; [intros []|discriminate]].
    cbn [ancs]. rewrite amerge_mem, anc_mem_nil. rewrite !andb_true_iff, !smem_In. unfold anc_mem. split.
    + intros [(ps & Hin & Hp)|[]]. apply filter_In in Hin. destruct Hin as [Hin _].
      apply in_map_iff in Hin. destruct Hin as (o' & Heq & Ho). inversion Heq; subst. apply sinter_In in Hp.
      repeat split; [exact Ho|apply Hp|apply smem_In; apply Hp].
    + intros ((Ho & Hp) & Hh). left. exists (sinter opts (poss cx o)).
      assert (Hy : In p (sinter opts (poss cx o))) by (apply sinter_In; split; [exact Hp|apply smem_In; exact Hh]).
      split; [|exact Hy]. apply filter_In. split.
      * apply in_map_iff. exists o. split; [reflexivity|exact Ho].
      * cbn [snd]. destruct (sinter opts (poss cx o)); [destruct Hy|reflexivity].
  - (* Cds *)
    intros neg subs _ g local o p. cbn [eval Model.anc_has].
    match goal with |- context [if ?b then _ else _] => destruct b end; cbn [ancs]; rewrite anc_mem_nil; (split; [intros []|discriminate]).
  - (* Group *)
    intros neg subs HF g local o p. cbn [eval ancs Model.anc_has]. rewrite Forall_forall in HF.
    rewrite or_ancs, existsb_exists. split.
    + intros (r & Hr & Hy). apply in_map_iff in Hr. destruct Hr as (it & <- & Hit).
      exists it. split; [exact Hit|]. apply (HF it Hit g local o p). exact Hy.
    + intros (it & Hit & Hy). eexists. split; [apply in_map_iff; exists it; split; [reflexivity|exact Hit]|].
      apply (HF it Hit g local o p). exact Hy.
  - intros c IH g local o p. apply IH.
  - intros cs HF g local o p. unfold item_ancs, item_anc_has. rewrite Forall_forall in HF.
    rewrite and_ancs, existsb_exists. split.
    + intros (r & Hr & Hy). apply in_map_iff in Hr. destruct Hr as (c & <- & Hc).
      exists c. split; [exact Hc|]. apply (HF c Hc). exact Hy.
    + intros (c & Hc & Hy). eexists. split; [apply in_map_iff; exists c; split; [reflexivity|exact Hc]|].
      apply (HF c Hc). exact Hy.
Qed.
End Spec.

(* ---------- ancillary entries are never empty; keys ---------- *)
Definition anc_wf (a : anc) : Prop := forall o ps, In (o, ps) a -> ps <> [].

Lemma keys_mem a o : anc_wf a -> (In o (map fst a) <-> exists p, anc_mem a o p).
Proof.
  intros Hw. split.
  - intros H. apply in_map_iff in H. destruct H as ((o', ps) & Heq & Hin). cbn [fst] in Heq. subst o'.
    pose proof (Hw o ps Hin) as Hne. destruct ps as [|p ps']; [contradiction|].
    exists p, (p :: ps'). split; [exact Hin|left; reflexivity].
  - intros (p & ps & Hin & _). apply in_map_iff. exists (o, ps). split; [reflexivity|exact Hin].
Qed.

Lemma sunion_nonempty ps qs : ps <> [] -> sunion ps qs <> [].
Proof.
  destruct ps as [|x ps']; [contradiction|]. intros _ H.
  assert (Hin : In x (sunion (x :: ps') qs)) by (apply sunion_In; left; left; reflexivity).
  rewrite H in Hin. destruct Hin.
Qed.
Lemma ainsert_wf g ps a : ps <> [] -> anc_wf a -> anc_wf (ainsert g ps a).
Proof.
  intros Hps. induction a as [|[h qs] r IH]; intros Hw; cbn [ainsert].
  - intros o ps' [Heq|[]]. inversion Heq; subst. exact Hps.
  - assert (Hr : anc_wf r) by (intros o ps' Hin; apply (Hw o ps'); right; exact Hin).
    destruct (g <? h).
    + intros o ps' [Heq|Hin]; [inversion Heq; subst; exact Hps|apply (Hw o ps' Hin)].
    + destruct (g =? h).
      * intros o ps' [Heq|Hin]; [inversion Heq; subst; apply sunion_nonempty; exact Hps|apply (Hr o ps' Hin)].
      * intros o ps' [Heq|Hin]; [inversion Heq; subst; apply (Hw o ps'); left; reflexivity|apply (IH Hr o ps' Hin)].
Qed.
Lemma amerge_wf_acc : forall a acc, anc_wf a -> anc_wf acc ->
  anc_wf (fold_left (fun acc e => ainsert (fst e) (snd e) acc) a acc).
Proof.
  induction a as [|[h qs] a IH]; intros acc Ha Hacc; cbn [fold_left]; [exact Hacc|].
  apply IH.
  - intros o ps Hin. apply (Ha o ps). right. exact Hin.
  - cbn [fst snd]. apply ainsert_wf; [apply (Ha h qs); left; reflexivity|exact Hacc].
Qed.
Lemma amerge_wf a b : anc_wf a -> anc_wf b -> anc_wf (amerge a b).
Proof. apply amerge_wf_acc. Qed.
Lemma anc_wf_nil : anc_wf [].
Proof. intros o ps []. Qed.

Lemma or_ancs_wf_acc : forall rs acc, anc_wf (ancs acc) -> (forall r, In r rs -> anc_wf (ancs r)) ->
  anc_wf (ancs (fold_left (fun acc r => mkRes (met acc || met r) (sunion (matches r) (matches acc)) (amerge (ancs r) (ancs acc))) rs acc)).
Proof.
  induction rs as [|r rs IH]; intros acc Ha Hr; cbn [fold_left]; [exact Ha|].
  apply IH; [cbn [ancs]; apply amerge_wf; [apply Hr; left; reflexivity|exact Ha]|intros r' Hin; apply Hr; right; exact Hin].
Qed.
Lemma and_ancs_wf_acc : forall rs acc, anc_wf (ancs acc) -> (forall r, In r rs -> anc_wf (ancs r)) ->
  anc_wf (ancs (fold_left (fun acc r => mkRes (met acc && met r) (sunion (matches r) (matches acc)) (amerge (ancs r) (ancs acc))) rs acc)).
Proof.
  induction rs as [|r rs IH]; intros acc Ha Hr; cbn [fold_left]; [exact Ha|].
  apply IH; [cbn [ancs]; apply amerge_wf; [apply Hr; left; reflexivity|exact Ha]|intros r' Hin; apply Hr; right; exact Hin].
Qed.
Lemma single_fold_wf (f : Z -> bool) q : forall l acc, anc_wf acc ->
  anc_wf (fold_left (fun acc o' => if f o' then ainsert o' [q] acc else acc) l acc).
Proof.
  induction l as [|x l IH]; intros acc Ha; cbn [fold_left]; [exact Ha|].
  apply IH. destruct (f x); [apply ainsert_wf; [discriminate|exact Ha]|exact Ha].
Qed.

Theorem eval_ancs_wf cx : forall c g local, anc_wf (ancs (eval cx c g local)).
Proof.
  apply (cond_ind2 (fun c => forall g local, anc_wf (ancs (eval cx c g local)))
                   (fun it => forall g local, anc_wf (item_ancs cx g local it))).
  - intros neg q g local. cbn [eval]. destruct (local || has cx g q); [apply anc_wf_nil|].
    match goal with |- anc_wf (ancs (match ?a with [] => _ | _ => _ end)) =>
      assert (Heq : ancs (match a with [] => mkRes neg [] [] | _ => mkRes (negb neg) [] a end) = a) by (destruct a; reflexivity);
      rewrite Heq; clear Heq end.
    apply single_fold_wf. apply anc_wf_nil.
  - intros neg q s g local. cbn [eval]. destruct (has cx g q && scored cx g q s); [apply anc_wf_nil|].
    destruct local; [apply anc_wf_nil|]. destruct (existsb _ _); apply anc_wf_nil.
  - intros neg k opts g local. cbn [eval]. destruct (k <=? _); [apply anc_wf_nil|].
    destruct (k <=? _); [|apply anc_wf_nil]. cbn [ancs]. apply amerge_wf; [|apply anc_wf_nil].
    intros o ps Hin. apply filter_In in Hin. destruct Hin as [_ Hne]. cbn [snd] in Hne. intros ->. discriminate.
  - intros neg subs _ g local. cbn [eval].
    match goal with |- context [if ?b then _ else _] => destruct b end; apply anc_wf_nil.
  - intros neg subs HF g local. cbn [eval ancs]. rewrite Forall_forall in HF. unfold or_combine.
    apply or_ancs_wf_acc; [apply anc_wf_nil|]. intros r Hr. apply in_map_iff in Hr. destruct Hr as (it & <- & Hit).
    apply (HF it Hit g local).
  - intros c IH g local. apply IH.
  - intros cs HF g local. unfold item_ancs, and_combine. rewrite Forall_forall in HF.
    apply and_ancs_wf_acc; [apply anc_wf_nil|]. intros r Hr. apply in_map_iff in Hr. destruct Hr as (c & <- & Hc).
    apply (HF c Hc g local).
Qed.

(* an ancillary gene is another known gene, closer than the cutoff, carrying a profile of the rule *)
Theorem anc_has_in_range cx : forall c g local o p, anc_has cx c g local o p = true ->
  In o (near cx g) /\ has cx o p = true /\ In p (profiles c).
Proof.
  apply (cond_ind2 (fun c => forall g local o p, anc_has cx c g local o p = true ->
                              In o (near cx g) /\ has cx o p = true /\ In p (profiles c))
                   (fun it => forall g local o p, item_anc_has cx g local o p it = true ->
                              In o (near cx g) /\ has cx o p = true /\
                              In p (match it with ICond c' => profiles c' | IAnd cs => flat_map profiles cs end))).
  - intros neg q g local o p H. cbn [anc_has] in H.
    apply andb_true_iff in H. destruct H as [H Hh]. apply andb_true_iff in H. destruct H as [H Hn].
    apply andb_true_iff in H. destruct H as [_ Hpq].
    assert (p = q) by lia. subst. repeat split; [apply smem_In; exact Hn|exact Hh|left; reflexivity].
  - intros neg q s g local o p H. discriminate.
  - intros neg k opts g local o p H. cbn [anc_has] in H.
    apply andb_true_iff in H. destruct H as [H Hh]. apply andb_true_iff in H. destruct H as [H Hp].
    apply andb_true_iff in H. destruct H as [_ Hn].
    repeat split; [apply smem_In; exact Hn|exact Hh|apply smem_In; exact Hp].
  - intros neg subs _ g local o p H. discriminate.
  - intros neg subs HF g local o p H. cbn [anc_has] in H. rewrite Forall_forall in HF.
    apply existsb_exists in H. destruct H as (it & Hit & H).
    destruct (HF it Hit g local o p H) as (H1 & H2 & H3). repeat split; [exact H1|exact H2|].
    cbn [profiles]. apply in_flat_map. exists it. split; [exact Hit|exact H3].
  - intros c IH g local o p H. apply IH in H. exact H.
  - intros cs HF g local o p H. cbn [item_anc_has] in H. rewrite Forall_forall in HF.
    apply existsb_exists in H. destruct H as (c & Hc & H).
    destruct (HF c Hc g local o p H) as (H1 & H2 & H3). repeat split; [exact H1|exact H2|].
    apply in_flat_map. exists c. split; [exact Hc|exact H3].
Qed.

Lemma near_spec cx g o : In o (near cx g) <-> In o (map fst (feats cx)) /\ o <> g /\ in_range cx g o = true.
Proof.
  unfold near, feat_others. rewrite filter_In, andb_true_iff. split.
  - intros (H1 & H2 & H3). repeat split; [exact H1|lia|exact H3].
  - intros (H1 & H2 & H3). repeat split; [exact H1|lia|exact H3].
Qed.

(* reasons are profiles of the rule that hit the gene *)
Theorem reasons_raw_profiles cx : forall c g local y, In y (reasons_raw cx c g local) ->
  In y (profiles c) /\ has cx g y = true.
Proof.
  apply (cond_ind2 (fun c => forall g local y, In y (reasons_raw cx c g local) -> In y (profiles c) /\ has cx g y = true)
                   (fun it => forall g local y, In y (item_reasons cx g local it) ->
                      In y (match it with ICond c' => profiles c' | IAnd cs => flat_map profiles cs end) /\ has cx g y = true)).
  - intros neg p g local y. cbn [reasons_raw profiles]. destruct (has cx g p) eqn:Hh; [|intros []].
    intros [<-|[]]. split; [left; reflexivity|exact Hh].
  - intros neg p s g local y. cbn [reasons_raw profiles]. destruct (scored cx g p s) eqn:Hs; [|intros []].
    intros [<-|[]]. split; [left; reflexivity|apply (scored_has cx _ _ _ Hs)].
  - intros neg k opts g local y. cbn [reasons_raw profiles]. intros H. apply filter_In in H. exact H.
  - intros neg subs HF g local y. cbn [reasons_raw profiles]. rewrite Forall_forall in HF.
    destruct (local || sat_local cx subs g); [|intros []].
    intros H. apply in_flat_map in H. destruct H as (it & Hit & H).
    destruct (HF it Hit g true y H) as [H1 H2]. split; [|exact H2]. apply in_flat_map. exists it. split; [exact Hit|exact H1].
  - intros neg subs HF g local y. cbn [reasons_raw profiles]. rewrite Forall_forall in HF.
    intros H. apply in_flat_map in H. destruct H as (it & Hit & H).
    destruct (HF it Hit g local y H) as [H1 H2]. split; [|exact H2]. apply in_flat_map. exists it. split; [exact Hit|exact H1].
  - intros c IH g local y H. apply IH in H. exact H.
  - intros cs HF g local y H. cbn [item_reasons] in H. rewrite Forall_forall in HF.
    apply in_flat_map in H. destruct H as (c & Hc & H).
    destruct (HF c Hc g local y H) as [H1 H2]. split; [|exact H2]. apply in_flat_map. exists c. split; [exact Hc|exact H1].
Qed.

(* ---------- the property text's reading of the cds proviso ---------- *)
Definition item_all (f : cond -> bool) (it : item) : bool :=
  match it with ICond c' => f c' | IAnd cs => forallb f cs end.
Fixpoint no_cds (c : cond) : bool :=
  match c with
  | Single _ _ | Score _ _ _ | Minimum _ _ _ => true
  | Cds _ _ => false
  | Group _ subs => forallb (fun it => match it with ICond c' => no_cds c' | IAnd cs => forallb no_cds cs end) subs
  end.
(* no cds(...) inside a cds(...): all the rule grammar can produce *)
Fixpoint cds_flat (c : cond) : bool :=
  match c with
  | Single _ _ | Score _ _ _ | Minimum _ _ _ => true
  | Cds _ subs => forallb (fun it => match it with ICond c' => no_cds c' | IAnd cs => forallb no_cds cs end) subs
  | Group _ subs => forallb (fun it => match it with ICond c' => cds_flat c' | IAnd cs => forallb cds_flat cs end) subs
  end.

Lemma flat_map_ext_in {A B} (f h : A -> list B) l : (forall x, In x l -> f x = h x) -> flat_map f l = flat_map h l.
Proof.
  induction l as [|x l IH]; cbn [flat_map]; intros H; [reflexivity|].
  rewrite H by (left; reflexivity). rewrite IH; [reflexivity|]. intros y Hy. apply H. right. exact Hy.
Qed.

Definition item_reasons_text cx (g : Z) (it : item) : list Z :=
  match it with
  | ICond c' => reasons_text_raw cx c' g
  | IAnd cs => flat_map (fun c' => reasons_text_raw cx c' g) cs
  end.

Lemma no_cds_reasons cx : forall c g local, no_cds c = true -> reasons_raw cx c g local = reasons_text_raw cx c g.
Proof.
  apply (cond_ind2 (fun c => forall g local, no_cds c = true -> reasons_raw cx c g local = reasons_text_raw cx c g)
                   (fun it => forall g local, item_all no_cds it = true -> item_reasons cx g local it = item_reasons_text cx g it)).
  - reflexivity.
  - reflexivity.
  - reflexivity.
  - intros neg subs _ g local H. discriminate.
  - intros neg subs HF g local H. cbn [no_cds] in H. cbn [reasons_raw reasons_text_raw]. rewrite Forall_forall in HF.
    rewrite forallb_forall in H. apply flat_map_ext_in. intros it Hit. apply (HF it Hit g local). apply (H it Hit).
  - intros c IH g local H. apply IH. exact H.
  - intros cs HF g local H. cbn [item_all] in H. cbn [item_reasons item_reasons_text]. rewrite Forall_forall in HF.
    rewrite forallb_forall in H. apply flat_map_ext_in. intros c Hc. apply (HF c Hc g local). apply (H c Hc).
Qed.

Theorem cds_flat_reasons cx : forall c g, cds_flat c = true -> reasons_raw cx c g false = reasons_text_raw cx c g.
Proof.
  apply (cond_ind2 (fun c => forall g, cds_flat c = true -> reasons_raw cx c g false = reasons_text_raw cx c g)
                   (fun it => forall g, item_all cds_flat it = true -> item_reasons cx g false it = item_reasons_text cx g it)).
  - reflexivity.
  - reflexivity.
  - reflexivity.
  - intros neg subs _ g H. cbn [cds_flat] in H. cbn [reasons_raw reasons_text_raw orb].
    destruct (sat_local cx subs g); [|reflexivity]. rewrite forallb_forall in H.
    apply flat_map_ext_in. intros [c|cs] Hit; specialize (H _ Hit).
    + apply no_cds_reasons. exact H.
    + rewrite forallb_forall in H. apply flat_map_ext_in. intros c Hc. apply no_cds_reasons. apply H. exact Hc.
  - intros neg subs HF g H. cbn [cds_flat] in H. cbn [reasons_raw reasons_text_raw]. rewrite Forall_forall in HF.
    rewrite forallb_forall in H. apply flat_map_ext_in. intros it Hit. apply (HF it Hit g). apply (H it Hit).
  - intros c IH g H. apply IH. exact H.
  - intros cs HF g H. cbn [item_all] in H. cbn [item_reasons item_reasons_text]. rewrite Forall_forall in HF.
    rewrite forallb_forall in H. apply flat_map_ext_in. intros c Hc. apply (HF c Hc g). apply (H c Hc).
Qed.

(* ---------- apply_cluster_rules for one rule ---------- *)
Definition evals_known (evals : list (Z * ctx)) : Prop := forall e, In e evals -> results_known (snd e).

Lemma apply_rule_acc c : forall evals acc o p,
  anc_mem (fold_left (fun acc e =>
               let r := detect (snd e) c (fst e) in
               if is_anchor r then amerge (ancs r) (ainsert (fst e) (matches r) acc) else acc) evals acc) o p
  <-> anc_mem acc o p \/
      exists e, In e evals /\ is_anchor (detect (snd e) c (fst e)) = true /\
                ((o = fst e /\ In p (matches (detect (snd e) c (fst e)))) \/ anc_mem (ancs (detect (snd e) c (fst e))) o p).
Proof.
  induction evals as [|e evals IH]; intros acc o p; cbn [fold_left].
  - split; [intros H; left; exact H|intros [H|(e & [] & _)]; exact H].
  - rewrite IH. cbv zeta. destruct (is_anchor (detect (snd e) c (fst e))) eqn:Ha.
    + rewrite amerge_mem, ainsert_mem. split.
      * intros [[H|[H|H]]|(e' & He & H)].
        -- right. exists e. split; [left; reflexivity|]. split; [exact Ha|right; exact H].
        -- right. exists e. split; [left; reflexivity|]. split; [exact Ha|left; exact H].
        -- left. exact H.
        -- right. exists e'. split; [right; exact He|exact H].
      * intros [H|(e' & [He|He] & Ha' & H)].
        -- left. right. right. exact H.
        -- subst e'. left. destruct H as [H|H]; [right; left; exact H|left; exact H].
        -- right. exists e'. split; [exact He|]. split; [exact Ha'|exact H].
    + split.
      * intros [H|(e' & He & H)]; [left; exact H|right; exists e'; split; [right; exact He|exact H]].
      * intros [H|(e' & [He|He] & Ha' & H)]; [left; exact H|subst e'; congruence|right; exists e'; split; [exact He|split; [exact Ha'|exact H]]].
Qed.

Theorem apply_rule_mem c evals : evals_known evals ->
  forall o p, anc_mem (apply_rule c evals) o p <-> recorded_spec c evals o p = true.
Proof.
  intros Hk o p. unfold apply_rule. rewrite apply_rule_acc, anc_mem_nil. unfold recorded_spec. rewrite existsb_exists. split.
  - intros [[]|(e & He & Ha & Hor)]. exists e. split; [exact He|].
    rewrite <- (is_anchor_anchors (snd e) (Hk e He)). rewrite Ha. cbn [andb]. apply orb_true_iff.
    unfold detect in Hor. destruct Hor as [[-> Hp]|Hm].
    + left. rewrite Z.eqb_refl. cbn [andb]. apply smem_In. rewrite <- (eval_matches_reasons (snd e) (Hk e He)). exact Hp.
    + right. apply (eval_ancs_spec (snd e) (Hk e He)). exact Hm.
  - intros (e & He & H). apply andb_true_iff in H. destruct H as [Ha Hor]. right. exists e. split; [exact He|].
    split; [rewrite (is_anchor_anchors (snd e) (Hk e He)); exact Ha|]. unfold detect.
    apply orb_true_iff in Hor. destruct Hor as [H|H].
    + apply andb_true_iff in H. destruct H as [H1 H2]. left. split; [lia|].
      rewrite (eval_matches_reasons (snd e) (Hk e He)). apply smem_In. exact H2.
    + right. apply (eval_ancs_spec (snd e) (Hk e He)). exact H.
Qed.

Lemma apply_rule_wf_acc c : forall evals acc, anc_wf acc ->
  anc_wf (fold_left (fun acc e =>
               let r := detect (snd e) c (fst e) in
               if is_anchor r then amerge (ancs r) (ainsert (fst e) (matches r) acc) else acc) evals acc).
Proof.
  induction evals as [|e evals IH]; intros acc Ha; cbn [fold_left]; [exact Ha|].
  apply IH. cbv zeta. destruct (is_anchor (detect (snd e) c (fst e))) eqn:Han; [|exact Ha].
  apply amerge_wf; [apply eval_ancs_wf|]. apply ainsert_wf; [|exact Ha].
  unfold is_anchor in Han. apply andb_true_iff in Han. destruct Han as [_ Hne]. intros Heq. rewrite Heq in Hne. discriminate.
Qed.

(* the genes a rule is reported for (cluster_type_hits[rule]): the genes that anchor in their own
   evaluation, and the ancillary genes of an anchoring gene *)
Theorem rule_hits_spec c evals : evals_known evals ->
  forall o, In o (rule_hits c evals) <->
            exists e, In e evals /\ anchors (snd e) c (fst e) = true /\
                      (o = fst e \/ exists p, anc_has (snd e) c (fst e) false o p = true).
Proof.
  intros Hk o. unfold rule_hits. rewrite keys_mem by (apply apply_rule_wf_acc; apply anc_wf_nil). split.
  - intros (p & H). apply (apply_rule_mem c evals Hk) in H. unfold recorded_spec in H. apply existsb_exists in H.
    destruct H as (e & He & H). apply andb_true_iff in H. destruct H as [Ha Hor]. exists e. split; [exact He|]. split; [exact Ha|].
    apply orb_true_iff in Hor. destruct Hor as [H|H].
    + apply andb_true_iff in H. left. lia.
    + right. exists p. exact H.
  - intros (e & He & Ha & Hor). destruct Hor as [->|(p & Hp)].
    + pose proof Ha as Ha'. unfold anchors in Ha'. apply andb_true_iff in Ha'. destruct Ha' as [_ Hne].
      apply nonempty_In in Hne. destruct Hne as (p & Hp). exists p. apply (apply_rule_mem c evals Hk).
      unfold recorded_spec. apply existsb_exists. exists e. split; [exact He|]. rewrite Ha. cbn [andb].
      apply orb_true_iff. left. rewrite Z.eqb_refl. cbn [andb]. apply smem_In. exact Hp.
    + exists p. apply (apply_rule_mem c evals Hk).
      unfold recorded_spec. apply existsb_exists. exists e. split; [exact He|]. rewrite Ha. cbn [andb].
      apply orb_true_iff. right. exact Hp.
Qed.

Lemma detect_anchor_iff cx : results_known cx -> forall c g,
  (met (detect cx c g) = true /\ matches (detect cx c g) <> []) <->
  (holds cx c g false = true /\ reasons cx c g false <> []).
Proof. intros Hk c g. unfold detect. rewrite (eval_met_holds cx Hk), (eval_matches_reasons cx Hk). reflexivity. Qed.

Lemma detect_reasons_text cx : results_known cx -> forall c g, cds_flat c = true ->
  matches (detect cx c g) = reasons_text cx c g.
Proof.
  intros Hk c g Hf. unfold detect. rewrite (eval_matches_reasons cx Hk). unfold reasons, reasons_text.
  rewrite (cds_flat_reasons cx c g Hf). reflexivity.
Qed.

Lemma reasons_profiles cx c g local y : In y (reasons cx c g local) -> In y (profiles c) /\ has cx g y = true.
Proof. unfold reasons. rewrite sof_In. apply reasons_raw_profiles. Qed.

Lemma anc_has_facts cx c g local o p : anc_has cx c g local o p = true ->
  In o (map fst (feats cx)) /\ o <> g /\ in_range cx g o = true /\ has cx o p = true /\ In p (profiles c).
Proof.
  intros H. apply anc_has_in_range in H. destruct H as (H1 & H2 & H3). apply near_spec in H1.
  destruct H1 as (Ha & Hb & Hc). repeat split; assumption.
Qed.

(* witnesses *)
Definition nested_ctx : ctx := mkCtx 20 None [(0, [mkPart 0 10 1])] [(0, [(0, 100); (1, 100)])].
Definition nested_cds : cond :=
  Cds false [ICond (Single false 0); ICond (Cds false [IAnd [Single false 1; Single false 2]])].
Lemma nested_cds_witness : exists cx c g, results_known cx /\ matches (detect cx c g) <> reasons_text cx c g.
Proof.
  exists nested_ctx, nested_cds, 0. split; [intros o Ho; cbn in Ho; cbn; tauto|]. vm_compute. discriminate.
Qed.

(* three genes in a row, 2 apart, cutoff 5: only the middle one sees both others *)
Definition chain_ctx : ctx :=
  mkCtx 5 None [(0, [mkPart 0 10 1]); (1, [mkPart 12 20 1]); (2, [mkPart 22 30 1])]
        [(0, [(1, 100)]); (1, [(0, 100)]); (2, [(2, 100)])].
Definition chain_rule : cond := Group false [IAnd [Single false 0; Single false 1; Single false 2]].
Definition chain_evals : list (Z * ctx) := [(0, chain_ctx); (1, chain_ctx); (2, chain_ctx)].
Lemma promoted_witness : exists c evals o cx,
  evals_known evals /\ In (o, cx) evals /\ In o (rule_hits c evals) /\ anchors cx c o = false /\ holds cx c o false = false.
Proof.
  exists chain_rule, chain_evals, 0, chain_ctx. split.
  - intros e [<-|[<-|[<-|[]]]] o Ho; cbn in Ho; cbn; tauto.
  - split; [left; reflexivity|]. split; [vm_compute; tauto|]. split; vm_compute; reflexivity.
Qed.

Lemma detect_met_holds cx : results_known cx -> forall c g, met (detect cx c g) = holds cx c g false.
Proof. intros Hk c g. apply eval_met_holds. exact Hk. Qed.

(* ====================================================================================
   HISTORIES: one rule value, a sequence of evaluations (gene, arrangement).  The outcome at every
   position is the outcome of that evaluation alone - whatever was evaluated before or after it, in
   whatever order, with whatever gene names re-used - and therefore the documented meaning.
   ==================================================================================== *)
Lemma detect_history_nth c : forall evals i e, nth_error evals i = Some e ->
  nth_error (detect_history c evals) i = Some (detect (snd e) c (fst e)).
Proof.
  intros evals i e H. unfold detect_history.
  exact (map_nth_error (fun e => detect (snd e) c (fst e)) i evals H).
Qed.

Lemma detect_history_length c evals : length (detect_history c evals) = length evals.
Proof. unfold detect_history. apply map_length. Qed.

Lemma detect_history_app c a b : detect_history c (a ++ b) = detect_history c a ++ detect_history c b.
Proof. unfold detect_history. apply map_app. Qed.

Lemma nth_error_middle {A} (before after : list A) e : nth_error (before ++ e :: after) (length before) = Some e.
Proof. induction before as [|x before IH]; cbn; [reflexivity|exact IH]. Qed.

Lemma detect_history_context c before after e :
  nth_error (detect_history c (before ++ e :: after)) (length before) = nth_error (detect_history c [e]) 0.
Proof.
  rewrite (detect_history_nth c (before ++ e :: after) (length before) e (nth_error_middle before after e)).
  reflexivity.
Qed.

Lemma detect_history_independent c before1 after1 before2 after2 e :
  nth_error (detect_history c (before1 ++ e :: after1)) (length before1) =
  nth_error (detect_history c (before2 ++ e :: after2)) (length before2).
Proof. rewrite !detect_history_context. reflexivity. Qed.

Lemma detect_history_meaning c evals : evals_known evals -> forall i e, nth_error evals i = Some e ->
  exists r, nth_error (detect_history c evals) i = Some r /\
            met r = holds (snd e) c (fst e) false /\
            matches r = reasons (snd e) c (fst e) false /\
            is_anchor r = anchors (snd e) c (fst e) /\
            (forall o p, anc_mem (ancs r) o p <-> anc_has (snd e) c (fst e) false o p = true).
Proof.
  intros Hk i e Hi.
  assert (Hke : results_known (snd e)) by (apply Hk; exact (nth_error_In evals i Hi)).
  exists (detect (snd e) c (fst e)). split; [exact (detect_history_nth c evals i e Hi)|].
  split; [exact (detect_met_holds (snd e) Hke c (fst e))|].
  split; [exact (eval_matches_reasons (snd e) Hke c (fst e) false)|].
  split; [exact (is_anchor_anchors (snd e) Hke c (fst e))|].
  intros o p. exact (eval_ancs_spec (snd e) Hke c (fst e) false o p).
Qed.

(* the executable run function: what fn 5 prints for a history is the concatenation of what fn 1
   prints for each of its evaluations alone *)
Lemma history_out_flat c evals : history_out c evals = zlen evals :: flat_map (single_out c) evals.
Proof.
  unfold history_out, eList, zlen. rewrite detect_history_length. f_equal.
  unfold detect_history. induction evals as [|e evals IH]; cbn; [reflexivity|].
  rewrite IH. reflexivity.
Qed.

Lemma run_fn5_history l evals r c :
  dList (dPair dZ dCtx) l = Some (evals, r) -> dCond (length r) r = Some (c, []) ->
  run_C01 5 l = zlen evals :: flat_map (single_out c) evals.
Proof.
  intros Hl Hc. unfold run_C01. cbv iota. rewrite Hl, Hc. apply history_out_flat.
Qed.

Lemma run_fn1_single l cx r c g :
  dCtx l = Some (cx, r) -> dCond (length r) r = Some (c, [g]) -> run_C01 1 l = single_out c (g, cx).
Proof. intros Hl Hc. unfold run_C01. cbv iota. rewrite Hl, Hc. reflexivity. Qed.

(* several records, one apply_cluster_rules run each *)
Lemma apply_history_nth c records i evals : nth_error records i = Some evals ->
  nth_error (apply_history c records) i = Some (apply_rule c evals).
Proof. intro H. unfold apply_history. exact (map_nth_error (apply_rule c) i records H). Qed.

Lemma apply_history_meaning c records : (forall evals, In evals records -> evals_known evals) ->
  forall i evals, nth_error records i = Some evals ->
  exists a, nth_error (apply_history c records) i = Some a /\
            forall o p, anc_mem a o p <-> recorded_spec c evals o p = true.
Proof.
  intros Hk i evals Hi. exists (apply_rule c evals). split; [exact (apply_history_nth c records i evals Hi)|].
  exact (apply_rule_mem c evals (Hk evals (nth_error_In records i Hi))).
Qed.

(* ---------- the cutoff attribute over the life of a rule object ---------- *)
Lemma scale_unit c : scale (1, 1) c = c.
Proof. unfold scale. cbn [fst snd]. rewrite Z.mul_1_r. apply Z.div_1_r. Qed.

(* a chain of copies: every copy starts from what the first ruleset was given *)
Lemma life_from_copies : forall ms g c, life_from g c (map (pair true) ms) = map (fun m => scale m g) ms.
Proof. induction ms as [|m ms IH]; intros g c; cbn [map life_from]; [reflexivity|]. rewrite IH. reflexivity. Qed.

(* with ANY multipliers: a ruleset built over the parsed rule and every copy of it (of a copy of it ...)
   sees the text's value times its own multiplier *)
Lemma cutoff_life_copies kb m ms :
  cutoff_life kb (1, 1) ((false, m) :: map (pair true) ms)
  = kb * 1000 :: scale m (kb * 1000) :: map (fun m' => scale m' (kb * 1000)) ms.
Proof.
  unfold cutoff_life, parsed_cutoff. rewrite scale_unit. cbn [life_from]. rewrite life_from_copies. reflexivity.
Qed.

(* Ruleset.from_files(multipliers = m): parsed unscaled, scaled once by the constructor *)
Lemma from_files_scales_once kb m : cutoff_life kb (1, 1) [(false, m)] = [kb * 1000; scale m (kb * 1000)].
Proof. exact (cutoff_life_copies kb m []). Qed.

Fixpoint life_state (given current : Z) (steps : list (bool * (Z * Z))) : Z * Z :=
  match steps with
  | [] => (given, current)
  | (copy, m) :: rest => let g := if copy then given else current in life_state g (scale m g) rest
  end.

Lemma life_from_app : forall a b g c,
  life_from g c (a ++ b) = life_from g c a ++ life_from (fst (life_state g c a)) (snd (life_state g c a)) b.
Proof.
  induction a as [|[k m] a IH]; intros b g c; cbn [app life_from life_state fst snd]; [reflexivity|].
  rewrite IH. reflexivity.
Qed.

Lemma life_state_last : forall a g c d, last (c :: life_from g c a) d = snd (life_state g c a).
Proof.
  induction a as [|[k m] a IH]; intros g c d; cbn [life_from life_state]; [reflexivity|].
  rewrite <- (IH _ _ d). reflexivity.
Qed.

(* a Ruleset over the rule objects another holder detects with: the value it is given times its own
   multiplier - after any life, and nobody else's value is involved *)
Lemma cutoff_life_constructor kb m0 pre m :
  cutoff_life kb m0 (pre ++ [(false, m)]) = cutoff_life kb m0 pre ++ [scale m (last (cutoff_life kb m0 pre) 0)].
Proof.
  unfold cutoff_life. rewrite life_from_app, life_state_last. cbn [life_from app]. reflexivity.
Qed.

(* copying a ruleset with its own multiplier (the plain copy_with_replacements) keeps its distances -
   after any life, for any multiplier *)
Lemma ruleset_copy_keeps kb m0 pre k m :
  cutoff_life kb m0 (pre ++ [(k, m); (true, m)])
  = cutoff_life kb m0 (pre ++ [(k, m)]) ++ [last (cutoff_life kb m0 (pre ++ [(k, m)])) 0].
Proof.
  unfold cutoff_life. rewrite !life_from_app. cbn [life_from].
  rewrite !app_comm_cons, last_last, <- app_assoc. reflexivity.
Qed.

(* ====================================================================================
   MINSCORE on the boundary.  Bit scores are floats and may be negative (weak HMMer hits, dynamic
   profiles), the rule grammar accepts a threshold of 0: the clause "minscore(p, s) additionally
   needs bitscore >= s" is stated here over Z (doubled scores), so negative values, 0 and the
   comparison >= are exact.
   ==================================================================================== *)
Lemma scored_iff cx o p s :
  scored cx o p s = true <-> exists h, In h (hits_of cx o) /\ fst h = p /\ 2 * s <= snd h.
Proof.
  unfold scored. rewrite existsb_exists. split.
  - intros [h [Hin Hb]]. apply andb_true_iff in Hb. destruct Hb as [Hp Hs].
    exists h. split; [exact Hin|]. split; [apply Z.eqb_eq; exact Hp|apply Z.leb_le; exact Hs].
  - intros [h [Hin [Hp Hs]]]. exists h. split; [exact Hin|]. apply andb_true_iff.
    split; [apply Z.eqb_eq; exact Hp|apply Z.leb_le; exact Hs].
Qed.

(* the genes a non-local condition at g can look at: g itself and the genes closer than the cutoff *)
Definition reach cx (g o : Z) : Prop := o = g \/ In o (near cx g).

Lemma holds_score_iff cx p s g :
  holds cx (Score false p s) g false = true <->
  exists o h, reach cx g o /\ In h (hits_of cx o) /\ fst h = p /\ 2 * s <= snd h.
Proof.
  cbn [holds negb andb]. rewrite xorb_false_l, orb_true_iff, existsb_exists. split.
  - intros [H|[o [Ho H]]]; apply scored_iff in H; destruct H as [h Hh].
    + exists g, h. split; [left; reflexivity|exact Hh].
    + exists o, h. split; [right; exact Ho|exact Hh].
  - intros [o [h [[->|Ho] Hh]]].
    + left. apply scored_iff. exists h. exact Hh.
    + right. exists o. split; [exact Ho|]. apply scored_iff. exists h. exact Hh.
Qed.

Lemma detect_score_iff cx : results_known cx -> forall p s g,
  met (detect cx (Score false p s) g) = true <->
  exists o h, reach cx g o /\ In h (hits_of cx o) /\ fst h = p /\ 2 * s <= snd h.
Proof. intros Hk p s g. rewrite (detect_met_holds cx Hk). apply holds_score_iff. Qed.

(* no hit of p with bitscore >= s on the gene or in range - e.g. threshold 0 and only NEGATIVE
   scores: minscore is false, `not minscore` true, and the profile is no reason *)
Lemma detect_score_all_below cx : results_known cx -> forall neg p s g,
  (forall o h, reach cx g o -> In h (hits_of cx o) -> fst h = p -> snd h < 2 * s) ->
  met (detect cx (Score neg p s) g) = neg /\ matches (detect cx (Score neg p s) g) = [].
Proof.
  intros Hk neg p s g Hall.
  assert (Hf : holds cx (Score false p s) g false = false).
  { destruct (holds cx (Score false p s) g false) eqn:E; [|reflexivity].
    apply holds_score_iff in E. destruct E as [o [h [Hr [Hin [Hp Hs]]]]].
    specialize (Hall o h Hr Hin Hp). lia. }
  assert (Hown : scored cx g p s = false).
  { destruct (scored cx g p s) eqn:E; [|reflexivity]. apply scored_iff in E. destruct E as [h [Hin [Hp Hs]]].
    specialize (Hall g h (or_introl eq_refl) Hin Hp). lia. }
  split.
  - rewrite (detect_met_holds cx Hk). cbn [holds negb andb] in *. rewrite xorb_false_l in Hf. rewrite Hf.
    destruct neg; reflexivity.
  - unfold detect. rewrite (eval_matches_reasons cx Hk). unfold reasons. cbn [reasons_raw]. rewrite Hown. reflexivity.
Qed.

(* one sufficient hit decides, whatever the other hits of the profile score (mixed signs) *)
Lemma detect_score_one_suffices cx : results_known cx -> forall neg p s g o h,
  reach cx g o -> In h (hits_of cx o) -> fst h = p -> 2 * s <= snd h ->
  met (detect cx (Score neg p s) g) = negb neg.
Proof.
  intros Hk neg p s g o h Hr Hin Hp Hs.
  assert (Ht : holds cx (Score false p s) g false = true).
  { apply holds_score_iff. exists o, h. repeat split; assumption. }
  rewrite (detect_met_holds cx Hk). cbn [holds negb andb] in *. rewrite xorb_false_l in Ht. rewrite Ht.
  destruct neg; reflexivity.
Qed.

(* lowering the threshold keeps a minscore true *)
Lemma holds_score_monotone cx p s1 s2 g local : s1 <= s2 ->
  holds cx (Score false p s2) g local = true -> holds cx (Score false p s1) g local = true.
Proof.
  intros Hle. cbn [holds]. rewrite !xorb_false_l, !orb_true_iff, !andb_true_iff, !existsb_exists.
  assert (Hm : forall o, scored cx o p s2 = true -> scored cx o p s1 = true).
  { intros o H. apply scored_iff in H. destruct H as [h [Hin [Hp Hs]]]. apply scored_iff. exists h.
    split; [exact Hin|]. split; [exact Hp|]. lia. }
  intros [H|[Hl [o [Ho H]]]].
  - left. apply Hm. exact H.
  - right. split; [exact Hl|]. exists o. split; [exact Ho|apply Hm; exact H].
Qed.

(* when no bit score is negative, minscore(p, 0) is the plain name p ... *)
Lemma scored_zero_has cx : (forall o h, In h (hits_of cx o) -> 0 <= snd h) ->
  forall o p, scored cx o p 0 = has cx o p.
Proof.
  intros Hnn o p. apply bool_eq_iff. split.
  - apply scored_has.
  - intros H. apply smem_In in H. unfold poss in H. apply in_map_iff in H. destruct H as [h [Hp Hin]].
    apply scored_iff. exists h. split; [exact Hin|]. split; [exact Hp|]. specialize (Hnn o h Hin). lia.
Qed.

Lemma holds_score_zero_is_name cx : (forall o h, In h (hits_of cx o) -> 0 <= snd h) ->
  forall neg p g local, holds cx (Score neg p 0) g local = holds cx (Single neg p) g local.
Proof.
  intros Hnn neg p g local. cbn [holds]. rewrite (scored_zero_has cx Hnn).
  f_equal. f_equal. f_equal. apply existsb_ext_in. intros o _. apply scored_zero_has. exact Hnn.
Qed.

(* ... and not otherwise: gene 1, 2 kb after gene 0, carries the only hit of p1, scoring -1 *)
Definition weak_ctx : ctx :=
  mkCtx 10000 None [(0, [mkPart 1000 2000 1]); (1, [mkPart 4000 5000 1]); (2, [mkPart 40000 41000 1])]
        [(0, [(0, 60)]); (1, [(1, -2)]); (2, [(1, 160)])].
Lemma score_zero_name_witness : exists cx p g,
  results_known cx /\ (forall o h, In h (hits_of cx o) -> fst h = p -> -2 <= snd h) /\
  holds cx (Score false p 0) g false <> holds cx (Single false p) g false.
Proof.
  exists weak_ctx, 1, 0. split; [intros o Ho; cbn in Ho; cbn; tauto|]. split.
  - intros o h. unfold hits_of. cbn [results weak_ctx assoc].
    destruct (o =? 0) eqn:E0; [intros [<-|[]]; cbn; lia|].
    destruct (o =? 1) eqn:E1; [intros [<-|[]]; cbn; lia|].
    destruct (o =? 2) eqn:E2; [intros [<-|[]]; cbn; lia|]. intros [].
  - vm_compute. discriminate.
Qed.
