(* C01 proofs: the evaluator's truth value is the documented boolean meaning (holds), for every
   condition tree, every hit layout and every gene; the reported reasons hit the gene itself. *)
From Coq Require Import Lia ZifyBool.
From ASV.C01 Require Import Model.

(* ---------- induction principle for the nested type ---------- *)
Section Ind.
  Variable P : cond -> Prop.
  Variable Q : item -> Prop.
  Hypothesis HSingle : forall n p, P (Single n p).
  Hypothesis HScore : forall n p s, P (Score n p s).
  Hypothesis HMin : forall n k o, P (Minimum n k o).
  Hypothesis HCds : forall n subs, Forall Q subs -> P (Cds n subs).
  Hypothesis HGroup : forall n subs, Forall Q subs -> P (Group n subs).
  Hypothesis HICond : forall c, P c -> Q (ICond c).
  Hypothesis HIAnd : forall cs, Forall P cs -> Q (IAnd cs).

  Fixpoint cond_ind2 (c : cond) : P c :=
    match c with
    | Single n p => HSingle n p
    | Score n p s => HScore n p s
    | Minimum n k o => HMin n k o
    | Cds n subs => HCds n subs ((fix go (l : list item) : Forall Q l :=
        match l with [] => Forall_nil _ | i :: tl => Forall_cons _ (item_ind2 i) (go tl) end) subs)
    | Group n subs => HGroup n subs ((fix go (l : list item) : Forall Q l :=
        match l with [] => Forall_nil _ | i :: tl => Forall_cons _ (item_ind2 i) (go tl) end) subs)
    end
  with item_ind2 (i : item) : Q i :=
    match i with
    | ICond c => HICond c (cond_ind2 c)
    | IAnd cs => HIAnd cs ((fix go (l : list cond) : Forall P l :=
        match l with [] => Forall_nil _ | c :: tl => Forall_cons _ (cond_ind2 c) (go tl) end) cs)
    end.
End Ind.

(* ---------- generic list facts ---------- *)
Lemma existsb_ext_in {A} (f h : A -> bool) l : (forall x, In x l -> f x = h x) -> existsb f l = existsb h l.
Proof.
  induction l as [|x l IH]; cbn [existsb]; intros H; [reflexivity|].
  rewrite H by (left; reflexivity). rewrite IH; [reflexivity|]. intros y Hy. apply H. right. exact Hy.
Qed.
Lemma forallb_ext_in {A} (f h : A -> bool) l : (forall x, In x l -> f x = h x) -> forallb f l = forallb h l.
Proof.
  induction l as [|x l IH]; cbn [forallb]; intros H; [reflexivity|].
  rewrite H by (left; reflexivity). rewrite IH; [reflexivity|]. intros y Hy. apply H. right. exact Hy.
Qed.
Lemma existsb_map {A B} (f : A -> B) (p : B -> bool) l : existsb p (map f l) = existsb (fun x => p (f x)) l.
Proof. induction l as [|x l IH]; cbn; [reflexivity|]. rewrite IH. reflexivity. Qed.
Lemma forallb_map {A B} (f : A -> B) (p : B -> bool) l : forallb p (map f l) = forallb (fun x => p (f x)) l.
Proof. induction l as [|x l IH]; cbn; [reflexivity|]. rewrite IH. reflexivity. Qed.

Lemma bool_eq_iff (a b : bool) : (a = true <-> b = true) -> a = b.
Proof. destruct a, b; intros [H1 H2]; try reflexivity; [symmetry; apply H1; reflexivity|apply H2; reflexivity]. Qed.

(* ---------- sets ---------- *)
Lemma sinsert_In x y l : In y (sinsert x l) <-> y = x \/ In y l.
Proof.
  induction l as [|z l IH]; cbn [sinsert].
  - cbn. intuition.
  - destruct (x <? z) eqn:H1; [cbn; intuition|].
    destruct (x =? z) eqn:H2.
    + assert (x = z) by lia. subst. cbn. intuition.
    + cbn [In]. rewrite IH. intuition.
Qed.

Lemma sunion_In_acc : forall a acc y, In y (fold_left (fun acc x => sinsert x acc) a acc) <-> In y a \/ In y acc.
Proof.
  induction a as [|x a IH]; intros acc y; cbn [fold_left].
  - cbn. intuition.
  - rewrite IH. rewrite sinsert_In. cbn [In]. intuition.
Qed.
Lemma sunion_In a b y : In y (sunion a b) <-> In y a \/ In y b.
Proof. unfold sunion. apply sunion_In_acc. Qed.
Lemma sof_In l y : In y (sof l) <-> In y l.
Proof. unfold sof. rewrite sunion_In. cbn. intuition. Qed.
Lemma smem_In x l : smem x l = true <-> In x l.
Proof.
  unfold smem. rewrite existsb_exists. split.
  - intros (y & Hy & Heq). assert (x = y) by lia. subst. exact Hy.
  - intros H. exists x. split; [exact H|lia].
Qed.
Lemma sinter_In a b y : In y (sinter a b) <-> In y a /\ In y b.
Proof. unfold sinter. rewrite filter_In, sof_In, smem_In. reflexivity. Qed.

(* ---------- combining results ---------- *)
Lemma or_combine_acc : forall rs acc,
  met (fold_left (fun acc r => mkRes (met acc || met r) (sunion (matches r) (matches acc)) (amerge (ancs r) (ancs acc))) rs acc)
  = met acc || existsb met rs.
Proof.
  induction rs as [|r rs IH]; intros acc; cbn [fold_left existsb]; [rewrite orb_false_r; reflexivity|].
  rewrite IH. cbn [met]. rewrite orb_assoc. reflexivity.
Qed.
Lemma met_or_combine rs : met (or_combine rs) = existsb met rs.
Proof. unfold or_combine. rewrite or_combine_acc. reflexivity. Qed.

Lemma and_combine_acc : forall rs acc,
  met (fold_left (fun acc r => mkRes (met acc && met r) (sunion (matches r) (matches acc)) (amerge (ancs r) (ancs acc))) rs acc)
  = met acc && forallb met rs.
Proof.
  induction rs as [|r rs IH]; intros acc; cbn [fold_left forallb]; [rewrite andb_true_r; reflexivity|].
  rewrite IH. cbn [met]. rewrite andb_assoc. reflexivity.
Qed.
Lemma met_and_combine rs : met (and_combine rs) = forallb met rs.
Proof. unfold and_combine. rewrite and_combine_acc. reflexivity. Qed.

Lemma or_matches_acc : forall rs acc y,
  In y (matches (fold_left (fun acc r => mkRes (met acc || met r) (sunion (matches r) (matches acc)) (amerge (ancs r) (ancs acc))) rs acc))
  <-> In y (matches acc) \/ exists r, In r rs /\ In y (matches r).
Proof.
  induction rs as [|r rs IH]; intros acc y; cbn [fold_left].
  - split; [intros H; left; exact H|intros [H|(r & [] & _)]; exact H].
  - rewrite IH. cbn [matches]. rewrite sunion_In. split.
    + intros [[H|H]|(r' & Hr & Hy)].
      * right. exists r. split; [left; reflexivity|exact H].
      * left. exact H.
      * right. exists r'. split; [right; exact Hr|exact Hy].
    + intros [H|(r' & [Hr|Hr] & Hy)].
      * left. right. exact H.
      * subst. left. left. exact Hy.
      * right. exists r'. split; assumption.
Qed.
Lemma or_matches rs y : In y (matches (or_combine rs)) <-> exists r, In r rs /\ In y (matches r).
Proof. unfold or_combine. rewrite or_matches_acc. cbn. intuition. Qed.

Lemma and_matches_acc : forall rs acc y,
  In y (matches (fold_left (fun acc r => mkRes (met acc && met r) (sunion (matches r) (matches acc)) (amerge (ancs r) (ancs acc))) rs acc))
  <-> In y (matches acc) \/ exists r, In r rs /\ In y (matches r).
Proof.
  induction rs as [|r rs IH]; intros acc y; cbn [fold_left].
  - split; [intros H; left; exact H|intros [H|(r & [] & _)]; exact H].
  - rewrite IH. cbn [matches]. rewrite sunion_In. split.
    + intros [[H|H]|(r' & Hr & Hy)].
      * right. exists r. split; [left; reflexivity|exact H].
      * left. exact H.
      * right. exists r'. split; [right; exact Hr|exact Hy].
    + intros [H|(r' & [Hr|Hr] & Hy)].
      * left. right. exact H.
      * subst. left. left. exact Hy.
      * right. exists r'. split; assumption.
Qed.
Lemma and_matches rs y : In y (matches (and_combine rs)) <-> exists r, In r rs /\ In y (matches r).
Proof. unfold and_combine. rewrite and_matches_acc. cbn. intuition. Qed.

(* ---------- the documented meaning ---------- *)
Section Spec.
Variable cx : ctx.

(* the genes closer than the cutoff *)
Definition near (g : Z) : list Z := feat_others cx g.

Definition count_in (opts : list Z) (o : Z) : Z := zlen (sinter opts (poss cx o)).

Fixpoint holds (c : cond) (g : Z) (local : bool) {struct c} : bool :=
  match c with
  | Single neg p => xorb neg (has cx g p || (negb local && existsb (fun o => has cx o p) (near g)))
  | Score neg p s => xorb neg (scored cx g p s || (negb local && existsb (fun o => scored cx o p s) (near g)))
  | Minimum neg k opts =>
    xorb neg (k <=? fold_left (fun acc o => acc + count_in opts o) (near g) (count_in opts g))
  | Cds neg subs =>
    let sat := fun g' => existsb (fun it => match it with
                           | ICond c' => holds c' g' true
                           | IAnd cs => forallb (fun c' => holds c' g' true) cs end) subs in
    xorb neg (sat g || (negb local && existsb sat (near g)))
  | Group neg subs =>
    xorb neg (existsb (fun it => match it with
                           | ICond c' => holds c' g local
                           | IAnd cs => forallb (fun c' => holds c' g local) cs end) subs)
  end.

(* every gene with recorded hits is a known gene *)
Definition results_known : Prop := forall o, In o (map fst (results cx)) -> In o (map fst (feats cx)).

Lemma assoc_Some_In {A} k (l : list (Z * A)) v : assoc k l = Some v -> In k (map fst l).
Proof.
  induction l as [|[k' v'] l IH]; cbn [assoc]; [discriminate|].
  destruct (k =? k') eqn:H; intros Hs.
  - left. cbn. lia.
  - right. apply IH. exact Hs.
Qed.

Lemma has_known o p : has cx o p = true -> In o (map fst (results cx)).
Proof.
  unfold has, poss, hits_of. destruct (assoc o (results cx)) eqn:Ha.
  - intros _. eapply assoc_Some_In. exact Ha.
  - cbn. discriminate.
Qed.
Lemma scored_known o p s : scored cx o p s = true -> In o (map fst (results cx)).
Proof.
  unfold scored, hits_of. destruct (assoc o (results cx)) eqn:Ha.
  - intros _. eapply assoc_Some_In. exact Ha.
  - cbn. discriminate.
Qed.
Lemma scored_has o p s : scored cx o p s = true -> has cx o p = true.
Proof.
  unfold scored, has, poss. rewrite existsb_exists. intros ((q, sc) & Hin & Hq).
  apply smem_In. apply in_map_iff. exists (q, sc). cbn [fst snd] in *. split; [lia|exact Hin].
Qed.

(* a scan over the genes with hits sees the same as a scan over all genes, for tests that can
   only succeed on genes with hits *)
Lemma scan_results_feats (f : Z -> bool) g : results_known ->
  (forall o, f o = true -> In o (map fst (results cx))) ->
  existsb f (result_others cx g) = existsb f (feat_others cx g).
Proof.
  intros Hk Hf. apply bool_eq_iff. unfold result_others, feat_others.
  rewrite !existsb_exists. split; intros (o & Hin & Ho); exists o; (split; [|exact Ho]);
    apply filter_In in Hin; destruct Hin as [Hin Hq]; apply filter_In; (split; [|exact Hq]).
  - apply Hk. exact Hin.
  - apply Hf. exact Ho.
Qed.

Lemma ainsert_nonempty g ps a : ainsert g ps a <> [].
Proof. destruct a as [|[h qs] r]; cbn [ainsert]; [discriminate|]. destruct (g <? h); [discriminate|]. destruct (g =? h); discriminate. Qed.

Lemma anc_fold_empty (f : Z -> bool) p : forall l acc,
  fold_left (fun acc o => if f o then ainsert o [p] acc else acc) l acc = [] <-> acc = [] /\ existsb f l = false.
Proof.
  induction l as [|o l IH]; intros acc; cbn [fold_left existsb].
  - intuition.
  - rewrite IH. destruct (f o); cbn [orb].
    + split; [intros [H _]; exfalso; exact (ainsert_nonempty _ _ _ H)|intros [_ H]; discriminate].
    + reflexivity.
Qed.

Lemma zlen_nonneg {A} (l : list A) : 0 <= zlen l.
Proof. unfold zlen. lia. Qed.

Lemma count_fold_ge : forall l acc, acc <= fold_left (fun acc o => acc + count_in [] o) l acc.
Proof. induction l as [|o l IH]; intros acc; cbn [fold_left]; [lia|]. etransitivity; [|apply IH]. unfold count_in. pose proof (zlen_nonneg (sinter [] (poss cx o))). lia. Qed.

Lemma count_fold_mono opts : forall l acc, acc <= fold_left (fun acc o => acc + count_in opts o) l acc.
Proof.
  induction l as [|o l IH]; intros acc; cbn [fold_left]; [lia|].
  etransitivity; [|apply IH]. unfold count_in. pose proof (zlen_nonneg (sinter opts (poss cx o))). lia.
Qed.

(* the Minimum loop: counting only the genes with a non-empty intersection changes nothing *)
Lemma minimum_count opts : forall l acc,
  fold_left (fun acc e => acc + zlen (snd e))
            (filter (fun e : Z * list Z => match snd e with [] => false | _ => true end)
                    (map (fun o => (o, sinter opts (poss cx o))) l)) acc
  = fold_left (fun acc o => acc + count_in opts o) l acc.
Proof.
  induction l as [|o l IH]; intros acc; cbn [map filter fold_left]; [reflexivity|].
  cbn [snd]. unfold count_in at 2. destruct (sinter opts (poss cx o)) eqn:Hs.
  - rewrite IH. cbn. f_equal. lia.
  - cbn [fold_left snd]. rewrite IH. reflexivity.
Qed.

Definition item_met (g : Z) (local : bool) (it : item) : bool :=
  match it with
  | ICond c => met (eval cx c g local)
  | IAnd cs => forallb (fun c => met (eval cx c g local)) cs
  end.
Definition item_holds (g : Z) (local : bool) (it : item) : bool :=
  match it with
  | ICond c => holds c g local
  | IAnd cs => forallb (fun c => holds c g local) cs
  end.

Lemma met_items g local subs :
  met (or_combine (map (fun it => match it with
                         | ICond c' => eval cx c' g local
                         | IAnd cs => and_combine (map (fun c' => eval cx c' g local) cs) end) subs))
  = existsb (item_met g local) subs.
Proof.
  rewrite met_or_combine, existsb_map. apply existsb_ext_in. intros [c|cs] _; cbn [item_met]; [reflexivity|].
  rewrite met_and_combine, forallb_map. reflexivity.
Qed.

Theorem eval_met_holds : results_known ->
  forall c g local, met (eval cx c g local) = holds c g local.
Proof.
  intros Hk.
  apply (cond_ind2 (fun c => forall g local, met (eval cx c g local) = holds c g local)
                   (fun it => forall g local, item_met g local it = item_holds g local it)).
  - (* Single *)
    intros neg p g local. cbn [eval holds].
    destruct (local || has cx g p) eqn:Hlf.
    + cbn [met]. destruct local; cbn [negb andb]; [rewrite orb_false_r; reflexivity|].
      cbn [orb] in Hlf. rewrite Hlf. reflexivity.
    + apply orb_false_iff in Hlf. destruct Hlf as [-> Hf]. rewrite Hf. cbn [negb andb orb].
      unfold near. rewrite <- (scan_results_feats (fun o => has cx o p) g Hk (fun o => has_known o p)).
      match goal with |- context [fold_left ?f (result_others cx g) []] => destruct (fold_left f (result_others cx g) []) eqn:Hfold end.
      * apply anc_fold_empty in Hfold. destruct Hfold as [_ ->]. cbn [met]. destruct neg; reflexivity.
      * cbn [met]. destruct (existsb (fun o => has cx o p) (result_others cx g)) eqn:He.
        -- destruct neg; reflexivity.
        -- exfalso. assert (Hem : fold_left (fun acc o => if has cx o p then ainsert o [p] acc else acc)
                                           (result_others cx g) [] = []) by (apply anc_fold_empty; split; [reflexivity|exact He]).
           rewrite Hem in Hfold. discriminate.
  - (* Score *)
    intros neg p s g local. cbn [eval holds].
    destruct (scored cx g p s) eqn:Hs.
    + rewrite (scored_has _ _ _ Hs). cbn [andb met orb]. destruct neg; reflexivity.
    + rewrite andb_false_r. cbn [orb]. destruct local; cbn [negb andb met]; [destruct neg; reflexivity|].
      assert (Heq : existsb (fun o => in_range cx g o && has cx o p && scored cx o p s) (map fst (results cx))
                    = existsb (fun o => scored cx o p s) (near g)).
      { unfold near. rewrite <- (scan_results_feats (fun o => scored cx o p s) g Hk (fun o => scored_known o p s)).
        apply bool_eq_iff. unfold result_others. rewrite !existsb_exists. split.
        - intros (o & Hin & Ho). apply andb_true_iff in Ho. destruct Ho as [Ho Hsc].
          apply andb_true_iff in Ho. destruct Ho as [Hr _].
          exists o. split; [|exact Hsc]. apply filter_In. split; [exact Hin|].
          apply andb_true_iff. split; [|exact Hr].
          destruct (o =? g) eqn:Hog; [|reflexivity]. assert (o = g) by lia. subst. rewrite Hs in Hsc. discriminate.
        - intros (o & Hin & Hsc). apply filter_In in Hin. destruct Hin as [Hin Hq].
          apply andb_true_iff in Hq. destruct Hq as [_ Hr].
          exists o. split; [exact Hin|]. rewrite Hr, Hsc, (scored_has _ _ _ Hsc). reflexivity. }
      rewrite Heq. destruct (existsb _ (near g)); cbn [met]; destruct neg; reflexivity.
  - (* Minimum *)
    intros neg k opts g local. cbn [eval holds]. fold (count_in opts g).
    destruct (k <=? count_in opts g) eqn:Hown.
    + cbn [met]. pose proof (count_fold_mono opts (near g) (count_in opts g)) as Hm.
      match goal with |- _ = xorb neg ?b => replace b with true by (symmetry; lia) end.
      destruct neg; reflexivity.
    + rewrite minimum_count. unfold near.
      match goal with |- context [k <=? ?t] => destruct (k <=? t) end; cbn [met]; destruct neg; reflexivity.
  - (* Cds *)
    intros neg subs HF g local. cbn [eval holds]. rewrite Forall_forall in HF.
    assert (Hsat : forall g', met (or_combine (map (fun it => match it with
                         | ICond c' => eval cx c' g' true
                         | IAnd cs => and_combine (map (fun c' => eval cx c' g' true) cs) end) subs))
                   = existsb (item_holds g' true) subs).
    { intros g'. rewrite met_items. apply existsb_ext_in. intros it Hit. apply HF. exact Hit. }
    rewrite Hsat. fold (item_holds g true).
    replace (existsb (fun it => match it with ICond c' => holds c' g true | IAnd cs => forallb (fun c' => holds c' g true) cs end) subs)
      with (existsb (item_holds g true) subs) by reflexivity.
    destruct local; cbn [orb negb andb].
    + cbn [met]. rewrite orb_false_r. reflexivity.
    + destruct (existsb (item_holds g true) subs) eqn:Hown; cbn [met orb]; [reflexivity|].
      rewrite (existsb_ext_in _ (fun o => existsb (item_holds o true) subs) (feat_others cx g) (fun o _ => Hsat o)).
      unfold near. rewrite xorb_comm. reflexivity.
  - (* Group *)
    intros neg subs HF g local. cbn [eval holds met]. rewrite met_items. f_equal.
    rewrite Forall_forall in HF. apply existsb_ext_in. intros it Hit. apply HF. exact Hit.
  - (* ICond *) intros c IH g local. cbn [item_met item_holds]. apply IH.
  - (* IAnd *) intros cs HF g local. cbn [item_met item_holds]. rewrite Forall_forall in HF.
    apply forallb_ext_in. intros c Hc. apply HF. exact Hc.
Qed.

(* negation is plain negation *)
Definition negate (c : cond) : cond :=
  match c with
  | Single n p => Single (negb n) p
  | Score n p s => Score (negb n) p s
  | Minimum n k o => Minimum (negb n) k o
  | Cds n s => Cds (negb n) s
  | Group n s => Group (negb n) s
  end.
Lemma holds_negate c g local : holds (negate c) g local = negb (holds c g local).
Proof. destruct c; cbn [negate holds]; destruct neg; cbn [negb]; rewrite ?xorb_true_l, ?xorb_false_l, ?negb_involutive; reflexivity. Qed.

(* every reported reason is a profile that hits the evaluated gene itself *)
Theorem eval_matches_hit_gene :
  forall c g local y, In y (matches (eval cx c g local)) -> has cx g y = true.
Proof.
  apply (cond_ind2 (fun c => forall g local y, In y (matches (eval cx c g local)) -> has cx g y = true)
                   (fun it => forall g local y,
                      In y (matches (match it with
                                     | ICond c' => eval cx c' g local
                                     | IAnd cs => and_combine (map (fun c' => eval cx c' g local) cs) end)) ->
                      has cx g y = true)).
  - intros neg p g local y. cbn [eval]. destruct (local || has cx g p).
    + cbn [matches]. destruct (has cx g p) eqn:Hh; [|intros []]. intros [<-|[]]. exact Hh.
    + destruct (fold_left _ _ _); cbn [matches]; intros [].
  - intros neg p s g local y. cbn [eval]. destruct (has cx g p && scored cx g p s) eqn:Hh.
    + cbn [matches]. intros [<-|[]]. apply andb_true_iff in Hh. apply Hh.
    + destruct local; [intros []|]. destruct (existsb _ _); intros [].
  - intros neg k opts g local y. cbn [eval].
    assert (Hin : In y (sinter opts (poss cx g)) -> has cx g y = true).
    { intros H. apply sinter_In in H. apply smem_In. apply H. }
    destruct (k <=? zlen (sinter opts (poss cx g))); [exact Hin|].
    destruct (k <=? _); exact Hin.
  - intros neg subs HF g local y. cbn [eval]. rewrite Forall_forall in HF.
    match goal with |- context [if ?b then _ else _] => destruct b end; cbn [matches]; [|intros []].
    intros Hy. apply or_matches in Hy. destruct Hy as (r & Hr & Hy). apply in_map_iff in Hr.
    destruct Hr as (it & <- & Hit). exact (HF it Hit g true y Hy).
  - intros neg subs HF g local y. cbn [eval matches]. rewrite Forall_forall in HF.
    intros Hy. apply or_matches in Hy. destruct Hy as (r & Hr & Hy). apply in_map_iff in Hr.
    destruct Hr as (it & <- & Hit). exact (HF it Hit g local y Hy).
  - intros c IH g local y. apply IH.
  - intros cs HF g local y Hy. rewrite Forall_forall in HF. apply and_matches in Hy.
    destruct Hy as (r & Hr & Hy). apply in_map_iff in Hr. destruct Hr as (c & <- & Hc). exact (HF c Hc g local y Hy).
Qed.
End Spec.
