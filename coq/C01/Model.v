(* C01: model of the rule-condition evaluator of antismash/common/hmm_rule_parser/rule_parser.py:
   Details (possibilities, in_range), ConditionMet, Conditions.is_satisfied /
   are_subconditions_satisfied, AndCondition, MinimumCondition, CDSCondition, SingleCondition,
   ScoreCondition and DetectionRule.detect.
   Genes and profiles are numbered; bit scores are carried doubled (half-integers are exact). *)
From ASV Require Export Base Loc.

Inductive cond :=
| Single (neg : bool) (p : Z)
| Score (neg : bool) (p : Z) (s : Z)                    (* s = the rule's integer score *)
| Minimum (neg : bool) (k : Z) (opts : list Z)
| Cds (neg : bool) (subs : list item)
| Group (neg : bool) (subs : list item)
with item :=
| ICond (c : cond)
| IAnd (cs : list cond).

(* ---------- finite sets of profiles as strictly sorted lists; ancillary hits as gene-sorted
   association lists (the canonical forms the harness compares) ---------- *)
Fixpoint sinsert (x : Z) (l : list Z) : list Z :=
  match l with
  | [] => [x]
  | y :: r => if x <? y then x :: l else if x =? y then l else y :: sinsert x r
  end.
Definition sunion (a b : list Z) : list Z := fold_left (fun acc x => sinsert x acc) a b.
Definition smem (x : Z) (l : list Z) : bool := existsb (Z.eqb x) l.
Definition sof (l : list Z) : list Z := sunion l [].
Definition sinter (a b : list Z) : list Z := filter (fun x => smem x b) (sof a).

Definition anc := list (Z * list Z).
Fixpoint ainsert (g : Z) (ps : list Z) (a : anc) : anc :=
  match a with
  | [] => [(g, ps)]
  | (h, qs) :: r => if g <? h then (g, ps) :: a else if g =? h then (h, sunion ps qs) :: r
                    else (h, qs) :: ainsert g ps r
  end.
Definition amerge (a b : anc) : anc := fold_left (fun acc e => ainsert (fst e) (snd e) acc) a b.

Record cres := mkRes { met : bool; matches : list Z; ancs : anc }.

(* union of matches, merge of ancillary hits, any / all of met *)
Definition or_combine (rs : list cres) : cres :=
  fold_left (fun acc r => mkRes (met acc || met r) (sunion (matches r) (matches acc)) (amerge (ancs r) (ancs acc)))
            rs (mkRes false [] []).
Definition and_combine (rs : list cres) : cres :=
  fold_left (fun acc r => mkRes (met acc && met r) (sunion (matches r) (matches acc)) (amerge (ancs r) (ancs acc)))
            rs (mkRes true [] []).

(* ---------- context ---------- *)
Record ctx := mkCtx {
  cutoff : Z;
  circ : option Z;                          (* circular_origin *)
  feats : list (Z * loc);                   (* features_by_id, insertion order *)
  results : list (Z * list (Z * Z));        (* results_by_id: gene -> [(profile, 2*bitscore)] *)
}.

Section Eval.
Variable cx : ctx.

Fixpoint assoc {A} (k : Z) (l : list (Z * A)) : option A :=
  match l with [] => None | (k', v) :: r => if k =? k' then Some v else assoc k r end.

Definition loc_of (g : Z) : loc := match assoc g (feats cx) with Some l => l | None => [] end.
Definition hits_of (g : Z) : list (Z * Z) := match assoc g (results cx) with Some l => l | None => [] end.
Definition poss (g : Z) : list Z := map fst (hits_of g).
Definition has (g p : Z) : bool := smem p (poss g).

(* Details.in_range: `if self.circular_origin:` is a truthiness test *)
Definition wrap : option Z := match circ cx with Some n => if n =? 0 then None else Some n | None => None end.
Definition in_range (g o : Z) : bool := dist (loc_of g) (loc_of o) wrap <? cutoff cx.

Definition scored (g p s : Z) : bool := existsb (fun h => (fst h =? p) && (2 * s <=? snd h)) (hits_of g).

(* neighbours as the loops see them *)
Definition feat_others (g : Z) : list Z :=
  filter (fun o => negb (o =? g) && in_range g o) (map fst (feats cx)).
Definition result_others (g : Z) : list Z :=
  filter (fun o => negb (o =? g) && in_range g o) (map fst (results cx)).

Fixpoint eval (c : cond) (g : Z) (local : bool) {struct c} : cres :=
  match c with
  | Single neg p =>
    let found := has g p in
    if local || found then mkRes (xorb neg found) (if found then [p] else []) []
    else
      let ancillary := fold_left (fun acc o => if has o p then ainsert o [p] acc else acc) (result_others g) [] in
      match ancillary with
      | [] => mkRes neg [] []
      | _ => mkRes (negb neg) [] ancillary
      end
  | Score neg p s =>
    if has g p && scored g p s then mkRes (negb neg) [p] []
    else if local then mkRes neg [] []
    else if existsb (fun o => in_range g o && has o p && scored o p s) (map fst (results cx))
         then mkRes (negb neg) [] [] else mkRes neg [] []
  | Minimum neg k opts =>
    let hits := sinter opts (poss g) in
    if k <=? zlen hits then mkRes (negb neg) hits []
    else
      let other_hits := map (fun o => (o, sinter opts (poss o))) (feat_others g) in
      let other_hits := filter (fun e => match snd e with [] => false | _ => true end) other_hits in
      let count := fold_left (fun acc e => acc + zlen (snd e)) other_hits (zlen hits) in
      if k <=? count then mkRes (negb neg) hits (amerge other_hits []) else mkRes neg hits []
  | Cds neg subs =>
    let sat := fun g' => or_combine (map (fun it => match it with
                           | ICond c' => eval c' g' true
                           | IAnd cs => and_combine (map (fun c' => eval c' g' true) cs)
                           end) subs) in
    let own := sat g in
    if local || met own then mkRes (xorb neg (met own)) (matches own) []
    else mkRes (xorb (existsb (fun o => met (sat o)) (feat_others g)) neg) [] []
  | Group neg subs =>
    let r := or_combine (map (fun it => match it with
                           | ICond c' => eval c' g local
                           | IAnd cs => and_combine (map (fun c' => eval c' g local) cs)
                           end) subs) in
    mkRes (xorb neg (met r)) (matches r) (ancs r)
  end.

(* DetectionRule.detect *)
Definition detect (c : cond) (g : Z) : cres := eval c g false.
End Eval.

(* ---------- encoding ---------- *)
Fixpoint dCond (fuel : nat) : dec cond := fun l =>
  match fuel with
  | O => None
  | S f =>
    let dItem : dec item := fun l =>
      match l with
      | 0 :: r => match dCond f r with Some (c, r') => Some (ICond c, r') | None => None end
      | 1 :: r => match dList (dCond f) r with Some (cs, r') => Some (IAnd cs, r') | None => None end
      | _ => None
      end in
    match l with
    | 0 :: n :: p :: r => Some (Single (negb (n =? 0)) p, r)
    | 1 :: n :: p :: s :: r => Some (Score (negb (n =? 0)) p s, r)
    | 2 :: n :: k :: r => match dList dZ r with Some (o, r') => Some (Minimum (negb (n =? 0)) k o, r') | None => None end
    | 3 :: n :: r => match dList dItem r with Some (s, r') => Some (Cds (negb (n =? 0)) s, r') | None => None end
    | 4 :: n :: r => match dList dItem r with Some (s, r') => Some (Group (negb (n =? 0)) s, r') | None => None end
    | _ => None
    end
  end.

Definition dCtx : dec ctx := fun l =>
  match dPair (dPair dZ (dOpt dZ)) (dPair (dList (dPair dZ dLoc)) (dList (dPair dZ (dList (dPair dZ dZ))))) l with
  | Some ((c, w, (f, r)), rest) => Some (mkCtx c w f r, rest)
  | None => None
  end.

Definition eRes01 (r : cres) : list Z :=
  eBool (met r) ++ eList (fun x => [x]) (matches r) ++ eList (fun e => fst e :: eList (fun x => [x]) (snd e)) (ancs r).

Definition run_C01 (fn : Z) (l : list Z) : list Z :=
  match fn with
  | 1 => match dCtx l with
         | Some (cx, r) =>
           match dCond (length r) r with
           | Some (c, [g]) => eRes01 (detect cx c g)
           | _ => bad_input
           end
         | None => bad_input
         end
  | _ => bad_input
  end.
