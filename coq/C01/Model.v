(* C01: model of the rule-condition evaluator of antismash/common/hmm_rule_parser/rule_parser.py:
   Details (possibilities, in_range), ConditionMet, Conditions.is_satisfied /
   are_subconditions_satisfied, AndCondition, MinimumCondition, CDSCondition, SingleCondition,
   ScoreCondition and DetectionRule.detect.
   Genes and profiles are numbered; bit scores are carried doubled (half-integers are exact). *)
From ASV Require Export Base Loc.

Inductive cond :=
| Single (neg : bool) (p : Z)
| Score (neg : bool) (p : Z) (s : Z)                    (* s = the rule's integer score *)
| Minimum (neg : bool) (k : Z) (opts : list Z)
| Cds (neg : bool) (subs : list item)
| Group (neg : bool) (subs : list item)
with item :=
| ICond (c : cond)
| IAnd (cs : list cond).

(* ---------- finite sets of profiles as strictly sorted lists; ancillary hits as gene-sorted
   association lists (the canonical forms the harness compares) ---------- *)
Fixpoint sinsert (x : Z) (l : list Z) : list Z :=
  match l with
  | [] => [x]
  | y :: r => if x <? y then x :: l else if x =? y then l else y :: sinsert x r
  end.
Definition sunion (a b : list Z) : list Z := fold_left (fun acc x => sinsert x acc) a b.
Definition smem (x : Z) (l : list Z) : bool := existsb (Z.eqb x) l.
Definition sof (l : list Z) : list Z := sunion l [].
Definition sinter (a b : list Z) : list Z := filter (fun x => smem x b) (sof a).

Definition anc := list (Z * list Z).
Fixpoint ainsert (g : Z) (ps : list Z) (a : anc) : anc :=
  match a with
  | [] => [(g, ps)]
  | (h, qs) :: r => if g <? h then (g, ps) :: a else if g =? h then (h, sunion ps qs) :: r
                    else (h, qs) :: ainsert g ps r
  end.
Definition amerge (a b : anc) : anc := fold_left (fun acc e => ainsert (fst e) (snd e) acc) a b.

Record cres := mkRes { met : bool; matches : list Z; ancs : anc }.

(* union of matches, merge of ancillary hits, any / all of met *)
Definition or_combine (rs : list cres) : cres :=
  fold_left (fun acc r => mkRes (met acc || met r) (sunion (matches r) (matches acc)) (amerge (ancs r) (ancs acc)))
            rs (mkRes false [] []).
Definition and_combine (rs : list cres) : cres :=
  fold_left (fun acc r => mkRes (met acc && met r) (sunion (matches r) (matches acc)) (amerge (ancs r) (ancs acc)))
            rs (mkRes true [] []).

(* ---------- context ---------- *)
Record ctx := mkCtx {
  cutoff : Z;
  circ : option Z;                          (* circular_origin *)
  feats : list (Z * loc);                   (* features_by_id, insertion order *)
  results : list (Z * list (Z * Z));        (* results_by_id: gene -> [(profile, 2*bitscore)] *)
}.

Section Eval.
Variable cx : ctx.

Fixpoint assoc {A} (k : Z) (l : list (Z * A)) : option A :=
  match l with [] => None | (k', v) :: r => if k =? k' then Some v else assoc k r end.

Definition loc_of (g : Z) : loc := match assoc g (feats cx) with Some l => l | None => [] end.
Definition hits_of (g : Z) : list (Z * Z) := match assoc g (results cx) with Some l => l | None => [] end.
Definition poss (g : Z) : list Z := map fst (hits_of g).
Definition has (g p : Z) : bool := smem p (poss g).

(* Details.in_range: `if self.circular_origin:` is a truthiness test *)
Definition wrap : option Z := match circ cx with Some n => if n =? 0 then None else Some n | None => None end.
Definition in_range (g o : Z) : bool := dist (loc_of g) (loc_of o) wrap <? cutoff cx.

Definition scored (g p s : Z) : bool := existsb (fun h => (fst h =? p) && (2 * s <=? snd h)) (hits_of g).

(* neighbours as the loops see them *)
Definition feat_others (g : Z) : list Z :=
  filter (fun o => negb (o =? g) && in_range g o) (map fst (feats cx)).
Definition result_others (g : Z) : list Z :=
  filter (fun o => negb (o =? g) && in_range g o) (map fst (results cx)).

Fixpoint eval (c : cond) (g : Z) (local : bool) {struct c} : cres :=
  match c with
  | Single neg p =>
    let found := has g p in
    if local || found then mkRes (xorb neg found) (if found then [p] else []) []
    else
      let ancillary := fold_left (fun acc o => if has o p then ainsert o [p] acc else acc) (result_others g) [] in
      match ancillary with
      | [] => mkRes neg [] []
      | _ => mkRes (negb neg) [] ancillary
      end
  | Score neg p s =>
    if has g p && scored g p s then mkRes (negb neg) [p] []
    else if local then mkRes neg [] []
    else if existsb (fun o => in_range g o && has o p && scored o p s) (map fst (results cx))
         then mkRes (negb neg) [] [] else mkRes neg [] []
  | Minimum neg k opts =>
    let hits := sinter opts (poss g) in
    if k <=? zlen hits then mkRes (negb neg) hits []
    else
      let other_hits := map (fun o => (o, sinter opts (poss o))) (feat_others g) in
      let other_hits := filter (fun e => match snd e with [] => false | _ => true end) other_hits in
      let count := fold_left (fun acc e => acc + zlen (snd e)) other_hits (zlen hits) in
      if k <=? count then mkRes (negb neg) hits (amerge other_hits []) else mkRes neg hits []
  | Cds neg subs =>
    let sat := fun g' => or_combine (map (fun it => match it with
                           | ICond c' => eval c' g' true
                           | IAnd cs => and_combine (map (fun c' => eval c' g' true) cs)
                           end) subs) in
    let own := sat g in
    if local || met own then mkRes (xorb neg (met own)) (matches own) []
    else mkRes (xorb (existsb (fun o => met (sat o)) (feat_others g)) neg) [] []
  | Group neg subs =>
    let r := or_combine (map (fun it => match it with
                           | ICond c' => eval c' g local
                           | IAnd cs => and_combine (map (fun c' => eval c' g local) cs)
                           end) subs) in
    mkRes (xorb neg (met r)) (matches r) (ancs r)
  end.

(* DetectionRule.detect *)
Definition detect (c : cond) (g : Z) : cres := eval c g false.
End Eval.

(* ====================================================================================
   SPECIFICATION (no proofs here; executable so that the harness can evaluate it, through the
   extracted driver, on every input and compare the implementation's answer with it).
   Written from the property text, not from the code: truth value [holds], reason profiles
   [reasons], ancillary hits [anc_has], and the genes a rule is reported for [rule_hits_spec].
   ==================================================================================== *)
Section Spec.
Variable cx : ctx.

(* the genes closer than the cutoff *)
Definition near (g : Z) : list Z := feat_others cx g.

Definition count_in (opts : list Z) (o : Z) : Z := zlen (sinter opts (poss cx o)).
Definition count_total (opts : list Z) (g : Z) : Z :=
  fold_left (fun acc o => acc + count_in opts o) (near g) (count_in opts g).

Fixpoint holds (c : cond) (g : Z) (local : bool) {struct c} : bool :=
  match c with
  | Single neg p => xorb neg (has cx g p || (negb local && existsb (fun o => has cx o p) (near g)))
  | Score neg p s => xorb neg (scored cx g p s || (negb local && existsb (fun o => scored cx o p s) (near g)))
  | Minimum neg k opts =>
    xorb neg (k <=? fold_left (fun acc o => acc + count_in opts o) (near g) (count_in opts g))
  | Cds neg subs =>
    let sat := fun g' => existsb (fun it => match it with
                           | ICond c' => holds c' g' true
                           | IAnd cs => forallb (fun c' => holds c' g' true) cs end) subs in
    xorb neg (sat g || (negb local && existsb sat (near g)))
  | Group neg subs =>
    xorb neg (existsb (fun it => match it with
                           | ICond c' => holds c' g local
                           | IAnd cs => forallb (fun c' => holds c' g local) cs end) subs)
  end.

(* does gene g satisfy the inner formula of a cds(...) group on its own *)
Definition sat_local (subs : list item) (g : Z) : bool :=
  existsb (fun it => match it with
           | ICond c' => holds c' g true
           | IAnd cs => forallb (fun c' => holds c' g true) cs end) subs.

(* The reason profiles: the profiles of the formula that hit g itself; negation plays no role; a
   minimum lists its options found on g whether or not the count is reached; a minscore counts
   only when g's own score suffices; a cds(...) group counts only when g satisfies the group
   itself ([local] = the group is itself read on a single gene, which the rule grammar cannot
   produce: then the code keeps the inner reasons unconditionally, and so does this function;
   [reasons_text] below is the reading of the property text without that disjunct). *)
Fixpoint reasons_raw (c : cond) (g : Z) (local : bool) {struct c} : list Z :=
  match c with
  | Single _ p => if has cx g p then [p] else []
  | Score _ p s => if scored cx g p s then [p] else []
  | Minimum _ _ opts => filter (fun p => has cx g p) opts
  | Cds _ subs =>
    if local || sat_local subs g
    then flat_map (fun it => match it with
                   | ICond c' => reasons_raw c' g true
                   | IAnd cs => flat_map (fun c' => reasons_raw c' g true) cs end) subs
    else []
  | Group _ subs =>
    flat_map (fun it => match it with
              | ICond c' => reasons_raw c' g local
              | IAnd cs => flat_map (fun c' => reasons_raw c' g local) cs end) subs
  end.
Definition reasons (c : cond) (g : Z) (local : bool) : list Z := sof (reasons_raw c g local).

(* the property text, literally: a cds group counts iff g satisfies the group itself *)
Fixpoint reasons_text_raw (c : cond) (g : Z) {struct c} : list Z :=
  match c with
  | Single _ p => if has cx g p then [p] else []
  | Score _ p s => if scored cx g p s then [p] else []
  | Minimum _ _ opts => filter (fun p => has cx g p) opts
  | Cds _ subs =>
    if sat_local subs g
    then flat_map (fun it => match it with
                   | ICond c' => reasons_text_raw c' g
                   | IAnd cs => flat_map (fun c' => reasons_text_raw c' g) cs end) subs
    else []
  | Group _ subs =>
    flat_map (fun it => match it with
              | ICond c' => reasons_text_raw c' g
              | IAnd cs => flat_map (fun c' => reasons_text_raw c' g) cs end) subs
  end.
Definition reasons_text (c : cond) (g : Z) : list Z := sof (reasons_text_raw c g).

(* all profiles named by a condition (Conditions.profiles) *)
Fixpoint profiles (c : cond) : list Z :=
  match c with
  | Single _ p => [p]
  | Score _ p _ => [p]
  | Minimum _ _ opts => opts
  | Cds _ subs | Group _ subs =>
    flat_map (fun it => match it with
              | ICond c' => profiles c'
              | IAnd cs => flat_map profiles cs end) subs
  end.

(* Ancillary hits: gene o supplies profile p to the evaluation at g.  A name that is not on g
   itself lists every gene in range carrying it (also under `not`, where finding one makes the
   negated name false); a minimum that g cannot reach alone but reaches with the genes in range
   lists every gene in range with its options; minscore and cds(...) never list anything; groups,
   and-chains and or-lists pass on everything their operands list, whatever their truth value. *)
Fixpoint anc_has (c : cond) (g : Z) (local : bool) (o p : Z) {struct c} : bool :=
  match c with
  | Single _ q => negb local && negb (has cx g q) && (p =? q) && smem o (near g) && has cx o p
  | Score _ _ _ => false
  | Minimum _ k opts =>
    negb (k <=? count_in opts g) && (k <=? count_total opts g) && smem o (near g) && smem p opts && has cx o p
  | Cds _ _ => false
  | Group _ subs =>
    existsb (fun it => match it with
             | ICond c' => anc_has c' g local o p
             | IAnd cs => existsb (fun c' => anc_has c' g local o p) cs end) subs
  end.

Definition nonempty {A} (l : list A) : bool := match l with [] => false | _ => true end.

(* the ancillary hits as a canonical association list *)
Definition anc_spec (c : cond) (g : Z) (local : bool) : anc :=
  filter (fun e => nonempty (snd e))
         (map (fun o => (o, filter (anc_has c g local o) (sof (profiles c)))) (sof (map fst (feats cx)))).

(* a gene anchors: formula true at it and at least one reason of its own *)
Definition anchors (c : cond) (g : Z) : bool := holds c g false && nonempty (reasons c g false).

Definition detect_spec (c : cond) (g : Z) : cres := mkRes (holds c g false) (reasons c g false) (anc_spec c g false).
End Spec.

(* ---------- apply_cluster_rules, one rule: which genes (with which profiles) the rule is
   reported for.  Every gene with hits is evaluated in its own context (the features within the
   cutoff window, and whether the window crosses the origin - computed by code that is C03/C07's
   subject and taken as given here); an anchoring gene is recorded with its reasons and every
   ancillary gene of that evaluation is promoted with the profiles it supplied. ---------- *)
Definition is_anchor (r : cres) : bool := met r && nonempty (matches r).
Definition apply_rule (c : cond) (evals : list (Z * ctx)) : anc :=
  fold_left (fun acc e =>
               let r := detect (snd e) c (fst e) in
               if is_anchor r then amerge (ancs r) (ainsert (fst e) (matches r) acc) else acc)
            evals [].
Definition rule_hits (c : cond) (evals : list (Z * ctx)) : list Z := map fst (apply_rule c evals).

(* specification: (o, p) is recorded iff some anchoring gene g has o = g and p among its reasons, or
   lists o as ancillary with p *)
Definition recorded_spec (c : cond) (evals : list (Z * ctx)) (o p : Z) : bool :=
  existsb (fun e => anchors (snd e) c (fst e) &&
                    (((o =? fst e) && smem p (reasons (snd e) c (fst e) false)) || anc_has (snd e) c (fst e) false o p))
          evals.
Definition apply_rule_spec (c : cond) (evals : list (Z * ctx)) : anc :=
  filter (fun e => nonempty (snd e))
         (map (fun o => (o, filter (recorded_spec c evals o) (sof (profiles c))))
              (sof (flat_map (fun e => fst e :: map fst (feats (snd e))) evals))).

(* ---------- histories: ONE rule value evaluated over a sequence of (gene, arrangement) pairs, the way
   antiSMASH uses a DetectionRule object (parsed once, then detect() for every gene with hits of every
   record of the input).  The model has no state to carry from one evaluation to the next, so the run
   over a history is the map of the single evaluation; the harness evaluates its history cases through
   [detect_history] (fn 5) / [apply_history] (fn 7) and compares EVERY position with what the real rule
   object answered at that point of its life. ---------- *)
Definition detect_history (c : cond) (evals : list (Z * ctx)) : list cres :=
  map (fun e => detect (snd e) c (fst e)) evals.
Definition detect_spec_history (c : cond) (evals : list (Z * ctx)) : list cres :=
  map (fun e => detect_spec (snd e) c (fst e)) evals.
(* several records, one apply_cluster_rules call each, the same rule *)
Definition apply_history (c : cond) (records : list (list (Z * ctx))) : list anc := map (apply_rule c) records.
Definition apply_spec_history (c : cond) (records : list (list (Z * ctx))) : list anc := map (apply_rule_spec c) records.

(* ---------- the rule's distances through a sequence of Ruleset constructions.  Parser.__init__ assigns
   rule.cutoff = int(rule.cutoff * multipliers.cutoff) after parsing `CUTOFF kb` (kb * 1000) on the object
   it has just created.  Ruleset.__post_init__ (as repaired for C01-H1 / C07-K2) scales COPIES of the rule
   objects it is given - rule = copy.copy(rule); rule.cutoff = int(rule.cutoff * self.multipliers.cutoff) -
   and remembers the objects as given (_unscaled_rules); Ruleset.from_files parses WITHOUT multipliers and
   passes them to the constructor only; copy_with_replacements (dataclasses.replace, so __post_init__
   again) hands the new instance the remembered objects in place of its own scaled copies.  Multipliers
   are positive rationals num/den (the harness uses dyadic ones, for which the float product and int() are
   exact = floor).  A step is (copy?, multiplier): [false] = Ruleset(...) over the rule objects the newest
   holder detects with (the parsed rules at first), [true] = newest.copy_with_replacements(rules=its rules,
   multipliers=m).  The state is (value of the objects the newest holder was GIVEN, value it detects
   with); [cutoff_life] lists the value seen through the parsed object and through every ruleset in turn
   (no holder's value changes after its construction: every ruleset owns its objects). ---------- *)
Definition scale (m : Z * Z) (c : Z) : Z := (c * fst m) / snd m.
Definition parsed_cutoff (m : Z * Z) (kb : Z) : Z := scale m (kb * 1000).
Fixpoint life_from (given current : Z) (steps : list (bool * (Z * Z))) : list Z :=
  match steps with
  | [] => []
  | (copy, m) :: rest =>
    let g := if copy then given else current in
    let c := scale m g in c :: life_from g c rest
  end.
Definition cutoff_life (kb : Z) (m0 : Z * Z) (steps : list (bool * (Z * Z))) : list Z :=
  let c0 := parsed_cutoff m0 kb in c0 :: life_from c0 c0 steps.

(* ---------- encoding ---------- *)
Fixpoint dCond (fuel : nat) : dec cond := fun l =>
  match fuel with
  | O => None
  | S f =>
    let dItem : dec item := fun l =>
      match l with
      | 0 :: r => match dCond f r with Some (c, r') => Some (ICond c, r') | None => None end
      | 1 :: r => match dList (dCond f) r with Some (cs, r') => Some (IAnd cs, r') | None => None end
      | _ => None
      end in
    match l with
    | 0 :: n :: p :: r => Some (Single (negb (n =? 0)) p, r)
    | 1 :: n :: p :: s :: r => Some (Score (negb (n =? 0)) p s, r)
    | 2 :: n :: k :: r => match dList dZ r with Some (o, r') => Some (Minimum (negb (n =? 0)) k o, r') | None => None end
    | 3 :: n :: r => match dList dItem r with Some (s, r') => Some (Cds (negb (n =? 0)) s, r') | None => None end
    | 4 :: n :: r => match dList dItem r with Some (s, r') => Some (Group (negb (n =? 0)) s, r') | None => None end
    | _ => None
    end
  end.

Definition dCtx : dec ctx := fun l =>
  match dPair (dPair dZ (dOpt dZ)) (dPair (dList (dPair dZ dLoc)) (dList (dPair dZ (dList (dPair dZ dZ))))) l with
  | Some ((c, w, (f, r)), rest) => Some (mkCtx c w f r, rest)
  | None => None
  end.

Definition eAnc (a : anc) : list Z := eList (fun e => fst e :: eList (fun x => [x]) (snd e)) a.
Definition eRes01 (r : cres) : list Z := eBool (met r) ++ eList (fun x => [x]) (matches r) ++ eAnc (ancs r).

(* what fn 1 answers for one evaluation, and what fn 5 answers for a history *)
Definition single_out (c : cond) (e : Z * ctx) : list Z := eRes01 (detect (snd e) c (fst e)).
Definition history_out (c : cond) (evals : list (Z * ctx)) : list Z := eList eRes01 (detect_history c evals).

Definition run_C01 (fn : Z) (l : list Z) : list Z :=
  match fn with
  | 1 => match dCtx l with
         | Some (cx, r) =>
           match dCond (length r) r with
           | Some (c, [g]) => eRes01 (detect cx c g)
           | _ => bad_input
           end
         | None => bad_input
         end
  | 2 => match dCtx l with          (* the specification's answer for the same input *)
         | Some (cx, r) =>
           match dCond (length r) r with
           | Some (c, [g]) => eRes01 (detect_spec cx c g)
           | _ => bad_input
           end
         | None => bad_input
         end
  | 3 => match dList (dPair dZ dCtx) l with      (* apply_cluster_rules for one rule *)
         | Some (evals, r) =>
           match dCond (length r) r with
           | Some (c, []) => eAnc (apply_rule c evals)
           | _ => bad_input
           end
         | None => bad_input
         end
  | 4 => match dList (dPair dZ dCtx) l with
         | Some (evals, r) =>
           match dCond (length r) r with
           | Some (c, []) => eAnc (apply_rule_spec c evals)
           | _ => bad_input
           end
         | None => bad_input
         end
  | 5 => match dList (dPair dZ dCtx) l with      (* a history of detect() calls on one rule *)
         | Some (evals, r) =>
           match dCond (length r) r with
           | Some (c, []) => history_out c evals
           | _ => bad_input
           end
         | None => bad_input
         end
  | 6 => match dList (dPair dZ dCtx) l with      (* ... and what the specification says at every position *)
         | Some (evals, r) =>
           match dCond (length r) r with
           | Some (c, []) => eList eRes01 (detect_spec_history c evals)
           | _ => bad_input
           end
         | None => bad_input
         end
  | 7 => match dList (dList (dPair dZ dCtx)) l with      (* apply_cluster_rules over several records, one rule *)
         | Some (records, r) =>
           match dCond (length r) r with
           | Some (c, []) => eList eAnc (apply_history c records)
           | _ => bad_input
           end
         | None => bad_input
         end
  | 8 => match dList (dList (dPair dZ dCtx)) l with
         | Some (records, r) =>
           match dCond (length r) r with
           | Some (c, []) => eList eAnc (apply_spec_history c records)
           | _ => bad_input
           end
         | None => bad_input
         end
  | 9 => match l with                 (* cutoff through Ruleset constructions: kb, parse multiplier, (copy?, multiplier)* *)
         | kb :: n0 :: d0 :: r =>
           match dList (dPair dBool (dPair dZ dZ)) r with
           | Some (ms, []) => eList (fun x => [x]) (cutoff_life kb (n0, d0) ms)
           | _ => bad_input
           end
         | _ => bad_input
         end
  | _ => bad_input
  end.
