(* C03 proofs about merge_over_origin (cluster_prediction.py 644-709): clusters of different rules
   are never merged; the loop is one left-to-right pass over the group sorted by key, it neither
   invents nor loses all clusters; clusters whose cores do not overlap the cutoff-extended previous
   core are returned unchanged; on a circular record two single-part cores farther apart than the
   cutoff (both ways round) do not overlap. *)
From Coq Require Import Lia ZifyBool Sorting.Permutation.
From ASV.C03 Require Import Model Proofs.
From ASV.C04 Require Import Proofs.

(* ---------- generic helpers ---------- *)
Lemma mapM_in {A B} (f : A -> res B) : forall l ys y,
  mapM f l = Ok ys -> In y ys -> exists x, In x l /\ f x = Ok y.
Proof.
  induction l as [|x l IH]; intros ys y H Hin; cbn [mapM] in H.
  - inversion H; subst. destruct Hin.
  - destruct (f x) as [b|k] eqn:Ef; cbn [bind] in H; [|discriminate H].
    destruct (mapM f l) as [bs|k] eqn:Em; cbn [bind] in H; [|discriminate H].
    inversion H; subst. destruct Hin as [<-|Hin].
    + exists x. split; [left; reflexivity|exact Ef].
    + destruct (IH bs y eq_refl Hin) as [x' [Hx' Hf]]. exists x'. split; [right; exact Hx'|exact Hf].
Qed.

Lemma mapM_in_dom {A B} (f : A -> res B) : forall l ys x,
  mapM f l = Ok ys -> In x l -> exists y, f x = Ok y /\ In y ys.
Proof.
  induction l as [|a l IH]; intros ys x H Hin; [destruct Hin|]. cbn [mapM] in H.
  destruct (f a) as [b|k] eqn:Ef; cbn [bind] in H; [|discriminate H].
  destruct (mapM f l) as [bs|k] eqn:Em; cbn [bind] in H; [|discriminate H].
  inversion H; subst. destruct Hin as [<-|Hin].
  - exists b. split; [exact Ef|left; reflexivity].
  - destruct (IH bs x eq_refl Hin) as [y [Hy1 Hy2]]. exists y. split; [exact Hy1|right; exact Hy2].
Qed.

Lemma existsb_eqb_in x l : existsb (Z.eqb x) l = true <-> In x l.
Proof.
  rewrite existsb_exists. split.
  - intros [y [Hy He]]. apply Z.eqb_eq in He. subst y. exact Hy.
  - intro H. exists x. split; [exact H|apply Z.eqb_refl].
Qed.

(* ---------- the order in which the products are visited ---------- *)
Lemma product_order_in : forall l seen ri,
  In ri (product_order l seen) <-> In ri seen \/ In ri (map p_rule l).
Proof.
  induction l as [|p l IH]; intros seen ri; cbn [product_order map].
  - rewrite <- in_rev. cbn [In]. tauto.
  - destruct (existsb (Z.eqb (p_rule p)) seen) eqn:E.
    + rewrite IH. apply existsb_eqb_in in E. cbn [In]. split.
      * intros [H|H]; [left; exact H|right; right; exact H].
      * intros [H|[H|H]]; [left; exact H|left; subst ri; exact E|right; exact H].
    + rewrite IH. cbn [In]. tauto.
Qed.

Lemma product_order_nodup : forall l seen, NoDup seen -> NoDup (product_order l seen).
Proof.
  induction l as [|p l IH]; intros seen Hnd; cbn [product_order].
  - apply NoDup_rev. exact Hnd.
  - destruct (existsb (Z.eqb (p_rule p)) seen) eqn:E.
    + apply IH. exact Hnd.
    + apply IH. constructor; [|exact Hnd]. intro Hin. apply existsb_eqb_in in Hin. congruence.
Qed.

(* ---------- sorting by a key ---------- *)
Fixpoint sorted_by_key {A} (key : A -> Z) (l : list A) : Prop :=
  match l with
  | [] => True
  | x :: r => Forall (fun y => key x <= key y) r /\ sorted_by_key key r
  end.

Definition key_lt_of {A} (key : A -> Z) (a b : A) : bool := key a <? key b.

Lemma insert_key_forall {A} (key : A -> Z) (x : A) (k : Z) : forall l,
  k <= key x -> Forall (fun z => k <= key z) l ->
  Forall (fun z => k <= key z) (insert_by (key_lt_of key) x l).
Proof.
  induction l as [|z l IH]; intros Hx Hf; cbn [insert_by].
  - constructor; [exact Hx|constructor].
  - inversion Hf; subst. destruct (key_lt_of key x z).
    + constructor; [exact Hx|]. constructor; assumption.
    + constructor; [assumption|]. apply IH; assumption.
Qed.

Lemma insert_key_sorted {A} (key : A -> Z) (x : A) : forall l,
  sorted_by_key key l -> sorted_by_key key (insert_by (key_lt_of key) x l).
Proof.
  induction l as [|y l IH]; intros Hs; cbn [insert_by].
  - cbn. split; [constructor|exact I].
  - destruct Hs as [Hy Hs]. unfold key_lt_of at 1. destruct (key x <? key y) eqn:Hc.
    + apply Z.ltb_lt in Hc. cbn [sorted_by_key]. split; [|split; assumption].
      constructor; [apply Z.lt_le_incl; exact Hc|].
      eapply Forall_impl; [|exact Hy]. cbn. intros a Ha. eapply Z.le_trans; [apply Z.lt_le_incl; exact Hc|exact Ha].
    + apply Z.ltb_ge in Hc. cbn [sorted_by_key]. split; [|apply IH; exact Hs].
      apply insert_key_forall; assumption.
Qed.

Lemma sort_key_sorted_acc {A} (key : A -> Z) : forall l acc, sorted_by_key key acc ->
  sorted_by_key key (fold_left (fun acc x => insert_by (key_lt_of key) x acc) l acc).
Proof.
  induction l as [|x l IH]; intros acc Hs; cbn [fold_left]; [exact Hs|].
  apply IH. apply insert_key_sorted. exact Hs.
Qed.

Lemma sort_key_sorted {A} (key : A -> Z) (l : list A) :
  sorted_by_key key (sort_by (fun a b => key a <? key b) l).
Proof. apply (sort_key_sorted_acc key l []). exact I. Qed.

(* (M2, second half) the list the loop runs over: the group, rearranged, in non-decreasing key order *)
Lemma merge_sorted_perm (key : proto * loc -> Z) (group : list (proto * loc)) :
  Permutation group (sort_by (fun a b => key a <? key b) group) /\
  sorted_by_key key (sort_by (fun a b => key a <? key b) group).
Proof. split; [apply sort_perm|apply sort_key_sorted]. Qed.

(* pairs of list-adjacent elements *)
Fixpoint adjacent_all {A} (R : A -> A -> Prop) (l : list A) : Prop :=
  match l with
  | a :: ((b :: _) as t) => R a b /\ adjacent_all R t
  | _ => True
  end.

Lemma adjacent_all_of_split {A} (R : A -> A -> Prop) : forall l,
  (forall l1 a b l2, l = l1 ++ a :: b :: l2 -> R a b) -> adjacent_all R l.
Proof.
  induction l as [|a t IH]; intro H; [exact I|].
  destruct t as [|b t']; [exact I|]. split.
  - apply (H [] a b t'). reflexivity.
  - apply IH. intros l1 x y l2 E. apply (H (a :: l1) x y l2). rewrite E. reflexivity.
Qed.

Section Merge.
Variable N : Z.
Variable circular : bool.
Variable rules : list rule.

Notation mpair := (merge_pair N circular rules).
Notation mstep := (merge_step N circular rules).
Notation mgroup := (merge_group N circular rules).

(* ---------- merge_pair / merge_step ---------- *)
Lemma merge_pair_rule a b m : mpair a b = Ok m -> p_rule m = p_rule a.
Proof. intro H. destruct (merge_pair_area _ _ _ _ _ _ H) as (core & sur0 & _ & _ & _ & Hr & _). exact Hr. Qed.

Lemma merge_step_err k cl : mstep (Err k) cl = Err k.
Proof. reflexivity. Qed.

Lemma fold_merge_err k : forall l, fold_left mstep l (Err k) = Err k.
Proof. induction l as [|x l IH]; [reflexivity|]. cbn [fold_left]. rewrite merge_step_err. exact IH. Qed.

(* what one step does, as a case distinction *)
Lemma merge_step_cases done cl res :
  mstep (Ok done) cl = Ok res ->
  (done = [] /\ res = [cl]) \/
  (exists prev prev_loc rest, done = (prev, prev_loc) :: rest /\
     ((overlap (p_core (fst cl)) prev_loc = false /\ res = cl :: done) \/
      (overlap (p_core (fst cl)) prev_loc = true /\
       exists m ext, mpair prev (fst cl) = Ok m /\
         extend_location (p_core m) (r_cut (nth_rule rules (p_rule m))) N circular = Ok ext /\
         res = (m, ext) :: rest))).
Proof.
  unfold merge_step. cbn [bind]. intro H.
  destruct done as [|[prev prev_loc] rest].
  - left. inversion H. split; reflexivity.
  - right. exists prev, prev_loc, rest. split; [reflexivity|].
    destruct (overlap (p_core (fst cl)) prev_loc) eqn:Ho.
    + right. split; [reflexivity|].
      destruct (mpair prev (fst cl)) as [m|k] eqn:Em; cbn [bind] in H; [|discriminate H].
      destruct (extend_location (p_core m) (r_cut (nth_rule rules (p_rule m))) N circular) as [ext|k] eqn:Ee;
        cbn [bind] in H; [|discriminate H].
      exists m, ext. inversion H. split; [reflexivity|]. split; [exact Ee|reflexivity].
    + left. inversion H. split; reflexivity.
Qed.

(* (M3, local) a cluster whose core does not overlap the cutoff-extended previous cluster is appended
   as it is; nothing already finished is touched *)
Lemma merge_step_no_overlap prev prev_loc rest cl :
  overlap (p_core (fst cl)) prev_loc = false ->
  mstep (Ok ((prev, prev_loc) :: rest)) cl = Ok (cl :: (prev, prev_loc) :: rest).
Proof. intro H. unfold merge_step. cbn [bind]. rewrite H. reflexivity. Qed.

(* (M5) a merge replaces the previous cluster only: same rule, core = connect_locations of both cores,
   the compared location is recomputed from the joined core with that rule's cutoff *)
Lemma merge_step_overlap_shape prev prev_loc rest cl res :
  overlap (p_core (fst cl)) prev_loc = true ->
  mstep (Ok ((prev, prev_loc) :: rest)) cl = Ok res ->
  exists m ext, res = (m, ext) :: rest /\
    p_rule m = p_rule prev /\
    connect_locations [p_core prev; p_core (fst cl)] (wrap_of N circular) = Ok (p_core m) /\
    extend_location (p_core m) (r_cut (nth_rule rules (p_rule prev))) N circular = Ok ext.
Proof.
  intros Ho H. apply merge_step_cases in H. destruct H as [[H _]|H]; [discriminate H|].
  destruct H as (prev' & prev_loc' & rest' & E & H). inversion E; subst prev' prev_loc' rest'. clear E.
  destruct H as [[Hf _]|[_ (m & ext & Hm & He & Hres)]]; [congruence|].
  exists m, ext. split; [exact Hres|].
  destruct (merge_pair_area _ _ _ _ _ _ Hm) as (core & sur0 & Hc & _ & _ & Hr & Hcore & _).
  split; [exact Hr|]. split; [rewrite Hcore; exact Hc|]. rewrite <- Hr. exact He.
Qed.

(* ---------- (M1) rules are kept ---------- *)
Definition all_rule (ri : Z) (l : list (proto * loc)) : Prop := Forall (fun pl => p_rule (fst pl) = ri) l.

Lemma merge_step_all_rule ri done cl res :
  all_rule ri done -> p_rule (fst cl) = ri -> mstep (Ok done) cl = Ok res -> all_rule ri res.
Proof.
  intros Hd Hc H. apply merge_step_cases in H. destruct H as [[-> ->]|H].
  - constructor; [exact Hc|constructor].
  - destruct H as (prev & prev_loc & rest & -> & [[_ ->]|[_ (m & ext & Hm & _ & ->)]]).
    + constructor; [exact Hc|exact Hd].
    + pose proof (Forall_inv Hd) as Hp. pose proof (Forall_inv_tail Hd) as Hr. cbn beta in Hp.
      constructor; [|exact Hr].
      cbn [fst] in *. rewrite (merge_pair_rule _ _ _ Hm). exact Hp.
Qed.

Lemma fold_merge_all_rule ri : forall l done res,
  all_rule ri done -> all_rule ri l -> fold_left mstep l (Ok done) = Ok res -> all_rule ri res.
Proof.
  induction l as [|cl l IH]; intros done res Hd Hl H; cbn [fold_left] in H.
  - inversion H; subst. exact Hd.
  - pose proof (Forall_inv Hl) as Hc. pose proof (Forall_inv_tail Hl) as Hl'. cbn beta in Hc.
    destruct (mstep (Ok done) cl) as [d'|k] eqn:Es.
    + apply (IH d' res); [|exact Hl'|exact H]. exact (merge_step_all_rule ri done cl d' Hd Hc Es).
    + rewrite fold_merge_err in H. discriminate H.
Qed.

Lemma all_rule_perm ri l l' : Permutation l l' -> all_rule ri l -> all_rule ri l'.
Proof.
  intros Hp H. unfold all_rule in *. rewrite Forall_forall in *. intros x Hx. apply H.
  eapply Permutation_in; [apply Permutation_sym; exact Hp|exact Hx].
Qed.

(* ---------- the second pass on a circular record (ring_merge) ---------- *)
(* the core of the later one does not overlap the cutoff-extended location of the earlier one *)
Definition apart (a b : proto * loc) : Prop := overlap (p_core (fst b)) (snd a) = false.
(* ... for every pair of positions i < j *)
Fixpoint fwd_apart (l : list (proto * loc)) : Prop :=
  match l with
  | [] => True
  | x :: r => Forall (apart x) r /\ fwd_apart r
  end.
(* the location carried with a cluster is its core extended by its rule's cutoff *)
Definition ext_ok (pl : proto * loc) : Prop :=
  extend_location (p_core (fst pl)) (r_cut (nth_rule rules (p_rule (fst pl)))) N circular = Ok (snd pl).

Lemma split_first_none {A} (p : A -> bool) : forall l,
  split_first p l = None <-> Forall (fun y => p y = false) l.
Proof.
  induction l as [|y r IH]; cbn [split_first]; [split; [constructor|reflexivity]|].
  destruct (p y) eqn:E.
  - split; [discriminate|]. intro H. inversion H; subst. congruence.
  - destruct (split_first p r) as [[[b z] a]|] eqn:Es.
    + split; [discriminate|]. intro H. inversion H as [|? ? _ Hr]; subst.
      apply IH in Hr. discriminate Hr.
    + split; [|reflexivity]. intros _. constructor; [exact E|]. apply IH. reflexivity.
Qed.

Lemma split_first_some {A} (p : A -> bool) : forall l b y a,
  split_first p l = Some (b, y, a) -> l = b ++ y :: a /\ p y = true /\ Forall (fun z => p z = false) b.
Proof.
  induction l as [|z r IH]; intros b y a H; cbn [split_first] in H; [discriminate H|].
  destruct (p z) eqn:E.
  - inversion H; subst. split; [reflexivity|]. split; [exact E|constructor].
  - destruct (split_first p r) as [[[b' z'] a']|] eqn:Es; [|discriminate H].
    inversion H; subst. destruct (IH b' y a eq_refl) as (-> & Hy & Hb).
    split; [reflexivity|]. split; [exact Hy|]. constructor; assumption.
Qed.

(* no pair left <-> the pass finds nothing *)
Lemma ring_once_none : forall l, ring_merge_once N circular rules l = Ok None <-> fwd_apart l.
Proof.
  induction l as [|x r IH]; cbn [ring_merge_once fwd_apart]; [split; [intros _; exact I|reflexivity]|].
  destruct (split_first (fun y : proto * loc => overlap (p_core (fst y)) (snd x)) r) as [[[b y] a]|] eqn:Es.
  - split.
    + intro H. destruct (mpair (fst x) (fst y)) as [m|k]; cbn [bind] in H; [|discriminate H].
      destruct (extend_location (p_core m) (r_cut (nth_rule rules (p_rule m))) N circular); cbn [bind] in H; discriminate H.
    + intros [Hx _]. apply split_first_some in Es. destruct Es as (-> & Hy & _).
      rewrite Forall_forall in Hx. pose proof (Hx y (in_elt y b a)) as Hxy. unfold apart in Hxy. congruence.
  - apply split_first_none in Es. split.
    + intro H. destruct (ring_merge_once N circular rules r) as [[r'|]|k] eqn:Er; cbn [bind] in H; try discriminate H.
      split; [exact Es|]. apply IH. reflexivity.
    + intros [_ Hr]. apply IH in Hr. rewrite Hr. reflexivity.
Qed.

(* what one merging round does: the first pair (i < j) with an overlap is merged into position i, position j goes *)
Lemma ring_once_some : forall l l', ring_merge_once N circular rules l = Ok (Some l') ->
  exists pre x b y a m ext, l = pre ++ x :: b ++ y :: a /\ l' = pre ++ (m, ext) :: b ++ a /\
    overlap (p_core (fst y)) (snd x) = true /\ mpair (fst x) (fst y) = Ok m /\
    extend_location (p_core m) (r_cut (nth_rule rules (p_rule m))) N circular = Ok ext.
Proof.
  induction l as [|x r IH]; intros l' H; cbn [ring_merge_once] in H; [discriminate H|].
  destruct (split_first (fun y : proto * loc => overlap (p_core (fst y)) (snd x)) r) as [[[b y] a]|] eqn:Es.
  - apply split_first_some in Es. destruct Es as (-> & Hy & _).
    destruct (mpair (fst x) (fst y)) as [m|k] eqn:Em; cbn [bind] in H; [|discriminate H].
    destruct (extend_location (p_core m) (r_cut (nth_rule rules (p_rule m))) N circular) as [ext|k] eqn:Ee;
      cbn [bind] in H; [|discriminate H].
    inversion H; subst l'. exists [], x, b, y, a, m, ext. repeat split; try reflexivity; assumption.
  - destruct (ring_merge_once N circular rules r) as [[r'|]|k] eqn:Er; cbn [bind] in H; try discriminate H.
    inversion H; subst l'. destruct (IH r' eq_refl) as (pre & x' & b & y & a & m & ext & -> & -> & Ho & Hm & He).
    exists (x :: pre), x', b, y, a, m, ext. repeat split; try reflexivity; assumption.
Qed.

Lemma ring_once_length l l' : ring_merge_once N circular rules l = Ok (Some l') -> length l = S (length l').
Proof.
  intro H. destruct (ring_once_some _ _ H) as (pre & x & b & y & a & m & ext & -> & -> & _).
  rewrite !app_length. cbn [length]. rewrite !app_length. cbn [length]. lia.
Qed.

Lemma ring_merge_apart fuel l : fwd_apart l -> ring_merge N circular rules fuel l = Ok l.
Proof.
  intro H. destruct fuel as [|f]; [reflexivity|]. cbn [ring_merge].
  rewrite (proj2 (ring_once_none l) H). reflexivity.
Qed.

(* the pass ends with no pair left: afterwards no cluster's core overlaps the cutoff-extended core of a
   cluster before it *)
Lemma ring_merge_separated : forall fuel l l', (length l <= fuel)%nat ->
  ring_merge N circular rules fuel l = Ok l' -> fwd_apart l'.
Proof.
  induction fuel as [|f IH]; intros l l' Hlen H; cbn [ring_merge] in H.
  - inversion H; subst l'. destruct l; [exact I|cbn in Hlen; lia].
  - destruct (ring_merge_once N circular rules l) as [[l2|]|k] eqn:Eo; cbn [bind] in H; [| |discriminate H].
    + apply (IH l2 l'); [|exact H]. apply ring_once_length in Eo. lia.
    + inversion H; subst l'. apply ring_once_none. exact Eo.
Qed.

(* an invariant of every element is kept when a merged cluster has it *)
Lemma ring_merge_forall (P : proto * loc -> Prop) :
  (forall x y m ext, P x -> P y -> mpair (fst x) (fst y) = Ok m ->
     extend_location (p_core m) (r_cut (nth_rule rules (p_rule m))) N circular = Ok ext -> P (m, ext)) ->
  forall fuel l l', Forall P l -> ring_merge N circular rules fuel l = Ok l' -> Forall P l'.
Proof.
  intro HP. induction fuel as [|f IH]; intros l l' Hl H; cbn [ring_merge] in H.
  - inversion H; subst. exact Hl.
  - destruct (ring_merge_once N circular rules l) as [[l2|]|k] eqn:Eo; cbn [bind] in H; [| |discriminate H].
    + apply (IH l2 l'); [|exact H].
      destruct (ring_once_some _ _ Eo) as (pre & x & b & y & a & m & ext & -> & -> & _ & Hm & He).
      apply Forall_app in Hl. destruct Hl as [Hpre Hl]. inversion Hl as [|? ? Hx Hl2]; subst.
      apply Forall_app in Hl2. destruct Hl2 as [Hb Hl3]. inversion Hl3 as [|? ? Hy Ha]; subst.
      apply Forall_app. split; [exact Hpre|]. constructor; [exact (HP x y m ext Hx Hy Hm He)|].
      apply Forall_app. split; assumption.
    + inversion H; subst. exact Hl.
Qed.

Lemma ring_merge_length : forall fuel l l', ring_merge N circular rules fuel l = Ok l' ->
  (length l' <= length l)%nat /\ ((1 <= length l)%nat -> (1 <= length l')%nat).
Proof.
  induction fuel as [|f IH]; intros l l' H; cbn [ring_merge] in H.
  - inversion H; subst. split; [apply le_n|intro Hx; exact Hx].
  - destruct (ring_merge_once N circular rules l) as [[l2|]|k] eqn:Eo; cbn [bind] in H; [| |discriminate H].
    + destruct (IH l2 l' H) as [H1 H2]. pose proof (ring_once_length _ _ Eo) as Hl.
      destruct (ring_once_some _ _ Eo) as (pre & x & b & y & a & m & ext & _ & E2 & _).
      assert (1 <= length l2)%nat by (rewrite E2, app_length; cbn [length]; lia).
      split; [lia|]. intros _. apply H2. assumption.
    + inversion H; subst. split; [apply le_n|intro Hx; exact Hx].
Qed.

Lemma fwd_apart_split : forall l, fwd_apart l ->
  forall l1 x l2 y l3, l = l1 ++ x :: l2 ++ y :: l3 -> apart x y.
Proof.
  intros l H l1. revert l H. induction l1 as [|z l1 IH]; intros l H x l2 y l3 E; subst l.
  - destruct H as [Hx _]. rewrite Forall_forall in Hx. apply Hx. apply in_elt.
  - destruct H as [_ Hr]. exact (IH _ Hr x l2 y l3 eq_refl).
Qed.

Lemma second_pass_cases (done kept : list (proto * loc)) :
  (if circular then ring_merge N circular rules (length done) (rev done) else Ok (rev done)) = Ok kept ->
  (circular = true /\ ring_merge N circular rules (length done) (rev done) = Ok kept) \/
  (circular = false /\ kept = rev done).
Proof.
  intro H. destruct circular; [left; split; [reflexivity|exact H]|right; split; [reflexivity|]].
  inversion H. reflexivity.
Qed.

Lemma merge_group_unfold key group :
  mgroup key group =
  match group with
  | [] | [_] => Ok (map fst group)
  | _ => do done <- fold_left mstep (sort_by (fun a b => key a <? key b) group) (Ok []);
         do kept <- (if circular then ring_merge N circular rules (length done) (rev done) else Ok (rev done));
         Ok (map fst kept)
  end.
Proof. reflexivity. Qed.

(* every cluster of a group's result carries the rule of the group *)
Lemma merge_group_rule key ri group res :
  all_rule ri group -> mgroup key group = Ok res -> Forall (fun q => p_rule q = ri) res.
Proof.
  intros Hg H. rewrite merge_group_unfold in H.
  assert (Hmap : forall l, all_rule ri l -> Forall (fun q => p_rule q = ri) (map fst l)).
  { intros l Hl. unfold all_rule in Hl. rewrite Forall_forall in *. intros q Hq.
    apply in_map_iff in Hq. destruct Hq as [pl [<- Hpl]]. apply Hl. exact Hpl. }
  destruct group as [|a [|b t]].
  - inversion H; subst. constructor.
  - inversion H; subst. apply (Hmap [a]). exact Hg.
  - destruct (fold_left mstep (sort_by (fun a0 b0 => key a0 <? key b0) (a :: b :: t)) (Ok [])) as [done|k] eqn:Ef;
      cbn [bind] in H; [|discriminate H].
    assert (Hd : all_rule ri done).
    { eapply fold_merge_all_rule; [constructor| |exact Ef].
      eapply all_rule_perm; [apply sort_perm|exact Hg]. }
    assert (Hr : all_rule ri (rev done)).
    { unfold all_rule in *. rewrite Forall_forall in *. intros x Hx. apply Hd. apply in_rev. exact Hx. }
    destruct (if circular then ring_merge N circular rules (length done) (rev done) else Ok (rev done)) as [kept|k] eqn:Ek;
      cbn [bind] in H; [|discriminate H].
    inversion H; subst. apply Hmap.
    destruct (second_pass_cases _ _ Ek) as [[_ Ek']|[_ ->]]; [|exact Hr]. clear Ek. rename Ek' into Ek.
    refine (ring_merge_forall (fun pl => p_rule (fst pl) = ri) _ _ _ _ Hr Ek).
    intros x y m ext Hx _ Hm _. cbn [fst]. rewrite (merge_pair_rule _ _ _ Hm). exact Hx.
Qed.

Definition with_ext (p : proto) : res (proto * loc) :=
  do ext <- extend_location (p_core p) (r_cut (nth_rule rules (p_rule p))) N circular; Ok (p, ext).

Lemma with_ext_fst p pl : with_ext p = Ok pl -> fst pl = p.
Proof.
  unfold with_ext. intro H.
  destruct (extend_location (p_core p) (r_cut (nth_rule rules (p_rule p))) N circular); cbn [bind] in H; [|discriminate H].
  inversion H. reflexivity.
Qed.

Lemma mapM_with_ext_fst : forall l pairs, mapM with_ext l = Ok pairs -> map fst pairs = l.
Proof.
  induction l as [|p l IH]; intros pairs H; cbn [mapM] in H.
  - inversion H. reflexivity.
  - destruct (with_ext p) as [pl|k] eqn:Ep; cbn [bind] in H; [|discriminate H].
    destruct (mapM with_ext l) as [ps'|k] eqn:Em; cbn [bind] in H; [|discriminate H].
    inversion H; subst. cbn [map]. rewrite (with_ext_fst _ _ Ep), (IH ps' eq_refl). reflexivity.
Qed.

Definition of_rule (ri : Z) (pairs : list (proto * loc)) : list (proto * loc) :=
  filter (fun pl : proto * loc => p_rule (fst pl) =? ri) pairs.

Lemma of_rule_all ri pairs : all_rule ri (of_rule ri pairs).
Proof.
  unfold all_rule, of_rule. rewrite Forall_forall. intros x Hx. apply filter_In in Hx.
  destruct Hx as [_ Hx]. apply Z.eqb_eq in Hx. exact Hx.
Qed.

Lemma filter_rule_all ri (g : list proto) :
  Forall (fun q => p_rule q = ri) g -> filter (fun q => p_rule q =? ri) g = g.
Proof.
  induction 1 as [|q g Hq Hg IH]; [reflexivity|]. cbn [filter].
  rewrite (proj2 (Z.eqb_eq _ _) Hq). rewrite IH. reflexivity.
Qed.

Lemma filter_rule_none ri rj (g : list proto) : rj <> ri ->
  Forall (fun q => p_rule q = rj) g -> filter (fun q => p_rule q =? ri) g = [].
Proof.
  intros Hne. induction 1 as [|q g Hq Hg IH]; [reflexivity|]. cbn [filter].
  destruct (p_rule q =? ri) eqn:E; [apply Z.eqb_eq in E; congruence|exact IH].
Qed.

(* the result of the loop over the products, seen through "the clusters of rule ri" *)
Lemma groups_filter (f : Z -> res (list proto)) :
  (forall x g, f x = Ok g -> Forall (fun q => p_rule q = x) g) ->
  forall l groups, NoDup l -> mapM f l = Ok groups ->
  forall ri,
    (In ri l -> f ri = Ok (filter (fun q => p_rule q =? ri) (concat groups))) /\
    (~ In ri l -> filter (fun q => p_rule q =? ri) (concat groups) = []).
Proof.
  intros Hf. induction l as [|x l IH]; intros groups Hnd H ri; cbn [mapM] in H.
  - inversion H; subst. cbn. split; [intros []|reflexivity].
  - destruct (f x) as [g|k] eqn:Ex; cbn [bind] in H; [|discriminate H].
    destruct (mapM f l) as [gs'|k] eqn:Em; cbn [bind] in H; [|discriminate H].
    inversion H; subst groups. clear H. inversion Hnd as [|? ? Hnx Hnd']; subst.
    cbn [concat]. rewrite filter_app.
    destruct (IH gs' Hnd' eq_refl ri) as [IH1 IH2].
    pose proof (Hf x g Ex) as Hg.
    destruct (Z.eq_dec x ri) as [->|Hne].
    + split.
      * intros _. rewrite (filter_rule_all ri g Hg), (IH2 Hnx), app_nil_r. exact Ex.
      * intros Hn. exfalso. apply Hn. left. reflexivity.
    + rewrite (filter_rule_none ri x g Hne Hg). cbn [app]. split.
      * intros [Hx|Hin]; [congruence|]. apply IH1. exact Hin.
      * intros Hn. apply IH2. intro Hin. apply Hn. right. exact Hin.
Qed.

Lemma merge_over_origin_unfold key clusters :
  merge_over_origin_protos N circular rules key clusters =
  (do pairs <- mapM with_ext clusters;
   do groups <- mapM (fun ri => mgroup key (of_rule ri pairs)) (product_order clusters []);
   Ok (concat groups)).
Proof. reflexivity. Qed.

(* (M1) merge_over_origin never merges clusters of different rules: its result is the concatenation, in
   the order in which the rules first occur, of the results of the loop run separately on the clusters of
   each rule; read back through "the clusters of rule ri" the output is exactly that rule's loop result
   (and empty for a rule no cluster has); every output cluster carries the rule of some input cluster *)
Lemma merge_rules_kept key clusters res :
  merge_over_origin_protos N circular rules key clusters = Ok res ->
  exists pairs groups,
    mapM with_ext clusters = Ok pairs /\ map fst pairs = clusters /\
    mapM (fun ri => mgroup key (of_rule ri pairs)) (product_order clusters []) = Ok groups /\
    res = concat groups /\
    (forall q, In q res -> exists p, In p clusters /\ p_rule q = p_rule p) /\
    (forall ri, In ri (map p_rule clusters) ->
       mgroup key (of_rule ri pairs) = Ok (filter (fun q => p_rule q =? ri) res)) /\
    (forall ri, ~ In ri (map p_rule clusters) -> filter (fun q => p_rule q =? ri) res = []).
Proof.
  intro H. rewrite merge_over_origin_unfold in H.
  destruct (mapM with_ext clusters) as [pairs|k] eqn:Ep; cbn [bind] in H; [|discriminate H].
  destruct (mapM (fun ri => mgroup key (of_rule ri pairs)) (product_order clusters [])) as [groups|k] eqn:Eg;
    cbn [bind] in H; [|discriminate H].
  inversion H; subst res. clear H.
  exists pairs, groups. split; [reflexivity|]. split; [apply mapM_with_ext_fst; exact Ep|].
  split; [exact Eg|]. split; [reflexivity|].
  assert (Hf : forall x g, mgroup key (of_rule x pairs) = Ok g -> Forall (fun q => p_rule q = x) g).
  { intros x g Hx. eapply merge_group_rule; [apply of_rule_all|exact Hx]. }
  assert (Hin : forall ri, In ri (product_order clusters []) <-> In ri (map p_rule clusters)).
  { intro ri. rewrite product_order_in. cbn [In]. tauto. }
  pose proof (groups_filter _ Hf (product_order clusters []) groups
                (product_order_nodup clusters [] (NoDup_nil Z)) Eg) as Hgf.
  split; [|split].
  - intros q Hq. apply in_concat in Hq. destruct Hq as [g [Hg Hqg]].
    destruct (mapM_in _ _ _ _ Eg Hg) as [ri [Hri Hgr]].
    pose proof (Hf ri g Hgr) as Hall. rewrite Forall_forall in Hall. pose proof (Hall q Hqg) as Hq.
    apply Hin in Hri. apply in_map_iff in Hri. destruct Hri as [p [Hp1 Hp2]].
    exists p. split; [exact Hp2|]. rewrite Hq, Hp1. reflexivity.
  - intros ri Hri. apply (proj1 (Hgf ri)). apply Hin. exact Hri.
  - intros ri Hri. apply (proj2 (Hgf ri)). intro Hc. apply Hri. apply Hin. exact Hc.
Qed.

(* ---------- (M2) the loop neither invents clusters nor loses all of them ---------- *)
Lemma merge_step_length done cl res :
  mstep (Ok done) cl = Ok res -> (1 <= length res <= S (length done))%nat.
Proof.
  intro H. apply merge_step_cases in H. destruct H as [[-> ->]|H].
  - cbn. split; apply le_n.
  - destruct H as (prev & prev_loc & rest & -> & [[_ ->]|[_ (m & ext & _ & _ & ->)]]); cbn [length].
    + split; [apply le_n_S, Nat.le_0_l|apply le_n].
    + split; [apply le_n_S, Nat.le_0_l|apply le_S, le_n].
Qed.

Lemma fold_merge_length : forall l done res,
  fold_left mstep l (Ok done) = Ok res ->
  (length res <= length done + length l)%nat /\
  ((1 <= length done + length l)%nat -> (1 <= length res)%nat).
Proof.
  induction l as [|cl l IH]; intros done res H; cbn [fold_left] in H.
  - inversion H; subst. cbn [length]. rewrite Nat.add_0_r. split; [apply le_n|intro Hx; exact Hx].
  - destruct (mstep (Ok done) cl) as [d'|k] eqn:Es.
    + destruct (merge_step_length _ _ _ Es) as [Hl1 Hl2].
      destruct (IH d' res H) as [IH1 IH2]. cbn [length]. split.
      * eapply Nat.le_trans; [exact IH1|]. rewrite <- plus_n_Sm. change (S (length done + length l)) with (S (length done) + length l)%nat.
        apply Nat.add_le_mono_r. exact Hl2.
      * intros _. apply IH2. eapply Nat.le_trans; [exact Hl1|]. apply Nat.le_add_r.
    + rewrite fold_merge_err in H. discriminate H.
Qed.

Lemma merge_group_length key group res :
  mgroup key group = Ok res -> group <> [] -> (1 <= length res <= length group)%nat.
Proof.
  intros H Hne. rewrite merge_group_unfold in H. destruct group as [|a [|b t]].
  - congruence.
  - inversion H; subst. cbn. split; apply le_n.
  - destruct (fold_left mstep (sort_by (fun a0 b0 => key a0 <? key b0) (a :: b :: t)) (Ok [])) as [done|k] eqn:Ef;
      cbn [bind] in H; [|discriminate H].
    destruct (if circular then ring_merge N circular rules (length done) (rev done) else Ok (rev done)) as [kept|k] eqn:Ek;
      cbn [bind] in H; [|discriminate H].
    inversion H; subst res. rewrite map_length.
    destruct (fold_merge_length _ _ _ Ef) as [H1 H2].
    rewrite <- (Permutation_length (sort_perm (fun a0 b0 => key a0 <? key b0) (a :: b :: t))) in H1, H2.
    assert (Hk : (length kept <= length done)%nat /\ ((1 <= length done)%nat -> (1 <= length kept)%nat)).
    { destruct (second_pass_cases _ _ Ek) as [[_ Ek']|[_ ->]].
      - destruct (ring_merge_length _ _ _ Ek') as [K1 K2]. rewrite rev_length in K1, K2. split; assumption.
      - rewrite rev_length. split; [apply le_n|intro Hx; exact Hx]. }
    destruct Hk as [K1 K2]. cbn [length] in *. split.
    + apply K2. apply H2. cbn. apply le_n_S, Nat.le_0_l.
    + eapply Nat.le_trans; [exact K1|exact H1].
Qed.

(* ---------- (M6) circular record: what is returned is pairwise apart ---------- *)
Lemma merge_step_ext_ok done cl res :
  Forall ext_ok done -> ext_ok cl -> mstep (Ok done) cl = Ok res -> Forall ext_ok res.
Proof.
  intros Hd Hc H. apply merge_step_cases in H. destruct H as [[-> ->]|H].
  - constructor; [exact Hc|constructor].
  - destruct H as (prev & prev_loc & rest & -> & [[_ ->]|[_ (m & ext & _ & He & ->)]]).
    + constructor; [exact Hc|exact Hd].
    + constructor; [exact He|exact (Forall_inv_tail Hd)].
Qed.

Lemma fold_merge_ext_ok : forall l done res,
  Forall ext_ok done -> Forall ext_ok l -> fold_left mstep l (Ok done) = Ok res -> Forall ext_ok res.
Proof.
  induction l as [|cl l IH]; intros done res Hd Hl H; cbn [fold_left] in H.
  - inversion H; subst. exact Hd.
  - destruct (mstep (Ok done) cl) as [d'|k] eqn:Es.
    + apply (IH d' res); [|exact (Forall_inv_tail Hl)|exact H].
      exact (merge_step_ext_ok done cl d' Hd (Forall_inv Hl) Es).
    + rewrite fold_merge_err in H. discriminate H.
Qed.

(* merge_over_origin on a circular record, one rule's clusters, each carried with its core extended by the cutoff:
   whenever it returns, the clusters it returns are again carried with their cutoff-extended cores and NO cluster's
   core overlaps the cutoff-extended core of a cluster before it in the returned order (all pairs, not only
   neighbours in the sort order): the positive statement that replaces finding C03-K7 *)
Lemma merge_group_separated key group res :
  circular = true -> Forall ext_ok group -> mgroup key group = Ok res ->
  exists kept, res = map fst kept /\ Forall ext_ok kept /\ fwd_apart kept /\
    forall l1 x l2 y l3, kept = l1 ++ x :: l2 ++ y :: l3 -> overlap (p_core (fst y)) (snd x) = false.
Proof.
  intros Hc Hg H. rewrite merge_group_unfold in H.
  assert (Hfin : forall kept, Forall ext_ok kept -> fwd_apart kept ->
            exists kept0, map fst kept = map fst kept0 /\ Forall ext_ok kept0 /\ fwd_apart kept0 /\
              forall l1 x l2 y l3, kept0 = l1 ++ x :: l2 ++ y :: l3 -> overlap (p_core (fst y)) (snd x) = false).
  { intros kept He Hf. exists kept. split; [reflexivity|]. split; [exact He|]. split; [exact Hf|].
    intros l1 x l2 y l3 E. exact (fwd_apart_split kept Hf l1 x l2 y l3 E). }
  destruct group as [|a [|b t]].
  - inversion H; subst. apply (Hfin []); [constructor|exact I].
  - inversion H; subst. apply (Hfin [a]); [exact Hg|split; [constructor|exact I]].
  - destruct (fold_left mstep (sort_by (fun a0 b0 => key a0 <? key b0) (a :: b :: t)) (Ok [])) as [done|k] eqn:Ef;
      cbn [bind] in H; [|discriminate H].
    destruct (if circular then ring_merge N circular rules (length done) (rev done) else Ok (rev done)) as [kept|k] eqn:Ek;
      cbn [bind] in H; [|discriminate H].
    inversion H; subst res.
    destruct (second_pass_cases _ _ Ek) as [[_ Ek']|[Hf _]]; [|congruence].
    assert (Hd : Forall ext_ok done).
    { eapply fold_merge_ext_ok; [constructor| |exact Ef].
      rewrite Forall_forall in *. intros x Hx. apply Hg.
      eapply Permutation_in; [apply Permutation_sym; apply sort_perm|exact Hx]. }
    assert (Hr : Forall ext_ok (rev done)).
    { rewrite Forall_forall in *. intros x Hx. apply Hd. apply in_rev. exact Hx. }
    apply Hfin.
    + refine (ring_merge_forall ext_ok _ _ _ _ Hr Ek'). intros x y m ext _ _ _ He. exact He.
    + apply (ring_merge_separated (length done) (rev done)); [rewrite rev_length; apply le_n|exact Ek'].
Qed.

Lemma merge_group_nil key res : mgroup key [] = Ok res -> res = [].
Proof. intro H. cbn in H. inversion H. reflexivity. Qed.

(* ---------- (M3) clusters apart are returned unchanged ---------- *)
Lemma merge_group_small key group : (length group <= 1)%nat -> mgroup key group = Ok (map fst group).
Proof.
  intro H. destruct group as [|a [|b t]]; [reflexivity|reflexivity|].
  cbn [length] in H. exfalso. apply le_S_n in H. inversion H.
Qed.

Lemma fold_merge_apart : forall l a done,
  adjacent_all apart (a :: l) ->
  fold_left mstep l (Ok (a :: done)) = Ok (rev l ++ a :: done).
Proof.
  induction l as [|b l IH]; intros a done H; cbn [fold_left]; [reflexivity|].
  destruct H as [Hab Hrest]. destruct a as [prev prev_loc]. unfold apart in Hab. cbn [snd] in Hab.
  rewrite (merge_step_no_overlap prev prev_loc done b Hab).
  rewrite (IH b ((prev, prev_loc) :: done) Hrest). cbn [rev]. rewrite <- app_assoc. reflexivity.
Qed.

Lemma fold_merge_apart_nil l :
  adjacent_all apart l -> fold_left mstep l (Ok []) = Ok (rev l).
Proof.
  destruct l as [|a l]; intro H; [reflexivity|]. cbn [fold_left].
  change (mstep (Ok []) a) with (@Ok (list (proto * loc)) [a]).
  rewrite (fold_merge_apart l a [] H). reflexivity.
Qed.

Lemma merge_group_unchanged_adj key group :
  adjacent_all apart (sort_by (fun a b => key a <? key b) group) ->
  (circular = true -> fwd_apart (sort_by (fun a b => key a <? key b) group)) ->
  mgroup key group = Ok (map fst (sort_by (fun a b => key a <? key b) group)).
Proof.
  intros H Hc. rewrite merge_group_unfold. destruct group as [|a [|b t]]; [reflexivity|reflexivity|].
  rewrite (fold_merge_apart_nil _ H). cbn [bind]. rewrite rev_involutive.
  pose proof (fun Ht : circular = true =>
                ring_merge_apart (length (rev (sort_by (fun a0 b0 => key a0 <? key b0) (a :: b :: t)))) _ (Hc Ht)) as Hrm.
  clear Hc. destruct circular; [rewrite (Hrm eq_refl)|]; reflexivity.
Qed.

Lemma fwd_apart_of_split : forall l,
  (forall l1 x l2 y l3, l = l1 ++ x :: l2 ++ y :: l3 -> apart x y) -> fwd_apart l.
Proof.
  induction l as [|x r IH]; intro H; [exact I|]. split.
  - rewrite Forall_forall. intros y Hy. apply in_split in Hy. destruct Hy as (l2 & l3 & ->).
    apply (H [] x l2 y l3). reflexivity.
  - apply IH. intros l1 a l2 b l3 E. apply (H (x :: l1) a l2 b l3). rewrite E. reflexivity.
Qed.

(* (M3) if in the sorted group no cluster's core overlaps the cutoff-extended location of the cluster
   before it - on a circular record: of ANY cluster before it, the second pass comparing all pairs - the
   group is returned as it is (every cluster with its rule, core and neighbourhood), in sorted order - a
   rearrangement of the input *)
Lemma merge_group_unchanged key group :
  let sorted := sort_by (fun a b => key a <? key b) group in
  (forall l1 prev prev_loc l2 cl loc l3, sorted = l1 ++ (prev, prev_loc) :: l2 ++ (cl, loc) :: l3 ->
     circular = true \/ l2 = [] -> overlap (p_core cl) prev_loc = false) ->
  mgroup key group = Ok (map fst sorted) /\ Permutation (map fst group) (map fst sorted).
Proof.
  intros sorted H. split.
  - apply merge_group_unchanged_adj.
    + apply adjacent_all_of_split.
      intros l1 [prev prev_loc] [cl loc] l2 E. unfold apart. cbn [fst snd].
      apply (H l1 prev prev_loc [] cl loc l2); [exact E|right; reflexivity].
    + intro Hc. apply fwd_apart_of_split.
      intros l1 [prev prev_loc] l2 [cl loc] l3 E. unfold apart. cbn [fst snd].
      apply (H l1 prev prev_loc l2 cl loc l3); [exact E|left; exact Hc].
  - apply Permutation_map. apply sort_perm.
Qed.
End Merge.

(* ---------- (M4) farther apart than the cutoff: no overlap (circular record, single-part cores) ---------- *)
Lemma far_no_overlap N p q c ext :
  wfp N p -> wfp N q -> 0 <= c -> pe p - ps p + 2 * c < N ->
  extend_location [p] c N true = Ok ext ->
  (forall x, ps q <= x < pe q -> ~ within_ring_of N p c x) ->
  overlap [q] ext = false.
Proof.
  intros Hp Hq Hc Hlen He Hfar.
  destruct (extend_ring_single_bases p c N Hp Hc Hlen) as (r & Hr & HF & _ & Hb).
  rewrite Hr in He. inversion He; subst ext. clear He Hr.
  destruct (overlap [q] r) eqn:Ho; [|reflexivity]. exfalso.
  assert (Hwq : Forall wf_part [q]).
  { constructor; [|constructor]. unfold wf_part. destruct Hq as (_ & Hq & _). exact Hq. }
  assert (Hwr : Forall wf_part r).
  { eapply Forall_impl; [|exact HF]. cbn. intros a (_ & _ & Ha & _). exact Ha. }
  apply (overlap_spec [q] r Hwq Hwr) in Ho. destruct Ho as [x [[q' [[<-|[]] Hx]] Hxr]].
  assert (Hrange : 0 <= x < N).
  { destruct Hq as (H0 & _ & HN). clear - H0 HN Hx. lia. }
  apply (Hfar x Hx). apply Hb; assumption.
Qed.

(* the arithmetic reading: the gap from p to q along the record and the gap from q round the origin
   back to p are both at least the cutoff *)
Lemma far_apart_no_base N p q c :
  wfp N p -> wfp N q -> 0 <= c ->
  pe p <= ps q -> c <= ps q - pe p -> c <= ps p + N - pe q ->
  forall x, ps q <= x < pe q -> ~ within_ring_of N p c x.
Proof.
  intros (Hp0 & Hp1 & Hp2) (Hq0 & Hq1 & Hq2) Hc Hord Hg1 Hg2 x Hx [k [Hk Hin]].
  destruct Hk as [-> | [-> | ->]]; lia.
Qed.

Lemma far_apart_no_base_before N p q c :
  wfp N p -> wfp N q -> 0 <= c ->
  pe q <= ps p -> c <= ps p - pe q -> c <= ps q + N - pe p ->
  forall x, ps q <= x < pe q -> ~ within_ring_of N p c x.
Proof.
  intros (Hp0 & Hp1 & Hp2) (Hq0 & Hq1 & Hq2) Hc Hord Hg1 Hg2 x Hx [k [Hk Hin]].
  destruct Hk as [-> | [-> | ->]]; lia.
Qed.

(* two single-part cores on a ring whose gaps (both ways round) are at least the cutoff: the core q
   does not overlap the cutoff-extended core p, so the loop of merge_over_origin leaves them alone *)
Lemma far_no_overlap_gap N p q c ext :
  wfp N p -> wfp N q -> 0 <= c -> pe p - ps p + 2 * c < N ->
  extend_location [p] c N true = Ok ext ->
  (pe p <= ps q /\ c <= ps q - pe p /\ c <= ps p + N - pe q) \/
  (pe q <= ps p /\ c <= ps p - pe q /\ c <= ps q + N - pe p) ->
  overlap [q] ext = false.
Proof.
  intros Hp Hq Hc Hlen He Hgap. apply (far_no_overlap N p q c ext Hp Hq Hc Hlen He).
  destruct Hgap as [(H1 & H2 & H3)|(H1 & H2 & H3)].
  - apply far_apart_no_base; assumption.
  - apply far_apart_no_base_before; assumption.
Qed.

(* (M3 + M4) the loop step on a circular record: a single-part core q whose gaps to the previous
   single-part core p are at least the previous cluster's cutoff (both ways round) is never merged *)
Lemma merge_step_far N rules prev rest cl p q ext :
  p_core prev = [p] -> p_core (fst cl) = [q] ->
  wfp N p -> wfp N q ->
  let c := r_cut (nth_rule rules (p_rule prev)) in
  0 <= c -> pe p - ps p + 2 * c < N ->
  extend_location (p_core prev) c N true = Ok ext ->
  (pe p <= ps q /\ c <= ps q - pe p /\ c <= ps p + N - pe q) \/
  (pe q <= ps p /\ c <= ps p - pe q /\ c <= ps q + N - pe p) ->
  merge_step N true rules (Ok ((prev, ext) :: rest)) cl = Ok (cl :: (prev, ext) :: rest).
Proof.
  intros Hcp Hcq Hp Hq c Hc Hlen He Hgap. apply merge_step_no_overlap.
  rewrite Hcq. rewrite Hcp in He. exact (far_no_overlap_gap N p q c ext Hp Hq Hc Hlen He Hgap).
Qed.

Print Assumptions merge_rules_kept.
Print Assumptions merge_group_length.
Print Assumptions merge_sorted_perm.
Print Assumptions merge_group_unchanged.
Print Assumptions merge_step_no_overlap.
Print Assumptions merge_group_small.
Print Assumptions far_no_overlap.
Print Assumptions far_apart_no_base.
Print Assumptions far_apart_no_base_before.
Print Assumptions far_no_overlap_gap.
Print Assumptions merge_step_overlap_shape.
Print Assumptions merge_group_rule.
Print Assumptions merge_step_far.
Print Assumptions ring_merge_separated.
Print Assumptions ring_once_none.
Print Assumptions merge_group_separated.
