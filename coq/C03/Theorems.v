(* C03 - property theorems only: statement, [exact lemma], Print Assumptions; Examples show the
   hypotheses are satisfiable (non-vacuity). *)
From Coq Require Import Sorting.Permutation.
From ASV.C03 Require Import Model Proofs.

(* On a linear record, for every cutoff and every set of anchoring genes (nested, overlapping,
   in any input order): the groups formed by the sweep are exactly the maximal chains of genes
   closer than the cutoff - every anchor is in exactly one group, no group is empty, members of
   one group are connected through pairs closer than the cutoff, members of different groups are
   never closer than the cutoff (strict <), and the core is the smallest span covering its group. *)
Theorem C03_chain_linear : forall N c anchors, 0 <= c -> Forall (wf N) anchors ->
  let gs := sweep N c (sort_by itv_lt anchors) in
  Permutation anchors (flatten gs) /\
  (forall g, In g gs ->
     members g <> [] /\
     (forall m, In m (members g) -> fst (core_of g) <= s m /\ e m <= snd (core_of g)) /\
     (exists m, In m (members g) /\ s m = fst (core_of g)) /\
     (exists m, In m (members g) /\ e m = snd (core_of g)) /\
     (forall a b, In a (members g) -> In b (members g) -> conn c (members g) a b)) /\
  (forall g1 g2 a b, In g1 gs -> In g2 gs -> g1 <> g2 -> In a (members g1) -> In b (members g2) -> ~ near c a b).
Proof. exact chain_linear. Qed.
Print Assumptions C03_chain_linear.

(* the extent of each protocluster is its core extended by the neighbourhood and clipped to the
   record; it contains the core; cores are non-empty *)
Theorem C03_neighbourhood_linear : forall N c nb anchors, 0 <= nb -> 0 <= c -> Forall (wf N) anchors ->
  Forall (fun p : Z * Z * Z * Z => let '(cs, he, xs, xe) := p in
            xs = Z.max 0 (cs - nb) /\ xe = Z.min N (he + nb) /\ 0 <= xs <= cs /\ he <= xe <= N /\ cs < he)
         (protoclusters N c nb anchors).
Proof. exact protoclusters_shape. Qed.
Print Assumptions C03_neighbourhood_linear.

(* non-vacuity and strictness at the boundary: gap exactly = cutoff separates, cutoff - 1 joins *)
Example C03_boundary :
  Forall (wf 5000) [mkItv 2100 2200; mkItv 100 1100; mkItv 2099 2150] /\
  protoclusters 5000 1000 300 [mkItv 2100 2200; mkItv 100 1100] = [(100, 1100, 0, 1400); (2100, 2200, 1800, 2500)] /\
  protoclusters 5000 1000 300 [mkItv 2099 2150; mkItv 100 1100] = [(100, 2150, 0, 2450)].
Proof.
  split; [repeat constructor; cbn; lia|]. split; vm_compute; reflexivity.
Qed.

(* ====================================================================================
   The full pipeline model (linear and circular records): C03/Model.v function ids 2-5
   ==================================================================================== *)

(* the per-cutoff cache of apply_cluster_rules (info_by_range, with the circular_origin flag stored
   in it) is transparent: the anchoring genes of every rule are those obtained when every rule is
   evaluated on freshly computed neighbourhood information, whatever the rule order and cutoffs *)
Theorem C03_cache_transparent : forall N circular gs hs rules,
  apply_cluster_rules N circular gs hs rules true = apply_cluster_rules N circular gs hs rules false.
Proof. exact cache_transparent. Qed.
Print Assumptions C03_cache_transparent.

(* SUPERIORS (any topology; guard: the core-gene lookup of every cluster succeeds): a cluster is
   dropped iff some cluster of one of its rule's superiors either contains its core or overlaps it
   in gene order (its last core gene is not before this cluster's first core gene and its first
   core gene not after this cluster's last one) - and not otherwise *)
Theorem C03_superiors_partial : forall gs rules all p b,
  (forall q, In q all -> exists fl, first_last gs (p_core q) = Ok fl) ->
  is_redundant gs rules all p = Ok b ->
  exists first last, first_last gs (p_core p) = Ok (first, last) /\
  (b = true <->
   exists s o, In s (r_sup (nth_rule rules (p_rule p))) /\ In o all /\ p_rule o = s /\
               sup_overlaps gs (p_core p) first last (p_core o) = true).
Proof. exact is_redundant_spec. Qed.
Print Assumptions C03_superiors_partial.

(* the property's wording "dropped when a superior's cluster COVERS its core genes, and not
   otherwise" is false of the code: a cluster is dropped although no superior core contains its
   core (finding class superior_partial_overlap) *)
Theorem C03_superiors_cover_refuted : exists gs rules all p,
  In p all /\ is_redundant gs rules all p = Ok true /\
  forall o, In o all -> In (p_rule o) (r_sup (nth_rule rules (p_rule p))) -> contains (p_core o) (p_core p) = false.
Proof.
  exists [(0, [mkPart 50 950 (-1)]); (1, [mkPart 6950 7250 1]); (2, [mkPart 7250 10250 (-1)])].
  exists [mkRule 2000 3000 (C01.Model.Single false 3) None []; mkRule 1000 0 (C01.Model.Single false 2) None [0]].
  exists [(0, [mkPart 7250 10250 (-1)], [mkPart 4250 10251 1]); (1, [mkPart 6950 10250 2], [mkPart 6950 10250 1])].
  exists (1, [mkPart 6950 10250 2], [mkPart 6950 10250 1]).
  split; [right; left; reflexivity|]. split; [vm_compute; reflexivity|].
  intros o [<-|[<-|[]]] Hs; vm_compute in Hs |- *; [reflexivity|]. destruct Hs as [Hs|[]]. discriminate Hs.
Qed.
Print Assumptions C03_superiors_cover_refuted.

(* EXTENDERS (any topology): every gene mark_extendable yields lies outside the old core and
   satisfies the rule's extender condition *)
Theorem C03_extenders_sound : forall N circular hs r core0 walk prev g,
  In g (mark N circular hs r core0 prev walk) ->
  In g walk /\ outside core0 g = true /\ can_extend hs r g = true.
Proof. exact mark_sound. Qed.
Print Assumptions C03_extenders_sound.

(* ... a run of genes that are each inside the old core or satisfy the extender condition within
   the cutoff (<=) of the previously accepted gene is accepted as a whole, the walk continuing
   behind it from its last accepted gene ... *)
Theorem C03_extenders_run : forall N circular hs r core0 pre prev post,
  run_ok N circular hs r core0 prev pre ->
  mark N circular hs r core0 prev (pre ++ post) =
  filter (outside core0) pre ++ mark N circular hs r core0 (last_loc core0 prev pre) post.
Proof. exact mark_run. Qed.
Print Assumptions C03_extenders_run.

(* ... and the walk ends at the first gene outside the core that is farther than the cutoff from
   the last accepted gene: together, the genes joined to the core are the maximal run *)
Theorem C03_extenders_stop : forall N circular hs r core0 skip g rest prev,
  forallb (fun x => negb (outside core0 x)) skip = true -> outside core0 g = true ->
  r_cut r < dist (snd g) prev (wrap_of N circular) ->
  mark N circular hs r core0 prev (skip ++ g :: rest) = [].
Proof. exact mark_stop. Qed.
Print Assumptions C03_extenders_stop.

(* a rule without EXTENDERS never extends *)
Theorem C03_no_extenders : forall N circular hs r core0 prev walk,
  r_ext r = None -> mark N circular hs r core0 prev walk = [].
Proof. exact extenders_none. Qed.
Print Assumptions C03_no_extenders.

(* non-vacuity / the ring neighbourhood on concrete records (NOT a theorem: the wrapped extent
   is covered by the correspondence run): wrap below 0, wrap above N, the (N-len)//2+1 cap with the
   force_cross_origin midpoint split *)
Example C03_ring_neighbourhood_examples :
  extend_area [mkPart 100 400 1] 1000 10000 true true = Ok [mkPart 9100 10000 1; mkPart 0 1400 1] /\
  extend_area [mkPart 9500 9900 (-1)] 1000 10000 true true = Ok [mkPart 8500 10000 1; mkPart 0 900 1] /\
  extend_area [mkPart 4000 5000 1] 1000 10000 true true = Ok [mkPart 3000 6000 1] /\
  extend_area [mkPart 9000 10000 1; mkPart 0 1000 1] 9000 10000 true true = Ok [mkPart 5000 10000 1; mkPart 0 4999 1].
Proof. repeat split; vm_compute; reflexivity. Qed.

(* non-vacuity of the extender theorems: a run of two extender genes next to a core *)
Example C03_extenders_example :
  let hs := [(1, [(7, 0)]); (2, [(7, 0)]); (3, [(7, 0)])] in
  let r := mkRule 1000 0 (C01.Model.Single false 1) (Some (C01.Model.Single false 7)) [] in
  let walk := [(1, [mkPart 1500 1600 1]); (2, [mkPart 2600 2700 1]); (3, [mkPart 3701 3800 1])] in
  run_ok 9000 false hs r [mkPart 100 1000 1] [mkPart 100 1000 1] (firstn 2 walk) /\
  mark 9000 false hs r [mkPart 100 1000 1] [mkPart 100 1000 1] walk = firstn 2 walk.
Proof. split; [cbn; repeat split; vm_compute; discriminate|vm_compute; reflexivity]. Qed.

(* merge_over_origin.merge_pair (repaired: findings C03-K2 merge_pair_nonforward_wrap and C03-K3
   merge_pair_uncapped_neighbourhood): whenever two protoclusters of one rule are merged, the merged
   protocluster keeps the first one's rule, its core is connect_locations of the two cores, and its
   neighbourhood is what _extend_area_location - the function used for every unmerged protocluster:
   forward strand, distance capped at (N-len)//2+1 - returns for that core, which never has more than
   two parts (one on a linear record); the only other shape is the halfway split of a core over the
   origin whose neighbourhood fills the record: two forward parts [x:N) + [0:y) *)
Theorem C03_merge_pair_neighbourhood : forall N circular rules a b m,
  merge_pair N circular rules a b = Ok m ->
  exists core sur0,
    connect_locations [p_core a; p_core b] (wrap_of N circular) = Ok core /\
    extend_area core (r_nb (nth_rule rules (p_rule a))) N circular false = Ok sur0 /\
    zlen sur0 <= (if circular then 2 else 1) /\
    p_rule m = p_rule a /\ p_core m = core /\
    (p_sur m = sur0 \/
     (bridges core = true /\ llen sur0 = N /\ bridges sur0 = false /\
      exists x y, p_sur m = [mkPart x N 1; mkPart 0 y 1])).
Proof. exact merge_pair_area. Qed.
Print Assumptions C03_merge_pair_neighbourhood.

(* non-vacuity and regression: the merges of the two repaired witnesses (known_findings.json C03-K2: an
   unstranded joined core whose 10 kb neighbourhood wraps the origin, formerly ValueError; C03-K3: core +
   2 * neighbourhood >= record length, formerly a three-part location and AssertionError) now succeed *)
Example C03_merge_pair_repaired_witnesses :
  let any := C01.Model.Single false 0 in
  merge_pair 48199 true [mkRule 2000 10000 any None []]
             (0, [mkPart 2299 8199 S_None], [mkPart 0 18199 1]) (0, [mkPart 2299 8199 S_None], [mkPart 0 18199 1])
  = Ok (0, [mkPart 2299 8199 S_None], [mkPart 40498 48199 1; mkPart 0 18199 1]) /\
  merge_pair 7068 true [mkRule 2000 3000 any None []]
             (0, [mkPart 4169 7068 1; mkPart 0 90 1], [mkPart 0 7068 1]) (0, [mkPart 2091 5069 1], [mkPart 0 7068 1])
  = Ok (0, [mkPart 2091 7068 1; mkPart 0 90 1], [mkPart 1091 7068 1; mkPart 0 1089 1]).
Proof. split; vm_compute; reflexivity. Qed.

(* regression (known_findings.json C03-K4 origin_spanning_anchor, repaired): the first/last wrap test of
   find_protoclusters sees the start of an origin-spanning core in its part before the origin, so the last
   chain [17000:18000), 1500 < 2000 before the origin-spanning gene [19500:20000)+[0:300), joins its core
   although the chain [10000:10300) lies between them in coordinate order; a last chain exactly one cutoff
   away stays separate *)
Example C03_origin_spanning_chain :
  let r := mkRule 2000 1000 (C01.Model.Single false 0) None [] in
  let gs last_start := [(5, [mkPart 19500 20000 1; mkPart 0 300 1]); (0, [mkPart 1000 1300 1]);
                        (1, [mkPart 10000 10300 1]); (2, [mkPart last_start (last_start + 1000) (-1)])] in
  rule_cores 20000 true (gs 17000) r [0; 1; 2; 5]
  = Ok [[mkPart 17000 20000 1; mkPart 0 1300 1]; [mkPart 10000 10300 1]] /\
  rule_cores 20000 true (gs 16500) r [0; 1; 2; 5]
  = Ok [[mkPart 19500 20000 1; mkPart 0 1300 1]; [mkPart 10000 10300 1]; [mkPart 16500 17500 (-1)]].
Proof. split; vm_compute; reflexivity. Qed.
