(* C03 - property theorems only: statement, [exact lemma], Print Assumptions; Examples show the
   hypotheses are satisfiable (non-vacuity). *)
From Coq Require Import Sorting.Permutation.
From ASV.C03 Require Import Model Proofs ProofsRing ProofsMerge ProofsMergeChains.
From ASV.C04 Require Proofs.

(* On a linear record, for every cutoff and every set of anchoring genes (nested, overlapping,
   in any input order): the groups formed by the sweep are exactly the maximal chains of genes
   closer than the cutoff - every anchor is in exactly one group, no group is empty, members of
   one group are connected through pairs closer than the cutoff, members of different groups are
   never closer than the cutoff (strict <), and the core is the smallest span covering its group. *)
Theorem C03_chain_linear : forall N c anchors, 0 <= c -> Forall (wf N) anchors ->
  let gs := sweep N c (sort_by itv_lt anchors) in
  Permutation anchors (flatten gs) /\
  (forall g, In g gs ->
     members g <> [] /\
     (forall m, In m (members g) -> fst (core_of g) <= s m /\ e m <= snd (core_of g)) /\
     (exists m, In m (members g) /\ s m = fst (core_of g)) /\
     (exists m, In m (members g) /\ e m = snd (core_of g)) /\
     (forall a b, In a (members g) -> In b (members g) -> conn c (members g) a b)) /\
  (forall g1 g2 a b, In g1 gs -> In g2 gs -> g1 <> g2 -> In a (members g1) -> In b (members g2) -> ~ near c a b).
Proof. exact chain_linear. Qed.
Print Assumptions C03_chain_linear.

(* the extent of each protocluster is its core extended by the neighbourhood and clipped to the
   record; it contains the core; cores are non-empty *)
Theorem C03_neighbourhood_linear : forall N c nb anchors, 0 <= nb -> 0 <= c -> Forall (wf N) anchors ->
  Forall (fun p : Z * Z * Z * Z => let '(cs, he, xs, xe) := p in
            xs = Z.max 0 (cs - nb) /\ xe = Z.min N (he + nb) /\ 0 <= xs <= cs /\ he <= xe <= N /\ cs < he)
         (protoclusters N c nb anchors).
Proof. exact protoclusters_shape. Qed.
Print Assumptions C03_neighbourhood_linear.

(* non-vacuity and strictness at the boundary: gap exactly = cutoff separates, cutoff - 1 joins *)
Example C03_boundary :
  Forall (wf 5000) [mkItv 2100 2200; mkItv 100 1100; mkItv 2099 2150] /\
  protoclusters 5000 1000 300 [mkItv 2100 2200; mkItv 100 1100] = [(100, 1100, 0, 1400); (2100, 2200, 1800, 2500)] /\
  protoclusters 5000 1000 300 [mkItv 2099 2150; mkItv 100 1100] = [(100, 2150, 0, 2450)].
Proof.
  split; [repeat constructor; cbn; lia|]. split; vm_compute; reflexivity.
Qed.

(* ====================================================================================
   The full pipeline model (linear and circular records): C03/Model.v function ids 2-5
   ==================================================================================== *)

(* the per-cutoff cache of apply_cluster_rules (info_by_range, with the circular_origin flag stored
   in it) is transparent: the anchoring genes of every rule are those obtained when every rule is
   evaluated on freshly computed neighbourhood information, whatever the rule order and cutoffs *)
Theorem C03_cache_transparent : forall N circular gs hs rules,
  apply_cluster_rules N circular gs hs rules true = apply_cluster_rules N circular gs hs rules false.
Proof. exact cache_transparent. Qed.
Print Assumptions C03_cache_transparent.

(* SUPERIORS (any topology; guard: the core-gene lookup of every cluster succeeds): a cluster is
   dropped iff some cluster of one of its rule's superiors either contains its core or overlaps it
   in gene order (its last core gene is not before this cluster's first core gene and its first
   core gene not after this cluster's last one) - and not otherwise *)
Theorem C03_superiors_partial : forall gs rules all p b,
  (forall q, In q all -> exists fl, first_last gs (p_core q) = Ok fl) ->
  is_redundant gs rules all p = Ok b ->
  exists first last, first_last gs (p_core p) = Ok (first, last) /\
  (b = true <->
   exists s o, In s (r_sup (nth_rule rules (p_rule p))) /\ In o all /\ p_rule o = s /\
               sup_overlaps gs (p_core p) first last (p_core o) = true).
Proof. exact is_redundant_spec. Qed.
Print Assumptions C03_superiors_partial.

(* the property's wording "dropped when a superior's cluster COVERS its core genes, and not
   otherwise" is false of the code: a cluster is dropped although no superior core contains its
   core (finding class superior_partial_overlap) *)
Theorem C03_superiors_cover_refuted : exists gs rules all p,
  In p all /\ is_redundant gs rules all p = Ok true /\
  forall o, In o all -> In (p_rule o) (r_sup (nth_rule rules (p_rule p))) -> contains (p_core o) (p_core p) = false.
Proof.
  exists [(0, [mkPart 50 950 (-1)]); (1, [mkPart 6950 7250 1]); (2, [mkPart 7250 10250 (-1)])].
  exists [mkRule 2000 3000 (C01.Model.Single false 3) None []; mkRule 1000 0 (C01.Model.Single false 2) None [0]].
  exists [(0, [mkPart 7250 10250 (-1)], [mkPart 4250 10251 1]); (1, [mkPart 6950 10250 2], [mkPart 6950 10250 1])].
  exists (1, [mkPart 6950 10250 2], [mkPart 6950 10250 1]).
  split; [right; left; reflexivity|]. split; [vm_compute; reflexivity|].
  intros o [<-|[<-|[]]] Hs; vm_compute in Hs |- *; [reflexivity|]. destruct Hs as [Hs|[]]. discriminate Hs.
Qed.
Print Assumptions C03_superiors_cover_refuted.

(* EXTENDERS (any topology): every gene mark_extendable yields lies outside the old core and
   satisfies the rule's extender condition *)
Theorem C03_extenders_sound : forall N circular hs r core0 walk prev g,
  In g (mark N circular hs r core0 prev walk) ->
  In g walk /\ outside core0 g = true /\ can_extend hs r g = true.
Proof. exact mark_sound. Qed.
Print Assumptions C03_extenders_sound.

(* ... a run of genes that are each inside the old core or satisfy the extender condition within
   the cutoff (<=) of the previously accepted gene is accepted as a whole, the walk continuing
   behind it from its last accepted gene ... *)
Theorem C03_extenders_run : forall N circular hs r core0 pre prev post,
  run_ok N circular hs r core0 prev pre ->
  mark N circular hs r core0 prev (pre ++ post) =
  filter (outside core0) pre ++ mark N circular hs r core0 (last_loc core0 prev pre) post.
Proof. exact mark_run. Qed.
Print Assumptions C03_extenders_run.

(* ... and the walk ends at the first gene outside the core that is farther than the cutoff from
   the last accepted gene: together, the genes joined to the core are the maximal run *)
Theorem C03_extenders_stop : forall N circular hs r core0 skip g rest prev,
  forallb (fun x => negb (outside core0 x)) skip = true -> outside core0 g = true ->
  r_cut r < dist (snd g) prev (wrap_of N circular) ->
  mark N circular hs r core0 prev (skip ++ g :: rest) = [].
Proof. exact mark_stop. Qed.
Print Assumptions C03_extenders_stop.

(* a rule without EXTENDERS never extends *)
Theorem C03_no_extenders : forall N circular hs r core0 prev walk,
  r_ext r = None -> mark N circular hs r core0 prev walk = [].
Proof. exact extenders_none. Qed.
Print Assumptions C03_no_extenders.

(* non-vacuity / the ring neighbourhood on concrete records (NOT a theorem: the wrapped extent
   is covered by the correspondence run): wrap below 0, wrap above N, the (N-len)//2+1 cap with the
   force_cross_origin midpoint split *)
Example C03_ring_neighbourhood_examples :
  extend_area [mkPart 100 400 1] 1000 10000 true true = Ok [mkPart 9100 10000 1; mkPart 0 1400 1] /\
  extend_area [mkPart 9500 9900 (-1)] 1000 10000 true true = Ok [mkPart 8500 10000 1; mkPart 0 900 1] /\
  extend_area [mkPart 4000 5000 1] 1000 10000 true true = Ok [mkPart 3000 6000 1] /\
  extend_area [mkPart 9000 10000 1; mkPart 0 1000 1] 9000 10000 true true = Ok [mkPart 5000 10000 1; mkPart 0 4999 1].
Proof. repeat split; vm_compute; reflexivity. Qed.

(* non-vacuity of the extender theorems: a run of two extender genes next to a core *)
Example C03_extenders_example :
  let hs := [(1, [(7, 0)]); (2, [(7, 0)]); (3, [(7, 0)])] in
  let r := mkRule 1000 0 (C01.Model.Single false 1) (Some (C01.Model.Single false 7)) [] in
  let walk := [(1, [mkPart 1500 1600 1]); (2, [mkPart 2600 2700 1]); (3, [mkPart 3701 3800 1])] in
  run_ok 9000 false hs r [mkPart 100 1000 1] [mkPart 100 1000 1] (firstn 2 walk) /\
  mark 9000 false hs r [mkPart 100 1000 1] [mkPart 100 1000 1] walk = firstn 2 walk.
Proof. split; [cbn; repeat split; vm_compute; discriminate|vm_compute; reflexivity]. Qed.

(* merge_over_origin.merge_pair (repaired: findings C03-K2 merge_pair_nonforward_wrap and C03-K3
   merge_pair_uncapped_neighbourhood): whenever two protoclusters of one rule are merged, the merged
   protocluster keeps the first one's rule, its core is connect_locations of the two cores, and its
   neighbourhood is what _extend_area_location - the function used for every unmerged protocluster:
   forward strand, distance capped at (N-len)//2+1 - returns for that core, which never has more than
   two parts (one on a linear record); the only other shape is the halfway split of a core over the
   origin whose neighbourhood fills the record: two forward parts [x:N) + [0:y) *)
Theorem C03_merge_pair_neighbourhood : forall N circular rules a b m,
  merge_pair N circular rules a b = Ok m ->
  exists core sur0,
    connect_locations [p_core a; p_core b] (wrap_of N circular) = Ok core /\
    extend_area core (r_nb (nth_rule rules (p_rule a))) N circular false = Ok sur0 /\
    zlen sur0 <= (if circular then 2 else 1) /\
    p_rule m = p_rule a /\ p_core m = core /\
    (p_sur m = sur0 \/
     (bridges core = true /\ llen sur0 = N /\ bridges sur0 = false /\
      exists x y, p_sur m = [mkPart x N 1; mkPart 0 y 1])).
Proof. exact merge_pair_area. Qed.
Print Assumptions C03_merge_pair_neighbourhood.

(* non-vacuity and regression: the merges of the two repaired witnesses (known_findings.json C03-K2: an
   unstranded joined core whose 10 kb neighbourhood wraps the origin, formerly ValueError; C03-K3: core +
   2 * neighbourhood >= record length, formerly a three-part location and AssertionError) now succeed *)
Example C03_merge_pair_repaired_witnesses :
  let any := C01.Model.Single false 0 in
  merge_pair 48199 true [mkRule 2000 10000 any None []]
             (0, [mkPart 2299 8199 S_None], [mkPart 0 18199 1]) (0, [mkPart 2299 8199 S_None], [mkPart 0 18199 1])
  = Ok (0, [mkPart 2299 8199 S_None], [mkPart 40498 48199 1; mkPart 0 18199 1]) /\
  merge_pair 7068 true [mkRule 2000 3000 any None []]
             (0, [mkPart 4169 7068 1; mkPart 0 90 1], [mkPart 0 7068 1]) (0, [mkPart 2091 5069 1], [mkPart 0 7068 1])
  = Ok (0, [mkPart 2091 7068 1; mkPart 0 90 1], [mkPart 1091 7068 1; mkPart 0 1089 1]).
Proof. split; vm_compute; reflexivity. Qed.

(* regression (known_findings.json C03-K4 origin_spanning_anchor, repaired): the first/last wrap test of
   find_protoclusters sees the start of an origin-spanning core in its part before the origin, so the last
   chain [17000:18000), 1500 < 2000 before the origin-spanning gene [19500:20000)+[0:300), joins its core
   although the chain [10000:10300) lies between them in coordinate order; a last chain exactly one cutoff
   away stays separate *)
Example C03_origin_spanning_chain :
  let r := mkRule 2000 1000 (C01.Model.Single false 0) None [] in
  let gs last_start := [(5, [mkPart 19500 20000 1; mkPart 0 300 1]); (0, [mkPart 1000 1300 1]);
                        (1, [mkPart 10000 10300 1]); (2, [mkPart last_start (last_start + 1000) (-1)])] in
  rule_cores 20000 true (gs 17000) r [0; 1; 2; 5]
  = Ok [[mkPart 17000 20000 1; mkPart 0 1300 1]; [mkPart 10000 10300 1]] /\
  rule_cores 20000 true (gs 16500) r [0; 1; 2; 5]
  = Ok [[mkPart 19500 20000 1; mkPart 0 1300 1]; [mkPart 10000 10300 1]; [mkPart 16500 17500 (-1)]].
Proof. split; vm_compute; reflexivity. Qed.

(* ====================================================================================
   Second deepening pass: the ring
   ==================================================================================== *)

(* the neighbourhood on a circular record.  For every record length N, every neighbourhood nb >= 0 and every core
   that is a span on the ring - one part inside the record (any strand) or the forward span [s,N)+[0,e) over the
   origin (what connect_locations returns) - _extend_area_location succeeds; the distance applied is
   d = min(nb, (N - len) // 2 + 1); unless the force_cross_origin midpoint split happens the result is a span (one
   part, or two parts the second of which starts at 0 and ends no later than the first starts), it contains every
   base of the core, and its bases are exactly those of the arc that starts d before the core's start and ends d
   after its end, wrapped round the origin on either side.  In the split case (force_cross_origin, core over the
   origin, the two extensions meet: s - e < 2d) every base of the ring is within d of the core but the result is
   [mid,N)+[0,mid-1), mid = e + (s-e)//2: the whole ring EXCEPT base mid-1 (finding C03-K6 neighbourhood_split_short);
   it still contains the core when the core leaves at least two bases free. *)
Theorem C03_neighbourhood_ring : forall N l nb force, 0 < N -> 0 <= nb -> ring_core N l ->
  let d := nb_dist N l nb in
  exists r, extend_area l nb N true force = Ok r /\
    (~ split_case N l nb force ->
       C04.Proofs.is_span N r /\
       (forall x, C04.Proofs.base_of l x -> C04.Proofs.base_of r x) /\
       (forall x, 0 <= x < N -> (C04.Proofs.base_of r x <-> in_extent N (core_lo l) (core_hi N l) d x))) /\
    (split_case N l nb force ->
       let mid := split_mid (core_lo l) (core_hi N l - N) in
       r = span2 N mid (mid - 1) /\
       (forall x, 0 <= x < N -> in_extent N (core_lo l) (core_hi N l) d x) /\
       (forall x, 0 <= x < N -> (C04.Proofs.base_of r x <-> x <> mid - 1)) /\
       (2 <= core_lo l - (core_hi N l - N) ->
          C04.Proofs.is_span N r /\ forall x, C04.Proofs.base_of l x -> C04.Proofs.base_of r x)).
Proof. exact neighbourhood_ring. Qed.
Print Assumptions C03_neighbourhood_ring.

(* the property's "core extended by the neighbourhood on both sides, wrapped around the origin" is false of the code
   in the split case: a base within the neighbourhood of the core is not in the extent (finding C03-K6) *)
Theorem C03_neighbourhood_ring_split_refuted : exists N l nb r x,
  ring_core N l /\ extend_area l nb N true true = Ok r /\ 0 <= x < N /\
  in_extent N (core_lo l) (core_hi N l) (nb_dist N l nb) x /\ ~ C04.Proofs.base_of r x.
Proof.
  exists 8000, (span2 8000 7000 900), 10000, (span2 8000 3950 3949), 3949.
  split; [right; exists 7000, 900; split; [reflexivity|lia]|].
  split; [vm_compute; reflexivity|]. split; [lia|]. split.
  - exists 0. split; [auto|vm_compute; split; [intro H; discriminate H|reflexivity]].
  - intros [q [[<-|[<-|[]]] Hq]]; cbn in Hq; lia.
Qed.
Print Assumptions C03_neighbourhood_ring_split_refuted.

(* the closed forms behind it: a one-part core / the span over the origin *)
Theorem C03_extent_single : forall N p nb force, 0 < N -> C04.Proofs.wfp N p -> 0 <= nb ->
  extend_area [p] nb N true force = Ok (ext_single N (ps p) (pe p) (Z.min nb (cap N (pe p - ps p)))).
Proof. exact extend_area_single. Qed.
Print Assumptions C03_extent_single.

Theorem C03_extent_span : forall N s e nb force, 0 < e -> e <= s -> s < N -> 0 <= nb ->
  extend_area (span2 N s e) nb N true force = Ok (ext_span2 N s e (Z.min nb (cap N (N - s + e))) force).
Proof. exact extend_area_span2. Qed.
Print Assumptions C03_extent_span.

(* C03_chain_ring, part 1 (the sweep).  Circular record, the one-part anchoring genes of a rule in sorted order (no
   anchoring gene spans the origin), guard far_ok: no gene is within the cutoff, across the origin, of the core it
   is compared with (decidable, evaluated along the sweep; it excludes the joins the loop itself makes through the
   origin, among them class C03-K5).  Then the loop of find_protoclusters - _extend_area_location by the cutoff with
   its cap, overlaps_with, connect_locations on the ring - succeeds and returns one single-part core per group of
   the interval sweep (C03_chain_linear), its tight hull; every anchor is in exactly one group; groups are
   connected through pairs closer than the cutoff; and two anchors of different groups are never closer than the
   cutoff on the ring EXCEPT through the origin between the first and the last group, and then exactly when these
   two groups' hulls are closer than the cutoff through the origin - the one pair left to merge_over_origin. *)
Theorem C03_chain_ring_sweep_partial : forall N c l, 0 < N -> 0 <= c -> Forall (C04.Proofs.wfp N) l ->
  sortedS (map itv_of l) -> far_ok N c [] (map itv_of l) = true ->
  let its := map itv_of l in
  let gs := sweep N c its in
  exists cores,
    fold_left (sweep_step N true c) (map (fun p => [p]) l) (Ok []) = Ok cores /\
    Forall2 core_rel cores gs /\
    Permutation its (flatten gs) /\
    (forall g, In g gs ->
       members g <> [] /\
       (forall m, In m (members g) -> fst (core_of g) <= s m /\ e m <= snd (core_of g)) /\
       (exists m, In m (members g) /\ s m = fst (core_of g)) /\
       (exists m, In m (members g) /\ e m = snd (core_of g)) /\
       (forall a b, In a (members g) -> In b (members g) -> conn c (members g) a b)) /\
    (forall g1 g2 a b, In g1 gs -> In g2 gs -> g1 <> g2 -> In a (members g1) -> In b (members g2) ->
       ring_near N c a b ->
       ((forall g', ~ older g' g1 gs) /\ (forall g', ~ older g2 g' gs) /\
        fst (core_of g1) + N - snd (core_of g2) < c) \/
       ((forall g', ~ older g' g2 gs) /\ (forall g', ~ older g1 g' gs) /\
        fst (core_of g2) + N - snd (core_of g1) < c)).
Proof. exact chain_ring_sweep. Qed.
Print Assumptions C03_chain_ring_sweep_partial.

(* one step of that loop in closed form: previous core [cs,he), next gene g in sorted order, g not within the cutoff
   of the core across the origin: joined (linear hull) iff g starts before core end + cutoff (strict <) *)
Theorem C03_chain_ring_step : forall N c cs he st g rest,
  0 < N -> 0 <= c -> C04.Proofs.wfp N (mkPart cs he st) -> C04.Proofs.wfp N g -> cs <= ps g -> pe g + c <= cs + N ->
  sweep_step N true c (Ok ([mkPart cs he st] :: rest)) [g] =
    if ps g <? he + c then Ok ([mkPart cs (Z.max he (pe g)) (join_strand st (pst g))] :: rest)
    else Ok ([g] :: [mkPart cs he st] :: rest).
Proof. exact sweep_step_ring. Qed.
Print Assumptions C03_chain_ring_step.

(* hulls closer than the cutoff through the origin are witnessed by two anchors (so the first and last group then
   belong to one component of the ring proximity graph) *)
Theorem C03_chain_ring_wrap_witness : forall N c lo gs, inv N c lo gs -> forall g1 g2, In g1 gs -> In g2 gs ->
  fst (core_of g1) + N - snd (core_of g2) < c ->
  exists a b, In a (members g1) /\ In b (members g2) /\ s a + N - e b < c.
Proof. exact wrap_near_members. Qed.
Print Assumptions C03_chain_ring_wrap_witness.

(* a rule without EXTENDERS and SUPERIORS: apply_extenders keeps rule and core of every protocluster and
   remove_redundant_protoclusters drops none, so between the sweep and the result only merge_over_origin acts *)
Theorem C03_no_extenders_core : forall N circular gs hs rules p q,
  r_ext (nth_rule rules (p_rule p)) = None ->
  extend_proto N circular gs hs rules p = Ok q -> p_rule q = p_rule p /\ p_core q = p_core p.
Proof. exact extend_proto_no_ext. Qed.
Print Assumptions C03_no_extenders_core.

Theorem C03_no_superiors_kept : forall gs rules all p b,
  r_sup (nth_rule rules (p_rule p)) = [] -> is_redundant gs rules all p = Ok b -> b = false.
Proof. exact is_redundant_no_sup. Qed.
Print Assumptions C03_no_superiors_kept.

(* ---------- merge_over_origin ---------- *)
(* never merges clusters of different rules: the result is the concatenation, rule by rule in order of first
   occurrence, of merge_group applied to that rule's clusters; every result carries the rule of an input cluster, the
   results of rule ri are exactly merge_group of ri's clusters, a rule that does not occur gets nothing *)
Theorem C03_merge_rules_kept : forall N circular rules key clusters res0,
  merge_over_origin_protos N circular rules key clusters = Ok res0 ->
  exists pairs groups,
    mapM (with_ext N circular rules) clusters = Ok pairs /\ map fst pairs = clusters /\
    mapM (fun ri => merge_group N circular rules key (of_rule ri pairs)) (product_order clusters []) = Ok groups /\
    res0 = concat groups /\
    (forall q, In q res0 -> exists p, In p clusters /\ p_rule q = p_rule p) /\
    (forall ri, In ri (map p_rule clusters) ->
       merge_group N circular rules key (of_rule ri pairs) = Ok (filter (fun q => p_rule q =? ri) res0)) /\
    (forall ri, ~ In ri (map p_rule clusters) -> filter (fun q => p_rule q =? ri) res0 = []).
Proof. exact merge_rules_kept. Qed.
Print Assumptions C03_merge_rules_kept.

Theorem C03_merge_group_rule : forall N circular rules key ri group res0,
  all_rule ri group -> merge_group N circular rules key group = Ok res0 -> Forall (fun q => p_rule q = ri) res0.
Proof. exact merge_group_rule. Qed.
Print Assumptions C03_merge_group_rule.

(* the loop is one left-to-right pass over the key-sorted group (a permutation of it, ascending keys): it invents no
   cluster and keeps at least one *)
Theorem C03_merge_sorted : forall (key : proto * loc -> Z) group,
  Permutation group (sort_by (fun a b => key a <? key b) group) /\
  sorted_by_key key (sort_by (fun a b => key a <? key b) group).
Proof. exact merge_sorted_perm. Qed.
Print Assumptions C03_merge_sorted.

Theorem C03_merge_group_length : forall N circular rules key group res0,
  merge_group N circular rules key group = Ok res0 -> group <> [] -> (1 <= length res0 <= length group)%nat.
Proof. exact merge_group_length. Qed.
Print Assumptions C03_merge_group_length.

(* clusters that do not overlap the cutoff-extended core of their predecessor in the sorted order - on a circular
   record, where the second pass compares all pairs: of ANY cluster before them in the sorted order - are never
   changed: the result is the sorted group itself, a permutation of the input, every rule, core and neighbourhood
   as it was *)
Theorem C03_merge_unchanged : forall N circular rules key group,
  let sorted := sort_by (fun a b => key a <? key b) group in
  (forall l1 prev prev_loc l2 cl loc0 l3, sorted = l1 ++ (prev, prev_loc) :: l2 ++ (cl, loc0) :: l3 ->
     circular = true \/ l2 = [] -> overlap (p_core cl) prev_loc = false) ->
  merge_group N circular rules key group = Ok (map fst sorted) /\
  Permutation (map fst group) (map fst sorted).
Proof. exact merge_group_unchanged. Qed.
Print Assumptions C03_merge_unchanged.

(* ... and "farther apart than the cutoff" implies exactly that (circular record, one-part cores): a core at least
   the cutoff away from the previous core both on the line and through the origin does not overlap its cutoff
   extension, the step appends the cluster unchanged *)
Theorem C03_merge_far_apart : forall N rules prev rest cl p q ext,
  p_core prev = [p] -> p_core (fst cl) = [q] -> C04.Proofs.wfp N p -> C04.Proofs.wfp N q ->
  let c := r_cut (nth_rule rules (p_rule prev)) in
  0 <= c -> pe p - ps p + 2 * c < N ->
  extend_location (p_core prev) c N true = Ok ext ->
  (pe p <= ps q /\ c <= ps q - pe p /\ c <= ps p + N - pe q) \/
  (pe q <= ps p /\ c <= ps p - pe q /\ c <= ps q + N - pe p) ->
  merge_step N true rules (Ok ((prev, ext) :: rest)) cl = Ok (cl :: (prev, ext) :: rest).
Proof. exact merge_step_far. Qed.
Print Assumptions C03_merge_far_apart.

(* C03_chain_ring, part 2 (merge_over_origin on the chains the sweep returns).  Circular record, k >= 2 protoclusters
   of one rule whose cores are one-part, listed in ascending order and separated on the line by at least the cutoff
   (pe q_j + c <= ps q_(j+1)), each with len + 2c < N.
   (a) first and last chain at least the cutoff apart through the origin: merge_over_origin returns every
       protocluster unchanged (total: it does not raise) ... *)
Theorem C03_chain_ring_merge_far : forall N rules ri c,
  r_cut (nth_rule rules ri) = c -> 0 <= c ->
  forall protos qs q1 mid qk pairs,
  qs = q1 :: mid ++ [qk] ->
  map p_core protos = map (fun q => [q]) qs ->
  Forall (fun P => p_rule P = ri) protos ->
  Forall (good N c) qs -> separated c qs ->
  mapM (with_ext N true rules) protos = Ok pairs ->
  c <= ps q1 + N - pe qk ->
  merge_group N true rules key_ext_start pairs
    = Ok (map fst (sort_by (fun a b => key_ext_start a <? key_ext_start b) pairs)) /\
  Permutation protos (map fst (sort_by (fun a b => key_ext_start a <? key_ext_start b) pairs)).
Proof. exact merge_chains_far. Qed.
Print Assumptions C03_chain_ring_merge_far.

(* (b) first and last chain closer than the cutoff through the origin, and through the origin is the short way
       (guard N/2 < ps q_k - pe q_1: the decidable predicate that excludes class C03-K5 long_way_round): whenever
       merge_over_origin returns, it has joined exactly the first and the last chain into the span [ps q_k, N) +
       [0, pe q_1) over the origin, of the same rule, and returns every chain in between unchanged *)
Theorem C03_chain_ring_merge_near_partial : forall N rules ri c,
  r_cut (nth_rule rules ri) = c -> 0 < N -> 0 <= c ->
  forall protos P1 pmid Pk qs q1 mid qk pairs res0,
  protos = P1 :: pmid ++ [Pk] -> qs = q1 :: mid ++ [qk] ->
  map p_core protos = map (fun q => [q]) qs ->
  Forall (fun P => p_rule P = ri) protos ->
  Forall (good N c) qs -> separated c qs ->
  mapM (with_ext N true rules) protos = Ok pairs ->
  ps q1 + N - pe qk < c -> N / 2 < ps qk - pe q1 ->
  merge_group N true rules key_ext_start pairs = Ok res0 ->
  exists m, res0 = m :: pmid /\ p_rule m = ri /\ p_core m = span2 N (ps qk) (pe q1) /\
    map p_core res0 = span2 N (ps qk) (pe q1) :: map (fun q => [q]) mid /\
    Forall (fun P => p_rule P = ri) res0.
Proof. exact merge_chains_near. Qed.
Print Assumptions C03_chain_ring_merge_near_partial.

(* a rule with a single protocluster: returned as it is *)
Theorem C03_merge_single : forall N rules P pairs,
  mapM (with_ext N true rules) [P] = Ok pairs -> merge_group N true rules key_ext_start pairs = Ok [P].
Proof. exact merge_chains_single. Qed.
Print Assumptions C03_merge_single.

(* non-vacuity of (a) and (b): N = 1000, cutoff 100, three chains, mixed strands *)
Example C03_chain_ring_merge_examples :
  let rules := [mkRule 100 0 (C01.Model.Single false 0) None []] in
  let mk s e st := (0, [mkPart s e st], [mkPart s e 1]) : proto in
  let withx l := match mapM (with_ext 1000 true rules) l with Ok p => p | Err _ => [] end in
  separated 100 [mkPart 10 50 1; mkPart 400 450 (-1); mkPart 900 960 1] /\
  Forall (good 1000 100) [mkPart 10 50 1; mkPart 400 450 (-1); mkPart 900 960 1] /\
  map p_core match merge_group 1000 true rules key_ext_start (withx [mk 10 50 1; mk 400 450 (-1); mk 900 960 1])
             with Ok r => r | Err _ => [] end
    = [span2 1000 900 50; [mkPart 400 450 (-1)]] /\
  merge_group 1000 true rules key_ext_start (withx [mk 110 150 1; mk 400 450 (-1); mk 800 860 1])
    = Ok [mk 110 150 1; mk 400 450 (-1); mk 800 860 1].
Proof.
  cbn zeta. split; [cbn; lia|]. split; [repeat constructor; cbn; lia|]. split; vm_compute; reflexivity.
Qed.

(* non-vacuity of the ring theorems: a record of 20 kb, cutoff 2 kb: the sweep keeps three chains (far_ok holds although
   the last chain is 1.8 kb from the first through the origin: it is compared with the second), and the neighbourhood
   of a core over the origin *)
Example C03_ring_examples :
  let l := [mkPart 1000 1300 1; mkPart 10000 10300 (-1); mkPart 17000 18200 1] in
  Forall (C04.Proofs.wfp 20000) l /\ sortedS (map itv_of l) /\ far_ok 20000 2000 [] (map itv_of l) = true /\
  fold_left (sweep_step 20000 true 2000) (map (fun p => [p]) l) (Ok [])
    = Ok [[mkPart 17000 18200 1]; [mkPart 10000 10300 (-1)]; [mkPart 1000 1300 1]] /\
  ring_core 20000 (span2 20000 17000 1300) /\ ~ split_case 20000 (span2 20000 17000 1300) 3000 true /\
  extend_area (span2 20000 17000 1300) 3000 20000 true true = Ok (span2 20000 14000 4300).
Proof.
  cbn zeta. split; [repeat constructor; cbn; lia|]. split; [cbn; repeat split; repeat (constructor; try (cbn; lia))|].
  split; [vm_compute; reflexivity|]. split; [vm_compute; reflexivity|].
  split; [right; exists 17000, 1300; split; [reflexivity|lia]|].
  split; [|vm_compute; reflexivity].
  intros [_ [s0 [e0 [Heq Hlt]]]]. unfold span2 in Heq. inversion Heq; subst s0 e0. vm_compute in Hlt. discriminate Hlt.
Qed.

(* ====================================================================================
   Third pass: two clauses that were false of the code and hold of the repaired code (findings C03-K7, C03-K8,
   status fixed), one that is still false (C03-K9)
   ==================================================================================== *)

(* "the protoclusters reported for a rule are the maximal groups ... (also across the origin of a circular record)"
   needs the rule's anchoring genes to be found across the origin.  Repaired finding C03-K8 anchor_window_full_record:
   circular_origin, the wrap point of the distance test of the rule conditions (Details.in_range), is the record
   length for every gene and every cutoff on a circular record and 0 on a linear one - it no longer depends on the
   cutoff window having two parts (a window covering the whole record has one) *)
Theorem C03_anchor_window_origin : forall N circular gs g cutoff i,
  gene_info N circular gs g cutoff = Ok i -> snd i = if circular then N else 0.
Proof. exact gene_info_origin. Qed.
Print Assumptions C03_anchor_window_origin.

(* ... and the witness of the finding (regression): on a circular record of 4000 bases with cutoff 2000 the genes
   [100:200) (p0) and [3800:3900) (p1), 300 apart over the origin, ARE the anchoring genes of "p0 and p1"
   (apply_cluster_rules, as the code is now), as they are under the specification anchors_spec (every rule evaluated
   over the whole record with the ring distance) and on a record 101 bases longer; the pipeline reports the
   protocluster over the origin *)
Theorem C03_anchor_window_repaired :
  let gs := [(0, [mkPart 100 200 1]); (1, [mkPart 3800 3900 1])] in
  let hs := [(0, [(0, 0)]); (1, [(1, 0)])] in
  let rules := [mkRule 2000 0 (C01.Model.Group false [C01.Model.IAnd [C01.Model.Single false 0; C01.Model.Single false 1]]) None []] in
  apply_cluster_rules 4000 true gs hs rules true = Ok [(0, [0; 1])] /\
  anchors_spec 4000 true gs hs rules = Ok [(0, [0; 1])] /\
  apply_cluster_rules 4101 true [(0, [mkPart 100 200 1]); (1, [mkPart 3901 4001 1])] hs rules true = Ok [(0, [0; 1])] /\
  pipeline 4000 true gs hs rules true = Ok [(0, span2 4000 3800 200, span2 4000 3800 200)].
Proof. exact anchor_window_repaired. Qed.
Print Assumptions C03_anchor_window_repaired.

(* "maximal groups": two protoclusters of one rule never have cores closer than the cutoff.  Repaired finding C03-K7
   merge_scan_adjacent_only.  merge_over_origin on a circular record, the clusters of one rule each carried with its
   core extended by the rule's cutoff (ext_ok: what merge_over_origin pairs them with): whenever it returns, the
   clusters it returns are again carried with their cutoff-extended cores (kept) and for EVERY two of them, x before
   y in the returned order, the core of y does not overlap the cutoff-extended core of x - all pairs, not only
   neighbours in the order of the starts of the extended cores.  (Total correctness - that merge_pair does not raise -
   and the reading of "does not overlap the extension" as "at least the cutoff apart on the ring" for arbitrary core
   shapes are not part of the statement; for one-part cores see C03_merge_far_apart.) *)
Theorem C03_merge_ring_separated : forall N rules key group res0,
  Forall (ext_ok N true rules) group -> merge_group N true rules key group = Ok res0 ->
  exists kept, res0 = map fst kept /\ Forall (ext_ok N true rules) kept /\ fwd_apart kept /\
    forall l1 x l2 y l3, kept = l1 ++ x :: l2 ++ y :: l3 -> overlap (p_core (fst y)) (snd x) = false.
Proof. intros N rules key group res0. exact (merge_group_separated N true rules key group res0 eq_refl). Qed.
Print Assumptions C03_merge_ring_separated.

(* the second pass in closed form: it stops exactly when no pair is left, and one round merges the first pair
   (i < j, lexicographic order) whose later core overlaps the earlier extended core into position i *)
Theorem C03_merge_ring_round : forall N circular rules l,
  (ring_merge_once N circular rules l = Ok None <-> fwd_apart l) /\
  (forall l', ring_merge_once N circular rules l = Ok (Some l') ->
     exists pre x b y a m ext, l = pre ++ x :: b ++ y :: a /\ l' = pre ++ (m, ext) :: b ++ a /\
       overlap (p_core (fst y)) (snd x) = true /\ merge_pair N circular rules (fst x) (fst y) = Ok m /\
       extend_location (p_core m) (r_cut (nth_rule rules (p_rule m))) N circular = Ok ext).
Proof. intros N circular rules l. split; [apply ring_once_none|apply ring_once_some]. Qed.
Print Assumptions C03_merge_ring_round.

(* the witness of the finding (regression): the pipeline used to return two protoclusters of rule 0 whose cores shared
   gene 3; it returns one protocluster g2..g0 over the origin (and the lone g1) *)
Theorem C03_merge_scan_repaired :
  pipeline 10000 true [(0, [mkPart 50 150 1]); (1, [mkPart 5000 5100 1]); (2, [mkPart 7900 8000 1]); (3, [mkPart 8450 8550 1]);
                       (4, [mkPart 9000 9100 1])]
           [(0, [(0, 0)]); (1, [(0, 0)]); (2, [(0, 0)]); (3, [(1, 0)]); (4, [(0, 0)])]
           [mkRule 1000 0 (C01.Model.Single false 0) (Some (C01.Model.Single false 1)) []] true
  = Ok [(0, span2 10000 7900 150, span2 10000 7900 150); (0, [mkPart 5000 5100 1], [mkPart 5000 5100 1])].
Proof. exact merge_scan_repaired. Qed.
Print Assumptions C03_merge_scan_repaired.

(* the witness of C03_merge_scan_repaired read from an origin 3000 bases further on: the same protocluster for
   the four genes near each other (and one for the lone gene) - the result no longer depends on where the origin lies *)
Example C03_merge_scan_rotated :
  pipeline 10000 true [(2, [mkPart 900 1000 1]); (3, [mkPart 1450 1550 1]); (4, [mkPart 2000 2100 1]); (0, [mkPart 3050 3150 1]);
                       (1, [mkPart 8000 8100 1])]
           [(0, [(0, 0)]); (1, [(0, 0)]); (2, [(0, 0)]); (3, [(1, 0)]); (4, [(0, 0)])]
           [mkRule 1000 0 (C01.Model.Single false 0) (Some (C01.Model.Single false 1)) []] true
  = Ok [(0, [mkPart 900 3150 1], [mkPart 900 3150 1]); (0, [mkPart 8000 8100 1], [mkPart 8000 8100 1])].
Proof. exact merge_scan_rotated_ok. Qed.

(* "the core is the smallest span covering its group plus any genes admitted by the rule's EXTENDERS clause", read as:
   a gene that satisfies the extender condition and shares a base with the core (distance 0) belongs to it.  False
   (finding C03-K9 extender_overlapping_core_not_admitted), on a linear record: the extension walks the genes in gene
   order and measures the distance from the previous match, starting at the first / last core gene IN GENE ORDER, and
   stops at the first gene farther than the cutoff from it; with a long gene lying over short ones that gene is not the
   one reaching farthest, so a gene overlapping the far end of the core (or a long gene covering the whole core that
   starts before a short gene farther than the cutoff) is never reached. *)
Theorem C03_extender_overlap_refuted : exists N gs hs rules protos p g,
  pipeline N false gs hs rules true = Ok protos /\ In p protos /\ In g gs /\
  can_extend hs (nth_rule rules (p_rule p)) g = true /\ overlap (snd g) (p_core p) = true /\ contains (p_core p) (snd g) = false.
Proof. exact extender_overlap_refuted. Qed.
Print Assumptions C03_extender_overlap_refuted.

(* "the protoclusters of a rule are the maximal groups ... each core is the smallest span covering its group", for a chain
   through an origin-spanning anchoring gene.  False (finding C03-K10 chain_spanning_anchor_wrong_side): on a circular
   record of 12000 bases with cutoff 2000 the pipeline returns ONE protocluster whose core contains the anchoring gene
   [2500:2800), although that gene is at least the cutoff away from every other anchoring gene (it is a chain of its own).
   The cause is stated with it: connect_locations of [5000:5800) and the origin-bridging [7000:12000)+[0:80) returns
   [7000:12000)+[0:5800) (10800 bases), not the covering arc [5000:12000)+[0:80) (7080 bases): with an origin-bridging argument
   every other location is put before or after the origin by which end of the record its middle is nearer to (5400 < 6000:
   "after"), which is the right side whenever the shortest covering arc is at most half the record, and need not be for a
   longer one. *)
Theorem C03_spanning_chain_wrong_side_refuted : exists N gs hs rules p far,
  pipeline N true gs hs rules true = Ok [p] /\ In far gs /\ contains (p_core p) (snd far) = true /\
  (forall g, In g gs -> g <> far -> r_cut (nth_rule rules 0) <= dist (snd far) (snd g) (Some N)) /\
  connect_locations [[mkPart 5000 5800 1]; [mkPart 7000 12000 1; mkPart 0 80 1]] (Some N)
    = Ok [mkPart 7000 12000 1; mkPart 0 5800 1] /\
  contains [mkPart 5000 12000 1; mkPart 0 80 1] [mkPart 5000 5800 1] = true /\
  contains [mkPart 5000 12000 1; mkPart 0 80 1] [mkPart 7000 12000 1; mkPart 0 80 1] = true.
Proof. exact spanning_chain_wrong_side_refuted. Qed.
Print Assumptions C03_spanning_chain_wrong_side_refuted.
