(* C03 - property theorems only: statement, [exact lemma], Print Assumptions; Examples show the
   hypotheses are satisfiable (non-vacuity). *)
From Coq Require Import Sorting.Permutation.
From ASV.C03 Require Import Model Proofs.

(* On a linear record, for every cutoff and every set of anchoring genes (nested, overlapping,
   in any input order): the groups formed by the sweep are exactly the maximal chains of genes
   closer than the cutoff - every anchor is in exactly one group, no group is empty, members of
   one group are connected through pairs closer than the cutoff, members of different groups are
   never closer than the cutoff (strict <), and the core is the smallest span covering its group. *)
Theorem C03_chain_linear : forall N c anchors, 0 <= c -> Forall (wf N) anchors ->
  let gs := sweep N c (sort_by itv_lt anchors) in
  Permutation anchors (flatten gs) /\
  (forall g, In g gs ->
     members g <> [] /\
     (forall m, In m (members g) -> fst (core_of g) <= s m /\ e m <= snd (core_of g)) /\
     (exists m, In m (members g) /\ s m = fst (core_of g)) /\
     (exists m, In m (members g) /\ e m = snd (core_of g)) /\
     (forall a b, In a (members g) -> In b (members g) -> conn c (members g) a b)) /\
  (forall g1 g2 a b, In g1 gs -> In g2 gs -> g1 <> g2 -> In a (members g1) -> In b (members g2) -> ~ near c a b).
Proof. exact chain_linear. Qed.
Print Assumptions C03_chain_linear.

(* the extent of each protocluster is its core extended by the neighbourhood and clipped to the
   record; it contains the core; cores are non-empty *)
Theorem C03_neighbourhood_linear : forall N c nb anchors, 0 <= nb -> 0 <= c -> Forall (wf N) anchors ->
  Forall (fun p : Z * Z * Z * Z => let '(cs, he, xs, xe) := p in
            xs = Z.max 0 (cs - nb) /\ xe = Z.min N (he + nb) /\ 0 <= xs <= cs /\ he <= xe <= N /\ cs < he)
         (protoclusters N c nb anchors).
Proof. exact protoclusters_shape. Qed.
Print Assumptions C03_neighbourhood_linear.

(* non-vacuity and strictness at the boundary: gap exactly = cutoff separates, cutoff - 1 joins *)
Example C03_boundary :
  Forall (wf 5000) [mkItv 2100 2200; mkItv 100 1100; mkItv 2099 2150] /\
  protoclusters 5000 1000 300 [mkItv 2100 2200; mkItv 100 1100] = [(100, 1100, 0, 1400); (2100, 2200, 1800, 2500)] /\
  protoclusters 5000 1000 300 [mkItv 2099 2150; mkItv 100 1100] = [(100, 2150, 0, 2450)].
Proof.
  split; [repeat constructor; cbn; lia|]. split; vm_compute; reflexivity.
Qed.
