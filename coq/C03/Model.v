(* C03: model of protocluster formation on a linear record for rules without extenders and
   superiors (cluster_prediction.find_protoclusters: the sorted sweep that chains anchoring genes
   closer than the cutoff into cores, and the neighbourhood extension).
   On a linear record Record.connect_locations of single-part locations is the hull
   (C04_connect_line) and Record.extend_location the clipped interval (C04 linear extend), so a
   core is carried as (start, end). *)
From ASV Require Export Base Loc.
From ASV.C01 Require Model.

Record itv := mkItv { s : Z; e : Z }.

(* Feature.__lt__ for locations that do not cross the origin: (start, length) *)
Definition itv_lt (a b : itv) : bool :=
  (s a <? s b) || ((s a =? s b) && (e a - s a <? e b - s b)).

(* a group of chained genes: hull start, hull end, members newest first *)
Definition group := (Z * Z * list itv)%type.

Section Sweep.
Variable N : Z.        (* record length *)
Variable c : Z.        (* cutoff *)

(* one gene of the sorted list: extend the previous core by the cutoff (clipped to the record)
   and test cds.overlaps_with(dummy) *)
Definition step (gs : list group) (i : itv) : list group :=
  match gs with
  | [] => [(s i, e i, [i])]
  | (cs, he, ms) :: rest =>
    let ds := Z.max 0 (cs - c) in
    let de := Z.min N (he + c) in
    if (s i <? de) && (ds <? e i)
    then (Z.min cs (s i), Z.max he (e i), i :: ms) :: rest
    else (s i, e i, [i]) :: gs
  end.

Definition sweep (l : list itv) : list group := fold_left step l [].
End Sweep.

(* cores oldest first, each with its neighbourhood extension *)
Definition protoclusters (N c nb : Z) (anchors : list itv) : list (Z * Z * Z * Z) :=
  map (fun g : group => let '(cs, he, _) := g in (cs, he, Z.max 0 (cs - nb), Z.min N (he + nb)))
      (rev (sweep N c (sort_by itv_lt anchors))).

Definition dItv : dec itv := fun l => match dPair dZ dZ l with Some ((a, b), r) => Some (mkItv a b, r) | None => None end.
Definition dRule : dec (Z * Z * list itv) := dPair (dPair dZ dZ) (dList dItv).


(* ====================================================================================
   The full pipeline on linear AND circular records (function ids 2..): apply_cluster_rules,
   find_protoclusters, _extend_area_location, apply_extenders, remove_redundant_protoclusters,
   merge_over_origin of cluster_prediction.py, Record.get_cds_features_within_location,
   Feature.__lt__, the location checks of the Feature / CDSCollection / Protocluster constructors.
   Locations are Common/Loc.v locations; rule conditions are evaluated by the C01 model.
   ==================================================================================== *)


Definition gene := (Z * loc)%type.          (* id, location; lists of genes are in record order *)
Definition wrap_of (N : Z) (circular : bool) : option Z := if circular then Some N else None.

(* Feature.__lt__: get_comparator = (start, len), the start of an origin-crossing location being
   min(head starts) - max(head ends) of the part before the origin *)
Definition fkey (l : loc) : res (Z * Z) :=
  if bridges l then
    do lu <- split_bridging l;
    let '(_, upper) := lu in Ok (lmin (map ps upper) - lmax (map pe upper), llen l)
  else Ok (lstart l, llen l).
Definition pair_lt (a b : Z * Z) : bool :=
  (fst a <? fst b) || ((fst a =? fst b) && (snd a <? snd b)).
(* gene locations are checked up front (every key exists); computed areas always split validly *)
Definition klt (a b : loc) : bool :=
  match fkey a, fkey b with Ok ka, Ok kb => pair_lt ka kb | _, _ => false end.

(* bisect.bisect_left(a, x): [lt e] stands for a[mid] < x; the exact binary search *)
Fixpoint bisect_go {A} (lt : A -> bool) (l : list A) (fuel : nat) (lo hi : nat) : nat :=
  match fuel with
  | O => lo
  | S f =>
    if Nat.ltb lo hi then
      let mid := Nat.div2 (lo + hi) in
      match nth_error l mid with
      | Some x => if lt x then bisect_go lt l f (S mid) hi else bisect_go lt l f lo mid
      | None => lo
      end
    else lo
  end.
Definition bisect_left {A} (lt : A -> bool) (l : list A) : nat :=
  bisect_go lt l (S (length l)) 0 (length l).

(* ---------- Record.get_cds_features_within_location (as repaired by /repo b818da8e, findings F13a / F13b) ---------- *)
(* while index > first and test(features[index - 1]): index -= 1 *)
Fixpoint backstep (first : nat) (test : gene -> bool) (l : list gene) (i : nat) : nat :=
  match i with
  | O => O
  | S j => if Nat.leb i first then i else
           match nth_error l j with
           | Some g => if test g then backstep first test l j else i
           | None => i
           end
  end.
(* first = 0; while first < len(features) and features[first].crosses_origin(): first += 1 *)
Fixpoint lead_cross (l : list gene) : nat :=
  match l with
  | f :: r => if bridges (snd f) then S (lead_cross r) else O
  | [] => O
  end.
(* find_start_in_list(location, features, first): bisect_left(features, dummy, lo=first), then back over the genes
   with the query's start *)
Definition find_start (gs : list gene) (q : loc) (first : nat) : nat :=
  let i0 := bisect_go (fun g : gene => klt (snd g) q) gs (S (length gs)) first (length gs) in
  backstep first (fun g => lstart (snd g) =? lstart q) gs i0.
Fixpoint take_while {A} (p : A -> bool) (l : list A) : list A :=
  match l with
  | x :: r => if p x then x :: take_while p r else []
  | [] => []
  end.
(* feature.is_contained_by(location) or with_overlapping and feature.overlaps_with(location) *)
Definition hit (q : loc) (wo : bool) (g : gene) : bool :=
  contains q (snd g) || (wo && overlap (snd g) q).
(* candidates = features[:first]
   if with_overlapping: candidates.extend(f for f in features[first:index] if f.location.end > location.start)
   while index < len(features) and features[index].location.start < location.end: candidates.append(features[index]) *)
Definition candidates (gs : list gene) (q : loc) (wo : bool) : list gene :=
  let first := lead_cross gs in
  let index := find_start gs q first in
  firstn first gs
  ++ (if wo then filter (fun f : gene => lstart q <? lend (snd f)) (firstn (index - first) (skipn first gs)) else [])
  ++ take_while (fun f : gene => lstart (snd f) <? lend q) (skipn index gs).
Definition within_simple (gs : list gene) (p : part) (wo : bool) : list gene :=
  let p := if ps p <? 0 then mkPart 0 (Z.max 1 (pe p)) S_None else p in
  filter (hit [p] wo) (candidates gs [p] wo).
Definition gmem (g : gene) (l : list gene) : bool := existsb (fun h : gene => fst h =? fst g) l.
(* features.extend(f for f in found if f not in features) *)
Fixpoint extend_new (acc found : list gene) : list gene :=
  match found with
  | [] => acc
  | f :: r => if gmem f acc then extend_new acc r else extend_new (acc ++ [f]) r
  end.
(* one part of a compound query:
   features = [f for f in features if not (f.crosses_origin() and f in found)]; features.extend(new ones of found) *)
Definition compound_step (gs : list gene) (acc : list gene) (p : part) : list gene :=
  let found := within_simple gs p true in
  extend_new (filter (fun f : gene => negb (bridges (snd f) && gmem f found)) acc) found.
Definition within (gs : list gene) (q : loc) (wo : bool) : list gene :=
  match q with
  | [p] => within_simple gs p wo
  | _ =>
    let feats := fold_left (compound_step gs) q [] in
    if wo then feats else filter (fun f : gene => contains q (snd f)) feats
  end.

(* ---------- constructor checks ---------- *)
Fixpoint nodupZ (l : list Z) : bool :=
  match l with [] => true | x :: r => negb (existsb (Z.eqb x) r) && nodupZ r end.
(* Feature.__init__ : overlapping exons (shared end), negative start *)
Definition mk_feature (l : loc) : res loc :=
  if is_compound l && negb (nodupZ (map pe l)) then Err E_Value else
  if lend l <? lstart l then Err E_Assert else
  if lstart l <? 0 then Err E_Value else Ok l.
(* Protocluster.__init__ -> CDSCollection.__init__ -> Feature.__init__ *)
Definition mk_proto (core sur : loc) : res unit :=
  if bridges core && negb (bridges sur) then Err E_Value else
  if zlen sur <? zlen core then Err E_Assert else
  do _ <- (if is_compound sur then
             match sur with
             | [_; p1] => if ps p1 =? 0 then Ok tt else Err E_Value
             | _ => Err E_Assert
             end
           else Ok tt);
  if negb (all_same_strand sur) then Err E_Assert else
  do _ <- mk_feature sur;
  if is_compound sur && negb (lstrand sur =? 1) then Err E_Value else Ok tt.

(* ---------- _extend_area_location ---------- *)
Definition extend_area (l : loc) (distance N : Z) (circular force : bool) : res loc :=
  if (lstrand l =? S_None) && negb (zlen l =? 1) then Err E_Assert else
  let max_parts := if circular then 2 else 1 in
  do distance <- (if circular then
                    if is_compound l && negb (bridges l) then Err E_Value
                    else Ok (Z.min distance ((N - llen l) / 2 + 1))
                  else Ok distance);
  if max_parts <? zlen l then Err E_Value else
  let fwd := if lstrand l =? 1 then l else make_forwards l in
  do ext <- extend_location fwd distance N circular;
  do result <- connect_locations [ext] (wrap_of N circular);
  do result <- (if bridges l && (llen result =? N) && negb (bridges result) && force then
                  match l, last_opt l with
                  | p0 :: _, Some pn =>
                    let mid := (ps p0 - pe pn) / 2 + pe pn in
                    do a <- mkFL mid N (lstrand result);
                    do b <- mkFL 0 (mid - 1) (lstrand result);
                    Ok [a; b]
                  | _, _ => Err E_Index
                  end
                else Ok result);
  if max_parts <? zlen result then Err E_Value else Ok result.

(* ---------- rules, hits ---------- *)
Record rule := mkRule { r_cut : Z; r_nb : Z; r_cond : C01.Model.cond; r_ext : option C01.Model.cond; r_sup : list Z }.
Definition hits := list (Z * list (Z * Z)).          (* results_by_id, dict order *)
Definition proto := (Z * loc * loc)%type.            (* rule index, core, surrounding location *)
Definition p_rule (p : proto) : Z := fst (fst p).
Definition p_core (p : proto) : loc := snd (fst p).
Definition p_sur (p : proto) : loc := snd p.

Fixpoint lookup {A} (k : Z) (l : list (Z * A)) : option A :=
  match l with [] => None | (k', v) :: r => if k =? k' then Some v else lookup k r end.
Definition nth_rule (rules : list rule) (i : Z) : rule :=
  nth (Z.to_nat i) rules (mkRule 0 0 (C01.Model.Single false 0) None []).

Section Pipeline.
Variable N : Z.
Variable circular : bool.
Variable gs : list gene.         (* record.get_cds_features() *)
Variable hs : hits.
Variable rules : list rule.
Let w := wrap_of N circular.

(* ---------- apply_cluster_rules ---------- *)
(* what is cached per cutoff: nearby features and circular_origin (nearby results are a
   function of the nearby features).  circular_origin is the record length on EVERY circular record
   (repair of finding C03-K8 anchor_window_full_record: it used to be set only when the cutoff window
   had two parts, so a window covering the whole record - one part - measured without wrapping) *)
Definition info := (list gene * Z)%type.
Definition gene_info (g : gene) (cutoff : Z) : res info :=
  do l <- connect_locations [snd g] w;
  if 2 <? zlen l then Err E_Assert else
  do l <- extend_area l cutoff N circular false;
  Ok (within gs l true, if circular then N else 0).

Definition rule_ctx (r : rule) (i : info) : C01.Model.ctx :=
  C01.Model.mkCtx (r_cut r) (Some (snd i)) (fst i)
    (flat_map (fun f : gene => match lookup (fst f) hs with Some h => [(fst f, h)] | None => [] end) (fst i)).

(* cluster_type_hits: rule index -> gene ids, both in insertion order *)
Definition anchors := list (Z * list Z).
Fixpoint add_anchor (ri g : Z) (a : anchors) : anchors :=
  match a with
  | [] => [(ri, [g])]
  | (k, l) :: r => if k =? ri then (k, if existsb (Z.eqb g) l then l else l ++ [g]) :: r
                   else (k, l) :: add_anchor ri g r
  end.

Definition eval_rule (g : gene) (ri : Z) (r : rule) (i : info) (acc : anchors) : res anchors :=
  if negb (gmem g (fst i)) then Err E_Key else
  let m := C01.Model.detect (rule_ctx r i) (r_cond r) (fst g) in
  if C01.Model.met m && nonempty (C01.Model.matches m)
  then Ok (fold_left (fun a o => add_anchor ri o a) (map fst (C01.Model.ancs m)) (add_anchor ri (fst g) acc))
  else Ok acc.

(* [cached = true]: the code as it is (info_by_range keyed by cutoff, the flag stored with it);
   [cached = false]: every rule evaluated on freshly computed information (the specification) *)
Fixpoint rules_loop (cached : bool) (g : gene) (cache : list (Z * info)) (ri : Z) (rs : list rule) (acc : anchors)
  : res anchors :=
  match rs with
  | [] => Ok acc
  | r :: rest =>
    match (if cached then lookup (r_cut r) cache else None) with
    | Some i => do acc <- eval_rule g ri r i acc; rules_loop cached g cache (ri + 1) rest acc
    | None => do i <- gene_info g (r_cut r);
              do acc <- eval_rule g ri r i acc;
              rules_loop cached g ((r_cut r, i) :: cache) (ri + 1) rest acc
    end
  end.

Definition gene_by_id (i : Z) : option gene := find (fun g : gene => fst g =? i) gs.

Definition apply_cluster_rules (cached : bool) : res anchors :=
  let with_hits := flat_map (fun h : Z * list (Z * Z) => match gene_by_id (fst h) with Some g => [g] | None => [] end) hs in
  let ordered := sort_by (fun a b : gene => lstart (snd a) <? lstart (snd b)) with_hits in
  fold_left (fun acc g => do a <- acc; rules_loop cached g [] 0 rules a) ordered (Ok []).

(* specification of the anchoring genes (function id 6; not part of the transcription): every rule is
   evaluated for every gene with hits over ALL genes of the record, the distance test of the conditions
   (Details.in_range) measuring round the origin on every circular record.  This is what the cutoff window and
   its circular_origin flag stand for: the window only pre-selects genes, in_range decides. *)
Definition info_spec : info := (gs, if circular then N else 0).
Fixpoint rules_loop_spec (g : gene) (ri : Z) (rs : list rule) (acc : anchors) : res anchors :=
  match rs with
  | [] => Ok acc
  | r :: rest => do acc <- eval_rule g ri r info_spec acc; rules_loop_spec g (ri + 1) rest acc
  end.
Definition anchors_spec : res anchors :=
  let with_hits := flat_map (fun h : Z * list (Z * Z) => match gene_by_id (fst h) with Some g => [g] | None => [] end) hs in
  let ordered := sort_by (fun a b : gene => lstart (snd a) <? lstart (snd b)) with_hits in
  fold_left (fun acc g => do a <- acc; rules_loop_spec g 0 rules a) ordered (Ok []).

(* ---------- find_protoclusters: the chain sweep of one rule ---------- *)
Definition sweep_step (cutoff : Z) (acc : res (list loc)) (g : loc) : res (list loc) :=
  do cores <- acc;                                  (* newest first *)
  match cores with
  | [] => do c <- connect_locations [g] w; do c <- mk_feature c; Ok [c]
  | prev :: rest =>
    do d <- extend_area prev cutoff N circular false;
    do d <- mk_feature d;
    if llen d <? llen prev then Err E_Assert else
    if overlap g d then do c <- connect_locations [prev; g] w; Ok (c :: rest)
    else do c <- connect_locations [g] w; do c <- mk_feature c; Ok (c :: cores)
  end.

Definition rule_cores (r : rule) (ids : list Z) : res (list loc) :=
  let feats := sort_by (fun a b : gene => klt (snd a) (snd b)) (filter (fun g : gene => existsb (Z.eqb (fst g)) ids) gs) in
  let cross := filter (fun g : gene => bridges (snd g)) feats in
  let plain := sort_by (fun a b : gene => klt (snd a) (snd b)) (filter (fun g : gene => negb (bridges (snd g))) feats) in
  do cross_cores <- mapM (fun g : gene => do c <- connect_locations (map (fun p => [p]) (snd g)) w; mk_feature c) cross;
  do cores_rev <- fold_left (sweep_step (r_cut r)) (map snd plain) (Ok (rev cross_cores));
  let cores := rev cores_rev in
  match cores, cores_rev with
  | [], _ => Err E_Assert
  | first :: _, last :: before_rev =>
    (* first.location.parts[0].start: an origin-spanning core starts in its part before the origin *)
    if circular && (1 <? zlen cores) && (lstart last <? match first with p0 :: _ => ps p0 | [] => 0 end) then
      if dist first last w <? r_cut r then
        do c <- connect_locations [last; first] w;
        Ok (c :: tl (rev before_rev))
      else Ok cores
    else Ok cores
  | _, _ => Ok cores
  end.

Definition initial_protos (a : anchors) : res (list proto) :=
  do per <- mapM (fun e : Z * list Z =>
                    let r := nth_rule rules (fst e) in
                    do cores <- rule_cores r (snd e);
                    mapM (fun core => do sur <- extend_area core (r_nb r) N circular true;
                                      do _ <- mk_proto core sur; Ok (fst e, core, sur)) cores) a;
  Ok (concat per).

(* ---------- apply_extenders ---------- *)
Definition can_extend (r : rule) (g : gene) : bool :=
  match r_ext r with
  | None => false
  | Some c =>
    let h := match lookup (fst g) hs with Some h => h | None => [] end in
    C01.Model.met (C01.Model.detect (C01.Model.mkCtx (r_cut r) None [g] [(fst g, h)]) c (fst g))
  end.

(* mark_extendable: the genes it yields; [core0] is the core as it was when the generator was made *)
Fixpoint mark (r : rule) (core0 prev : loc) (walk : list gene) : list gene :=
  match walk with
  | [] => []
  | g :: rest =>
    if contains core0 (snd g) then mark r core0 prev rest
    else if r_cut r <? dist (snd g) prev w then []
    else if can_extend r g then g :: mark r core0 (snd g) rest
    else mark r core0 prev rest
  end.
Definition grow (core : loc) (accepted : list gene) : res loc :=
  fold_left (fun acc g => do c <- acc; connect_locations [snd g; c] w) accepted (Ok core).

Definition extend_proto (p : proto) : res proto :=
  let r := nth_rule rules (p_rule p) in
  let core0 := p_core p in
  let index := bisect_left (fun g : gene => klt (snd g) core0) gs in
  match within gs core0 false, last_opt (within gs core0 false) with
  | first :: _, Some last =>
    let back := rev (firstn index gs) ++ (if circular then rev (skipn (S index) gs) else []) in
    do core1 <- grow core0 (mark r core0 (snd first) back);
    let fwd := skipn index gs ++ (if circular then firstn index gs else []) in
    do core2 <- grow core1 (mark r core1 (snd last) fwd);
    if negb (contains core2 core0) then Err E_Assert else
    do sur <- extend_area core2 (r_nb r) N circular true;
    do _ <- mk_proto core2 sur;
    Ok (p_rule p, core2, sur)
  | _, _ => Err E_Index
  end.

(* ---------- remove_redundant_protoclusters ---------- *)
Definition first_last (core : loc) : res (loc * loc) :=
  match within gs core false, last_opt (within gs core false) with
  | f :: _, Some l => Ok (snd f, snd l)
  | _, _ => Err E_Index
  end.
Fixpoint red_inner (core first last : loc) (others : list loc) (red : bool) : res bool :=
  match others with
  | [] => Ok red
  | o :: rest =>
    if contains o core then red_inner core first last rest true else
    do fl <- first_last o;
    if klt (snd fl) first then red_inner core first last rest red
    else if klt last (fst fl) then red_inner core first last rest red
    else Ok true
  end.
Fixpoint red_outer (all : list proto) (core first last : loc) (sups : list Z) : res bool :=
  match sups with
  | [] => Ok false
  | s :: rest =>
    do r <- red_inner core first last (map p_core (filter (fun q => p_rule q =? s) all)) false;
    if r then Ok true else red_outer all core first last rest
  end.
Definition is_redundant (all : list proto) (p : proto) : res bool :=
  do fl <- first_last (p_core p);
  red_outer all (p_core p) (fst fl) (snd fl) (r_sup (nth_rule rules (p_rule p))).
Definition remove_redundant (all : list proto) : res (list proto) :=
  do flags <- mapM (is_redundant all) all;
  Ok (map fst (filter (fun pf : proto * bool => negb (snd pf)) (combine all flags))).

(* ---------- merge_over_origin ---------- *)
(* merge_pair: the neighbourhood of the joined core comes from _extend_area_location (forward strand,
   (N-len)//2+1 cap, at most two parts) like that of every other protocluster; the hand-written
   halfway split is kept for a joined core over the origin whose neighbourhood fills the record *)
Definition merge_pair (a b : proto) : res proto :=
  let r := nth_rule rules (p_rule a) in
  do core <- connect_locations [p_core a; p_core b] w;
  do sur <- extend_area core (r_nb r) N circular false;
  do sur <- (if (llen sur =? N) && negb (bridges sur) && bridges core then
               match core with
               | p0 :: p1 :: _ =>
                 let halfway := (ps p0 - pe p1) / 2 in
                 do x <- mkFL (ps p0 - halfway) N 1;
                 do y <- mkFL 0 (pe p1 + halfway - 1) 1;
                 Ok [x; y]
               | _ => Err E_Index
               end
             else Ok sur);
  do _ <- mk_proto core sur;
  Ok (p_rule a, core, sur).

(* the loop over one product's (cluster, cutoff-extended core) pairs; state: finished pairs
   (newest first), the last of them being the "previous" one *)
Definition merge_step (acc : res (list (proto * loc))) (cl : proto * loc) : res (list (proto * loc)) :=
  do done <- acc;
  match done with
  | [] => Ok [cl]
  | (prev, prev_loc) :: rest =>
    if overlap (p_core (fst cl)) prev_loc then
      do m <- merge_pair prev (fst cl);
      do ext <- extend_location (p_core m) (r_cut (nth_rule rules (p_rule m))) N circular;
      Ok ((m, ext) :: rest)
    else Ok (cl :: done)
  end.
(* the second pass on a circular record (repair of finding C03-K7 merge_scan_adjacent_only): every extended
   location that wraps the origin starts at 0, so the sort order is not the order on the ring; after the scan
   the clusters that are left are compared pairwise - for i, j in itertools.combinations(range(len), 2), i.e. the
   first pair (i < j) in lexicographic order whose later core overlaps the earlier extended location is merged
   into position i, position j is deleted, and the search starts again - until no pair is left *)
Fixpoint split_first {A} (p : A -> bool) (l : list A) : option (list A * A * list A) :=
  match l with
  | [] => None
  | y :: r => if p y then Some ([], y, r)
              else match split_first p r with Some (b, z, a) => Some (y :: b, z, a) | None => None end
  end.
Fixpoint ring_merge_once (l : list (proto * loc)) : res (option (list (proto * loc))) :=
  match l with
  | [] => Ok None
  | x :: r =>
    match split_first (fun y : proto * loc => overlap (p_core (fst y)) (snd x)) r with
    | Some (before, y, after) =>
      do m <- merge_pair (fst x) (fst y);
      do ext <- extend_location (p_core m) (r_cut (nth_rule rules (p_rule m))) N circular;
      Ok (Some ((m, ext) :: before ++ after))
    | None => do o <- ring_merge_once r; Ok (match o with Some r' => Some (x :: r') | None => None end)
    end
  end.
(* while merged_any: ...; every round but the last removes one cluster, so len(new_clusters) rounds suffice *)
Fixpoint ring_merge (fuel : nat) (l : list (proto * loc)) : res (list (proto * loc)) :=
  match fuel with
  | O => Ok l
  | S f => do o <- ring_merge_once l; match o with Some l' => ring_merge f l' | None => Ok l end
  end.
(* [key]: the sort key of a (cluster, extended core) pair *)
Definition merge_group (key : proto * loc -> Z) (group : list (proto * loc)) : res (list proto) :=
  match group with
  | [] | [_] => Ok (map fst group)
  | _ =>
    let sorted := sort_by (fun a b => key a <? key b) group in
    do done <- fold_left merge_step sorted (Ok []);
    do kept <- (if circular then ring_merge (length done) (rev done) else Ok (rev done));
    Ok (map fst kept)
  end.
Fixpoint product_order (l : list proto) (seen : list Z) : list Z :=
  match l with
  | [] => rev seen
  | p :: r => if existsb (Z.eqb (p_rule p)) seen then product_order r seen else product_order r (p_rule p :: seen)
  end.
Definition merge_over_origin_protos (key : proto * loc -> Z) (clusters : list proto) : res (list proto) :=
  do pairs <- mapM (fun p => do ext <- extend_location (p_core p) (r_cut (nth_rule rules (p_rule p))) N circular;
                             Ok (p, ext)) clusters;
  do groups <- mapM (fun ri => merge_group key (filter (fun pl : proto * loc => p_rule (fst pl) =? ri) pairs))
                    (product_order clusters []);
  Ok (concat groups).
Definition key_ext_start (pl : proto * loc) : Z := lstart (snd pl).

(* ---------- detect_protoclusters_and_signatures (the protoclusters) ---------- *)
Definition find_protoclusters (a : anchors) : res (list proto) :=
  do cl <- initial_protos a;
  do cl <- mapM extend_proto cl;
  do cl <- remove_redundant cl;
  merge_over_origin_protos key_ext_start cl.

Definition pipeline (cached : bool) : res (list proto) :=
  match gs with
  | [] => Ok []
  | _ =>
    do _ <- mapM (fun g : gene => fkey (snd g)) gs;
    match hs with
    | [] => Ok []
    | _ => do a <- apply_cluster_rules cached; find_protoclusters a
    end
  end.
(* the stage at which the pipeline raises (0 = it does not): 1 apply_cluster_rules, 2 the chain sweep and the
   first protoclusters, 3 apply_extenders, 4 remove_redundant_protoclusters, 5 merge_over_origin,
   6 merge_over_origin when some core entering it is not forward-stranded *)
Definition failing_stage : Z :=
  match gs, hs with
  | [], _ | _, [] => 0
  | _, _ =>
    match apply_cluster_rules true with
    | Err _ => 1
    | Ok a =>
      match initial_protos a with
      | Err _ => 2
      | Ok c1 =>
        match mapM extend_proto c1 with
        | Err _ => 3
        | Ok c2 =>
          match remove_redundant c2 with
          | Err _ => 4
          | Ok c3 => match merge_over_origin_protos key_ext_start c3 with
                     | Err _ => if forallb (fun q => lstrand (p_core q) =? 1) c3 then 5 else 6
                     | Ok _ => 0 end
          end
        end
      end
    end
  end.
End Pipeline.

(* ---------- encoding ---------- *)
Definition dGene : dec gene := dPair dZ dLoc.
Definition dHits : dec hits := dList (dPair dZ (dList (dPair dZ dZ))).
Definition dRuleF (fuel : nat) : dec rule := fun l =>
  match l with
  | c :: nb :: r =>
    match C01.Model.dCond fuel r with
    | Some (cond, r1) =>
      match dOpt (C01.Model.dCond fuel) r1 with
      | Some (ext, r2) =>
        match dList dZ r2 with
        | Some (sup, r3) => Some (mkRule c nb cond ext sup, r3)
        | None => None
        end
      | None => None
      end
    | None => None
    end
  | _ => None
  end.

Fixpoint lex_lt (a b : list Z) : bool :=
  match a, b with
  | [], _ :: _ => true
  | x :: xs, y :: ys => (x <? y) || ((x =? y) && lex_lt xs ys)
  | _, [] => false
  end.
Definition eProto (p : proto) : list Z := p_rule p :: eLoc (p_core p) ++ eLoc (p_sur p).
(* canonical output: the protoclusters as a sorted list of encodings *)
Definition eProtos (r : res (list proto)) : list Z :=
  match r with
  | Ok l => 0 :: eList (fun x => x) (sort_by lex_lt (map eProto l))
  | Err k => [1; k]
  end.
Definition eAnchors (r : res anchors) : list Z :=
  match r with
  | Ok a => 0 :: eList (fun e : Z * list Z => fst e :: eList (fun x => [x]) (C01.Model.sof (snd e)))
                       (sort_by (fun x y : Z * list Z => fst x <? fst y) a)
  | Err k => [1; k]
  end.

Definition dInput (l : list Z) : option (Z * bool * list gene * hits * list rule) :=
  match dPair (dPair (dPair dZ dBool) (dList dGene)) dHits l with
  | Some ((N, circ, gs, hs), r) =>
    match dList (dRuleF (length r)) r with
    | Some (rules, []) => Some (N, circ, gs, hs, rules)
    | _ => None
    end
  | None => None
  end.

Definition run_C03 (fn : Z) (l : list Z) : list Z :=
  match fn with
  | 1 => match dPair dZ (dList dRule) l with
         | Some ((N, rules), []) =>
           eList (fun r : Z * Z * list itv => let '(c, nb, anchors) := r in
                    eList (fun p : Z * Z * Z * Z => let '(a, b, x, y) := p in [a; b; x; y]) (protoclusters N c nb anchors))
                 rules
         | _ => bad_input end
  (* 2: the full pipeline as the code is; 3: the anchoring genes per rule (apply_cluster_rules);
     4: the pipeline with every rule evaluated on freshly computed neighbourhood information
        (specification of the per-cutoff cache) *)
  | 2 => match dInput l with
         | Some (N, circ, gs, hs, rules) => eProtos (pipeline N circ gs hs rules true)
         | None => bad_input end
  | 3 => match dInput l with
         | Some (N, circ, gs, hs, rules) => eAnchors (apply_cluster_rules N circ gs hs rules true)
         | None => bad_input end
  | 4 => match dInput l with
         | Some (N, circ, gs, hs, rules) => eProtos (pipeline N circ gs hs rules false)
         | None => bad_input end
  | 5 => match dInput l with
         | Some (N, circ, gs, hs, rules) => [failing_stage N circ gs hs rules]
         | None => bad_input end
  (* 6: specification of the anchoring genes per rule (whole record, ring distance) *)
  | 6 => match dInput l with
         | Some (N, circ, gs, hs, rules) => eAnchors (anchors_spec N circ gs hs rules)
         | None => bad_input end
  | _ => bad_input
  end.
