(* C03: model of protocluster formation on a linear record for rules without extenders and
   superiors (cluster_prediction.find_protoclusters: the sorted sweep that chains anchoring genes
   closer than the cutoff into cores, and the neighbourhood extension).
   On a linear record Record.connect_locations of single-part locations is the hull
   (C04_connect_line) and Record.extend_location the clipped interval (C04 linear extend), so a
   core is carried as (start, end). *)
From ASV Require Export Base.

Record itv := mkItv { s : Z; e : Z }.

(* Feature.__lt__ for locations that do not cross the origin: (start, length) *)
Definition itv_lt (a b : itv) : bool :=
  (s a <? s b) || ((s a =? s b) && (e a - s a <? e b - s b)).

(* a group of chained genes: hull start, hull end, members newest first *)
Definition group := (Z * Z * list itv)%type.

Section Sweep.
Variable N : Z.        (* record length *)
Variable c : Z.        (* cutoff *)

(* one gene of the sorted list: extend the previous core by the cutoff (clipped to the record)
   and test cds.overlaps_with(dummy) *)
Definition step (gs : list group) (i : itv) : list group :=
  match gs with
  | [] => [(s i, e i, [i])]
  | (cs, he, ms) :: rest =>
    let ds := Z.max 0 (cs - c) in
    let de := Z.min N (he + c) in
    if (s i <? de) && (ds <? e i)
    then (Z.min cs (s i), Z.max he (e i), i :: ms) :: rest
    else (s i, e i, [i]) :: gs
  end.

Definition sweep (l : list itv) : list group := fold_left step l [].
End Sweep.

(* cores oldest first, each with its neighbourhood extension *)
Definition protoclusters (N c nb : Z) (anchors : list itv) : list (Z * Z * Z * Z) :=
  map (fun g : group => let '(cs, he, _) := g in (cs, he, Z.max 0 (cs - nb), Z.min N (he + nb)))
      (rev (sweep N c (sort_by itv_lt anchors))).

Definition dItv : dec itv := fun l => match dPair dZ dZ l with Some ((a, b), r) => Some (mkItv a b, r) | None => None end.
Definition dRule : dec (Z * Z * list itv) := dPair (dPair dZ dZ) (dList dItv).

Definition run_C03 (fn : Z) (l : list Z) : list Z :=
  match fn with
  | 1 => match dPair dZ (dList dRule) l with
         | Some ((N, rules), []) =>
           eList (fun r : Z * Z * list itv => let '(c, nb, anchors) := r in
                    eList (fun p : Z * Z * Z * Z => let '(a, b, x, y) := p in [a; b; x; y]) (protoclusters N c nb anchors))
                 rules
         | _ => bad_input end
  | _ => bad_input
  end.
