(* C03 proofs, ring part 1: the neighbourhood of a protocluster on a circular record
   (_extend_area_location with the (N-len)//2+1 cap and the force_cross_origin midpoint split),
   for a core that is one part or the forward span [s,N)+[0,e) over the origin.
   Built on the C04 closed forms of Record.extend_location / connect_locations. *)
From Coq Require Import Lia ZifyBool.
From ASV.C03 Require Import Model Proofs.
From ASV.C04 Require Import Proofs.

(* ---------- Record.extend_location of a forward single part: the two missing closed forms ---------- *)
(* the end passes the end of the record and the two ends meet or cross: the whole record *)
Lemma extend_ring_single_meet_end p d N :
  wfp N p -> 0 <= d -> 0 <= ps p - d -> N < pe p + d -> ps p - d + N < pe p + d ->
  extend_location [p] d N true = Ok [mkPart 0 N (pst p)].
Proof.
  intros [H0 [Hlt HN]] Hd Hs He Hm. unfold extend_location.
  change (lstrand [p]) with (pst p). rewrite single_rev.
  cbn [last_opt rev app andb ps pe].
  destruct (ps p - d <? 0) eqn:E0; [lia|]. cbn [andb].
  cbn [length merge_ends last_opt rev app tl removelast]. rewrite E0. cbn [andb].
  unfold mkFL. cbn [ps pe pst].
  destruct (pe p <? Z.max 0 (ps p - d)) eqn:E1; [lia|]. cbn [bind last_opt rev app ps pe pst].
  destruct (N <? pe p + d) eqn:E3; [|lia]. cbn [andb].
  destruct (N <? Z.max 0 (ps p - d)) eqn:E4; [lia|]. cbn [bind].
  destruct (Z.min (pe p + d - N) N <? 0) eqn:E5; [lia|].
  cbn [bind removelast app length merge_ends last_opt rev tl].
  assert (Hov : part_overlap (mkPart (Z.max 0 (ps p - d)) N (pst p))
                             (mkPart 0 (Z.min (pe p + d - N) N) (pst p)) = true).
  { unfold part_overlap, in_part. cbn [ps pe]. lia. }
  rewrite Hov. cbn [removelast tl merge_ends last_opt rev app ps pe].
  unfold strand_merge. cbn [pst]. rewrite Z.eqb_refl.
  rewrite Z.min_r by lia. rewrite Z.max_l by lia. reflexivity.
Qed.

(* the two ends meet exactly, past the end of the record: two parts that cover the whole record *)
Lemma extend_ring_single_touch_end p d N :
  wfp N p -> 0 <= d -> 0 < ps p - d -> ps p - d + N = pe p + d ->
  extend_location [p] d N true =
    Ok (order_by_strand (pst p) [mkPart (ps p - d) N (pst p); mkPart 0 (ps p - d) (pst p)]).
Proof.
  intros [H0 [Hlt HN]] Hd Hs Hm. unfold extend_location, order_by_strand.
  change (lstrand [p]) with (pst p). rewrite single_rev.
  cbn [last_opt rev app andb ps pe].
  destruct (ps p - d <? 0) eqn:E0; [lia|]. cbn [andb].
  cbn [length merge_ends last_opt rev app tl removelast]. rewrite E0. cbn [andb].
  unfold mkFL. cbn [ps pe pst].
  destruct (pe p <? Z.max 0 (ps p - d)) eqn:E1; [lia|]. cbn [bind last_opt rev app ps pe pst].
  destruct (N <? pe p + d) eqn:E3; [|lia]. cbn [andb].
  destruct (N <? Z.max 0 (ps p - d)) eqn:E4; [lia|]. cbn [bind].
  destruct (Z.min (pe p + d - N) N <? 0) eqn:E5; [lia|].
  cbn [bind removelast app length merge_ends last_opt rev tl].
  assert (Hov : part_overlap (mkPart (Z.max 0 (ps p - d)) N (pst p))
                             (mkPart 0 (Z.min (pe p + d - N) N) (pst p)) = false).
  { unfold part_overlap, in_part. cbn [ps pe]. lia. }
  rewrite Hov. rewrite Z.max_r by lia. rewrite Z.min_l by lia.
  replace (pe p + d - N) with (ps p - d) by lia. reflexivity.
Qed.

(* ---------- Record.extend_location of the forward span [s,N)+[0,e) over the origin ---------- *)
Definition span2 (N s e : Z) : loc := [mkPart s N 1; mkPart 0 e 1].

Lemma extend_ring_span2 N s e d :
  0 < e -> e <= s -> s < N -> 0 <= d -> 0 <= s - d -> e + d <= N ->
  extend_location (span2 N s e) d N true =
    Ok (if e + d <=? s - d then span2 N (s - d) (e + d) else [mkPart 0 N 1]).
Proof.
  intros He Hes HsN Hd Hs Hed. unfold extend_location, span2.
  change (lstrand [mkPart s N 1; mkPart 0 e 1]) with 1.
  change (1 =? -1) with false. cbn iota.
  cbn [last_opt rev app andb ps pe].
  destruct (s - d <? 0) eqn:E0; [lia|]. cbn [andb].
  assert (Hov0 : part_overlap (mkPart s N 1) (mkPart 0 e 1) = false).
  { unfold part_overlap, in_part. cbn [ps pe]. lia. }
  cbn [length merge_ends last_opt rev app tl removelast]. rewrite Hov0.
  cbn [ps pe pst]. rewrite E0. cbn [andb].
  unfold mkFL. cbn [ps pe pst].
  destruct (N <? Z.max 0 (s - d)) eqn:E1; [lia|]. cbn [bind last_opt rev app ps pe pst].
  destruct (N <? e + d) eqn:E3; [lia|]. cbn [andb].
  destruct (Z.min (e + d) N <? 0) eqn:E4; [lia|].
  cbn [bind removelast app length merge_ends last_opt rev tl].
  rewrite Z.max_r by lia. rewrite Z.min_l by lia.
  destruct (e + d <=? s - d) eqn:E5.
  - assert (Hov : part_overlap (mkPart (s - d) N 1) (mkPart 0 (e + d) 1) = false).
    { unfold part_overlap, in_part. cbn [ps pe]. lia. }
    rewrite Hov. reflexivity.
  - assert (Hov : part_overlap (mkPart (s - d) N 1) (mkPart 0 (e + d) 1) = true).
    { unfold part_overlap, in_part. cbn [ps pe]. lia. }
    rewrite Hov. cbn [removelast tl merge_ends last_opt rev app ps pe].
    unfold strand_merge. cbn [pst]. change (1 =? 1) with true. cbn iota.
    rewrite Z.min_r by lia. rewrite Z.max_l by lia. reflexivity.
Qed.

(* ---------- the forward single part: one closed form for every distance up to N ---------- *)
Definition ext_single (N s e d : Z) : loc :=
  if e - s + 2 * d <? N then
    if s - d <? 0 then span2 N (s - d + N) (e + d)
    else if N <? e + d then span2 N (s - d) (e + d - N)
    else [mkPart (s - d) (e + d) 1]
  else if (e - s + 2 * d =? N) && (0 <? s - d) then span2 N (s - d) (s - d)
  else [mkPart 0 N 1].

Lemma extend_fwd_single N s e d :
  0 <= s -> s < e -> e <= N -> 0 <= d -> d <= N ->
  extend_location [mkPart s e 1] d N true = Ok (ext_single N s e d).
Proof.
  intros H0 H1 H2 Hd HdN. unfold ext_single, span2.
  assert (Hw : wfp N (mkPart s e 1)) by (unfold wfp; cbn [ps pe]; lia).
  destruct (e - s + 2 * d <? N) eqn:E.
  - destruct (s - d <? 0) eqn:E1.
    + rewrite (extend_ring_single_wrap_start _ d N Hw Hd); cbn [ps pe pst]; try lia. reflexivity.
    + destruct (N <? e + d) eqn:E2.
      * rewrite (extend_ring_single_wrap_end _ d N Hw Hd); cbn [ps pe pst]; try lia. reflexivity.
      * rewrite (extend_ring_single_inside _ d N Hw Hd); cbn [ps pe pst]; try lia. reflexivity.
  - destruct ((e - s + 2 * d =? N) && (0 <? s - d)) eqn:E1.
    + rewrite (extend_ring_single_touch_end _ d N Hw Hd); cbn [ps pe pst]; try lia. reflexivity.
    + destruct (s - d <? 0) eqn:E2.
      * rewrite (extend_ring_single_full _ d N Hw Hd); cbn [ps pe pst]; try lia. reflexivity.
      * destruct (N <? e + d) eqn:E3.
        -- rewrite (extend_ring_single_meet_end _ d N Hw Hd); cbn [ps pe pst]; try lia. reflexivity.
        -- rewrite (extend_ring_single_inside _ d N Hw Hd); cbn [ps pe pst]; try lia.
           replace (s - d) with 0 by lia. replace (e + d) with N by lia. reflexivity.
Qed.

(* every one of these results is returned unchanged by connect_locations *)
Lemma connect_span2 N a b : 0 < b -> b <= a -> a < N ->
  connect_locations [span2 N a b] (Some N) = Ok (span2 N a b).
Proof. intros. apply connect_ring_wrapped_idem; lia. Qed.

Lemma connect_ext_single N s e d :
  0 < N -> 0 <= s -> s < e -> e <= N -> 0 <= d -> d <= N ->
  connect_locations [ext_single N s e d] (Some N) = Ok (ext_single N s e d).
Proof.
  intros HN H0 H1 H2 Hd HdN. unfold ext_single.
  destruct (e - s + 2 * d <? N) eqn:E.
  - destruct (s - d <? 0) eqn:E1; [apply connect_span2; lia|].
    destruct (N <? e + d) eqn:E2; [apply connect_span2; lia|].
    apply connect_ring_single; cbn [ps pe]; lia.
  - destruct ((e - s + 2 * d =? N) && (0 <? s - d)) eqn:E1; [apply connect_span2; lia|].
    apply connect_ring_single; cbn [ps pe]; lia.
Qed.

Lemma bridges_span2 N a b : 0 < a -> bridges (span2 N a b) = true.
Proof.
  intro Ha. unfold bridges, span2. cbn [is_compound lstrand forallb pst].
  change (1 =? 1) with true. cbn [andb orb check_order ps].
  change (1 =? 1) with true. cbn iota. destruct (0 <? a) eqn:E; [reflexivity|lia].
Qed.

Lemma ext_single_parts N s e d : zlen (ext_single N s e d) <= 2.
Proof.
  unfold ext_single, span2, zlen.
  repeat match goal with |- context [if ?c then _ else _] => destruct c end; cbn; lia.
Qed.

(* ---------- _extend_area_location of a one-part core (any strand) on a circular record ---------- *)
Definition cap (N len : Z) : Z := (N - len) / 2 + 1.

Lemma cap_le N len : 0 < N -> 0 < len -> len <= N -> 0 < cap N len /\ cap N len <= N /\ N < len + 2 * cap N len.
Proof.
  intros HN Hl HlN. unfold cap.
  assert (Hdiv : N - len = 2 * ((N - len) / 2) + (N - len) mod 2) by (apply Z.div_mod; lia).
  assert (Hmod : 0 <= (N - len) mod 2 < 2) by (apply Z.mod_pos_bound; lia).
  lia.
Qed.

Lemma extend_area_single N p nb force :
  0 < N -> wfp N p -> 0 <= nb ->
  extend_area [p] nb N true force = Ok (ext_single N (ps p) (pe p) (Z.min nb (cap N (pe p - ps p)))).
Proof.
  intros HN [H0 [H1 H2]] Hnb. unfold extend_area.
  change (lstrand [p]) with (pst p). change (zlen [p]) with 1. change (1 =? 1) with true.
  rewrite andb_false_r. cbn [negb]. cbn iota.
  change (is_compound [p]) with false. cbn [andb].
  change (llen [p]) with (pe p - ps p + 0). rewrite Z.add_0_r. fold (cap N (pe p - ps p)).
  cbn [bind]. change (2 <? 1) with false. cbn iota.
  destruct (cap_le N (pe p - ps p) HN ltac:(lia) ltac:(lia)) as (Hc0 & HcN & _).
  set (d := Z.min nb (cap N (pe p - ps p))).
  assert (Hd : 0 <= d /\ d <= N) by (unfold d; lia).
  match goal with |- context [extend_location ?x d N true] => assert (Hf : x = [mkPart (ps p) (pe p) 1]) end.
  { destruct (pst p =? 1) eqn:E.
    - destruct p as [a b c]. cbn [ps pe pst] in *. assert (c = 1) by lia. subst c. reflexivity.
    - unfold make_forwards. change (lstrand [p]) with (pst p). cbn [map]. destruct (pst p =? -1); reflexivity. }
  rewrite Hf. rewrite extend_fwd_single by lia. cbn [bind]. unfold wrap_of.
  rewrite connect_ext_single by lia. cbn [bind].
  rewrite bridges_single. cbn [andb bind].
  pose proof (ext_single_parts N (ps p) (pe p) d) as Hz.
  destruct (2 <? zlen (ext_single N (ps p) (pe p) d)) eqn:Ez; [lia|]. reflexivity.
Qed.

(* ---------- _extend_area_location of the forward span [s,N)+[0,e) over the origin ---------- *)
Definition split_mid (s e : Z) : Z := (s - e) / 2 + e.
Definition ext_span2 (N s e d : Z) (force : bool) : loc :=
  if e + d <=? s - d then span2 N (s - d) (e + d)
  else if force then span2 N (split_mid s e) (split_mid s e - 1)
  else [mkPart 0 N 1].

Lemma llen_span2 N a b : llen (span2 N a b) = N - a + b.
Proof. unfold llen, span2. cbn [fold_right ps pe]. lia. Qed.

Lemma extend_area_span2 N s e nb force :
  0 < e -> e <= s -> s < N -> 0 <= nb ->
  extend_area (span2 N s e) nb N true force = Ok (ext_span2 N s e (Z.min nb (cap N (N - s + e))) force).
Proof.
  intros He Hes HsN Hnb. unfold extend_area.
  rewrite (bridges_span2 N s e) by lia. rewrite llen_span2.
  change (lstrand (span2 N s e)) with 1. change (zlen (span2 N s e)) with 2.
  change (1 =? S_None) with false. change (is_compound (span2 N s e)) with true.
  cbn [andb negb bind]. change (2 <? 2) with false. change (1 =? 1) with true. cbn iota.
  fold (cap N (N - s + e)).
  assert (Hdiv : s - e = 2 * ((s - e) / 2) + (s - e) mod 2) by (apply Z.div_mod; lia).
  assert (Hmod : 0 <= (s - e) mod 2 < 2) by (apply Z.mod_pos_bound; lia).
  assert (Hcap : cap N (N - s + e) = (s - e) / 2 + 1).
  { unfold cap. replace (N - (N - s + e)) with (s - e) by lia. reflexivity. }
  set (d := Z.min nb (cap N (N - s + e))).
  assert (Hd : 0 <= d /\ d <= (s - e) / 2 + 1) by (unfold d; lia).
  rewrite extend_ring_span2 by lia. cbn [bind]. unfold wrap_of, ext_span2.
  destruct (e + d <=? s - d) eqn:E.
  - rewrite connect_span2 by lia. cbn [bind].
    rewrite (bridges_span2 N (s - d) (e + d)) by lia. cbn [negb andb bind].
    rewrite andb_false_r. cbn [andb bind]. reflexivity.
  - rewrite connect_ring_single by (cbn [ps pe]; lia). cbn [bind].
    rewrite bridges_single. change (llen [mkPart 0 N 1]) with (N - 0 + 0).
    replace (N - 0 + 0 =? N) with true by lia. cbn [negb andb].
    destruct force; cbn [bind]; [|reflexivity].
    unfold span2 at 1. cbn [last_opt rev app ps pe]. change (lstrand [mkPart 0 N 1]) with 1.
    fold (split_mid s e). unfold mkFL.
    assert (Hm : e <= split_mid s e <= s) by (unfold split_mid; lia).
    destruct (N <? split_mid s e) eqn:E1; [lia|]. cbn [bind].
    destruct (split_mid s e - 1 <? 0) eqn:E2; [lia|]. cbn [bind]. reflexivity.
Qed.

(* ---------- which bases the extent covers ---------- *)
(* x (a base of the ring, 0 <= x < N) lies in the arc that starts [d] before [lo] and ends [d] after [hi]
   ([hi] is N + e for a core that ends at e after passing the origin) *)
Definition in_extent (N lo hi d x : Z) : Prop :=
  exists k, (k = -1 \/ k = 0 \/ k = 1) /\ lo - d <= x + k * N < hi + d.

Lemma in_extent_iff N lo hi d x :
  in_extent N lo hi d x <->
  (lo - d <= x - N < hi + d) \/ (lo - d <= x < hi + d) \/ (lo - d <= x + N < hi + d).
Proof.
  unfold in_extent. split.
  - intros [k [[-> | [-> | ->]] H]]; lia.
  - intros [H | [H | H]]; [exists (-1)|exists 0|exists 1]; lia.
Qed.

Lemma base_single a b st x : base_of [mkPart a b st] x <-> a <= x < b.
Proof.
  unfold base_of. split.
  - intros [q [[<-|[]] H]]. exact H.
  - intro H. eexists. split; [left; reflexivity|exact H].
Qed.

Lemma base_span2 N a b x : base_of (span2 N a b) x <-> (a <= x < N \/ 0 <= x < b).
Proof.
  unfold base_of, span2. split.
  - intros [q [[<-|[<-|[]]] H]]; cbn [ps pe] in H; lia.
  - intros [H|H]; [exists (mkPart a N 1)|exists (mkPart 0 b 1)]; (split; [|exact H]); [left|right; left]; reflexivity.
Qed.

Lemma ext_single_bases N s e d : 0 < N -> 0 <= s -> s < e -> e <= N -> 0 <= d -> d <= cap N (e - s) ->
  forall x, 0 <= x < N -> (base_of (ext_single N s e d) x <-> in_extent N s e d x).
Proof.
  intros HN H0 H1 H2 Hd Hc x Hx. rewrite in_extent_iff.
  assert (Hdiv : N - (e - s) = 2 * ((N - (e - s)) / 2) + (N - (e - s)) mod 2) by (apply Z.div_mod; lia).
  assert (Hmod : 0 <= (N - (e - s)) mod 2 < 2) by (apply Z.mod_pos_bound; lia).
  unfold cap in Hc. unfold ext_single.
  destruct (e - s + 2 * d <? N) eqn:E.
  - destruct (s - d <? 0) eqn:E1; [rewrite base_span2; lia|].
    destruct (N <? e + d) eqn:E2; [rewrite base_span2; lia|].
    rewrite base_single. lia.
  - destruct ((e - s + 2 * d =? N) && (0 <? s - d)) eqn:E1; [rewrite base_span2; lia|].
    rewrite base_single. lia.
Qed.

Lemma ext_single_span N s e d : 0 < N -> 0 <= s -> s < e -> e <= N -> 0 <= d -> d <= cap N (e - s) ->
  is_span N (ext_single N s e d).
Proof.
  intros HN H0 H1 H2 Hd Hc.
  assert (Hdiv : N - (e - s) = 2 * ((N - (e - s)) / 2) + (N - (e - s)) mod 2) by (apply Z.div_mod; lia).
  assert (Hmod : 0 <= (N - (e - s)) mod 2 < 2) by (apply Z.mod_pos_bound; lia).
  unfold cap in Hc. unfold ext_single, is_span, span2.
  destruct (e - s + 2 * d <? N) eqn:E.
  - destruct (s - d <? 0) eqn:E1; [right; eexists; eexists; split; [reflexivity|cbn [ps pe]; lia]|].
    destruct (N <? e + d) eqn:E2; [right; eexists; eexists; split; [reflexivity|cbn [ps pe]; lia]|].
    left. eexists. split; [reflexivity|cbn [ps pe]; lia].
  - destruct ((e - s + 2 * d =? N) && (0 <? s - d)) eqn:E1; [right; eexists; eexists; split; [reflexivity|cbn [ps pe]; lia]|].
    left. eexists. split; [reflexivity|cbn [ps pe]; lia].
Qed.

(* the cores find_protoclusters produces on a circular record: one part inside the record (any strand), or
   the forward span over the origin that connect_locations returns *)
Definition ring_core (N : Z) (l : loc) : Prop :=
  (exists p, l = [p] /\ wfp N p) \/ (exists s e, l = span2 N s e /\ 0 < e /\ e <= s /\ s < N).
Definition core_lo (l : loc) : Z := match l with p :: _ => ps p | [] => 0 end.
Definition core_hi (N : Z) (l : loc) : Z := match l with [p] => pe p | [_; q] => N + pe q | _ => 0 end.
(* the distance actually applied: the neighbourhood, capped so that both sides together just fill the record *)
Definition nb_dist (N : Z) (l : loc) (nb : Z) : Z := Z.min nb (cap N (llen l)).
(* the force_cross_origin midpoint split happens: the core passes the origin and the extension fills the record *)
Definition split_case (N : Z) (l : loc) (nb : Z) (force : bool) : Prop :=
  force = true /\ exists s e, l = span2 N s e /\ s - e < 2 * nb_dist N l nb.

Lemma neighbourhood_ring N l nb force : 0 < N -> 0 <= nb -> ring_core N l ->
  let d := nb_dist N l nb in
  exists r, extend_area l nb N true force = Ok r /\
    (~ split_case N l nb force ->
       is_span N r /\
       (forall x, base_of l x -> base_of r x) /\
       (forall x, 0 <= x < N -> (base_of r x <-> in_extent N (core_lo l) (core_hi N l) d x))) /\
    (split_case N l nb force ->
       let mid := split_mid (core_lo l) (core_hi N l - N) in
       r = span2 N mid (mid - 1) /\
       (forall x, 0 <= x < N -> in_extent N (core_lo l) (core_hi N l) d x) /\
       (forall x, 0 <= x < N -> (base_of r x <-> x <> mid - 1)) /\
       (2 <= core_lo l - (core_hi N l - N) -> is_span N r /\ forall x, base_of l x -> base_of r x)).
Proof.
  intros HN Hnb [[p [-> Hw]] | [s [e [-> [He [Hes HsN]]]]]] d.
  - (* one part *)
    pose proof Hw as [H0 [H1 H2]].
    assert (Hl : llen [p] = pe p - ps p) by (unfold llen; cbn [fold_right]; lia).
    subst d. unfold nb_dist. rewrite Hl. set (d := Z.min nb (cap N (pe p - ps p))).
    destruct (cap_le N (pe p - ps p) HN ltac:(lia) ltac:(lia)) as (Hc0 & HcN & _).
    assert (Hd : 0 <= d /\ d <= cap N (pe p - ps p)) by (unfold d; lia).
    eexists. split; [apply extend_area_single; assumption|]. fold d. split.
    + intros _. split; [apply ext_single_span; lia|].
      cbn [core_lo core_hi].
      assert (Hb : forall x, 0 <= x < N -> (base_of (ext_single N (ps p) (pe p) d) x <-> in_extent N (ps p) (pe p) d x))
        by (apply ext_single_bases; lia).
      split; [|exact Hb].
      intros x [q [[<-|[]] Hq]]. apply Hb; [lia|]. exists 0. split; [auto|lia].
    + intros [_ [s [e [Heq _]]]]. discriminate Heq.
  - (* the forward span over the origin *)
    assert (Hdiv : s - e = 2 * ((s - e) / 2) + (s - e) mod 2) by (apply Z.div_mod; lia).
    assert (Hmod : 0 <= (s - e) mod 2 < 2) by (apply Z.mod_pos_bound; lia).
    subst d. unfold nb_dist. rewrite llen_span2. set (d := Z.min nb (cap N (N - s + e))).
    assert (Hcap : cap N (N - s + e) = (s - e) / 2 + 1).
    { unfold cap. replace (N - (N - s + e)) with (s - e) by lia. reflexivity. }
    assert (Hd : 0 <= d /\ d <= (s - e) / 2 + 1) by (unfold d; lia).
    eexists. split; [apply extend_area_span2; assumption|]. fold d.
    cbn [core_lo core_hi span2 ps pe]. replace (N + e - N) with e by lia.
    assert (Hsplit : split_case N (span2 N s e) nb force <-> force = true /\ s - e < 2 * d).
    { unfold split_case, nb_dist. rewrite llen_span2. fold d. split.
      - intros [Hf [s' [e' [Heq Hlt]]]]. unfold span2 in Heq. inversion Heq; subst s' e'. split; assumption.
      - intros [Hf Hlt]. split; [exact Hf|]. exists s, e. split; [reflexivity|exact Hlt]. }
    fold (span2 N s e). split.
    + intro Hns. unfold ext_span2.
      assert (Hcase : (e + d <=? s - d) = true \/ ((e + d <=? s - d) = false /\ force = false)).
      { destruct (e + d <=? s - d) eqn:E; [left; reflexivity|right]. split; [reflexivity|].
        destruct force; [|reflexivity]. exfalso. apply Hns. apply Hsplit. split; [reflexivity|lia]. }
      destruct Hcase as [E | [E Ef]]; rewrite E; [|rewrite Ef].
      * split; [right; eexists; eexists; split; [reflexivity|cbn [ps pe]; lia]|].
        split.
        -- intros x Hx. apply base_span2 in Hx. apply base_span2. lia.
        -- intros x Hx. rewrite base_span2, in_extent_iff. lia.
      * split; [left; eexists; split; [reflexivity|cbn [ps pe]; lia]|].
        split.
        -- intros x Hx. apply base_span2 in Hx. apply base_single. lia.
        -- intros x Hx. rewrite base_single, in_extent_iff. lia.
    + intro Hs. apply Hsplit in Hs. destruct Hs as [-> Hlt]. unfold ext_span2.
      destruct (e + d <=? s - d) eqn:E; [lia|].
      assert (Hm : e <= split_mid s e <= s) by (unfold split_mid; lia).
      split; [reflexivity|]. split; [intros x Hx; rewrite in_extent_iff; lia|].
      split; [intros x Hx; rewrite base_span2; lia|].
      intro H2. assert (Hm2 : e + 1 <= split_mid s e) by (unfold split_mid; lia).
      split; [right; eexists; eexists; split; [reflexivity|cbn [ps pe]; lia]|].
      intros x Hx. apply base_span2 in Hx. apply base_span2. lia.
Qed.

(* ====================================================================================
   The chain sweep of find_protoclusters on a circular record = the linear sweep, as long as no gene is
   within the cutoff of the current core across the origin
   ==================================================================================== *)
Lemma ext_single_wf N s e d : 0 < N -> 0 <= s -> s < e -> e <= N -> 0 <= d -> d <= cap N (e - s) ->
  Forall wf_part (ext_single N s e d).
Proof.
  intros HN H0 H1 H2 Hd Hc.
  destruct (ext_single_span N s e d HN H0 H1 H2 Hd Hc) as [[p [-> Hp]] | [p [q [-> Hp]]]].
  - constructor; [unfold wf_part; lia|constructor].
  - constructor; [unfold wf_part; lia|]. constructor; [unfold wf_part; lia|constructor].
Qed.

Lemma mk_feature_span N r : is_span N r -> mk_feature r = Ok r.
Proof.
  intros [[p [-> Hp]] | [p [q [-> Hp]]]]; unfold mk_feature.
  - change (is_compound [p]) with false. cbn [andb].
    unfold lend, lstart. cbn [map lmin lmax fold_left].
    destruct (pe p <? ps p) eqn:E; [lia|]. destruct (ps p <? 0) eqn:E2; [lia|]. reflexivity.
  - change (is_compound [p; q]) with true. cbn [andb map nodupZ existsb].
    destruct (pe p =? pe q) eqn:E; [lia|]. cbn [orb negb andb].
    unfold lend, lstart. cbn [map lmin lmax fold_left].
    destruct (Z.max (pe p) (pe q) <? Z.min (ps p) (ps q)) eqn:E1; [lia|].
    destruct (Z.min (ps p) (ps q) <? 0) eqn:E2; [lia|]. reflexivity.
Qed.

Lemma llen_ext_single N s e d : 0 < N -> 0 <= s -> s < e -> e <= N -> 0 <= d -> d <= cap N (e - s) ->
  e - s <= llen (ext_single N s e d).
Proof.
  intros HN H0 H1 H2 Hd Hc. unfold ext_single.
  repeat match goal with |- context [if ?c then _ else _] => destruct c eqn:? end;
    rewrite ?llen_span2; unfold llen; cbn [fold_right ps pe]; lia.
Qed.

(* cds.overlaps_with(dummy): a gene that starts at or after the core's start and is not within the cutoff of
   the core across the origin overlaps the cutoff-extended core iff it starts before core end + cutoff *)
Lemma overlap_dummy N c cs he g :
  0 < N -> 0 <= c -> 0 <= cs -> cs < he -> he <= N -> wfp N g -> cs <= ps g -> pe g + c <= cs + N ->
  overlap [g] (ext_single N cs he (Z.min c (cap N (he - cs)))) = (ps g <? he + c).
Proof.
  intros HN Hc H0 H1 H2 [Hg0 [Hg1 Hg2]] Hle Hfar.
  destruct (cap_le N (he - cs) HN ltac:(lia) ltac:(lia)) as (Hc0 & HcN & Hfull).
  set (d := Z.min c (cap N (he - cs))) in *.
  assert (Hd : 0 <= d /\ d <= cap N (he - cs)) by (unfold d; lia).
  assert (Hdc : d = c \/ (d = cap N (he - cs) /\ d < c)) by (unfold d; lia).
  assert (Hb : forall x, 0 <= x < N -> (base_of (ext_single N cs he d) x <-> in_extent N cs he d x))
    by (apply ext_single_bases; lia).
  assert (Hwf : Forall wf_part (ext_single N cs he d)) by (apply ext_single_wf; lia).
  assert (Hwg : Forall wf_part [g]) by (constructor; [unfold wf_part; lia|constructor]).
  pose proof (overlap_spec [g] (ext_single N cs he d) Hwg Hwf) as Hov.
  destruct (ps g <? he + c) eqn:E.
  - apply Hov. exists (ps g). split; [exists g; split; [left; reflexivity|lia]|].
    apply Hb; [lia|]. apply in_extent_iff. clear Hov Hb Hwf Hwg. lia.
  - destruct (overlap [g] (ext_single N cs he d)) eqn:Eo; [|reflexivity]. exfalso.
    destruct Hov as [Hov _]. destruct (Hov eq_refl) as [x [[q [[<-|[]] Hq]] Hx]].
    apply Hb in Hx; [|lia]. apply in_extent_iff in Hx. clear Hov Hb Hwf Hwg. lia.
Qed.

Definition join_strand (a b : Z) : Z := if a =? b then a else S_None.

(* record.connect_locations([previous.location, cds.location]) under the same conditions: the linear hull *)
Lemma connect_join N c cs he st g :
  0 < N -> 0 <= c -> wfp N (mkPart cs he st) -> wfp N g -> cs <= ps g -> pe g + c <= cs + N ->
  ps g < he + c ->
  connect_locations [[mkPart cs he st]; [g]] (Some N) =
    Ok [mkPart cs (Z.max he (pe g)) (join_strand st (pst g))].
Proof.
  intros HN Hc Hp Hg Hle Hfar Hnear. pose proof Hp as [P0 [P1 P2]]. pose proof Hg as [G0 [G1 G2]].
  cbn [ps pe] in P0, P1, P2.
  assert (Hdiv : N = 2 * (N / 2) + N mod 2) by (apply Z.div_mod; lia).
  assert (Hmod : 0 <= N mod 2 < 2) by (apply Z.mod_pos_bound; lia).
  assert (Hord : ordered (mkPart cs he st) g \/ (ps g = cs /\ pe g < he)).
  { unfold ordered. cbn [ps pe]. lia. }
  destruct Hord as [Ho | [He1 He2]].
  - destruct (connect_ring_pair N _ g HN Hp Hg Ho) as [Hc1 _]. eapply eq_trans; [exact Hc1|].
    unfold pair_result. cbn [ps pe].
    destruct (N / 2 <? ps g - he) eqn:E; [lia|]. unfold hull_pair, join_strand. cbn [ps pe pst]. reflexivity.
  - assert (Ho : ordered g (mkPart cs he st)) by (unfold ordered; cbn [ps pe]; lia).
    destruct (connect_ring_pair N g _ HN Hg Hp Ho) as [_ Hc1]. eapply eq_trans; [exact Hc1|].
    unfold pair_result. cbn [ps pe].
    destruct (N / 2 <? cs - pe g) eqn:E; [lia|]. unfold hull_pair, join_strand. cbn [ps pe pst].
    rewrite He1. rewrite (Z.max_comm (pe g) he). rewrite (Z.eqb_sym (pst g) st).
    destruct (st =? pst g) eqn:E2; [|reflexivity]. assert (st = pst g) by lia. subst st. reflexivity.
Qed.

Lemma new_core N g : 0 < N -> wfp N g ->
  (do c <- connect_locations [[g]] (Some N); do c <- mk_feature c; Ok [c]) = Ok [[g]].
Proof.
  intros HN [G0 [G1 G2]]. rewrite connect_ring_single by lia. cbn [bind].
  rewrite (mk_feature_span N [g]) by (left; eexists; split; [reflexivity|lia]). reflexivity.
Qed.

(* one step of the sweep: previous core [cs,he), next gene g in sorted order *)
Lemma sweep_step_ring N c cs he st g rest :
  0 < N -> 0 <= c -> wfp N (mkPart cs he st) -> wfp N g -> cs <= ps g -> pe g + c <= cs + N ->
  sweep_step N true c (Ok ([mkPart cs he st] :: rest)) [g] =
    if ps g <? he + c then Ok ([mkPart cs (Z.max he (pe g)) (join_strand st (pst g))] :: rest)
    else Ok ([g] :: [mkPart cs he st] :: rest).
Proof.
  intros HN Hc Hp Hg Hle Hfar. pose proof Hp as [P0 [P1 P2]]. pose proof Hg as [G0 [G1 G2]].
  cbn [ps pe] in P0, P1, P2.
  unfold sweep_step. cbn [bind].
  rewrite (extend_area_single N _ c false HN Hp Hc). cbn [ps pe bind].
  destruct (cap_le N (he - cs) HN ltac:(lia) ltac:(lia)) as (Hc0 & HcN & _).
  set (d := Z.min c (cap N (he - cs))).
  assert (Hd : 0 <= d /\ d <= cap N (he - cs)) by (unfold d; lia).
  rewrite (mk_feature_span N) by (apply ext_single_span; lia). cbn [bind].
  pose proof (llen_ext_single N cs he d HN P0 P1 P2 ltac:(lia) ltac:(lia)) as Hl.
  change (llen [mkPart cs he st]) with (he - cs + 0).
  destruct (llen (ext_single N cs he d) <? he - cs + 0) eqn:El; [lia|].
  unfold d. rewrite (overlap_dummy N c cs he g) by assumption.
  destruct (ps g <? he + c) eqn:E.
  - unfold wrap_of. pose proof (connect_join N c cs he st g HN Hc Hp Hg Hle Hfar ltac:(lia)) as Hj.
    unfold loc in *. rewrite Hj. reflexivity.
  - unfold wrap_of. pose proof (connect_ring_single N g HN G1) as Hj. unfold loc in *. rewrite Hj. cbn [bind].
    rewrite (mk_feature_span N [g]) by (left; eexists; split; [reflexivity|lia]). reflexivity.
Qed.

(* ---------- the whole sweep ---------- *)
Definition itv_of (p : part) : itv := mkItv (ps p) (pe p).
(* a core of the location model and a group of the interval model: same hull, one part *)
Definition core_rel (core : loc) (g : group) : Prop :=
  exists st, core = [mkPart (fst (core_of g)) (snd (core_of g)) st].

(* decidable guard, evaluated along the sweep: no gene is within the cutoff of the core it is compared with
   (the newest one) across the origin: gene end + cutoff <= core start + N *)
Fixpoint far_ok (N c : Z) (gs : list group) (l : list itv) : bool :=
  match l with
  | [] => true
  | i :: r =>
    (match gs with [] => true | (cs, _, _) :: _ => e i + c <=? cs + N end) && far_ok N c (step N c gs i) r
  end.

Lemma sweep_ring_acc N c : 0 < N -> 0 <= c -> forall l groups cores lo,
  inv N c lo groups -> Forall2 core_rel cores groups ->
  Forall (wfp N) l -> Forall (fun p => lo <= ps p) l -> sortedS (map itv_of l) ->
  far_ok N c groups (map itv_of l) = true ->
  exists cores', fold_left (sweep_step N true c) (map (fun p => [p]) l) (Ok cores) = Ok cores' /\
                 Forall2 core_rel cores' (fold_left (step N c) (map itv_of l) groups).
Proof.
  intros HN Hc. induction l as [|g l IH]; intros groups cores lo Hinv Hrel Hwf Hlo Hsorted Hfar.
  - exists cores. split; [reflexivity|exact Hrel].
  - cbn [map fold_left]. inversion Hwf as [|? ? Hwg Hwl]; subst. inversion Hlo as [|? ? Hlg Hll]; subst.
    cbn [map sortedS] in Hsorted. destruct Hsorted as [Hfirst Hsorted].
    cbn [map far_ok] in Hfar. apply andb_true_iff in Hfar. destruct Hfar as [Hfar1 Hfar].
    assert (Hwi : wf N (itv_of g)) by (destruct Hwg as [? [? ?]]; unfold wf, itv_of; cbn [s e]; lia).
    assert (Hinv' : inv N c (s (itv_of g)) (step N c groups (itv_of g))).
    { apply step_inv with lo; [exact Hc|exact Hinv|exact Hwi|cbn [itv_of s]; exact Hlg]. }
    assert (Hlo' : Forall (fun p => s (itv_of g) <= ps p) l).
    { cbn [itv_of s]. rewrite Forall_forall in *. intros p Hp. specialize (Hfirst (itv_of p) (in_map itv_of _ _ Hp)).
      cbn [itv_of s] in Hfirst. exact Hfirst. }
    assert (Hstep : exists cores1, sweep_step N true c (Ok cores) [g] = Ok cores1 /\
                                   Forall2 core_rel cores1 (step N c groups (itv_of g))).
    { destruct Hrel as [|core [[cs he] ms] crest grest Hcore Hrest].
      - exists [[g]]. split; [unfold sweep_step; cbn [bind]; apply (new_core N g HN Hwg)|].
        cbn [step]. constructor; [|constructor]. exists (pst g). cbn [core_of fst snd itv_of s e]. destruct g; reflexivity.
      - destruct Hcore as [st Hcore]. cbn [core_of fst snd] in Hcore. subst core.
        destruct Hinv as [Hg _]. inversion Hg as [|? ? Hg1 _]; subst.
        destruct Hg1 as (_ & Hall & (mx & Hmx & Hmxe) & (mn & Hmn & Hmns) & _).
        destruct (Hall mx Hmx) as ((X0 & X1 & X2) & _ & _ & X3).
        destruct (Hall mn Hmn) as ((Y0 & Y1 & Y2) & _ & Y3 & _).
        assert (Hp : wfp N (mkPart cs he st)) by (unfold wfp; cbn [ps pe]; lia).
        assert (Hle : cs <= ps g) by lia.
        assert (Hf : pe g + c <= cs + N) by (cbn [itv_of e] in Hfar1; lia).
        pose proof (sweep_step_ring N c cs he st g crest HN Hc Hp Hwg Hle Hf) as Hss.
        cbn [step itv_of s e].
        assert (Htest : (ps g <? Z.min N (he + c)) && (Z.max 0 (cs - c) <? pe g) = (ps g <? he + c)).
        { destruct Hwg as [? [? ?]]. clear - H H0 H1 Hle Y0 Hc. lia. }
        rewrite Htest. destruct (ps g <? he + c) eqn:E.
        + eexists. split; [exact Hss|]. constructor; [|exact Hrest].
          exists (join_strand st (pst g)). cbn [core_of fst snd]. rewrite Z.min_l by lia. reflexivity.
        + eexists. split; [exact Hss|]. constructor; [|constructor; [|exact Hrest]].
          * exists (pst g). cbn [core_of fst snd]. destruct g; reflexivity.
          * exists st. reflexivity. }
    destruct Hstep as [cores1 [Hs1 Hrel1]]. unfold loc in *. rewrite Hs1.
    apply (IH _ _ (s (itv_of g))); assumption.
Qed.

(* the sweep of find_protoclusters over the sorted one-part anchors of a rule on a circular record *)
Lemma sweep_ring N c l : 0 < N -> 0 <= c -> Forall (wfp N) l -> sortedS (map itv_of l) ->
  far_ok N c [] (map itv_of l) = true ->
  exists cores, fold_left (sweep_step N true c) (map (fun p => [p]) l) (Ok []) = Ok cores /\
                Forall2 core_rel cores (sweep N c (map itv_of l)).
Proof.
  intros HN Hc Hwf Hsorted Hfar. unfold sweep.
  destruct l as [|g l]; [exists []; split; [reflexivity|constructor]|].
  apply (sweep_ring_acc N c HN Hc (g :: l) [] [] (ps g)); try assumption.
  - split; [constructor|exact I].
  - constructor.
  - cbn [map sortedS] in Hsorted. destruct Hsorted as [Hf _]. constructor; [lia|].
    rewrite Forall_forall in *. intros p Hp. specialize (Hf (itv_of p) (in_map itv_of _ _ Hp)). exact Hf.
Qed.

(* ====================================================================================
   The proximity graph on the ring, for the chains the sweep returns
   ==================================================================================== *)
(* closer than the cutoff on a ring of length N: on the line, or through the origin one way or the other *)
Definition ring_near (N c : Z) (a b : itv) : Prop :=
  near c a b \/ s a + N - e b < c \/ s b + N - e a < c.

(* g' was formed before g (the list of groups is newest first) *)
Definition older (g' g : group) (gs : list group) : Prop :=
  exists l1 l2, gs = l1 ++ g :: l2 /\ In g' l2.

Lemma sep_older c : forall l1 g l2 g' m, sep c (l1 ++ g :: l2) -> In g' l2 -> In m (members g) ->
  snd (core_of g') + c <= s m.
Proof.
  induction l1 as [|x l1 IH]; intros g l2 g' m Hs Hin Hm.
  - cbn [app] in Hs. destruct g as [[cs he] ms]. destruct Hs as [Hs _].
    destruct g' as [[cs' he'] ms']. cbn [core_of snd members] in *. eapply Hs; eassumption.
  - cbn [app] in Hs. destruct x as [[cs he] ms]. destruct Hs as [_ Hs]. eapply IH; eassumption.
Qed.

(* two anchors of the sweep's groups that are within the cutoff through the origin: the one before the origin
   (b) lies in the newest group, the one after it (a) in the oldest, and these two groups' hulls are within the
   cutoff of each other through the origin *)
Lemma wrap_near_ends N c lo gs : 0 <= c -> inv N c lo gs ->
  forall g1 g2 a b, In g1 gs -> In g2 gs -> In a (members g1) -> In b (members g2) ->
  s a + N - e b < c ->
  (forall g', ~ older g' g1 gs) /\ (forall g', ~ older g2 g' gs) /\
  fst (core_of g1) + N - snd (core_of g2) < c.
Proof.
  intros Hc [Hg Hs] g1 g2 a b H1 H2 Ha Hb Hnear. rewrite Forall_forall in Hg.
  pose proof (Hg _ H1) as G1. pose proof (Hg _ H2) as G2.
  destruct g1 as [[cs1 he1] ms1]. destruct g2 as [[cs2 he2] ms2]. cbn [members core_of fst snd] in *.
  destruct G1 as (_ & Hall1 & _). destruct G2 as (_ & Hall2 & _).
  destruct (Hall1 a Ha) as ((A0 & A1 & A2) & A3 & _ & A4).
  destruct (Hall2 b Hb) as ((B0 & B1 & B2) & B3 & _ & B4).
  split; [|split].
  - intros g' (l1 & l2 & -> & Hin).
    pose proof (sep_older c l1 (cs1, he1, ms1) l2 g' a Hs Hin Ha) as Hold.
    assert (Hg' : In g' (l1 ++ (cs1, he1, ms1) :: l2)) by (apply in_or_app; right; right; exact Hin).
    pose proof (Hg _ Hg') as G'. destruct g' as [[cs' he'] ms']. cbn [core_of snd] in Hold.
    destruct G' as (_ & Hall' & (mx & Hmx & Hmxe) & _). destruct (Hall' mx Hmx) as ((? & ? & ?) & _). lia.
  - intros g' (l1 & l2 & -> & Hin).
    assert (Hg' : In g' (l1 ++ g' :: l2)) by (apply in_or_app; right; left; reflexivity).
    pose proof (Hg _ Hg') as G'. destruct g' as [[cs' he'] ms'].
    destruct G' as (Hne & Hall' & _). destruct ms' as [|m ms']; [congruence|].
    pose proof (sep_older c l1 (cs', he', m :: ms') l2 (cs2, he2, ms2) m Hs Hin (or_introl eq_refl)) as Hold.
    cbn [core_of snd] in Hold. destruct (Hall' m (or_introl eq_refl)) as ((? & ? & ?) & _). lia.
  - lia.
Qed.

(* conversely, hulls within the cutoff through the origin are witnessed by two members *)
Lemma wrap_near_members N c lo gs : inv N c lo gs -> forall g1 g2, In g1 gs -> In g2 gs ->
  fst (core_of g1) + N - snd (core_of g2) < c ->
  exists a b, In a (members g1) /\ In b (members g2) /\ s a + N - e b < c.
Proof.
  intros [Hg _] g1 g2 H1 H2 Hn. rewrite Forall_forall in Hg.
  pose proof (Hg _ H1) as G1. pose proof (Hg _ H2) as G2.
  destruct g1 as [[cs1 he1] ms1]. destruct g2 as [[cs2 he2] ms2]. cbn [members core_of fst snd] in *.
  destruct G1 as (_ & _ & _ & (mn & Hmn & Hmns) & _). destruct G2 as (_ & _ & (mx & Hmx & Hmxe) & _).
  exists mn, mx. repeat split; try assumption. lia.
Qed.

(* ---------- a rule without EXTENDERS and SUPERIORS: the later stages keep every core ---------- *)
Lemma grow_nil N circular core : grow N circular core [] = Ok core.
Proof. reflexivity. Qed.

Lemma extend_proto_no_ext N circular gs hs rules p q :
  r_ext (nth_rule rules (p_rule p)) = None ->
  extend_proto N circular gs hs rules p = Ok q -> p_rule q = p_rule p /\ p_core q = p_core p.
Proof.
  intros Hn H. unfold extend_proto in H.
  destruct (within gs (p_core p) false) as [|first wrest]; [discriminate H|].
  destruct (last_opt (first :: wrest)) as [last|]; [|discriminate H].
  rewrite !(extenders_none N circular hs _ _ _ _ Hn) in H. cbn [grow fold_left bind] in H.
  rewrite (extenders_none N circular hs _ _ _ _ Hn) in H. cbn [grow fold_left bind] in H.
  destruct (negb (contains (p_core p) (p_core p))); [discriminate H|].
  unbind H. inversion H. split; reflexivity.
Qed.

Lemma is_redundant_no_sup gs rules all p b :
  r_sup (nth_rule rules (p_rule p)) = [] -> is_redundant gs rules all p = Ok b -> b = false.
Proof.
  intros Hn H. unfold is_redundant in H. rewrite Hn in H.
  destruct (first_last gs (p_core p)) as [fl|k]; cbn [bind red_outer] in H; [|discriminate H].
  inversion H. reflexivity.
Qed.

(* ---------- the statement about the sweep on a circular record ---------- *)
Lemma wfp_wf N l : Forall (wfp N) l -> Forall (wf N) (map itv_of l).
Proof.
  intro H. rewrite Forall_forall in *. intros i Hi. apply in_map_iff in Hi. destruct Hi as [p [<- Hp]].
  destruct (H p Hp) as [? [? ?]]. unfold wf, itv_of. cbn [s e]. lia.
Qed.

Lemma chain_ring_sweep N c l : 0 < N -> 0 <= c -> Forall (wfp N) l -> sortedS (map itv_of l) ->
  far_ok N c [] (map itv_of l) = true ->
  let its := map itv_of l in
  let gs := sweep N c its in
  exists cores,
    (* the loop of find_protoclusters returns one single-part core per group: its hull *)
    fold_left (sweep_step N true c) (map (fun p => [p]) l) (Ok []) = Ok cores /\
    Forall2 core_rel cores gs /\
    (* every anchor in exactly one group *)
    Permutation.Permutation its (flatten gs) /\
    (* groups: non-empty, tight hull, connected through pairs closer than the cutoff *)
    (forall g, In g gs ->
       members g <> [] /\
       (forall m, In m (members g) -> fst (core_of g) <= s m /\ e m <= snd (core_of g)) /\
       (exists m, In m (members g) /\ s m = fst (core_of g)) /\
       (exists m, In m (members g) /\ e m = snd (core_of g)) /\
       (forall a b, In a (members g) -> In b (members g) -> conn c (members g) a b)) /\
    (* members of different groups are never closer than the cutoff on the line, and through the origin only
       when one lies in the oldest (first) and the other in the newest (last) group and these two groups'
       hulls are closer than the cutoff through the origin: the pair merge_over_origin has to join *)
    (forall g1 g2 a b, In g1 gs -> In g2 gs -> g1 <> g2 -> In a (members g1) -> In b (members g2) ->
       ring_near N c a b ->
       ((forall g', ~ older g' g1 gs) /\ (forall g', ~ older g2 g' gs) /\
        fst (core_of g1) + N - snd (core_of g2) < c) \/
       ((forall g', ~ older g' g2 gs) /\ (forall g', ~ older g1 g' gs) /\
        fst (core_of g2) + N - snd (core_of g1) < c)).
Proof.
  intros HN Hc Hwf Hsorted Hfar its gs.
  destruct (sweep_ring N c l HN Hc Hwf Hsorted Hfar) as [cores [Hfold Hrel]].
  destruct (chain_sorted N c its its Hc (wfp_wf N l Hwf) (Permutation.Permutation_refl _) Hsorted)
    as (Hperm & Hgroups & Hsep & [lo Hinv]).
  exists cores. split; [exact Hfold|]. split; [exact Hrel|]. split; [exact Hperm|]. split; [exact Hgroups|].
  intros g1 g2 a b H1 H2 Hne Ha Hb [Hn | [Hn | Hn]].
  - exfalso. exact (Hsep g1 g2 a b H1 H2 Hne Ha Hb Hn).
  - left. exact (wrap_near_ends N c lo _ Hc Hinv g1 g2 a b H1 H2 Ha Hb Hn).
  - right. exact (wrap_near_ends N c lo _ Hc Hinv g2 g1 b a H2 H1 Hb Ha Hn).
Qed.
