(* C03 proofs about merge_over_origin (cluster_prediction.py 644-709) on the groups it really gets: the
   "linear chains" of one rule on a circular record - single-part cores in ascending order, each at least
   the cutoff after the one before.
   (C1) first and last chain at least the cutoff apart across the origin: nothing is merged;
   (C2) first and last chain within the cutoff across the origin (the origin being the short way): exactly
        these two are merged into the span over the origin, everything between them is returned unchanged;
   (C3) a group of one cluster is returned unchanged. *)
From Coq Require Import Lia ZifyBool Sorting.Permutation.
From ASV.C03 Require Import Model Proofs ProofsRing ProofsMerge.
From ASV.C04 Require Import Proofs.

(* ---------- generic list helpers ---------- *)
Lemma Forall2_in_r {A B} (R : A -> B -> Prop) : forall l l' y,
  Forall2 R l l' -> In y l' -> exists x, In x l /\ R x y.
Proof.
  intros l l' y H. induction H as [|a b l l' Hab H IH]; intro Hin; [destruct Hin|].
  destruct Hin as [<-|Hin].
  - exists a. split; [left; reflexivity|exact Hab].
  - destruct (IH Hin) as [x [Hx Hr]]. exists x. split; [right; exact Hx|exact Hr].
Qed.

Lemma Forall2_impl_l {A B} (P : A -> Prop) (R R' : A -> B -> Prop) :
  (forall a b, P a -> R a b -> R' a b) ->
  forall l l', Forall P l -> Forall2 R l l' -> Forall2 R' l l'.
Proof.
  intros Himp l l' HP H. revert HP. induction H as [|a b l l' Hab H IH]; intro HP; [constructor|].
  inversion HP; subst. constructor; [apply Himp; assumption|apply IH; assumption].
Qed.

Lemma Forall2_Forall_r {A B} (P : A -> Prop) (Q : B -> Prop) (R : A -> B -> Prop) :
  (forall a b, P a -> R a b -> Q b) ->
  forall l l', Forall P l -> Forall2 R l l' -> Forall Q l'.
Proof.
  intros Himp l l' HP H. revert HP. induction H as [|a b l l' Hab H IH]; intro HP; [constructor|].
  inversion HP; subst. constructor; [eapply Himp; eassumption|apply IH; assumption].
Qed.

(* a relation that holds between any two different positions of a list, in both directions *)
Fixpoint all_pairs {A} (R : A -> A -> Prop) (l : list A) : Prop :=
  match l with
  | [] => True
  | x :: r => Forall (fun y => R x y /\ R y x) r /\ all_pairs R r
  end.

Lemma all_pairs_perm {A} (R : A -> A -> Prop) l l' :
  Permutation l l' -> all_pairs R l -> all_pairs R l'.
Proof.
  induction 1 as [|x l l' Hp IH|x y l|l l' l'' H1 IH1 H2 IH2]; intro H.
  - exact I.
  - destruct H as [Hx Hr]. split; [|apply IH; exact Hr].
    rewrite Forall_forall in *. intros z Hz. apply Hx.
    eapply Permutation_in; [apply Permutation_sym; exact Hp|exact Hz].
  - destruct H as [Hy [Hx Hr]]. inversion Hy as [|? ? [Hyx Hxy] Hyl]; subst.
    split; [constructor; [split; assumption|exact Hx]|]. split; assumption.
  - apply IH2, IH1, H.
Qed.

Lemma all_pairs_adjacent {A} (R : A -> A -> Prop) : forall l, all_pairs R l -> adjacent_all R l.
Proof.
  induction l as [|a t IH]; intro H; [exact I|]. destruct t as [|b t']; [exact I|].
  destruct H as [Ha Hr]. split; [|apply IH; exact Hr].
  inversion Ha as [|? ? [Hab _] _]. exact Hab.
Qed.

(* ---------- the stable insertion sort on the shapes that occur ---------- *)
Section SortShape.
Context {A : Type}.
Variable key : A -> Z.
Notation lt := (fun a b : A => key a <? key b).

Lemma insert_by_last (x : A) : forall acc,
  Forall (fun y => key y <= key x) acc -> insert_by lt x acc = acc ++ [x].
Proof.
  induction acc as [|a acc IH]; intro H; cbn [insert_by app]; [reflexivity|].
  inversion H as [|? ? Ha Hr]; subst.
  destruct (key x <? key a) eqn:E; [apply Z.ltb_lt in E; lia|].
  rewrite IH by exact Hr. reflexivity.
Qed.

Lemma sorted_app_forall (x : A) l : forall acc,
  sorted_by_key key (acc ++ x :: l) -> Forall (fun y => key y <= key x) acc.
Proof.
  induction acc as [|a acc IH]; intro H; [constructor|].
  cbn [app sorted_by_key] in H. destruct H as [Ha Hs]. constructor; [|apply IH; exact Hs].
  rewrite Forall_forall in Ha. apply Ha. apply in_elt.
Qed.

Lemma sort_fold_sorted : forall l acc,
  sorted_by_key key (acc ++ l) ->
  fold_left (fun acc x => insert_by lt x acc) l acc = acc ++ l.
Proof.
  induction l as [|x l IH]; intros acc H; cbn [fold_left].
  - rewrite app_nil_r. reflexivity.
  - rewrite insert_by_last by (eapply sorted_app_forall; exact H).
    rewrite IH; rewrite <- app_assoc; [reflexivity|exact H].
Qed.

(* a list already in non-decreasing key order stays as it is *)
Lemma sort_by_sorted_id l : sorted_by_key key l -> sort_by lt l = l.
Proof. intro H. unfold sort_by. apply (sort_fold_sorted l []). exact H. Qed.

Lemma sort_by_app_last l z : sort_by lt (l ++ [z]) = insert_by lt z (sort_by lt l).
Proof. unfold sort_by. rewrite fold_left_app. reflexivity. Qed.

Lemma insert_by_front x l : Forall (fun y => key x < key y) l -> insert_by lt x l = x :: l.
Proof.
  destruct l as [|y l]; intro H; [reflexivity|]. cbn [insert_by].
  inversion H as [|? ? Hy _]; subst. apply Z.ltb_lt in Hy. rewrite Hy. reflexivity.
Qed.

(* [x1; mid...; xk] with key x1 = key xk = 0 < keys of mid (ascending): xk moves behind x1 *)
Lemma sort_zero_shape x1 mid xk :
  key x1 = 0 -> key xk = 0 -> Forall (fun y => 0 < key y) mid -> sorted_by_key key mid ->
  sort_by lt (x1 :: mid ++ [xk]) = x1 :: xk :: mid.
Proof.
  intros H1 Hk Hpos Hs. change (x1 :: mid ++ [xk]) with ((x1 :: mid) ++ [xk]).
  rewrite sort_by_app_last. rewrite sort_by_sorted_id.
  - cbn [insert_by]. rewrite H1, Hk. change (0 <? 0) with false. cbn iota.
    rewrite insert_by_front; [reflexivity|].
    eapply Forall_impl; [|exact Hpos]. cbn beta. intros y Hy. rewrite Hk. exact Hy.
  - cbn [sorted_by_key]. split; [|exact Hs].
    eapply Forall_impl; [|exact Hpos]. cbn beta. intros y Hy. rewrite H1. apply Z.lt_le_incl. exact Hy.
Qed.
End SortShape.

Lemma merge_group_two N circular rules key a t : t <> [] ->
  merge_group N circular rules key (a :: t) =
  (do done <- fold_left (merge_step N circular rules) (sort_by (fun x y => key x <? key y) (a :: t)) (Ok []);
   do kept <- (if circular then ring_merge N circular rules (length done) (rev done) else Ok (rev done));
   Ok (map fst kept)).
Proof. intro H. destruct t as [|b t]; [congruence|reflexivity]. Qed.

Lemma all_pairs_fwd_apart : forall l, all_pairs apart l -> fwd_apart l.
Proof.
  induction l as [|x r IH]; intro H; [exact I|]. destruct H as [Hx Hr]. split; [|apply IH; exact Hr].
  eapply Forall_impl; [|exact Hx]. cbn beta. intros y [Hy _]. exact Hy.
Qed.

(* ---------- chains of one rule on a circular record ---------- *)
Section Chains.
Variable N : Z.
Variable rules : list rule.
Variable ri : Z.
Variable c : Z.                       (* the cutoff of rule ri *)
Hypothesis Hcut : r_cut (nth_rule rules ri) = c.
Hypothesis HN : 0 < N.
Hypothesis Hc : 0 <= c.

Notation mgroup := (merge_group N true rules key_ext_start).
Notation klt := (fun a b : proto * loc => key_ext_start a <? key_ext_start b).

(* a core inside the record, short enough for the closed forms of Record.extend_location *)
Definition good (q : part) : Prop := wfp N q /\ pe q - ps q + 2 * c < N.
(* ascending, each at least the cutoff after the one before *)
Fixpoint separated (qs : list part) : Prop :=
  match qs with
  | a :: ((b :: _) as t) => pe a + c <= ps b /\ separated t
  | _ => True
  end.
Fixpoint sep_all (qs : list part) : Prop :=
  match qs with
  | [] => True
  | a :: t => Forall (fun b => pe a + c <= ps b) t /\ sep_all t
  end.
(* what merge_over_origin_protos pairs the cluster of core [q] with *)
Definition chain_pair (q : part) (pl : proto * loc) : Prop :=
  p_rule (fst pl) = ri /\ p_core (fst pl) = [q] /\ extend_location [q] c N true = Ok (snd pl).

Lemma separated_sep_all : forall qs, Forall good qs -> separated qs -> sep_all qs.
Proof.
  induction qs as [|a t IH]; intros Hg Hs; [exact I|].
  inversion Hg as [|? ? Hga Hgt]; subst.
  destruct t as [|b t']; [split; [constructor|exact I]|].
  destruct Hs as [Hab Hs]. pose proof (IH Hgt Hs) as Hall. split; [|exact Hall].
  destruct Hall as [Hb _]. inversion Hgt as [|? ? [(Hb0 & Hb1 & Hb2) _] _]; subst.
  constructor; [exact Hab|].
  eapply Forall_impl; [|exact Hb]. cbn beta. intros y Hy. clear - Hab Hb1 Hy Hc. lia.
Qed.

Lemma sep_all_app : forall l1 l2, sep_all (l1 ++ l2) -> sep_all l1 /\ sep_all l2.
Proof.
  induction l1 as [|a l1 IH]; intros l2 H; [split; [exact I|exact H]|].
  cbn [app sep_all] in H. destruct H as [Ha Hs]. destruct (IH l2 Hs) as [H1 H2].
  apply Forall_app in Ha. destruct Ha as [Ha _]. split; [split; assumption|exact H2].
Qed.

Lemma sep_all_last : forall l z, sep_all (l ++ [z]) -> Forall (fun a => pe a + c <= ps z) l.
Proof.
  induction l as [|a l IH]; intros z H; [constructor|].
  cbn [app sep_all] in H. destruct H as [Ha Hs]. constructor; [|apply IH; exact Hs].
  rewrite Forall_forall in Ha. apply Ha. apply in_or_app. right. left. reflexivity.
Qed.

(* any two different clusters of a chain group whose gaps across the origin are at least the cutoff:
   neither core overlaps the other's cutoff-extended core *)
Lemma chain_all_pairs : forall qs pairs,
  Forall good qs -> sep_all qs ->
  (forall a b, In a qs -> In b qs -> c <= ps a + N - pe b) ->
  Forall2 chain_pair qs pairs -> all_pairs apart pairs.
Proof.
  intros qs pairs Hg Hs Hfar H. revert Hg Hs Hfar.
  induction H as [|q x qs pairs Hqx H IH]; intros Hg Hs Hfar; [exact I|].
  inversion Hg as [|? ? Hgq Hgr]; subst. destruct Hs as [Hsq Hsr].
  split.
  - rewrite Forall_forall. intros y Hy.
    destruct (Forall2_in_r _ _ _ _ H Hy) as [q' [Hq' Hqy]].
    rewrite Forall_forall in Hsq, Hgr. pose proof (Hsq q' Hq') as Hsep. pose proof (Hgr q' Hq') as Hgq'.
    pose proof (Hfar q q' (or_introl eq_refl) (or_intror Hq')) as Hf.
    destruct Hqx as (_ & Hcx & Hex). destruct Hqy as (_ & Hcy & Hey).
    destruct Hgq as [Hwq Hlq]. destruct Hgq' as [Hwq' Hlq'].
    assert (G : pe q <= ps q' /\ c <= ps q' - pe q /\ c <= ps q + N - pe q').
    { clear - Hsep Hf Hc. lia. }
    unfold apart. split.
    + rewrite Hcy. apply (far_no_overlap_gap N q q' c (snd x) Hwq Hwq' Hc Hlq Hex). left. exact G.
    + rewrite Hcx. apply (far_no_overlap_gap N q' q c (snd y) Hwq' Hwq Hc Hlq' Hey). right. exact G.
  - apply IH; try assumption. intros a b Ha Hb. apply Hfar; right; assumption.
Qed.

(* first and last at least the cutoff apart across the origin: so is every pair *)
Lemma far_first_last q1 mid qk :
  Forall good (q1 :: mid ++ [qk]) -> sep_all (q1 :: mid ++ [qk]) ->
  c <= ps q1 + N - pe qk ->
  forall a b, In a (q1 :: mid ++ [qk]) -> In b (q1 :: mid ++ [qk]) -> c <= ps a + N - pe b.
Proof.
  intros Hg Hs Hfar a b Ha Hb.
  assert (H1 : ps q1 <= ps a).
  { destruct Ha as [<-|Ha]; [apply Z.le_refl|]. destruct Hs as [Hs1 _].
    rewrite Forall_forall in Hs1. pose proof (Hs1 a Ha) as Hsa.
    inversion Hg as [|? ? [(H0 & H1 & H2) _] _]; subst. clear - Hsa H1 Hc. lia. }
  assert (H2 : pe b <= pe qk).
  { change (q1 :: mid ++ [qk]) with ((q1 :: mid) ++ [qk]) in Hb, Hs, Hg.
    apply in_app_or in Hb. destruct Hb as [Hb|[<-|[]]]; [|apply Z.le_refl].
    pose proof (sep_all_last _ _ Hs) as Hl. rewrite Forall_forall in Hl. pose proof (Hl b Hb) as Hsb.
    rewrite Forall_forall in Hg.
    assert (Hk : good qk) by (apply Hg; apply in_or_app; right; left; reflexivity).
    destruct Hk as [(H0 & H1' & H2') _]. clear - Hsb H1' Hc. lia. }
  clear - H1 H2 Hfar. lia.
Qed.

(* ---------- (C1) nothing is merged ---------- *)
Lemma merge_chains_far_pairs q1 mid qk pairs :
  Forall good (q1 :: mid ++ [qk]) -> separated (q1 :: mid ++ [qk]) ->
  Forall2 chain_pair (q1 :: mid ++ [qk]) pairs ->
  c <= ps q1 + N - pe qk ->
  mgroup pairs = Ok (map fst (sort_by klt pairs)) /\
  Permutation (map fst pairs) (map fst (sort_by klt pairs)).
Proof.
  intros Hg Hs H2 Hfar. split; [|apply Permutation_map; apply sort_perm].
  assert (Hall : all_pairs apart (sort_by klt pairs)).
  { eapply all_pairs_perm; [apply sort_perm|].
    pose proof (separated_sep_all _ Hg Hs) as Hsa.
    eapply chain_all_pairs; [exact Hg|exact Hsa| |exact H2].
    apply far_first_last; assumption. }
  apply merge_group_unchanged_adj; [apply all_pairs_adjacent; exact Hall|].
  intros _. apply all_pairs_fwd_apart. exact Hall.
Qed.

(* ---------- the pairs built by merge_over_origin_protos ---------- *)
Lemma pairs_of_protos : forall protos qs pairs,
  map p_core protos = map (fun q => [q]) qs ->
  Forall (fun P => p_rule P = ri) protos ->
  mapM (with_ext N true rules) protos = Ok pairs ->
  Forall2 chain_pair qs pairs /\ map fst pairs = protos.
Proof.
  intros protos qs pairs Hcore Hrule Hm. split; [|eapply mapM_with_ext_fst; exact Hm].
  revert qs pairs Hcore Hrule Hm.
  induction protos as [|P protos IH]; intros qs pairs Hcore Hrule Hm.
  - destruct qs; [|discriminate Hcore]. cbn [mapM] in Hm. inversion Hm. constructor.
  - destruct qs as [|q qs]; [discriminate Hcore|]. cbn [map] in Hcore.
    injection Hcore as HcP Hcr. inversion Hrule as [|? ? HrP Hrr]; subst.
    cbn [mapM] in Hm.
    destruct (with_ext N true rules P) as [pl|k] eqn:Ep; cbn [bind] in Hm; [|discriminate Hm].
    destruct (mapM (with_ext N true rules) protos) as [ps'|k] eqn:Em; cbn [bind] in Hm; [|discriminate Hm].
    inversion Hm; subst pairs. constructor; [|apply IH; [exact Hcr|exact Hrr|reflexivity]].
    unfold with_ext in Ep. rewrite HcP, HrP, Hcut in Ep.
    destruct (extend_location [q] c N true) as [ext|k] eqn:Ee; cbn [bind] in Ep; [|discriminate Ep].
    inversion Ep; subst pl. unfold chain_pair. cbn [fst snd]. split; [exact HrP|]. split; [exact HcP|exact Ee].
Qed.

Theorem merge_chains_far protos qs q1 mid qk pairs :
  qs = q1 :: mid ++ [qk] ->
  map p_core protos = map (fun q => [q]) qs ->
  Forall (fun P => p_rule P = ri) protos ->
  Forall good qs -> separated qs ->
  mapM (with_ext N true rules) protos = Ok pairs ->
  c <= ps q1 + N - pe qk ->
  mgroup pairs = Ok (map fst (sort_by klt pairs)) /\
  Permutation protos (map fst (sort_by klt pairs)).
Proof.
  intros -> Hcore Hrule Hg Hs Hm Hfar.
  destruct (pairs_of_protos _ _ _ Hcore Hrule Hm) as [H2 Hfst].
  destruct (merge_chains_far_pairs q1 mid qk pairs Hg Hs H2 Hfar) as [R1 R2].
  split; [exact R1|]. rewrite <- Hfst at 1. exact R2.
Qed.

(* ---------- (C3) one cluster ---------- *)
Theorem merge_chains_single P pairs :
  mapM (with_ext N true rules) [P] = Ok pairs -> mgroup pairs = Ok [P].
Proof.
  intro Hm. pose proof (mapM_with_ext_fst _ _ _ _ _ Hm) as Hfst.
  rewrite merge_group_small.
  - rewrite Hfst. reflexivity.
  - rewrite <- (map_length fst), Hfst. apply le_n.
Qed.

(* ---------- (C2) the keys ---------- *)
Lemma key_first q x : good q -> ps q - c < 0 -> chain_pair q x ->
  key_ext_start x = 0 /\
  (snd x = [mkPart (ps q - c + N) N (pst q); mkPart 0 (pe q + c) (pst q)] \/
   snd x = [mkPart 0 (pe q + c) (pst q); mkPart (ps q - c + N) N (pst q)]).
Proof.
  intros [Hw Hl] Hs (_ & _ & He).
  rewrite (extend_ring_single_wrap_start q c N Hw Hc Hs) in He by (clear - Hl; lia).
  inversion He as [He']. clear He. unfold key_ext_start, order_by_strand. rewrite <- He'. unfold order_by_strand. destruct Hw as (W0 & W1 & W2).
  destruct (pst q =? -1); cbn [rev app lstart map lmin fold_left ps]; (split; [clear - Hl Hc W0 W1; lia|]);
    [right|left]; reflexivity.
Qed.

Lemma key_last q x : good q -> 0 <= ps q - c -> N < pe q + c -> chain_pair q x ->
  key_ext_start x = 0.
Proof.
  intros [Hw Hl] Hs He' (_ & _ & He).
  rewrite (extend_ring_single_wrap_end q c N Hw Hc Hs He') in He by (clear - Hl; lia).
  inversion He as [He'']. clear He. unfold key_ext_start. rewrite <- He''. unfold order_by_strand.
  destruct (pst q =? -1); cbn [rev app lstart map lmin fold_left ps]; clear - Hs; lia.
Qed.

Definition mid_pair (q : part) (y : proto * loc) : Prop :=
  p_core (fst y) = [q] /\ snd y = [mkPart (ps q - c) (pe q + c) (pst q)].

Lemma chain_mid q y : good q /\ 0 <= ps q - c /\ pe q + c <= N -> chain_pair q y -> mid_pair q y.
Proof.
  intros ([Hw Hl] & Hs & He') (_ & Hcore & He).
  rewrite (extend_ring_single_inside q c N Hw Hc Hs He') in He. inversion He as [He''].
  split; [exact Hcore|symmetry; exact He''].
Qed.

Lemma mid_key q y : mid_pair q y -> key_ext_start y = ps q - c.
Proof. intros [_ Hy]. unfold key_ext_start. rewrite Hy. reflexivity. Qed.

Lemma mid_sorted : forall mid xmid,
  Forall2 mid_pair mid xmid -> sep_all mid -> Forall (fun q => ps q < pe q) mid ->
  sorted_by_key key_ext_start xmid.
Proof.
  intros mid xmid H. induction H as [|q y mid xmid Hqy H IH]; intros Hs Hw; [exact I|].
  destruct Hs as [Hsq Hsr]. inversion Hw as [|? ? Hwq Hwr]; subst.
  split; [|apply IH; assumption].
  rewrite Forall_forall. intros y' Hy'.
  destruct (Forall2_in_r _ _ _ _ H Hy') as [q' [Hq' Hqy']].
  rewrite Forall_forall in Hsq. pose proof (Hsq q' Hq') as Hsep.
  rewrite (mid_key _ _ Hqy), (mid_key _ _ Hqy'). clear - Hsep Hwq Hc. lia.
Qed.

Lemma mid_pos : forall mid xmid,
  Forall2 mid_pair mid xmid -> Forall (fun q => 0 < ps q - c) mid ->
  Forall (fun y => 0 < key_ext_start y) xmid.
Proof.
  intros mid xmid H Hp.
  eapply (Forall2_Forall_r (fun q => 0 < ps q - c) _ mid_pair); [|exact Hp|exact H].
  intros q y Hq Hqy. rewrite (mid_key _ _ Hqy). exact Hq.
Qed.

(* ---------- (C2) the overlaps ---------- *)
(* the last core reaches into the part of the first one's extension that lies before the origin *)
Lemma near_overlap q1 qk x1 :
  good q1 -> wfp N qk -> ps q1 - c < 0 -> ps q1 + N - pe qk < c ->
  chain_pair q1 x1 -> overlap [qk] (snd x1) = true.
Proof.
  intros Hg (Hk0 & Hk1 & Hk2) Hs Hnear Hx.
  assert (Hpo : forall st, part_overlap qk (mkPart (ps q1 - c + N) N st) = true).
  { intro st. unfold part_overlap, in_part. cbn [ps pe]. clear - Hk0 Hk1 Hk2 Hnear. lia. }
  destruct (key_first q1 x1 Hg Hs Hx) as [_ [-> | ->]]; unfold overlap; cbn [existsb]; rewrite Hpo.
  - reflexivity.
  - cbn [orb]. rewrite orb_true_r. reflexivity.
Qed.

(* a core strictly between the two extended ends of the span over the origin does not overlap it *)
Lemma span_no_overlap q s e :
  ps q < pe q -> 0 < e -> e <= ps q -> pe q <= s -> s < N ->
  overlap [q] (span2 N s e) = false.
Proof.
  intros H1 H0 H2 H3 H4.
  assert (Ha : part_overlap q (mkPart s N 1) = false).
  { unfold part_overlap, in_part. cbn [ps pe]. lia. }
  assert (Hb : part_overlap q (mkPart 0 e 1) = false).
  { unfold part_overlap, in_part. cbn [ps pe]. lia. }
  unfold overlap, span2. cbn [existsb]. rewrite Ha, Hb. reflexivity.
Qed.

(* ---------- (C2) first and last merged over the origin, the rest unchanged ---------- *)
Lemma merge_chains_near_pairs q1 mid qk x1 xmid xk res :
  Forall good (q1 :: mid ++ [qk]) -> separated (q1 :: mid ++ [qk]) ->
  chain_pair q1 x1 -> Forall2 chain_pair mid xmid -> chain_pair qk xk ->
  ps q1 + N - pe qk < c ->
  N / 2 < ps qk - pe q1 ->
  mgroup (x1 :: xmid ++ [xk]) = Ok res ->
  exists m, res = m :: map fst xmid /\ p_rule m = ri /\ p_core m = span2 N (ps qk) (pe q1).
Proof.
  intros Hg Hsep Hx1 Hxm Hxk Hnear Hshort H.
  pose proof (separated_sep_all _ Hg Hsep) as Hsa.
  (* the facts about the positions *)
  inversion Hg as [|? ? Hg1 Hgr]; subst. apply Forall_app in Hgr. destruct Hgr as [Hgm Hgk].
  inversion Hgk as [|? ? Hgk' _]; subst. clear Hgk.
  destruct Hsa as [Hs1 Hsr]. apply Forall_app in Hs1. destruct Hs1 as [Hs1m Hs1k].
  inversion Hs1k as [|? ? Hs1k' _]; subst. clear Hs1k.
  pose proof (sep_all_last _ _ Hsr) as Hslast. apply sep_all_app in Hsr. destruct Hsr as [Hsm _].
  pose proof Hg1 as [(A0 & A1 & A2) Al]. pose proof Hgk' as [(K0 & K1 & K2) Kl].
  assert (Hs1 : ps q1 - c < 0) by (clear - Hnear K2; lia).
  assert (Hsk : 0 <= ps qk - c) by (clear - Hs1k' A0 A1; lia).
  assert (Hek : N < pe qk + c) by (clear - Hnear A0; lia).
  (* the middle ones are extended inside the record *)
  assert (Hmidb : Forall (fun q => good q /\ 0 <= ps q - c /\ pe q + c <= N) mid).
  { rewrite Forall_forall in *. intros q Hq. pose proof (Hs1m q Hq) as B1. pose proof (Hslast q Hq) as B2.
    split; [apply Hgm; exact Hq|]. clear - B1 B2 A0 A1 K1 K2. lia. }
  pose proof (Forall2_impl_l _ _ _ chain_mid _ _ Hmidb Hxm) as Hmp.
  assert (Hmw : Forall (fun q => ps q < pe q) mid).
  { eapply Forall_impl; [|exact Hgm]. cbn beta. intros q [(_ & Hq & _) _]. exact Hq. }
  assert (Hmpos : Forall (fun q => 0 < ps q - c) mid).
  { eapply Forall_impl; [|exact Hs1m]. cbn beta. intros q Hq. clear - Hq A0 A1. lia. }
  (* the sorted order *)
  assert (Hsort : sort_by klt (x1 :: xmid ++ [xk]) = x1 :: xk :: xmid).
  { apply (sort_zero_shape key_ext_start).
    - exact (proj1 (key_first q1 x1 Hg1 Hs1 Hx1)).
    - exact (key_last qk xk Hgk' Hsk Hek Hxk).
    - exact (mid_pos _ _ Hmp Hmpos).
    - exact (mid_sorted _ _ Hmp Hsm Hmw). }
  rewrite merge_group_two in H by (destruct xmid; discriminate).
  rewrite Hsort in H. cbn [fold_left] in H.
  change (merge_step N true rules (Ok []) x1) with (@Ok (list (proto * loc)) [x1]) in H.
  (* the second step merges *)
  pose proof (near_overlap q1 qk x1 Hg1 (conj K0 (conj K1 K2)) Hs1 Hnear Hx1) as Hov.
  destruct x1 as [P1 e1]. destruct Hx1 as (Hr1 & Hc1 & He1). cbn [fst snd] in Hr1, Hc1, He1, Hov.
  destruct Hxk as (Hrk & Hck & Hek').
  destruct (merge_step N true rules (Ok [(P1, e1)]) xk) as [d2|k] eqn:E2;
    [|rewrite fold_merge_err in H; discriminate H].
  rewrite <- Hck in Hov.
  destruct (merge_step_overlap_shape N true rules P1 e1 [] xk d2 Hov E2) as (m & ext & -> & Hrm & Hconn & Hext).
  rewrite Hr1 in Hrm. rewrite Hr1, Hcut in Hext. rewrite Hc1, Hck in Hconn.
  change (wrap_of N true) with (Some N) in Hconn.
  assert (Hord : ordered q1 qk) by (left; clear - Hs1k' A1 Hc; lia).
  destruct (connect_ring_pair N q1 qk HN (conj A0 (conj A1 A2)) (conj K0 (conj K1 K2)) Hord) as [Hpair _].
  assert (Hconn' : Ok (pair_result N q1 qk) = Ok (p_core m)) by (rewrite <- Hpair; exact Hconn).
  clear Hconn. rename Hconn' into Hconn. unfold pair_result in Hconn.
  destruct (N / 2 <? ps qk - pe q1) eqn:Eg; [|apply Z.ltb_ge in Eg; clear - Eg Hshort; lia].
  inversion Hconn as [Hcm]. clear Hconn. unfold wrapped_pair in Hcm. fold (span2 N (ps qk) (pe q1)) in Hcm.
  exists m. split; [|split; [exact Hrm|symmetry; exact Hcm]].
  destruct xmid as [|y xmid'].
  - cbn [fold_left bind length rev app] in H.
    rewrite (ring_merge_apart N true rules 1 [(m, ext)]) in H by (split; [constructor|exact I]).
    cbn [bind] in H. inversion H. reflexivity.
  - (* the extension of the merged core stops short of every core in between, on both sides *)
    assert (Hfa' : Forall (apart (m, span2 N (ps qk - c) (pe q1 + c))) (y :: xmid')).
    { rewrite Forall_forall. intros y' Hy'.
      destruct (Forall2_in_r _ _ _ _ Hxm Hy') as [q' [Hq' (_ & Hcy & _)]].
      rewrite Forall_forall in Hs1m, Hslast, Hmw.
      pose proof (Hs1m q' Hq') as B1. pose proof (Hslast q' Hq') as B2. pose proof (Hmw q' Hq') as B3.
      unfold apart. cbn [snd]. rewrite Hcy.
      apply span_no_overlap; clear - B1 B2 B3 K1 K2 A0 A1 Hc; lia. }
    inversion Hxm as [|q2 ? mid' ? Hq2y Hxm']; subst.
    inversion Hs1m as [|? ? B1 _]; subst. inversion Hslast as [|? ? B2 _]; subst.
    inversion Hmw as [|? ? B3 _]; subst.
    rewrite <- Hcm in Hext.
    rewrite (extend_ring_span2 N (ps qk) (pe q1) c) in Hext
      by (clear - A0 A1 K1 K2 Hs1k' Hc Hsk; lia).
    destruct (pe q1 + c <=? ps qk - c) eqn:Et; [|clear - Et B1 B2 B3; lia].
    inversion Hext as [Hext']. clear Hext. rewrite <- Hext' in H.
    assert (Hmids : all_pairs apart (y :: xmid')).
    { apply (chain_all_pairs (q2 :: mid')); [exact Hgm|exact Hsm| |exact Hxm].
      intros a b Ha Hb. rewrite Forall_forall in Hmidb.
      destruct (Hmidb a Ha) as (_ & Ba & _). destruct (Hmidb b Hb) as (_ & _ & Bb).
      clear - Ba Bb Hc. lia. }
    assert (Hadj : adjacent_all apart ((m, span2 N (ps qk - c) (pe q1 + c)) :: y :: xmid')).
    { split.
      - exact (Forall_inv Hfa').
      - apply all_pairs_adjacent. exact Hmids. }
    rewrite (fold_merge_apart N true rules _ _ [] Hadj) in H. cbn [bind] in H.
    rewrite !rev_app_distr, rev_involutive in H. cbn [rev app] in H.
    rewrite (ring_merge_apart N true rules _ ((m, span2 N (ps qk - c) (pe q1 + c)) :: y :: xmid')) in H
      by (split; [exact Hfa'|apply all_pairs_fwd_apart; exact Hmids]).
    cbn [bind] in H. inversion H. reflexivity.
Qed.

Lemma chain_cores : forall mid xmid, Forall2 chain_pair mid xmid ->
  map p_core (map fst xmid) = map (fun q => [q]) mid.
Proof.
  intros mid xmid H. induction H as [|q y mid xmid (_ & Hy & _) H IH]; [reflexivity|].
  cbn [map]. rewrite Hy, IH. reflexivity.
Qed.

Theorem merge_chains_near protos P1 pmid Pk qs q1 mid qk pairs res :
  protos = P1 :: pmid ++ [Pk] ->
  qs = q1 :: mid ++ [qk] ->
  map p_core protos = map (fun q => [q]) qs ->
  Forall (fun P => p_rule P = ri) protos ->
  Forall good qs -> separated qs ->
  mapM (with_ext N true rules) protos = Ok pairs ->
  ps q1 + N - pe qk < c ->
  N / 2 < ps qk - pe q1 ->
  mgroup pairs = Ok res ->
  exists m,
    res = m :: pmid /\ p_rule m = ri /\ p_core m = span2 N (ps qk) (pe q1) /\
    map p_core res = span2 N (ps qk) (pe q1) :: map (fun q => [q]) mid /\
    Forall (fun P => p_rule P = ri) res.
Proof.
  intros -> -> Hcore Hrule Hg Hs Hm Hnear Hshort H.
  destruct (pairs_of_protos _ _ _ Hcore Hrule Hm) as [H2 Hfst].
  inversion H2 as [|? x1 ? rest Hx1 Hrest]; subst.
  apply Forall2_app_inv_l in Hrest. destruct Hrest as (xmid & l2 & Hxm & Hl2 & ->).
  inversion Hl2 as [|? xk ? l3 Hxk Hl3]; subst. inversion Hl3; subst. clear Hl2 Hl3.
  cbn [map] in Hfst. rewrite map_app in Hfst. cbn [map] in Hfst.
  injection Hfst as _ Htail. apply app_inj_tail in Htail. destruct Htail as [Hpm _].
  destruct (merge_chains_near_pairs q1 mid qk x1 xmid xk res Hg Hs Hx1 Hxm Hxk Hnear Hshort H)
    as (m & -> & Hrm & Hcm).
  exists m. rewrite Hpm. split; [reflexivity|]. split; [exact Hrm|]. split; [exact Hcm|]. split.
  - cbn [map]. rewrite Hcm. rewrite <- Hpm. rewrite (chain_cores _ _ Hxm). reflexivity.
  - constructor; [exact Hrm|]. inversion Hrule as [|? ? _ Hr]; subst.
    apply Forall_app in Hr. exact (proj1 Hr).
Qed.
End Chains.

Print Assumptions merge_chains_far.
Print Assumptions merge_chains_near.
Print Assumptions merge_chains_single.
Print Assumptions merge_chains_far_pairs.
Print Assumptions merge_chains_near_pairs.

(* ====================================================================================
   Third pass: two statements of the property that were false of the code (findings C03-K7, C03-K8) and hold of
   the repaired code; one that is still false (C03-K9)
   ==================================================================================== *)

(* C03-K8 anchor_window_full_record, repaired: circular_origin is the record length for every gene and every cutoff on
   a circular record (and 0 on a linear one), whatever shape the cutoff window has *)
Lemma gene_info_origin N circular gs g cutoff i :
  gene_info N circular gs g cutoff = Ok i -> snd i = if circular then N else 0.
Proof.
  unfold gene_info. intro H.
  destruct (connect_locations [snd g] (wrap_of N circular)) as [l|k]; cbn [bind] in H; [|discriminate H].
  destruct (2 <? zlen l); [discriminate H|].
  destruct (extend_area l cutoff N circular false) as [l'|k]; cbn [bind] in H; [|discriminate H].
  inversion H. reflexivity.
Qed.

(* the witness of the finding: a circular record of 4000 bases, cutoff 2000, rule "p0 and p1", gene 0 [100:200) with
   p0, gene 1 [3800:3900) with p1, 300 apart over the origin.  The cutoff window of either gene covers the whole record
   (one part); both genes are anchoring genes now, as under the specification anchors_spec and as on a record 101 bases
   longer (window = two parts), and the pipeline reports the protocluster over the origin *)
Lemma anchor_window_repaired :
  let gs := [(0, [mkPart 100 200 1]); (1, [mkPart 3800 3900 1])] in
  let hs := [(0, [(0, 0)]); (1, [(1, 0)])] in
  let rules := [mkRule 2000 0 (C01.Model.Group false [C01.Model.IAnd [C01.Model.Single false 0; C01.Model.Single false 1]]) None []] in
  apply_cluster_rules 4000 true gs hs rules true = Ok [(0, [0; 1])] /\
  anchors_spec 4000 true gs hs rules = Ok [(0, [0; 1])] /\
  apply_cluster_rules 4101 true [(0, [mkPart 100 200 1]); (1, [mkPart 3901 4001 1])] hs rules true = Ok [(0, [0; 1])] /\
  pipeline 4000 true gs hs rules true = Ok [(0, span2 4000 3800 200, span2 4000 3800 200)].
Proof. cbn zeta. repeat split; vm_compute; reflexivity. Qed.

(* C03-K7 merge_scan_adjacent_only, repaired.  Circular record of 10 kb, rule "p0 EXTENDERS p1", cutoff 1000: anchors
   g0 [50:150), g1 [5000:5100), g2 [7900:8000), g4 [9000:9100), extender gene g3 [8450:8550).  g2 and g4 are exactly
   the cutoff apart (two chains); both grow to g3; g4's cluster is merged with g0's over the origin by the scan; the
   second pass then finds g2..g3 overlapping it and joins them: one protocluster g2..g0 (and the lone g1), what the same
   genes give read from an origin 3000 bases further on (merge_scan_rotated_ok) *)
Lemma merge_scan_repaired :
  pipeline 10000 true [(0, [mkPart 50 150 1]); (1, [mkPart 5000 5100 1]); (2, [mkPart 7900 8000 1]); (3, [mkPart 8450 8550 1]);
                       (4, [mkPart 9000 9100 1])]
           [(0, [(0, 0)]); (1, [(0, 0)]); (2, [(0, 0)]); (3, [(1, 0)]); (4, [(0, 0)])]
           [mkRule 1000 0 (C01.Model.Single false 0) (Some (C01.Model.Single false 1)) []] true
  = Ok [(0, span2 10000 7900 150, span2 10000 7900 150); (0, [mkPart 5000 5100 1], [mkPart 5000 5100 1])].
Proof. vm_compute; reflexivity. Qed.

(* the same genes read from an origin 3000 bases further on (nothing near the origin): one protocluster g2..g0 *)
Lemma merge_scan_rotated_ok :
  pipeline 10000 true [(2, [mkPart 900 1000 1]); (3, [mkPart 1450 1550 1]); (4, [mkPart 2000 2100 1]); (0, [mkPart 3050 3150 1]);
                       (1, [mkPart 8000 8100 1])]
           [(0, [(0, 0)]); (1, [(0, 0)]); (2, [(0, 0)]); (3, [(1, 0)]); (4, [(0, 0)])]
           [mkRule 1000 0 (C01.Model.Single false 0) (Some (C01.Model.Single false 1)) []] true
  = Ok [(0, [mkPart 900 3150 1], [mkPart 900 3150 1]); (0, [mkPart 8000 8100 1], [mkPart 8000 8100 1])].
Proof. vm_compute; reflexivity. Qed.
Print Assumptions gene_info_origin.
Print Assumptions anchor_window_repaired.
Print Assumptions merge_scan_repaired.

(* C03-K9 extender_overlapping_core_not_admitted.  Linear record of 2151 bases, rule "p0 or p2 EXTENDERS p1", cutoff 1000:
   anchors g0 [0:100), g2 [600:2100), g3 [900:1000) form the core [0:2100); g4 [2001:2101) satisfies EXTENDERS and shares 99
   bases with the core, yet it is not admitted: mark_extendable measures the distance from core_cdses[-1], the LAST core
   gene in gene order (g3, 1001 > cutoff away), not from the core, and stops. *)
Lemma extender_overlap_refuted : exists N gs hs rules protos p g,
  pipeline N false gs hs rules true = Ok protos /\ In p protos /\ In g gs /\
  can_extend hs (nth_rule rules (p_rule p)) g = true /\ overlap (snd g) (p_core p) = true /\ contains (p_core p) (snd g) = false.
Proof.
  exists 2151, [(0, [mkPart 0 100 (-1)]); (1, [mkPart 600 700 (-1)]); (2, [mkPart 600 2100 1]); (3, [mkPart 900 1000 (-1)]);
                (4, [mkPart 2001 2101 (-1)])],
         [(0, [(0, 0); (2, 0)]); (2, [(0, 0)]); (3, [(0, 0); (3, 0)]); (1, [(1, 0)]); (4, [(1, 0)])],
         [mkRule 1000 1000 (C01.Model.Group false [C01.Model.ICond (C01.Model.Single false 0); C01.Model.ICond (C01.Model.Single false 2)])
                 (Some (C01.Model.Single false 1)) []].
  eexists. exists (0, [mkPart 0 2100 S_None], [mkPart 0 2151 1]), (4, [mkPart 2001 2101 (-1)]).
  split; [vm_compute; reflexivity|].
  split; [repeat (first [left; reflexivity | right])|]. split; [repeat (first [left; reflexivity | right])|].
  repeat split; vm_compute; reflexivity.
Qed.
Print Assumptions extender_overlap_refuted.

(* C03-K10 chain_spanning_anchor_wrong_side.  Circular record of 12000 bases, cutoff 2000, all four genes anchors of the rule:
   g5 = [7000:12000)+[0:20) spans the origin, g0 [50:80) follows it, g2 [5000:5800) lies 1200 before it, g1 [2500:2800) is 2420
   after g0 and 2200 before g2: the maximal chains are {g2, g5, g0} (shortest covering arc [5000:12000)+[0:80), 7080 > N/2) and {g1}.
   find_protoclusters' first/last wrap test joins g2 to the core of g5..g0 with connect_locations, which - having an
   origin-bridging argument - puts every other location on the side of the origin whose END OF THE RECORD its middle is
   nearer to: g2 (middle 5400 < 6000) goes AFTER the origin, the joined core is [7000:12000)+[0:5800) (10800 long), it covers g1,
   and merge_over_origin absorbs g1's protocluster: one protocluster instead of two. *)
Lemma spanning_chain_wrong_side_refuted : exists N gs hs rules p far,
  pipeline N true gs hs rules true = Ok [p] /\ In far gs /\ contains (p_core p) (snd far) = true /\
  (forall g, In g gs -> g <> far -> r_cut (nth_rule rules 0) <= dist (snd far) (snd g) (Some N)) /\
  connect_locations [[mkPart 5000 5800 1]; [mkPart 7000 12000 1; mkPart 0 80 1]] (Some N)
    = Ok [mkPart 7000 12000 1; mkPart 0 5800 1] /\
  contains [mkPart 5000 12000 1; mkPart 0 80 1] [mkPart 5000 5800 1] = true /\
  contains [mkPart 5000 12000 1; mkPart 0 80 1] [mkPart 7000 12000 1; mkPart 0 80 1] = true.
Proof.
  exists 12000, [(5, [mkPart 7000 12000 1; mkPart 0 20 1]); (0, [mkPart 50 80 (-1)]); (1, [mkPart 2500 2800 1]); (2, [mkPart 5000 5800 1])],
         [(0, [(0, 0)]); (1, [(0, 0)]); (2, [(0, 0)]); (5, [(0, 0)])],
         [mkRule 2000 0 (C01.Model.Single false 0) None []].
  exists (0, [mkPart 7000 12000 1; mkPart 0 5800 1], [mkPart 7000 12000 1; mkPart 0 5800 1]), (1, [mkPart 2500 2800 1]).
  split; [vm_compute; reflexivity|]. split; [repeat (first [left; reflexivity | right])|].
  split; [vm_compute; reflexivity|].
  split; [|repeat split; vm_compute; reflexivity].
  intros g [<-|[<-|[<-|[<-|[]]]]] Hne; try (exfalso; apply Hne; reflexivity); vm_compute; discriminate.
Qed.
Print Assumptions spanning_chain_wrong_side_refuted.
