(* C03 proofs: on a linear record the sweep groups the anchoring genes into exactly the maximal
   chains of genes closer than the cutoff (connected components of the proximity graph); every
   anchor is in exactly one group; the core is the hull of its group. *)
From Coq Require Import Lia ZifyBool Sorting.Permutation.
From ASV.C03 Require Import Model.

Section Sweep.
Variable N : Z.
Variable c : Z.
Hypothesis c_nonneg : 0 <= c.

Definition wf (i : itv) : Prop := 0 <= s i /\ s i < e i /\ e i <= N.

(* closer than the cutoff: the gap between the two intervals (0 when they overlap) is < c *)
Definition near (i j : itv) : Prop := s j < e i + c /\ s i < e j + c.

Inductive conn (ms : list itv) : itv -> itv -> Prop :=
| conn_refl i : In i ms -> conn ms i i
| conn_step i j k : In i ms -> In j ms -> near i j -> conn ms j k -> conn ms i k.

Lemma conn_trans ms i j k : conn ms i j -> conn ms j k -> conn ms i k.
Proof. induction 1 as [|i j k' Hi Hj Hn Hc IH]; auto. intro H. eapply conn_step; eauto. Qed.

Lemma near_sym i j : near i j -> near j i.
Proof. unfold near; tauto. Qed.

Lemma conn_sym ms i j : conn ms i j -> conn ms j i.
Proof.
  induction 1 as [i Hi | i j k Hi Hj Hn Hc IH].
  - constructor. exact Hi.
  - eapply conn_trans; [exact IH|]. apply conn_step with i; [exact Hj|exact Hi|apply near_sym; exact Hn|constructor; exact Hi].
Qed.

Lemma conn_weaken ms x i j : conn ms i j -> conn (x :: ms) i j.
Proof. induction 1; [constructor; right; assumption | eapply conn_step; eauto; right; assumption]. Qed.

(* invariant of one group (hull start, hull end, members): the hull is tight, every member is
   well-formed and starts no later than [lo], and any two members are connected by a chain of
   near pairs inside the group *)
Definition ginv (lo : Z) (g : group) : Prop :=
  let '(cs, he, ms) := g in
  ms <> [] /\
  (forall m, In m ms -> wf m /\ e m <= he /\ s m <= lo /\ cs <= s m) /\
  (exists m, In m ms /\ e m = he) /\
  (exists m, In m ms /\ s m = cs) /\
  (forall a b, In a ms -> In b ms -> conn ms a b).

(* groups are separated: every member of an older group ends at least c before any member of a
   newer group starts *)
Fixpoint sep (gs : list group) : Prop :=
  match gs with
  | [] => True
  | (cs, he, ms) :: rest =>
      (forall cs' he' ms' m, In (cs', he', ms') rest -> In m ms -> he' + c <= s m) /\ sep rest
  end.

Definition inv (lo : Z) (gs : list group) : Prop := Forall (ginv lo) gs /\ sep gs.

Lemma ginv_single i : wf i -> ginv (s i) (s i, e i, [i]).
Proof.
  intros Hw. cbn. split; [discriminate|]. split; [|split; [|split]].
  - intros m [<-|[]]. split; [exact Hw|]. repeat split; lia.
  - exists i. split; [left; reflexivity|reflexivity].
  - exists i. split; [left; reflexivity|reflexivity].
  - intros a b [<-|[]] [<-|[]]. constructor. left. reflexivity.
Qed.

Lemma ginv_mono lo lo' g : lo <= lo' -> ginv lo g -> ginv lo' g.
Proof.
  destruct g as [[cs he] ms]. cbn. intros Hle (A & B & C & D & E).
  split; [exact A|]. split; [|split; [exact C|split; [exact D|exact E]]].
  intros m Hm. destruct (B m Hm) as (Hw & ? & ? & ?). split; [exact Hw|]. repeat split; lia.
Qed.

Lemma step_inv lo gs i :
  inv lo gs -> wf i -> lo <= s i -> inv (s i) (step N c gs i).
Proof.
  intros [Hg Hs] Hw Hlo. unfold step.
  destruct gs as [|[[cs he] ms] rest].
  - split; [|cbn; split; [intros ? ? ? ? []|exact I]]. constructor; [|constructor]. apply ginv_single. exact Hw.
  - inversion Hg as [|g0 gr Hg1 Hgr]; subst. destruct Hs as [Hs1 Hsr].
    destruct Hg1 as (Hne & Hall & (mx & Hmx & Hmxe) & (mn & Hmn & Hmns) & Hconn).
    assert (Hrest : Forall (ginv (s i)) rest).
    { eapply Forall_impl; [|exact Hgr]. intros g. apply ginv_mono. exact Hlo. }
    assert (Hold : forall cs' he' ms', In (cs', he', ms') rest -> he' + c <= s i).
    { intros cs' he' ms' Hin. destruct ms as [|m0 ms0]; [congruence|].
      specialize (Hs1 cs' he' ms' m0 Hin (or_introl eq_refl)).
      destruct (Hall m0 (or_introl eq_refl)) as (_ & _ & ? & _). lia. }
    (* the literal overlap test reduces to "starts before the hull end + cutoff" *)
    assert (Hcs : 0 <= cs /\ cs <= s i).
    { destruct (Hall mn Hmn) as ((? & _) & _ & ? & _). lia. }
    assert (Htest : (s i <? Z.min N (he + c)) && (Z.max 0 (cs - c) <? e i) = (s i <? he + c)).
    { destruct Hw as (H0 & H1 & H2). lia. }
    rewrite Htest.
    destruct (s i <? he + c) eqn:Hlt.
    + split.
      * constructor; [|exact Hrest].
        cbn. split; [discriminate|]. split; [|split; [|split]].
        -- intros m [<-|Hm].
           ++ split; [exact Hw|]. repeat split; lia.
           ++ destruct (Hall m Hm) as (Hwm & ? & ? & ?). split; [exact Hwm|]. repeat split; lia.
        -- destruct (Z.max_spec he (e i)) as [[? ->]|[? ->]].
           ++ exists i. split; [left; reflexivity|reflexivity].
           ++ exists mx. split; [right; exact Hmx|exact Hmxe].
        -- exists mn. split; [right; exact Hmn|]. lia.
        -- assert (Hnear : near i mx).
           { unfold near. destruct (Hall mx Hmx) as ((? & ? & ?) & _ & ? & _). destruct Hw as (? & ? & ?). lia. }
           assert (Hi_mx : conn (i :: ms) i mx).
           { apply conn_step with mx; [left; reflexivity|right; exact Hmx|exact Hnear|constructor; right; exact Hmx]. }
           intros a b [<-|Ha] [<-|Hb].
           ++ constructor. left. reflexivity.
           ++ eapply conn_trans; [exact Hi_mx|]. apply conn_weaken. apply Hconn; assumption.
           ++ apply conn_sym. eapply conn_trans; [exact Hi_mx|]. apply conn_weaken. apply Hconn; assumption.
           ++ apply conn_weaken. apply Hconn; assumption.
      * cbn. split; [|exact Hsr].
        intros cs' he' ms' m Hin [<-|Hm].
        -- eapply Hold; eauto.
        -- eapply Hs1; eauto.
    + split.
      * constructor; [apply ginv_single; exact Hw|].
        constructor; [|exact Hrest].
        apply ginv_mono with lo; [exact Hlo|]. cbn.
        split; [exact Hne|]. split; [exact Hall|]. split; [exists mx; auto|]. split; [exists mn; auto|exact Hconn].
      * cbn. split; [|split; [exact Hs1|exact Hsr]].
        intros cs' he' ms' m [Heq|Hin] [<-|[]].
        -- inversion Heq; subst. lia.
        -- eapply Hold; eauto.
Qed.

Fixpoint sortedS (l : list itv) : Prop :=
  match l with
  | [] => True
  | x :: r => Forall (fun y => s x <= s y) r /\ sortedS r
  end.

Lemma sweep_inv_acc : forall l gs lo,
  inv lo gs -> Forall wf l -> sortedS l -> Forall (fun y => lo <= s y) l ->
  exists lo', inv lo' (fold_left (step N c) l gs).
Proof.
  induction l as [|i l IH]; intros gs lo Hinv Hwf Hsorted Hlo; cbn [fold_left].
  - exists lo. exact Hinv.
  - inversion Hwf as [|? ? Hwi Hwl]; subst. inversion Hlo as [|? ? Hli Hll]; subst.
    destruct Hsorted as [Hfirst Hsorted].
    apply (IH (step N c gs i) (s i)); try assumption.
    apply step_inv with lo; assumption.
Qed.

Lemma sweep_inv l : Forall wf l -> sortedS l -> exists lo, inv lo (sweep N c l).
Proof.
  intros Hwf Hsorted. unfold sweep. destruct l as [|i l]; [exists 0; split; [constructor|exact I]|].
  apply (sweep_inv_acc (i :: l) [] (s i)); try assumption.
  - split; [constructor|exact I].
  - destruct Hsorted as [Hf _]. constructor; [lia|exact Hf].
Qed.

(* every anchor ends up in exactly one group, in order: the members of the groups, oldest group
   first and oldest member first, are the input list *)
Definition members (g : group) : list itv := let '(_, _, ms) := g in ms.
Definition flatten (gs : list group) : list itv := flat_map (fun g => rev (members g)) (rev gs).

Lemma flatten_step gs i : flatten (step N c gs i) = flatten gs ++ [i].
Proof.
  unfold step, flatten. destruct gs as [|[[cs he] ms] rest]; [reflexivity|].
  destruct ((s i <? Z.min N (he + c)) && (Z.max 0 (cs - c) <? e i)); cbn [rev];
    rewrite !flat_map_app; cbn [flat_map members rev]; rewrite ?app_nil_r, <- ?app_assoc; reflexivity.
Qed.

Lemma flatten_fold : forall l gs, flatten (fold_left (step N c) l gs) = flatten gs ++ l.
Proof.
  induction l as [|i l IH]; intros gs; cbn [fold_left]; [rewrite app_nil_r; reflexivity|].
  rewrite IH, flatten_step, <- app_assoc. reflexivity.
Qed.

Lemma sweep_partition l : flatten (sweep N c l) = l.
Proof. unfold sweep. rewrite flatten_fold. reflexivity. Qed.

(* separation, stated pairwise: members of different groups are never near each other *)
Lemma sep_not_near : forall gs lo, inv lo gs ->
  forall g1 g2 a b, In g1 gs -> In g2 gs -> g1 <> g2 -> In a (members g1) -> In b (members g2) -> ~ near a b.
Proof.
  induction gs as [|[[cs he] ms] rest IH]; intros lo [Hg Hs] g1 g2 a b H1 H2 Hne Ha Hb; [destruct H1|].
  inversion Hg as [|? ? Hg1 Hgr]; subst. destruct Hs as [Hs1 Hsr].
  assert (Hcross : forall g m m', In g rest -> In m (members g) -> In m' ms -> ~ near m m').
  { intros [[cs' he'] ms'] m m' Hin Hm Hm'. cbn [members] in Hm.
    pose proof (Hs1 cs' he' ms' m' Hin Hm') as Hgap.
    rewrite Forall_forall in Hgr. destruct (Hgr _ Hin) as (_ & Hall' & _).
    destruct (Hall' m Hm) as (_ & ? & _). unfold near. lia. }
  destruct H1 as [<-|H1], H2 as [<-|H2].
  - contradiction.
  - cbn [members] in Ha. intros Hn. apply near_sym in Hn. exact (Hcross g2 b a H2 Hb Ha Hn).
  - cbn [members] in Hb. exact (Hcross g1 a b H1 Ha Hb).
  - apply (IH lo (conj Hgr Hsr) g1 g2); assumption.
Qed.
End Sweep.

(* ---------- the sort that precedes the sweep ---------- *)
Lemma itv_lt_true a b : itv_lt a b = true -> s a <= s b.
Proof. unfold itv_lt. lia. Qed.
Lemma itv_lt_false a b : itv_lt a b = false -> s b <= s a.
Proof. unfold itv_lt. lia. Qed.

Lemma insert_sorted x : forall l, sortedS l -> sortedS (insert_by itv_lt x l).
Proof.
  induction l as [|y l IH]; intros Hs; cbn [insert_by].
  - cbn. split; [constructor|exact I].
  - destruct Hs as [Hy Hs]. destruct (itv_lt x y) eqn:Hc.
    + apply itv_lt_true in Hc. cbn [sortedS]. split; [|split; assumption].
      constructor; [exact Hc|]. eapply Forall_impl; [|exact Hy]. cbn. intros; lia.
    + apply itv_lt_false in Hc. cbn [sortedS]. split; [|apply IH; exact Hs].
      assert (Hall : forall l', Forall (fun z => s y <= s z) l' -> Forall (fun z => s y <= s z) (insert_by itv_lt x l')).
      { induction l' as [|z l' IH']; intros Hf; cbn [insert_by].
        - constructor; [exact Hc|constructor].
        - inversion Hf; subst. destruct (itv_lt x z).
          + constructor; [exact Hc|]. constructor; assumption.
          + constructor; [assumption|]. apply IH'; assumption. }
      apply Hall. exact Hy.
Qed.

Lemma sort_sorted_acc : forall l acc, sortedS acc -> sortedS (fold_left (fun acc x => insert_by itv_lt x acc) l acc).
Proof. induction l as [|x l IH]; intros acc Hs; cbn [fold_left]; [exact Hs|]. apply IH. apply insert_sorted. exact Hs. Qed.
Lemma sort_sorted l : sortedS (sort_by itv_lt l).
Proof. unfold sort_by. apply sort_sorted_acc. exact I. Qed.

Lemma insert_perm {A} (lt : A -> A -> bool) x : forall l, Permutation (x :: l) (insert_by lt x l).
Proof.
  induction l as [|y l IH]; cbn [insert_by]; [apply Permutation_refl|].
  destruct (lt x y); [apply Permutation_refl|].
  eapply Permutation_trans; [apply perm_swap|]. apply perm_skip. exact IH.
Qed.
Lemma sort_perm_acc {A} (lt : A -> A -> bool) : forall l acc,
  Permutation (l ++ acc) (fold_left (fun acc x => insert_by lt x acc) l acc).
Proof.
  induction l as [|x l IH]; intros acc; cbn [fold_left app]; [apply Permutation_refl|].
  eapply Permutation_trans; [|apply IH].
  eapply Permutation_trans; [apply Permutation_middle|]. apply Permutation_app_head. apply insert_perm.
Qed.
Lemma sort_perm {A} (lt : A -> A -> bool) l : Permutation l (sort_by lt l).
Proof. unfold sort_by. rewrite <- (app_nil_r l) at 1. apply sort_perm_acc. Qed.

(* ---------- the statement about the whole function ---------- *)
Definition core_of (g : group) : Z * Z := let '(cs, he, _) := g in (cs, he).

(* for any arrangement of the anchors that is ordered by start *)
Lemma chain_sorted N c anchors l : 0 <= c -> Forall (wf N) anchors -> Permutation anchors l -> sortedS l ->
  let gs := sweep N c l in
  Permutation anchors (flatten gs) /\
  (forall g, In g gs ->
     members g <> [] /\
     (forall m, In m (members g) -> fst (core_of g) <= s m /\ e m <= snd (core_of g)) /\
     (exists m, In m (members g) /\ s m = fst (core_of g)) /\
     (exists m, In m (members g) /\ e m = snd (core_of g)) /\
     (forall a b, In a (members g) -> In b (members g) -> conn c (members g) a b)) /\
  (forall g1 g2 a b, In g1 gs -> In g2 gs -> g1 <> g2 -> In a (members g1) -> In b (members g2) -> ~ near c a b) /\
  (exists lo, inv N c lo gs).
Proof.
  intros Hc Hwf Hperm Hsorted gs.
  assert (Hwf' : Forall (wf N) l).
  { rewrite Forall_forall in *. intros x Hx. apply Hwf. eapply Permutation_in; [apply Permutation_sym; exact Hperm|exact Hx]. }
  destruct (sweep_inv N c Hc l Hwf' Hsorted) as [lo Hinv].
  split; [|split; [|split]].
  - unfold gs. rewrite sweep_partition. exact Hperm.
  - intros [[cs he] ms] Hin. destruct Hinv as [Hg _]. rewrite Forall_forall in Hg.
    destruct (Hg _ Hin) as (Hne & Hall & Hmx & Hmn & Hconn). cbn [members core_of fst snd].
    split; [exact Hne|]. split; [|split; [exact Hmn|split; [exact Hmx|exact Hconn]]].
    intros m Hm. destruct (Hall m Hm) as (_ & ? & _ & ?). lia.
  - intros g1 g2 a b. apply (sep_not_near N c gs lo Hinv).
  - exists lo. exact Hinv.
Qed.

Lemma chain_linear N c anchors : 0 <= c -> Forall (wf N) anchors ->
  let gs := sweep N c (sort_by itv_lt anchors) in
  (* every anchor in exactly one group *)
  Permutation anchors (flatten gs) /\
  (* each group is non-empty, its core is the tight hull of its members, and its members are
     connected by a chain of pairs closer than the cutoff *)
  (forall g, In g gs ->
     members g <> [] /\
     (forall m, In m (members g) -> fst (core_of g) <= s m /\ e m <= snd (core_of g)) /\
     (exists m, In m (members g) /\ s m = fst (core_of g)) /\
     (exists m, In m (members g) /\ e m = snd (core_of g)) /\
     (forall a b, In a (members g) -> In b (members g) -> conn c (members g) a b)) /\
  (* maximality: members of different groups are never closer than the cutoff *)
  (forall g1 g2 a b, In g1 gs -> In g2 gs -> g1 <> g2 -> In a (members g1) -> In b (members g2) -> ~ near c a b).
Proof.
  intros Hc Hwf gs.
  destruct (chain_sorted N c anchors (sort_by itv_lt anchors) Hc Hwf (sort_perm itv_lt anchors) (sort_sorted anchors))
    as (H1 & H2 & H3 & _).
  split; [exact H1|split; [exact H2|exact H3]].
Qed.

(* extent of a protocluster: the core extended by the neighbourhood, clipped to the record; it
   contains the core *)
Lemma protoclusters_shape N c nb anchors : 0 <= nb -> 0 <= c -> Forall (wf N) anchors ->
  Forall (fun p : Z * Z * Z * Z => let '(cs, he, xs, xe) := p in
            xs = Z.max 0 (cs - nb) /\ xe = Z.min N (he + nb) /\ 0 <= xs <= cs /\ he <= xe <= N /\ cs < he)
         (protoclusters N c nb anchors).
Proof.
  intros Hnb Hc Hwf. unfold protoclusters. apply Forall_forall. intros p Hp. apply in_map_iff in Hp.
  destruct Hp as ([[cs he] ms] & <- & Hin). apply in_rev in Hin.
  destruct (chain_linear N c anchors Hc Hwf) as (Hperm & Hgroups & _).
  destruct (Hgroups _ Hin) as (Hne & Hall & (mn & Hmn & Hmns) & (mx & Hmx & Hmxe) & _).
  cbn [members core_of fst snd] in *.
  assert (Hwfm : forall m, In m ms -> wf N m).
  { intros m Hm. rewrite Forall_forall in Hwf. apply Hwf.
    eapply Permutation_in; [apply Permutation_sym; exact Hperm|].
    unfold flatten. apply in_flat_map. exists (cs, he, ms). split; [apply -> in_rev; exact Hin|].
    cbn [members]. apply -> in_rev. exact Hm. }
  destruct (Hwfm mn Hmn) as (? & ? & ?). destruct (Hwfm mx Hmx) as (? & ? & ?).
  destruct (Hall mn Hmn). destruct (Hall mx Hmx). repeat split; lia.
Qed.
