(* C03 proofs: on a linear record the sweep groups the anchoring genes into exactly the maximal
   chains of genes closer than the cutoff (connected components of the proximity graph); every
   anchor is in exactly one group; the core is the hull of its group. *)
From Coq Require Import Lia ZifyBool Sorting.Permutation.
From ASV.C03 Require Import Model.

Section Sweep.
Variable N : Z.
Variable c : Z.
Hypothesis c_nonneg : 0 <= c.

Definition wf (i : itv) : Prop := 0 <= s i /\ s i < e i /\ e i <= N.

(* closer than the cutoff: the gap between the two intervals (0 when they overlap) is < c *)
Definition near (i j : itv) : Prop := s j < e i + c /\ s i < e j + c.

Inductive conn (ms : list itv) : itv -> itv -> Prop :=
| conn_refl i : In i ms -> conn ms i i
| conn_step i j k : In i ms -> In j ms -> near i j -> conn ms j k -> conn ms i k.

Lemma conn_trans ms i j k : conn ms i j -> conn ms j k -> conn ms i k.
Proof. induction 1 as [|i j k' Hi Hj Hn Hc IH]; auto. intro H. eapply conn_step; eauto. Qed.

Lemma near_sym i j : near i j -> near j i.
Proof. unfold near; tauto. Qed.

Lemma conn_sym ms i j : conn ms i j -> conn ms j i.
Proof.
  induction 1 as [i Hi | i j k Hi Hj Hn Hc IH].
  - constructor. exact Hi.
  - eapply conn_trans; [exact IH|]. apply conn_step with i; [exact Hj|exact Hi|apply near_sym; exact Hn|constructor; exact Hi].
Qed.

Lemma conn_weaken ms x i j : conn ms i j -> conn (x :: ms) i j.
Proof. induction 1; [constructor; right; assumption | eapply conn_step; eauto; right; assumption]. Qed.

(* invariant of one group (hull start, hull end, members): the hull is tight, every member is
   well-formed and starts no later than [lo], and any two members are connected by a chain of
   near pairs inside the group *)
Definition ginv (lo : Z) (g : group) : Prop :=
  let '(cs, he, ms) := g in
  ms <> [] /\
  (forall m, In m ms -> wf m /\ e m <= he /\ s m <= lo /\ cs <= s m) /\
  (exists m, In m ms /\ e m = he) /\
  (exists m, In m ms /\ s m = cs) /\
  (forall a b, In a ms -> In b ms -> conn ms a b).

(* groups are separated: every member of an older group ends at least c before any member of a
   newer group starts *)
Fixpoint sep (gs : list group) : Prop :=
  match gs with
  | [] => True
  | (cs, he, ms) :: rest =>
      (forall cs' he' ms' m, In (cs', he', ms') rest -> In m ms -> he' + c <= s m) /\ sep rest
  end.

Definition inv (lo : Z) (gs : list group) : Prop := Forall (ginv lo) gs /\ sep gs.

Lemma ginv_single i : wf i -> ginv (s i) (s i, e i, [i]).
Proof.
  intros Hw. cbn. split; [discriminate|]. split; [|split; [|split]].
  - intros m [<-|[]]. split; [exact Hw|]. repeat split; lia.
  - exists i. split; [left; reflexivity|reflexivity].
  - exists i. split; [left; reflexivity|reflexivity].
  - intros a b [<-|[]] [<-|[]]. constructor. left. reflexivity.
Qed.

Lemma ginv_mono lo lo' g : lo <= lo' -> ginv lo g -> ginv lo' g.
Proof.
  destruct g as [[cs he] ms]. cbn. intros Hle (A & B & C & D & E).
  split; [exact A|]. split; [|split; [exact C|split; [exact D|exact E]]].
  intros m Hm. destruct (B m Hm) as (Hw & ? & ? & ?). split; [exact Hw|]. repeat split; lia.
Qed.

Lemma step_inv lo gs i :
  inv lo gs -> wf i -> lo <= s i -> inv (s i) (step N c gs i).
Proof.
  intros [Hg Hs] Hw Hlo. unfold step.
  destruct gs as [|[[cs he] ms] rest].
  - split; [|cbn; split; [intros ? ? ? ? []|exact I]]. constructor; [|constructor]. apply ginv_single. exact Hw.
  - inversion Hg as [|g0 gr Hg1 Hgr]; subst. destruct Hs as [Hs1 Hsr].
    destruct Hg1 as (Hne & Hall & (mx & Hmx & Hmxe) & (mn & Hmn & Hmns) & Hconn).
    assert (Hrest : Forall (ginv (s i)) rest).
    { eapply Forall_impl; [|exact Hgr]. intros g. apply ginv_mono. exact Hlo. }
    assert (Hold : forall cs' he' ms', In (cs', he', ms') rest -> he' + c <= s i).
    { intros cs' he' ms' Hin. destruct ms as [|m0 ms0]; [congruence|].
      specialize (Hs1 cs' he' ms' m0 Hin (or_introl eq_refl)).
      destruct (Hall m0 (or_introl eq_refl)) as (_ & _ & ? & _). lia. }
    (* the literal overlap test reduces to "starts before the hull end + cutoff" *)
    assert (Hcs : 0 <= cs /\ cs <= s i).
    { destruct (Hall mn Hmn) as ((? & _) & _ & ? & _). lia. }
    assert (Htest : (s i <? Z.min N (he + c)) && (Z.max 0 (cs - c) <? e i) = (s i <? he + c)).
    { destruct Hw as (H0 & H1 & H2). lia. }
    rewrite Htest.
    destruct (s i <? he + c) eqn:Hlt.
    + split.
      * constructor; [|exact Hrest].
        cbn. split; [discriminate|]. split; [|split; [|split]].
        -- intros m [<-|Hm].
           ++ split; [exact Hw|]. repeat split; lia.
           ++ destruct (Hall m Hm) as (Hwm & ? & ? & ?). split; [exact Hwm|]. repeat split; lia.
        -- destruct (Z.max_spec he (e i)) as [[? ->]|[? ->]].
           ++ exists i. split; [left; reflexivity|reflexivity].
           ++ exists mx. split; [right; exact Hmx|exact Hmxe].
        -- exists mn. split; [right; exact Hmn|]. lia.
        -- assert (Hnear : near i mx).
           { unfold near. destruct (Hall mx Hmx) as ((? & ? & ?) & _ & ? & _). destruct Hw as (? & ? & ?). lia. }
           assert (Hi_mx : conn (i :: ms) i mx).
           { apply conn_step with mx; [left; reflexivity|right; exact Hmx|exact Hnear|constructor; right; exact Hmx]. }
           intros a b [<-|Ha] [<-|Hb].
           ++ constructor. left. reflexivity.
           ++ eapply conn_trans; [exact Hi_mx|]. apply conn_weaken. apply Hconn; assumption.
           ++ apply conn_sym. eapply conn_trans; [exact Hi_mx|]. apply conn_weaken. apply Hconn; assumption.
           ++ apply conn_weaken. apply Hconn; assumption.
      * cbn. split; [|exact Hsr].
        intros cs' he' ms' m Hin [<-|Hm].
        -- eapply Hold; eauto.
        -- eapply Hs1; eauto.
    + split.
      * constructor; [apply ginv_single; exact Hw|].
        constructor; [|exact Hrest].
        apply ginv_mono with lo; [exact Hlo|]. cbn.
        split; [exact Hne|]. split; [exact Hall|]. split; [exists mx; auto|]. split; [exists mn; auto|exact Hconn].
      * cbn. split; [|split; [exact Hs1|exact Hsr]].
        intros cs' he' ms' m [Heq|Hin] [<-|[]].
        -- inversion Heq; subst. lia.
        -- eapply Hold; eauto.
Qed.

Fixpoint sortedS (l : list itv) : Prop :=
  match l with
  | [] => True
  | x :: r => Forall (fun y => s x <= s y) r /\ sortedS r
  end.

Lemma sweep_inv_acc : forall l gs lo,
  inv lo gs -> Forall wf l -> sortedS l -> Forall (fun y => lo <= s y) l ->
  exists lo', inv lo' (fold_left (step N c) l gs).
Proof.
  induction l as [|i l IH]; intros gs lo Hinv Hwf Hsorted Hlo; cbn [fold_left].
  - exists lo. exact Hinv.
  - inversion Hwf as [|? ? Hwi Hwl]; subst. inversion Hlo as [|? ? Hli Hll]; subst.
    destruct Hsorted as [Hfirst Hsorted].
    apply (IH (step N c gs i) (s i)); try assumption.
    apply step_inv with lo; assumption.
Qed.

Lemma sweep_inv l : Forall wf l -> sortedS l -> exists lo, inv lo (sweep N c l).
Proof.
  intros Hwf Hsorted. unfold sweep. destruct l as [|i l]; [exists 0; split; [constructor|exact I]|].
  apply (sweep_inv_acc (i :: l) [] (s i)); try assumption.
  - split; [constructor|exact I].
  - destruct Hsorted as [Hf _]. constructor; [lia|exact Hf].
Qed.

(* every anchor ends up in exactly one group, in order: the members of the groups, oldest group
   first and oldest member first, are the input list *)
Definition members (g : group) : list itv := let '(_, _, ms) := g in ms.
Definition flatten (gs : list group) : list itv := flat_map (fun g => rev (members g)) (rev gs).

Lemma flatten_step gs i : flatten (step N c gs i) = flatten gs ++ [i].
Proof.
  unfold step, flatten. destruct gs as [|[[cs he] ms] rest]; [reflexivity|].
  destruct ((s i <? Z.min N (he + c)) && (Z.max 0 (cs - c) <? e i)); cbn [rev];
    rewrite !flat_map_app; cbn [flat_map members rev]; rewrite ?app_nil_r, <- ?app_assoc; reflexivity.
Qed.

Lemma flatten_fold : forall l gs, flatten (fold_left (step N c) l gs) = flatten gs ++ l.
Proof.
  induction l as [|i l IH]; intros gs; cbn [fold_left]; [rewrite app_nil_r; reflexivity|].
  rewrite IH, flatten_step, <- app_assoc. reflexivity.
Qed.

Lemma sweep_partition l : flatten (sweep N c l) = l.
Proof. unfold sweep. rewrite flatten_fold. reflexivity. Qed.

(* separation, stated pairwise: members of different groups are never near each other *)
Lemma sep_not_near : forall gs lo, inv lo gs ->
  forall g1 g2 a b, In g1 gs -> In g2 gs -> g1 <> g2 -> In a (members g1) -> In b (members g2) -> ~ near a b.
Proof.
  induction gs as [|[[cs he] ms] rest IH]; intros lo [Hg Hs] g1 g2 a b H1 H2 Hne Ha Hb; [destruct H1|].
  inversion Hg as [|? ? Hg1 Hgr]; subst. destruct Hs as [Hs1 Hsr].
  assert (Hcross : forall g m m', In g rest -> In m (members g) -> In m' ms -> ~ near m m').
  { intros [[cs' he'] ms'] m m' Hin Hm Hm'. cbn [members] in Hm.
    pose proof (Hs1 cs' he' ms' m' Hin Hm') as Hgap.
    rewrite Forall_forall in Hgr. destruct (Hgr _ Hin) as (_ & Hall' & _).
    destruct (Hall' m Hm) as (_ & ? & _). unfold near. lia. }
  destruct H1 as [<-|H1], H2 as [<-|H2].
  - contradiction.
  - cbn [members] in Ha. intros Hn. apply near_sym in Hn. exact (Hcross g2 b a H2 Hb Ha Hn).
  - cbn [members] in Hb. exact (Hcross g1 a b H1 Ha Hb).
  - apply (IH lo (conj Hgr Hsr) g1 g2); assumption.
Qed.
End Sweep.

(* ---------- the sort that precedes the sweep ---------- *)
Lemma itv_lt_true a b : itv_lt a b = true -> s a <= s b.
Proof. unfold itv_lt. lia. Qed.
Lemma itv_lt_false a b : itv_lt a b = false -> s b <= s a.
Proof. unfold itv_lt. lia. Qed.

Lemma insert_sorted x : forall l, sortedS l -> sortedS (insert_by itv_lt x l).
Proof.
  induction l as [|y l IH]; intros Hs; cbn [insert_by].
  - cbn. split; [constructor|exact I].
  - destruct Hs as [Hy Hs]. destruct (itv_lt x y) eqn:Hc.
    + apply itv_lt_true in Hc. cbn [sortedS]. split; [|split; assumption].
      constructor; [exact Hc|]. eapply Forall_impl; [|exact Hy]. cbn. intros; lia.
    + apply itv_lt_false in Hc. cbn [sortedS]. split; [|apply IH; exact Hs].
      assert (Hall : forall l', Forall (fun z => s y <= s z) l' -> Forall (fun z => s y <= s z) (insert_by itv_lt x l')).
      { induction l' as [|z l' IH']; intros Hf; cbn [insert_by].
        - constructor; [exact Hc|constructor].
        - inversion Hf; subst. destruct (itv_lt x z).
          + constructor; [exact Hc|]. constructor; assumption.
          + constructor; [assumption|]. apply IH'; assumption. }
      apply Hall. exact Hy.
Qed.

Lemma sort_sorted_acc : forall l acc, sortedS acc -> sortedS (fold_left (fun acc x => insert_by itv_lt x acc) l acc).
Proof. induction l as [|x l IH]; intros acc Hs; cbn [fold_left]; [exact Hs|]. apply IH. apply insert_sorted. exact Hs. Qed.
Lemma sort_sorted l : sortedS (sort_by itv_lt l).
Proof. unfold sort_by. apply sort_sorted_acc. exact I. Qed.

Lemma insert_perm {A} (lt : A -> A -> bool) x : forall l, Permutation (x :: l) (insert_by lt x l).
Proof.
  induction l as [|y l IH]; cbn [insert_by]; [apply Permutation_refl|].
  destruct (lt x y); [apply Permutation_refl|].
  eapply Permutation_trans; [apply perm_swap|]. apply perm_skip. exact IH.
Qed.
Lemma sort_perm_acc {A} (lt : A -> A -> bool) : forall l acc,
  Permutation (l ++ acc) (fold_left (fun acc x => insert_by lt x acc) l acc).
Proof.
  induction l as [|x l IH]; intros acc; cbn [fold_left app]; [apply Permutation_refl|].
  eapply Permutation_trans; [|apply IH].
  eapply Permutation_trans; [apply Permutation_middle|]. apply Permutation_app_head. apply insert_perm.
Qed.
Lemma sort_perm {A} (lt : A -> A -> bool) l : Permutation l (sort_by lt l).
Proof. unfold sort_by. rewrite <- (app_nil_r l) at 1. apply sort_perm_acc. Qed.

(* ---------- the statement about the whole function ---------- *)
Definition core_of (g : group) : Z * Z := let '(cs, he, _) := g in (cs, he).

(* for any arrangement of the anchors that is ordered by start *)
Lemma chain_sorted N c anchors l : 0 <= c -> Forall (wf N) anchors -> Permutation anchors l -> sortedS l ->
  let gs := sweep N c l in
  Permutation anchors (flatten gs) /\
  (forall g, In g gs ->
     members g <> [] /\
     (forall m, In m (members g) -> fst (core_of g) <= s m /\ e m <= snd (core_of g)) /\
     (exists m, In m (members g) /\ s m = fst (core_of g)) /\
     (exists m, In m (members g) /\ e m = snd (core_of g)) /\
     (forall a b, In a (members g) -> In b (members g) -> conn c (members g) a b)) /\
  (forall g1 g2 a b, In g1 gs -> In g2 gs -> g1 <> g2 -> In a (members g1) -> In b (members g2) -> ~ near c a b) /\
  (exists lo, inv N c lo gs).
Proof.
  intros Hc Hwf Hperm Hsorted gs.
  assert (Hwf' : Forall (wf N) l).
  { rewrite Forall_forall in *. intros x Hx. apply Hwf. eapply Permutation_in; [apply Permutation_sym; exact Hperm|exact Hx]. }
  destruct (sweep_inv N c Hc l Hwf' Hsorted) as [lo Hinv].
  split; [|split; [|split]].
  - unfold gs. rewrite sweep_partition. exact Hperm.
  - intros [[cs he] ms] Hin. destruct Hinv as [Hg _]. rewrite Forall_forall in Hg.
    destruct (Hg _ Hin) as (Hne & Hall & Hmx & Hmn & Hconn). cbn [members core_of fst snd].
    split; [exact Hne|]. split; [|split; [exact Hmn|split; [exact Hmx|exact Hconn]]].
    intros m Hm. destruct (Hall m Hm) as (_ & ? & _ & ?). lia.
  - intros g1 g2 a b. apply (sep_not_near N c gs lo Hinv).
  - exists lo. exact Hinv.
Qed.

Lemma chain_linear N c anchors : 0 <= c -> Forall (wf N) anchors ->
  let gs := sweep N c (sort_by itv_lt anchors) in
  (* every anchor in exactly one group *)
  Permutation anchors (flatten gs) /\
  (* each group is non-empty, its core is the tight hull of its members, and its members are
     connected by a chain of pairs closer than the cutoff *)
  (forall g, In g gs ->
     members g <> [] /\
     (forall m, In m (members g) -> fst (core_of g) <= s m /\ e m <= snd (core_of g)) /\
     (exists m, In m (members g) /\ s m = fst (core_of g)) /\
     (exists m, In m (members g) /\ e m = snd (core_of g)) /\
     (forall a b, In a (members g) -> In b (members g) -> conn c (members g) a b)) /\
  (* maximality: members of different groups are never closer than the cutoff *)
  (forall g1 g2 a b, In g1 gs -> In g2 gs -> g1 <> g2 -> In a (members g1) -> In b (members g2) -> ~ near c a b).
Proof.
  intros Hc Hwf gs.
  destruct (chain_sorted N c anchors (sort_by itv_lt anchors) Hc Hwf (sort_perm itv_lt anchors) (sort_sorted anchors))
    as (H1 & H2 & H3 & _).
  split; [exact H1|split; [exact H2|exact H3]].
Qed.

(* extent of a protocluster: the core extended by the neighbourhood, clipped to the record; it
   contains the core *)
Lemma protoclusters_shape N c nb anchors : 0 <= nb -> 0 <= c -> Forall (wf N) anchors ->
  Forall (fun p : Z * Z * Z * Z => let '(cs, he, xs, xe) := p in
            xs = Z.max 0 (cs - nb) /\ xe = Z.min N (he + nb) /\ 0 <= xs <= cs /\ he <= xe <= N /\ cs < he)
         (protoclusters N c nb anchors).
Proof.
  intros Hnb Hc Hwf. unfold protoclusters. apply Forall_forall. intros p Hp. apply in_map_iff in Hp.
  destruct Hp as ([[cs he] ms] & <- & Hin). apply in_rev in Hin.
  destruct (chain_linear N c anchors Hc Hwf) as (Hperm & Hgroups & _).
  destruct (Hgroups _ Hin) as (Hne & Hall & (mn & Hmn & Hmns) & (mx & Hmx & Hmxe) & _).
  cbn [members core_of fst snd] in *.
  assert (Hwfm : forall m, In m ms -> wf N m).
  { intros m Hm. rewrite Forall_forall in Hwf. apply Hwf.
    eapply Permutation_in; [apply Permutation_sym; exact Hperm|].
    unfold flatten. apply in_flat_map. exists (cs, he, ms). split; [apply -> in_rev; exact Hin|].
    cbn [members]. apply -> in_rev. exact Hm. }
  destruct (Hwfm mn Hmn) as (? & ? & ?). destruct (Hwfm mx Hmx) as (? & ? & ?).
  destruct (Hall mn Hmn). destruct (Hall mx Hmx). repeat split; lia.
Qed.

(* ====================================================================================
   The full pipeline model (linear and circular records)
   ==================================================================================== *)

(* ---------- the per-cutoff cache of apply_cluster_rules is transparent ---------- *)
Section CacheProofs.
Variable N : Z.
Variable circular : bool.
Variable gs : list gene.
Variable hs : hits.

Definition cache_ok (g : gene) (cache : list (Z * info)) : Prop :=
  forall k i, lookup k cache = Some i -> gene_info N circular gs g k = Ok i.

Lemma rules_loop_cache g rs : forall cache cache' ri acc, cache_ok g cache ->
  rules_loop N circular gs hs true g cache ri rs acc = rules_loop N circular gs hs false g cache' ri rs acc.
Proof.
  induction rs as [|r rest IH]; intros cache cache' ri acc Hok; [reflexivity|].
  cbn [rules_loop].
  destruct (lookup (r_cut r) cache) as [i|] eqn:Hl.
  - rewrite (Hok _ _ Hl). cbn [bind].
    destruct (eval_rule hs g ri r i acc) as [acc'|k]; cbn [bind]; [|reflexivity].
    apply IH. exact Hok.
  - destruct (gene_info N circular gs g (r_cut r)) as [i|k] eqn:Hg; cbn [bind]; [|reflexivity].
    destruct (eval_rule hs g ri r i acc) as [acc'|k]; cbn [bind]; [|reflexivity].
    apply IH. intros k' i' Hl'. cbn [lookup] in Hl'.
    destruct (k' =? r_cut r) eqn:He.
    + apply Z.eqb_eq in He. subst k'. inversion Hl'. subst i'. exact Hg.
    + apply Hok. exact Hl'.
Qed.

Lemma fold_cache (rules : list rule) (l : list gene) : forall a,
  fold_left (fun acc g => do a <- acc; rules_loop N circular gs hs true g [] 0 rules a) l a =
  fold_left (fun acc g => do a <- acc; rules_loop N circular gs hs false g [] 0 rules a) l a.
Proof.
  induction l as [|g l IH]; intro a; [reflexivity|]. cbn [fold_left].
  replace (do a0 <- a; rules_loop N circular gs hs true g [] 0 rules a0)
     with (do a0 <- a; rules_loop N circular gs hs false g [] 0 rules a0).
  - apply IH.
  - destruct a as [a0|k]; cbn [bind]; [|reflexivity]. symmetry. apply rules_loop_cache.
    intros k i H. discriminate H.
Qed.

Lemma cache_transparent (rules : list rule) :
  apply_cluster_rules N circular gs hs rules true = apply_cluster_rules N circular gs hs rules false.
Proof. unfold apply_cluster_rules. apply fold_cache. Qed.
End CacheProofs.

(* ---------- remove_redundant_protoclusters: the loops decide "some superior cluster overlaps
   in gene order" ---------- *)
Section SuperiorProofs.
Variable gs : list gene.

(* the test the loops apply to one cluster [o] of a superior rule *)
Definition sup_overlaps (core first last o : loc) : bool :=
  contains o core ||
  match first_last gs o with
  | Ok fl => negb (klt (snd fl) first) && negb (klt last (fst fl))
  | Err _ => false
  end.

Definition lookups_ok (others : list loc) : Prop :=
  forall o, In o others -> exists fl, first_last gs o = Ok fl.

Lemma red_inner_spec core first last others : forall red, lookups_ok others ->
  red_inner gs core first last others red = Ok (red || existsb (sup_overlaps core first last) others).
Proof.
  induction others as [|o rest IH]; intros red Hok.
  - cbn. rewrite orb_false_r. reflexivity.
  - cbn [red_inner existsb]. unfold sup_overlaps at 1.
    assert (Hrest : lookups_ok rest) by (intros x Hx; apply Hok; right; exact Hx).
    destruct (contains o core) eqn:Hc.
    + rewrite IH by exact Hrest. cbn. rewrite !orb_true_r. reflexivity.
    + destruct (Hok o (or_introl eq_refl)) as [fl Hfl]. rewrite Hfl. cbn [bind orb].
      destruct (klt (snd fl) first) eqn:H1; cbn [negb andb orb].
      * apply IH. exact Hrest.
      * destruct (klt last (fst fl)) eqn:H2; cbn [negb andb orb].
        -- apply IH. exact Hrest.
        -- rewrite orb_true_r. reflexivity.
Qed.

Definition cores_of (all : list proto) (s : Z) : list loc :=
  map p_core (filter (fun q => p_rule q =? s) all).

Lemma red_outer_spec all core first last : forall sups,
  (forall s, In s sups -> lookups_ok (cores_of all s)) ->
  red_outer gs all core first last sups =
  Ok (existsb (fun s => existsb (sup_overlaps core first last) (cores_of all s)) sups).
Proof.
  induction sups as [|s rest IH]; intro Hok; [reflexivity|].
  cbn [red_outer existsb]. fold (cores_of all s).
  rewrite red_inner_spec by (apply Hok; left; reflexivity). cbn [bind orb].
  destruct (existsb (sup_overlaps core first last) (cores_of all s)); cbn [orb]; [reflexivity|].
  apply IH. intros x Hx. apply Hok. right. exact Hx.
Qed.

Lemma is_redundant_spec (rules : list rule) all p b :
  (forall q, In q all -> exists fl, first_last gs (p_core q) = Ok fl) ->
  is_redundant gs rules all p = Ok b ->
  exists first last, first_last gs (p_core p) = Ok (first, last) /\
  (b = true <->
   exists s o, In s (r_sup (nth_rule rules (p_rule p))) /\ In o all /\ p_rule o = s /\
               sup_overlaps (p_core p) first last (p_core o) = true).
Proof.
  intros Hall H. unfold is_redundant in H.
  destruct (first_last gs (p_core p)) as [[first last]|k] eqn:Hfl; cbn [bind fst snd] in H; [|discriminate H].
  exists first, last. split; [reflexivity|].
  rewrite red_outer_spec in H.
  - inversion H as [Hb]. clear H. split.
    + intro Ht. apply existsb_exists in Ht. destruct Ht as [s [Hs Hex]].
      apply existsb_exists in Hex. destruct Hex as [oc [Hoc Hov]].
      unfold cores_of in Hoc. apply in_map_iff in Hoc. destruct Hoc as [o [Ho1 Ho2]].
      apply filter_In in Ho2. destruct Ho2 as [Hin Heq]. apply Z.eqb_eq in Heq.
      exists s, o. subst oc. repeat split; assumption.
    + intros [s [o [Hs [Hin [Heq Hov]]]]].
      apply existsb_exists. exists s. split; [exact Hs|].
      apply existsb_exists. exists (p_core o). split; [|exact Hov].
      unfold cores_of. apply in_map. apply filter_In. split; [exact Hin|]. apply Z.eqb_eq. exact Heq.
  - intros s _ oc Hoc. unfold cores_of in Hoc. apply in_map_iff in Hoc. destruct Hoc as [o [Ho1 Ho2]].
    apply filter_In in Ho2. destruct Ho2 as [Hin _]. subst oc. apply Hall. exact Hin.
Qed.
End SuperiorProofs.

(* ---------- apply_extenders: what mark_extendable yields ---------- *)
Section ExtenderProofs.
Variable N : Z.
Variable circular : bool.
Variable hs : hits.
Variable r : rule.
Variable core0 : loc.
Let w := wrap_of N circular.

Definition outside (g : gene) : bool := negb (contains core0 (snd g)).

(* a run: every gene outside the core satisfies the extender condition and is within the cutoff
   (distance <= cutoff, as the code breaks on >) of the previous accepted gene *)
Fixpoint run_ok (prev : loc) (l : list gene) : Prop :=
  match l with
  | [] => True
  | g :: rest =>
    if outside g then dist (snd g) prev w <= r_cut r /\ can_extend hs r g = true /\ run_ok (snd g) rest
    else run_ok prev rest
  end.
Fixpoint last_loc (prev : loc) (l : list gene) : loc :=
  match l with [] => prev | g :: rest => last_loc (if outside g then snd g else prev) rest end.

(* soundness: everything yielded is outside the old core and satisfies the extender condition *)
Lemma mark_sound walk : forall prev g, In g (mark N circular hs r core0 prev walk) ->
  In g walk /\ outside g = true /\ can_extend hs r g = true.
Proof.
  induction walk as [|x rest IH]; intros prev g Hin; [destruct Hin|].
  cbn [mark] in Hin. unfold outside.
  destruct (contains core0 (snd x)) eqn:Hc.
  - destruct (IH _ _ Hin) as (H1 & H2 & H3). repeat split; [right; exact H1|exact H2|exact H3].
  - destruct (r_cut r <? dist (snd x) prev (wrap_of N circular)) eqn:Hd; [destruct Hin|].
    destruct (can_extend hs r x) eqn:He.
    + destruct Hin as [<-|Hin].
      * repeat split; [left; reflexivity|rewrite Hc; reflexivity|exact He].
      * destruct (IH _ _ Hin) as (H1 & H2 & H3). repeat split; [right; exact H1|exact H2|exact H3].
    + destruct (IH _ _ Hin) as (H1 & H2 & H3). repeat split; [right; exact H1|exact H2|exact H3].
Qed.

(* completeness: a run is accepted as a whole, and the walk continues behind it from its last gene *)
Lemma mark_run pre : forall prev post, run_ok prev pre ->
  mark N circular hs r core0 prev (pre ++ post) =
  filter outside pre ++ mark N circular hs r core0 (last_loc prev pre) post.
Proof.
  induction pre as [|x rest IH]; intros prev post Hrun; [reflexivity|].
  cbn [app mark filter last_loc run_ok] in *. unfold outside in *.
  destruct (contains core0 (snd x)) eqn:Hc; cbn [negb] in *.
  - apply IH. exact Hrun.
  - destruct Hrun as (Hd & He & Hrest). fold w.
    assert (Hlt : (r_cut r <? dist (snd x) prev w) = false) by (apply Z.ltb_ge; exact Hd).
    rewrite Hlt, He. cbn [app]. f_equal. apply IH. exact Hrest.
Qed.

(* maximality: the walk stops at the first gene outside the core that is farther than the cutoff *)
Lemma mark_stop skip g rest prev :
  forallb (fun x => negb (outside x)) skip = true -> outside g = true ->
  r_cut r < dist (snd g) prev w ->
  mark N circular hs r core0 prev (skip ++ g :: rest) = [].
Proof.
  induction skip as [|x skip IH]; intros Hskip Hg Hd.
  - cbn [app mark]. unfold outside in Hg. apply negb_true_iff in Hg. rewrite Hg. fold w.
    assert (Hlt : (r_cut r <? dist (snd g) prev w) = true) by (apply Z.ltb_lt; exact Hd).
    rewrite Hlt. reflexivity.
  - cbn [forallb] in Hskip. apply andb_true_iff in Hskip. destruct Hskip as [Hx Hskip].
    cbn [app mark]. unfold outside in Hx. rewrite negb_involutive in Hx. rewrite Hx.
    apply IH; assumption.
Qed.
End ExtenderProofs.

(* the core only grows along accepted genes: on a linear record connect_locations is the hull
   (C04_connect_line), here the statement is about which genes are joined *)
Lemma extenders_none N circular hs r core0 prev walk :
  r_ext r = None -> mark N circular hs r core0 prev walk = [].
Proof.
  intro Hn. revert prev. induction walk as [|x rest IH]; intro prev; [reflexivity|].
  cbn [mark]. destruct (contains core0 (snd x)); [apply IH|].
  destruct (r_cut r <? dist (snd x) prev (wrap_of N circular)); [reflexivity|].
  unfold can_extend. rewrite Hn. apply IH.
Qed.

(* ---------- merge_over_origin.merge_pair: the neighbourhood of a merged protocluster ---------- *)
Ltac unbind H :=
  repeat match type of H with
         | bind ?x _ = Ok _ => let E := fresh "E" in destruct x eqn:E; cbn [bind] in H; [|discriminate H]
         end.
Ltac unif H :=
  match type of H with
  | (if ?c then _ else _) = Ok _ => let E := fresh "C" in destruct c eqn:E; [discriminate H|]
  end.

(* _extend_area_location never hands back more parts than the record type allows (the last check
   of the function), whatever the distance: no three-part neighbourhood *)
Lemma extend_area_parts l d N circular force r :
  extend_area l d N circular force = Ok r -> zlen r <= (if circular then 2 else 1).
Proof.
  unfold extend_area. intro H.
  unif H. unbind H. unif H. unbind H.
  match type of H with (if ?c then _ else _) = Ok _ => destruct c eqn:Hz; [discriminate H|] end.
  inversion H; subst. apply Z.ltb_ge in Hz. exact Hz.
Qed.

(* the merged protocluster: core = connect_locations of the two cores, rule = the first cluster's, and
   the neighbourhood is the capped, forward-stranded area extension of that core (the function used for
   every unmerged protocluster) - or, when that extension fills the record without crossing the origin
   although the core crosses it, the two forward parts of the halfway split *)
Lemma merge_pair_area N circular rules a b m :
  merge_pair N circular rules a b = Ok m ->
  exists core sur0,
    connect_locations [p_core a; p_core b] (wrap_of N circular) = Ok core /\
    extend_area core (r_nb (nth_rule rules (p_rule a))) N circular false = Ok sur0 /\
    zlen sur0 <= (if circular then 2 else 1) /\
    p_rule m = p_rule a /\ p_core m = core /\
    (p_sur m = sur0 \/
     (bridges core = true /\ llen sur0 = N /\ bridges sur0 = false /\
      exists x y, p_sur m = [mkPart x N 1; mkPart 0 y 1])).
Proof.
  unfold merge_pair. intro H. unbind H.
  match goal with
  | E0 : connect_locations _ _ = Ok ?c, E1 : extend_area ?c _ _ _ _ = Ok ?s0 |- _ =>
    exists c, s0; split; [reflexivity|]; split; [exact E1|]; split; [eapply extend_area_parts; exact E1|]
  end.
  inversion H; subst m. cbn [p_rule p_core p_sur fst snd].
  split; [reflexivity|]. split; [reflexivity|].
  match goal with
  | E2 : (if ?c then _ else _) = Ok _ |- _ => destruct c eqn:Hc
  end.
  - right. apply andb_true_iff in Hc. destruct Hc as [Hc Hb]. apply andb_true_iff in Hc. destruct Hc as [Hl Hn].
    apply Z.eqb_eq in Hl. apply negb_true_iff in Hn.
    split; [exact Hb|]. split; [exact Hl|]. split; [exact Hn|].
    match goal with E2 : match ?c with _ => _ end = Ok _ |- _ => destruct c as [|p0 [|p1 rest]]; try discriminate E2; rename E2 into Hs end.
    unbind Hs. inversion Hs; subst.
    repeat match goal with
           | E : mkFL ?a ?b ?c = Ok _ |- _ => unfold mkFL in E; destruct (b <? a); [discriminate E|]; inversion E; subst; clear E
           end.
    eexists; eexists; reflexivity.
  - left. match goal with E2 : Ok _ = Ok _ |- _ => inversion E2; reflexivity end.
Qed.
