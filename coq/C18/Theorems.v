(* C18 - property theorems.  f : A -> res B is an arbitrary task function (a call returns or raises);
   `sequential f args` is [f( *a) for a in args]; a schedule is an arbitrary list of pool events
   (starts, finishes, worker deaths, clock ticks, in any order, including senseless ones). *)
From ASV Require Import Base.
From ASV.C18 Require Import Model Proofs.

(* the `cpus == 1 and timeout is None` shortcut (cpus given, or defaulted from the configuration; no timeout
   asked for) is the sequential run, whatever the schedule *)
Theorem C18_cpus1 : forall (A B : Type) (f : A -> res B) cfg cpus sched (args : list A),
  effective_cpus cfg cpus = 1 ->
  parallel_function f cfg cpus None sched args = sequential f args.
Proof. exact @cpus1_is_map. Qed.
Print Assumptions C18_cpus1.

(* ... and with a timeout there is no shortcut for any worker count: one worker means a pool of one worker, the
   same dispatcher as parallel_execute (repair of finding C18-K2) *)
Theorem C18_function_with_timeout_is_pool : forall (A B : Type) (f : A -> res B) cfg cpus t sched (args : list A),
  parallel_function f cfg cpus (Some t) sched args = parallel_execute f cfg cpus (Some t) sched args.
Proof. exact @function_timeout_is_pool. Qed.
Print Assumptions C18_function_with_timeout_is_pool.

(* for every worker count, every batch, every timeout and EVERY schedule (any completion order, worker
   deaths included): a list returned by parallel_function is the list of the sequential run *)
Theorem C18_order : forall (A B : Type) (f : A -> res B) cfg cpus timeout sched (args : list A) out,
  parallel_function f cfg cpus timeout sched args = Ok out -> sequential f args = Ok out.
Proof. exact @order_sound. Qed.
Print Assumptions C18_order.

(* ... i.e. it is neither shorter nor reordered: one result per call, the i-th is the i-th call's *)
Theorem C18_order_pointwise : forall (A B : Type) (f : A -> res B) cfg cpus timeout sched (args : list A) out,
  parallel_function f cfg cpus timeout sched args = Ok out ->
  length out = length args /\
  forall i a, nth_error args i = Some a -> exists r, nth_error out i = Some r /\ f a = Ok r.
Proof. exact @order_pointwise. Qed.
Print Assumptions C18_order_pointwise.

(* if some call raises, the outcome is an error for every worker count and every schedule - never a list *)
Theorem C18_failure_surfaces : forall (A B : Type) (f : A -> res B) cfg cpus timeout sched (args : list A) e0,
  sequential f args = Err e0 ->
  exists e, parallel_function f cfg cpus timeout sched args = Err e.
Proof. exact @failure_surfaces. Qed.
Print Assumptions C18_failure_surfaces.

(* which error: an invalid worker count (ValueError), the timeout (RuntimeError, only if a timeout was given - for
   any worker count), a get() that never returns (only with the pool: more than one worker, or a timeout), or the
   exception of one of the calls *)
Theorem C18_failure_kind : forall (A B : Type) (f : A -> res B) cfg cpus timeout sched (args : list A) e,
  parallel_function f cfg cpus timeout sched args = Err e ->
  (e = E_Value /\ effective_cpus cfg cpus < 1) \/
  (e = E_Runtime /\ timeout <> None) \/
  (e = E_Fuel /\ (effective_cpus cfg cpus <> 1 \/ timeout <> None)) \/
  exists a, In a args /\ f a = Err e.
Proof. exact @failure_kind. Qed.
Print Assumptions C18_failure_kind.

(* hence, when no call raises: for every schedule the outcome is the sequential list, the timeout, or a
   call that never returns - never another list, never another error *)
Theorem C18_no_spurious_outcome : forall (A B : Type) (f : A -> res B) cfg cpus timeout sched (args : list A) rs,
  1 <= effective_cpus cfg cpus -> sequential f args = Ok rs ->
  parallel_function f cfg cpus timeout sched args = Ok rs \/
  (parallel_function f cfg cpus timeout sched args = Err E_Runtime /\ timeout <> None) \/
  parallel_function f cfg cpus timeout sched args = Err E_Fuel.
Proof. exact @no_spurious_outcome. Qed.
Print Assumptions C18_no_spurious_outcome.

(* the pool: when all chunks report before the timeout (completes = true) the result is the sequential list,
   or - if calls raise - the exception of one of the raising calls ... *)
Theorem C18_ready_is_sequential : forall (A B : Type) (f : A -> res B) procs timeout sched (args : list A),
  1 <= procs ->
  completes f procs (make_chunks procs args) timeout sched (init_state B (make_chunks procs args)) = true ->
  match sequential f args with
  | Ok rs => pool_map f procs timeout sched args = Ok rs
  | Err _ => exists e a, pool_map f procs timeout sched args = Err e /\ In a args /\ f a = Err e
  end.
Proof. exact @ready_is_sequential. Qed.
Print Assumptions C18_ready_is_sequential.

(* ... and when they do not (timeout reached first, or a chunk lost with a dead worker) the outcome is the
   timeout error or a call that never returns: never a partial list *)
Theorem C18_not_ready_is_error : forall (A B : Type) (f : A -> res B) procs timeout sched (args : list A),
  1 <= procs ->
  completes f procs (make_chunks procs args) timeout sched (init_state B (make_chunks procs args)) = false ->
  (pool_map f procs timeout sched args = Err E_Runtime /\ timeout <> None) \/
  pool_map f procs timeout sched args = Err E_Fuel.
Proof. exact @not_ready_is_error. Qed.
Print Assumptions C18_not_ready_is_error.

(* the statements above are not vacuous: for every worker count >= 1 and every batch whose calls all return
   there is a schedule under which parallel_function returns (the sequential list) *)
Theorem C18_completing_schedule_exists : forall (A B : Type) (f : A -> res B) cfg cpus (args : list A) rs,
  1 <= effective_cpus cfg cpus -> sequential f args = Ok rs ->
  exists sched, parallel_function f cfg cpus None sched args = Ok rs.
Proof. exact @completing_schedule_exists. Qed.
Print Assumptions C18_completing_schedule_exists.

(* CPython's chunking keeps the batch: the chunks, concatenated in chunk order, are the argument list *)
Theorem C18_chunks_partition : forall (A : Type) procs (args : list A),
  1 <= procs -> concat (make_chunks procs args) = args.
Proof. exact @make_chunks_concat. Qed.
Print Assumptions C18_chunks_partition.

(* parallel_execute (no shortcut): same two clauses *)
Theorem C18_execute_order : forall (A B : Type) (f : A -> res B) cfg cpus timeout sched (cmds : list A) out,
  parallel_execute f cfg cpus timeout sched cmds = Ok out -> sequential f cmds = Ok out.
Proof. exact @execute_order_sound. Qed.
Print Assumptions C18_execute_order.

Theorem C18_execute_failure_surfaces : forall (A B : Type) (f : A -> res B) cfg cpus timeout sched (cmds : list A) e0,
  sequential f cmds = Err e0 ->
  exists e, parallel_execute f cfg cpus timeout sched cmds = Err e.
Proof. exact @execute_failure_surfaces. Qed.
Print Assumptions C18_execute_failure_surfaces.

(* the decidable specification evaluated on every implementation output at run time: the model satisfies it
   whenever get() returns, and an accepted list is the sequential list *)
Theorem C18_model_meets_spec : forall cfg cpus timeout sched (tasks : list (res Z)),
  parallel_function (fun t => t) cfg cpus timeout sched tasks <> Err E_Fuel ->
  spec_ok cfg cpus timeout tasks (parallel_function (fun t => t) cfg cpus timeout sched tasks) = true.
Proof. exact model_meets_spec. Qed.
Print Assumptions C18_model_meets_spec.

Theorem C18_spec_ok_sound : forall cfg cpus timeout (tasks : list (res Z)) vs,
  spec_ok cfg cpus timeout tasks (Ok vs) = true -> sequential (fun t => t) tasks = Ok vs.
Proof. exact spec_ok_sound. Qed.
Print Assumptions C18_spec_ok_sound.

(* "surfaces as an error" fails for a dying worker process without timeout: the call never returns
   (known finding C18-K1; the guard of the liveness statements, completes = true, excludes it).
   3 workers, 4 calls that all return, worker 1 dies with its chunk: *)
Theorem C18_worker_death_hangs_refuted :
  exists (sched : list event) (args : list (res Z)) rs,
    sequential (fun t => t) args = Ok rs /\
    parallel_function (fun t => t) 2 3 None sched args = Err E_Fuel.
Proof.
  exists [Start 0; Start 1; Start 2; Finish 0; Crash 1; Finish 2; Start 0; Start 1; Finish 0; Finish 1],
         [Ok 10; Ok 11; Ok 12; Ok 13], [10; 11; 12; 13].
  split; vm_compute; reflexivity.
Qed.
Print Assumptions C18_worker_death_hangs_refuted.

(* ---- record_processing.pre_process_sequences, the caller through which Records cross the process boundary.
   gf is an arbitrary gene finder, o the options, cfg the configured worker count, sched1/sched2 arbitrary schedules
   of the two pools; pre_process_inproc is the same pipeline with every call made in-process ---- *)

(* "same result for every worker count": whatever the worker count and the schedules, a returned
   (triggered_limit, records) is the in-process result - whole records, all fields of the model *)
Theorem C18_preprocess_workers_irrelevant : forall gf o cfg sched1 sched2 recs out,
  pre_process gf o cfg sched1 sched2 recs = Ok out -> pre_process_inproc gf o recs = Ok out.
Proof. exact preprocess_workers_irrelevant. Qed.
Print Assumptions C18_preprocess_workers_irrelevant.

(* an error of the in-process run (empty sequence, no record matching the filter, a raising gene finder, all records
   skipped) is an error for every worker count - never a list *)
Theorem C18_preprocess_failure_surfaces : forall gf o cfg sched1 sched2 recs e0,
  pre_process_inproc gf o recs = Err e0 -> exists e, pre_process gf o cfg sched1 sched2 recs = Err e.
Proof. exact preprocess_failure_surfaces. Qed.
Print Assumptions C18_preprocess_failure_surfaces.

(* one configured worker: the in-process run itself *)
Theorem C18_preprocess_cpus1 : forall gf o sched1 sched2 recs,
  pre_process gf o 1 sched1 sched2 recs = pre_process_inproc gf o recs.
Proof. exact preprocess_cpus1. Qed.
Print Assumptions C18_preprocess_cpus1.

(* when the in-process run returns, the run with workers returns the same or never returns (no timeout is passed,
   so a lost chunk hangs: finding C18-K1); no other list, no error *)
Theorem C18_preprocess_no_spurious_outcome : forall gf o cfg sched1 sched2 recs out,
  1 <= cfg -> pre_process_inproc gf o recs = Ok out ->
  pre_process gf o cfg sched1 sched2 recs = Ok out \/ pre_process gf o cfg sched1 sched2 recs = Err E_Fuel.
Proof. exact preprocess_no_spurious_outcome. Qed.
Print Assumptions C18_preprocess_no_spurious_outcome.

(* not vacuous: for every worker count >= 1 and every batch there are schedules under which it returns *)
Theorem C18_preprocess_completing_schedules_exist : forall gf o cfg recs out,
  1 <= cfg -> pre_process_inproc gf o recs = Ok out ->
  exists sched1 sched2, pre_process gf o cfg sched1 sched2 recs = Ok out.
Proof. exact preprocess_completing_schedules_exist. Qed.
Print Assumptions C18_preprocess_completing_schedules_exist.

(* "records come back with the same content": with sanitising on and a gene finder that leaves id, index and sequence
   alone, the returned records are - in argument order, one per input record - the input ids, the indices 1..n and
   the sanitised input sequences, for every worker count and schedule *)
Theorem C18_preprocess_keeps_batch : forall gf o cfg sched1 sched2 recs hit out,
  gf_keeps gf -> o_checking o = true ->
  pre_process gf o cfg sched1 sched2 recs = Ok (hit, out) ->
  map r_id out = map r_id recs /\
  map r_index out = zrange 1 (length recs) /\
  map r_seq out = map (fun r => fst (sanitise_chars (r_seq r))) recs.
Proof. exact preprocess_keeps_batch. Qed.
Print Assumptions C18_preprocess_keeps_batch.

(* sanitise_sequence always returns; the result has bases A C G T N only, is a fixed point of sanitising (so it does
   not matter whether a worker's copy or the caller's instance was sanitised, or both), keeps id, index, features and
   the rest, and carries the flag "contains no sequence" exactly when the input has no a/c/g/t in either case *)
Theorem C18_sanitise_spec : forall r, exists r',
  sanitise_sequence r = Ok r' /\
  Forall clean_base (r_seq r') /\
  sanitise_sequence r' = Ok r' /\
  r_id r' = r_id r /\ r_index r' = r_index r /\ r_ncds r' = r_ncds r /\ r_rest r' = r_rest r /\
  r_skip r' = (if existsb (fun c => is_acgt (upper c)) (r_seq r) then r_skip r else S_NoSeq).
Proof. exact sanitise_spec. Qed.
Print Assumptions C18_sanitise_spec.

(* the decidable specification evaluated on every pre_process_sequences output at run time *)
Theorem C18_preprocess_model_meets_spec : forall gf o cfg sched1 sched2 recs,
  1 <= cfg -> pre_process gf o cfg sched1 sched2 recs <> Err E_Fuel ->
  pp_spec_ok gf o recs (pre_process gf o cfg sched1 sched2 recs) = true.
Proof. exact pp_model_meets_spec. Qed.
Print Assumptions C18_preprocess_model_meets_spec.

Theorem C18_preprocess_spec_ok_sound : forall gf o recs x,
  pp_spec_ok gf o recs (Ok x) = true -> pre_process_inproc gf o recs = Ok x.
Proof. exact pp_spec_ok_sound. Qed.
Print Assumptions C18_preprocess_spec_ok_sound.

(* ---- the timeout clause.  Every call has a duration class: slow a = true, it runs longer than the timeout;
   false, its running time is negligible.  dispatch_spec is the sequential specification of the dispatcher,
   independent of the worker count: an error when any call exceeds the timeout or raises, otherwise the list of
   results in argument order.  respects_durations: no chunk with a slow call reports before the clock shows the
   timeout (true of every real run, whatever the load); timely: in addition the clock only advances while a
   chunk with a slow call runs ---- *)

(* "a timeout surfaces as an error", parallel_execute, for EVERY worker count (one worker included): a batch
   with a call exceeding the timeout never comes back as a list *)
Theorem C18_execute_timeout_surfaces : forall (A B : Type) (f : A -> res B) slow cfg cpus t sched (cmds : list A),
  respects_durations f slow (effective_cpus cfg cpus) (Some t) sched cmds = true -> existsb slow cmds = true ->
  exists e, parallel_execute f cfg cpus (Some t) sched cmds = Err e.
Proof. exact @execute_timeout_surfaces. Qed.
Print Assumptions C18_execute_timeout_surfaces.

(* ... and when no call raises the error is the timeout's RuntimeError (or the call does not return because
   the schedule ends first) *)
Theorem C18_execute_timeout_kind : forall (A B : Type) (f : A -> res B) slow cfg cpus t sched (cmds : list A) rs,
  1 <= effective_cpus cfg cpus ->
  respects_durations f slow (effective_cpus cfg cpus) (Some t) sched cmds = true -> existsb slow cmds = true ->
  sequential f cmds = Ok rs ->
  parallel_execute f cfg cpus (Some t) sched cmds = Err E_Runtime \/
  parallel_execute f cfg cpus (Some t) sched cmds = Err E_Fuel.
Proof. exact @execute_timeout_kind. Qed.
Print Assumptions C18_execute_timeout_kind.

(* parallel_function: the same clause for EVERY worker count, one worker included (no guard; before the repair of
   finding C18-K2 this needed `effective_cpus cfg cpus <> 1`) *)
Theorem C18_function_timeout_surfaces :
  forall (A B : Type) (f : A -> res B) slow cfg cpus t sched (args : list A),
  respects_durations f slow (effective_cpus cfg cpus) (Some t) sched args = true -> existsb slow args = true ->
  exists e, parallel_function f cfg cpus (Some t) sched args = Err e.
Proof. exact @function_timeout_surfaces. Qed.
Print Assumptions C18_function_timeout_surfaces.

Theorem C18_function_timeout_kind : forall (A B : Type) (f : A -> res B) slow cfg cpus t sched (args : list A) rs,
  1 <= effective_cpus cfg cpus ->
  respects_durations f slow (effective_cpus cfg cpus) (Some t) sched args = true -> existsb slow args = true ->
  sequential f args = Ok rs ->
  parallel_function f cfg cpus (Some t) sched args = Err E_Runtime \/
  parallel_function f cfg cpus (Some t) sched args = Err E_Fuel.
Proof. exact @function_timeout_kind. Qed.
Print Assumptions C18_function_timeout_kind.

(* the class of the repaired finding C18-K2, stated positively: ONE effective worker (given, or through the
   configuration), a call exceeding the timeout, no call raising - under every schedule of the one-worker pool in
   which the slow chunk does not report early the outcome is the timeout's RuntimeError (or the schedule ends before
   get() returns); never the list that used to come back *)
Theorem C18_function_timeout_surfaces_cpus1 :
  forall (A B : Type) (f : A -> res B) slow cfg cpus t sched (args : list A) rs,
  effective_cpus cfg cpus = 1 ->
  respects_durations f slow 1 (Some t) sched args = true -> existsb slow args = true ->
  sequential f args = Ok rs ->
  (parallel_function f cfg cpus (Some t) sched args = Err E_Runtime \/
   parallel_function f cfg cpus (Some t) sched args = Err E_Fuel) /\
  parallel_function f cfg cpus (Some t) sched args <> Ok rs.
Proof.
  intros A B f slow cfg cpus t sched args rs H1 Hr Hs Hseq.
  assert (Hc : 1 <= effective_cpus cfg cpus) by (rewrite H1; apply Z.le_refl).
  rewrite <- H1 in Hr.
  destruct (function_timeout_kind f slow cfg cpus t sched args rs Hc Hr Hs Hseq) as [H|H];
    (split; [|rewrite H; discriminate]); [left|right]; exact H.
Qed.
Print Assumptions C18_function_timeout_surfaces_cpus1.

(* for every worker count >= 1, every usable timeout and every timely schedule: the outcome of parallel_execute
   IS the dispatcher's sequential specification (same list; or an error on both sides), unless the schedule
   ends before get() returns *)
Theorem C18_execute_equals_dispatch_spec :
  forall (A B : Type) (f : A -> res B) slow cfg cpus timeout sched (cmds : list A),
  1 <= effective_cpus cfg cpus -> timeout_pos timeout = true ->
  timely f slow (effective_cpus cfg cpus) timeout sched cmds = true ->
  parallel_execute f cfg cpus timeout sched cmds = Err E_Fuel \/
  same_outcome (parallel_execute f cfg cpus timeout sched cmds) (dispatch_spec f slow timeout cmds).
Proof. exact @execute_equals_dispatch_spec. Qed.
Print Assumptions C18_execute_equals_dispatch_spec.

(* parallel_function: the same, for every worker count >= 1 (no guard any more) *)
Theorem C18_function_equals_dispatch_spec :
  forall (A B : Type) (f : A -> res B) slow cfg cpus timeout sched (args : list A),
  1 <= effective_cpus cfg cpus -> timeout_pos timeout = true ->
  timely f slow (effective_cpus cfg cpus) timeout sched args = true ->
  parallel_function f cfg cpus timeout sched args = Err E_Fuel \/
  same_outcome (parallel_function f cfg cpus timeout sched args) (dispatch_spec f slow timeout args).
Proof. exact @function_equals_dispatch_spec. Qed.
Print Assumptions C18_function_equals_dispatch_spec.

(* hence the outcome does not depend on the worker count: any two worker counts, each with its own timely
   schedule, give the same list or both an error *)
Theorem C18_execute_workers_irrelevant :
  forall (A B : Type) (f : A -> res B) slow cfg1 cpus1 cfg2 cpus2 timeout sched1 sched2 (cmds : list A),
  1 <= effective_cpus cfg1 cpus1 -> 1 <= effective_cpus cfg2 cpus2 -> timeout_pos timeout = true ->
  timely f slow (effective_cpus cfg1 cpus1) timeout sched1 cmds = true ->
  timely f slow (effective_cpus cfg2 cpus2) timeout sched2 cmds = true ->
  parallel_execute f cfg1 cpus1 timeout sched1 cmds <> Err E_Fuel ->
  parallel_execute f cfg2 cpus2 timeout sched2 cmds <> Err E_Fuel ->
  same_outcome (parallel_execute f cfg1 cpus1 timeout sched1 cmds) (parallel_execute f cfg2 cpus2 timeout sched2 cmds).
Proof. exact @execute_workers_irrelevant. Qed.
Print Assumptions C18_execute_workers_irrelevant.

(* ... and the same for parallel_function, one worker included *)
Theorem C18_function_workers_irrelevant :
  forall (A B : Type) (f : A -> res B) slow cfg1 cpus1 cfg2 cpus2 timeout sched1 sched2 (args : list A),
  1 <= effective_cpus cfg1 cpus1 -> 1 <= effective_cpus cfg2 cpus2 -> timeout_pos timeout = true ->
  timely f slow (effective_cpus cfg1 cpus1) timeout sched1 args = true ->
  timely f slow (effective_cpus cfg2 cpus2) timeout sched2 args = true ->
  parallel_function f cfg1 cpus1 timeout sched1 args <> Err E_Fuel ->
  parallel_function f cfg2 cpus2 timeout sched2 args <> Err E_Fuel ->
  same_outcome (parallel_function f cfg1 cpus1 timeout sched1 args) (parallel_function f cfg2 cpus2 timeout sched2 args).
Proof. exact @function_workers_irrelevant. Qed.
Print Assumptions C18_function_workers_irrelevant.

(* not vacuous, for every worker count >= 1 and every timeout >= 1: a batch without slow calls whose calls all
   return has a timely schedule under which it comes back in spite of the timeout *)
Theorem C18_timely_completing_schedule_exists :
  forall (A B : Type) (f : A -> res B) slow cfg cpus t (cmds : list A) rs,
  1 <= effective_cpus cfg cpus -> 1 <= t -> existsb slow cmds = false -> sequential f cmds = Ok rs ->
  exists sched, timely f slow (effective_cpus cfg cpus) (Some t) sched cmds = true /\
                parallel_execute f cfg cpus (Some t) sched cmds = Ok rs.
Proof. exact @timely_completing_schedule_exists. Qed.
Print Assumptions C18_timely_completing_schedule_exists.

(* the decidable specification with duration classes, evaluated on every implementation output of
   parallel_function / parallel_execute at run time (jobs = (duration class, sequential outcome)): an accepted
   output is the outcome of dispatch_spec; an accepted list means no job exceeds the timeout and is the
   sequential list; the model meets it under timely schedules (both helpers, every worker count);
   it is at least as strict as spec_ok *)
Theorem C18_timed_spec_ok_sound : forall cfg cpus timeout (jobs : list (bool * res Z)) out,
  1 <= effective_cpus cfg cpus -> tspec_ok cfg cpus timeout jobs out = true ->
  same_outcome out (dispatch_spec snd fst timeout jobs).
Proof. exact tspec_ok_sound. Qed.
Print Assumptions C18_timed_spec_ok_sound.

Theorem C18_timed_spec_ok_list_sound : forall cfg cpus timeout (jobs : list (bool * res Z)) vs,
  tspec_ok cfg cpus timeout jobs (Ok vs) = true ->
  any_exceeds fst timeout jobs = false /\ sequential snd jobs = Ok vs.
Proof. exact tspec_ok_list_sound. Qed.
Print Assumptions C18_timed_spec_ok_list_sound.

Theorem C18_execute_meets_timed_spec : forall cfg cpus timeout sched (jobs : list (bool * res Z)),
  timeout_pos timeout = true ->
  timely snd fst (effective_cpus cfg cpus) timeout sched jobs = true ->
  parallel_execute snd cfg cpus timeout sched jobs <> Err E_Fuel ->
  tspec_ok cfg cpus timeout jobs (parallel_execute snd cfg cpus timeout sched jobs) = true.
Proof. exact execute_meets_tspec. Qed.
Print Assumptions C18_execute_meets_timed_spec.

Theorem C18_function_meets_timed_spec : forall cfg cpus timeout sched (jobs : list (bool * res Z)),
  timeout_pos timeout = true ->
  timely snd fst (effective_cpus cfg cpus) timeout sched jobs = true ->
  parallel_function snd cfg cpus timeout sched jobs <> Err E_Fuel ->
  tspec_ok cfg cpus timeout jobs (parallel_function snd cfg cpus timeout sched jobs) = true.
Proof. exact function_meets_tspec. Qed.
Print Assumptions C18_function_meets_timed_spec.

Theorem C18_timed_spec_refines_spec : forall cfg cpus timeout (jobs : list (bool * res Z)) out,
  tspec_ok cfg cpus timeout jobs out = true -> spec_ok cfg cpus timeout (map snd jobs) out = true.
Proof. exact tspec_refines_spec. Qed.
Print Assumptions C18_timed_spec_refines_spec.

(* ---- non-vacuity: concrete inputs meeting the hypotheses ---- *)
(* 3 workers, 5 calls, completion order 2,1,0 then 4,3: the list comes back in argument order *)
Example C18_ex_reordered :
  parallel_function (fun t => t) 2 3 None
    [Start 0; Start 1; Start 2; Finish 2; Finish 1; Finish 0; Start 1; Start 0; Finish 0; Finish 1]
    [Ok 10; Ok 11; Ok 12; Ok 13; Ok 14] = Ok [10; 11; 12; 13; 14].
Proof. vm_compute. reflexivity. Qed.

(* 2 workers, 9 calls: chunks of 2; the chunk finishing first carries the exception that surfaces (kind 4),
   although the call raising kind 1 comes first in argument order; with one worker kind 1 surfaces *)
Example C18_ex_failure :
  let args := [Ok 1; Err 1; Ok 3; Ok 4; Ok 5; Err 4; Ok 7; Ok 8; Ok 9] in
  sequential (fun t => t) args = Err 1 /\
  parallel_function (fun t => t) 2 2 None
    [Start 0; Start 1; Finish 0; Start 0; Finish 0; Finish 1; Start 0; Finish 0; Start 1; Finish 1] args = Err 1 /\
  parallel_function (fun t => t) 2 2 None
    [Start 0; Start 1; Finish 1; Start 1; Finish 1; Finish 0; Start 1; Finish 1; Start 1; Finish 1] args = Err 4 /\
  parallel_function (fun t => t) 2 1 None [] args = Err 1.
Proof. vm_compute. repeat split; reflexivity. Qed.

(* timeout after one tick with a chunk still running: RuntimeError; the same schedule without timeout completes *)
Example C18_ex_timeout :
  parallel_function (fun t => t) 2 2 (Some 1) [Start 0; Start 1; Finish 0; Tick; Finish 1] [Ok 1; Ok 2] = Err E_Runtime /\
  parallel_function (fun t => t) 2 2 None [Start 0; Start 1; Finish 0; Tick; Finish 1] [Ok 1; Ok 2] = Ok [1; 2] /\
  completes (fun t : res Z => t) 2 (make_chunks 2 [Ok 1; Ok 2]) (Some 1) [Start 0; Start 1; Finish 0; Tick; Finish 1]
            (init_state Z (make_chunks 2 [Ok 1; Ok 2])) = false.
Proof. vm_compute. repeat split; reflexivity. Qed.

(* the worker count defaults to the configuration; one worker without a timeout runs in-process (no schedule
   needed), with a timeout - 0 included - it is a pool: timeout 0 expires before anything can be ready; an invalid
   count is a ValueError *)
Example C18_ex_cpus :
  effective_cpus 1 0 = 1 /\
  parallel_function (fun t => t) 1 0 None [] [Ok 1; Ok 2] = Ok [1; 2] /\
  parallel_function (fun t => t) 1 0 (Some 0) [] [Ok 1; Ok 2] = Err E_Runtime /\
  parallel_function (fun t => t) 1 0 (Some 5) [Start 0; Finish 0; Start 0; Finish 0] [Ok 1; Ok 2] = Ok [1; 2] /\
  parallel_function (fun t => t) (-2) 0 None [] [Ok 1] = Err E_Value.
Proof. vm_compute. repeat split; reflexivity. Qed.

(* pre-processing with 2 workers, 3 records (3 chunks), completion order reversed in both pools: record 2 has only
   gaps/unknown bases but an annotated CDS - it comes back with its sequence sanitised ("n-N-" -> "NN") AND the flag
   "contains no sequence" set on the worker's copy; record 3 has no CDS and gets "No genes found" (gene finding off) *)
Example C18_ex_preprocess :
  let sched := [Start 0; Start 1; Finish 1; Finish 0; Start 1; Finish 1] in
  let recs := [mkR 1 0 [97; 67; 45; 103; 82] 0 1 500; mkR 2 0 [110; 45; 78; 45] 0 1 600; mkR 3 0 [65; 65] 0 0 700] in
  let o := mkO true None 0 (-1) false in
  pre_process (fun r => Ok r) o 2 sched sched recs
  = Ok (false, [mkR 1 1 [65; 67; 71; 78] 0 1 500; mkR 2 2 [78; 78] S_NoSeq 1 600; mkR 3 3 [65; 65] S_NoGenes 0 700]) /\
  pre_process_inproc (fun r => Ok r) o recs = pre_process (fun r => Ok r) o 2 sched sched recs /\
  gf_keeps (fun r => Ok r).
Proof. split; [vm_compute; reflexivity|]. split; [vm_compute; reflexivity|]. intros r r' H. inversion H. reflexivity. Qed.

(* the timeout clause with ONE worker in the pool and with three, for both helpers: jobs 0 and 2 are negligible,
   job 1 exceeds the timeout of 2 ticks.  The schedules are timely; the outcome is the timeout error, as
   dispatch_spec says; the decidable specification accepts it and rejects the list; parallel_function with one
   worker (given directly, or through the configuration) gives the same error as with three - the witness of the
   repaired finding C18-K2 - and without a timeout the list, in-process *)
Example C18_ex_timeout_one_worker :
  let jobs := [(false, Ok 10); (true, Ok 11); (false, Ok 12)] in
  let s1 := [Start 0; Finish 0; Start 0; Tick; Tick; Finish 0; Start 0; Finish 0] in
  let s3 := [Start 0; Start 1; Start 2; Finish 2; Finish 0; Tick; Tick; Finish 1] in
  timely snd fst 1 (Some 2) s1 jobs = true /\ timely snd fst 3 (Some 2) s3 jobs = true /\
  parallel_execute snd 2 1 (Some 2) s1 jobs = Err E_Runtime /\
  parallel_execute snd 2 3 (Some 2) s3 jobs = Err E_Runtime /\
  dispatch_spec snd fst (Some 2) jobs = Err E_Runtime /\
  parallel_execute snd 2 1 None s1 jobs = Ok [10; 11; 12] /\
  tspec_ok 2 1 (Some 2) jobs (Err E_Runtime) = true /\ tspec_ok 2 1 (Some 2) jobs (Ok [10; 11; 12]) = false /\
  parallel_function snd 2 1 (Some 2) s1 jobs = Err E_Runtime /\ parallel_function snd 1 0 (Some 2) s1 jobs = Err E_Runtime /\
  parallel_function snd 2 3 (Some 2) s3 jobs = Err E_Runtime /\ parallel_function snd 2 1 None [] jobs = Ok [10; 11; 12] /\
  finding_K2 2 1 (Some 2) jobs = false.
Proof. vm_compute. repeat split; reflexivity. Qed.

(* ================================================================================================
   pre_process_sequences, the identifier block (duplicate pass, fix_record_name_id loop, sanitise batch):
   "records ... come back with the same content as if processed in-process" for id, name, original_id.
   cn is the contig number function of _shorten_ids (C16.Model.contig_no for the code as it is); allow is
   options.allow_long_headers; a record is (identifier part, body).
   ================================================================================================ *)

(* for every worker count, schedule, both allow_long_headers settings, every batch (ids colliding after any of the
   rewriting rules included): a result with workers is the in-process result - ids, names, original ids, indices,
   sanitised sequences, skip flags *)
Theorem C18_preprocess_ids_workers_irrelevant : forall cn allow cfg sched recs out,
  pp_ids cn allow cfg sched recs = Ok out -> pp_ids_inproc cn allow recs = Ok out.
Proof. exact pp_ids_workers_irrelevant. Qed.
Print Assumptions C18_preprocess_ids_workers_irrelevant.

(* an error of the in-process run (generate_unique_id cannot fit 16 characters, a record without a name, an empty
   sequence) is an error for every worker count *)
Theorem C18_preprocess_ids_failure_surfaces : forall cn allow cfg sched recs e0,
  pp_ids_inproc cn allow recs = Err e0 -> exists e, pp_ids cn allow cfg sched recs = Err e.
Proof. exact pp_ids_failure_surfaces. Qed.
Print Assumptions C18_preprocess_ids_failure_surfaces.

(* one configured worker: the in-process run itself *)
Theorem C18_preprocess_ids_cpus1 : forall cn allow sched recs,
  pp_ids cn allow 1 sched recs = pp_ids_inproc cn allow recs.
Proof. exact pp_ids_cpus1. Qed.
Print Assumptions C18_preprocess_ids_cpus1.

(* in-process result out, at least one worker: the run with workers returns out or never returns (no timeout is passed) *)
Theorem C18_preprocess_ids_no_spurious_outcome : forall cn allow cfg sched recs out,
  1 <= cfg -> pp_ids_inproc cn allow recs = Ok out ->
  pp_ids cn allow cfg sched recs = Ok out \/ pp_ids cn allow cfg sched recs = Err E_Fuel.
Proof. exact pp_ids_no_spurious_outcome. Qed.
Print Assumptions C18_preprocess_ids_no_spurious_outcome.

(* THE DESIGN REASON: the identifier parts of whatever comes back from the workers are exactly what the duplicate
   pass and the fix_record_name_id loop computed IN THE PARENT over one set threaded through the records
   (C16.Model.fix_all) - a term in which neither the worker count nor the schedule occurs *)
Theorem C18_preprocess_ids_decided_in_parent : forall cn allow cfg sched recs out,
  pp_ids cn allow cfg sched recs = Ok out ->
  exists uniq set, C16.Model.dedup_pass (map fst (set_nindices 1 recs)) = Ok (uniq, set) /\
                   C16.Model.fix_all cn allow uniq set = Ok (map fst out).
Proof. exact pp_ids_decided_in_parent. Qed.
Print Assumptions C18_preprocess_ids_decided_in_parent.

(* hence the ids that come back are pairwise distinct for every worker count (C16's uniqueness carried across
   the process boundary) *)
Theorem C18_preprocess_ids_unique : forall cn allow cfg sched recs out,
  pp_ids cn allow cfg sched recs = Ok out -> NoDup (nids out).
Proof. exact pp_ids_unique. Qed.
Print Assumptions C18_preprocess_ids_unique.

(* the VARIANT with the bookkeeping inside the function shipped to the workers (every call on its own copy of the
   id set) is false as a design: there are a batch, a worker count and a schedule for which it returns ids that
   differ from its own in-process result and are not unique, while the code as it is returns the in-process
   result.  Witness: ids scaf7|len1200 and scaf7:len1200, default options, two workers (the seeded defect C18-seed8) *)
Theorem C18_preprocess_ids_per_call_copy_refuted :
  exists allow cfg sched recs out1 out2,
    pp_ids_per_call C16.Model.contig_no allow 1 [] recs = Ok out1 /\
    pp_ids_per_call C16.Model.contig_no allow cfg sched recs = Ok out2 /\
    nids out1 <> nids out2 /\ ~ NoDup (nids out2) /\
    pp_ids C16.Model.contig_no allow cfg sched recs = Ok out1.
Proof. exact per_call_copy_refuted. Qed.
Print Assumptions C18_preprocess_ids_per_call_copy_refuted.

(* ... and why no test with one worker can see it: with one configured worker the variant IS the in-process run of
   the code, for every batch *)
Theorem C18_preprocess_ids_per_call_copy_cpus1_hides : forall cn allow sched recs,
  pp_ids_per_call cn allow 1 sched recs = pp_ids_inproc cn allow recs.
Proof. exact per_call_cpus1_is_parent. Qed.
Print Assumptions C18_preprocess_ids_per_call_copy_cpus1_hides.

(* the decidable specification evaluated on the implementation's outputs (fn 14) means the property, and the
   model meets it whenever the call returns *)
Theorem C18_preprocess_ids_spec_ok_sound : forall cn allow recs l,
  ids_spec_ok cn allow recs (Ok l) = true -> pp_ids_inproc cn allow recs = Ok l /\ NoDup (nids l).
Proof. exact ids_spec_ok_sound. Qed.
Print Assumptions C18_preprocess_ids_spec_ok_sound.

Theorem C18_preprocess_ids_model_meets_spec : forall cn allow cfg sched recs,
  pp_ids cn allow cfg sched recs <> Err E_Fuel \/ pp_ids_inproc cn allow recs = Err E_Fuel ->
  1 <= cfg ->
  ids_spec_ok cn allow recs (pp_ids cn allow cfg sched recs) = true.
Proof. exact ids_model_meets_spec. Qed.
Print Assumptions C18_preprocess_ids_model_meets_spec.

(* the two witnesses spelled out.  Default options: the in-process run gives scaf7len1200 / scaf7len1200_0, the
   variant with two workers scaf7len1200 twice; the code with two workers the in-process result *)
Example C18_ex_ids_illegal_characters :
  exists out1 out2,
    pp_ids_per_call C16.Model.contig_no true 1 [] witness_chars = Ok out1 /\
    pp_ids_per_call C16.Model.contig_no true 2 (sched_all 2) witness_chars = Ok out2 /\
    nids out1 = [id_stripped; id_stripped_0] /\
    nids out2 = [id_stripped; id_stripped] /\
    pp_ids C16.Model.contig_no true 2 (sched_all 2) witness_chars = Ok out1.
Proof. exact per_call_copy_witness. Qed.

(* --no-allow-long-headers, ids short_one NZ_AMZN01000079.1 sample_contig12.assemblyA NZ_AMZN01000079.2
   sample_contig12.assemblyB: in-process short_one NZ_AMZN01000079 c00012_sample_.. c00004_NZ_AMZN.. sample_conti_0;
   the variant (one worker process of three running all five calls, each on its own copy)
   short_one NZ_AMZN01000079 c00012_sample_.. NZ_AMZN01000079 c00012_sample_.. *)
Example C18_ex_ids_versions_and_contigs :
  exists out1 out2,
    pp_ids_per_call C16.Model.contig_no false 1 [] witness_versions = Ok out1 /\
    pp_ids_per_call C16.Model.contig_no false 3 (rounds 5) witness_versions = Ok out2 /\
    nids out1 = ids_versions_inproc /\ nids out2 = ids_versions_copies /\
    pp_ids C16.Model.contig_no false 3 (rounds 5) witness_versions = Ok out1.
Proof. exact per_call_copy_witness_versions. Qed.

(* the specification rejects the variant's output and accepts the code's *)
Example C18_ex_ids_spec :
  ids_spec_ok C16.Model.contig_no true witness_chars (pp_ids_per_call C16.Model.contig_no true 2 (sched_all 2) witness_chars) = false /\
  ids_spec_ok C16.Model.contig_no true witness_chars (pp_ids C16.Model.contig_no true 2 (sched_all 2) witness_chars) = true.
Proof. split; vm_compute; reflexivity. Qed.
