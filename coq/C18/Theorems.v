(* C18 - property theorems.  f : A -> res B is an arbitrary task function (a call returns or raises);
   `sequential f args` is [f( *a) for a in args]; a schedule is an arbitrary list of pool events
   (starts, finishes, worker deaths, clock ticks, in any order, including senseless ones). *)
From ASV Require Import Base.
From ASV.C18 Require Import Model Proofs.

(* the cpus == 1 shortcut (cpus given, or defaulted from the configuration) is the sequential run,
   whatever the timeout and the schedule *)
Theorem C18_cpus1 : forall (A B : Type) (f : A -> res B) cfg cpus timeout sched (args : list A),
  effective_cpus cfg cpus = 1 ->
  parallel_function f cfg cpus timeout sched args = sequential f args.
Proof. exact @cpus1_is_map. Qed.
Print Assumptions C18_cpus1.

(* for every worker count, every batch, every timeout and EVERY schedule (any completion order, worker
   deaths included): a list returned by parallel_function is the list of the sequential run *)
Theorem C18_order : forall (A B : Type) (f : A -> res B) cfg cpus timeout sched (args : list A) out,
  parallel_function f cfg cpus timeout sched args = Ok out -> sequential f args = Ok out.
Proof. exact @order_sound. Qed.
Print Assumptions C18_order.

(* ... i.e. it is neither shorter nor reordered: one result per call, the i-th is the i-th call's *)
Theorem C18_order_pointwise : forall (A B : Type) (f : A -> res B) cfg cpus timeout sched (args : list A) out,
  parallel_function f cfg cpus timeout sched args = Ok out ->
  length out = length args /\
  forall i a, nth_error args i = Some a -> exists r, nth_error out i = Some r /\ f a = Ok r.
Proof. exact @order_pointwise. Qed.
Print Assumptions C18_order_pointwise.

(* if some call raises, the outcome is an error for every worker count and every schedule - never a list *)
Theorem C18_failure_surfaces : forall (A B : Type) (f : A -> res B) cfg cpus timeout sched (args : list A) e0,
  sequential f args = Err e0 ->
  exists e, parallel_function f cfg cpus timeout sched args = Err e.
Proof. exact @failure_surfaces. Qed.
Print Assumptions C18_failure_surfaces.

(* which error: an invalid worker count (ValueError), the timeout (RuntimeError, only if a timeout was given
   and the pool is used), a get() that never returns (only with the pool), or the exception of one of the calls *)
Theorem C18_failure_kind : forall (A B : Type) (f : A -> res B) cfg cpus timeout sched (args : list A) e,
  parallel_function f cfg cpus timeout sched args = Err e ->
  (e = E_Value /\ effective_cpus cfg cpus < 1) \/
  (e = E_Runtime /\ timeout <> None /\ effective_cpus cfg cpus <> 1) \/
  (e = E_Fuel /\ effective_cpus cfg cpus <> 1) \/
  exists a, In a args /\ f a = Err e.
Proof. exact @failure_kind. Qed.
Print Assumptions C18_failure_kind.

(* hence, when no call raises: for every schedule the outcome is the sequential list, the timeout, or a
   call that never returns - never another list, never another error *)
Theorem C18_no_spurious_outcome : forall (A B : Type) (f : A -> res B) cfg cpus timeout sched (args : list A) rs,
  1 <= effective_cpus cfg cpus -> sequential f args = Ok rs ->
  parallel_function f cfg cpus timeout sched args = Ok rs \/
  (parallel_function f cfg cpus timeout sched args = Err E_Runtime /\ timeout <> None) \/
  parallel_function f cfg cpus timeout sched args = Err E_Fuel.
Proof. exact @no_spurious_outcome. Qed.
Print Assumptions C18_no_spurious_outcome.

(* the pool: when all chunks report before the timeout (completes = true) the result is the sequential list,
   or - if calls raise - the exception of one of the raising calls ... *)
Theorem C18_ready_is_sequential : forall (A B : Type) (f : A -> res B) procs timeout sched (args : list A),
  1 <= procs ->
  completes f procs (make_chunks procs args) timeout sched (init_state B (make_chunks procs args)) = true ->
  match sequential f args with
  | Ok rs => pool_map f procs timeout sched args = Ok rs
  | Err _ => exists e a, pool_map f procs timeout sched args = Err e /\ In a args /\ f a = Err e
  end.
Proof. exact @ready_is_sequential. Qed.
Print Assumptions C18_ready_is_sequential.

(* ... and when they do not (timeout reached first, or a chunk lost with a dead worker) the outcome is the
   timeout error or a call that never returns: never a partial list *)
Theorem C18_not_ready_is_error : forall (A B : Type) (f : A -> res B) procs timeout sched (args : list A),
  1 <= procs ->
  completes f procs (make_chunks procs args) timeout sched (init_state B (make_chunks procs args)) = false ->
  (pool_map f procs timeout sched args = Err E_Runtime /\ timeout <> None) \/
  pool_map f procs timeout sched args = Err E_Fuel.
Proof. exact @not_ready_is_error. Qed.
Print Assumptions C18_not_ready_is_error.

(* the statements above are not vacuous: for every worker count >= 1 and every batch whose calls all return
   there is a schedule under which parallel_function returns (the sequential list) *)
Theorem C18_completing_schedule_exists : forall (A B : Type) (f : A -> res B) cfg cpus (args : list A) rs,
  1 <= effective_cpus cfg cpus -> sequential f args = Ok rs ->
  exists sched, parallel_function f cfg cpus None sched args = Ok rs.
Proof. exact @completing_schedule_exists. Qed.
Print Assumptions C18_completing_schedule_exists.

(* CPython's chunking keeps the batch: the chunks, concatenated in chunk order, are the argument list *)
Theorem C18_chunks_partition : forall (A : Type) procs (args : list A),
  1 <= procs -> concat (make_chunks procs args) = args.
Proof. exact @make_chunks_concat. Qed.
Print Assumptions C18_chunks_partition.

(* parallel_execute (no shortcut): same two clauses *)
Theorem C18_execute_order : forall (A B : Type) (f : A -> res B) cfg cpus timeout sched (cmds : list A) out,
  parallel_execute f cfg cpus timeout sched cmds = Ok out -> sequential f cmds = Ok out.
Proof. exact @execute_order_sound. Qed.
Print Assumptions C18_execute_order.

Theorem C18_execute_failure_surfaces : forall (A B : Type) (f : A -> res B) cfg cpus timeout sched (cmds : list A) e0,
  sequential f cmds = Err e0 ->
  exists e, parallel_execute f cfg cpus timeout sched cmds = Err e.
Proof. exact @execute_failure_surfaces. Qed.
Print Assumptions C18_execute_failure_surfaces.

(* the decidable specification evaluated on every implementation output at run time: the model satisfies it
   whenever get() returns, and an accepted list is the sequential list *)
Theorem C18_model_meets_spec : forall cfg cpus timeout sched (tasks : list (res Z)),
  parallel_function (fun t => t) cfg cpus timeout sched tasks <> Err E_Fuel ->
  spec_ok cfg cpus timeout tasks (parallel_function (fun t => t) cfg cpus timeout sched tasks) = true.
Proof. exact model_meets_spec. Qed.
Print Assumptions C18_model_meets_spec.

Theorem C18_spec_ok_sound : forall cfg cpus timeout (tasks : list (res Z)) vs,
  spec_ok cfg cpus timeout tasks (Ok vs) = true -> sequential (fun t => t) tasks = Ok vs.
Proof. exact spec_ok_sound. Qed.
Print Assumptions C18_spec_ok_sound.

(* "surfaces as an error" fails for a dying worker process without timeout: the call never returns
   (known finding C18-K1; the guard of the liveness statements, completes = true, excludes it).
   3 workers, 4 calls that all return, worker 1 dies with its chunk: *)
Theorem C18_worker_death_hangs_refuted :
  exists (sched : list event) (args : list (res Z)) rs,
    sequential (fun t => t) args = Ok rs /\
    parallel_function (fun t => t) 2 3 None sched args = Err E_Fuel.
Proof.
  exists [Start 0; Start 1; Start 2; Finish 0; Crash 1; Finish 2; Start 0; Start 1; Finish 0; Finish 1],
         [Ok 10; Ok 11; Ok 12; Ok 13], [10; 11; 12; 13].
  split; vm_compute; reflexivity.
Qed.
Print Assumptions C18_worker_death_hangs_refuted.

(* ---- non-vacuity: concrete inputs meeting the hypotheses ---- *)
(* 3 workers, 5 calls, completion order 2,1,0 then 4,3: the list comes back in argument order *)
Example C18_ex_reordered :
  parallel_function (fun t => t) 2 3 None
    [Start 0; Start 1; Start 2; Finish 2; Finish 1; Finish 0; Start 1; Start 0; Finish 0; Finish 1]
    [Ok 10; Ok 11; Ok 12; Ok 13; Ok 14] = Ok [10; 11; 12; 13; 14].
Proof. vm_compute. reflexivity. Qed.

(* 2 workers, 9 calls: chunks of 2; the chunk finishing first carries the exception that surfaces (kind 4),
   although the call raising kind 1 comes first in argument order; with one worker kind 1 surfaces *)
Example C18_ex_failure :
  let args := [Ok 1; Err 1; Ok 3; Ok 4; Ok 5; Err 4; Ok 7; Ok 8; Ok 9] in
  sequential (fun t => t) args = Err 1 /\
  parallel_function (fun t => t) 2 2 None
    [Start 0; Start 1; Finish 0; Start 0; Finish 0; Finish 1; Start 0; Finish 0; Start 1; Finish 1] args = Err 1 /\
  parallel_function (fun t => t) 2 2 None
    [Start 0; Start 1; Finish 1; Start 1; Finish 1; Finish 0; Start 1; Finish 1; Start 1; Finish 1] args = Err 4 /\
  parallel_function (fun t => t) 2 1 None [] args = Err 1.
Proof. vm_compute. repeat split; reflexivity. Qed.

(* timeout after one tick with a chunk still running: RuntimeError; the same schedule without timeout completes *)
Example C18_ex_timeout :
  parallel_function (fun t => t) 2 2 (Some 1) [Start 0; Start 1; Finish 0; Tick; Finish 1] [Ok 1; Ok 2] = Err E_Runtime /\
  parallel_function (fun t => t) 2 2 None [Start 0; Start 1; Finish 0; Tick; Finish 1] [Ok 1; Ok 2] = Ok [1; 2] /\
  completes (fun t : res Z => t) 2 (make_chunks 2 [Ok 1; Ok 2]) (Some 1) [Start 0; Start 1; Finish 0; Tick; Finish 1]
            (init_state Z (make_chunks 2 [Ok 1; Ok 2])) = false.
Proof. vm_compute. repeat split; reflexivity. Qed.

(* the worker count defaults to the configuration; an invalid count is a ValueError *)
Example C18_ex_cpus :
  effective_cpus 1 0 = 1 /\
  parallel_function (fun t => t) 1 0 (Some 0) [] [Ok 1; Ok 2] = Ok [1; 2] /\
  parallel_function (fun t => t) (-2) 0 None [] [Ok 1] = Err E_Value.
Proof. vm_compute. repeat split; reflexivity. Qed.
