(* C18 - parallel execution: antismash/common/subprocessing/base.py parallel_function and
   parallel_execute over an abstract model of multiprocessing.Pool.{starmap_async,map_async}.

   What is antiSMASH's: the `cpus` defaulting (`if not cpus`), the `cpus == 1 and timeout is None`
   shortcut (a list comprehension; with a timeout a pool of ONE worker is used, so that the timeout is
   honoured - repair of finding C18-K2), submitting all argument tuples at once, one `get(timeout)`,
   TimeoutError -> RuntimeError, returning the list.
   What is CPython's (an assumption recorded here, tied by the correspondence run only):
     Pool(processes) raises ValueError for processes < 1;
     _map_async: chunksize = ceil(n / (4 * processes)) (0 for an empty batch), the batch is cut into
       chunks of that size (_get_tasks), the chunks go through ONE fifo task queue, an idle worker
       takes the head of the queue, runs the whole chunk (mapstar/starmapstar: the first exception
       aborts the rest of the chunk) and reports (chunk number, success, results | exception);
     MapResult._set: number_left -= 1; a successful chunk is stored BY CHUNK NUMBER
       (value[i*chunksize:(i+1)*chunksize] = result) as long as no chunk has failed; the first failing
       chunk (in completion order) replaces the value by its exception; the result is ready when
       number_left = 0; get(timeout) returns the value / raises the stored exception when ready,
       raises TimeoutError when the timeout expires first, and never returns when neither happens
       (a worker process that dies takes its chunk with it: the pool starts a new worker, the chunk
       is lost).
   The schedule (which worker starts/finishes/dies when, where the clock ticks fall) is an argument
   of the model: a list of events.  Events that make no sense in the current state (worker number out
   of range, Start on a busy worker or with an empty queue, Finish/Crash on an idle worker) are
   no-ops, so EVERY list of events is a schedule.  A schedule that ends before the result is ready
   models a get() that never returns (Err E_Fuel = nontermination).
   The timeout: the clock is part of the pool state (Tick events), get(timeout) is transcribed in pool_get.
   What a timeout MEANS for a batch is stated further down: every call carries a duration class (it
   exceeds the timeout or its running time is negligible), dispatch_spec is the sequential specification
   of the dispatcher (an error when any call exceeds the timeout or raises, otherwise the results in
   argument order - no worker count in it), and respects_durations / timely say which schedules agree
   with the duration classes. *)
From ASV Require Import Base.
From ASV.C16 Require Model.     (* the identifier rules of pre-processing (fix_record_name_id, generate_unique_id,
                                   the duplicate pass) are transcribed there; used qualified, nothing is imported *)

(* ---------- the task function ---------- *)
(* a call either returns a value or raises: f : A -> res B.  A chunk is run by
   list(starmap(f, chunk)): left to right, the first exception aborts the chunk *)
Definition run_chunk {A B} (f : A -> res B) (chunk : list A) : res (list B) := mapM f chunk.

(* ---------- CPython: cutting the batch into chunks ---------- *)
(* Pool._get_tasks: repeatedly tuple(islice(it, size)) until it is empty; fuel = length of the batch *)
Fixpoint get_tasks {A} (fuel : nat) (size : nat) (l : list A) : list (list A) :=
  match fuel with
  | O => []
  | S fu => match l with
            | [] => []
            | _ :: _ => firstn size l :: get_tasks fu size (skipn size l)
            end
  end.

(* chunksize, extra = divmod(len(iterable), len(pool) * 4); if extra: chunksize += 1;
   if len(iterable) == 0: chunksize = 0 *)
Definition chunksize (n procs : Z) : Z :=
  if n =? 0 then 0 else
  let q := n / (procs * 4) in
  if n mod (procs * 4) =? 0 then q else q + 1.

Definition make_chunks {A} (procs : Z) (args : list A) : list (list A) :=
  get_tasks (length args) (Z.to_nat (chunksize (zlen args) procs)) args.

(* ---------- the pool state machine ---------- *)
Inductive event : Type :=
| Start (w : Z)     (* idle worker w takes the head of the task queue *)
| Finish (w : Z)    (* worker w finishes its chunk and reports it *)
| Crash (w : Z)     (* worker w's process dies; its chunk is lost *)
| Tick.             (* one unit of the timeout clock passes *)

Record pstate (B : Type) : Type := mkP {
  pend : list Z;                      (* task queue: chunk numbers not yet taken, fifo *)
  runn : list (Z * Z);                (* (worker, chunk number) for the busy workers *)
  value : list (option (list B));     (* MapResult._value, by chunk number *)
  failed : option Z;                  (* MapResult._success = False and the stored exception *)
  nleft : Z;                          (* MapResult._number_left *)
  ticks : Z                           (* clock *)
}.
Arguments mkP {B}.
Arguments pend {B}.
Arguments runn {B}.
Arguments value {B}.
Arguments failed {B}.
Arguments nleft {B}.
Arguments ticks {B}.

Fixpoint lookup_w (w : Z) (r : list (Z * Z)) : option Z :=
  match r with
  | [] => None
  | (w', c) :: r' => if w' =? w then Some c else lookup_w w r'
  end.
Fixpoint remove_w (w : Z) (r : list (Z * Z)) : list (Z * Z) :=
  match r with
  | [] => []
  | (w', c) :: r' => if w' =? w then r' else (w', c) :: remove_w w r'
  end.

Fixpoint set_nth {X} (n : nat) (x : X) (l : list X) {struct l} : list X :=
  match l with
  | [] => []
  | y :: ys => match n with O => x :: ys | S m => y :: set_nth m x ys end
  end.

(* MapResult._set(i, (success, result)) *)
Definition set_result {B} (c : Z) (r : res (list B)) (st : pstate B) : pstate B :=
  let left' := nleft st - 1 in
  match r, failed st with
  | Ok rs, None => mkP (pend st) (runn st) (set_nth (Z.to_nat c) (Some rs) (value st)) None left' (ticks st)
  | Err e, None => mkP (pend st) (runn st) (value st) (Some e) left' (ticks st)   (* only the first exception is stored *)
  | _, Some e0 => mkP (pend st) (runn st) (value st) (Some e0) left' (ticks st)
  end.

Definition with_queues {B} (p : list Z) (r : list (Z * Z)) (st : pstate B) : pstate B :=
  mkP p r (value st) (failed st) (nleft st) (ticks st).

Definition step {A B} (f : A -> res B) (procs : Z) (chunks : list (list A)) (ev : event) (st : pstate B)
  : pstate B :=
  match ev with
  | Start w =>
    if (0 <=? w) && (w <? procs) then
      match lookup_w w (runn st), pend st with
      | None, c :: p' => with_queues p' ((w, c) :: runn st) st
      | _, _ => st
      end
    else st
  | Finish w =>
    match lookup_w w (runn st) with
    | Some c => set_result c (run_chunk f (nth (Z.to_nat c) chunks [])) (with_queues (pend st) (remove_w w (runn st)) st)
    | None => st
    end
  | Crash w =>
    match lookup_w w (runn st) with
    | Some _ => with_queues (pend st) (remove_w w (runn st)) st
    | None => st
    end
  | Tick => mkP (pend st) (runn st) (value st) (failed st) (nleft st) (ticks st + 1)
  end.

(* all slots filled -> the result list, in chunk order.  A missing slot cannot occur when the result
   is ready and no chunk failed (Proofs.v: ready_complete); Python would return a list with None in it *)
Fixpoint collect {B} (v : list (option (list B))) : res (list B) :=
  match v with
  | [] => Ok []
  | Some rs :: v' => do rest <- collect v'; Ok (rs ++ rest)
  | None :: _ => Err E_Assert
  end.

Definition expired (timeout : option Z) (now : Z) : bool :=
  match timeout with None => false | Some t => t <=? now end.

(* jobs.get(timeout): ready -> value or stored exception; timeout expired -> multiprocessing.TimeoutError,
   which parallel_function/parallel_execute turn into RuntimeError; schedule exhausted -> never returns *)
Fixpoint pool_get {A B} (f : A -> res B) (procs : Z) (chunks : list (list A)) (timeout : option Z)
         (sched : list event) (st : pstate B) : res (list B) :=
  if nleft st =? 0 then
    match failed st with Some e => Err e | None => collect (value st) end
  else if expired timeout (ticks st) then Err E_Runtime
  else match sched with
       | [] => Err E_Fuel
       | ev :: s => pool_get f procs chunks timeout s (step f procs chunks ev st)
       end.

Fixpoint zrange (from : Z) (n : nat) : list Z :=
  match n with O => [] | S m => from :: zrange (from + 1) m end.

Definition init_state {A} (B : Type) (chunks : list (list A)) : pstate B :=
  mkP (zrange 0 (length chunks)) [] (map (fun _ => None) chunks) None (zlen chunks) 0.

(* with multiprocessing.Pool(procs) as pool: jobs = pool.(star)map_async(f, args); jobs.get(timeout) *)
Definition pool_map {A B} (f : A -> res B) (procs : Z) (timeout : option Z) (sched : list event)
           (args : list A) : res (list B) :=
  if procs <? 1 then Err E_Value     (* Pool.__init__: Number of processes must be at least 1 *)
  else let chunks := make_chunks procs args in
       pool_get f procs chunks timeout sched (init_state B chunks).

(* ---------- antismash.common.subprocessing.base ---------- *)
(* `if not cpus: cpus = get_config().cpus`: None and 0 are both falsy; cpus travels as an integer, 0 = not given *)
Definition effective_cpus (cfg_cpus cpus : Z) : Z := if cpus =? 0 then cfg_cpus else cpus.

(* `timeout is None` *)
Definition no_timeout (timeout : option Z) : bool := match timeout with None => true | Some _ => false end.

(* `if cpus == 1 and timeout is None: return [function( *argset) for argset in args]`: the in-process shortcut is
   taken only when no timeout was asked for; with a timeout (0 included: `is None`, not a truth test) one worker
   means a pool of one worker, and the timeout is honoured as for every other worker count *)
Definition parallel_function {A B} (f : A -> res B) (cfg_cpus cpus : Z) (timeout : option Z)
           (sched : list event) (args : list A) : res (list B) :=
  let cpus := effective_cpus cfg_cpus cpus in
  if (cpus =? 1) && no_timeout timeout then mapM f args
  else pool_map f cpus timeout sched args.

(* parallel_execute: no shortcut; the runner (child_process) returns the command's return code *)
Definition parallel_execute {A B} (f : A -> res B) (cfg_cpus cpus : Z) (timeout : option Z)
           (sched : list event) (commands : list A) : res (list B) :=
  pool_map f (effective_cpus cfg_cpus cpus) timeout sched commands.

(* ---------- the decidable specification, evaluated on the implementation's output ---------- *)
(* the sequential run: [f( *a) for a in args] *)
Definition sequential {A B} (f : A -> res B) (args : list A) : res (list B) := mapM f args.

(* out is acceptable for the batch: a returned list must be the sequential list; an error is acceptable
   only if some call raises, or a timeout was given, or the worker count is invalid *)
Definition spec_ok (cfg_cpus cpus : Z) (timeout : option Z) (tasks : list (res Z)) (out : res (list Z)) : bool :=
  match out with
  | Ok vs => match sequential (fun t => t) tasks with
             | Ok ws => list_eqb Z.eqb vs ws
             | Err _ => false
             end
  | Err e => match sequential (fun t => t) tasks with
             | Err _ => true
             | Ok _ => match timeout with Some _ => e =? E_Runtime | None => false end
                       || (effective_cpus cfg_cpus cpus <? 1)
             end
  end.

(* ---------- the timeout clause: calls with a duration class ---------- *)
(* Every call belongs to one of two duration classes, given by `slow : A -> bool`:
     slow a = true   the call runs longer than the timeout (it "exceeds the timeout"; a call that never
                     ends, e.g. because its worker dies, is in this class too),
     slow a = false  its running time is negligible against the timeout.
   A job of the harness is the pair (duration class, sequential outcome): A = bool * res Z, slow = fst,
   f = snd.  The class only means something when a timeout is given. *)
Definition any_exceeds {A} (slow : A -> bool) (timeout : option Z) (args : list A) : bool :=
  match timeout with None => false | Some _ => existsb slow args end.

(* the sequential specification of the dispatcher, independent of the worker count: an error when any call
   exceeds the timeout or raises, otherwise the list of results in argument order *)
Definition dispatch_spec {A B} (f : A -> res B) (slow : A -> bool) (timeout : option Z) (args : list A)
  : res (list B) :=
  if any_exceeds slow timeout args then Err E_Runtime else sequential f args.

(* same list, or an error on both sides (which exception surfaces may depend on the schedule) *)
Definition same_outcome {X} (a b : res X) : Prop :=
  match a, b with
  | Ok x, Ok y => x = y
  | Err _, Err _ => True
  | _, _ => False
  end.

(* a chunk reaches a slow call: the calls before it in the chunk return (an exception aborts the chunk) *)
Fixpoint chunk_slow {A B} (f : A -> res B) (slow : A -> bool) (chunk : list A) : bool :=
  match chunk with
  | [] => false
  | a :: rest => slow a || match f a with Ok _ => chunk_slow f slow rest | Err _ => false end
  end.

Definition slow_chunk {A B} (f : A -> res B) (slow : A -> bool) (chunks : list (list A)) (c : Z) : bool :=
  chunk_slow f slow (nth (Z.to_nat c) chunks []).

(* which schedules agree with the duration classes.
   no_early_finish: a chunk that reaches a slow call does not report before the clock shows the timeout
     (it was taken at a tick >= 0 and runs longer than the timeout).  Every real run has this property,
     however loaded the machine is: load only makes things later.
   no_idle_tick: the clock only advances while a chunk with a slow call is running (taking, running and
     reporting the other chunks costs no measurable time): the idealisation under which "no call exceeds
     the timeout" means "the batch is ready in time".
   Both are checked up to the point where get() returns. *)
(* get(timeout) has already returned in this state (ready, or timed out): what the schedule says from here
   on is of no consequence *)
Definition get_returned {B} (t : Z) (st : pstate B) : bool := (nleft st =? 0) || (t <=? ticks st).

Fixpoint no_early_finish {A B} (f : A -> res B) (slow : A -> bool) (procs : Z) (chunks : list (list A))
         (t : Z) (sched : list event) (st : pstate B) : bool :=
  match sched with
  | [] => true
  | ev :: s =>
    if get_returned t st then true else
    match ev with
    | Finish w => match lookup_w w (runn st) with
                  | Some c => if slow_chunk f slow chunks c then t <=? ticks st else true
                  | None => true
                  end
    | _ => true
    end && no_early_finish f slow procs chunks t s (step f procs chunks ev st)
  end.

Fixpoint no_idle_tick {A B} (f : A -> res B) (slow : A -> bool) (procs : Z) (chunks : list (list A))
         (t : Z) (sched : list event) (st : pstate B) : bool :=
  match sched with
  | [] => true
  | ev :: s =>
    if get_returned t st then true else
    match ev with
    | Tick => existsb (fun wc => slow_chunk f slow chunks (snd wc)) (runn st)
    | _ => true
    end && no_idle_tick f slow procs chunks t s (step f procs chunks ev st)
  end.

(* the schedule of the pool that `procs` workers make for the batch, checked from the initial state;
   without a timeout the clock is never looked at and every schedule qualifies *)
Definition respects_durations {A B} (f : A -> res B) (slow : A -> bool) (procs : Z) (timeout : option Z)
           (sched : list event) (args : list A) : bool :=
  match timeout with
  | None => true
  | Some t => no_early_finish f slow procs (make_chunks procs args) t sched (init_state B (make_chunks procs args))
  end.
Definition timely {A B} (f : A -> res B) (slow : A -> bool) (procs : Z) (timeout : option Z)
           (sched : list event) (args : list A) : bool :=
  match timeout with
  | None => true
  | Some t => no_early_finish f slow procs (make_chunks procs args) t sched (init_state B (make_chunks procs args))
              && no_idle_tick f slow procs (make_chunks procs args) t sched (init_state B (make_chunks procs args))
  end.
(* a usable timeout: none, or at least one tick (timeout 0 expires before anything can be ready) *)
Definition timeout_pos (timeout : option Z) : bool :=
  match timeout with None => true | Some t => 1 <=? t end.

(* the decidable specification evaluated on every implementation output of parallel_function /
   parallel_execute at run time.  jobs = (duration class, sequential outcome).  A returned list must be the
   list of dispatch_spec (so: no job exceeds the timeout); an error must be the timeout error while some job
   exceeds the timeout, or the exception of one of the raising jobs; an invalid worker count is a ValueError *)
Definition raises_kind (e : Z) (j : bool * res Z) : bool :=
  match snd j with Err k => k =? e | Ok _ => false end.
Definition tspec_ok (cfg_cpus cpus : Z) (timeout : option Z) (jobs : list (bool * res Z)) (out : res (list Z)) : bool :=
  if effective_cpus cfg_cpus cpus <? 1 then match out with Err e => e =? E_Value | Ok _ => false end
  else match out with
       | Ok vs => match dispatch_spec snd fst timeout jobs with
                  | Ok ws => list_eqb Z.eqb vs ws
                  | Err _ => false
                  end
       | Err e => (any_exceeds fst timeout jobs && (e =? E_Runtime)) || existsb (raises_kind e) jobs
       end.

(* finding C18-K2 (REPAIRED): the cpus == 1 shortcut of parallel_function used to be taken before the timeout was
   looked at, so a batch with a job exceeding it (and no raising job) came back as a list; the class was: one
   effective worker, a job exceeding the timeout, no raising job.  After the repair no input is in a finding class
   of the timeout clause: the theorems about parallel_function carry no guard, and fn 11 answers class 0 throughout
   (the answer keeps its second number, so that the harness protocol is unchanged) *)
Definition finding_K2 (cfg_cpus cpus : Z) (timeout : option Z) (jobs : list (bool * res Z)) : bool := false.

(* ================================================================================================
   antismash/common/record_processing.py: pre_process_sequences, the caller of parallel_function
   through which secmet Records cross the process boundary (sanitise_sequence, ensure_cds_info).

   A record is abstracted to what pre-processing reads and writes: id (a number standing for the id
   string), record_index, the sequence (character codes), the skip flag (0 = None, otherwise a reason
   code), the number of CDS features, and `rest` (a digest standing for everything else: name,
   description, annotations, features).  What is antiSMASH's here - and transcribed - is: WHICH records
   go to the workers, WHAT replaces the caller's list afterwards (the list returned by
   parallel_function, whole records: `sequences = parallel_function(...)`), the single-record bypass,
   the filters between the two parallel stages, and the final "all records skipped" error.
   Not transcribed HERE (guard of the correspondence of this pipeline model, see harness): the id/name
   rewriting block (generate_unique_id, fix_record_name_id: the identity for unique ids/names of at most 16
   characters without a long accession) - it is transcribed, with the sanitise batch that follows it, in the
   section "the identifier block" further down; records with an undefined sequence (WGS/supercontig master
   records), non-ASCII sequence characters.  The gene finder is a parameter gf : prec -> res prec. *)
Record prec : Type := mkR {
  r_id : Z; r_index : Z; r_seq : list Z; r_skip : Z; r_ncds : Z; r_rest : Z }.

Definition E_Other := 99.          (* AntismashInputError (no entry of its own in the exception enum) *)
Definition S_NoSeq := 1.           (* "contains no sequence" *)
Definition S_Filter := 2.          (* "did not match filter: ..." *)
Definition S_MinLen := 3.          (* "smaller than minimum length (...)" *)
Definition S_Limit := 4.           (* "skipping all but largest ... meaningful records (--limit) " *)
Definition S_NoGenes := 5.         (* "No genes found" *)

Definition set_skip (s : Z) (r : prec) : prec := mkR (r_id r) (r_index r) (r_seq r) s (r_ncds r) (r_rest r).
Definition set_index (i : Z) (r : prec) : prec := mkR (r_id r) i (r_seq r) (r_skip r) (r_ncds r) (r_rest r).
Definition skipped (r : prec) : bool := negb (r_skip r =? 0).     (* `if record.skip` *)

(* sanitise_sequence: upper(), "-" dropped, A C G T kept (real content), anything else -> N;
   no real content -> skip = "contains no sequence"; returns the same instance *)
Definition upper (c : Z) : Z := if (97 <=? c) && (c <=? 122) then c - 32 else c.
Definition is_acgt (c : Z) : bool := (c =? 65) || (c =? 67) || (c =? 71) || (c =? 84).
Fixpoint sanitise_chars (s : list Z) : list Z * bool :=
  match s with
  | [] => ([], false)
  | c :: rest =>
    let (out, real) := sanitise_chars rest in
    let u := upper c in
    if u =? 45 then (out, real)
    else if is_acgt u then (u :: out, true)
    else (78 :: out, real)
  end.
Definition sanitise_sequence (r : prec) : res prec :=
  let (s, real) := sanitise_chars (r_seq r) in
  Ok (mkR (r_id r) (r_index r) s (if real then r_skip r else S_NoSeq) (r_ncds r) (r_rest r)).

(* ensure_cds_info(genefinding, sequence, **kwargs): a skipped record is returned untouched; a record
   without CDS features gets gene finding (unless a GFF3 file is used or the tool is "none";
   ValueError -> AntismashInputError, other exceptions propagate); still none -> skip = "No genes found" *)
Definition ensure_cds_info (gf : prec -> res prec) (run_gf : bool) (r : prec) : res prec :=
  if skipped r then Ok r
  else if r_ncds r =? 0 then
    do r' <- (if run_gf
              then match gf r with Ok x => Ok x | Err e => Err (if e =? E_Value then E_Other else e) end
              else Ok r);
    if r_ncds r' =? 0 then Ok (set_skip S_NoGenes r') else Ok r'
  else Ok r.

(* for i, seq in enumerate(sequences): seq.record_index = i + 1 *)
Fixpoint set_indices (i : Z) (l : list prec) : list prec :=
  match l with [] => [] | r :: rest => set_index i r :: set_indices (i + 1) rest end.

(* filter_records_by_name: target "" -> nothing; otherwise every other id is skipped, no match -> error *)
Definition filter_by_name (target : option Z) (l : list prec) : res (list prec) :=
  match target with
  | None => Ok l
  | Some t =>
    if existsb (fun r => r_id r =? t) l
    then Ok (map (fun r => if r_id r =? t then r else set_skip S_Filter r) l)
    else Err E_Other
  end.

Definition apply_minlength (minlength : Z) (l : list prec) : list prec :=
  map (fun r => if zlen (r_seq r) <? minlength then set_skip S_MinLen r else r) l.

(* filter_records_by_count: sorted(enumerate(records), key=(-len, position)); already skipped records do
   not count; every further one after `maximum` meaningful ones is skipped.  Returns limit_hit. *)
Definition longer_first (a b : nat * prec) : bool :=
  let la := zlen (r_seq (snd a)) in let lb := zlen (r_seq (snd b)) in
  (lb <? la) || ((la =? lb) && (Nat.ltb (fst a) (fst b))).
Fixpoint count_scan (maximum meaningful : Z) (order : list (nat * prec)) : list nat :=
  match order with
  | [] => []
  | (i, r) :: rest =>
    if skipped r then count_scan maximum meaningful rest
    else let m := meaningful + 1 in
         if maximum <? m then i :: count_scan maximum m rest else count_scan maximum m rest
  end.
Fixpoint mark_skipped (hit : list nat) (i : nat) (l : list prec) : list prec :=
  match l with
  | [] => []
  | r :: rest => (if existsb (Nat.eqb i) hit then set_skip S_Limit r else r) :: mark_skipped hit (S i) rest
  end.
Definition filter_by_count (maximum : Z) (l : list prec) : bool * list prec :=
  if (maximum =? -1) || (zlen l <? maximum) then (false, l)
  else let hit := count_scan maximum 0 (sort_by longer_first (combine (seq 0 (length l)) l)) in
       (match hit with [] => false | _ => true end, mark_skipped hit 0 l).

Record popts : Type := mkO {
  o_checking : bool;          (* not (options.reuse_results or options.skip_sanitisation) *)
  o_target : option Z;        (* options.limit_to_record ("" = None) as an id number *)
  o_minlength : Z;
  o_limit : Z;
  o_run_gf : bool }.          (* not genefinding_gff3 and genefinding_tool != "none" *)

(* the two uses of the parallel helper.  Stage 1: `if len(sequences) == 1: sequences = [sanitise_sequence(sequences[0])]
   else: sequences = parallel_function(sanitise_sequence, ([record] for record in sequences))` - the list returned by the
   helper (the workers' copies, whole records) replaces the caller's list.  Stage 2:
   `sequences = parallel_function(partial(ensure_cds_info, genefinding.run_on_record, ...), ...)`, likewise.
   Both only when checking is required. *)
Definition pp_stage1 (pf : (prec -> res prec) -> list prec -> res (list prec)) (o : popts) (s0 : list prec)
  : res (list prec) :=
  if o_checking o then
    match s0 with
    | [r] => do r' <- sanitise_sequence r; Ok [r']
    | _ => pf sanitise_sequence s0
    end
  else Ok s0.
Definition pp_stage2 (pf : (prec -> res prec) -> list prec -> res (list prec)) (gf : prec -> res prec) (o : popts)
           (s4 : list prec) : res (list prec) :=
  if o_checking o then pf (ensure_cds_info gf (o_run_gf o)) s4 else Ok s4.

(* pre_process_sequences over the helper used for stage 1 (pf1) and stage 2 (pf2); returns (triggered_limit, records) *)
Definition pre_process_gen (pf1 pf2 : (prec -> res prec) -> list prec -> res (list prec))
           (gf : prec -> res prec) (o : popts) (recs : list prec) : res (bool * list prec) :=
  (* records_contain_shotgun_scaffolds: record.seq[0] raises IndexError for an empty sequence *)
  if existsb (fun r => match r_seq r with [] => true | _ => false end) recs then Err E_Other else
  do s1 <- pp_stage1 pf1 o (set_indices 1 recs);
  do s2 <- filter_by_name (o_target o) s1;
  let s3 := apply_minlength (o_minlength o) s2 in
  let (hit, s4) := filter_by_count (o_limit o) s3 in
  do s5 <- pp_stage2 pf2 gf o s4;
  if forallb skipped s5 then Err E_Other else Ok (hit, s5).       (* "all records skipped" *)

(* both calls pass neither cpus nor timeout: the worker count is the configuration's *)
Definition pre_process (gf : prec -> res prec) (o : popts) (cfg_cpus : Z) (sched1 sched2 : list event)
           (recs : list prec) : res (bool * list prec) :=
  pre_process_gen (fun f => parallel_function f cfg_cpus 0 None sched1)
                  (fun f => parallel_function f cfg_cpus 0 None sched2) gf o recs.

(* the in-process run (what the property compares with): every call made one after another *)
Definition pre_process_inproc (gf : prec -> res prec) (o : popts) (recs : list prec) : res (bool * list prec) :=
  pre_process_gen sequential sequential gf o recs.

Definition prec_eqb (a b : prec) : bool :=
  (r_id a =? r_id b) && (r_index a =? r_index b) && list_eqb Z.eqb (r_seq a) (r_seq b) &&
  (r_skip a =? r_skip b) && (r_ncds a =? r_ncds b) && (r_rest a =? r_rest b).

(* decidable specification on the implementation's output: exactly the in-process result; an error only
   where the in-process run raises as well *)
Definition pp_spec_ok (gf : prec -> res prec) (o : popts) (recs : list prec) (out : res (bool * list prec)) : bool :=
  match out, pre_process_inproc gf o recs with
  | Ok (h, l), Ok (h', l') => Bool.eqb h h' && list_eqb prec_eqb l l'
  | Err _, Err _ => true
  | _, _ => false
  end.

(* ================================================================================================
   pre_process_sequences, the block `if checking_required:` WITH the identifiers: the duplicate pass, the
   loop `for record in sequences: fix_record_name_id(record, all_record_ids, options.allow_long_headers)`
   and the batch of sanitise_sequence calls that follows it.

   fix_record_name_id reads AND updates the set all_record_ids: whether a rewritten id (illegal characters
   removed, version dropped, shortened to c000NN_prefix..) is still free depends on what the calls for the
   EARLIER records handed out.  The code runs this loop in the parent, over ONE set object threaded through
   the records in argument order (C16.Model.fix_all), and only then hands the records - ids, names and
   original ids already final - to the workers, whose function (sanitise_sequence) looks at record.seq and
   record.skip only.  That is the reason why the identifiers cannot depend on the worker count
   (C18_preprocess_ids_decided_in_parent); the variant further down, in which the bookkeeping is done
   inside the function shipped to the workers, loses it (C18_preprocess_ids_per_call_copy_refuted).

   A record is the pair (identifier part: id, name, original_id, record_index as in C16.Model.rec; body: prec,
   whose r_id number plays no role here).  The identifier rules themselves (three regular expressions,
   generate_unique_id, ...) are C16.Model's transcription; cn is the contig number function of _shorten_ids
   (C16.Model.contig_no for the code as it is).  Not in the model: record.annotations['accession'] (shortened
   without looking at the set; compared across worker counts by the harness). *)


Definition nrec : Type := (C16.Model.rec * prec)%type.
Definition nid (r : nrec) : C16.Model.str := C16.Model.r_id (fst r).
Definition nids (l : list nrec) : list C16.Model.str := map nid l.

(* sanitise_sequence on the whole record: the identifier part travels with it, untouched *)
Definition clean_record (r : nrec) : res nrec := do b <- sanitise_sequence (snd r); Ok (fst r, b).

(* for i, seq in enumerate(sequences): seq.record_index = i + 1 *)
Fixpoint set_nindices (i : Z) (l : list nrec) : list nrec :=
  match l with
  | [] => []
  | (a, b) :: rest => (C16.Model.mkRec (C16.Model.r_id a) (C16.Model.r_name a) (C16.Model.r_orig a) i, set_index i b) :: set_nindices (i + 1) rest
  end.

(* the block, over the helper pf used for the batch *)
Definition ids_stage1 (pf : (nrec -> res nrec) -> list nrec -> res (list nrec)) (cn : Z -> C16.Model.str -> Z)
           (allow : bool) (s0 : list nrec) : res (list nrec) :=
  do (uniq, set) <- C16.Model.dedup_pass (map fst s0);     (* all_record_ids; duplicate raw ids renamed id_0, id_1, ... *)
  do fixed <- C16.Model.fix_all cn allow uniq set;           (* IN THE PARENT: one set, threaded through the records *)
  let s := combine fixed (map snd s0) in
  match s with
  | [r] => do r' <- clean_record r; Ok [r']         (* if len(sequences) == 1: no helper *)
  | _ => pf clean_record s
  end.

(* `if not record.id: raise AntismashInputError("record has no name")` *)
Definition named_check (s : list nrec) : res (list nrec) :=
  if forallb (fun r => C16.Model.nonempty_id (fst r)) s then Ok s else Err E_Other.

Definition no_empty_seq (recs : list nrec) : bool :=
  negb (existsb (fun r => match r_seq (snd r) with [] => true | _ => false end) recs).

Definition pp_ids_gen (pf : (nrec -> res nrec) -> list nrec -> res (list nrec)) (cn : Z -> C16.Model.str -> Z)
           (allow : bool) (recs : list nrec) : res (list nrec) :=
  if no_empty_seq recs then
    do s1 <- ids_stage1 pf cn allow (set_nindices 1 recs); named_check s1
  else Err E_Other.

(* with the configured number of workers / in-process *)
Definition pp_ids (cn : Z -> C16.Model.str -> Z) (allow : bool) (cfg_cpus : Z) (sched : list event) (recs : list nrec)
  : res (list nrec) :=
  pp_ids_gen (fun f => parallel_function f cfg_cpus 0 None sched) cn allow recs.
Definition pp_ids_inproc (cn : Z -> C16.Model.str -> Z) (allow : bool) (recs : list nrec) : res (list nrec) :=
  pp_ids_gen sequential cn allow recs.

(* ---------- VARIANT (not the code; the design reason on record) ----------
   The same block with the id bookkeeping moved into the function shipped to the workers:
     _clean_record(record, all_record_ids, allow): fix_record_name_id(record, all_record_ids, allow); return sanitise_sequence(record)
     parallel_function(_clean_record, ([record, all_record_ids, allow] for record in sequences))
   Run in-process (one configured worker, or the single-record bypass) every call works on the SAME set object: the
   set is threaded as before.  Through a pool every call unpickles its OWN copy of the set as it was when the
   batch was submitted; what the call adds to its copy is thrown away with it.  (CPython pickles a chunk as one
   object, so calls of one chunk would share a copy; the variant is stated per call - chunks of one call, which
   is what a batch of at most 4 x workers records gets.) *)
Definition clean_record_own_copy (cn : Z -> C16.Model.str -> Z) (allow : bool) (set : list C16.Model.str) (r : nrec) : res nrec :=
  do (i, _) <- C16.Model.fix_record_name_id cn allow (fst r) set;
  do b <- sanitise_sequence (snd r); Ok (i, b).

Fixpoint clean_records_shared (cn : Z -> C16.Model.str -> Z) (allow : bool) (l : list nrec) (set : list C16.Model.str)
  : res (list nrec) :=
  match l with
  | [] => Ok []
  | r :: rest =>
    do (i, set') <- C16.Model.fix_record_name_id cn allow (fst r) set;
    do b <- sanitise_sequence (snd r);
    do rs <- clean_records_shared cn allow rest set';
    Ok ((i, b) :: rs)
  end.

Definition ids_stage1_per_call (cn : Z -> C16.Model.str -> Z) (allow : bool) (cfg_cpus : Z) (sched : list event)
           (s0 : list nrec) : res (list nrec) :=
  do (uniq, set) <- C16.Model.dedup_pass (map fst s0);
  let s := combine uniq (map snd s0) in
  match s with
  | [r] => clean_records_shared cn allow s set
  | _ => if effective_cpus cfg_cpus 0 =? 1
         then clean_records_shared cn allow s set                                  (* the shortcut: one shared set object *)
         else pool_map (clean_record_own_copy cn allow set) cfg_cpus None sched s  (* every call: its own copy *)
  end.

Definition pp_ids_per_call (cn : Z -> C16.Model.str -> Z) (allow : bool) (cfg_cpus : Z) (sched : list event)
           (recs : list nrec) : res (list nrec) :=
  if no_empty_seq recs then
    do s1 <- ids_stage1_per_call cn allow cfg_cpus sched (set_nindices 1 recs); named_check s1
  else Err E_Other.

(* ---------- decidable specification of the identifier block on an implementation output ----------
   exactly the in-process result (id, name, original_id, record_index, sequence, skip flag of every record),
   and the ids pairwise distinct; an error only where the in-process run raises as well *)
Definition ident_eqb (a b : C16.Model.rec) : bool :=
  C16.Model.str_eqb (C16.Model.r_id a) (C16.Model.r_id b) && C16.Model.str_eqb (C16.Model.r_name a) (C16.Model.r_name b) &&
  C16.Model.opt_str_eqb (C16.Model.r_orig a) (C16.Model.r_orig b) && (C16.Model.r_idx a =? C16.Model.r_idx b).
Definition nrec_eqb (a b : nrec) : bool := ident_eqb (fst a) (fst b) && prec_eqb (snd a) (snd b).
Definition ids_spec_ok (cn : Z -> C16.Model.str -> Z) (allow : bool) (recs : list nrec) (out : res (list nrec)) : bool :=
  match out, pp_ids_inproc cn allow recs with
  | Ok l, Ok l' => list_eqb nrec_eqb l l' && C16.Model.distinct (nids l)
  | Err _, Err _ => true
  | _, _ => false
  end.

(* ---------- encoding ---------- *)
(* a job travels as its duration class (0 negligible | 1 exceeds the timeout) and its sequential outcome:
   s 0 v (returns v) | s 1 kind (raises) *)
Definition dTask : dec (bool * res Z) := fun l =>
  match l with
  | s :: 0 :: v :: r => Some ((negb (s =? 0), Ok v), r)
  | s :: 1 :: k :: r => Some ((negb (s =? 0), Err k), r)
  | _ => None
  end.
Definition dEvent : dec event := fun l =>
  match l with
  | 0 :: w :: r => Some (Start w, r)
  | 1 :: w :: r => Some (Finish w, r)
  | 2 :: w :: r => Some (Crash w, r)
  | 3 :: _ :: r => Some (Tick, r)
  | _ => None
  end.
Definition dResList : dec (res (list Z)) := fun l =>
  match l with
  | 0 :: r => match dList dZ r with Some (vs, r') => Some (Ok vs, r') | None => None end
  | 1 :: k :: r => Some (Err k, r)
  | _ => None
  end.
Definition eVals (vs : list Z) : list Z := eList (fun v => [v]) vs.

(* pre_process_sequences: a record travels as id skip ncds rest seq; the gene finder as a table
   id -> outcome on that record (0 ncds rest | 1 kind), the identity for ids not in the table *)
Definition dRec : dec prec := fun l =>
  match dPair (dPair (dPair (dPair dZ dZ) dZ) dZ) (dList dZ) l with
  | Some ((i, s, n, x, sq), r) => Some (mkR i 0 sq s n x, r)
  | None => None
  end.
Definition dGf : dec (Z * res (Z * Z)) := fun l =>
  match l with
  | i :: 0 :: n :: x :: r => Some ((i, Ok (n, x)), r)
  | i :: 1 :: k :: r => Some ((i, Err k), r)
  | _ => None
  end.
Fixpoint gf_of_table (t : list (Z * res (Z * Z))) (r : prec) : res prec :=
  match t with
  | [] => Ok r
  | (i, o) :: t' =>
    if i =? r_id r then
      match o with
      | Ok (n, x) => Ok (mkR (r_id r) (r_index r) (r_seq r) (r_skip r) n x)
      | Err k => Err k
      end
    else gf_of_table t' r
  end.
Definition dOpts : dec popts := fun l =>
  match dPair (dPair (dPair (dPair dBool (dOpt dZ)) dZ) dZ) dBool l with
  | Some ((c, t, m, lim, g), r) => Some (mkO c t m lim g, r)
  | None => None
  end.
Definition eRec (r : prec) : list Z :=
  [r_id r; r_index r; r_skip r; r_ncds r; r_rest r] ++ eList (fun c => [c]) (r_seq r).
Definition ePP (x : bool * list prec) : list Z := eBool (fst x) ++ eList eRec (snd x).
Definition dRecOut : dec prec := fun l =>
  match l with
  | i :: ix :: s :: n :: x :: r =>
    match dList dZ r with Some (sq, r') => Some (mkR i ix sq s n x, r') | None => None end
  | _ => None
  end.
Definition dPPOut : dec (res (bool * list prec)) := fun l =>
  match l with
  | 0 :: r => match dPair dBool (dList dRecOut) r with Some (x, r') => Some (Ok x, r') | None => None end
  | 1 :: k :: r => Some (Err k, r)
  | _ => None
  end.
(* payload: cfg_cpus options records gene-finder-table schedule1 schedule2 *)
Definition dPPCase : dec (Z * popts * list prec * list (Z * res (Z * Z)) * list event * list event) :=
  dPair (dPair (dPair (dPair (dPair dZ dOpts) (dList dRec)) (dList dGf)) (dList dEvent)) (dList dEvent).

(* identifier block: a record travels in as  id name seq  (strings as character codes; no original id, body with one
   CDS feature), and comes back as  id name original_id(option) record_index skip seq *)
Definition dNrecIn : dec nrec := fun l =>
  match dPair (dPair C16.Model.dStr C16.Model.dStr) (dList dZ) l with
  | Some ((i, n, sq), r) => Some ((C16.Model.mkRec i n None 0, mkR 0 0 sq 0 1 0), r)
  | None => None
  end.
Definition eNrec (r : nrec) : list Z :=
  C16.Model.eStr (C16.Model.r_id (fst r)) ++ C16.Model.eStr (C16.Model.r_name (fst r)) ++ eOpt C16.Model.eStr (C16.Model.r_orig (fst r)) ++
  [r_index (snd r); r_skip (snd r)] ++ eList (fun c => [c]) (r_seq (snd r)).
Definition dNrecOut : dec nrec := fun l =>
  match dPair (dPair C16.Model.dStr C16.Model.dStr) (dPair (dOpt C16.Model.dStr) (dPair (dPair dZ dZ) (dList dZ))) l with
  | Some ((i, n, (o, ((ix, sk), sq))), r) => Some ((C16.Model.mkRec i n o ix, mkR 0 ix sq sk 1 0), r)
  | None => None
  end.
Definition dIdsOut : dec (res (list nrec)) := fun l =>
  match l with
  | 0 :: r => match dList dNrecOut r with Some (x, r') => Some (Ok x, r') | None => None end
  | 1 :: k :: r => Some (Err k, r)
  | _ => None
  end.
(* payload: cfg_cpus allow_long_headers records schedule *)
Definition dIdsCase : dec (Z * bool * list nrec * list event) :=
  dPair (dPair (dPair dZ dBool) (dList dNrecIn)) (dList dEvent).

(* payload: cfg_cpus cpus timeout(option) tasks(list) schedule(list) *)
Definition dCase : dec (Z * Z * option Z * list (bool * res Z) * list event) :=
  dPair (dPair (dPair (dPair dZ dZ) (dOpt dZ)) (dList dTask)) (dList dEvent).

Definition run_C18 (fn : Z) (l : list Z) : list Z :=
  match fn with
  | 1 => match dCase l with
         | Some ((cfg, cpus, timeout, jobs, sched), []) =>
           eRes eVals (parallel_function snd cfg cpus timeout sched jobs)
         | _ => bad_input end
  | 2 => match dCase l with
         | Some ((cfg, cpus, timeout, jobs, sched), []) =>
           eRes eVals (parallel_execute snd cfg cpus timeout sched jobs)
         | _ => bad_input end
  | 11 => (* specification on the implementation's output (appended to the payload); second number: the
             finding class the input belongs to (0 = none; 2 was C18-K2, repaired: never answered any more) *)
         match dPair dCase dResList l with
         | Some ((cfg, cpus, timeout, jobs, _, out), []) =>
           eBool (tspec_ok cfg cpus timeout jobs out) ++ [if finding_K2 cfg cpus timeout jobs then 2 else 0]
         | _ => bad_input end
  | 12 => match dPair dCase dResList l with
         | Some ((cfg, cpus, timeout, jobs, _, out), []) => eBool (tspec_ok cfg cpus timeout jobs out) ++ [0]
         | _ => bad_input end
  | 7 => (* does the schedule agree with the duration classes (pool of the effective worker count)?
            [no Finish of a slow chunk before the timeout; no tick while no slow chunk runs] *)
         match dCase l with
         | Some ((cfg, cpus, timeout, jobs, sched), []) =>
           let procs := effective_cpus cfg cpus in
           eBool (respects_durations snd fst procs timeout sched jobs) ++ eBool (timely snd fst procs timeout sched jobs)
         | _ => bad_input end
  | 3 => match dPPCase l with
         | Some ((cfg, o, recs, tbl, s1, s2), []) => eRes ePP (pre_process (gf_of_table tbl) o cfg s1 s2 recs)
         | _ => bad_input end
  | 13 => match dPair dPPCase dPPOut l with
         | Some ((cfg, o, recs, tbl, _, _, out), []) => eBool (pp_spec_ok (gf_of_table tbl) o recs out)
         | _ => bad_input end
  | 4 => (* the identifier block of pre_process_sequences with the configured workers *)
         match dIdsCase l with
         | Some ((cfg, allow, recs, sched), []) => eRes (eList eNrec) (pp_ids C16.Model.contig_no allow cfg sched recs)
         | _ => bad_input end
  | 14 => match dPair dIdsCase dIdsOut l with
         | Some ((_, allow, recs, _, out), []) => eBool (ids_spec_ok C16.Model.contig_no allow recs out)
         | _ => bad_input end
  | 5 => (* the VARIANT with the bookkeeping per call on a copy (what C18_preprocess_ids_per_call_copy_refuted is about) *)
         match dIdsCase l with
         | Some ((cfg, allow, recs, sched), []) => eRes (eList eNrec) (pp_ids_per_call C16.Model.contig_no allow cfg sched recs)
         | _ => bad_input end
  | _ => bad_input
  end.
