(* C18 - parallel execution: antismash/common/subprocessing/base.py parallel_function and
   parallel_execute over an abstract model of multiprocessing.Pool.{starmap_async,map_async}.

   What is antiSMASH's: the `cpus` defaulting (`if not cpus`), the `cpus == 1` shortcut (a list
   comprehension, timeout ignored), submitting all argument tuples at once, one `get(timeout)`,
   TimeoutError -> RuntimeError, returning the list.
   What is CPython's (an assumption recorded here, tied by the correspondence run only):
     Pool(processes) raises ValueError for processes < 1;
     _map_async: chunksize = ceil(n / (4 * processes)) (0 for an empty batch), the batch is cut into
       chunks of that size (_get_tasks), the chunks go through ONE fifo task queue, an idle worker
       takes the head of the queue, runs the whole chunk (mapstar/starmapstar: the first exception
       aborts the rest of the chunk) and reports (chunk number, success, results | exception);
     MapResult._set: number_left -= 1; a successful chunk is stored BY CHUNK NUMBER
       (value[i*chunksize:(i+1)*chunksize] = result) as long as no chunk has failed; the first failing
       chunk (in completion order) replaces the value by its exception; the result is ready when
       number_left = 0; get(timeout) returns the value / raises the stored exception when ready,
       raises TimeoutError when the timeout expires first, and never returns when neither happens
       (a worker process that dies takes its chunk with it: the pool starts a new worker, the chunk
       is lost).
   The schedule (which worker starts/finishes/dies when, where the clock ticks fall) is an argument
   of the model: a list of events.  Events that make no sense in the current state (worker number out
   of range, Start on a busy worker or with an empty queue, Finish/Crash on an idle worker) are
   no-ops, so EVERY list of events is a schedule.  A schedule that ends before the result is ready
   models a get() that never returns (Err E_Fuel = nontermination). *)
From ASV Require Import Base.

(* ---------- the task function ---------- *)
(* a call either returns a value or raises: f : A -> res B.  A chunk is run by
   list(starmap(f, chunk)): left to right, the first exception aborts the chunk *)
Definition run_chunk {A B} (f : A -> res B) (chunk : list A) : res (list B) := mapM f chunk.

(* ---------- CPython: cutting the batch into chunks ---------- *)
(* Pool._get_tasks: repeatedly tuple(islice(it, size)) until it is empty; fuel = length of the batch *)
Fixpoint get_tasks {A} (fuel : nat) (size : nat) (l : list A) : list (list A) :=
  match fuel with
  | O => []
  | S fu => match l with
            | [] => []
            | _ :: _ => firstn size l :: get_tasks fu size (skipn size l)
            end
  end.

(* chunksize, extra = divmod(len(iterable), len(pool) * 4); if extra: chunksize += 1;
   if len(iterable) == 0: chunksize = 0 *)
Definition chunksize (n procs : Z) : Z :=
  if n =? 0 then 0 else
  let q := n / (procs * 4) in
  if n mod (procs * 4) =? 0 then q else q + 1.

Definition make_chunks {A} (procs : Z) (args : list A) : list (list A) :=
  get_tasks (length args) (Z.to_nat (chunksize (zlen args) procs)) args.

(* ---------- the pool state machine ---------- *)
Inductive event : Type :=
| Start (w : Z)     (* idle worker w takes the head of the task queue *)
| Finish (w : Z)    (* worker w finishes its chunk and reports it *)
| Crash (w : Z)     (* worker w's process dies; its chunk is lost *)
| Tick.             (* one unit of the timeout clock passes *)

Record pstate (B : Type) : Type := mkP {
  pend : list Z;                      (* task queue: chunk numbers not yet taken, fifo *)
  runn : list (Z * Z);                (* (worker, chunk number) for the busy workers *)
  value : list (option (list B));     (* MapResult._value, by chunk number *)
  failed : option Z;                  (* MapResult._success = False and the stored exception *)
  nleft : Z;                          (* MapResult._number_left *)
  ticks : Z                           (* clock *)
}.
Arguments mkP {B}.
Arguments pend {B}.
Arguments runn {B}.
Arguments value {B}.
Arguments failed {B}.
Arguments nleft {B}.
Arguments ticks {B}.

Fixpoint lookup_w (w : Z) (r : list (Z * Z)) : option Z :=
  match r with
  | [] => None
  | (w', c) :: r' => if w' =? w then Some c else lookup_w w r'
  end.
Fixpoint remove_w (w : Z) (r : list (Z * Z)) : list (Z * Z) :=
  match r with
  | [] => []
  | (w', c) :: r' => if w' =? w then r' else (w', c) :: remove_w w r'
  end.

Fixpoint set_nth {X} (n : nat) (x : X) (l : list X) {struct l} : list X :=
  match l with
  | [] => []
  | y :: ys => match n with O => x :: ys | S m => y :: set_nth m x ys end
  end.

(* MapResult._set(i, (success, result)) *)
Definition set_result {B} (c : Z) (r : res (list B)) (st : pstate B) : pstate B :=
  let left' := nleft st - 1 in
  match r, failed st with
  | Ok rs, None => mkP (pend st) (runn st) (set_nth (Z.to_nat c) (Some rs) (value st)) None left' (ticks st)
  | Err e, None => mkP (pend st) (runn st) (value st) (Some e) left' (ticks st)   (* only the first exception is stored *)
  | _, Some e0 => mkP (pend st) (runn st) (value st) (Some e0) left' (ticks st)
  end.

Definition with_queues {B} (p : list Z) (r : list (Z * Z)) (st : pstate B) : pstate B :=
  mkP p r (value st) (failed st) (nleft st) (ticks st).

Definition step {A B} (f : A -> res B) (procs : Z) (chunks : list (list A)) (ev : event) (st : pstate B)
  : pstate B :=
  match ev with
  | Start w =>
    if (0 <=? w) && (w <? procs) then
      match lookup_w w (runn st), pend st with
      | None, c :: p' => with_queues p' ((w, c) :: runn st) st
      | _, _ => st
      end
    else st
  | Finish w =>
    match lookup_w w (runn st) with
    | Some c => set_result c (run_chunk f (nth (Z.to_nat c) chunks [])) (with_queues (pend st) (remove_w w (runn st)) st)
    | None => st
    end
  | Crash w =>
    match lookup_w w (runn st) with
    | Some _ => with_queues (pend st) (remove_w w (runn st)) st
    | None => st
    end
  | Tick => mkP (pend st) (runn st) (value st) (failed st) (nleft st) (ticks st + 1)
  end.

(* all slots filled -> the result list, in chunk order.  A missing slot cannot occur when the result
   is ready and no chunk failed (Proofs.v: ready_complete); Python would return a list with None in it *)
Fixpoint collect {B} (v : list (option (list B))) : res (list B) :=
  match v with
  | [] => Ok []
  | Some rs :: v' => do rest <- collect v'; Ok (rs ++ rest)
  | None :: _ => Err E_Assert
  end.

Definition expired (timeout : option Z) (now : Z) : bool :=
  match timeout with None => false | Some t => t <=? now end.

(* jobs.get(timeout): ready -> value or stored exception; timeout expired -> multiprocessing.TimeoutError,
   which parallel_function/parallel_execute turn into RuntimeError; schedule exhausted -> never returns *)
Fixpoint pool_get {A B} (f : A -> res B) (procs : Z) (chunks : list (list A)) (timeout : option Z)
         (sched : list event) (st : pstate B) : res (list B) :=
  if nleft st =? 0 then
    match failed st with Some e => Err e | None => collect (value st) end
  else if expired timeout (ticks st) then Err E_Runtime
  else match sched with
       | [] => Err E_Fuel
       | ev :: s => pool_get f procs chunks timeout s (step f procs chunks ev st)
       end.

Fixpoint zrange (from : Z) (n : nat) : list Z :=
  match n with O => [] | S m => from :: zrange (from + 1) m end.

Definition init_state {A} (B : Type) (chunks : list (list A)) : pstate B :=
  mkP (zrange 0 (length chunks)) [] (map (fun _ => None) chunks) None (zlen chunks) 0.

(* with multiprocessing.Pool(procs) as pool: jobs = pool.(star)map_async(f, args); jobs.get(timeout) *)
Definition pool_map {A B} (f : A -> res B) (procs : Z) (timeout : option Z) (sched : list event)
           (args : list A) : res (list B) :=
  if procs <? 1 then Err E_Value     (* Pool.__init__: Number of processes must be at least 1 *)
  else let chunks := make_chunks procs args in
       pool_get f procs chunks timeout sched (init_state B chunks).

(* ---------- antismash.common.subprocessing.base ---------- *)
(* `if not cpus: cpus = get_config().cpus`: None and 0 are both falsy; cpus travels as an integer, 0 = not given *)
Definition effective_cpus (cfg_cpus cpus : Z) : Z := if cpus =? 0 then cfg_cpus else cpus.

Definition parallel_function {A B} (f : A -> res B) (cfg_cpus cpus : Z) (timeout : option Z)
           (sched : list event) (args : list A) : res (list B) :=
  let cpus := effective_cpus cfg_cpus cpus in
  if cpus =? 1 then mapM f args       (* [function( *argset) for argset in args], ignores timeout *)
  else pool_map f cpus timeout sched args.

(* parallel_execute: no shortcut; the runner (child_process) returns the command's return code *)
Definition parallel_execute {A B} (f : A -> res B) (cfg_cpus cpus : Z) (timeout : option Z)
           (sched : list event) (commands : list A) : res (list B) :=
  pool_map f (effective_cpus cfg_cpus cpus) timeout sched commands.

(* ---------- the decidable specification, evaluated on the implementation's output ---------- *)
(* the sequential run: [f( *a) for a in args] *)
Definition sequential {A B} (f : A -> res B) (args : list A) : res (list B) := mapM f args.

(* out is acceptable for the batch: a returned list must be the sequential list; an error is acceptable
   only if some call raises, or a timeout was given, or the worker count is invalid *)
Definition spec_ok (cfg_cpus cpus : Z) (timeout : option Z) (tasks : list (res Z)) (out : res (list Z)) : bool :=
  match out with
  | Ok vs => match sequential (fun t => t) tasks with
             | Ok ws => list_eqb Z.eqb vs ws
             | Err _ => false
             end
  | Err e => match sequential (fun t => t) tasks with
             | Err _ => true
             | Ok _ => match timeout with Some _ => e =? E_Runtime | None => false end
                       || (effective_cpus cfg_cpus cpus <? 1)
             end
  end.

(* ---------- encoding ---------- *)
(* a task travels as its sequential outcome: 0 v (returns v) | 1 kind (raises) *)
Definition dTask : dec (res Z) := fun l =>
  match l with
  | 0 :: v :: r => Some (Ok v, r)
  | 1 :: k :: r => Some (Err k, r)
  | _ => None
  end.
Definition dEvent : dec event := fun l =>
  match l with
  | 0 :: w :: r => Some (Start w, r)
  | 1 :: w :: r => Some (Finish w, r)
  | 2 :: w :: r => Some (Crash w, r)
  | 3 :: _ :: r => Some (Tick, r)
  | _ => None
  end.
Definition dResList : dec (res (list Z)) := fun l =>
  match l with
  | 0 :: r => match dList dZ r with Some (vs, r') => Some (Ok vs, r') | None => None end
  | 1 :: k :: r => Some (Err k, r)
  | _ => None
  end.
Definition eVals (vs : list Z) : list Z := eList (fun v => [v]) vs.

(* payload: cfg_cpus cpus timeout(option) tasks(list) schedule(list) *)
Definition dCase : dec (Z * Z * option Z * list (res Z) * list event) :=
  dPair (dPair (dPair (dPair dZ dZ) (dOpt dZ)) (dList dTask)) (dList dEvent).

Definition run_C18 (fn : Z) (l : list Z) : list Z :=
  match fn with
  | 1 => match dCase l with
         | Some ((cfg, cpus, timeout, tasks, sched), []) =>
           eRes eVals (parallel_function (fun t => t) cfg cpus timeout sched tasks)
         | _ => bad_input end
  | 2 => match dCase l with
         | Some ((cfg, cpus, timeout, tasks, sched), []) =>
           eRes eVals (parallel_execute (fun t => t) cfg cpus timeout sched tasks)
         | _ => bad_input end
  | 11 | 12 => (* specification on the implementation's output (appended to the payload) *)
         match dPair dCase dResList l with
         | Some ((cfg, cpus, timeout, tasks, _, out), []) => eBool (spec_ok cfg cpus timeout tasks out)
         | _ => bad_input end
  | _ => bad_input
  end.
