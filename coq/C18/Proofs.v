(* C18 - lemmas and proofs. *)
From ASV Require Import Base.
From ASV.C18 Require Import Model.
From Coq Require Import Lia ZifyBool Permutation.

(* ---------- mapM ---------- *)
Lemma mapM_app : forall {A B} (f : A -> res B) (a b : list A),
  mapM f (a ++ b) = (do x <- mapM f a; do y <- mapM f b; Ok (x ++ y)).
Proof.
  intros A B f a. induction a as [|x a IH]; intros b.
  - cbn. destruct (mapM f b); reflexivity.
  - cbn [app mapM bind]. destruct (f x) as [y|k]; cbn [bind]; [|reflexivity].
    rewrite IH. destruct (mapM f a) as [ys|k]; cbn [bind]; [|reflexivity].
    destruct (mapM f b) as [zs|k]; cbn [bind]; reflexivity.
Qed.

Lemma mapM_Err_In : forall {A B} (f : A -> res B) (l : list A) e,
  mapM f l = Err e -> exists a, In a l /\ f a = Err e.
Proof.
  intros A B f l. induction l as [|x l IH]; intros e H.
  - cbn in H. discriminate.
  - cbn [mapM bind] in H. destruct (f x) as [y|k] eqn:Hx; cbn [bind] in H.
    + destruct (mapM f l) as [ys|k] eqn:Hl; cbn [bind] in H; [discriminate|].
      inversion H; subst k. destruct (IH e eq_refl) as [a [Ha Hf]].
      exists a. split; [right; exact Ha|exact Hf].
    + inversion H; subst k. exists x. split; [left; reflexivity|exact Hx].
Qed.

Lemma mapM_Ok_length : forall {A B} (f : A -> res B) (l : list A) rs,
  mapM f l = Ok rs -> length rs = length l.
Proof.
  intros A B f l. induction l as [|x l IH]; intros rs H.
  - cbn in H. inversion H. reflexivity.
  - cbn [mapM bind] in H. destruct (f x) as [y|k]; cbn [bind] in H; [|discriminate].
    destruct (mapM f l) as [ys|k]; cbn [bind] in H; [|discriminate].
    inversion H. cbn. rewrite (IH ys eq_refl). reflexivity.
Qed.

Lemma mapM_Ok_nth : forall {A B} (f : A -> res B) (l : list A) rs,
  mapM f l = Ok rs -> forall i a, nth_error l i = Some a -> exists r, nth_error rs i = Some r /\ f a = Ok r.
Proof.
  intros A B f l. induction l as [|x l IH]; intros rs H i a Hi.
  - destruct i; discriminate.
  - cbn [mapM bind] in H. destruct (f x) as [y|k] eqn:Hx; cbn [bind] in H; [|discriminate].
    destruct (mapM f l) as [ys|k] eqn:Hl; cbn [bind] in H; [|discriminate].
    inversion H; subst rs. destruct i as [|i].
    + cbn in Hi. inversion Hi; subst a. exists y. split; [reflexivity|exact Hx].
    + cbn in Hi. cbn. exact (IH ys eq_refl i a Hi).
Qed.

(* chunk results, slot by slot, give the result of the whole batch in order *)
Lemma mapM_concat_slots : forall {A B} (f : A -> res B) (cs : list (list A)) (rss : list (list B)),
  length cs = length rss ->
  (forall c rs, nth_error rss c = Some rs -> mapM f (nth c cs []) = Ok rs) ->
  mapM f (concat cs) = Ok (concat rss).
Proof.
  intros A B f cs. induction cs as [|ch cs IH]; intros rss Hlen Hs.
  - destruct rss; [reflexivity|discriminate].
  - destruct rss as [|rs rss]; [discriminate|].
    cbn [concat]. rewrite mapM_app.
    pose proof (Hs 0%nat rs eq_refl) as H0. cbn [nth] in H0. rewrite H0. cbn [bind].
    rewrite (IH rss).
    + reflexivity.
    + cbn in Hlen. lia.
    + intros c rs' Hc. exact (Hs (S c) rs' Hc).
Qed.

(* ---------- chunking ---------- *)
Lemma get_tasks_concat : forall {A} (size : nat) (fuel : nat) (l : list A),
  (1 <= size)%nat -> (length l <= fuel)%nat -> concat (get_tasks fuel size l) = l.
Proof.
  intros A size fuel. induction fuel as [|fu IH]; intros l Hs Hl.
  - destruct l; [reflexivity|cbn in Hl; lia].
  - destruct l as [|x l]; [reflexivity|].
    cbn [get_tasks concat]. rewrite IH.
    + apply firstn_skipn.
    + exact Hs.
    + rewrite skipn_length. cbn [length] in *. lia.
Qed.

Lemma chunksize_pos : forall n procs, 0 < n -> 1 <= procs -> 1 <= chunksize n procs.
Proof.
  intros n procs Hn Hp. unfold chunksize.
  destruct (n =? 0) eqn:H0; [lia|].
  assert (Hd : 0 < procs * 4) by lia.
  pose proof (Z.div_mod n (procs * 4) ltac:(lia)) as Hdm.
  pose proof (Z.mod_pos_bound n (procs * 4) Hd) as Hmb.
  pose proof (Z.div_pos n (procs * 4) ltac:(lia) Hd) as Hq.
  destruct (n mod (procs * 4) =? 0) eqn:Hm.
  - assert (n mod (procs * 4) = 0) by lia.
    destruct (Z.eq_dec (n / (procs * 4)) 0) as [Hz|Hz]; [|lia].
    rewrite Hz in Hdm. lia.
  - lia.
Qed.

Lemma make_chunks_concat : forall {A} procs (args : list A),
  1 <= procs -> concat (make_chunks procs args) = args.
Proof.
  intros A procs args Hp. unfold make_chunks.
  destruct args as [|a args]; [reflexivity|].
  apply get_tasks_concat; [|lia].
  assert (1 <= chunksize (zlen (a :: args)) procs).
  { apply chunksize_pos; [unfold zlen; cbn [length]; lia|exact Hp]. }
  lia.
Qed.

(* ---------- set_nth ---------- *)
Lemma set_nth_length : forall {X} n (x : X) l, length (set_nth n x l) = length l.
Proof.
  intros X n x l. revert n. induction l as [|y l IH]; intros n; [reflexivity|].
  destruct n; cbn; [reflexivity|]. rewrite IH. reflexivity.
Qed.

Lemma nth_error_set_nth_inv : forall {X} n (x : X) l m y,
  nth_error (set_nth n x l) m = Some y -> (m = n /\ y = x) \/ nth_error l m = Some y.
Proof.
  intros X n x l. revert n. induction l as [|z l IH]; intros n m y H.
  - cbn in H. right. exact H.
  - destruct n as [|n]; destruct m as [|m]; cbn in H |- *.
    + left. inversion H. split; reflexivity.
    + right. exact H.
    + right. exact H.
    + destruct (IH n m y H) as [[E1 E2]|E]; [left; split; [lia|exact E2]|right; exact E].
Qed.

Lemma nth_error_set_nth_other : forall {X} n (x : X) l m,
  m <> n -> nth_error (set_nth n x l) m = nth_error l m.
Proof.
  intros X n x l. revert n. induction l as [|z l IH]; intros n m H; [reflexivity|].
  destruct n as [|n]; destruct m as [|m]; cbn; try reflexivity; [lia|].
  apply IH. lia.
Qed.

(* ---------- soundness of the stored values (no counting needed) ---------- *)
Definition inv_val {A B} (f : A -> res B) (cs : list (list A)) (st : pstate B) : Prop :=
  length (value st) = length cs /\
  (forall c rs, nth_error (value st) c = Some (Some rs) -> run_chunk f (nth c cs []) = Ok rs) /\
  (forall e, failed st = Some e -> exists c, run_chunk f (nth c cs []) = Err e).

Lemma set_result_inv_val : forall {A B} (f : A -> res B) cs c (st : pstate B),
  inv_val f cs st ->
  inv_val f cs (set_result c (run_chunk f (nth (Z.to_nat c) cs [])) st).
Proof.
  intros A B f cs c st [Hlen [Hv Hf]]. unfold set_result.
  destruct (run_chunk f (nth (Z.to_nat c) cs [])) as [rs|e] eqn:Hr; destruct (failed st) as [e0|] eqn:Hfl;
    unfold inv_val; cbn [value failed].
  - split; [exact Hlen|]. split; [exact Hv|]. intros e He. inversion He; subst e. apply Hf. reflexivity.
  - split; [rewrite set_nth_length; exact Hlen|]. split.
    + intros c' rs' Hc'. apply nth_error_set_nth_inv in Hc'. destruct Hc' as [[E1 E2]|E].
      * inversion E2; subst rs' c'. exact Hr.
      * apply Hv. exact E.
    + intros e He. discriminate.
  - split; [exact Hlen|]. split; [exact Hv|]. intros e' He. inversion He; subst e'. apply Hf. reflexivity.
  - split; [exact Hlen|]. split; [exact Hv|]. intros e' He. inversion He; subst e'.
    exists (Z.to_nat c). exact Hr.
Qed.

Lemma with_queues_inv_val : forall {A B} (f : A -> res B) cs p r (st : pstate B),
  inv_val f cs st -> inv_val f cs (with_queues p r st).
Proof. intros A B f cs p r st H. exact H. Qed.

Lemma step_inv_val : forall {A B} (f : A -> res B) procs cs ev (st : pstate B),
  inv_val f cs st -> inv_val f cs (step f procs cs ev st).
Proof.
  intros A B f procs cs ev st H. destruct ev as [w|w|w|]; cbn [step].
  - destruct ((0 <=? w) && (w <? procs)); [|exact H].
    destruct (lookup_w w (runn st)); [exact H|]. destruct (pend st); [exact H|].
    apply with_queues_inv_val. exact H.
  - destruct (lookup_w w (runn st)) as [c|]; [|exact H].
    apply set_result_inv_val. apply with_queues_inv_val. exact H.
  - destruct (lookup_w w (runn st)); [|exact H]. apply with_queues_inv_val. exact H.
  - exact H.
Qed.

Lemma collect_ok : forall {B} (v : list (option (list B))) out,
  collect v = Ok out -> exists rss, v = map Some rss /\ out = concat rss.
Proof.
  intros B v. induction v as [|o v IH]; intros out H.
  - cbn in H. inversion H. exists []. split; reflexivity.
  - destruct o as [rs|]; cbn [collect] in H; [|discriminate].
    destruct (collect v) as [rest|k] eqn:Hc; cbn [bind] in H; [|discriminate].
    inversion H; subst out. destruct (IH rest eq_refl) as [rss [E1 E2]].
    exists (rs :: rss). split; [cbn; rewrite E1; reflexivity|cbn; rewrite E2; reflexivity].
Qed.

Lemma pool_get_sound : forall {A B} (f : A -> res B) procs cs timeout sched (st : pstate B) out,
  inv_val f cs st ->
  pool_get f procs cs timeout sched st = Ok out -> mapM f (concat cs) = Ok out.
Proof.
  intros A B f procs cs timeout sched. induction sched as [|ev s IH]; intros st out Hinv H;
    cbn [pool_get] in H.
  - destruct (nleft st =? 0).
    + destruct (failed st); [discriminate|].
      destruct Hinv as [Hlen [Hv _]]. apply collect_ok in H. destruct H as [rss [E1 E2]]. subst out.
      apply mapM_concat_slots.
      * rewrite <- Hlen, E1, map_length. reflexivity.
      * intros c rs Hc. apply Hv. rewrite E1. rewrite nth_error_map, Hc. reflexivity.
    + destruct (expired timeout (ticks st)); discriminate.
  - destruct (nleft st =? 0).
    + destruct (failed st); [discriminate|].
      destruct Hinv as [Hlen [Hv _]]. apply collect_ok in H. destruct H as [rss [E1 E2]]. subst out.
      apply mapM_concat_slots.
      * rewrite <- Hlen, E1, map_length. reflexivity.
      * intros c rs Hc. apply Hv. rewrite E1. rewrite nth_error_map, Hc. reflexivity.
    + destruct (expired timeout (ticks st)); [discriminate|].
      apply (IH _ out (step_inv_val f procs cs ev st Hinv) H).
Qed.

Lemma init_inv_val : forall {A B} (f : A -> res B) (cs : list (list A)), inv_val f cs (init_state B cs).
Proof.
  intros A B f cs. unfold inv_val, init_state. cbn [value failed]. split; [apply map_length|]. split.
  - intros c rs H. rewrite nth_error_map in H. destruct (nth_error cs c); cbn in H; discriminate.
  - intros e H. discriminate.
Qed.

Lemma pool_map_sound : forall {A B} (f : A -> res B) procs timeout sched (args : list A) out,
  pool_map f procs timeout sched args = Ok out -> mapM f args = Ok out.
Proof.
  intros A B f procs timeout sched args out H. unfold pool_map in H.
  destruct (procs <? 1) eqn:Hp; [discriminate|].
  apply pool_get_sound in H; [|apply init_inv_val].
  rewrite make_chunks_concat in H; [exact H|lia].
Qed.

(* ---------- the theorems' lemmas: order ---------- *)
Lemma cpus1_is_map : forall {A B} (f : A -> res B) cfg cpus timeout sched (args : list A),
  effective_cpus cfg cpus = 1 ->
  parallel_function f cfg cpus timeout sched args = sequential f args.
Proof.
  intros A B f cfg cpus timeout sched args H. unfold parallel_function. rewrite H. reflexivity.
Qed.

Lemma order_sound : forall {A B} (f : A -> res B) cfg cpus timeout sched (args : list A) out,
  parallel_function f cfg cpus timeout sched args = Ok out -> sequential f args = Ok out.
Proof.
  intros A B f cfg cpus timeout sched args out H. unfold parallel_function in H. unfold sequential.
  destruct (effective_cpus cfg cpus =? 1); [exact H|].
  exact (pool_map_sound f _ timeout sched args out H).
Qed.

Lemma execute_order_sound : forall {A B} (f : A -> res B) cfg cpus timeout sched (cmds : list A) out,
  parallel_execute f cfg cpus timeout sched cmds = Ok out -> sequential f cmds = Ok out.
Proof.
  intros A B f cfg cpus timeout sched cmds out H.
  exact (pool_map_sound f _ timeout sched cmds out H).
Qed.

(* the returned list has one result per call, the i-th result is the i-th call's *)
Lemma order_pointwise : forall {A B} (f : A -> res B) cfg cpus timeout sched (args : list A) out,
  parallel_function f cfg cpus timeout sched args = Ok out ->
  length out = length args /\
  forall i a, nth_error args i = Some a -> exists r, nth_error out i = Some r /\ f a = Ok r.
Proof.
  intros A B f cfg cpus timeout sched args out H. apply order_sound in H. unfold sequential in H.
  split; [exact (mapM_Ok_length f args out H)|exact (mapM_Ok_nth f args out H)].
Qed.

Lemma failure_surfaces : forall {A B} (f : A -> res B) cfg cpus timeout sched (args : list A) e0,
  sequential f args = Err e0 ->
  exists e, parallel_function f cfg cpus timeout sched args = Err e.
Proof.
  intros A B f cfg cpus timeout sched args e0 Hs.
  destruct (parallel_function f cfg cpus timeout sched args) as [out|e] eqn:Hp.
  - apply order_sound in Hp. rewrite Hp in Hs. discriminate.
  - exists e. reflexivity.
Qed.

Lemma execute_failure_surfaces : forall {A B} (f : A -> res B) cfg cpus timeout sched (cmds : list A) e0,
  sequential f cmds = Err e0 ->
  exists e, parallel_execute f cfg cpus timeout sched cmds = Err e.
Proof.
  intros A B f cfg cpus timeout sched args e0 Hs.
  destruct (parallel_execute f cfg cpus timeout sched args) as [out|e] eqn:Hp.
  - apply execute_order_sound in Hp. rewrite Hp in Hs. discriminate.
  - exists e. reflexivity.
Qed.

(* ---------- counting: when the result is ready and nothing failed, every slot is filled ---------- *)
Fixpoint count_none {X} (v : list (option X)) : Z :=
  match v with
  | [] => 0
  | None :: v' => 1 + count_none v'
  | Some _ :: v' => count_none v'
  end.

Lemma count_none_nonneg : forall {X} (v : list (option X)), 0 <= count_none v.
Proof. intros X v. induction v as [|[x|] v IH]; cbn [count_none]; lia. Qed.

Lemma count_none_set_nth : forall {X} (v : list (option X)) n x,
  nth_error v n = Some None -> count_none (set_nth n (Some x) v) = count_none v - 1.
Proof.
  intros X v. induction v as [|o v IH]; intros n x H.
  - destruct n; discriminate.
  - destruct n as [|n]; cbn in H.
    + inversion H; subst o. cbn [set_nth count_none]. lia.
    + cbn [set_nth]. destruct o; cbn [count_none]; rewrite (IH n x H); lia.
Qed.

Lemma collect_total : forall {B} (v : list (option (list B))),
  count_none v = 0 -> exists out, collect v = Ok out.
Proof.
  intros B v. induction v as [|o v IH]; intros H.
  - exists []. reflexivity.
  - destruct o as [rs|]; cbn [count_none] in H.
    + destruct (IH H) as [out E]. exists (rs ++ out). cbn [collect]. rewrite E. reflexivity.
    + pose proof (count_none_nonneg v). lia.
Qed.

Lemma count_none_map_none : forall {A X} (cs : list A),
  count_none (map (fun _ => @None X) cs) = zlen cs.
Proof.
  intros A X cs. unfold zlen. induction cs as [|c cs IH]; [reflexivity|].
  cbn [map count_none length]. rewrite IH. lia.
Qed.

Lemma remove_w_split : forall w r c,
  lookup_w w r = Some c -> exists r1 r2, r = r1 ++ (w, c) :: r2 /\ remove_w w r = r1 ++ r2.
Proof.
  intros w r. induction r as [|[w' c'] r IH]; intros c H.
  - discriminate.
  - cbn [lookup_w remove_w] in *. destruct (w' =? w) eqn:Hw.
    + inversion H; subst c'. assert (w' = w) by lia. subst w'. exists [], r. split; reflexivity.
    + destruct (IH c H) as [r1 [r2 [E1 E2]]]. exists ((w', c') :: r1), r2.
      split; [rewrite E1; reflexivity|rewrite E2; reflexivity].
Qed.

Lemma zrange_In : forall n from c, In c (zrange from n) <-> from <= c < from + Z.of_nat n.
Proof.
  intros n. induction n as [|n IH]; intros from c.
  - cbn. lia.
  - cbn [zrange In]. rewrite IH. lia.
Qed.

Lemma zrange_NoDup : forall n from, NoDup (zrange from n).
Proof.
  intros n. induction n as [|n IH]; intros from; [constructor|].
  cbn [zrange]. constructor; [|apply IH]. rewrite zrange_In. lia.
Qed.

Definition active {B} (st : pstate B) : list Z := pend st ++ map snd (runn st).

Definition inv_cnt {B} (st : pstate B) : Prop :=
  NoDup (active st) /\
  (forall c, In c (active st) -> 0 <= c /\ nth_error (value st) (Z.to_nat c) = Some None) /\
  (failed st = None -> nleft st = count_none (value st)).

Lemma init_inv_cnt : forall {A} (B : Type) (cs : list (list A)), inv_cnt (init_state B cs).
Proof.
  intros A B cs. unfold inv_cnt, active, init_state. cbn [pend runn value failed nleft map].
  rewrite app_nil_r. split; [apply zrange_NoDup|]. split.
  - intros c Hc. apply zrange_In in Hc. split; [lia|].
    rewrite nth_error_map. destruct (nth_error cs (Z.to_nat c)) eqn:E; [reflexivity|].
    apply nth_error_None in E. lia.
  - intros _. rewrite count_none_map_none. reflexivity.
Qed.

(* removing the chunk of worker w from the running set *)
Lemma remove_running : forall {B} (st : pstate B) w c,
  inv_cnt st -> lookup_w w (runn st) = Some c ->
  let st' := with_queues (pend st) (remove_w w (runn st)) st in
  inv_cnt st' /\ ~ In c (active st') /\ 0 <= c /\ nth_error (value st) (Z.to_nat c) = Some None.
Proof.
  intros B st w c [Hnd [Hsl Hcn]] Hl. cbn zeta.
  destruct (remove_w_split w (runn st) c Hl) as [r1 [r2 [E1 E2]]].
  unfold inv_cnt, active, with_queues. cbn [pend runn value failed nleft].
  unfold active in Hnd, Hsl. rewrite E1 in Hnd, Hsl. rewrite E2.
  rewrite map_app in *. cbn [map snd] in Hnd, Hsl.
  rewrite app_assoc in Hnd, Hsl. rewrite app_assoc.
  split; [split; [|split]|split].
  - exact (NoDup_remove_1 _ _ _ Hnd).
  - intros c' Hc'. apply Hsl. apply in_app_iff in Hc'. apply in_app_iff.
    destruct Hc' as [Hc'|Hc']; [left; exact Hc'|right; right; exact Hc'].
  - exact Hcn.
  - exact (NoDup_remove_2 _ _ _ Hnd).
  - apply Hsl. apply in_app_iff. right. left. reflexivity.
Qed.

Lemma set_result_inv_cnt : forall {B} c (r : res (list B)) (st : pstate B),
  inv_cnt st -> ~ In c (active st) -> 0 <= c -> nth_error (value st) (Z.to_nat c) = Some None ->
  inv_cnt (set_result c r st).
Proof.
  intros B c r st [Hnd [Hsl Hcn]] Hnot Hc0 Hslot. unfold set_result.
  destruct r as [rs|e]; destruct (failed st) as [e0|] eqn:Hf; unfold inv_cnt, active; cbn [pend runn value failed nleft].
  - split; [exact Hnd|]. split; [exact Hsl|]. intros H; discriminate.
  - split; [exact Hnd|]. split.
    + intros c' Hc'. destruct (Hsl c' Hc') as [H0 H1]. split; [exact H0|].
      rewrite nth_error_set_nth_other; [exact H1|].
      intros E. assert (c' = c) by lia. subst c'. exact (Hnot Hc').
    + intros _. rewrite count_none_set_nth; [|exact Hslot]. rewrite (Hcn eq_refl). reflexivity.
  - split; [exact Hnd|]. split; [exact Hsl|]. intros H; discriminate.
  - split; [exact Hnd|]. split; [exact Hsl|]. intros H; discriminate.
Qed.

Lemma step_inv_cnt : forall {A B} (f : A -> res B) procs cs ev (st : pstate B),
  inv_cnt st -> inv_cnt (step f procs cs ev st).
Proof.
  intros A B f procs cs ev st H. destruct ev as [w|w|w|]; cbn [step].
  - destruct ((0 <=? w) && (w <? procs)); [|exact H].
    destruct (lookup_w w (runn st)) eqn:Hl; [exact H|]. destruct (pend st) as [|c p'] eqn:Hp; [exact H|].
    destruct H as [Hnd [Hsl Hcn]]. unfold inv_cnt, active, with_queues in *. cbn [pend runn value failed nleft map snd].
    rewrite Hp in Hnd, Hsl.
    assert (HP : Permutation ((c :: p') ++ map snd (runn st)) (p' ++ c :: map snd (runn st))).
    { cbn [app]. apply Permutation_middle. }
    split; [exact (Permutation_NoDup HP Hnd)|]. split; [|exact Hcn].
    intros c' Hc'. apply Hsl. exact (Permutation_in c' (Permutation_sym HP) Hc').
  - destruct (lookup_w w (runn st)) as [c|] eqn:Hl; [|exact H].
    destruct (remove_running st w c H Hl) as [H1 [H2 [H3 H4]]].
    apply set_result_inv_cnt; [exact H1|exact H2|exact H3|exact H4].
  - destruct (lookup_w w (runn st)) as [c|] eqn:Hl; [|exact H].
    destruct (remove_running st w c H Hl) as [H1 _]. exact H1.
  - exact H.
Qed.

(* which errors can come out of get(): the timeout, a get() that never returns, or the exception of a chunk *)
Lemma pool_get_err_kind : forall {A B} (f : A -> res B) procs cs timeout sched (st : pstate B) e,
  inv_val f cs st -> inv_cnt st ->
  pool_get f procs cs timeout sched st = Err e ->
  (e = E_Runtime /\ timeout <> None) \/ e = E_Fuel \/ exists c, run_chunk f (nth c cs []) = Err e.
Proof.
  intros A B f procs cs timeout sched. induction sched as [|ev s IH]; intros st e Hv Hc H; cbn [pool_get] in H.
  - destruct (nleft st =? 0) eqn:Hn.
    + destruct (failed st) as [e0|] eqn:Hf.
      * inversion H; subst e0. right. right. destruct Hv as [_ [_ Hfail]]. exact (Hfail e Hf).
      * destruct Hc as [_ [_ Hcn]]. destruct (collect_total (value st)) as [out E]; [rewrite <- (Hcn Hf); lia|].
        rewrite E in H. discriminate.
    + destruct (expired timeout (ticks st)) eqn:He.
      * inversion H. left. split; [reflexivity|]. destruct timeout; [discriminate|cbn in He; discriminate].
      * inversion H. right. left. reflexivity.
  - destruct (nleft st =? 0) eqn:Hn.
    + destruct (failed st) as [e0|] eqn:Hf.
      * inversion H; subst e0. right. right. destruct Hv as [_ [_ Hfail]]. exact (Hfail e Hf).
      * destruct Hc as [_ [_ Hcn]]. destruct (collect_total (value st)) as [out E]; [rewrite <- (Hcn Hf); lia|].
        rewrite E in H. discriminate.
    + destruct (expired timeout (ticks st)) eqn:He.
      * inversion H. left. split; [reflexivity|]. destruct timeout; [discriminate|cbn in He; discriminate].
      * exact (IH _ e (step_inv_val f procs cs ev st Hv) (step_inv_cnt f procs cs ev st Hc) H).
Qed.

Lemma chunk_err_is_task_err : forall {A B} (f : A -> res B) (cs : list (list A)) c e,
  run_chunk f (nth c cs []) = Err e -> exists a, In a (concat cs) /\ f a = Err e.
Proof.
  intros A B f cs c e H. unfold run_chunk in H. apply mapM_Err_In in H. destruct H as [a [Ha Hf]].
  exists a. split; [|exact Hf]. apply in_concat. exists (nth c cs []). split; [|exact Ha].
  destruct (nth_in_or_default c cs []) as [Hin|Hd]; [exact Hin|]. rewrite Hd in Ha. destruct Ha.
Qed.

Lemma pool_map_err_kind : forall {A B} (f : A -> res B) procs timeout sched (args : list A) e,
  pool_map f procs timeout sched args = Err e ->
  (e = E_Value /\ procs < 1) \/ (e = E_Runtime /\ timeout <> None) \/ e = E_Fuel \/
  exists a, In a args /\ f a = Err e.
Proof.
  intros A B f procs timeout sched args e H. unfold pool_map in H.
  destruct (procs <? 1) eqn:Hp.
  - inversion H. left. split; [reflexivity|lia].
  - right. apply pool_get_err_kind in H; [|apply init_inv_val|apply init_inv_cnt].
    destruct H as [H|[H|[c H]]]; [left; exact H|right; left; exact H|].
    right. right. apply chunk_err_is_task_err in H. rewrite make_chunks_concat in H; [exact H|lia].
Qed.

Lemma failure_kind : forall {A B} (f : A -> res B) cfg cpus timeout sched (args : list A) e,
  parallel_function f cfg cpus timeout sched args = Err e ->
  (e = E_Value /\ effective_cpus cfg cpus < 1) \/ (e = E_Runtime /\ timeout <> None /\ effective_cpus cfg cpus <> 1)
  \/ (e = E_Fuel /\ effective_cpus cfg cpus <> 1) \/ exists a, In a args /\ f a = Err e.
Proof.
  intros A B f cfg cpus timeout sched args e H. unfold parallel_function in H.
  destruct (effective_cpus cfg cpus =? 1) eqn:H1.
  - right. right. right. exact (mapM_Err_In f args e H).
  - apply pool_map_err_kind in H. destruct H as [H|[[H H']|[H|H]]].
    + left. exact H.
    + right. left. split; [exact H|]. split; [exact H'|lia].
    + right. right. left. split; [exact H|lia].
    + right. right. right. exact H.
Qed.

(* for every schedule whatsoever: if no call raises, the outcome is the sequential list, or the timeout,
   or a get() that never returns - never another list, never another error *)
Lemma no_spurious_outcome : forall {A B} (f : A -> res B) cfg cpus timeout sched (args : list A) rs,
  1 <= effective_cpus cfg cpus -> sequential f args = Ok rs ->
  parallel_function f cfg cpus timeout sched args = Ok rs \/
  (parallel_function f cfg cpus timeout sched args = Err E_Runtime /\ timeout <> None) \/
  parallel_function f cfg cpus timeout sched args = Err E_Fuel.
Proof.
  intros A B f cfg cpus timeout sched args rs Hc Hs.
  destruct (parallel_function f cfg cpus timeout sched args) as [out|e] eqn:Hp.
  - left. apply order_sound in Hp. rewrite Hp in Hs. inversion Hs. reflexivity.
  - apply failure_kind in Hp. destruct Hp as [[_ H]|[[H [H' _]]|[[H _]|[a [Ha Hf]]]]].
    + lia.
    + right. left. subst e. split; [reflexivity|exact H'].
    + right. right. subst e. reflexivity.
    + exfalso. unfold sequential in Hs.
      destruct (In_nth_error args a Ha) as [i Hi].
      destruct (mapM_Ok_nth f args rs Hs i a Hi) as [r [_ Hr]]. rewrite Hr in Hf. discriminate.
Qed.

(* ---------- ready in time or not ---------- *)
(* does get() leave through the "ready" branch (all chunks reported before the timeout and before the
   schedule ends)?  Mirrors pool_get; a specification helper, not part of the model *)
Fixpoint completes {A B} (f : A -> res B) (procs : Z) (cs : list (list A)) (timeout : option Z)
         (sched : list event) (st : pstate B) : bool :=
  if nleft st =? 0 then true
  else if expired timeout (ticks st) then false
  else match sched with
       | [] => false
       | ev :: s => completes f procs cs timeout s (step f procs cs ev st)
       end.

Lemma incomplete_is_error : forall {A B} (f : A -> res B) procs cs timeout sched (st : pstate B),
  completes f procs cs timeout sched st = false ->
  (pool_get f procs cs timeout sched st = Err E_Runtime /\ timeout <> None) \/
  pool_get f procs cs timeout sched st = Err E_Fuel.
Proof.
  intros A B f procs cs timeout sched. induction sched as [|ev s IH]; intros st H;
    cbn [completes] in H; cbn [pool_get].
  - destruct (nleft st =? 0); [discriminate|].
    destruct (expired timeout (ticks st)) eqn:He.
    + left. split; [reflexivity|]. destruct timeout; [discriminate|cbn in He; discriminate].
    + right. reflexivity.
  - destruct (nleft st =? 0); [discriminate|].
    destruct (expired timeout (ticks st)) eqn:He.
    + left. split; [reflexivity|]. destruct timeout; [discriminate|cbn in He; discriminate].
    + exact (IH _ H).
Qed.

Lemma complete_result : forall {A B} (f : A -> res B) procs cs timeout sched (st : pstate B),
  inv_val f cs st -> inv_cnt st ->
  completes f procs cs timeout sched st = true ->
  (exists out, pool_get f procs cs timeout sched st = Ok out) \/
  (exists e c, pool_get f procs cs timeout sched st = Err e /\ run_chunk f (nth c cs []) = Err e).
Proof.
  intros A B f procs cs timeout sched. induction sched as [|ev s IH]; intros st Hv Hc H;
    cbn [completes] in H; cbn [pool_get].
  - destruct (nleft st =? 0) eqn:Hn.
    + destruct (failed st) as [e0|] eqn:Hf.
      * right. destruct Hv as [_ [_ Hfail]]. destruct (Hfail e0 Hf) as [c Hc']. exists e0, c. split; [reflexivity|exact Hc'].
      * left. destruct Hc as [_ [_ Hcn]]. apply collect_total. rewrite <- (Hcn Hf). lia.
    + destruct (expired timeout (ticks st)); discriminate.
  - destruct (nleft st =? 0) eqn:Hn.
    + destruct (failed st) as [e0|] eqn:Hf.
      * right. destruct Hv as [_ [_ Hfail]]. destruct (Hfail e0 Hf) as [c Hc']. exists e0, c. split; [reflexivity|exact Hc'].
      * left. destruct Hc as [_ [_ Hcn]]. apply collect_total. rewrite <- (Hcn Hf). lia.
    + destruct (expired timeout (ticks st)); [discriminate|].
      exact (IH _ (step_inv_val f procs cs ev st Hv) (step_inv_cnt f procs cs ev st Hc) H).
Qed.

(* a schedule that completes, for every worker count and every batch: worker 0 takes and finishes one
   chunk after the other *)
Fixpoint rounds (j : nat) : list event :=
  match j with O => [] | S j' => Start 0 :: Finish 0 :: rounds j' end.

Lemma set_result_queues : forall {B} c (r : res (list B)) (st : pstate B),
  pend (set_result c r st) = pend st /\ runn (set_result c r st) = runn st /\
  nleft (set_result c r st) = nleft st - 1 /\ ticks (set_result c r st) = ticks st.
Proof.
  intros B c r st. unfold set_result. destruct r; destruct (failed st); cbn; repeat split; reflexivity.
Qed.

Lemma start_finish_0 : forall {A B} (f : A -> res B) procs cs c p (st : pstate B),
  1 <= procs -> runn st = [] -> pend st = c :: p ->
  let st1 := step f procs cs (Start 0) st in
  let st2 := step f procs cs (Finish 0) st1 in
  nleft st1 = nleft st /\ runn st2 = [] /\ pend st2 = p /\ nleft st2 = nleft st - 1.
Proof.
  intros A B f procs cs c p st Hp Hr Hq. cbn zeta.
  assert (Hb : (0 <=? 0) && (0 <? procs) = true) by lia.
  assert (E1 : step f procs cs (Start 0) st = with_queues p [(0, c)] st).
  { cbn [step]. rewrite Hb, Hr, Hq. reflexivity. }
  rewrite E1. split; [reflexivity|].
  assert (E2 : step f procs cs (Finish 0) (with_queues p [(0, c)] st)
               = set_result c (run_chunk f (nth (Z.to_nat c) cs []))
                            (with_queues p [] (with_queues p [(0, c)] st))).
  { reflexivity. }
  rewrite E2.
  match goal with |- context [set_result ?c ?r ?s] =>
    destruct (set_result_queues c r s) as [F1 [F2 [F3 _]]] end.
  rewrite F1, F2, F3. repeat split; reflexivity.
Qed.

Lemma completes_cons : forall {A B} (f : A -> res B) procs cs timeout ev s (st : pstate B),
  completes f procs cs timeout (ev :: s) st =
  if nleft st =? 0 then true else if expired timeout (ticks st) then false
  else completes f procs cs timeout s (step f procs cs ev st).
Proof. reflexivity. Qed.

Lemma rounds_complete : forall {A B} (f : A -> res B) procs cs j i (st : pstate B),
  1 <= procs -> runn st = [] -> pend st = zrange i j -> nleft st = Z.of_nat j ->
  completes f procs cs None (rounds j) st = true.
Proof.
  intros A B f procs cs j. induction j as [|j IH]; intros i st Hp Hr Hq Hn.
  - cbn [rounds completes]. rewrite Hn. reflexivity.
  - cbn [rounds]. cbn [zrange] in Hq.
    destruct (start_finish_0 f procs cs i (zrange (i + 1) j) st Hp Hr Hq) as [G1 [G2 [G3 G4]]].
    rewrite completes_cons. destruct (nleft st =? 0) eqn:H0; [reflexivity|]. cbn [expired].
    rewrite completes_cons. rewrite G1, H0. cbn [expired].
    apply (IH (i + 1)); [exact Hp|exact G2|exact G3|rewrite G4; lia].
Qed.

Definition sequential_schedule {A} (procs : Z) (args : list A) : list event :=
  rounds (length (make_chunks procs args)).

Lemma pool_map_completing_schedule : forall {A B} (f : A -> res B) procs (args : list A) rs,
  1 <= procs -> sequential f args = Ok rs ->
  pool_map f procs None (sequential_schedule procs args) args = Ok rs.
Proof.
  intros A B f procs args rs Hp Hs. unfold pool_map, sequential_schedule.
  destruct (procs <? 1) eqn:Hlt; [lia|]. cbn zeta.
  set (cs := make_chunks procs args).
  assert (Hc : completes f procs cs None (rounds (length cs)) (init_state B cs) = true).
  { apply (rounds_complete f procs cs (length cs) 0); [exact Hp|reflexivity|reflexivity|reflexivity]. }
  destruct (complete_result f procs cs None _ _ (init_inv_val f cs) (init_inv_cnt B cs) Hc) as [[out Ho]|[e [c [He Hce]]]].
  - rewrite Ho. pose proof (pool_get_sound f procs cs None _ _ out (init_inv_val f cs) Ho) as Hm.
    unfold cs in Hm. rewrite make_chunks_concat in Hm; [|exact Hp]. unfold sequential in Hs. rewrite Hm in Hs. exact Hs.
  - exfalso. apply chunk_err_is_task_err in Hce. destruct Hce as [a [Ha Hf]].
    unfold cs in Ha. rewrite make_chunks_concat in Ha; [|exact Hp].
    destruct (In_nth_error args a Ha) as [i Hi].
    destruct (mapM_Ok_nth f args rs Hs i a Hi) as [r [_ Hr]]. rewrite Hr in Hf. discriminate.
Qed.

Lemma completing_schedule_exists : forall {A B} (f : A -> res B) cfg cpus (args : list A) rs,
  1 <= effective_cpus cfg cpus -> sequential f args = Ok rs ->
  exists sched, parallel_function f cfg cpus None sched args = Ok rs.
Proof.
  intros A B f cfg cpus args rs Hc Hs. exists (sequential_schedule (effective_cpus cfg cpus) args).
  unfold parallel_function. destruct (effective_cpus cfg cpus =? 1); [exact Hs|].
  apply pool_map_completing_schedule; [exact Hc|exact Hs].
Qed.

(* not ready in time: an error, never a partial list *)
Lemma not_ready_is_error : forall {A B} (f : A -> res B) procs timeout sched (args : list A),
  1 <= procs ->
  completes f procs (make_chunks procs args) timeout sched (init_state B (make_chunks procs args)) = false ->
  (pool_map f procs timeout sched args = Err E_Runtime /\ timeout <> None) \/
  pool_map f procs timeout sched args = Err E_Fuel.
Proof.
  intros A B f procs timeout sched args Hp H. unfold pool_map.
  destruct (procs <? 1) eqn:Hlt; [lia|]. exact (incomplete_is_error f procs _ timeout sched _ H).
Qed.

(* ready in time: the sequential list if no call raises, otherwise the exception of one of the calls *)
Lemma ready_is_sequential : forall {A B} (f : A -> res B) procs timeout sched (args : list A),
  1 <= procs ->
  completes f procs (make_chunks procs args) timeout sched (init_state B (make_chunks procs args)) = true ->
  match sequential f args with
  | Ok rs => pool_map f procs timeout sched args = Ok rs
  | Err _ => exists e a, pool_map f procs timeout sched args = Err e /\ In a args /\ f a = Err e
  end.
Proof.
  intros A B f procs timeout sched args Hp H.
  pose proof (pool_map_sound f procs timeout sched args) as Hsound.
  unfold pool_map in *. destruct (procs <? 1) eqn:Hlt; [lia|]. cbn zeta in *.
  set (cs := make_chunks procs args) in *.
  destruct (complete_result f procs cs timeout sched _ (init_inv_val f cs) (init_inv_cnt B cs) H)
    as [[out Ho]|[e [c [He Hce]]]].
  - rewrite Ho. unfold sequential. rewrite (Hsound out Ho). reflexivity.
  - apply chunk_err_is_task_err in Hce. destruct Hce as [a [Ha Hf]].
    unfold cs in Ha. rewrite make_chunks_concat in Ha; [|exact Hp].
    destruct (sequential f args) as [rs|e0] eqn:Hs.
    + exfalso. destruct (In_nth_error args a Ha) as [i Hi].
      destruct (mapM_Ok_nth f args rs Hs i a Hi) as [r [_ Hr]]. rewrite Hr in Hf. discriminate.
    + exists e, a. split; [exact He|]. split; [exact Ha|exact Hf].
Qed.

(* ---------- the run-time specification holds of the model whenever get() returns ---------- *)
Lemma list_eqb_refl : forall l, list_eqb Z.eqb l l = true.
Proof. induction l as [|x l IH]; [reflexivity|]. cbn [list_eqb]. rewrite Z.eqb_refl, IH. reflexivity. Qed.

Lemma list_eqb_eq : forall a b, list_eqb Z.eqb a b = true -> a = b.
Proof.
  induction a as [|x a IH]; intros [|y b] H; cbn [list_eqb] in H; try discriminate; [reflexivity|].
  apply andb_prop in H. destruct H as [H1 H2]. rewrite (IH b H2). assert (x = y) by lia. subst. reflexivity.
Qed.

Lemma model_meets_spec : forall cfg cpus timeout sched (tasks : list (res Z)),
  parallel_function (fun t => t) cfg cpus timeout sched tasks <> Err E_Fuel ->
  spec_ok cfg cpus timeout tasks (parallel_function (fun t => t) cfg cpus timeout sched tasks) = true.
Proof.
  intros cfg cpus timeout sched tasks Hnf. unfold spec_ok.
  destruct (parallel_function (fun t => t) cfg cpus timeout sched tasks) as [out|e] eqn:Hp.
  - rewrite (order_sound _ _ _ _ _ _ _ Hp). apply list_eqb_refl.
  - destruct (sequential (fun t : res Z => t) tasks) as [rs|e0] eqn:Hs; [|reflexivity].
    apply failure_kind in Hp. destruct Hp as [[_ H]|[[H [H' _]]|[[H _]|[a [Ha Hf]]]]].
    + apply orb_true_iff. right. lia.
    + apply orb_true_iff. left. destruct timeout; [lia|contradiction].
    + subst e. contradiction.
    + exfalso. destruct (In_nth_error tasks a Ha) as [i Hi].
      destruct (mapM_Ok_nth _ tasks rs Hs i a Hi) as [r [_ Hr]]. rewrite Hr in Hf. discriminate.
Qed.

(* and the specification means what it should: an accepted list is the sequential list *)
Lemma spec_ok_sound : forall cfg cpus timeout (tasks : list (res Z)) vs,
  spec_ok cfg cpus timeout tasks (Ok vs) = true -> sequential (fun t => t) tasks = Ok vs.
Proof.
  intros cfg cpus timeout tasks vs H. unfold spec_ok in H.
  destruct (sequential (fun t : res Z => t) tasks) as [ws|e]; [|discriminate].
  rewrite (list_eqb_eq vs ws H). reflexivity.
Qed.
