(* C18 - lemmas and proofs. *)
From ASV Require Import Base.
From ASV.C18 Require Import Model.
From Coq Require Import Lia ZifyBool Permutation.

(* ---------- mapM ---------- *)
Lemma mapM_app : forall {A B} (f : A -> res B) (a b : list A),
  mapM f (a ++ b) = (do x <- mapM f a; do y <- mapM f b; Ok (x ++ y)).
Proof.
  intros A B f a. induction a as [|x a IH]; intros b.
  - cbn. destruct (mapM f b); reflexivity.
  - cbn [app mapM bind]. destruct (f x) as [y|k]; cbn [bind]; [|reflexivity].
    rewrite IH. destruct (mapM f a) as [ys|k]; cbn [bind]; [|reflexivity].
    destruct (mapM f b) as [zs|k]; cbn [bind]; reflexivity.
Qed.

Lemma mapM_Err_In : forall {A B} (f : A -> res B) (l : list A) e,
  mapM f l = Err e -> exists a, In a l /\ f a = Err e.
Proof.
  intros A B f l. induction l as [|x l IH]; intros e H.
  - cbn in H. discriminate.
  - cbn [mapM bind] in H. destruct (f x) as [y|k] eqn:Hx; cbn [bind] in H.
    + destruct (mapM f l) as [ys|k] eqn:Hl; cbn [bind] in H; [discriminate|].
      inversion H; subst k. destruct (IH e eq_refl) as [a [Ha Hf]].
      exists a. split; [right; exact Ha|exact Hf].
    + inversion H; subst k. exists x. split; [left; reflexivity|exact Hx].
Qed.

Lemma mapM_Ok_length : forall {A B} (f : A -> res B) (l : list A) rs,
  mapM f l = Ok rs -> length rs = length l.
Proof.
  intros A B f l. induction l as [|x l IH]; intros rs H.
  - cbn in H. inversion H. reflexivity.
  - cbn [mapM bind] in H. destruct (f x) as [y|k]; cbn [bind] in H; [|discriminate].
    destruct (mapM f l) as [ys|k]; cbn [bind] in H; [|discriminate].
    inversion H. cbn. rewrite (IH ys eq_refl). reflexivity.
Qed.

Lemma mapM_Ok_nth : forall {A B} (f : A -> res B) (l : list A) rs,
  mapM f l = Ok rs -> forall i a, nth_error l i = Some a -> exists r, nth_error rs i = Some r /\ f a = Ok r.
Proof.
  intros A B f l. induction l as [|x l IH]; intros rs H i a Hi.
  - destruct i; discriminate.
  - cbn [mapM bind] in H. destruct (f x) as [y|k] eqn:Hx; cbn [bind] in H; [|discriminate].
    destruct (mapM f l) as [ys|k] eqn:Hl; cbn [bind] in H; [|discriminate].
    inversion H; subst rs. destruct i as [|i].
    + cbn in Hi. inversion Hi; subst a. exists y. split; [reflexivity|exact Hx].
    + cbn in Hi. cbn. exact (IH ys eq_refl i a Hi).
Qed.

(* chunk results, slot by slot, give the result of the whole batch in order *)
Lemma mapM_concat_slots : forall {A B} (f : A -> res B) (cs : list (list A)) (rss : list (list B)),
  length cs = length rss ->
  (forall c rs, nth_error rss c = Some rs -> mapM f (nth c cs []) = Ok rs) ->
  mapM f (concat cs) = Ok (concat rss).
Proof.
  intros A B f cs. induction cs as [|ch cs IH]; intros rss Hlen Hs.
  - destruct rss; [reflexivity|discriminate].
  - destruct rss as [|rs rss]; [discriminate|].
    cbn [concat]. rewrite mapM_app.
    pose proof (Hs 0%nat rs eq_refl) as H0. cbn [nth] in H0. rewrite H0. cbn [bind].
    rewrite (IH rss).
    + reflexivity.
    + cbn in Hlen. lia.
    + intros c rs' Hc. exact (Hs (S c) rs' Hc).
Qed.

(* ---------- chunking ---------- *)
Lemma get_tasks_concat : forall {A} (size : nat) (fuel : nat) (l : list A),
  (1 <= size)%nat -> (length l <= fuel)%nat -> concat (get_tasks fuel size l) = l.
Proof.
  intros A size fuel. induction fuel as [|fu IH]; intros l Hs Hl.
  - destruct l; [reflexivity|cbn in Hl; lia].
  - destruct l as [|x l]; [reflexivity|].
    cbn [get_tasks concat]. rewrite IH.
    + apply firstn_skipn.
    + exact Hs.
    + rewrite skipn_length. cbn [length] in *. lia.
Qed.

Lemma chunksize_pos : forall n procs, 0 < n -> 1 <= procs -> 1 <= chunksize n procs.
Proof.
  intros n procs Hn Hp. unfold chunksize.
  destruct (n =? 0) eqn:H0; [lia|].
  assert (Hd : 0 < procs * 4) by lia.
  pose proof (Z.div_mod n (procs * 4) ltac:(lia)) as Hdm.
  pose proof (Z.mod_pos_bound n (procs * 4) Hd) as Hmb.
  pose proof (Z.div_pos n (procs * 4) ltac:(lia) Hd) as Hq.
  destruct (n mod (procs * 4) =? 0) eqn:Hm.
  - assert (n mod (procs * 4) = 0) by lia.
    destruct (Z.eq_dec (n / (procs * 4)) 0) as [Hz|Hz]; [|lia].
    rewrite Hz in Hdm. lia.
  - lia.
Qed.

Lemma make_chunks_concat : forall {A} procs (args : list A),
  1 <= procs -> concat (make_chunks procs args) = args.
Proof.
  intros A procs args Hp. unfold make_chunks.
  destruct args as [|a args]; [reflexivity|].
  apply get_tasks_concat; [|lia].
  assert (1 <= chunksize (zlen (a :: args)) procs).
  { apply chunksize_pos; [unfold zlen; cbn [length]; lia|exact Hp]. }
  lia.
Qed.

(* ---------- set_nth ---------- *)
Lemma set_nth_length : forall {X} n (x : X) l, length (set_nth n x l) = length l.
Proof.
  intros X n x l. revert n. induction l as [|y l IH]; intros n; [reflexivity|].
  destruct n; cbn; [reflexivity|]. rewrite IH. reflexivity.
Qed.

Lemma nth_error_set_nth_inv : forall {X} n (x : X) l m y,
  nth_error (set_nth n x l) m = Some y -> (m = n /\ y = x) \/ nth_error l m = Some y.
Proof.
  intros X n x l. revert n. induction l as [|z l IH]; intros n m y H.
  - cbn in H. right. exact H.
  - destruct n as [|n]; destruct m as [|m]; cbn in H |- *.
    + left. inversion H. split; reflexivity.
    + right. exact H.
    + right. exact H.
    + destruct (IH n m y H) as [[E1 E2]|E]; [left; split; [lia|exact E2]|right; exact E].
Qed.

Lemma nth_error_set_nth_other : forall {X} n (x : X) l m,
  m <> n -> nth_error (set_nth n x l) m = nth_error l m.
Proof.
  intros X n x l. revert n. induction l as [|z l IH]; intros n m H; [reflexivity|].
  destruct n as [|n]; destruct m as [|m]; cbn; try reflexivity; [lia|].
  apply IH. lia.
Qed.

(* ---------- soundness of the stored values (no counting needed) ---------- *)
Definition inv_val {A B} (f : A -> res B) (cs : list (list A)) (st : pstate B) : Prop :=
  length (value st) = length cs /\
  (forall c rs, nth_error (value st) c = Some (Some rs) -> run_chunk f (nth c cs []) = Ok rs) /\
  (forall e, failed st = Some e -> exists c, run_chunk f (nth c cs []) = Err e).

Lemma set_result_inv_val : forall {A B} (f : A -> res B) cs c (st : pstate B),
  inv_val f cs st ->
  inv_val f cs (set_result c (run_chunk f (nth (Z.to_nat c) cs [])) st).
Proof.
  intros A B f cs c st [Hlen [Hv Hf]]. unfold set_result.
  destruct (run_chunk f (nth (Z.to_nat c) cs [])) as [rs|e] eqn:Hr; destruct (failed st) as [e0|] eqn:Hfl;
    unfold inv_val; cbn [value failed].
  - split; [exact Hlen|]. split; [exact Hv|]. intros e He. inversion He; subst e. apply Hf. reflexivity.
  - split; [rewrite set_nth_length; exact Hlen|]. split.
    + intros c' rs' Hc'. apply nth_error_set_nth_inv in Hc'. destruct Hc' as [[E1 E2]|E].
      * inversion E2; subst rs' c'. exact Hr.
      * apply Hv. exact E.
    + intros e He. discriminate.
  - split; [exact Hlen|]. split; [exact Hv|]. intros e' He. inversion He; subst e'. apply Hf. reflexivity.
  - split; [exact Hlen|]. split; [exact Hv|]. intros e' He. inversion He; subst e'.
    exists (Z.to_nat c). exact Hr.
Qed.

Lemma with_queues_inv_val : forall {A B} (f : A -> res B) cs p r (st : pstate B),
  inv_val f cs st -> inv_val f cs (with_queues p r st).
Proof. intros A B f cs p r st H. exact H. Qed.

Lemma step_inv_val : forall {A B} (f : A -> res B) procs cs ev (st : pstate B),
  inv_val f cs st -> inv_val f cs (step f procs cs ev st).
Proof.
  intros A B f procs cs ev st H. destruct ev as [w|w|w|]; cbn [step].
  - destruct ((0 <=? w) && (w <? procs)); [|exact H].
    destruct (lookup_w w (runn st)); [exact H|]. destruct (pend st); [exact H|].
    apply with_queues_inv_val. exact H.
  - destruct (lookup_w w (runn st)) as [c|]; [|exact H].
    apply set_result_inv_val. apply with_queues_inv_val. exact H.
  - destruct (lookup_w w (runn st)); [|exact H]. apply with_queues_inv_val. exact H.
  - exact H.
Qed.

Lemma collect_ok : forall {B} (v : list (option (list B))) out,
  collect v = Ok out -> exists rss, v = map Some rss /\ out = concat rss.
Proof.
  intros B v. induction v as [|o v IH]; intros out H.
  - cbn in H. inversion H. exists []. split; reflexivity.
  - destruct o as [rs|]; cbn [collect] in H; [|discriminate].
    destruct (collect v) as [rest|k] eqn:Hc; cbn [bind] in H; [|discriminate].
    inversion H; subst out. destruct (IH rest eq_refl) as [rss [E1 E2]].
    exists (rs :: rss). split; [cbn; rewrite E1; reflexivity|cbn; rewrite E2; reflexivity].
Qed.

Lemma pool_get_sound : forall {A B} (f : A -> res B) procs cs timeout sched (st : pstate B) out,
  inv_val f cs st ->
  pool_get f procs cs timeout sched st = Ok out -> mapM f (concat cs) = Ok out.
Proof.
  intros A B f procs cs timeout sched. induction sched as [|ev s IH]; intros st out Hinv H;
    cbn [pool_get] in H.
  - destruct (nleft st =? 0).
    + destruct (failed st); [discriminate|].
      destruct Hinv as [Hlen [Hv _]]. apply collect_ok in H. destruct H as [rss [E1 E2]]. subst out.
      apply mapM_concat_slots.
      * rewrite <- Hlen, E1, map_length. reflexivity.
      * intros c rs Hc. apply Hv. rewrite E1. rewrite nth_error_map, Hc. reflexivity.
    + destruct (expired timeout (ticks st)); discriminate.
  - destruct (nleft st =? 0).
    + destruct (failed st); [discriminate|].
      destruct Hinv as [Hlen [Hv _]]. apply collect_ok in H. destruct H as [rss [E1 E2]]. subst out.
      apply mapM_concat_slots.
      * rewrite <- Hlen, E1, map_length. reflexivity.
      * intros c rs Hc. apply Hv. rewrite E1. rewrite nth_error_map, Hc. reflexivity.
    + destruct (expired timeout (ticks st)); [discriminate|].
      apply (IH _ out (step_inv_val f procs cs ev st Hinv) H).
Qed.

Lemma init_inv_val : forall {A B} (f : A -> res B) (cs : list (list A)), inv_val f cs (init_state B cs).
Proof.
  intros A B f cs. unfold inv_val, init_state. cbn [value failed]. split; [apply map_length|]. split.
  - intros c rs H. rewrite nth_error_map in H. destruct (nth_error cs c); cbn in H; discriminate.
  - intros e H. discriminate.
Qed.

Lemma pool_map_sound : forall {A B} (f : A -> res B) procs timeout sched (args : list A) out,
  pool_map f procs timeout sched args = Ok out -> mapM f args = Ok out.
Proof.
  intros A B f procs timeout sched args out H. unfold pool_map in H.
  destruct (procs <? 1) eqn:Hp; [discriminate|].
  apply pool_get_sound in H; [|apply init_inv_val].
  rewrite make_chunks_concat in H; [exact H|lia].
Qed.

(* ---------- the theorems' lemmas: order ---------- *)
(* one worker and no timeout: the in-process shortcut *)
Lemma cpus1_is_map : forall {A B} (f : A -> res B) cfg cpus sched (args : list A),
  effective_cpus cfg cpus = 1 ->
  parallel_function f cfg cpus None sched args = sequential f args.
Proof.
  intros A B f cfg cpus sched args H. unfold parallel_function. rewrite H. reflexivity.
Qed.

(* with a timeout the pool is used for EVERY worker count, one included (`cpus == 1 and timeout is None`):
   parallel_function is then the same dispatcher as parallel_execute *)
Lemma function_timeout_is_pool : forall {A B} (f : A -> res B) cfg cpus t sched (args : list A),
  parallel_function f cfg cpus (Some t) sched args = pool_map f (effective_cpus cfg cpus) (Some t) sched args.
Proof.
  intros A B f cfg cpus t sched args. unfold parallel_function. cbn [no_timeout]. rewrite andb_false_r. reflexivity.
Qed.

Lemma order_sound : forall {A B} (f : A -> res B) cfg cpus timeout sched (args : list A) out,
  parallel_function f cfg cpus timeout sched args = Ok out -> sequential f args = Ok out.
Proof.
  intros A B f cfg cpus timeout sched args out H. unfold parallel_function in H. unfold sequential.
  destruct ((effective_cpus cfg cpus =? 1) && no_timeout timeout); [exact H|].
  exact (pool_map_sound f _ timeout sched args out H).
Qed.

Lemma execute_order_sound : forall {A B} (f : A -> res B) cfg cpus timeout sched (cmds : list A) out,
  parallel_execute f cfg cpus timeout sched cmds = Ok out -> sequential f cmds = Ok out.
Proof.
  intros A B f cfg cpus timeout sched cmds out H.
  exact (pool_map_sound f _ timeout sched cmds out H).
Qed.

(* the returned list has one result per call, the i-th result is the i-th call's *)
Lemma order_pointwise : forall {A B} (f : A -> res B) cfg cpus timeout sched (args : list A) out,
  parallel_function f cfg cpus timeout sched args = Ok out ->
  length out = length args /\
  forall i a, nth_error args i = Some a -> exists r, nth_error out i = Some r /\ f a = Ok r.
Proof.
  intros A B f cfg cpus timeout sched args out H. apply order_sound in H. unfold sequential in H.
  split; [exact (mapM_Ok_length f args out H)|exact (mapM_Ok_nth f args out H)].
Qed.

Lemma failure_surfaces : forall {A B} (f : A -> res B) cfg cpus timeout sched (args : list A) e0,
  sequential f args = Err e0 ->
  exists e, parallel_function f cfg cpus timeout sched args = Err e.
Proof.
  intros A B f cfg cpus timeout sched args e0 Hs.
  destruct (parallel_function f cfg cpus timeout sched args) as [out|e] eqn:Hp.
  - apply order_sound in Hp. rewrite Hp in Hs. discriminate.
  - exists e. reflexivity.
Qed.

Lemma execute_failure_surfaces : forall {A B} (f : A -> res B) cfg cpus timeout sched (cmds : list A) e0,
  sequential f cmds = Err e0 ->
  exists e, parallel_execute f cfg cpus timeout sched cmds = Err e.
Proof.
  intros A B f cfg cpus timeout sched args e0 Hs.
  destruct (parallel_execute f cfg cpus timeout sched args) as [out|e] eqn:Hp.
  - apply execute_order_sound in Hp. rewrite Hp in Hs. discriminate.
  - exists e. reflexivity.
Qed.

(* ---------- counting: when the result is ready and nothing failed, every slot is filled ---------- *)
Fixpoint count_none {X} (v : list (option X)) : Z :=
  match v with
  | [] => 0
  | None :: v' => 1 + count_none v'
  | Some _ :: v' => count_none v'
  end.

Lemma count_none_nonneg : forall {X} (v : list (option X)), 0 <= count_none v.
Proof. intros X v. induction v as [|[x|] v IH]; cbn [count_none]; lia. Qed.

Lemma count_none_set_nth : forall {X} (v : list (option X)) n x,
  nth_error v n = Some None -> count_none (set_nth n (Some x) v) = count_none v - 1.
Proof.
  intros X v. induction v as [|o v IH]; intros n x H.
  - destruct n; discriminate.
  - destruct n as [|n]; cbn in H.
    + inversion H; subst o. cbn [set_nth count_none]. lia.
    + cbn [set_nth]. destruct o; cbn [count_none]; rewrite (IH n x H); lia.
Qed.

Lemma collect_total : forall {B} (v : list (option (list B))),
  count_none v = 0 -> exists out, collect v = Ok out.
Proof.
  intros B v. induction v as [|o v IH]; intros H.
  - exists []. reflexivity.
  - destruct o as [rs|]; cbn [count_none] in H.
    + destruct (IH H) as [out E]. exists (rs ++ out). cbn [collect]. rewrite E. reflexivity.
    + pose proof (count_none_nonneg v). lia.
Qed.

Lemma count_none_map_none : forall {A X} (cs : list A),
  count_none (map (fun _ => @None X) cs) = zlen cs.
Proof.
  intros A X cs. unfold zlen. induction cs as [|c cs IH]; [reflexivity|].
  cbn [map count_none length]. rewrite IH. lia.
Qed.

Lemma remove_w_split : forall w r c,
  lookup_w w r = Some c -> exists r1 r2, r = r1 ++ (w, c) :: r2 /\ remove_w w r = r1 ++ r2.
Proof.
  intros w r. induction r as [|[w' c'] r IH]; intros c H.
  - discriminate.
  - cbn [lookup_w remove_w] in *. destruct (w' =? w) eqn:Hw.
    + inversion H; subst c'. assert (w' = w) by lia. subst w'. exists [], r. split; reflexivity.
    + destruct (IH c H) as [r1 [r2 [E1 E2]]]. exists ((w', c') :: r1), r2.
      split; [rewrite E1; reflexivity|rewrite E2; reflexivity].
Qed.

Lemma zrange_In : forall n from c, In c (zrange from n) <-> from <= c < from + Z.of_nat n.
Proof.
  intros n. induction n as [|n IH]; intros from c.
  - cbn. lia.
  - cbn [zrange In]. rewrite IH. lia.
Qed.

Lemma zrange_NoDup : forall n from, NoDup (zrange from n).
Proof.
  intros n. induction n as [|n IH]; intros from; [constructor|].
  cbn [zrange]. constructor; [|apply IH]. rewrite zrange_In. lia.
Qed.

Definition active {B} (st : pstate B) : list Z := pend st ++ map snd (runn st).

Definition inv_cnt {B} (st : pstate B) : Prop :=
  NoDup (active st) /\
  (forall c, In c (active st) -> 0 <= c /\ nth_error (value st) (Z.to_nat c) = Some None) /\
  (failed st = None -> nleft st = count_none (value st)).

Lemma init_inv_cnt : forall {A} (B : Type) (cs : list (list A)), inv_cnt (init_state B cs).
Proof.
  intros A B cs. unfold inv_cnt, active, init_state. cbn [pend runn value failed nleft map].
  rewrite app_nil_r. split; [apply zrange_NoDup|]. split.
  - intros c Hc. apply zrange_In in Hc. split; [lia|].
    rewrite nth_error_map. destruct (nth_error cs (Z.to_nat c)) eqn:E; [reflexivity|].
    apply nth_error_None in E. lia.
  - intros _. rewrite count_none_map_none. reflexivity.
Qed.

(* removing the chunk of worker w from the running set *)
Lemma remove_running : forall {B} (st : pstate B) w c,
  inv_cnt st -> lookup_w w (runn st) = Some c ->
  let st' := with_queues (pend st) (remove_w w (runn st)) st in
  inv_cnt st' /\ ~ In c (active st') /\ 0 <= c /\ nth_error (value st) (Z.to_nat c) = Some None.
Proof.
  intros B st w c [Hnd [Hsl Hcn]] Hl. cbn zeta.
  destruct (remove_w_split w (runn st) c Hl) as [r1 [r2 [E1 E2]]].
  unfold inv_cnt, active, with_queues. cbn [pend runn value failed nleft].
  unfold active in Hnd, Hsl. rewrite E1 in Hnd, Hsl. rewrite E2.
  rewrite map_app in *. cbn [map snd] in Hnd, Hsl.
  rewrite app_assoc in Hnd, Hsl. rewrite app_assoc.
  split; [split; [|split]|split].
  - exact (NoDup_remove_1 _ _ _ Hnd).
  - intros c' Hc'. apply Hsl. apply in_app_iff in Hc'. apply in_app_iff.
    destruct Hc' as [Hc'|Hc']; [left; exact Hc'|right; right; exact Hc'].
  - exact Hcn.
  - exact (NoDup_remove_2 _ _ _ Hnd).
  - apply Hsl. apply in_app_iff. right. left. reflexivity.
Qed.

Lemma set_result_inv_cnt : forall {B} c (r : res (list B)) (st : pstate B),
  inv_cnt st -> ~ In c (active st) -> 0 <= c -> nth_error (value st) (Z.to_nat c) = Some None ->
  inv_cnt (set_result c r st).
Proof.
  intros B c r st [Hnd [Hsl Hcn]] Hnot Hc0 Hslot. unfold set_result.
  destruct r as [rs|e]; destruct (failed st) as [e0|] eqn:Hf; unfold inv_cnt, active; cbn [pend runn value failed nleft].
  - split; [exact Hnd|]. split; [exact Hsl|]. intros H; discriminate.
  - split; [exact Hnd|]. split.
    + intros c' Hc'. destruct (Hsl c' Hc') as [H0 H1]. split; [exact H0|].
      rewrite nth_error_set_nth_other; [exact H1|].
      intros E. assert (c' = c) by lia. subst c'. exact (Hnot Hc').
    + intros _. rewrite count_none_set_nth; [|exact Hslot]. rewrite (Hcn eq_refl). reflexivity.
  - split; [exact Hnd|]. split; [exact Hsl|]. intros H; discriminate.
  - split; [exact Hnd|]. split; [exact Hsl|]. intros H; discriminate.
Qed.

Lemma step_inv_cnt : forall {A B} (f : A -> res B) procs cs ev (st : pstate B),
  inv_cnt st -> inv_cnt (step f procs cs ev st).
Proof.
  intros A B f procs cs ev st H. destruct ev as [w|w|w|]; cbn [step].
  - destruct ((0 <=? w) && (w <? procs)); [|exact H].
    destruct (lookup_w w (runn st)) eqn:Hl; [exact H|]. destruct (pend st) as [|c p'] eqn:Hp; [exact H|].
    destruct H as [Hnd [Hsl Hcn]]. unfold inv_cnt, active, with_queues in *. cbn [pend runn value failed nleft map snd].
    rewrite Hp in Hnd, Hsl.
    assert (HP : Permutation ((c :: p') ++ map snd (runn st)) (p' ++ c :: map snd (runn st))).
    { cbn [app]. apply Permutation_middle. }
    split; [exact (Permutation_NoDup HP Hnd)|]. split; [|exact Hcn].
    intros c' Hc'. apply Hsl. exact (Permutation_in c' (Permutation_sym HP) Hc').
  - destruct (lookup_w w (runn st)) as [c|] eqn:Hl; [|exact H].
    destruct (remove_running st w c H Hl) as [H1 [H2 [H3 H4]]].
    apply set_result_inv_cnt; [exact H1|exact H2|exact H3|exact H4].
  - destruct (lookup_w w (runn st)) as [c|] eqn:Hl; [|exact H].
    destruct (remove_running st w c H Hl) as [H1 _]. exact H1.
  - exact H.
Qed.

(* which errors can come out of get(): the timeout, a get() that never returns, or the exception of a chunk *)
Lemma pool_get_err_kind : forall {A B} (f : A -> res B) procs cs timeout sched (st : pstate B) e,
  inv_val f cs st -> inv_cnt st ->
  pool_get f procs cs timeout sched st = Err e ->
  (e = E_Runtime /\ timeout <> None) \/ e = E_Fuel \/ exists c, run_chunk f (nth c cs []) = Err e.
Proof.
  intros A B f procs cs timeout sched. induction sched as [|ev s IH]; intros st e Hv Hc H; cbn [pool_get] in H.
  - destruct (nleft st =? 0) eqn:Hn.
    + destruct (failed st) as [e0|] eqn:Hf.
      * inversion H; subst e0. right. right. destruct Hv as [_ [_ Hfail]]. exact (Hfail e Hf).
      * destruct Hc as [_ [_ Hcn]]. destruct (collect_total (value st)) as [out E]; [rewrite <- (Hcn Hf); lia|].
        rewrite E in H. discriminate.
    + destruct (expired timeout (ticks st)) eqn:He.
      * inversion H. left. split; [reflexivity|]. destruct timeout; [discriminate|cbn in He; discriminate].
      * inversion H. right. left. reflexivity.
  - destruct (nleft st =? 0) eqn:Hn.
    + destruct (failed st) as [e0|] eqn:Hf.
      * inversion H; subst e0. right. right. destruct Hv as [_ [_ Hfail]]. exact (Hfail e Hf).
      * destruct Hc as [_ [_ Hcn]]. destruct (collect_total (value st)) as [out E]; [rewrite <- (Hcn Hf); lia|].
        rewrite E in H. discriminate.
    + destruct (expired timeout (ticks st)) eqn:He.
      * inversion H. left. split; [reflexivity|]. destruct timeout; [discriminate|cbn in He; discriminate].
      * exact (IH _ e (step_inv_val f procs cs ev st Hv) (step_inv_cnt f procs cs ev st Hc) H).
Qed.

Lemma chunk_err_is_task_err : forall {A B} (f : A -> res B) (cs : list (list A)) c e,
  run_chunk f (nth c cs []) = Err e -> exists a, In a (concat cs) /\ f a = Err e.
Proof.
  intros A B f cs c e H. unfold run_chunk in H. apply mapM_Err_In in H. destruct H as [a [Ha Hf]].
  exists a. split; [|exact Hf]. apply in_concat. exists (nth c cs []). split; [|exact Ha].
  destruct (nth_in_or_default c cs []) as [Hin|Hd]; [exact Hin|]. rewrite Hd in Ha. destruct Ha.
Qed.

Lemma pool_map_err_kind : forall {A B} (f : A -> res B) procs timeout sched (args : list A) e,
  pool_map f procs timeout sched args = Err e ->
  (e = E_Value /\ procs < 1) \/ (e = E_Runtime /\ timeout <> None) \/ e = E_Fuel \/
  exists a, In a args /\ f a = Err e.
Proof.
  intros A B f procs timeout sched args e H. unfold pool_map in H.
  destruct (procs <? 1) eqn:Hp.
  - inversion H. left. split; [reflexivity|lia].
  - right. apply pool_get_err_kind in H; [|apply init_inv_val|apply init_inv_cnt].
    destruct H as [H|[H|[c H]]]; [left; exact H|right; left; exact H|].
    right. right. apply chunk_err_is_task_err in H. rewrite make_chunks_concat in H; [exact H|lia].
Qed.

Lemma failure_kind : forall {A B} (f : A -> res B) cfg cpus timeout sched (args : list A) e,
  parallel_function f cfg cpus timeout sched args = Err e ->
  (e = E_Value /\ effective_cpus cfg cpus < 1) \/ (e = E_Runtime /\ timeout <> None)
  \/ (e = E_Fuel /\ (effective_cpus cfg cpus <> 1 \/ timeout <> None)) \/ exists a, In a args /\ f a = Err e.
Proof.
  intros A B f cfg cpus timeout sched args e H. unfold parallel_function in H.
  destruct ((effective_cpus cfg cpus =? 1) && no_timeout timeout) eqn:H1.
  - right. right. right. exact (mapM_Err_In f args e H).
  - apply pool_map_err_kind in H. destruct H as [H|[[H H']|[H|H]]].
    + left. exact H.
    + right. left. split; [exact H|exact H'].
    + right. right. left. split; [exact H|].
      destruct timeout as [t|]; [right; discriminate|left]. cbn [no_timeout] in H1. rewrite andb_true_r in H1. lia.
    + right. right. right. exact H.
Qed.

(* for every schedule whatsoever: if no call raises, the outcome is the sequential list, or the timeout,
   or a get() that never returns - never another list, never another error *)
Lemma no_spurious_outcome : forall {A B} (f : A -> res B) cfg cpus timeout sched (args : list A) rs,
  1 <= effective_cpus cfg cpus -> sequential f args = Ok rs ->
  parallel_function f cfg cpus timeout sched args = Ok rs \/
  (parallel_function f cfg cpus timeout sched args = Err E_Runtime /\ timeout <> None) \/
  parallel_function f cfg cpus timeout sched args = Err E_Fuel.
Proof.
  intros A B f cfg cpus timeout sched args rs Hc Hs.
  destruct (parallel_function f cfg cpus timeout sched args) as [out|e] eqn:Hp.
  - left. apply order_sound in Hp. rewrite Hp in Hs. inversion Hs. reflexivity.
  - apply failure_kind in Hp. destruct Hp as [[_ H]|[[H H']|[[H _]|[a [Ha Hf]]]]].
    + lia.
    + right. left. subst e. split; [reflexivity|exact H'].
    + right. right. subst e. reflexivity.
    + exfalso. unfold sequential in Hs.
      destruct (In_nth_error args a Ha) as [i Hi].
      destruct (mapM_Ok_nth f args rs Hs i a Hi) as [r [_ Hr]]. rewrite Hr in Hf. discriminate.
Qed.

(* ---------- ready in time or not ---------- *)
(* does get() leave through the "ready" branch (all chunks reported before the timeout and before the
   schedule ends)?  Mirrors pool_get; a specification helper, not part of the model *)
Fixpoint completes {A B} (f : A -> res B) (procs : Z) (cs : list (list A)) (timeout : option Z)
         (sched : list event) (st : pstate B) : bool :=
  if nleft st =? 0 then true
  else if expired timeout (ticks st) then false
  else match sched with
       | [] => false
       | ev :: s => completes f procs cs timeout s (step f procs cs ev st)
       end.

Lemma incomplete_is_error : forall {A B} (f : A -> res B) procs cs timeout sched (st : pstate B),
  completes f procs cs timeout sched st = false ->
  (pool_get f procs cs timeout sched st = Err E_Runtime /\ timeout <> None) \/
  pool_get f procs cs timeout sched st = Err E_Fuel.
Proof.
  intros A B f procs cs timeout sched. induction sched as [|ev s IH]; intros st H;
    cbn [completes] in H; cbn [pool_get].
  - destruct (nleft st =? 0); [discriminate|].
    destruct (expired timeout (ticks st)) eqn:He.
    + left. split; [reflexivity|]. destruct timeout; [discriminate|cbn in He; discriminate].
    + right. reflexivity.
  - destruct (nleft st =? 0); [discriminate|].
    destruct (expired timeout (ticks st)) eqn:He.
    + left. split; [reflexivity|]. destruct timeout; [discriminate|cbn in He; discriminate].
    + exact (IH _ H).
Qed.

Lemma complete_result : forall {A B} (f : A -> res B) procs cs timeout sched (st : pstate B),
  inv_val f cs st -> inv_cnt st ->
  completes f procs cs timeout sched st = true ->
  (exists out, pool_get f procs cs timeout sched st = Ok out) \/
  (exists e c, pool_get f procs cs timeout sched st = Err e /\ run_chunk f (nth c cs []) = Err e).
Proof.
  intros A B f procs cs timeout sched. induction sched as [|ev s IH]; intros st Hv Hc H;
    cbn [completes] in H; cbn [pool_get].
  - destruct (nleft st =? 0) eqn:Hn.
    + destruct (failed st) as [e0|] eqn:Hf.
      * right. destruct Hv as [_ [_ Hfail]]. destruct (Hfail e0 Hf) as [c Hc']. exists e0, c. split; [reflexivity|exact Hc'].
      * left. destruct Hc as [_ [_ Hcn]]. apply collect_total. rewrite <- (Hcn Hf). lia.
    + destruct (expired timeout (ticks st)); discriminate.
  - destruct (nleft st =? 0) eqn:Hn.
    + destruct (failed st) as [e0|] eqn:Hf.
      * right. destruct Hv as [_ [_ Hfail]]. destruct (Hfail e0 Hf) as [c Hc']. exists e0, c. split; [reflexivity|exact Hc'].
      * left. destruct Hc as [_ [_ Hcn]]. apply collect_total. rewrite <- (Hcn Hf). lia.
    + destruct (expired timeout (ticks st)); [discriminate|].
      exact (IH _ (step_inv_val f procs cs ev st Hv) (step_inv_cnt f procs cs ev st Hc) H).
Qed.

(* a schedule that completes, for every worker count and every batch: worker 0 takes and finishes one
   chunk after the other *)
Fixpoint rounds (j : nat) : list event :=
  match j with O => [] | S j' => Start 0 :: Finish 0 :: rounds j' end.

Lemma set_result_queues : forall {B} c (r : res (list B)) (st : pstate B),
  pend (set_result c r st) = pend st /\ runn (set_result c r st) = runn st /\
  nleft (set_result c r st) = nleft st - 1 /\ ticks (set_result c r st) = ticks st.
Proof.
  intros B c r st. unfold set_result. destruct r; destruct (failed st); cbn; repeat split; reflexivity.
Qed.

Lemma start_finish_0 : forall {A B} (f : A -> res B) procs cs c p (st : pstate B),
  1 <= procs -> runn st = [] -> pend st = c :: p ->
  let st1 := step f procs cs (Start 0) st in
  let st2 := step f procs cs (Finish 0) st1 in
  nleft st1 = nleft st /\ runn st2 = [] /\ pend st2 = p /\ nleft st2 = nleft st - 1.
Proof.
  intros A B f procs cs c p st Hp Hr Hq. cbn zeta.
  assert (Hb : (0 <=? 0) && (0 <? procs) = true) by lia.
  assert (E1 : step f procs cs (Start 0) st = with_queues p [(0, c)] st).
  { cbn [step]. rewrite Hb, Hr, Hq. reflexivity. }
  rewrite E1. split; [reflexivity|].
  assert (E2 : step f procs cs (Finish 0) (with_queues p [(0, c)] st)
               = set_result c (run_chunk f (nth (Z.to_nat c) cs []))
                            (with_queues p [] (with_queues p [(0, c)] st))).
  { reflexivity. }
  rewrite E2.
  match goal with |- context [set_result ?c ?r ?s] =>
    destruct (set_result_queues c r s) as [F1 [F2 [F3 _]]] end.
  rewrite F1, F2, F3. repeat split; reflexivity.
Qed.

Lemma completes_cons : forall {A B} (f : A -> res B) procs cs timeout ev s (st : pstate B),
  completes f procs cs timeout (ev :: s) st =
  if nleft st =? 0 then true else if expired timeout (ticks st) then false
  else completes f procs cs timeout s (step f procs cs ev st).
Proof. reflexivity. Qed.

Lemma rounds_complete : forall {A B} (f : A -> res B) procs cs j i (st : pstate B),
  1 <= procs -> runn st = [] -> pend st = zrange i j -> nleft st = Z.of_nat j ->
  completes f procs cs None (rounds j) st = true.
Proof.
  intros A B f procs cs j. induction j as [|j IH]; intros i st Hp Hr Hq Hn.
  - cbn [rounds completes]. rewrite Hn. reflexivity.
  - cbn [rounds]. cbn [zrange] in Hq.
    destruct (start_finish_0 f procs cs i (zrange (i + 1) j) st Hp Hr Hq) as [G1 [G2 [G3 G4]]].
    rewrite completes_cons. destruct (nleft st =? 0) eqn:H0; [reflexivity|]. cbn [expired].
    rewrite completes_cons. rewrite G1, H0. cbn [expired].
    apply (IH (i + 1)); [exact Hp|exact G2|exact G3|rewrite G4; lia].
Qed.

Definition sequential_schedule {A} (procs : Z) (args : list A) : list event :=
  rounds (length (make_chunks procs args)).

Lemma pool_map_completing_schedule : forall {A B} (f : A -> res B) procs (args : list A) rs,
  1 <= procs -> sequential f args = Ok rs ->
  pool_map f procs None (sequential_schedule procs args) args = Ok rs.
Proof.
  intros A B f procs args rs Hp Hs. unfold pool_map, sequential_schedule.
  destruct (procs <? 1) eqn:Hlt; [lia|]. cbn zeta.
  set (cs := make_chunks procs args).
  assert (Hc : completes f procs cs None (rounds (length cs)) (init_state B cs) = true).
  { apply (rounds_complete f procs cs (length cs) 0); [exact Hp|reflexivity|reflexivity|reflexivity]. }
  destruct (complete_result f procs cs None _ _ (init_inv_val f cs) (init_inv_cnt B cs) Hc) as [[out Ho]|[e [c [He Hce]]]].
  - rewrite Ho. pose proof (pool_get_sound f procs cs None _ _ out (init_inv_val f cs) Ho) as Hm.
    unfold cs in Hm. rewrite make_chunks_concat in Hm; [|exact Hp]. unfold sequential in Hs. rewrite Hm in Hs. exact Hs.
  - exfalso. apply chunk_err_is_task_err in Hce. destruct Hce as [a [Ha Hf]].
    unfold cs in Ha. rewrite make_chunks_concat in Ha; [|exact Hp].
    destruct (In_nth_error args a Ha) as [i Hi].
    destruct (mapM_Ok_nth f args rs Hs i a Hi) as [r [_ Hr]]. rewrite Hr in Hf. discriminate.
Qed.

Lemma completing_schedule_exists : forall {A B} (f : A -> res B) cfg cpus (args : list A) rs,
  1 <= effective_cpus cfg cpus -> sequential f args = Ok rs ->
  exists sched, parallel_function f cfg cpus None sched args = Ok rs.
Proof.
  intros A B f cfg cpus args rs Hc Hs. exists (sequential_schedule (effective_cpus cfg cpus) args).
  unfold parallel_function. cbn [no_timeout]. rewrite andb_true_r.
  destruct (effective_cpus cfg cpus =? 1); [exact Hs|].
  apply pool_map_completing_schedule; [exact Hc|exact Hs].
Qed.

(* not ready in time: an error, never a partial list *)
Lemma not_ready_is_error : forall {A B} (f : A -> res B) procs timeout sched (args : list A),
  1 <= procs ->
  completes f procs (make_chunks procs args) timeout sched (init_state B (make_chunks procs args)) = false ->
  (pool_map f procs timeout sched args = Err E_Runtime /\ timeout <> None) \/
  pool_map f procs timeout sched args = Err E_Fuel.
Proof.
  intros A B f procs timeout sched args Hp H. unfold pool_map.
  destruct (procs <? 1) eqn:Hlt; [lia|]. exact (incomplete_is_error f procs _ timeout sched _ H).
Qed.

(* ready in time: the sequential list if no call raises, otherwise the exception of one of the calls *)
Lemma ready_is_sequential : forall {A B} (f : A -> res B) procs timeout sched (args : list A),
  1 <= procs ->
  completes f procs (make_chunks procs args) timeout sched (init_state B (make_chunks procs args)) = true ->
  match sequential f args with
  | Ok rs => pool_map f procs timeout sched args = Ok rs
  | Err _ => exists e a, pool_map f procs timeout sched args = Err e /\ In a args /\ f a = Err e
  end.
Proof.
  intros A B f procs timeout sched args Hp H.
  pose proof (pool_map_sound f procs timeout sched args) as Hsound.
  unfold pool_map in *. destruct (procs <? 1) eqn:Hlt; [lia|]. cbn zeta in *.
  set (cs := make_chunks procs args) in *.
  destruct (complete_result f procs cs timeout sched _ (init_inv_val f cs) (init_inv_cnt B cs) H)
    as [[out Ho]|[e [c [He Hce]]]].
  - rewrite Ho. unfold sequential. rewrite (Hsound out Ho). reflexivity.
  - apply chunk_err_is_task_err in Hce. destruct Hce as [a [Ha Hf]].
    unfold cs in Ha. rewrite make_chunks_concat in Ha; [|exact Hp].
    destruct (sequential f args) as [rs|e0] eqn:Hs.
    + exfalso. destruct (In_nth_error args a Ha) as [i Hi].
      destruct (mapM_Ok_nth f args rs Hs i a Hi) as [r [_ Hr]]. rewrite Hr in Hf. discriminate.
    + exists e, a. split; [exact He|]. split; [exact Ha|exact Hf].
Qed.

(* ---------- the run-time specification holds of the model whenever get() returns ---------- *)
Lemma list_eqb_refl : forall l, list_eqb Z.eqb l l = true.
Proof. induction l as [|x l IH]; [reflexivity|]. cbn [list_eqb]. rewrite Z.eqb_refl, IH. reflexivity. Qed.

Lemma list_eqb_eq : forall a b, list_eqb Z.eqb a b = true -> a = b.
Proof.
  induction a as [|x a IH]; intros [|y b] H; cbn [list_eqb] in H; try discriminate; [reflexivity|].
  apply andb_prop in H. destruct H as [H1 H2]. rewrite (IH b H2). assert (x = y) by lia. subst. reflexivity.
Qed.

Lemma model_meets_spec : forall cfg cpus timeout sched (tasks : list (res Z)),
  parallel_function (fun t => t) cfg cpus timeout sched tasks <> Err E_Fuel ->
  spec_ok cfg cpus timeout tasks (parallel_function (fun t => t) cfg cpus timeout sched tasks) = true.
Proof.
  intros cfg cpus timeout sched tasks Hnf. unfold spec_ok.
  destruct (parallel_function (fun t => t) cfg cpus timeout sched tasks) as [out|e] eqn:Hp.
  - rewrite (order_sound _ _ _ _ _ _ _ Hp). apply list_eqb_refl.
  - destruct (sequential (fun t : res Z => t) tasks) as [rs|e0] eqn:Hs; [|reflexivity].
    apply failure_kind in Hp. destruct Hp as [[_ H]|[[H H']|[[H _]|[a [Ha Hf]]]]].
    + apply orb_true_iff. right. lia.
    + apply orb_true_iff. left. destruct timeout; [lia|contradiction].
    + subst e. contradiction.
    + exfalso. destruct (In_nth_error tasks a Ha) as [i Hi].
      destruct (mapM_Ok_nth _ tasks rs Hs i a Hi) as [r [_ Hr]]. rewrite Hr in Hf. discriminate.
Qed.

(* and the specification means what it should: an accepted list is the sequential list *)
Lemma spec_ok_sound : forall cfg cpus timeout (tasks : list (res Z)) vs,
  spec_ok cfg cpus timeout tasks (Ok vs) = true -> sequential (fun t => t) tasks = Ok vs.
Proof.
  intros cfg cpus timeout tasks vs H. unfold spec_ok in H.
  destruct (sequential (fun t : res Z => t) tasks) as [ws|e]; [|discriminate].
  rewrite (list_eqb_eq vs ws H). reflexivity.
Qed.

(* ================================================================================================
   pre_process_sequences: the result does not depend on the worker count or the schedule
   ================================================================================================ *)
Definition pf_t := (prec -> res prec) -> list prec -> res (list prec).

(* what is needed of a helper: a returned list is the sequential one (C18_order) ... *)
Definition pf_sound (pf : pf_t) : Prop := forall f l out, pf f l = Ok out -> sequential f l = Ok out.
(* ... and when every call returns, the helper returns the list or never returns *)
Definition pf_live (pf : pf_t) : Prop :=
  forall f l rs, sequential f l = Ok rs -> pf f l = Ok rs \/ pf f l = Err E_Fuel.

Lemma pf_sound_parallel : forall cfg sched, pf_sound (fun f => parallel_function f cfg 0 None sched).
Proof. intros cfg sched f l out H. exact (order_sound f cfg 0 None sched l out H). Qed.

Lemma pf_sound_sequential : pf_sound sequential.
Proof. intros f l out H. exact H. Qed.

Lemma pf_live_parallel : forall cfg sched, 1 <= cfg -> pf_live (fun f => parallel_function f cfg 0 None sched).
Proof.
  intros cfg sched Hc f l rs Hs.
  assert (Hc' : 1 <= effective_cpus cfg 0) by (unfold effective_cpus; simpl; exact Hc).
  destruct (no_spurious_outcome f cfg 0 None sched l rs Hc' Hs) as [H|[[_ H]|H]].
  - left. exact H.
  - exfalso. apply H. reflexivity.
  - right. exact H.
Qed.

Lemma stage1_sound : forall pf o s0 s1, pf_sound pf ->
  pp_stage1 pf o s0 = Ok s1 -> pp_stage1 sequential o s0 = Ok s1.
Proof.
  intros pf o s0 s1 Hpf H. unfold pp_stage1 in *. destruct (o_checking o); [|exact H].
  destruct s0 as [|r [|r2 t]]; [exact (Hpf _ _ _ H)|exact H|exact (Hpf _ _ _ H)].
Qed.

Lemma stage2_sound : forall pf gf o s4 s5, pf_sound pf ->
  pp_stage2 pf gf o s4 = Ok s5 -> pp_stage2 sequential gf o s4 = Ok s5.
Proof.
  intros pf gf o s4 s5 Hpf H. unfold pp_stage2 in *. destruct (o_checking o); [|exact H].
  exact (Hpf _ _ _ H).
Qed.

Lemma pp_gen_sound : forall pf1 pf2 gf o recs out, pf_sound pf1 -> pf_sound pf2 ->
  pre_process_gen pf1 pf2 gf o recs = Ok out -> pre_process_gen sequential sequential gf o recs = Ok out.
Proof.
  intros pf1 pf2 gf o recs out H1 H2 H. unfold pre_process_gen in *.
  destruct (existsb _ recs); [discriminate|].
  destruct (pp_stage1 pf1 o (set_indices 1 recs)) as [s1|e] eqn:E1; [|discriminate].
  rewrite (stage1_sound pf1 o _ s1 H1 E1). cbn [bind] in *.
  destruct (filter_by_name (o_target o) s1) as [s2|e]; [|discriminate]. cbn [bind] in *.
  destruct (filter_by_count (o_limit o) (apply_minlength (o_minlength o) s2)) as [hit s4].
  destruct (pp_stage2 pf2 gf o s4) as [s5|e] eqn:E2; [|discriminate].
  rewrite (stage2_sound pf2 gf o s4 s5 H2 E2). exact H.
Qed.

Lemma stage1_live : forall pf o s0 s1, pf_live pf ->
  pp_stage1 sequential o s0 = Ok s1 -> pp_stage1 pf o s0 = Ok s1 \/ pp_stage1 pf o s0 = Err E_Fuel.
Proof.
  intros pf o s0 s1 Hpf H. unfold pp_stage1 in *. destruct (o_checking o); [|left; exact H].
  destruct s0 as [|r [|r2 t]]; [exact (Hpf _ _ _ H)|left; exact H|exact (Hpf _ _ _ H)].
Qed.

Lemma stage2_live : forall pf gf o s4 s5, pf_live pf ->
  pp_stage2 sequential gf o s4 = Ok s5 -> pp_stage2 pf gf o s4 = Ok s5 \/ pp_stage2 pf gf o s4 = Err E_Fuel.
Proof.
  intros pf gf o s4 s5 Hpf H. unfold pp_stage2 in *. destruct (o_checking o); [|left; exact H].
  exact (Hpf _ _ _ H).
Qed.

Lemma pp_gen_live : forall pf1 pf2 gf o recs out, pf_live pf1 -> pf_live pf2 ->
  pre_process_gen sequential sequential gf o recs = Ok out ->
  pre_process_gen pf1 pf2 gf o recs = Ok out \/ pre_process_gen pf1 pf2 gf o recs = Err E_Fuel.
Proof.
  intros pf1 pf2 gf o recs out H1 H2 H. unfold pre_process_gen in *.
  destruct (existsb _ recs); [discriminate|].
  destruct (pp_stage1 sequential o (set_indices 1 recs)) as [s1|e] eqn:E1; [|discriminate].
  destruct (stage1_live pf1 o _ s1 H1 E1) as [E|E]; rewrite E; cbn [bind] in *; [|right; reflexivity].
  destruct (filter_by_name (o_target o) s1) as [s2|e]; [|discriminate]. cbn [bind] in *.
  destruct (filter_by_count (o_limit o) (apply_minlength (o_minlength o) s2)) as [hit s4].
  destruct (pp_stage2 sequential gf o s4) as [s5|e] eqn:E2; [|discriminate].
  destruct (stage2_live pf2 gf o s4 s5 H2 E2) as [E'|E']; rewrite E'; cbn [bind] in *; [|right; reflexivity].
  left. exact H.
Qed.

Lemma pp_gen_ext : forall pf1 pf2 pf1' pf2' gf o recs,
  (forall f l, pf1 f l = pf1' f l) -> (forall f l, pf2 f l = pf2' f l) ->
  pre_process_gen pf1 pf2 gf o recs = pre_process_gen pf1' pf2' gf o recs.
Proof.
  intros pf1 pf2 pf1' pf2' gf o recs H1 H2. unfold pre_process_gen.
  destruct (existsb _ recs); [reflexivity|].
  assert (E1 : pp_stage1 pf1 o (set_indices 1 recs) = pp_stage1 pf1' o (set_indices 1 recs)).
  { unfold pp_stage1. destruct (o_checking o); [|reflexivity].
    destruct (set_indices 1 recs) as [|r [|r2 t]]; [apply H1|reflexivity|apply H1]. }
  rewrite E1. destruct (pp_stage1 pf1' o (set_indices 1 recs)) as [s1|e]; [|reflexivity]. cbn [bind].
  destruct (filter_by_name (o_target o) s1) as [s2|e]; [|reflexivity]. cbn [bind].
  destruct (filter_by_count (o_limit o) (apply_minlength (o_minlength o) s2)) as [hit s4].
  assert (E2 : pp_stage2 pf2 gf o s4 = pp_stage2 pf2' gf o s4).
  { unfold pp_stage2. destruct (o_checking o); [apply H2|reflexivity]. }
  rewrite E2. reflexivity.
Qed.

(* the clauses of the property for pre_process_sequences *)
Lemma preprocess_workers_irrelevant : forall gf o cfg sched1 sched2 recs out,
  pre_process gf o cfg sched1 sched2 recs = Ok out -> pre_process_inproc gf o recs = Ok out.
Proof.
  intros gf o cfg sched1 sched2 recs out H. unfold pre_process in H. unfold pre_process_inproc.
  exact (pp_gen_sound _ _ gf o recs out (pf_sound_parallel cfg sched1) (pf_sound_parallel cfg sched2) H).
Qed.

Lemma preprocess_failure_surfaces : forall gf o cfg sched1 sched2 recs e0,
  pre_process_inproc gf o recs = Err e0 -> exists e, pre_process gf o cfg sched1 sched2 recs = Err e.
Proof.
  intros gf o cfg sched1 sched2 recs e0 Hs.
  destruct (pre_process gf o cfg sched1 sched2 recs) as [out|e] eqn:Hp.
  - apply preprocess_workers_irrelevant in Hp. rewrite Hp in Hs. discriminate.
  - exists e. reflexivity.
Qed.

Lemma preprocess_cpus1 : forall gf o sched1 sched2 recs,
  pre_process gf o 1 sched1 sched2 recs = pre_process_inproc gf o recs.
Proof.
  intros gf o sched1 sched2 recs. unfold pre_process, pre_process_inproc.
  apply pp_gen_ext; intros f l; apply cpus1_is_map; reflexivity.
Qed.

Lemma preprocess_no_spurious_outcome : forall gf o cfg sched1 sched2 recs out,
  1 <= cfg -> pre_process_inproc gf o recs = Ok out ->
  pre_process gf o cfg sched1 sched2 recs = Ok out \/ pre_process gf o cfg sched1 sched2 recs = Err E_Fuel.
Proof.
  intros gf o cfg sched1 sched2 recs out Hc H. unfold pre_process. unfold pre_process_inproc in H.
  exact (pp_gen_live _ _ gf o recs out (pf_live_parallel cfg sched1 Hc) (pf_live_parallel cfg sched2 Hc) H).
Qed.

(* non-vacuity for every worker count and batch: schedules under which the in-process result is returned *)
Lemma preprocess_completing_schedules_exist : forall gf o cfg recs out,
  1 <= cfg -> pre_process_inproc gf o recs = Ok out ->
  exists sched1 sched2, pre_process gf o cfg sched1 sched2 recs = Ok out.
Proof.
  intros gf o cfg recs out Hc H. unfold pre_process_inproc in H. unfold pre_process, pre_process_gen in *.
  assert (Hc' : 1 <= effective_cpus cfg 0) by (unfold effective_cpus; simpl; exact Hc).
  destruct (existsb _ recs); [discriminate|].
  destruct (pp_stage1 sequential o (set_indices 1 recs)) as [s1|e] eqn:E1; [|discriminate]. cbn [bind] in H.
  assert (X1 : exists sched1, pp_stage1 (fun f => parallel_function f cfg 0 None sched1) o (set_indices 1 recs) = Ok s1).
  { unfold pp_stage1 in *. destruct (o_checking o); [|exists []; exact E1].
    destruct (set_indices 1 recs) as [|r [|r2 t]].
    - exact (completing_schedule_exists _ cfg 0 _ s1 Hc' E1).
    - exists []. exact E1.
    - exact (completing_schedule_exists _ cfg 0 _ s1 Hc' E1). }
  destruct X1 as [sched1 X1]. exists sched1. rewrite X1. cbn [bind].
  destruct (filter_by_name (o_target o) s1) as [s2|e]; [|discriminate]. cbn [bind] in *.
  destruct (filter_by_count (o_limit o) (apply_minlength (o_minlength o) s2)) as [hit s4].
  destruct (pp_stage2 sequential gf o s4) as [s5|e] eqn:E2; [|discriminate]. cbn [bind] in H.
  assert (X2 : exists sched2, pp_stage2 (fun f => parallel_function f cfg 0 None sched2) gf o s4 = Ok s5).
  { unfold pp_stage2 in *. destruct (o_checking o); [|exists []; exact E2].
    exact (completing_schedule_exists _ cfg 0 _ s5 Hc' E2). }
  destruct X2 as [sched2 X2]. exists sched2. rewrite X2. cbn [bind]. exact H.
Qed.

(* ---------- what comes back: id, record_index and the sanitised sequence of every record, in argument order ---------- *)
Definition key (r : prec) : Z * Z * list Z := (r_id r, r_index r, r_seq r).
Definition gf_keeps (gf : prec -> res prec) : Prop := forall r r', gf r = Ok r' -> key r' = key r.

Lemma mapM_proj : forall {A B C} (f : A -> res B) (p : B -> C) (q : A -> C),
  (forall a b, f a = Ok b -> p b = q a) ->
  forall l l', mapM f l = Ok l' -> map p l' = map q l.
Proof.
  intros A B C f p q Hf. induction l as [|a l IH]; intros l' H; cbn [mapM] in H.
  - inversion H. reflexivity.
  - destruct (f a) as [b|e] eqn:Ea; [|discriminate]. cbn [bind] in H.
    destruct (mapM f l) as [bs|e]; [|discriminate]. cbn [bind] in H. inversion H. subst l'.
    cbn [map]. rewrite (Hf a b Ea), (IH bs eq_refl). reflexivity.
Qed.

Lemma stage1_seq_checking : forall o s0, o_checking o = true ->
  pp_stage1 sequential o s0 = mapM sanitise_sequence s0.
Proof.
  intros o s0 Hc. unfold pp_stage1. rewrite Hc. destruct s0 as [|r [|r2 t]]; reflexivity.
Qed.

Lemma sanitise_key : forall r r', sanitise_sequence r = Ok r' ->
  key r' = (r_id r, r_index r, fst (sanitise_chars (r_seq r))).
Proof.
  intros r r' H. unfold sanitise_sequence in H. destruct (sanitise_chars (r_seq r)) as [s real].
  inversion H. reflexivity.
Qed.

Lemma ensure_key : forall gf run r r', gf_keeps gf -> ensure_cds_info gf run r = Ok r' -> key r' = key r.
Proof.
  intros gf run r r' Hg H. unfold ensure_cds_info in H.
  destruct (skipped r); [inversion H; reflexivity|].
  destruct (r_ncds r =? 0); [|inversion H; reflexivity].
  destruct run.
  - destruct (gf r) as [x|e] eqn:Eg; [|discriminate]. cbn [bind] in H.
    destruct (r_ncds x =? 0); inversion H; subst r'; [change (key (set_skip S_NoGenes x)) with (key x)|];
      exact (Hg r x Eg).
  - cbn [bind] in H. destruct (r_ncds r =? 0); inversion H; reflexivity.
Qed.

Lemma filter_by_name_key : forall t l l', filter_by_name t l = Ok l' -> map key l' = map key l.
Proof.
  intros t l l' H. unfold filter_by_name in H. destruct t as [t|]; [|inversion H; reflexivity].
  destruct (existsb _ l); [|discriminate]. inversion H. rewrite map_map. apply map_ext.
  intro r. destruct (r_id r =? t); reflexivity.
Qed.

Lemma apply_minlength_key : forall m l, map key (apply_minlength m l) = map key l.
Proof.
  intros m l. unfold apply_minlength. rewrite map_map. apply map_ext.
  intro r. destruct (zlen (r_seq r) <? m); reflexivity.
Qed.

Lemma mark_skipped_key : forall hit l i, map key (mark_skipped hit i l) = map key l.
Proof.
  intros hit. induction l as [|r l IH]; intro i; [reflexivity|]. cbn [mark_skipped map].
  rewrite IH. destruct (existsb (Nat.eqb i) hit); reflexivity.
Qed.

Lemma filter_by_count_key : forall m l, map key (snd (filter_by_count m l)) = map key l.
Proof.
  intros m l. unfold filter_by_count. destruct ((m =? -1) || (zlen l <? m)); [reflexivity|].
  cbn [snd]. apply mark_skipped_key.
Qed.

Lemma set_indices_key : forall l i,
  map r_id (set_indices i l) = map r_id l /\ map r_seq (set_indices i l) = map r_seq l /\
  map r_index (set_indices i l) = zrange i (length l).
Proof.
  induction l as [|r l IH]; intro i; [repeat split; reflexivity|].
  cbn [set_indices map length zrange]. destruct (IH (i + 1)) as [H1 [H2 H3]].
  rewrite H1, H2, H3. repeat split; reflexivity.
Qed.

Lemma preprocess_keeps_batch : forall gf o cfg sched1 sched2 recs hit out,
  gf_keeps gf -> o_checking o = true ->
  pre_process gf o cfg sched1 sched2 recs = Ok (hit, out) ->
  map r_id out = map r_id recs /\
  map r_index out = zrange 1 (length recs) /\
  map r_seq out = map (fun r => fst (sanitise_chars (r_seq r))) recs.
Proof.
  intros gf o cfg sched1 sched2 recs hit out Hg Hc H.
  apply preprocess_workers_irrelevant in H. unfold pre_process_inproc, pre_process_gen in H.
  destruct (existsb _ recs); [discriminate|].
  rewrite (stage1_seq_checking o _ Hc) in H.
  destruct (mapM sanitise_sequence (set_indices 1 recs)) as [s1|e] eqn:E1; [|discriminate]. cbn [bind] in H.
  destruct (filter_by_name (o_target o) s1) as [s2|e] eqn:E2; [|discriminate]. cbn [bind] in H.
  pose proof (filter_by_count_key (o_limit o) (apply_minlength (o_minlength o) s2)) as K4.
  destruct (filter_by_count (o_limit o) (apply_minlength (o_minlength o) s2)) as [hit' s4]. cbn [snd] in K4.
  unfold pp_stage2 in H. rewrite Hc in H. unfold sequential in H.
  destruct (mapM (ensure_cds_info gf (o_run_gf o)) s4) as [s5|e] eqn:E5; [|discriminate]. cbn [bind] in H.
  destruct (forallb skipped s5); [discriminate|]. inversion H. subst hit' s5. clear H.
  assert (K : map key out = map (fun r => (r_id r, r_index r, fst (sanitise_chars (r_seq r)))) (set_indices 1 recs)).
  { rewrite (mapM_proj _ key key (fun a b => ensure_key gf (o_run_gf o) a b Hg) s4 out E5).
    rewrite K4, apply_minlength_key, (filter_by_name_key _ _ _ E2).
    exact (mapM_proj _ key _ sanitise_key _ s1 E1). }
  destruct (set_indices_key recs 1) as [I1 [I2 I3]].
  assert (P1 : map r_id out = map (fun k => fst (fst k)) (map key out)) by (rewrite map_map; reflexivity).
  assert (P2 : map r_index out = map (fun k => snd (fst k)) (map key out)) by (rewrite map_map; reflexivity).
  assert (P3 : map r_seq out = map snd (map key out)) by (rewrite map_map; reflexivity).
  rewrite P1, P2, P3, K, !map_map. cbn [fst snd].
  repeat split.
  - exact I1.
  - exact I3.
  - change (map (fun x : prec => fst (sanitise_chars (r_seq x))) (set_indices 1 recs))
      with (map (fun x : prec => (fun s => fst (sanitise_chars s)) (r_seq x)) (set_indices 1 recs)).
    rewrite <- (map_map r_seq (fun s => fst (sanitise_chars s))), I2, map_map. reflexivity.
Qed.

(* ---------- sanitise_sequence: what the sanitised sequence is ---------- *)
Definition clean_base (c : Z) : Prop := c = 65 \/ c = 67 \/ c = 71 \/ c = 84 \/ c = 78.

Lemma is_acgt_cases : forall u, is_acgt u = true -> (u = 65 \/ u = 67 \/ u = 71 \/ u = 84).
Proof. intros u H. unfold is_acgt in H. lia. Qed.

Lemma sanitise_chars_alphabet : forall s, Forall clean_base (fst (sanitise_chars s)).
Proof.
  induction s as [|c s IH]; [constructor|]. cbn [sanitise_chars].
  destruct (sanitise_chars s) as [out real]. cbn [fst] in IH.
  destruct (upper c =? 45); [exact IH|].
  destruct (is_acgt (upper c)) eqn:Ea; cbn [fst]; constructor; try exact IH.
  - apply is_acgt_cases in Ea. unfold clean_base. lia.
  - unfold clean_base. lia.
Qed.

Lemma sanitise_chars_idempotent : forall s, sanitise_chars (fst (sanitise_chars s)) = sanitise_chars s.
Proof.
  induction s as [|c s IH]; [reflexivity|]. cbn [sanitise_chars].
  destruct (sanitise_chars s) as [out real]. cbn [fst] in IH.
  destruct (upper c =? 45); [exact IH|].
  destruct (is_acgt (upper c)) eqn:Ea; cbn [fst sanitise_chars]; rewrite IH.
  - assert (Hu : upper (upper c) = upper c).
    { apply is_acgt_cases in Ea. unfold upper at 1.
      destruct ((97 <=? upper c) && (upper c <=? 122)) eqn:E; [lia|reflexivity]. }
    rewrite Hu. assert (H45 : (upper c =? 45) = false) by (apply is_acgt_cases in Ea; lia).
    rewrite H45, Ea. reflexivity.
  - reflexivity.
Qed.

Lemma sanitise_chars_flag : forall s, snd (sanitise_chars s) = existsb (fun c => is_acgt (upper c)) s.
Proof.
  induction s as [|c s IH]; [reflexivity|]. cbn [sanitise_chars existsb].
  destruct (sanitise_chars s) as [out real]. cbn [snd] in IH.
  destruct (upper c =? 45) eqn:E45.
  - assert (Ha : is_acgt (upper c) = false) by (unfold is_acgt; lia). rewrite Ha. exact IH.
  - destruct (is_acgt (upper c)); cbn [snd]; [reflexivity|exact IH].
Qed.

Lemma sanitise_spec : forall r, exists r',
  sanitise_sequence r = Ok r' /\
  Forall clean_base (r_seq r') /\
  sanitise_sequence r' = Ok r' /\
  r_id r' = r_id r /\ r_index r' = r_index r /\ r_ncds r' = r_ncds r /\ r_rest r' = r_rest r /\
  r_skip r' = (if existsb (fun c => is_acgt (upper c)) (r_seq r) then r_skip r else S_NoSeq).
Proof.
  intro r. unfold sanitise_sequence.
  pose proof (sanitise_chars_alphabet (r_seq r)) as Ha.
  pose proof (sanitise_chars_idempotent (r_seq r)) as Hi.
  pose proof (sanitise_chars_flag (r_seq r)) as Hf.
  destruct (sanitise_chars (r_seq r)) as [s real]. cbn [fst snd] in *.
  eexists. split; [reflexivity|]. cbn [r_seq r_id r_index r_ncds r_rest r_skip].
  rewrite Hi. subst real.
  repeat split; try exact Ha.
  destruct (existsb _ (r_seq r)); reflexivity.
Qed.

(* ---------- the run-time specification of pre_process_sequences ---------- *)
Lemma list_eqb_gen_eq : forall {A} (eqb : A -> A -> bool), (forall x y, eqb x y = true -> x = y) ->
  forall a b, list_eqb eqb a b = true -> a = b.
Proof.
  intros A eqb He. induction a as [|x a IH]; intros [|y b] H; cbn [list_eqb] in H; try discriminate; [reflexivity|].
  apply andb_prop in H. destruct H as [H1 H2]. rewrite (IH b H2), (He x y H1). reflexivity.
Qed.

Lemma list_eqb_gen_refl : forall {A} (eqb : A -> A -> bool), (forall x, eqb x x = true) ->
  forall a, list_eqb eqb a a = true.
Proof. intros A eqb He. induction a as [|x a IH]; [reflexivity|]. cbn [list_eqb]. rewrite He, IH. reflexivity. Qed.

Lemma prec_eqb_eq : forall a b, prec_eqb a b = true -> a = b.
Proof.
  intros [i1 x1 s1 k1 n1 t1] [i2 x2 s2 k2 n2 t2] H. unfold prec_eqb in H. cbn in H.
  repeat (apply andb_prop in H; destruct H as [H ?]).
  apply Z.eqb_eq in H. apply Z.eqb_eq in H0. apply Z.eqb_eq in H1. apply Z.eqb_eq in H2. apply Z.eqb_eq in H4.
  apply list_eqb_eq in H3. subst. reflexivity.
Qed.

Lemma prec_eqb_refl : forall a, prec_eqb a a = true.
Proof. intro a. unfold prec_eqb. rewrite !Z.eqb_refl, list_eqb_refl. reflexivity. Qed.

Lemma pp_spec_ok_sound : forall gf o recs x,
  pp_spec_ok gf o recs (Ok x) = true -> pre_process_inproc gf o recs = Ok x.
Proof.
  intros gf o recs [h l] H. unfold pp_spec_ok in H.
  destruct (pre_process_inproc gf o recs) as [[h' l']|e]; [|discriminate].
  apply andb_prop in H. destruct H as [H1 H2].
  apply Bool.eqb_prop in H1. apply (list_eqb_gen_eq prec_eqb prec_eqb_eq) in H2. subst. reflexivity.
Qed.

Lemma pp_model_meets_spec : forall gf o cfg sched1 sched2 recs,
  1 <= cfg -> pre_process gf o cfg sched1 sched2 recs <> Err E_Fuel ->
  pp_spec_ok gf o recs (pre_process gf o cfg sched1 sched2 recs) = true.
Proof.
  intros gf o cfg sched1 sched2 recs Hc Hnf. unfold pp_spec_ok.
  destruct (pre_process_inproc gf o recs) as [[h l]|e0] eqn:Hs.
  - destruct (preprocess_no_spurious_outcome gf o cfg sched1 sched2 recs (h, l) Hc Hs) as [E|E].
    + rewrite E. rewrite Bool.eqb_reflx. exact (list_eqb_gen_refl prec_eqb prec_eqb_refl l).
    + contradiction.
  - destruct (preprocess_failure_surfaces gf o cfg sched1 sched2 recs e0 Hs) as [e E]. rewrite E. reflexivity.
Qed.

(* ================================================================================================
   the timeout clause: calls with a duration class (slow = exceeds the timeout)
   ================================================================================================ *)

(* a chunk that reaches a slow call has not reported: as long as it is queued or running, or once it is lost,
   the result cannot be ready.  c0 is queued/running and nothing is lost yet, or something is lost *)
Definition blocked {B} (c0 : Z) (st : pstate B) : Prop :=
  (In c0 (active st) /\ zlen (active st) <= nleft st) \/ zlen (active st) + 1 <= nleft st.

Lemma blocked_nleft : forall {B} c0 (st : pstate B), blocked c0 st -> 1 <= nleft st.
Proof.
  intros B c0 st [[Hin Hle]|Hle].
  - unfold zlen in *. destruct (active st); [destruct Hin|]. cbn [length] in Hle. lia.
  - unfold zlen in *. lia.
Qed.

Lemma zlen_app : forall {X} (a b : list X), zlen (a ++ b) = zlen a + zlen b.
Proof. intros X a b. unfold zlen. rewrite app_length. lia. Qed.

Lemma step_blocked : forall {A B} (f : A -> res B) procs cs c0 ev (st : pstate B),
  blocked c0 st ->
  (forall w, ev = Finish w -> lookup_w w (runn st) <> Some c0) ->
  blocked c0 (step f procs cs ev st).
Proof.
  intros A B f procs cs c0 ev st Hb Hnf. destruct ev as [w|w|w|]; cbn [step].
  - (* Start *)
    destruct ((0 <=? w) && (w <? procs)); [|exact Hb].
    destruct (lookup_w w (runn st)) eqn:Hl; [exact Hb|]. destruct (pend st) as [|c p'] eqn:Hp; [exact Hb|].
    unfold blocked, active, with_queues in *. cbn [pend runn nleft map snd]. rewrite Hp in Hb.
    assert (Hlen : zlen (p' ++ c :: map snd (runn st)) = zlen ((c :: p') ++ map snd (runn st))).
    { unfold zlen. rewrite !app_length. cbn [length]. rewrite Nat.add_succ_r. reflexivity. }
    rewrite Hlen. destruct Hb as [[Hin Hle]|Hle]; [left|right; exact Hle].
    split; [|exact Hle]. apply in_app_iff in Hin. apply in_app_iff.
    destruct Hin as [[E|Hin]|Hin].
    + right. left. exact E.
    + left. exact Hin.
    + right. right. exact Hin.
  - (* Finish *)
    destruct (lookup_w w (runn st)) as [c|] eqn:Hl; [|exact Hb].
    assert (Hc : c <> c0). { intros E. subst c. exact (Hnf w eq_refl Hl). }
    destruct (remove_w_split w (runn st) c Hl) as [r1 [r2 [E1 E2]]].
    match goal with |- blocked _ (set_result ?c ?r ?s) =>
      destruct (set_result_queues c r s) as [F1 [F2 [F3 _]]] end.
    unfold blocked, active in *. rewrite F1, F2, F3. unfold with_queues. cbn [pend runn nleft].
    rewrite E2. rewrite E1 in Hb. rewrite map_app in *. cbn [map snd] in Hb.
    rewrite !zlen_app in *. unfold zlen in Hb at 3 6. cbn [length] in Hb.
    destruct Hb as [[Hin Hle]|Hle]; [left|right].
    + split.
      * apply in_app_iff in Hin. apply in_app_iff. destruct Hin as [Hin|Hin]; [left; exact Hin|right].
        apply in_app_iff in Hin. apply in_app_iff. destruct Hin as [Hin|[E|Hin]].
        -- left. exact Hin.
        -- exfalso. exact (Hc E).
        -- right. exact Hin.
      * unfold zlen in *. lia.
    + unfold zlen in *. lia.
  - (* Crash: the chunk is lost *)
    destruct (lookup_w w (runn st)) as [c|] eqn:Hl; [|exact Hb].
    destruct (remove_w_split w (runn st) c Hl) as [r1 [r2 [E1 E2]]].
    unfold blocked, active, with_queues in *. cbn [pend runn nleft].
    rewrite E2. rewrite E1 in Hb. rewrite map_app in *. cbn [map snd] in Hb.
    rewrite !zlen_app in *. unfold zlen in Hb at 3 6. cbn [length] in Hb.
    right. destruct Hb as [[_ Hle]|Hle]; unfold zlen in *; lia.
  - exact Hb.
Qed.

(* while such a chunk is unreported, get() can only leave through the timeout (or not at all) *)
Lemma blocked_get : forall {A B} (f : A -> res B) slow procs cs t c0 sched (st : pstate B),
  slow_chunk f slow cs c0 = true -> blocked c0 st ->
  no_early_finish f slow procs cs t sched st = true ->
  pool_get f procs cs (Some t) sched st = Err E_Runtime \/ pool_get f procs cs (Some t) sched st = Err E_Fuel.
Proof.
  intros A B f slow procs cs t c0 sched. induction sched as [|ev s IH]; intros st Hs Hb Hn; cbn [pool_get].
  - pose proof (blocked_nleft c0 st Hb) as H1. destruct (nleft st =? 0) eqn:H0; [lia|].
    destruct (expired (Some t) (ticks st)); [left|right]; reflexivity.
  - pose proof (blocked_nleft c0 st Hb) as H1. destruct (nleft st =? 0) eqn:H0; [lia|].
    destruct (expired (Some t) (ticks st)) eqn:He; [left; reflexivity|].
    cbn [no_early_finish] in Hn. unfold get_returned in Hn. cbn [expired] in He. rewrite H0, He in Hn. cbn [orb] in Hn.
    apply andb_prop in Hn. destruct Hn as [Hhead Htail].
    apply IH; [exact Hs| |exact Htail].
    apply step_blocked; [exact Hb|].
    intros w Ew Hl. subst ev. rewrite Hl, Hs in Hhead. rewrite Hhead in He. discriminate.
Qed.

Lemma chunk_slow_reached : forall {A B} (f : A -> res B) slow (chunk : list A) a,
  (forall a', In a' chunk -> exists r, f a' = Ok r) -> In a chunk -> slow a = true ->
  chunk_slow f slow chunk = true.
Proof.
  intros A B f slow chunk a. induction chunk as [|x chunk IH]; intros Hok Hin Hs; [destruct Hin|].
  cbn [chunk_slow]. destruct Hin as [E|Hin].
  - subst x. rewrite Hs. reflexivity.
  - destruct (Hok x (or_introl eq_refl)) as [r Hr]. rewrite Hr.
    rewrite IH; [apply orb_true_r| |exact Hin|exact Hs].
    intros a' Ha'. apply Hok. right. exact Ha'.
Qed.

Lemma chunk_slow_In : forall {A B} (f : A -> res B) slow (chunk : list A),
  chunk_slow f slow chunk = true -> exists a, In a chunk /\ slow a = true.
Proof.
  intros A B f slow chunk. induction chunk as [|x chunk IH]; intros H; [discriminate|].
  cbn [chunk_slow] in H. destruct (slow x) eqn:Hx.
  - exists x. split; [left; reflexivity|exact Hx].
  - cbn [orb] in H. destruct (f x) as [y|k]; [|discriminate]. destruct (IH H) as [a [Ha Hs]].
    exists a. split; [right; exact Ha|exact Hs].
Qed.

Lemma init_blocked : forall {A} (B : Type) (cs : list (list A)) (c : nat),
  (c < length cs)%nat -> blocked (Z.of_nat c) (init_state B cs).
Proof.
  intros A B cs c Hc. left. unfold active, init_state. cbn [pend runn nleft map]. rewrite app_nil_r. split.
  - apply zrange_In. lia.
  - unfold zlen. assert (Hl : forall n from, length (zrange from n) = n).
    { induction n as [|n IHn]; intros from; [reflexivity|]. cbn [zrange length]. rewrite IHn. reflexivity. }
    rewrite Hl. lia.
Qed.

Lemma mapM_Ok_all : forall {A B} (f : A -> res B) (l : list A) rs,
  mapM f l = Ok rs -> forall a, In a l -> exists r, f a = Ok r.
Proof.
  intros A B f l rs H a Ha. destruct (In_nth_error l a Ha) as [i Hi].
  destruct (mapM_Ok_nth f l rs H i a Hi) as [r [_ Hr]]. exists r. exact Hr.
Qed.

Lemma In_raises_mapM_Err : forall {A B} (f : A -> res B) (l : list A) a e,
  In a l -> f a = Err e -> exists e', mapM f l = Err e'.
Proof.
  intros A B f l a e Ha Hf. destruct (mapM f l) as [rs|e'] eqn:H; [|exists e'; reflexivity].
  destruct (mapM_Ok_all f l rs H a Ha) as [r Hr]. rewrite Hr in Hf. discriminate.
Qed.

(* the pool: a call exceeding the timeout, no call raising -> the timeout error (or no return at all),
   for every worker count >= 1 and every schedule that does not let a slow chunk report early *)
Lemma pool_map_timeout_surfaces : forall {A B} (f : A -> res B) slow procs t sched (args : list A) rs,
  1 <= procs -> respects_durations f slow procs (Some t) sched args = true ->
  existsb slow args = true -> sequential f args = Ok rs ->
  pool_map f procs (Some t) sched args = Err E_Runtime \/ pool_map f procs (Some t) sched args = Err E_Fuel.
Proof.
  intros A B f slow procs t sched args rs Hp Hr Hs Hseq. unfold pool_map.
  destruct (procs <? 1) eqn:Hlt; [lia|]. cbn zeta. cbn [respects_durations] in Hr.
  set (cs := make_chunks procs args) in *.
  apply existsb_exists in Hs. destruct Hs as [a [Ha Hsa]].
  assert (Hcat : concat cs = args) by (apply make_chunks_concat; exact Hp).
  rewrite <- Hcat in Ha. apply in_concat in Ha. destruct Ha as [chunk [Hch Hach]].
  destruct (In_nth cs chunk [] Hch) as [c [Hc Hnth]].
  apply (blocked_get f slow procs cs t (Z.of_nat c)); [| |exact Hr].
  - unfold slow_chunk. rewrite Nat2Z.id, Hnth.
    apply (chunk_slow_reached f slow chunk a); [|exact Hach|exact Hsa].
    intros a' Ha'. apply (mapM_Ok_all f args rs Hseq). rewrite <- Hcat. apply in_concat.
    exists chunk. split; [exact Hch|exact Ha'].
  - apply init_blocked. exact Hc.
Qed.

(* a call exceeding the timeout always gives an error - never a list - for every worker count *)
Lemma pool_map_timeout_is_error : forall {A B} (f : A -> res B) slow procs t sched (args : list A),
  respects_durations f slow procs (Some t) sched args = true -> existsb slow args = true ->
  exists e, pool_map f procs (Some t) sched args = Err e.
Proof.
  intros A B f slow procs t sched args Hr Hs.
  destruct (pool_map f procs (Some t) sched args) as [out|e] eqn:Hp; [|exists e; reflexivity].
  exfalso. pose proof (pool_map_sound f procs (Some t) sched args out Hp) as Hseq.
  assert (Hp1 : 1 <= procs).
  { unfold pool_map in Hp. destruct (procs <? 1) eqn:Hlt; [discriminate|lia]. }
  destruct (pool_map_timeout_surfaces f slow procs t sched args out Hp1 Hr Hs Hseq) as [H|H];
    rewrite H in Hp; discriminate.
Qed.

Lemma execute_timeout_surfaces : forall {A B} (f : A -> res B) slow cfg cpus t sched (cmds : list A),
  respects_durations f slow (effective_cpus cfg cpus) (Some t) sched cmds = true -> existsb slow cmds = true ->
  exists e, parallel_execute f cfg cpus (Some t) sched cmds = Err e.
Proof.
  intros A B f slow cfg cpus t sched cmds Hr Hs. unfold parallel_execute.
  exact (pool_map_timeout_is_error f slow _ t sched cmds Hr Hs).
Qed.

(* ... and it is the timeout error when no call raises *)
Lemma execute_timeout_kind : forall {A B} (f : A -> res B) slow cfg cpus t sched (cmds : list A) rs,
  1 <= effective_cpus cfg cpus ->
  respects_durations f slow (effective_cpus cfg cpus) (Some t) sched cmds = true -> existsb slow cmds = true ->
  sequential f cmds = Ok rs ->
  parallel_execute f cfg cpus (Some t) sched cmds = Err E_Runtime \/
  parallel_execute f cfg cpus (Some t) sched cmds = Err E_Fuel.
Proof.
  intros A B f slow cfg cpus t sched cmds rs Hc Hr Hs Hseq. unfold parallel_execute.
  exact (pool_map_timeout_surfaces f slow _ t sched cmds rs Hc Hr Hs Hseq).
Qed.

(* parallel_function: the same for EVERY worker count, one included (with a timeout the pool is always used) *)
Lemma function_timeout_surfaces : forall {A B} (f : A -> res B) slow cfg cpus t sched (args : list A),
  respects_durations f slow (effective_cpus cfg cpus) (Some t) sched args = true -> existsb slow args = true ->
  exists e, parallel_function f cfg cpus (Some t) sched args = Err e.
Proof.
  intros A B f slow cfg cpus t sched args Hr Hs. rewrite function_timeout_is_pool.
  exact (pool_map_timeout_is_error f slow _ t sched args Hr Hs).
Qed.

Lemma function_timeout_kind : forall {A B} (f : A -> res B) slow cfg cpus t sched (args : list A) rs,
  1 <= effective_cpus cfg cpus ->
  respects_durations f slow (effective_cpus cfg cpus) (Some t) sched args = true -> existsb slow args = true ->
  sequential f args = Ok rs ->
  parallel_function f cfg cpus (Some t) sched args = Err E_Runtime \/
  parallel_function f cfg cpus (Some t) sched args = Err E_Fuel.
Proof.
  intros A B f slow cfg cpus t sched args rs Hc Hr Hs Hseq. rewrite function_timeout_is_pool.
  exact (pool_map_timeout_surfaces f slow _ t sched args rs Hc Hr Hs Hseq).
Qed.

(* ---------- no call exceeds the timeout: under a timely schedule the timeout plays no role ---------- *)
Lemma step_ticks : forall {A B} (f : A -> res B) procs cs ev (st : pstate B),
  ev <> Tick -> ticks (step f procs cs ev st) = ticks st.
Proof.
  intros A B f procs cs ev st Hne. destruct ev as [w|w|w|]; cbn [step].
  - destruct ((0 <=? w) && (w <? procs)); [|reflexivity].
    destruct (lookup_w w (runn st)); [reflexivity|]. destruct (pend st); reflexivity.
  - destruct (lookup_w w (runn st)); [|reflexivity].
    match goal with |- ticks (set_result ?c ?r ?s) = _ =>
      destruct (set_result_queues c r s) as [_ [_ [_ F4]]]; rewrite F4 end. reflexivity.
  - destruct (lookup_w w (runn st)); reflexivity.
  - contradiction.
Qed.

Lemma pool_get_timeout_irrelevant : forall {A B} (f : A -> res B) slow procs cs t sched (st : pstate B),
  1 <= t -> ticks st = 0 -> (forall c, slow_chunk f slow cs c = false) ->
  no_idle_tick f slow procs cs t sched st = true ->
  pool_get f procs cs (Some t) sched st = pool_get f procs cs None sched st.
Proof.
  intros A B f slow procs cs t sched. induction sched as [|ev s IH]; intros st Ht H0 Hns Hn; cbn [pool_get].
  - rewrite H0. cbn [expired]. destruct (t <=? 0) eqn:E; [lia|]. reflexivity.
  - rewrite H0. cbn [expired]. destruct (t <=? 0) eqn:E; [lia|].
    destruct (nleft st =? 0) eqn:Hz; [reflexivity|].
    cbn [no_idle_tick] in Hn. unfold get_returned in Hn. rewrite Hz, H0, E in Hn. cbn [orb] in Hn.
    apply andb_prop in Hn. destruct Hn as [Hhead Htail].
    apply IH; [exact Ht| |exact Hns|exact Htail].
    destruct ev as [w|w|w|]; try (rewrite step_ticks; [exact H0|discriminate]).
    exfalso. apply existsb_exists in Hhead. destruct Hhead as [wc [_ Hwc]]. rewrite Hns in Hwc. discriminate.
Qed.

Lemma no_slow_chunks : forall {A B} (f : A -> res B) slow procs (args : list A),
  1 <= procs -> existsb slow args = false -> forall c, slow_chunk f slow (make_chunks procs args) c = false.
Proof.
  intros A B f slow procs args Hp Hs c. unfold slow_chunk.
  destruct (chunk_slow f slow (nth (Z.to_nat c) (make_chunks procs args) [])) eqn:E; [|reflexivity].
  exfalso. apply chunk_slow_In in E. destruct E as [a [Ha Hsa]].
  assert (Hin : In a args).
  { rewrite <- (make_chunks_concat procs args Hp). apply in_concat.
    exists (nth (Z.to_nat c) (make_chunks procs args) []). split; [|exact Ha].
    destruct (nth_in_or_default (Z.to_nat c) (make_chunks procs args) []) as [H|H]; [exact H|].
    rewrite H in Ha. destruct Ha. }
  assert (existsb slow args = true) by (apply existsb_exists; exists a; split; assumption).
  rewrite Hs in H. discriminate.
Qed.

Lemma pool_map_timeout_irrelevant : forall {A B} (f : A -> res B) slow procs t sched (args : list A),
  1 <= t -> existsb slow args = false -> timely f slow procs (Some t) sched args = true ->
  pool_map f procs (Some t) sched args = pool_map f procs None sched args.
Proof.
  intros A B f slow procs t sched args Ht Hs Htm. unfold pool_map.
  destruct (procs <? 1) eqn:Hlt; [reflexivity|]. cbn zeta. cbn [timely] in Htm.
  apply andb_prop in Htm. destruct Htm as [_ Hidle].
  apply (pool_get_timeout_irrelevant f slow); [exact Ht|reflexivity| |exact Hidle].
  apply no_slow_chunks; [lia|exact Hs].
Qed.

(* ---------- the pool equals the dispatcher's sequential specification, for every worker count ---------- *)
Lemma timely_respects : forall {A B} (f : A -> res B) slow procs timeout sched (args : list A),
  timely f slow procs timeout sched args = true -> respects_durations f slow procs timeout sched args = true.
Proof.
  intros A B f slow procs timeout sched args H. destruct timeout as [t|]; [|reflexivity].
  cbn [timely] in H. apply andb_prop in H. destruct H as [H _]. exact H.
Qed.

Lemma pool_map_no_timeout_outcome : forall {A B} (f : A -> res B) procs sched (args : list A),
  1 <= procs ->
  pool_map f procs None sched args = Err E_Fuel \/
  same_outcome (pool_map f procs None sched args) (sequential f args).
Proof.
  intros A B f procs sched args Hp.
  destruct (pool_map f procs None sched args) as [out|e] eqn:H.
  - right. unfold sequential. rewrite (pool_map_sound f procs None sched args out H). reflexivity.
  - apply pool_map_err_kind in H. destruct H as [[_ H]|[[_ H]|[H|[a [Ha Hf]]]]].
    + lia.
    + exfalso. apply H. reflexivity.
    + left. subst e. reflexivity.
    + right. unfold sequential. destruct (In_raises_mapM_Err f args a e Ha Hf) as [e' He']. rewrite He'. exact I.
Qed.

Lemma pool_map_equals_dispatch_spec : forall {A B} (f : A -> res B) slow procs timeout sched (args : list A),
  1 <= procs -> timeout_pos timeout = true -> timely f slow procs timeout sched args = true ->
  pool_map f procs timeout sched args = Err E_Fuel \/
  same_outcome (pool_map f procs timeout sched args) (dispatch_spec f slow timeout args).
Proof.
  intros A B f slow procs timeout sched args Hp Ht Htm. unfold dispatch_spec.
  destruct timeout as [t|]; cbn [any_exceeds].
  - destruct (existsb slow args) eqn:Hs.
    + right. destruct (pool_map_timeout_is_error f slow procs t sched args (timely_respects _ _ _ _ _ _ Htm) Hs) as [e He].
      rewrite He. exact I.
    + cbn [timeout_pos] in Ht. rewrite (pool_map_timeout_irrelevant f slow procs t sched args); [|lia|exact Hs|exact Htm].
      apply pool_map_no_timeout_outcome. exact Hp.
  - apply pool_map_no_timeout_outcome. exact Hp.
Qed.

Lemma execute_equals_dispatch_spec : forall {A B} (f : A -> res B) slow cfg cpus timeout sched (cmds : list A),
  1 <= effective_cpus cfg cpus -> timeout_pos timeout = true ->
  timely f slow (effective_cpus cfg cpus) timeout sched cmds = true ->
  parallel_execute f cfg cpus timeout sched cmds = Err E_Fuel \/
  same_outcome (parallel_execute f cfg cpus timeout sched cmds) (dispatch_spec f slow timeout cmds).
Proof.
  intros A B f slow cfg cpus timeout sched cmds Hc Ht Htm. unfold parallel_execute.
  exact (pool_map_equals_dispatch_spec f slow _ timeout sched cmds Hc Ht Htm).
Qed.

(* parallel_function: the same, no guard (the shortcut is only taken without a timeout, where dispatch_spec is the
   sequential run itself) *)
Lemma function_equals_dispatch_spec : forall {A B} (f : A -> res B) slow cfg cpus timeout sched (args : list A),
  1 <= effective_cpus cfg cpus -> timeout_pos timeout = true ->
  timely f slow (effective_cpus cfg cpus) timeout sched args = true ->
  parallel_function f cfg cpus timeout sched args = Err E_Fuel \/
  same_outcome (parallel_function f cfg cpus timeout sched args) (dispatch_spec f slow timeout args).
Proof.
  intros A B f slow cfg cpus timeout sched args Hc Ht Htm. unfold parallel_function.
  destruct ((effective_cpus cfg cpus =? 1) && no_timeout timeout) eqn:E.
  - destruct timeout as [t|]; [cbn [no_timeout] in E; rewrite andb_false_r in E; discriminate|].
    right. unfold dispatch_spec. cbn [any_exceeds]. unfold sequential.
    destruct (mapM f args); [reflexivity|exact I].
  - exact (pool_map_equals_dispatch_spec f slow _ timeout sched args Hc Ht Htm).
Qed.

(* the outcome is the same for every two worker counts (up to which exception surfaces) *)
Lemma same_outcome_trans_sym : forall {X} (a b c : res X), same_outcome a c -> same_outcome b c -> same_outcome a b.
Proof.
  intros X [x|e] [y|e'] [z|e'']; cbn; intros H1 H2; try contradiction; try exact I. congruence.
Qed.

Lemma execute_workers_irrelevant : forall {A B} (f : A -> res B) slow cfg1 cpus1 cfg2 cpus2 timeout sched1 sched2 (cmds : list A),
  1 <= effective_cpus cfg1 cpus1 -> 1 <= effective_cpus cfg2 cpus2 -> timeout_pos timeout = true ->
  timely f slow (effective_cpus cfg1 cpus1) timeout sched1 cmds = true ->
  timely f slow (effective_cpus cfg2 cpus2) timeout sched2 cmds = true ->
  parallel_execute f cfg1 cpus1 timeout sched1 cmds <> Err E_Fuel ->
  parallel_execute f cfg2 cpus2 timeout sched2 cmds <> Err E_Fuel ->
  same_outcome (parallel_execute f cfg1 cpus1 timeout sched1 cmds) (parallel_execute f cfg2 cpus2 timeout sched2 cmds).
Proof.
  intros A B f slow cfg1 cpus1 cfg2 cpus2 timeout sched1 sched2 cmds H1 H2 Ht T1 T2 N1 N2.
  destruct (execute_equals_dispatch_spec f slow cfg1 cpus1 timeout sched1 cmds H1 Ht T1) as [F|S1]; [contradiction|].
  destruct (execute_equals_dispatch_spec f slow cfg2 cpus2 timeout sched2 cmds H2 Ht T2) as [F|S2]; [contradiction|].
  exact (same_outcome_trans_sym _ _ _ S1 S2).
Qed.

Lemma function_workers_irrelevant : forall {A B} (f : A -> res B) slow cfg1 cpus1 cfg2 cpus2 timeout sched1 sched2 (args : list A),
  1 <= effective_cpus cfg1 cpus1 -> 1 <= effective_cpus cfg2 cpus2 -> timeout_pos timeout = true ->
  timely f slow (effective_cpus cfg1 cpus1) timeout sched1 args = true ->
  timely f slow (effective_cpus cfg2 cpus2) timeout sched2 args = true ->
  parallel_function f cfg1 cpus1 timeout sched1 args <> Err E_Fuel ->
  parallel_function f cfg2 cpus2 timeout sched2 args <> Err E_Fuel ->
  same_outcome (parallel_function f cfg1 cpus1 timeout sched1 args) (parallel_function f cfg2 cpus2 timeout sched2 args).
Proof.
  intros A B f slow cfg1 cpus1 cfg2 cpus2 timeout sched1 sched2 args H1 H2 Ht T1 T2 N1 N2.
  destruct (function_equals_dispatch_spec f slow cfg1 cpus1 timeout sched1 args H1 Ht T1) as [F|S1]; [contradiction|].
  destruct (function_equals_dispatch_spec f slow cfg2 cpus2 timeout sched2 args H2 Ht T2) as [F|S2]; [contradiction|].
  exact (same_outcome_trans_sym _ _ _ S1 S2).
Qed.

(* a schedule without ticks is timely for a batch without slow calls; the completing schedule of every worker
   count is one: with a timeout of at least one tick the batch still comes back *)
Lemma tickless_no_idle : forall {A B} (f : A -> res B) slow procs cs t sched (st : pstate B),
  (forall ev, In ev sched -> ev <> Tick) -> no_idle_tick f slow procs cs t sched st = true.
Proof.
  intros A B f slow procs cs t sched. induction sched as [|ev s IH]; intros st H; [reflexivity|].
  cbn [no_idle_tick]. destruct (get_returned t st); [reflexivity|]. rewrite IH; [|intros e He; apply H; right; exact He].
  destruct ev; try reflexivity. exfalso. exact (H Tick (or_introl eq_refl) eq_refl).
Qed.

Lemma no_slow_no_early : forall {A B} (f : A -> res B) slow procs cs t sched (st : pstate B),
  (forall c, slow_chunk f slow cs c = false) -> no_early_finish f slow procs cs t sched st = true.
Proof.
  intros A B f slow procs cs t sched. induction sched as [|ev s IH]; intros st H; [reflexivity|].
  cbn [no_early_finish]. destruct (get_returned t st); [reflexivity|]. rewrite IH; [|exact H].
  destruct ev as [w|w|w|]; try reflexivity. destruct (lookup_w w (runn st)); [|reflexivity]. rewrite H. reflexivity.
Qed.

Lemma rounds_tickless : forall j ev, In ev (rounds j) -> ev <> Tick.
Proof.
  induction j as [|j IH]; intros ev H; [destruct H|].
  cbn [rounds] in H. destruct H as [E|[E|H]]; [subst ev; discriminate|subst ev; discriminate|exact (IH ev H)].
Qed.

Lemma timely_completing_schedule_exists : forall {A B} (f : A -> res B) slow cfg cpus t (cmds : list A) rs,
  1 <= effective_cpus cfg cpus -> 1 <= t -> existsb slow cmds = false -> sequential f cmds = Ok rs ->
  exists sched, timely f slow (effective_cpus cfg cpus) (Some t) sched cmds = true /\
                parallel_execute f cfg cpus (Some t) sched cmds = Ok rs.
Proof.
  intros A B f slow cfg cpus t cmds rs Hc Ht Hs Hseq.
  set (procs := effective_cpus cfg cpus) in *.
  exists (sequential_schedule procs cmds).
  assert (Htm : timely f slow procs (Some t) (sequential_schedule procs cmds) cmds = true).
  { cbn [timely]. apply andb_true_intro. split.
    - apply no_slow_no_early. apply no_slow_chunks; [exact Hc|exact Hs].
    - apply tickless_no_idle. unfold sequential_schedule. apply rounds_tickless. }
  split; [exact Htm|]. unfold parallel_execute. fold procs.
  rewrite (pool_map_timeout_irrelevant f slow procs t _ cmds Ht Hs Htm).
  apply pool_map_completing_schedule; [exact Hc|exact Hseq].
Qed.

(* ---------- the run-time specification with duration classes ---------- *)
Lemma raiser_seq_err : forall (jobs : list (bool * res Z)) e,
  existsb (raises_kind e) jobs = true -> exists e', sequential snd jobs = Err e'.
Proof.
  intros jobs e H. apply existsb_exists in H. destruct H as [j [Hj Hr]]. unfold raises_kind in Hr.
  destruct (snd j) as [v|k] eqn:Hs; [discriminate|].
  unfold sequential. exact (In_raises_mapM_Err snd jobs j k Hj Hs).
Qed.

Lemma tspec_ok_sound : forall cfg cpus timeout (jobs : list (bool * res Z)) out,
  1 <= effective_cpus cfg cpus -> tspec_ok cfg cpus timeout jobs out = true ->
  same_outcome out (dispatch_spec snd fst timeout jobs).
Proof.
  intros cfg cpus timeout jobs out Hc H. unfold tspec_ok in H.
  destruct (effective_cpus cfg cpus <? 1) eqn:Hlt; [lia|].
  destruct out as [vs|e].
  - destruct (dispatch_spec snd fst timeout jobs) as [ws|e]; [|discriminate].
    cbn. exact (list_eqb_eq vs ws H).
  - unfold dispatch_spec. apply orb_true_iff in H. destruct H as [H|H].
    + apply andb_prop in H. destruct H as [H _]. rewrite H. exact I.
    + destruct (any_exceeds fst timeout jobs); [exact I|].
      destruct (raiser_seq_err jobs e H) as [e' He']. rewrite He'. exact I.
Qed.

Lemma tspec_ok_list_sound : forall cfg cpus timeout (jobs : list (bool * res Z)) vs,
  tspec_ok cfg cpus timeout jobs (Ok vs) = true ->
  any_exceeds fst timeout jobs = false /\ sequential snd jobs = Ok vs.
Proof.
  intros cfg cpus timeout jobs vs H. unfold tspec_ok in H.
  destruct (effective_cpus cfg cpus <? 1); [discriminate|]. unfold dispatch_spec in H.
  destruct (any_exceeds fst timeout jobs); [discriminate|]. split; [reflexivity|].
  destruct (sequential snd jobs) as [ws|e]; [|discriminate]. rewrite (list_eqb_eq vs ws H). reflexivity.
Qed.

Lemma raiser_exists : forall (jobs : list (bool * res Z)) a e,
  In a jobs -> snd a = Err e -> existsb (raises_kind e) jobs = true.
Proof.
  intros jobs a e Ha Hs. apply existsb_exists. exists a. split; [exact Ha|].
  unfold raises_kind. rewrite Hs. apply Z.eqb_refl.
Qed.

Lemma pool_map_meets_tspec : forall cfg cpus timeout sched (jobs : list (bool * res Z)),
  timeout_pos timeout = true ->
  timely snd fst (effective_cpus cfg cpus) timeout sched jobs = true ->
  pool_map snd (effective_cpus cfg cpus) timeout sched jobs <> Err E_Fuel ->
  tspec_ok cfg cpus timeout jobs (pool_map snd (effective_cpus cfg cpus) timeout sched jobs) = true.
Proof.
  intros cfg cpus timeout sched jobs Ht Htm Hnf. unfold tspec_ok.
  set (procs := effective_cpus cfg cpus) in *.
  destruct (procs <? 1) eqn:Hlt.
  - unfold pool_map. rewrite Hlt. reflexivity.
  - destruct (pool_map snd procs timeout sched jobs) as [vs|e] eqn:Hp.
    + pose proof (pool_map_sound snd procs timeout sched jobs vs Hp) as Hseq.
      unfold dispatch_spec. destruct (any_exceeds fst timeout jobs) eqn:Hex.
      * exfalso. destruct timeout as [t|]; [|discriminate]. cbn [any_exceeds] in Hex.
        destruct (pool_map_timeout_is_error snd fst procs t sched jobs (timely_respects _ _ _ _ _ _ Htm) Hex) as [e He].
        rewrite He in Hp. discriminate.
      * unfold sequential. rewrite Hseq. apply list_eqb_refl.
    + destruct (any_exceeds fst timeout jobs) eqn:Hex.
      * pose proof Hp as Hk. apply pool_map_err_kind in Hk. destruct Hk as [[_ H]|[[H _]|[H|[a [Ha Hf]]]]].
        -- lia.
        -- subst e. reflexivity.
        -- subst e. contradiction.
        -- rewrite (raiser_exists jobs a e Ha Hf). apply orb_true_r.
      * cbn [andb orb].
        assert (Hn : pool_map snd procs None sched jobs = Err e).
        { destruct timeout as [t|]; [|exact Hp]. cbn [any_exceeds] in Hex. cbn [timeout_pos] in Ht.
          rewrite <- (pool_map_timeout_irrelevant snd fst procs t sched jobs); [exact Hp|lia|exact Hex|exact Htm]. }
        apply pool_map_err_kind in Hn. destruct Hn as [[_ H]|[[_ H]|[H|[a [Ha Hf]]]]].
        -- lia.
        -- exfalso. apply H. reflexivity.
        -- subst e. contradiction.
        -- exact (raiser_exists jobs a e Ha Hf).
Qed.

Lemma execute_meets_tspec : forall cfg cpus timeout sched (jobs : list (bool * res Z)),
  timeout_pos timeout = true ->
  timely snd fst (effective_cpus cfg cpus) timeout sched jobs = true ->
  parallel_execute snd cfg cpus timeout sched jobs <> Err E_Fuel ->
  tspec_ok cfg cpus timeout jobs (parallel_execute snd cfg cpus timeout sched jobs) = true.
Proof. intros cfg cpus timeout sched jobs. unfold parallel_execute. apply pool_map_meets_tspec. Qed.

Lemma function_meets_tspec : forall cfg cpus timeout sched (jobs : list (bool * res Z)),
  timeout_pos timeout = true ->
  timely snd fst (effective_cpus cfg cpus) timeout sched jobs = true ->
  parallel_function snd cfg cpus timeout sched jobs <> Err E_Fuel ->
  tspec_ok cfg cpus timeout jobs (parallel_function snd cfg cpus timeout sched jobs) = true.
Proof.
  intros cfg cpus timeout sched jobs Ht Htm. unfold parallel_function.
  destruct ((effective_cpus cfg cpus =? 1) && no_timeout timeout) eqn:E; [|apply pool_map_meets_tspec; assumption].
  intros _. destruct timeout as [t|]; [cbn [no_timeout] in E; rewrite andb_false_r in E; discriminate|].
  cbn [no_timeout] in E. rewrite andb_true_r in E.
  unfold tspec_ok. destruct (effective_cpus cfg cpus <? 1) eqn:Hlt; [lia|].
  unfold dispatch_spec, sequential. cbn [any_exceeds]. destruct (mapM snd jobs) as [vs|e] eqn:Hm.
  - apply list_eqb_refl.
  - cbn [andb orb]. apply mapM_Err_In in Hm. destruct Hm as [a [Ha Hf]]. exact (raiser_exists jobs a e Ha Hf).
Qed.

(* the new specification is at least as strict as the earlier one (spec_ok, which knows no durations) *)
Lemma mapM_map_id : forall (jobs : list (bool * res Z)),
  mapM (fun t : res Z => t) (map snd jobs) = mapM snd jobs.
Proof.
  induction jobs as [|j jobs IH]; [reflexivity|]. cbn [map mapM]. rewrite IH. reflexivity.
Qed.

Lemma tspec_refines_spec : forall cfg cpus timeout (jobs : list (bool * res Z)) out,
  tspec_ok cfg cpus timeout jobs out = true -> spec_ok cfg cpus timeout (map snd jobs) out = true.
Proof.
  intros cfg cpus timeout jobs out H. unfold spec_ok, sequential. rewrite mapM_map_id.
  unfold tspec_ok in H. destruct (effective_cpus cfg cpus <? 1) eqn:Hlt.
  - destruct out as [vs|e]; [discriminate|]. destruct (mapM snd jobs); [|reflexivity]. apply orb_true_r.
  - destruct out as [vs|e].
    + unfold dispatch_spec, sequential in H. destruct (any_exceeds fst timeout jobs); [discriminate|].
      destruct (mapM snd jobs); [exact H|discriminate].
    + destruct (mapM snd jobs) as [rs|e'] eqn:Hm; [|reflexivity].
      apply orb_true_iff in H. destruct H as [H|H].
      * apply andb_prop in H. destruct H as [Hex He]. destruct timeout; [|discriminate]. rewrite He. reflexivity.
      * destruct (raiser_seq_err jobs e H) as [e'' He'']. unfold sequential in He''. rewrite Hm in He''. discriminate.
Qed.

(* ================================================================================================
   pre_process_sequences, the identifier block: the identifiers are decided in the parent
   ================================================================================================ *)
From ASV.C16 Require Proofs.
From Coq Require String Ascii.


Definition pfn_t := (nrec -> res nrec) -> list nrec -> res (list nrec).
Definition pfn_sound (pf : pfn_t) : Prop := forall f l out, pf f l = Ok out -> sequential f l = Ok out.
Definition pfn_live (pf : pfn_t) : Prop :=
  forall f l rs, sequential f l = Ok rs -> pf f l = Ok rs \/ pf f l = Err E_Fuel.

Lemma pfn_sound_parallel : forall cfg sched, pfn_sound (fun f => parallel_function f cfg 0 None sched).
Proof. intros cfg sched f l out H. exact (order_sound f cfg 0 None sched l out H). Qed.

Lemma pfn_live_parallel : forall cfg sched, 1 <= cfg -> pfn_live (fun f => parallel_function f cfg 0 None sched).
Proof.
  intros cfg sched Hc f l rs Hs.
  assert (Hc' : 1 <= effective_cpus cfg 0) by (unfold effective_cpus; simpl; exact Hc).
  destruct (no_spurious_outcome f cfg 0 None sched l rs Hc' Hs) as [H|[[_ H]|H]].
  - left. exact H.
  - exfalso. apply H. reflexivity.
  - right. exact H.
Qed.

Lemma mapM_single : forall {A B} (f : A -> res B) (a : A), mapM f [a] = (do b <- f a; Ok [b]).
Proof. intros A B f a. cbn [mapM]. destruct (f a); reflexivity. Qed.

(* the block through any sound helper is the block with the calls made one after another *)
Lemma ids_stage1_sound : forall pf cn allow s0 s1, pfn_sound pf ->
  ids_stage1 pf cn allow s0 = Ok s1 -> ids_stage1 sequential cn allow s0 = Ok s1.
Proof.
  intros pf cn allow s0 s1 Hpf H. unfold ids_stage1 in *.
  destruct (C16.Model.dedup_pass (map fst s0)) as [[uniq set]|k]; [|discriminate]. cbn [bind] in *.
  destruct (C16.Model.fix_all cn allow uniq set) as [fixed|k]; [|discriminate]. cbn [bind] in *.
  destruct (combine fixed (map snd s0)) as [|r [|r2 t]]; [exact (Hpf _ _ _ H)|exact H|exact (Hpf _ _ _ H)].
Qed.

Lemma ids_stage1_live : forall pf cn allow s0 s1, pfn_live pf ->
  ids_stage1 sequential cn allow s0 = Ok s1 ->
  ids_stage1 pf cn allow s0 = Ok s1 \/ ids_stage1 pf cn allow s0 = Err E_Fuel.
Proof.
  intros pf cn allow s0 s1 Hpf H. unfold ids_stage1 in *.
  destruct (C16.Model.dedup_pass (map fst s0)) as [[uniq set]|k]; [|discriminate]. cbn [bind] in *.
  destruct (C16.Model.fix_all cn allow uniq set) as [fixed|k]; [|discriminate]. cbn [bind] in *.
  destruct (combine fixed (map snd s0)) as [|r [|r2 t]]; [exact (Hpf _ _ _ H)|left; exact H|exact (Hpf _ _ _ H)].
Qed.

Lemma ids_stage1_ext : forall pf pf' cn allow s0, (forall f l, pf f l = pf' f l) ->
  ids_stage1 pf cn allow s0 = ids_stage1 pf' cn allow s0.
Proof.
  intros pf pf' cn allow s0 E. unfold ids_stage1.
  destruct (C16.Model.dedup_pass (map fst s0)) as [[uniq set]|k]; [|reflexivity]. cbn [bind].
  destruct (C16.Model.fix_all cn allow uniq set) as [fixed|k]; [|reflexivity]. cbn [bind].
  destruct (combine fixed (map snd s0)) as [|r [|r2 t]]; [apply E|reflexivity|apply E].
Qed.

Lemma pp_ids_workers_irrelevant : forall cn allow cfg sched recs out,
  pp_ids cn allow cfg sched recs = Ok out -> pp_ids_inproc cn allow recs = Ok out.
Proof.
  intros cn allow cfg sched recs out H. unfold pp_ids, pp_ids_inproc, pp_ids_gen in *.
  destruct (no_empty_seq recs); [|discriminate].
  destruct (ids_stage1 _ cn allow (set_nindices 1 recs)) as [s1|k] eqn:E in H; [|discriminate].
  rewrite (ids_stage1_sound _ cn allow _ s1 (pfn_sound_parallel cfg sched) E). exact H.
Qed.

Lemma pp_ids_failure_surfaces : forall cn allow cfg sched recs e0,
  pp_ids_inproc cn allow recs = Err e0 -> exists e, pp_ids cn allow cfg sched recs = Err e.
Proof.
  intros cn allow cfg sched recs e0 Hs.
  destruct (pp_ids cn allow cfg sched recs) as [out|e] eqn:Hp.
  - apply pp_ids_workers_irrelevant in Hp. rewrite Hp in Hs. discriminate.
  - exists e. reflexivity.
Qed.

Lemma pp_ids_cpus1 : forall cn allow sched recs, pp_ids cn allow 1 sched recs = pp_ids_inproc cn allow recs.
Proof.
  intros cn allow sched recs. unfold pp_ids, pp_ids_inproc, pp_ids_gen.
  destruct (no_empty_seq recs); [|reflexivity].
  rewrite (ids_stage1_ext _ sequential cn allow _); [reflexivity|].
  intros f l. apply cpus1_is_map. reflexivity.
Qed.

Lemma pp_ids_no_spurious_outcome : forall cn allow cfg sched recs out,
  1 <= cfg -> pp_ids_inproc cn allow recs = Ok out ->
  pp_ids cn allow cfg sched recs = Ok out \/ pp_ids cn allow cfg sched recs = Err E_Fuel.
Proof.
  intros cn allow cfg sched recs out Hc H. unfold pp_ids, pp_ids_inproc, pp_ids_gen in *.
  destruct (no_empty_seq recs); [|discriminate].
  destruct (ids_stage1 sequential cn allow (set_nindices 1 recs)) as [s1|k] eqn:E; [|discriminate].
  destruct (ids_stage1_live _ cn allow _ s1 (pfn_live_parallel cfg sched Hc) E) as [E'|E']; rewrite E'; cbn [bind] in *.
  - left. exact H.
  - right. reflexivity.
Qed.

(* ---------- the identifiers that come back are the ones the parent computed ---------- *)
Lemma clean_record_ident : forall r r', clean_record r = Ok r' -> fst r' = fst r.
Proof.
  intros r r' H. unfold clean_record in H. destruct (sanitise_sequence (snd r)) as [b|k]; [|discriminate].
  cbn [bind] in H. inversion H. reflexivity.
Qed.

Lemma map_fst_combine : forall {X Y} (a : list X) (b : list Y), length a = length b -> map fst (combine a b) = a.
Proof.
  intros X Y a. induction a as [|x a IH]; intros [|y b] L; try reflexivity; try discriminate.
  cbn [combine map fst]. f_equal. apply IH. cbn [length] in L. congruence.
Qed.

Lemma named_check_Ok : forall s out, named_check s = Ok out -> out = s.
Proof. intros s out H. unfold named_check in H. match type of H with (if ?c then _ else _) = _ => destruct c end; [|discriminate]. inversion H. reflexivity. Qed.

Lemma ids_stage1_idents : forall pf cn allow s0 out, pfn_sound pf ->
  ids_stage1 pf cn allow s0 = Ok out ->
  exists uniq set, C16.Model.dedup_pass (map fst s0) = Ok (uniq, set) /\ C16.Model.fix_all cn allow uniq set = Ok (map fst out).
Proof.
  intros pf cn allow s0 out Hpf H. apply (ids_stage1_sound pf cn allow s0 out Hpf) in H. unfold ids_stage1 in H.
  destruct (C16.Model.dedup_pass (map fst s0)) as [[uniq set]|k] eqn:D; [|discriminate]. cbn [bind] in H.
  destruct (C16.Model.fix_all cn allow uniq set) as [fixed|k] eqn:F; [|discriminate]. cbn [bind] in H.
  exists uniq, set. split; [reflexivity|].
  assert (L : length fixed = length (map snd s0)).
  { rewrite (C16.Proofs.fix_all_length _ _ _ _ _ F). rewrite <- (C16.Proofs.Forall2_len _ _ _ _ _ (C16.Proofs.dedup_pass_rel _ _ _ D)).
    now rewrite !map_length. }
  assert (M : mapM clean_record (combine fixed (map snd s0)) = Ok out).
  { destruct (combine fixed (map snd s0)) as [|r [|r2 t]]; [exact H| rewrite mapM_single; exact H | exact H]. }
  rewrite F. f_equal. symmetry. etransitivity; [exact (mapM_proj clean_record fst fst clean_record_ident _ _ M)|exact (map_fst_combine _ _ L)].
Qed.

Lemma pp_ids_decided_in_parent : forall cn allow cfg sched recs out,
  pp_ids cn allow cfg sched recs = Ok out ->
  exists uniq set, C16.Model.dedup_pass (map fst (set_nindices 1 recs)) = Ok (uniq, set) /\
                   C16.Model.fix_all cn allow uniq set = Ok (map fst out).
Proof.
  intros cn allow cfg sched recs out H. unfold pp_ids, pp_ids_gen in H.
  destruct (no_empty_seq recs); [|discriminate].
  destruct (ids_stage1 _ cn allow (set_nindices 1 recs)) as [s1|k] eqn:E in H; [|discriminate]. cbn [bind] in H.
  apply named_check_Ok in H. subst out.
  exact (ids_stage1_idents _ cn allow _ s1 (pfn_sound_parallel cfg sched) E).
Qed.

Lemma pp_ids_unique : forall cn allow cfg sched recs out,
  pp_ids cn allow cfg sched recs = Ok out -> NoDup (nids out).
Proof.
  intros cn allow cfg sched recs out H. destruct (pp_ids_decided_in_parent _ _ _ _ _ _ H) as [uniq [set [D F]]].
  apply C16.Proofs.dedup_pass_spec in D. destruct D as [D1 D2].
  pose proof (C16.Proofs.fix_all_unique cn allow uniq set [] (map fst out) F D1 D2) as U. cbn [app] in U.
  unfold C16.Proofs.ids in U. rewrite map_map in U. exact U.
Qed.

(* ---------- the variant with the bookkeeping per call ---------- *)
Lemma sanitise_sequence_Ok : forall b, exists b', sanitise_sequence b = Ok b'.
Proof. intro b. unfold sanitise_sequence. destruct (sanitise_chars (r_seq b)) as [s real]. eexists. reflexivity. Qed.

(* one shared set object = the loop in the parent followed by the batch (bodies and identifiers of equal number) *)
Lemma shared_is_parent : forall cn allow uniq bodies set, length uniq = length bodies ->
  clean_records_shared cn allow (combine uniq bodies) set =
  (do fixed <- C16.Model.fix_all cn allow uniq set; mapM clean_record (combine fixed bodies)).
Proof.
  intros cn allow. induction uniq as [|u uniq IH]; intros [|b bodies] set L; try discriminate; [reflexivity|].
  cbn [combine clean_records_shared C16.Model.fix_all fst snd].
  destruct (C16.Model.fix_record_name_id cn allow u set) as [[i set']|k]; [|reflexivity]. cbn [bind].
  cbn [length] in L. rewrite (IH bodies set' ltac:(congruence)).
  destruct (sanitise_sequence_Ok b) as [b' Eb]. rewrite Eb. cbn [bind].
  assert (C : clean_record (i, b) = Ok (i, b')) by (unfold clean_record; cbn [fst snd]; rewrite Eb; reflexivity).
  destruct (C16.Model.fix_all cn allow uniq set') as [fixed|k]; cbn [bind combine mapM]; [|reflexivity].
  rewrite C. cbn [bind]. reflexivity.
Qed.

Lemma per_call_cpus1_is_parent : forall cn allow sched recs,
  pp_ids_per_call cn allow 1 sched recs = pp_ids_inproc cn allow recs.
Proof.
  intros cn allow sched recs. unfold pp_ids_per_call, pp_ids_inproc, pp_ids_gen.
  destruct (no_empty_seq recs); [|reflexivity]. f_equal.
  unfold ids_stage1_per_call, ids_stage1. generalize (set_nindices 1 recs). intro s0.
  destruct (C16.Model.dedup_pass (map fst s0)) as [[uniq set]|k] eqn:D; [|reflexivity]. cbn [bind].
  assert (L : length uniq = length (map snd s0)).
  { rewrite <- (C16.Proofs.Forall2_len _ _ _ _ _ (C16.Proofs.dedup_pass_rel _ _ _ D)). now rewrite !map_length. }
  assert (X : clean_records_shared cn allow (combine uniq (map snd s0)) set =
              (do fixed <- C16.Model.fix_all cn allow uniq set; mapM clean_record (combine fixed (map snd s0))))
    by (apply shared_is_parent; exact L).
  assert (Y : (match combine uniq (map snd s0) with
               | [r] => clean_records_shared cn allow (combine uniq (map snd s0)) set
               | _ => if effective_cpus 1 0 =? 1 then clean_records_shared cn allow (combine uniq (map snd s0)) set
                      else pool_map (clean_record_own_copy cn allow set) 1 None sched (combine uniq (map snd s0))
               end) = clean_records_shared cn allow (combine uniq (map snd s0)) set).
  { destruct (combine uniq (map snd s0)) as [|r [|r2 t]]; reflexivity. }
  rewrite Y, X. destruct (C16.Model.fix_all cn allow uniq set) as [fixed|k]; [|reflexivity]. cbn [bind].
  destruct (combine fixed (map snd s0)) as [|r [|r2 t]]; [reflexivity|rewrite mapM_single; reflexivity|reflexivity].
Qed.

(* the witness: two records whose ids differ only in characters that are illegal in file names *)
Fixpoint codes (s : String.string) : list Z :=
  match s with String.EmptyString => [] | String.String a r => Z.of_N (Ascii.N_of_ascii a) :: codes r end.
Section Witness.
Import String.
Definition wrec (id : String.string) : nrec := (C16.Model.mkRec (codes id) (codes "name"%string) None 0, mkR 0 0 (codes "ACGTACGT"%string) 0 1 0).
Definition witness_chars : list nrec := [wrec "scaf7|len1200"%string; wrec "scaf7:len1200"%string].
Definition witness_versions : list nrec :=
  [wrec "short_one"%string; wrec "NZ_AMZN01000079.1"%string; wrec "sample_contig12.assemblyA"%string; wrec "NZ_AMZN01000079.2"%string;
   wrec "sample_contig12.assemblyB"%string].
Definition id_stripped : list Z := codes "scaf7len1200"%string.
Definition id_stripped_0 : list Z := codes "scaf7len1200_0"%string.
Definition ids_versions_inproc : list (list Z) :=
  [codes "short_one"%string; codes "NZ_AMZN01000079"%string; codes "c00012_sample_.."%string; codes "c00004_NZ_AMZN.."%string;
   codes "sample_conti_0"%string].
Definition ids_versions_copies : list (list Z) :=
  [codes "short_one"%string; codes "NZ_AMZN01000079"%string; codes "c00012_sample_.."%string; codes "NZ_AMZN01000079"%string;
   codes "c00012_sample_.."%string].
End Witness.
(* every chunk is started, then every chunk reports *)
Definition sched_all (n : Z) : list event :=
  map Start (zrange 0 (Z.to_nat n)) ++ map Finish (zrange 0 (Z.to_nat n)).

Lemma per_call_copy_witness :
  exists out1 out2,
    pp_ids_per_call C16.Model.contig_no true 1 [] witness_chars = Ok out1 /\
    pp_ids_per_call C16.Model.contig_no true 2 (sched_all 2) witness_chars = Ok out2 /\
    nids out1 = [id_stripped; id_stripped_0] /\
    nids out2 = [id_stripped; id_stripped] /\
    pp_ids C16.Model.contig_no true 2 (sched_all 2) witness_chars = Ok out1.
Proof. eexists. eexists. repeat (match goal with |- _ /\ _ => split end); vm_compute; reflexivity. Qed.

Lemma per_call_copy_refuted :
  exists allow cfg sched recs out1 out2,
    pp_ids_per_call C16.Model.contig_no allow 1 [] recs = Ok out1 /\
    pp_ids_per_call C16.Model.contig_no allow cfg sched recs = Ok out2 /\
    nids out1 <> nids out2 /\ ~ NoDup (nids out2) /\
    pp_ids C16.Model.contig_no allow cfg sched recs = Ok out1.
Proof.
  destruct per_call_copy_witness as [out1 [out2 [H1 [H2 [I1 [I2 H3]]]]]].
  exists true, 2, (sched_all 2), witness_chars, out1, out2. repeat split; try assumption.
  - rewrite I1, I2. vm_compute. intro H. inversion H.
  - rewrite I2. intro N. inversion N as [|x l Hn _]. apply Hn. left. reflexivity.
Qed.

(* ---------- the decidable specification of the identifier block ---------- *)
Lemma str_eqb_refl : forall s, C16.Model.str_eqb s s = true.
Proof. intro s. apply C16.Proofs.str_eqb_eq. reflexivity. Qed.

Lemma ident_eqb_eq : forall a b, ident_eqb a b = true -> a = b.
Proof.
  intros [i n o x] [i' n' o' x'] H. unfold ident_eqb in H. cbn in H.
  apply andb_true_iff in H. destruct H as [H Hx]. apply andb_true_iff in H. destruct H as [H Ho].
  apply andb_true_iff in H. destruct H as [Hi Hn].
  apply C16.Proofs.str_eqb_eq in Hi. apply C16.Proofs.str_eqb_eq in Hn. apply Z.eqb_eq in Hx. subst.
  f_equal. destruct o as [o|], o' as [o'|]; cbn in Ho; try discriminate; [|reflexivity].
  apply C16.Proofs.str_eqb_eq in Ho. now subst.
Qed.

Lemma ident_eqb_refl : forall a, ident_eqb a a = true.
Proof.
  intros [i n o x]. unfold ident_eqb. cbn. rewrite !str_eqb_refl, Z.eqb_refl.
  destruct o as [o|]; cbn; [rewrite str_eqb_refl|]; reflexivity.
Qed.

Lemma nrec_eqb_eq : forall a b, nrec_eqb a b = true -> a = b.
Proof.
  intros [a1 a2] [b1 b2] H. unfold nrec_eqb in H. cbn [fst snd] in H. apply andb_true_iff in H. destruct H as [H1 H2].
  apply ident_eqb_eq in H1. apply prec_eqb_eq in H2. now subst.
Qed.

Lemma nrec_eqb_refl : forall a, nrec_eqb a a = true.
Proof. intros [a1 a2]. unfold nrec_eqb. cbn [fst snd]. now rewrite ident_eqb_refl, prec_eqb_refl. Qed.

Lemma ids_spec_ok_sound : forall cn allow recs l,
  ids_spec_ok cn allow recs (Ok l) = true -> pp_ids_inproc cn allow recs = Ok l /\ NoDup (nids l).
Proof.
  intros cn allow recs l H. unfold ids_spec_ok in H.
  destruct (pp_ids_inproc cn allow recs) as [l'|k]; [|discriminate].
  apply andb_true_iff in H. destruct H as [H1 H2].
  apply (list_eqb_gen_eq nrec_eqb nrec_eqb_eq) in H1. apply C16.Proofs.distinct_NoDup in H2. subst. split; [reflexivity|exact H2].
Qed.

Lemma ids_model_meets_spec : forall cn allow cfg sched recs,
  pp_ids cn allow cfg sched recs <> Err E_Fuel \/ pp_ids_inproc cn allow recs = Err E_Fuel ->
  1 <= cfg ->
  ids_spec_ok cn allow recs (pp_ids cn allow cfg sched recs) = true.
Proof.
  intros cn allow cfg sched recs Hf Hc. unfold ids_spec_ok.
  destruct (pp_ids cn allow cfg sched recs) as [l|k] eqn:E.
  - pose proof (pp_ids_unique _ _ _ _ _ _ E) as U. rewrite (pp_ids_workers_irrelevant _ _ _ _ _ _ E).
    apply andb_true_iff. split; [apply (list_eqb_gen_refl nrec_eqb nrec_eqb_refl)|apply C16.Proofs.distinct_NoDup; exact U].
  - destruct (pp_ids_inproc cn allow recs) as [l'|k'] eqn:E'; [|reflexivity].
    destruct (pp_ids_no_spurious_outcome cn allow cfg sched recs l' Hc E') as [X|X]; rewrite X in E; [discriminate|].
    inversion E; subst k. destruct Hf as [Hf|Hf]; [exfalso; apply Hf; reflexivity|discriminate].
Qed.

(* the same with --no-allow-long-headers: version stripping and _shorten_ids with equal contig number and prefix;
   ONE worker process of a pool of three runs all five calls one after another (rounds 5) - each call still
   works on its own copy of the set *)
Lemma per_call_copy_witness_versions :
  exists out1 out2,
    pp_ids_per_call C16.Model.contig_no false 1 [] witness_versions = Ok out1 /\
    pp_ids_per_call C16.Model.contig_no false 3 (rounds 5) witness_versions = Ok out2 /\
    nids out1 = ids_versions_inproc /\ nids out2 = ids_versions_copies /\
    pp_ids C16.Model.contig_no false 3 (rounds 5) witness_versions = Ok out1.
Proof. eexists. eexists. repeat (match goal with |- _ /\ _ => split end); vm_compute; reflexivity. Qed.
