(* C06: model of Record.create_regions on a record whose areas do not span the origin: areas
   sorted with CDSCollection.__lt__ ((start, -length)), the sweep that joins an area to the
   running section when it overlaps the section's location (connect_locations = hull), the
   merge of the sections overlapping the first one, and one region per section.  The sweep is C03's with cutoff 0. *)
From ASV Require Export Base.
From ASV.C03 Require Export Model.

(* CDSCollection.__lt__ for locations that do not cross the origin *)
Definition area_lt (a b : itv) : bool :=
  (s a <? s b) || ((s a =? s b) && (e b - s b <? e a - s a)).

(* sections oldest first: (location start, location end, areas in sweep order) *)
Definition sections (N : Z) (areas : list itv) : list (Z * Z * list itv) :=
  map (fun g : group => let '(cs, he, ms) := g in (cs, he, rev ms)) (rev (sweep N 0 (sort_by area_lt areas))).

(* the merge of every section whose location overlaps the first one's (create_regions repeats a backwards pass
   over sections[1:] until a pass merges nothing; see cmerge_pass / cmerge_loop below for the code).
   merge_pass: one pass, `others_rev` = sections[1:] reversed, `kept` = the sections passed over and kept *)
Definition isec := (Z * Z * list itv)%type.
Fixpoint merge_pass (fs fe : Z) (fa : list itv) (others_rev kept : list isec) (merged : bool)
  : Z * Z * list itv * list isec * bool :=
  match others_rev with
  | [] => (fs, fe, fa, kept, merged)
  | (os, oe, oa) :: r =>
    if (fs <? oe) && (os <? fe)
    then merge_pass (Z.min fs os) (Z.max fe oe)
                    (fa ++ filter (fun a => negb (existsb (fun b => (s a =? s b) && (e a =? e b)) fa)) oa) r kept true
    else merge_pass fs fe fa r ((os, oe, oa) :: kept) merged
  end.
Fixpoint merge_loop (fuel : nat) (secs : list isec) : list isec :=
  match fuel, secs with
  | S f, (fs, fe, fa) :: rest =>
    let '(fs', fe', fa', kept, merged) := merge_pass fs fe fa (rev rest) [] false in
    if merged then merge_loop f ((fs', fe', fa') :: kept) else (fs', fe', fa') :: kept
  | _, _ => secs
  end.
Definition fixup (secs : list isec) : list isec :=
  match secs with
  | _ :: _ :: _ => merge_loop (S (length secs)) secs
  | _ => secs
  end.

Definition regions (N : Z) (areas : list itv) : list (Z * Z * list itv) := fixup (sections N areas).

(* ---------- numbering: add_protocluster / add_candidate_cluster / add_subregion / add_region ----------
   insert the new feature at an index of the ordered list and renumber from that index:
     self._xs.insert(index, x); for i in range(index, len(self._xs)): numbering[self._xs[i]] = i + 1
   features are identified by identity: abstract ids *)
Definition numbering := list (Z * Z).          (* feature id -> number; the first binding wins *)
Fixpoint number_of (x : Z) (m : numbering) : option Z :=
  match m with [] => None | (k, v) :: r => if x =? k then Some v else number_of x r end.

Fixpoint renumber (l : list Z) (j : Z) (m : numbering) : numbering :=
  match l with [] => m | x :: r => renumber r (j + 1) ((x, j) :: m) end.

Definition add_at (index : nat) (x : Z) (st : list Z * numbering) : list Z * numbering :=
  let '(l, m) := st in
  (firstn index l ++ x :: skipn index l, renumber (x :: skipn index l) (Z.of_nat index + 1) m).

(* clear_*: the list is emptied, the numbering dictionary keeps its stale entries *)
Definition clear (st : list Z * numbering) : list Z * numbering := ([], snd st).

Inductive nop := NAdd (index : Z) (x : Z) | NClear.
Definition dNop : dec nop := fun l =>
  match l with
  | 0 :: i :: x :: r => Some (NAdd i x, r)
  | 1 :: r => Some (NClear, r)
  | _ => None
  end.
Definition apply_nop (st : list Z * numbering) (o : nop) : list Z * numbering :=
  match o with NAdd i x => add_at (Z.to_nat i) x st | NClear => clear st end.


(* ====================================================================================
   Circular records (function ids 3..): areas carry Common/Loc.v locations - one part, or the two
   parts [s,N) ++ [0,e) of an origin-spanning area.  Record.add_candidate_cluster / add_subregion
   (bisect_left over CDSCollection.__lt__), Record.create_regions (areas.sort(), the sweep with
   overlaps_with + connect_locations(wrap_point), the merge of every section overlapping the first), Region.__init__ (location of
   the children, wrap point inferred, the constructor checks of CDSCollection / Feature, child.parent
   = self asserting containment), Record.add_region (overlap rejection against every existing region,
   then the ordered insertion at the first existing region the new one is less than).
   ==================================================================================== *)
Record carea := mkCA { cid : Z; ckind : Z; cloc : loc }.     (* kind 0 = SubRegion, 1 = CandidateCluster *)

(* get_comparator of CDSCollection.__lt__: (start, -len); the start of an origin-bridging location is
   min(head starts) - max(head ends) of the part before the origin: a negative number *)
Definition kstart (l : loc) : Z :=
  if bridges l then
    match split_bridging l with
    | Ok (_, head) => lmin (map ps head) - lmax (map pe head)
    | Err _ => lstart l          (* the split raises ValueError; outside the generated domain *)
    end
  else lstart l.
(* CDSCollection.__lt__(self, other) between areas / between regions: `other in self` is False (the
   other one is never a child), then the containment shortcut, then the comparator *)
Definition coll_lt (a b : loc) : bool :=
  if contains a b && negb (contains b a) then true
  else if contains b a && negb (contains a b) then false  (* mirrored shortcut: repair of finding F53 / C10-F46 *)
  else (kstart a <? kstart b) || ((kstart a =? kstart b) && (- llen a <? - llen b)).

(* bisect.bisect_left(a, x): the binary search itself, `p e` standing for a[mid] < x *)
Fixpoint bisect_go {A} (p : A -> bool) (l : list A) (fuel : nat) (lo hi : nat) : nat :=
  match fuel with
  | O => lo
  | S f =>
    if Nat.ltb lo hi then
      let mid := Nat.div2 (lo + hi) in
      match nth_error l mid with
      | Some e => if p e then bisect_go p l f (S mid) hi else bisect_go p l f lo mid
      | None => lo
      end
    else lo
  end.
Definition bisect_left {A} (p : A -> bool) (l : list A) : nat := bisect_go p l (S (length l)) 0 (length l).
Definition insert_at {A} (i : nat) (x : A) (l : list A) : list A := firstn i l ++ x :: skipn i l.

(* add_candidate_cluster / add_subregion: the two assertions, bisect_left, insert *)
Definition add_area (N : Z) (l : list carea) (x : carea) : res (list carea) :=
  if (lstart (cloc x) <? 0) || (N <? lend (cloc x)) then Err E_Assert
  else Ok (insert_at (bisect_left (fun y => coll_lt (cloc y) (cloc x)) l) x l).

(* the sweep of create_regions over the sorted areas; sections oldest first *)
Fixpoint csweep (w : option Z) (location : loc) (incl_rev : list carea) (secs_rev : list (loc * list carea))
                (areas : list carea) : res (list (loc * list carea)) :=
  match areas with
  | [] => Ok (rev ((location, rev incl_rev) :: secs_rev))
  | a :: r =>
    if negb (overlap (cloc a) location)
    then csweep w (cloc a) [a] ((location, rev incl_rev) :: secs_rev) r
    else do l <- connect_locations [cloc a; location] w; csweep w l (a :: incl_rev) secs_rev r
  end.

Definition in_areas (a : carea) (l : list carea) : bool := existsb (fun b => cid a =? cid b) l.

(* the merge of every section that overlaps the first one (only the first section can span the origin):
     merged = len(sections) > 1
     while merged:
         merged = False
         first_location, first_areas = sections[0]
         for index in range(len(sections) - 1, 0, -1):      # backwards over sections[1:]
             other_location, other_areas = sections[index]
             if not locations_overlap(first_location, other_location): continue
             sections.pop(index)
             first_location = connect_locations([first_location, other_location], wrap_point=wrap_point)
             first_areas += [area for area in other_areas if area not in first_areas]
             merged = True
         sections[0] = (first_location, first_areas)
   cmerge_pass: one run of the for loop, `others_rev` = sections[1:] reversed, `kept` = the sections already passed
   over and kept (in list order); cmerge_loop: the while loop; every pass that merged removed a section, so
   S (length secs) passes are enough (cfixup_fuel in Proofs.v: the fuel never runs out) *)
Definition csec := (loc * list carea)%type.
Fixpoint cmerge_pass (w : option Z) (floc : loc) (fareas : list carea) (others_rev kept : list csec) (merged : bool)
  : res (loc * list carea * list csec * bool) :=
  match others_rev with
  | [] => Ok (floc, fareas, kept, merged)
  | (oloc, oareas) :: r =>
    if negb (overlap floc oloc) then cmerge_pass w floc fareas r ((oloc, oareas) :: kept) merged
    else do l <- connect_locations [floc; oloc] w;
         cmerge_pass w l (fareas ++ filter (fun a => negb (in_areas a fareas)) oareas) r kept true
  end.
Fixpoint cmerge_loop (fuel : nat) (w : option Z) (secs : list csec) : res (list csec) :=
  match fuel with
  | O => Err E_Assert                      (* not reachable: cfixup_fuel *)
  | S f =>
    match secs with
    | [] => Ok []
    | (floc, fareas) :: rest =>
      do r <- cmerge_pass w floc fareas (rev rest) [] false;
      let '(l, a, kept, merged) := r in
      if merged then cmerge_loop f w ((l, a) :: kept) else Ok ((l, a) :: kept)
    end
  end.
Definition cfixup (w : option Z) (secs : list csec) : res (list csec) :=
  match secs with
  | _ :: _ :: _ => cmerge_loop (S (length secs)) w secs
  | _ => Ok secs
  end.

Definition csections (w : option Z) (cands subs : list carea) : res (list (loc * list carea)) :=
  match sort_by (fun a b => coll_lt (cloc a) (cloc b)) (cands ++ subs) with
  | [] => Ok []
  | a :: r => do secs <- csweep w (cloc a) [a] [] r; cfixup w secs
  end.

Record cregion := mkCR { rloc : loc; rcands : list carea; rsubs : list carea }.

(* Region.__init__ + CDSCollection.__init__ + Feature.__init__ *)
Definition first_end (l : loc) : Z := match l with p :: _ => pe p | [] => 0 end.
Definition region_init (cands subs : list carea) : res cregion :=
  let children := subs ++ cands in
  match children with
  | [] => Err E_Value
  | _ =>
    let locs := map cloc children in
    let wrap := if existsb bridges locs then Some (lmax (map first_end locs)) else None in
    do l <- connect_locations locs wrap;
    do _ <- (if is_compound l
             then match l with [_; q] => if ps q =? 0 then Ok 0 else Err E_Value | _ => Err E_Assert end
             else Ok 0);
    if negb (all_same_strand l) then Err E_Assert else
    if lend l <? lstart l then Err E_Assert else
    if lstart l <? 0 then Err E_Value else
    if is_compound l && negb (lstrand l =? 1) then Err E_Value else
    if negb (forallb (fun c => contains l (cloc c)) children) then Err E_Assert else
    Ok (mkCR l cands subs)
  end.

(* add_region: first every existing region is tested for an overlap (ValueError), then the insertion index is
   the position of the first existing region the new one is less than *)
Fixpoint add_index (new : loc) (existing : list cregion) (i : nat) : nat :=
  match existing with
  | [] => i
  | ex :: r => if coll_lt new (rloc ex) then i else add_index new r (S i)
  end.
Definition add_scan (new : loc) (existing : list cregion) (i : nat) : res nat :=
  if existsb (fun ex => overlap new (rloc ex)) existing then Err E_Value else Ok (add_index new existing i).
Definition add_region (N : Z) (regs : list cregion) (r : cregion) : res (list cregion) :=
  if (lstart (rloc r) <? 0) || (N <? lend (rloc r)) then Err E_Assert else
  do index <- add_scan (rloc r) regs 0;
  Ok (insert_at index r regs).

Definition split_kinds (areas : list carea) : list carea * list carea :=
  (filter (fun a => ckind a =? 1) areas, filter (fun a => negb (ckind a =? 1)) areas).

Fixpoint add_sections (N : Z) (regs : list cregion) (secs : list (loc * list carea)) : res (list cregion) :=
  match secs with
  | [] => Ok regs
  | (_, areas) :: r =>
    let '(cs, ss) := split_kinds areas in
    do reg <- region_init cs ss;
    do regs' <- add_region N regs reg;
    add_sections N regs' r
  end.


(* wrap_of N circular (C03/Model.v): len(record) if the record is circular, else None *)

(* create_regions on a record holding `regs`, `cands`, `subs` *)
Definition create_regions (N : Z) (circular : bool) (regs : list cregion) (cands subs : list carea)
  : res (list cregion) :=
  do secs <- csections (wrap_of N circular) cands subs;
  add_sections N regs secs.

(* the areas of a record in supply order -> (_candidate_clusters, _subregions) *)
Fixpoint add_areas (N : Z) (cands subs : list carea) (supply : list carea) : res (list carea * list carea) :=
  match supply with
  | [] => Ok (cands, subs)
  | a :: r =>
    if ckind a =? 1 then do c <- add_area N cands a; add_areas N c subs r
    else do s <- add_area N subs a; add_areas N cands s r
  end.

Definition record_regions (N : Z) (circular : bool) (supply : list carea) : res (list cregion) :=
  do cs <- add_areas N [] [] supply;
  create_regions N circular [] (fst cs) (snd cs).

(* a history of add_region(Region(subregions=[x])) calls, each accepted or refused; the record keeps
   the accepted ones *)
Fixpoint add_history (N : Z) (regs : list cregion) (news : list carea) (flags_rev : list Z) : list Z * list cregion :=
  match news with
  | [] => (rev flags_rev, regs)
  | x :: r =>
    match (do reg <- region_init [] [x]; add_region N regs reg) with
    | Ok regs' => add_history N regs' r (0 :: flags_rev)
    | Err k => add_history N regs r (k :: flags_rev)
    end
  end.

Fixpoint number_from (i : Z) (l : list (Z * loc)) : list carea :=
  match l with [] => [] | (k, lc) :: r => mkCA i k lc :: number_from (i + 1) r end.
Definition eIds (l : list carea) : list Z := eList (fun a => [cid a]) l.
Definition eRegion (r : cregion) : list Z := eLoc (rloc r) ++ eIds (rcands r) ++ eIds (rsubs r).


(* ====================================================================================
   Parent and region links (function id 5): CDSCollection._parent of protoclusters (set by the
   CandidateCluster constructor) and of candidate clusters / sub-regions (set by the Region
   constructor), CDSFeature.region (set by add_region), and how clear_regions /
   clear_candidate_clusters / clear_subregions / clear_protoclusters reset them, incl. the conditional
   re-creation of the regions.  Features are abstract ids; which areas form a section and which genes
   lie within a region is decided by create_regions / get_cds_features_within_location and is an
   argument of the operation here (the correspondence run passes what the implementation did; the
   grouping itself is the subject of function ids 1 and 3).
   ==================================================================================== *)
Definition lmap := list (Z * option Z).              (* the first binding wins *)
Fixpoint lget (x : Z) (m : lmap) : option Z :=
  match m with [] => None | (k, v) :: r => if x =? k then v else lget x r end.
Definition lset_all (xs : list Z) (v : option Z) (m : lmap) : lmap := fold_left (fun m x => (x, v) :: m) xs m.

Record lregion := mkLR { lr_id : Z; lr_members : list Z; lr_cds : list Z }.
Record lstate := mkLS { l_protos : list Z; l_cands : list (Z * list Z); l_subs : list Z; l_regions : list lregion;
                        l_pparent : lmap; l_aparent : lmap; l_cdsreg : lmap; l_next : Z }.
Definition l_empty : lstate := mkLS [] [] [] [] [] [] [] 0.

Definition grouping := list (list Z * list Z).       (* per section: member areas, genes within the region *)

(* create_regions: Region(...) makes itself the parent of its areas, add_region links the genes *)
Fixpoint l_create (gs : grouping) (st : lstate) : lstate :=
  match gs with
  | [] => st
  | (ms, cds) :: r =>
    l_create r (mkLS (l_protos st) (l_cands st) (l_subs st) (l_regions st ++ [mkLR (l_next st) ms cds])
                     (l_pparent st) (lset_all ms (Some (l_next st)) (l_aparent st))
                     (lset_all cds (Some (l_next st)) (l_cdsreg st)) (l_next st + 1))
  end.

Definition l_clear_regions (st : lstate) : lstate :=
  mkLS (l_protos st) (l_cands st) (l_subs st) []
       (l_pparent st)
       (fold_left (fun m r => lset_all (lr_members r) None m) (l_regions st) (l_aparent st))
       (fold_left (fun m r => lset_all (lr_cds r) None m) (l_regions st) (l_cdsreg st))
       (l_next st).

(* `if self._regions: self.clear_regions(); self.create_regions()` *)
Definition l_recreate (gs : grouping) (st : lstate) : lstate :=
  match l_regions st with [] => st | _ => l_create gs (l_clear_regions st) end.

Definition l_clear_cands (gs : grouping) (st : lstate) : lstate :=
  l_recreate gs (mkLS (l_protos st) [] (l_subs st) (l_regions st)
                      (fold_left (fun m c => lset_all (snd c) None m) (l_cands st) (l_pparent st))
                      (l_aparent st) (l_cdsreg st) (l_next st)).

Definition l_clear_subs (gs : grouping) (st : lstate) : lstate :=
  l_recreate gs (mkLS (l_protos st) (l_cands st) [] (l_regions st) (l_pparent st) (l_aparent st) (l_cdsreg st) (l_next st)).

(* strip_antismash_annotations: clear_protoclusters(); clear_candidate_clusters(); clear_subregions(); clear_regions().
   Each of the first three re-creates the regions when the record has some at that moment; `gl` lists what the
   create_regions calls made during the operation grouped, in call order: one is consumed per re-creation *)
Definition pop_grouping (st : lstate) (gl : list grouping) : grouping * list grouping :=
  match l_regions st with
  | [] => ([], gl)
  | _ => match gl with g :: r => (g, r) | [] => ([], []) end
  end.
Definition l_no_protos (st : lstate) : lstate :=
  mkLS [] (l_cands st) (l_subs st) (l_regions st) (l_pparent st) (l_aparent st) (l_cdsreg st) (l_next st).
Definition l_strip (gl : list grouping) (st : lstate) : lstate :=
  let st0 := l_no_protos st in
  let '(g1, gl1) := pop_grouping st0 gl in let st1 := l_clear_cands g1 st0 in
  let '(g2, gl2) := pop_grouping st1 gl1 in let st2 := l_clear_cands g2 st1 in
  let '(g3, _) := pop_grouping st2 gl2 in let st3 := l_clear_subs g3 st2 in
  l_clear_regions st3.

(* Record.create_candidate_clusters: create_candidates_from_protoclusters CONSTRUCTS candidates one after the other
   (`built`, in construction order; every CandidateCluster constructor makes the new candidate the parent of its
   members, also of a candidate that is afterwards dropped as redundant or replaced by a promoted one), asserts that
   every protocluster is a member of a candidate it returns, and - repair e5074b2a - finally points every protocluster
   at a RETURNED candidate, in the order of the returned (sorted) list: `for candidate in candidates: for proto in
   candidate.protoclusters: proto.parent = candidate`.  The returned candidates are then handed to
   add_candidate_cluster in that order.  Which candidates are built and which are returned is formation's business
   (property C05) and an argument here; `relink = false` is the function as it was before the repair. *)
Definition l_cover (built returned : list (Z * list Z)) : bool :=
  forallb (fun b => forallb (fun x => existsb (fun r => existsb (Z.eqb x) (snd r)) returned) (snd b)) built.
Definition l_point (m : lmap) (c : Z * list Z) : lmap := lset_all (snd c) (Some (fst c)) m.
Definition l_form (relink : bool) (built returned : list (Z * list Z)) (st : lstate) : lstate :=
  if l_cover built returned then
    let constructed := fold_left l_point built (l_pparent st) in
    mkLS (l_protos st) (rev returned ++ l_cands st) (l_subs st) (l_regions st)
         (if relink then fold_left l_point returned constructed else constructed)
         (l_aparent st) (l_cdsreg st) (l_next st)
  else st.                                      (* AssertionError: such histories are not covered *)

Inductive lop :=
| LFormCands (built returned : list (Z * list Z))
| LAddProto (p : Z)
| LAddCand (c : Z) (children : list Z)       (* CandidateCluster(..., children) followed by add_candidate_cluster *)
| LAddSub (s : Z)
| LCreate (gs : grouping)
| LClearRegions
| LClearCands (gs : grouping)
| LClearSubs (gs : grouping)
| LClearProtos (gs : grouping)
| LReAddCand (c : Z) (children : list Z)     (* add_candidate_cluster of a candidate built earlier: no constructor runs,
                                                the protoclusters' parents stay as they are *)
| LStrip (gl : list grouping).

Definition l_apply (st : lstate) (o : lop) : lstate :=
  match o with
  | LFormCands built returned => l_form true built returned st
  | LAddProto p => mkLS (p :: l_protos st) (l_cands st) (l_subs st) (l_regions st) (l_pparent st) (l_aparent st) (l_cdsreg st) (l_next st)
  | LAddCand c ch => mkLS (l_protos st) ((c, ch) :: l_cands st) (l_subs st) (l_regions st)
                          (lset_all ch (Some c) (l_pparent st)) (l_aparent st) (l_cdsreg st) (l_next st)
  | LAddSub s => mkLS (l_protos st) (l_cands st) (s :: l_subs st) (l_regions st) (l_pparent st) (l_aparent st) (l_cdsreg st) (l_next st)
  | LCreate gs => l_create gs st
  | LClearRegions => l_clear_regions st
  | LClearCands gs => l_clear_cands gs st
  | LClearSubs gs => l_clear_subs gs st
  | LClearProtos gs =>
    l_clear_cands gs (mkLS [] (l_cands st) (l_subs st) (l_regions st) (l_pparent st) (l_aparent st) (l_cdsreg st) (l_next st))
  | LReAddCand c ch => mkLS (l_protos st) ((c, ch) :: l_cands st) (l_subs st) (l_regions st)
                            (l_pparent st) (l_aparent st) (l_cdsreg st) (l_next st)
  | LStrip gl => l_strip gl st
  end.

Definition dGrouping : dec grouping := dList (dPair (dList dZ) (dList dZ)).
Definition dCands : dec (list (Z * list Z)) := dList (dPair dZ (dList dZ)).
Definition dLop : dec lop := fun l =>
  match l with
  | 0 :: p :: r => Some (LAddProto p, r)
  | 1 :: c :: r => match dList dZ r with Some (ch, r') => Some (LAddCand c ch, r') | None => None end
  | 2 :: s :: r => Some (LAddSub s, r)
  | 3 :: r => match dGrouping r with Some (g, r') => Some (LCreate g, r') | None => None end
  | 4 :: r => Some (LClearRegions, r)
  | 5 :: r => match dGrouping r with Some (g, r') => Some (LClearCands g, r') | None => None end
  | 6 :: r => match dGrouping r with Some (g, r') => Some (LClearSubs g, r') | None => None end
  | 7 :: r => match dGrouping r with Some (g, r') => Some (LClearProtos g, r') | None => None end
  | 8 :: c :: r => match dList dZ r with Some (ch, r') => Some (LReAddCand c ch, r') | None => None end
  | 9 :: r => match dList dGrouping r with Some (gl, r') => Some (LStrip gl, r') | None => None end
  | 10 :: r => match dPair dCands dCands r with Some ((b, rt), r') => Some (LFormCands b rt, r') | None => None end
  | _ => None
  end.

(* observation: a protocluster's parent by candidate id; an area's / a gene's region by the smallest
   member of that region (-1: no link, -2: a link to a region that is not in the record) *)
Definition region_name (st : lstate) (link : option Z) : Z :=
  match link with
  | None => -1
  | Some r => match find (fun reg => lr_id reg =? r) (l_regions st) with
              | Some reg => lmin (lr_members reg)
              | None => -2
              end
  end.
Definition cand_name (st : lstate) (link : option Z) : Z :=
  match link with
  | None => -1
  | Some c => if existsb (fun x => fst x =? c) (l_cands st) then c else -2
  end.

(* ====================================================================================
   A gene added AFTER the regions (function id 6): Record._link_cds_to_parent looks for the gene's region in a
   bisected window of the region list,
       left = bisect.bisect_left(self._regions, cds)            # region < cds: CDSCollection.__lt__
       right = bisect.bisect_right(self._regions, cds, lo=left) # cds < region: Feature.__lt__
       first = max(0, left - 1)
       candidates = self._regions[first:right + 1]
       if first > 0 and self._regions[0].crosses_origin():      # repair of finding late_gene_origin_region_unlinked:
           candidates.insert(0, self._regions[0])               # a region crossing the origin always sorts first
       for region in candidates:
           if cds.is_contained_by(region): region.add_cds(cds); cds.region = region
   (the gene is not yet a child of any region, so the `other in self` shortcut of CDSCollection.__lt__ is False).
   link_window: `first` and the slice; link_first: what is put in front of the slice (region 0 or nothing);
   link_hits: the positions (in the region list) of the regions that take the gene, in loop order; cds.region is
   the last of them.
   ==================================================================================== *)
(* Feature.__lt__: (start, length), the start of an origin-bridging location as in kstart *)
Definition feat_lt (a b : loc) : bool :=
  (kstart a <? kstart b) || ((kstart a =? kstart b) && (llen a <? llen b)).
Definition bisect_from {A} (p : A -> bool) (l : list A) (lo : nat) : nat := bisect_go p l (S (length l)) lo (length l).
Fixpoint hits_from (i : nat) (window : list loc) (g : loc) : list nat :=
  match window with
  | [] => []
  | r :: t => if contains r g then i :: hits_from (S i) t g else hits_from (S i) t g
  end.
Definition link_window (regs : list loc) (g : loc) : nat * list loc :=
  let left := bisect_left (fun r => coll_lt r g) regs in
  let right := bisect_from (fun r => negb (feat_lt g r)) regs left in
  let from := (left - 1)%nat in                (* max(0, left - 1) *)
  (from, firstn (S right - from) (skipn from regs)).
Definition link_first (regs : list loc) (from : nat) : list loc :=
  match regs with
  | r0 :: _ => if Nat.ltb 0 from && bridges r0 then [r0] else []
  | [] => []
  end.
Definition link_hits (regs : list loc) (g : loc) : list nat :=
  let '(from, window) := link_window regs g in
  hits_from 0 (link_first regs from) g ++ hits_from from window g.
Definition link_region (regs : list loc) (g : loc) : option nat :=
  match rev (link_hits regs g) with i :: _ => Some i | [] => None end.

Definition run_C06 (fn : Z) (l : list Z) : list Z :=
  match fn with
  | 1 => match dPair dZ (dList dItv) l with
         | Some ((N, areas), []) =>
           eList (fun r : Z * Z * list itv => let '(a, b, ms) := r in a :: b :: eList (fun m => [s m; e m]) ms) (regions N areas)
         | _ => bad_input end
  | 2 => match dList dNop l with
         | Some (ops, []) =>
           let st := fold_left apply_nop ops ([], []) in
           eList (fun x => [x; match number_of x (snd st) with Some n => n | None => -1 end]) (fst st)
         | _ => bad_input end
  | 3 => match dPair (dPair dZ dBool) (dList (dPair dZ dLoc)) l with
         | Some ((N, circular, areas), []) =>
           eRes (eList eRegion) (record_regions N circular (number_from 0 areas))
         | _ => bad_input end
  | 4 => match dPair dZ (dList (dPair dZ dLoc)) l with
         | Some ((N, areas), []) =>
           let '(flags, regs) := add_history N [] (number_from 0 areas) [] in
           eList (fun k => [k]) flags ++ eList eRegion regs
         | _ => bad_input end
  | 5 => match dPair (dList dLop) (dPair (dList dZ) (dPair (dList dZ) (dList dZ))) l with
         | Some ((ops, (protos, (areas, genes))), []) =>
           let st := fold_left l_apply ops l_empty in
           map (fun p => cand_name st (lget p (l_pparent st))) protos
           ++ map (fun a => region_name st (lget a (l_aparent st))) areas
           ++ map (fun g => region_name st (lget g (l_cdsreg st))) genes
         | _ => bad_input end
  | 6 => match dPair (dList dLoc) dLoc l with
         | Some ((regs, g), []) =>
           eList (fun i => [Z.of_nat i]) (link_hits regs g)
           ++ [match link_region regs g with Some i => Z.of_nat i | None => -1 end]
         | _ => bad_input end
  | _ => bad_input
  end.
