(* C06: model of Record.create_regions on a record whose areas do not span the origin: areas
   sorted with CDSCollection.__lt__ ((start, -length)), the sweep that joins an area to the
   running section when it overlaps the section's location (connect_locations = hull), the
   first/last fix-up, and one region per section.  The sweep is C03's with cutoff 0. *)
From ASV Require Export Base.
From ASV.C03 Require Export Model.

(* CDSCollection.__lt__ for locations that do not cross the origin *)
Definition area_lt (a b : itv) : bool :=
  (s a <? s b) || ((s a =? s b) && (e b - s b <? e a - s a)).

(* sections oldest first: (location start, location end, areas in sweep order) *)
Definition sections (N : Z) (areas : list itv) : list (Z * Z * list itv) :=
  map (fun g : group => let '(cs, he, ms) := g in (cs, he, rev ms)) (rev (sweep N 0 (sort_by area_lt areas))).

(* merge of the first and last section when their locations overlap *)
Definition fixup (secs : list (Z * Z * list itv)) : list (Z * Z * list itv) :=
  match secs with
  | (fs, fe, fa) :: (_ :: _) as rest =>
    match last_opt rest with
    | Some (ls, le, la) =>
      if (fs <? le) && (ls <? fe)
      then (Z.min fs ls, Z.max fe le, fa ++ filter (fun a => negb (existsb (fun b => (s a =? s b) && (e a =? e b)) fa)) la)
           :: removelast rest
      else secs
    | None => secs
    end
  | _ => secs
  end.

Definition regions (N : Z) (areas : list itv) : list (Z * Z * list itv) := fixup (sections N areas).

Definition run_C06 (fn : Z) (l : list Z) : list Z :=
  match fn with
  | 1 => match dPair dZ (dList dItv) l with
         | Some ((N, areas), []) =>
           eList (fun r : Z * Z * list itv => let '(a, b, ms) := r in a :: b :: eList (fun m => [s m; e m]) ms) (regions N areas)
         | _ => bad_input end
  | _ => bad_input
  end.
