(* C06: model of Record.create_regions on a record whose areas do not span the origin: areas
   sorted with CDSCollection.__lt__ ((start, -length)), the sweep that joins an area to the
   running section when it overlaps the section's location (connect_locations = hull), the
   first/last fix-up, and one region per section.  The sweep is C03's with cutoff 0. *)
From ASV Require Export Base.
From ASV.C03 Require Export Model.

(* CDSCollection.__lt__ for locations that do not cross the origin *)
Definition area_lt (a b : itv) : bool :=
  (s a <? s b) || ((s a =? s b) && (e b - s b <? e a - s a)).

(* sections oldest first: (location start, location end, areas in sweep order) *)
Definition sections (N : Z) (areas : list itv) : list (Z * Z * list itv) :=
  map (fun g : group => let '(cs, he, ms) := g in (cs, he, rev ms)) (rev (sweep N 0 (sort_by area_lt areas))).

(* merge of the first and last section when their locations overlap *)
Definition fixup (secs : list (Z * Z * list itv)) : list (Z * Z * list itv) :=
  match secs with
  | (fs, fe, fa) :: (_ :: _) as rest =>
    match last_opt rest with
    | Some (ls, le, la) =>
      if (fs <? le) && (ls <? fe)
      then (Z.min fs ls, Z.max fe le, fa ++ filter (fun a => negb (existsb (fun b => (s a =? s b) && (e a =? e b)) fa)) la)
           :: removelast rest
      else secs
    | None => secs
    end
  | _ => secs
  end.

Definition regions (N : Z) (areas : list itv) : list (Z * Z * list itv) := fixup (sections N areas).

(* ---------- numbering: add_protocluster / add_candidate_cluster / add_subregion / add_region ----------
   insert the new feature at an index of the ordered list and renumber from that index:
     self._xs.insert(index, x); for i in range(index, len(self._xs)): numbering[self._xs[i]] = i + 1
   features are identified by identity: abstract ids *)
Definition numbering := list (Z * Z).          (* feature id -> number; the first binding wins *)
Fixpoint number_of (x : Z) (m : numbering) : option Z :=
  match m with [] => None | (k, v) :: r => if x =? k then Some v else number_of x r end.

Fixpoint renumber (l : list Z) (j : Z) (m : numbering) : numbering :=
  match l with [] => m | x :: r => renumber r (j + 1) ((x, j) :: m) end.

Definition add_at (index : nat) (x : Z) (st : list Z * numbering) : list Z * numbering :=
  let '(l, m) := st in
  (firstn index l ++ x :: skipn index l, renumber (x :: skipn index l) (Z.of_nat index + 1) m).

(* clear_*: the list is emptied, the numbering dictionary keeps its stale entries *)
Definition clear (st : list Z * numbering) : list Z * numbering := ([], snd st).

Inductive nop := NAdd (index : Z) (x : Z) | NClear.
Definition dNop : dec nop := fun l =>
  match l with
  | 0 :: i :: x :: r => Some (NAdd i x, r)
  | 1 :: r => Some (NClear, r)
  | _ => None
  end.
Definition apply_nop (st : list Z * numbering) (o : nop) : list Z * numbering :=
  match o with NAdd i x => add_at (Z.to_nat i) x st | NClear => clear st end.

Definition run_C06 (fn : Z) (l : list Z) : list Z :=
  match fn with
  | 1 => match dPair dZ (dList dItv) l with
         | Some ((N, areas), []) =>
           eList (fun r : Z * Z * list itv => let '(a, b, ms) := r in a :: b :: eList (fun m => [s m; e m]) ms) (regions N areas)
         | _ => bad_input end
  | 2 => match dList dNop l with
         | Some (ops, []) =>
           let st := fold_left apply_nop ops ([], []) in
           eList (fun x => [x; match number_of x (snd st) with Some n => n | None => -1 end]) (fst st)
         | _ => bad_input end
  | _ => bad_input
  end.
