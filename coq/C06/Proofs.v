(* C06 proofs: on a record without origin-spanning areas the regions are exactly the connected
   components of the "share a base" graph, pairwise disjoint, in location order. *)
From Coq Require Import Lia ZifyBool Sorting.Permutation.
From ASV.C03 Require Import Proofs.
From ASV.C06 Require Import Model.

Lemma area_lt_true a b : area_lt a b = true -> s a <= s b.
Proof. unfold area_lt. lia. Qed.
Lemma area_lt_false a b : area_lt a b = false -> s b <= s a.
Proof. unfold area_lt. lia. Qed.

Lemma insert_sorted_area x : forall l, sortedS l -> sortedS (insert_by area_lt x l).
Proof.
  induction l as [|y l IH]; intros Hs; cbn [insert_by].
  - cbn. split; [constructor|exact I].
  - destruct Hs as [Hy Hs]. destruct (area_lt x y) eqn:Hc.
    + apply area_lt_true in Hc. cbn [sortedS]. split; [|split; assumption].
      constructor; [exact Hc|]. eapply Forall_impl; [|exact Hy]. cbn. intros; lia.
    + apply area_lt_false in Hc. cbn [sortedS]. split; [|apply IH; exact Hs].
      assert (Hall : forall l', Forall (fun z => s y <= s z) l' -> Forall (fun z => s y <= s z) (insert_by area_lt x l')).
      { induction l' as [|z l' IH']; intros Hf; cbn [insert_by].
        - constructor; [exact Hc|constructor].
        - inversion Hf; subst. destruct (area_lt x z).
          + constructor; [exact Hc|]. constructor; assumption.
          + constructor; [assumption|]. apply IH'; assumption. }
      apply Hall. exact Hy.
Qed.
Lemma sort_sorted_area_acc : forall l acc, sortedS acc -> sortedS (fold_left (fun acc x => insert_by area_lt x acc) l acc).
Proof. induction l as [|x l IH]; intros acc Hs; cbn [fold_left]; [exact Hs|]. apply IH. apply insert_sorted_area. exact Hs. Qed.
Lemma sort_sorted_area l : sortedS (sort_by area_lt l).
Proof. unfold sort_by. apply sort_sorted_area_acc. exact I. Qed.

(* two areas share a base *)
Definition share_base (a b : itv) : Prop := near 0 a b.
Lemma share_base_spec a b : s a < e a -> s b < e b ->
  (share_base a b <-> exists x, s a <= x < e a /\ s b <= x < e b).
Proof.
  intros Ha Hb. unfold share_base, near. split.
  - intros [H1 H2]. exists (Z.max (s a) (s b)). lia.
  - intros (x & H1 & H2). lia.
Qed.

(* the sections before the first/last fix-up *)
Lemma sections_spec N areas : Forall (wf N) areas ->
  let gs := sweep N 0 (sort_by area_lt areas) in
  Permutation areas (flatten gs) /\
  (forall g, In g gs ->
     members g <> [] /\
     (forall m, In m (members g) -> fst (core_of g) <= s m /\ e m <= snd (core_of g)) /\
     (exists m, In m (members g) /\ s m = fst (core_of g)) /\
     (exists m, In m (members g) /\ e m = snd (core_of g)) /\
     (forall a b, In a (members g) -> In b (members g) -> conn 0 (members g) a b)) /\
  (forall g1 g2 a b, In g1 gs -> In g2 gs -> g1 <> g2 -> In a (members g1) -> In b (members g2) -> ~ share_base a b) /\
  (exists lo, inv N 0 lo gs).
Proof.
  intros Hwf. apply (chain_sorted N 0 areas (sort_by area_lt areas)); [lia|exact Hwf|apply sort_perm|apply sort_sorted_area].
Qed.

(* region locations of different sections are disjoint and in increasing order: from the
   separation invariant, the hull of an older section ends no later than any newer one starts *)
Fixpoint hulls_ordered (gs : list group) : Prop :=
  match gs with
  | [] => True
  | (cs, he, ms) :: rest => Forall (fun g' : group => let '(cs', he', _) := g' in he' <= cs) rest /\ hulls_ordered rest
  end.

Lemma inv_hulls_ordered N : forall gs lo, inv N 0 lo gs -> hulls_ordered gs.
Proof.
  induction gs as [|[[cs he] ms] rest IH]; intros lo [Hg Hs]; [exact I|].
  inversion Hg as [|? ? Hg1 Hgr]; subst. destruct Hs as [Hs1 Hsr]. cbn [hulls_ordered]. split.
  - apply Forall_forall. intros [[cs' he'] ms'] Hin.
    destruct Hg1 as (_ & _ & _ & (mn & Hmn & Hmns) & _).
    specialize (Hs1 cs' he' ms' mn Hin Hmn). lia.
  - apply (IH lo). split; assumption.
Qed.

(* hence the merge of sections overlapping the first one never fires on such records *)
Lemma last_opt_In {A} (l : list A) x : last_opt l = Some x -> In x l.
Proof.
  unfold last_opt. destruct (rev l) as [|y r] eqn:Hr; [discriminate|]. intros H. inversion H; subst.
  apply in_rev. rewrite Hr. left. reflexivity.
Qed.

Lemma ho_app_last : forall l x, hulls_ordered (l ++ [x]) -> Forall (fun g : group => snd (fst x) <= fst (fst g)) l.
Proof.
  induction l as [|[[cs he] ms] l IH]; intros x H; cbn [app hulls_ordered] in H; [constructor|].
  destruct H as [Hf Hr]. constructor.
  - rewrite Forall_forall in Hf. assert (Hx : In x (l ++ [x])) by (apply in_or_app; right; left; reflexivity).
    specialize (Hf x Hx). destruct x as [[cs' he'] ms']. cbn [fst snd]. exact Hf.
  - apply IH. exact Hr.
Qed.

Lemma merge_pass_none fs fe fa : forall others_rev kept m,
  Forall (fun x : isec => fe <= fst (fst x)) others_rev ->
  merge_pass fs fe fa others_rev kept m = (fs, fe, fa, rev others_rev ++ kept, m).
Proof.
  induction others_rev as [|[[os oe] oa] r IH]; intros kept m H; [reflexivity|].
  inversion H; subst. cbn [fst] in *. cbn [merge_pass].
  replace ((fs <? oe) && (os <? fe)) with false by lia.
  rewrite IH by assumption. cbn [rev]. rewrite <- app_assoc. reflexivity.
Qed.

Lemma hulls_ordered_rev_map : forall gs, hulls_ordered gs ->
  forall secs, secs = map (fun g : group => let '(cs, he, ms) := g in (cs, he, rev ms)) (rev gs) ->
  fixup secs = secs.
Proof.
  intros gs Hord secs ->.
  destruct (rev gs) as [|[[fs fe] fms] rest] eqn:Hrg; [reflexivity|].
  assert (Hgs : gs = rev rest ++ [(fs, fe, fms)]).
  { rewrite <- (rev_involutive gs), Hrg. reflexivity. }
  rewrite Hgs in Hord. apply ho_app_last in Hord. cbn [fst snd] in Hord.
  cbn [map]. unfold fixup.
  destruct (map _ rest) as [|r1 rest'] eqn:Hm; [reflexivity|].
  cbn [merge_loop]. rewrite merge_pass_none.
  - rewrite app_nil_r, rev_involutive. reflexivity.
  - apply Forall_rev. rewrite <- Hm. apply Forall_forall. intros x Hx. apply in_map_iff in Hx.
    destruct Hx as ([[cs1 he1] ms1] & <- & Hin). cbn [fst].
    rewrite Forall_forall in Hord. apply (Hord (cs1, he1, ms1)). apply -> in_rev. exact Hin.
Qed.

Lemma regions_are_sections N areas : Forall (wf N) areas -> regions N areas = sections N areas.
Proof.
  intros Hwf. unfold regions. destruct (sections_spec N areas Hwf) as (_ & _ & _ & lo & Hinv).
  eapply hulls_ordered_rev_map; [eapply inv_hulls_ordered; exact Hinv|reflexivity].
Qed.

(* ---------- numbering invariant ---------- *)
Definition num_inv (st : list Z * numbering) : Prop :=
  NoDup (fst st) /\ forall j x, nth_error (fst st) j = Some x -> number_of x (snd st) = Some (Z.of_nat j + 1).

Lemma renumber_other : forall t j m y, ~ In y t -> number_of y (renumber t j m) = number_of y m.
Proof.
  induction t as [|x t IH]; intros j m y Hy; cbn [renumber]; [reflexivity|].
  rewrite IH by (intros H; apply Hy; right; exact H). cbn [number_of].
  destruct (y =? x) eqn:E; [exfalso; apply Hy; left; lia|reflexivity].
Qed.

Lemma renumber_at : forall t j m k y, NoDup t -> nth_error t k = Some y ->
  number_of y (renumber t j m) = Some (j + Z.of_nat k).
Proof.
  induction t as [|x t IH]; intros j m k y Hnd Hk; [destruct k; discriminate|].
  inversion Hnd as [|? ? Hx Hnd']; subst. cbn [renumber]. destruct k as [|k].
  - cbn in Hk. inversion Hk; subst. rewrite renumber_other by exact Hx. cbn [number_of].
    replace (y =? y) with true by lia. f_equal. lia.
  - cbn in Hk. rewrite (IH (j + 1) _ k y Hnd' Hk). f_equal. lia.
Qed.

Lemma nth_error_firstn_lt {A} : forall (l : list A) n j, (j < n)%nat -> nth_error (firstn n l) j = nth_error l j.
Proof.
  induction l as [|x l IH]; intros n j H; [destruct n, j; reflexivity|].
  destruct n as [|n]; [lia|]. destruct j as [|j]; [reflexivity|]. cbn. apply IH. lia.
Qed.
Lemma NoDup_app_r {A} : forall (a b : list A), NoDup (a ++ b) -> NoDup b.
Proof. induction a as [|x a IH]; intros b H; [exact H|]. inversion H; subst. apply IH. assumption. Qed.
Lemma NoDup_app_disj {A} : forall (a b : list A) y, NoDup (a ++ b) -> In y a -> In y b -> False.
Proof.
  induction a as [|x a IH]; intros b y H Ha Hb; [destruct Ha|].
  cbn in H. inversion H; subst. destruct Ha as [->|Ha]; [apply H2; apply in_or_app; right; exact Hb|eapply IH; eassumption].
Qed.

Lemma add_at_inv index x st : num_inv st -> ~ In x (fst st) -> (index <= length (fst st))%nat ->
  num_inv (add_at index x st).
Proof.
  destruct st as [l m]. cbn [fst snd]. intros [Hnd Hnum] Hx Hidx. unfold add_at. cbn [fst snd].
  assert (Hsplit : l = firstn index l ++ skipn index l) by (symmetry; apply firstn_skipn).
  assert (Hnd2 : NoDup (firstn index l ++ x :: skipn index l)).
  { apply NoDup_Add with (a := x) (l := firstn index l ++ skipn index l).
    - apply Add_app.
    - rewrite <- Hsplit. split; assumption. }
  split; [exact Hnd2|].
  intros j y Hj. cbn [fst snd] in Hj |- *.
  assert (Hlen : length (firstn index l) = index) by (apply firstn_length_le; exact Hidx).
  destruct (Nat.lt_ge_cases j index) as [Hlt|Hge].
  - (* before the insertion point: untouched *)
    rewrite nth_error_app1 in Hj by (rewrite Hlen; exact Hlt).
    assert (Hyf : In y (firstn index l)) by (eapply nth_error_In; exact Hj).
    assert (Hy : ~ In y (x :: skipn index l)).
    { intros [<-|Hin].
      - apply Hx. rewrite Hsplit. apply in_or_app. left. exact Hyf.
      - rewrite Hsplit in Hnd. exact (NoDup_app_disj _ _ y Hnd Hyf Hin). }
    rewrite renumber_other by exact Hy. apply Hnum.
    rewrite <- Hj. symmetry. apply nth_error_firstn_lt. exact Hlt.
  - (* at or after the insertion point: renumbered *)
    rewrite nth_error_app2 in Hj by (rewrite Hlen; exact Hge). rewrite Hlen in Hj.
    assert (Hnd3 : NoDup (x :: skipn index l)).
    { constructor.
      - intros Hin. apply Hx. rewrite Hsplit. apply in_or_app. right. exact Hin.
      - rewrite Hsplit in Hnd. apply NoDup_app_r in Hnd. exact Hnd. }
    rewrite (renumber_at _ _ _ (j - index) y Hnd3 Hj). f_equal. lia.
Qed.

Lemma clear_inv st : num_inv (clear st).
Proof. split; [constructor|]. intros j x H. destruct j; discriminate. Qed.

(* histories: any sequence of adds (fresh features at admissible indexes) and clears *)
Inductive op := OAdd (index : nat) (x : Z) | OClear.
Definition apply_op (st : list Z * numbering) (o : op) : list Z * numbering :=
  match o with OAdd i x => add_at i x st | OClear => clear st end.
Fixpoint admissible (st : list Z * numbering) (ops : list op) : Prop :=
  match ops with
  | [] => True
  | o :: r => match o with
              | OAdd i x => ~ In x (fst st) /\ (i <= length (fst st))%nat
              | OClear => True
              end /\ admissible (apply_op st o) r
  end.

Lemma history_inv : forall ops st, num_inv st -> admissible st ops -> num_inv (fold_left apply_op ops st).
Proof.
  induction ops as [|o ops IH]; intros st Hinv Hadm; cbn [fold_left]; [exact Hinv|].
  destruct Hadm as [Ho Hr]. apply IH; [|exact Hr].
  destruct o as [i x|]; cbn [apply_op]; [apply add_at_inv; tauto|apply clear_inv].
Qed.

(* ====================================================================================
   add_region on records whose regions do not span the origin (every linear record)
   ==================================================================================== *)
From ASV.C04 Require Proofs.
Module L := ASV.C04.Proofs.

Definition simple_reg (N : Z) (r : cregion) : Prop := exists p, rloc r = [p] /\ 0 <= ps p /\ ps p < pe p /\ pe p <= N.
Definition shares_base (a b : loc) : Prop := exists x, L.base_of a x /\ L.base_of b x.
(* the list is in location order and its regions are pairwise disjoint *)
Fixpoint sorted_disjoint (l : list cregion) : Prop :=
  match l with
  | [] => True
  | a :: t => Forall (fun b => lend (rloc a) <= lstart (rloc b)) t /\ sorted_disjoint t
  end.

Lemma simple_overlap p q : ps p < pe p -> ps q < pe q ->
  (overlap [p] [q] = true <-> ps p < pe q /\ ps q < pe p).
Proof. intros Hp Hq. cbn. unfold part_overlap, in_part. lia. Qed.

Lemma simple_shares p q : ps p < pe p -> ps q < pe q ->
  (shares_base [p] [q] <-> ps p < pe q /\ ps q < pe p).
Proof.
  intros Hp Hq. unfold shares_base, L.base_of. split.
  - intros (x & (a & [<-|[]] & Ha) & (b & [<-|[]] & Hb)). lia.
  - intros H. exists (Z.max (ps p) (ps q)). split; eexists; (split; [left; reflexivity|lia]).
Qed.

Lemma simple_coll_lt p q : ps p < pe p -> ps q < pe q -> overlap [p] [q] = false ->
  coll_lt [p] [q] = (pe p <=? ps q) /\ (coll_lt [p] [q] = false -> pe q <= ps p).
Proof.
  intros Hp Hq Ho.
  assert (Hd : ~ (ps p < pe q /\ ps q < pe p)) by (intros H; apply (simple_overlap p q Hp Hq) in H; congruence).
  unfold coll_lt, kstart. cbn [bridges is_compound contains forallb existsb lstart llen map lmin fold_left fold_right].
  unfold part_contains.
  repeat match goal with |- context [if ?c then _ else _] => destruct c eqn:? end; split; try intros H; lia.
Qed.

Lemma lstart1 p : lstart [p] = ps p. Proof. reflexivity. Qed.
Lemma lend1 p : lend [p] = pe p. Proof. reflexivity. Qed.

Lemma existsb_overlap_spec N new : ps new < pe new -> forall regs, Forall (simple_reg N) regs ->
  (existsb (fun ex => overlap [new] (rloc ex)) regs = true <-> exists ex, In ex regs /\ shares_base [new] (rloc ex)).
Proof.
  intros Hn regs Hs. rewrite existsb_exists. rewrite Forall_forall in Hs.
  split; intros (ex & Hin & H); exists ex; (split; [exact Hin|]);
    destruct (Hs ex Hin) as (q & Hq & ? & ? & ?); rewrite Hq in *.
  - apply simple_shares; [lia|lia|]. apply simple_overlap; assumption.
  - apply simple_overlap; [lia|lia|]. apply simple_shares in H; [exact H|lia|lia].
Qed.

Lemma add_index_spec N new : ps new < pe new -> forall regs i,
  Forall (simple_reg N) regs -> sorted_disjoint regs ->
  (forall ex, In ex regs -> overlap [new] (rloc ex) = false) ->
  exists k, add_index [new] regs i = (i + k)%nat /\ (k <= length regs)%nat /\
            Forall (fun a => lend (rloc a) <= ps new) (firstn k regs) /\
            Forall (fun b => pe new <= lstart (rloc b)) (skipn k regs).
Proof.
  intros Hn. induction regs as [|ex regs IH]; intros i Hs Hsd Hno.
  - exists 0%nat. cbn. rewrite Nat.add_0_r. repeat split; auto.
  - inversion Hs as [|? ? (q & Hq & Hq0 & Hq1 & Hq2) Hs']; subst. destruct Hsd as [Hall Hsd'].
    assert (Ho : overlap [new] [q] = false) by (rewrite <- Hq; apply Hno; left; reflexivity).
    cbn [add_index]. rewrite Hq.
    destruct (simple_coll_lt new q Hn Hq1 Ho) as [Hlt Hge].
    destruct (coll_lt [new] [q]) eqn:Hc.
    + (* the new region lies before ex, hence before every later region *)
      assert (Hbefore : pe new <= ps q) by lia.
      exists 0%nat. rewrite Nat.add_0_r. cbn [firstn skipn length]. repeat split; [lia|constructor|].
      constructor; [rewrite Hq, lstart1; lia|].
      rewrite Forall_forall in Hall, Hs'. apply Forall_forall. intros b Hb.
      specialize (Hall b Hb). destruct (Hs' b Hb) as (q' & Hq' & ? & ? & ?).
      rewrite Hq' in *. rewrite Hq in Hall. rewrite lend1, lstart1 in *. lia.
    + specialize (Hge eq_refl).
      destruct (IH (S i) Hs' Hsd') as (k & Hk & Hlen & Hf & Hsk); [intros ex' Hin; apply Hno; right; exact Hin|].
      exists (S k). rewrite Hk. cbn [firstn skipn length]. repeat split; [lia|lia| |assumption].
      constructor; [rewrite Hq, lend1; lia|assumption].
Qed.

Lemma add_scan_spec N new : ps new < pe new -> forall regs i,
  Forall (simple_reg N) regs -> sorted_disjoint regs ->
  ((exists ex, In ex regs /\ shares_base [new] (rloc ex)) -> add_scan [new] regs i = Err E_Value) /\
  (~ (exists ex, In ex regs /\ shares_base [new] (rloc ex)) ->
   exists k, add_scan [new] regs i = Ok (i + k)%nat /\ (k <= length regs)%nat /\
             Forall (fun a => lend (rloc a) <= ps new) (firstn k regs) /\
             Forall (fun b => pe new <= lstart (rloc b)) (skipn k regs)).
Proof.
  intros Hn regs i Hs Hsd. unfold add_scan.
  pose proof (existsb_overlap_spec N new Hn regs Hs) as Hex.
  destruct (existsb (fun ex => overlap [new] (rloc ex)) regs) eqn:E.
  - split; [reflexivity|]. intros Hno. exfalso. apply Hno. apply Hex. reflexivity.
  - split; [intros H; apply Hex in H; discriminate|]. intros _.
    destruct (add_index_spec N new Hn regs i Hs Hsd) as (k & Hk & Hrest).
    + intros ex Hin. destruct (overlap [new] (rloc ex)) eqn:Ho; [|reflexivity].
      assert (existsb (fun ex => overlap [new] (rloc ex)) regs = true) by (apply existsb_exists; exists ex; split; assumption).
      congruence.
    + exists k. rewrite Hk. split; [reflexivity|exact Hrest].
Qed.

Lemma sorted_disjoint_app_inv : forall l1 l2, sorted_disjoint (l1 ++ l2) -> sorted_disjoint l1 /\ sorted_disjoint l2 /\
  forall a b, In a l1 -> In b l2 -> lend (rloc a) <= lstart (rloc b).
Proof.
  induction l1 as [|x l1 IH]; intros l2 H; cbn [app sorted_disjoint] in *.
  - repeat split; auto. intros a b [].
  - destruct H as [Hall H]. destruct (IH l2 H) as (H1 & H2 & H3). apply Forall_app in Hall. destruct Hall as [Ha1 Ha2].
    repeat split; auto. intros a b [<-|Ha] Hb; [rewrite Forall_forall in Ha2; apply Ha2; assumption|apply H3; assumption].
Qed.

Lemma sorted_disjoint_insert : forall l1 l2 r,
  sorted_disjoint (l1 ++ l2) -> lstart (rloc r) <= lend (rloc r) ->
  Forall (fun a => lend (rloc a) <= lstart (rloc r)) l1 ->
  Forall (fun b => lend (rloc r) <= lstart (rloc b)) l2 ->
  sorted_disjoint (l1 ++ r :: l2).
Proof.
  induction l1 as [|x l1 IH]; intros l2 r H Hr H1 H2; cbn [app sorted_disjoint] in *.
  - split; assumption.
  - destruct H as [Hall H]. inversion H1; subst. split; [|apply IH; assumption].
    apply Forall_app in Hall. destruct Hall as [Ha1 Ha2]. apply Forall_app. split; [assumption|].
    constructor; [assumption|]. eapply Forall_impl; [|exact H2]. cbn. intros; lia.
Qed.

Lemma Forall_firstn_ {A} (P : A -> Prop) : forall n l, Forall P l -> Forall P (firstn n l).
Proof. induction n; intros l H; cbn; [constructor|]. destruct l; [constructor|]. inversion H; subst. constructor; auto. Qed.
Lemma Forall_skipn_ {A} (P : A -> Prop) : forall n l, Forall P l -> Forall P (skipn n l).
Proof. induction n; intros l H; cbn; [assumption|]. destruct l; [constructor|]. inversion H; subst. auto. Qed.

Lemma add_region_linear N regs r :
  Forall (simple_reg N) regs -> simple_reg N r -> sorted_disjoint regs ->
  ((exists ex, In ex regs /\ shares_base (rloc r) (rloc ex)) -> add_region N regs r = Err E_Value) /\
  (~ (exists ex, In ex regs /\ shares_base (rloc r) (rloc ex)) ->
   exists i, (i <= length regs)%nat /\ add_region N regs r = Ok (insert_at i r regs) /\
             sorted_disjoint (insert_at i r regs) /\ Forall (simple_reg N) (insert_at i r regs)).
Proof.
  intros Hs (p & Hp & Hp0 & Hp1 & Hp2) Hsd. unfold add_region. rewrite Hp, lstart1, lend1.
  replace ((ps p <? 0) || (N <? pe p)) with false by lia.
  destruct (add_scan_spec N p Hp1 regs 0%nat Hs Hsd) as [H1 H2]. split.
  - intros H. rewrite (H1 H). reflexivity.
  - intros H. destruct (H2 H) as (k & Hk & Hlen & Hf & Hsk). exists k. rewrite Hk. cbn [bind Nat.add].
    split; [assumption|]. split; [reflexivity|]. unfold insert_at. split.
    + apply sorted_disjoint_insert; [rewrite firstn_skipn; assumption|rewrite Hp, lstart1, lend1; lia| |];
        rewrite Hp, ?lstart1, ?lend1; assumption.
    + apply Forall_app. split; [apply Forall_firstn_; assumption|].
      constructor; [exists p; auto|apply Forall_skipn_; assumption].
Qed.

(* ====================================================================================
   Parent / region links: no history leaves a stale link
   ==================================================================================== *)
Lemma lget_set_all xs v : forall m x, lget x (lset_all xs v m) = if existsb (Z.eqb x) xs then v else lget x m.
Proof.
  unfold lset_all. induction xs as [|y xs IH]; intros m x; cbn [fold_left existsb]; [reflexivity|].
  rewrite IH. destruct (existsb (Z.eqb x) xs); [rewrite orb_true_r; reflexivity|]. rewrite orb_false_r.
  cbn [lget]. reflexivity.
Qed.
Lemma existsb_eqb_In x xs : existsb (Z.eqb x) xs = true <-> In x xs.
Proof. rewrite existsb_exists. split; [intros (y & Hy & E); apply Z.eqb_eq in E; subst; assumption|intros H; exists x; split; [assumption|apply Z.eqb_refl]]. Qed.

(* resetting every key of every group to None *)
Lemma lget_reset_groups {A} (keys : A -> list Z) : forall (gs : list A) m x,
  lget x (fold_left (fun m g => lset_all (keys g) None m) gs m)
  = if existsb (fun g => existsb (Z.eqb x) (keys g)) gs then None else lget x m.
Proof.
  induction gs as [|g gs IH]; intros m x; cbn [fold_left existsb]; [reflexivity|].
  rewrite IH, lget_set_all. destruct (existsb (Z.eqb x) (keys g)); cbn [orb]; [|reflexivity].
  destruct (existsb _ gs); reflexivity.
Qed.

Definition linv (st : lstate) : Prop :=
  (forall x c, lget x (l_pparent st) = Some c -> exists ch, In (c, ch) (l_cands st) /\ In x ch) /\
  (forall x r, lget x (l_aparent st) = Some r -> exists reg, In reg (l_regions st) /\ lr_id reg = r /\ In x (lr_members reg)) /\
  (forall g r, lget g (l_cdsreg st) = Some r -> exists reg, In reg (l_regions st) /\ lr_id reg = r /\ In g (lr_cds reg)).

Lemma linv_empty : linv l_empty.
Proof. repeat split; intros; discriminate. Qed.

Lemma linv_create : forall gs st, linv st -> linv (l_create gs st).
Proof.
  induction gs as [|[ms cds] gs IH]; intros st Hinv; cbn [l_create]; [exact Hinv|].
  apply IH. destruct Hinv as (H1 & H2 & H3). repeat split; cbn [l_pparent l_aparent l_cdsreg l_cands l_regions].
  - exact H1.
  - intros x r. rewrite lget_set_all. destruct (existsb (Z.eqb x) ms) eqn:E.
    + intros Hr. inversion Hr; subst. eexists. split; [apply in_or_app; right; left; reflexivity|].
      cbn. split; [reflexivity|apply existsb_eqb_In; exact E].
    + intros Hr. destruct (H2 x r Hr) as (reg & Hin & Hid & Hm). exists reg. split; [apply in_or_app; left; exact Hin|tauto].
  - intros g r. rewrite lget_set_all. destruct (existsb (Z.eqb g) cds) eqn:E.
    + intros Hr. inversion Hr; subst. eexists. split; [apply in_or_app; right; left; reflexivity|].
      cbn. split; [reflexivity|apply existsb_eqb_In; exact E].
    + intros Hr. destruct (H3 g r Hr) as (reg & Hin & Hid & Hm). exists reg. split; [apply in_or_app; left; exact Hin|tauto].
Qed.

Lemma linv_clear_regions st : linv st -> linv (l_clear_regions st).
Proof.
  intros (H1 & H2 & H3). unfold l_clear_regions. repeat split; cbn [l_pparent l_aparent l_cdsreg l_cands l_regions].
  - exact H1.
  - intros x r. rewrite lget_reset_groups. destruct (existsb _ (l_regions st)) eqn:E; [discriminate|].
    intros Hr. exfalso. destruct (H2 x r Hr) as (reg & Hin & _ & Hm).
    assert (existsb (fun g => existsb (Z.eqb x) (lr_members g)) (l_regions st) = true); [|congruence].
    apply existsb_exists. exists reg. split; [exact Hin|apply existsb_eqb_In; exact Hm].
  - intros g r. rewrite lget_reset_groups. destruct (existsb _ (l_regions st)) eqn:E; [discriminate|].
    intros Hr. exfalso. destruct (H3 g r Hr) as (reg & Hin & _ & Hm).
    assert (existsb (fun q => existsb (Z.eqb g) (lr_cds q)) (l_regions st) = true); [|congruence].
    apply existsb_exists. exists reg. split; [exact Hin|apply existsb_eqb_In; exact Hm].
Qed.

Lemma linv_recreate gs st : linv st -> linv (l_recreate gs st).
Proof.
  intros H. unfold l_recreate. destruct (l_regions st) eqn:E; [exact H|].
  apply linv_create. apply linv_clear_regions. exact H.
Qed.

Lemma linv_clear_cands gs st : linv st -> linv (l_clear_cands gs st).
Proof.
  intros (H1 & H2 & H3). unfold l_clear_cands. apply linv_recreate.
  repeat split; cbn [l_pparent l_aparent l_cdsreg l_cands l_regions]; [|exact H2|exact H3].
  intros x c. rewrite lget_reset_groups. destruct (existsb _ (l_cands st)) eqn:E; [discriminate|].
  intros Hr. exfalso. destruct (H1 x c Hr) as (ch & Hin & Hx).
  assert (existsb (fun g : Z * list Z => existsb (Z.eqb x) (snd g)) (l_cands st) = true); [|congruence].
  apply existsb_exists. exists (c, ch). split; [exact Hin|apply existsb_eqb_In; exact Hx].
Qed.

Lemma linv_clear_subs gs st : linv st -> linv (l_clear_subs gs st).
Proof. intros (H1 & H2 & H3). unfold l_clear_subs. apply linv_recreate. repeat split; assumption. Qed.

Lemma linv_strip gl st : linv st -> linv (l_strip gl st).
Proof.
  intros H. unfold l_strip.
  destruct (pop_grouping (l_no_protos st) gl) as [g1 gl1].
  destruct (pop_grouping (l_clear_cands g1 (l_no_protos st)) gl1) as [g2 gl2].
  destruct (pop_grouping (l_clear_cands g2 (l_clear_cands g1 (l_no_protos st))) gl2) as [g3 gl3].
  apply linv_clear_regions, linv_clear_subs, linv_clear_cands, linv_clear_cands.
  destruct H as (H1 & H2 & H3). repeat split; assumption.
Qed.

(* create_candidate_clusters: after the final loop a protocluster points at the LAST returned candidate that lists it *)
Lemma lget_point_all : forall (rs : list (Z * list Z)) m x c, lget x (fold_left l_point rs m) = Some c ->
  (exists ch, In (c, ch) rs /\ In x ch) \/ (lget x m = Some c /\ forall r, In r rs -> ~ In x (snd r)).
Proof.
  induction rs as [|[c0 ch0] rs IH]; intros m x c Hr; cbn [fold_left] in Hr; [right; split; [exact Hr|intros r []]|].
  destruct (IH _ _ _ Hr) as [(ch & Hin & Hx)|(Hm & Hno)]; [left; exists ch; split; [right; exact Hin|exact Hx]|].
  unfold l_point in Hm. cbn [fst snd] in Hm. rewrite lget_set_all in Hm. destruct (existsb (Z.eqb x) ch0) eqn:E.
  - inversion Hm; subst. left. exists ch0. split; [left; reflexivity|apply existsb_eqb_In; exact E].
  - right. split; [exact Hm|]. intros r [<-|Hin]; [cbn [snd]; intros Hx; apply existsb_eqb_In in Hx; congruence|apply Hno; exact Hin].
Qed.

Lemma l_cover_spec built returned : l_cover built returned = true ->
  forall b x, In b built -> In x (snd b) -> exists r, In r returned /\ In x (snd r).
Proof.
  unfold l_cover. intros H b x Hb Hx. rewrite forallb_forall in H. specialize (H b Hb). rewrite forallb_forall in H.
  specialize (H x Hx). apply existsb_exists in H. destruct H as (r & Hr & Hin). exists r. split; [exact Hr|apply existsb_eqb_In; exact Hin].
Qed.

Lemma linv_form built returned st : linv st -> linv (l_form true built returned st).
Proof.
  intros (H1 & H2 & H3). unfold l_form. destruct (l_cover built returned) eqn:Hc; [|repeat split; assumption].
  repeat split; cbn [l_pparent l_aparent l_cdsreg l_cands l_regions]; [|exact H2|exact H3].
  intros x c Hr. destruct (lget_point_all _ _ _ _ Hr) as [(ch & Hin & Hx)|(Hm & Hno)].
  - exists ch. split; [apply in_or_app; left; apply -> in_rev; exact Hin|exact Hx].
  - destruct (lget_point_all _ _ _ _ Hm) as [(ch & Hin & Hx)|(Hm' & _)].
    + exfalso. destruct (l_cover_spec _ _ Hc (c, ch) x Hin Hx) as (r & Hr' & Hxr). exact (Hno r Hr' Hxr).
    + destruct (H1 x c Hm') as (ch & Hin & Hx). exists ch. split; [apply in_or_app; right; exact Hin|exact Hx].
Qed.

Lemma linv_apply st o : linv st -> linv (l_apply st o).
Proof.
  intros H. destruct o as [built returned|p|c ch|s|gs| |gs|gs|gs|c ch|gl]; cbn [l_apply].
  - apply linv_form; exact H.
  - destruct H as (H1 & H2 & H3). repeat split; assumption.
  - destruct H as (H1 & H2 & H3). repeat split; cbn [l_pparent l_aparent l_cdsreg l_cands l_regions]; [|exact H2|exact H3].
    intros x c'. rewrite lget_set_all. destruct (existsb (Z.eqb x) ch) eqn:E.
    + intros Hr. inversion Hr; subst. exists ch. split; [left; reflexivity|apply existsb_eqb_In; exact E].
    + intros Hr. destruct (H1 x c' Hr) as (ch' & Hin & Hx). exists ch'. split; [right; exact Hin|exact Hx].
  - destruct H as (H1 & H2 & H3). repeat split; assumption.
  - apply linv_create; exact H.
  - apply linv_clear_regions; exact H.
  - apply linv_clear_cands; exact H.
  - unfold l_clear_subs. apply linv_recreate. destruct H as (H1 & H2 & H3). repeat split; assumption.
  - apply linv_clear_cands. destruct H as (H1 & H2 & H3). repeat split; assumption.
  - destruct H as (H1 & H2 & H3). repeat split; cbn [l_pparent l_aparent l_cdsreg l_cands l_regions]; [|exact H2|exact H3].
    intros x c' Hr. destruct (H1 x c' Hr) as (ch' & Hin & Hx). exists ch'. split; [right; exact Hin|exact Hx].
  - apply linv_strip; exact H.
Qed.

(* after strip_antismash_annotations nothing is linked at all *)
Lemma strip_no_regions gl st : l_regions (l_strip gl st) = [] /\ l_cands (l_strip gl st) = [].
Proof.
  unfold l_strip.
  destruct (pop_grouping (l_no_protos st) gl) as [g1 gl1].
  destruct (pop_grouping (l_clear_cands g1 (l_no_protos st)) gl1) as [g2 gl2].
  destruct (pop_grouping (l_clear_cands g2 (l_clear_cands g1 (l_no_protos st))) gl2) as [g3 gl3].
  split; [reflexivity|]. cbn [l_clear_regions l_cands].
  assert (Hc : forall gs st', l_cands (l_create gs st') = l_cands st').
  { induction gs as [|[ms cds] gs IH]; intros st'; cbn [l_create]; [reflexivity|]. rewrite IH. reflexivity. }
  assert (Hr : forall gs st', l_cands (l_recreate gs st') = l_cands st').
  { intros gs st'. unfold l_recreate. destruct (l_regions st'); [reflexivity|]. rewrite Hc. reflexivity. }
  unfold l_clear_subs. rewrite Hr. cbn [l_cands]. unfold l_clear_cands. rewrite Hr. reflexivity.
Qed.

Lemma linv_history : forall ops st, linv st -> linv (fold_left l_apply ops st).
Proof. induction ops as [|o ops IH]; intros st H; cbn [fold_left]; [exact H|]. apply IH. apply linv_apply. exact H. Qed.

Lemma no_stale_links : forall ops, let st := fold_left l_apply ops l_empty in
  (forall p c, lget p (l_pparent st) = Some c -> In c (map fst (l_cands st))) /\
  (forall a r, lget a (l_aparent st) = Some r -> In r (map lr_id (l_regions st))) /\
  (forall g r, lget g (l_cdsreg st) = Some r -> In r (map lr_id (l_regions st))).
Proof.
  intros ops st. destruct (linv_history ops l_empty linv_empty) as (H1 & H2 & H3). fold st in H1, H2, H3. repeat split.
  - intros p c Hr. destruct (H1 p c Hr) as (ch & Hin & _). apply in_map_iff. exists (c, ch). split; [reflexivity|exact Hin].
  - intros a r Hr. destruct (H2 a r Hr) as (reg & Hin & Hid & _). apply in_map_iff. exists reg. split; assumption.
  - intros g r Hr. destruct (H3 g r Hr) as (reg & Hin & Hid & _). apply in_map_iff. exists reg. split; assumption.
Qed.

(* create_candidate_clusters before repair e5074b2a (no final loop): the members of a candidate that was built last
   and then dropped as redundant keep pointing at it (hybrid 200 = {100, 101}, interleaved 201 = {100, 102, 101},
   neighbouring 202 = the same members at the same coordinates, dropped) *)
Lemma form_without_relink_stale : exists built returned p c,
  let st := l_form false built returned (fold_left l_apply [LAddProto 100; LAddProto 101; LAddProto 102] l_empty) in
  l_cover built returned = true /\ lget p (l_pparent st) = Some c /\ ~ In c (map fst (l_cands st)).
Proof.
  exists [(200, [100; 101]); (201, [100; 102; 101]); (202, [100; 101; 102])], [(201, [100; 102; 101]); (200, [100; 101])], 100, 202.
  vm_compute. repeat split; try reflexivity. intros [H|[H|[]]]; discriminate.
Qed.

(* add_region on ANY record, origin-spanning regions included: refused iff a base is shared *)
Definition wf_reg (r : cregion) : Prop := Forall L.wf_part (rloc r).
Fixpoint pw_disjoint (l : list cregion) : Prop :=
  match l with
  | [] => True
  | a :: t => Forall (fun b => ~ shares_base (rloc a) (rloc b)) t /\ pw_disjoint t
  end.

Lemma add_index_bounds new : forall regs i, (i <= add_index new regs i <= i + length regs)%nat.
Proof.
  induction regs as [|ex regs IH]; intros i; cbn [add_index length]; [lia|].
  destruct (coll_lt new (rloc ex)); [lia|]. specialize (IH (S i)). lia.
Qed.

Lemma pw_disjoint_insert r : forall i l, pw_disjoint l -> (forall ex, In ex l -> ~ shares_base (rloc r) (rloc ex)) ->
  pw_disjoint (insert_at i r l).
Proof.
  unfold insert_at. induction i as [|i IH]; intros l Hl Hno.
  - cbn [firstn skipn app pw_disjoint]. split; [apply Forall_forall; exact Hno|exact Hl].
  - destruct l as [|x l].
    + cbn. split; [constructor|exact I].
    + cbn [firstn skipn app pw_disjoint] in *. destruct Hl as [Hx Hl]. split.
      * rewrite <- (firstn_skipn i l) in Hx. apply Forall_app in Hx. destruct Hx as [H1 H2].
        apply Forall_app. split; [exact H1|]. constructor; [|exact H2].
        intros (y & Hy1 & Hy2). apply (Hno x (or_introl eq_refl)). exists y. split; assumption.
      * apply IH; [exact Hl|]. intros ex Hin. apply Hno. right. exact Hin.
Qed.

Lemma add_region_ring N regs r : Forall wf_reg regs -> wf_reg r -> 0 <= lstart (rloc r) -> lend (rloc r) <= N ->
  ((exists ex, In ex regs /\ shares_base (rloc r) (rloc ex)) -> add_region N regs r = Err E_Value) /\
  (~ (exists ex, In ex regs /\ shares_base (rloc r) (rloc ex)) ->
   exists i, (i <= length regs)%nat /\ add_region N regs r = Ok (insert_at i r regs) /\
             (pw_disjoint regs -> pw_disjoint (insert_at i r regs))).
Proof.
  intros Hs Hr H0 HN. unfold add_region, add_scan.
  replace ((lstart (rloc r) <? 0) || (N <? lend (rloc r))) with false by lia.
  assert (Hex : existsb (fun ex => overlap (rloc r) (rloc ex)) regs = true <->
                exists ex, In ex regs /\ shares_base (rloc r) (rloc ex)).
  { rewrite existsb_exists. rewrite Forall_forall in Hs.
    split; intros (ex & Hin & H); exists ex; (split; [exact Hin|]);
      apply (L.overlap_spec (rloc r) (rloc ex) Hr (Hs ex Hin)); exact H. }
  destruct (existsb (fun ex => overlap (rloc r) (rloc ex)) regs) eqn:E.
  - split; [reflexivity|]. intros Hno. exfalso. apply Hno. apply Hex. reflexivity.
  - split; [intros H; apply Hex in H; discriminate|]. intros Hno.
    exists (add_index (rloc r) regs 0). cbn [bind]. split; [pose proof (add_index_bounds (rloc r) regs 0); lia|].
    split; [reflexivity|]. intros Hpw. apply pw_disjoint_insert; [exact Hpw|].
    intros ex Hin Hsh. apply Hno. exists ex. split; assumption.
Qed.

(* ====================================================================================
   Circular records without origin-spanning areas: create_regions finds the same sections as on
   a linear record (so C06_components_linear applies)
   ==================================================================================== *)
Section TwoLocations.
Variables (N : Z) (a b : part).
Hypotheses (Ha1 : ps a < pe a) (Hb0 : 0 <= ps b) (Hb1 : ps b < pe b) (Hb2 : pe b <= N)
           (Ho1 : ps a < pe b) (Ho2 : ps b < pe a).

Lemma ws2 : wrapping_shorter [[a]; [b]] N = false.
Proof.
  assert (0 <= N / 2) by (apply Z.div_pos; lia).
  unfold wrapping_shorter. cbn [existsb bridges is_compound orb].
  unfold sort_by. cbn [fold_left insert_by]. unfold key_lt. cbn [lstart lend map lmin lmax fold_left].
  destruct ((ps b <? ps a) || (ps b =? ps a) && (pe b <? pe a)); cbn [existsb lstart lend map lmin lmax fold_left]; lia.
Qed.

Lemma split2 : split_sections [[a]; [b]] N = Ok ([[a]; [b]], []).
Proof. unfold split_sections. rewrite ws2. reflexivity. Qed.

Definition h2 := mkPart (Z.min (ps a) (ps b)) (Z.max (pe a) (pe b)) (common_strand [[a]; [b]]).

Lemma line2 : connect_line [[a]; [b]] = Ok [h2].
Proof.
  unfold connect_line. cbn [existsb bridges is_compound orb mapM reduce_parts bind].
  unfold hull, mkFL. cbn [map lstart lend lmin lmax fold_left ps pe].
  replace (Z.max (pe a) (pe b) <? Z.min (ps a) (ps b)) with false by lia. reflexivity.
Qed.

Lemma moo2 : merge_over_origin [[a]; [b]] N = Ok [[h2]].
Proof. unfold merge_over_origin. rewrite split2. cbn [bind]. rewrite line2. reflexivity. Qed.

Lemma connect2 f : connect (S f) [[a]; [b]] (Some N) = Ok [h2].
Proof.
  cbn [connect existsb bridges is_compound orb mapM reduce_parts bind].
  destruct (N <=? 0) eqn:E; [lia|].
  change (@cons loc) with (@cons (list part)); change (@nil loc) with (@nil (list part)). rewrite moo2. reflexivity.
Qed.

Lemma connect2_line f : connect (S f) [[a]; [b]] None = Ok [h2].
Proof.
  cbn [connect existsb bridges is_compound orb mapM reduce_parts bind].
  unfold hull, mkFL. cbn [map lstart lend lmin lmax fold_left ps pe].
  replace (Z.max (pe a) (pe b) <? Z.min (ps a) (ps b)) with false by lia. reflexivity.
Qed.
End TwoLocations.

Definition simple_area (N : Z) (a : carea) : Prop := exists p, cloc a = [p] /\ 0 <= ps p /\ ps p < pe p /\ pe p <= N.
Definition area_of (a : carea) : itv := mkItv (lstart (cloc a)) (lend (cloc a)).
Definition lin_of_sec (sec : loc * list carea) : Z * Z * list itv := (lstart (fst sec), lend (fst sec), map area_of (snd sec)).
Definition grp_of_sec (sec : loc * list carea) : group := (lstart (fst sec), lend (fst sec), rev (map area_of (snd sec))).
Definition lin_of_grp (g : group) : Z * Z * list itv := let '(cs, he, ms) := g in (cs, he, rev ms).
Definition sec_simple (sec : loc * list carea) : Prop := exists q, fst sec = [q] /\ ps q < pe q.

Lemma connect_two N w p q : w = None \/ w = Some N ->
  ps q < pe q -> 0 <= ps p -> ps p < pe p -> pe p <= N -> ps q < pe p -> ps p < pe q ->
  connect_locations [[q]; [p]] w = Ok [h2 q p].
Proof.
  intros [->| ->] H1 H2 H3 H4 H5 H6; unfold connect_locations, connect_fuel; cbn [length Nat.mul Nat.add].
  - apply connect2_line; assumption.
  - apply (connect2 N q p); assumption.
Qed.

Lemma coll_lt_simple p q : ps p <= pe p -> ps q <= pe q ->
  coll_lt [p] [q] = area_lt (mkItv (ps p) (pe p)) (mkItv (ps q) (pe q)).
Proof.
  intros Hp Hq. unfold coll_lt, kstart, area_lt.
  cbn [bridges is_compound contains forallb existsb lstart llen map lmin fold_left fold_right s e].
  unfold part_contains.
  repeat match goal with |- context [if ?c then _ else _] => destruct c eqn:? end; lia.
Qed.

Lemma step_overlap N p q ms rest : 0 <= ps p -> ps p < pe p -> pe p <= N -> ps q < pe q ->
  step N 0 ((ps p, pe p, ms) :: rest) (mkItv (ps q) (pe q))
  = if overlap [q] [p] then (Z.min (ps p) (ps q), Z.max (pe p) (pe q), mkItv (ps q) (pe q) :: ms) :: rest
    else (ps q, pe q, [mkItv (ps q) (pe q)]) :: (ps p, pe p, ms) :: rest.
Proof.
  intros H0 H1 H2 Hq. unfold step. cbn [s e].
  destruct (overlap [q] [p]) eqn:Ho.
  - apply simple_overlap in Ho; [|lia|lia]. replace ((ps q <? Z.min N (pe p + 0)) && (Z.max 0 (ps p - 0) <? pe q)) with true by lia. reflexivity.
  - assert (~ (ps q < pe p /\ ps p < pe q)) by (intros H; apply (simple_overlap q p) in H; [congruence|lia|lia]).
    replace ((ps q <? Z.min N (pe p + 0)) && (Z.max 0 (ps p - 0) <? pe q)) with false by lia. reflexivity.
Qed.

Lemma lin_grp_sec sec : lin_of_grp (grp_of_sec sec) = lin_of_sec sec.
Proof. unfold lin_of_grp, grp_of_sec, lin_of_sec. rewrite rev_involutive. reflexivity. Qed.

Lemma csweep_sim N w : w = None \/ w = Some N -> forall areas location incl_rev secs_rev p,
  Forall (simple_area N) areas -> location = [p] -> 0 <= ps p -> ps p < pe p -> pe p <= N ->
  exists final, csweep w location incl_rev secs_rev areas = Ok final /\
    map lin_of_sec final
    = map lin_of_grp (rev (fold_left (step N 0) (map area_of areas)
                                     ((ps p, pe p, map area_of incl_rev) :: map grp_of_sec secs_rev))) /\
    (Forall sec_simple secs_rev -> Forall sec_simple final).
Proof.
  intros Hw. induction areas as [|a r IH]; intros location incl_rev secs_rev p Hs -> Hp0 Hp1 Hp2.
  - cbn [csweep map fold_left]. eexists. split; [reflexivity|]. split.
    + rewrite (map_rev lin_of_sec), (map_rev lin_of_grp). f_equal. cbn [map]. f_equal.
      * unfold lin_of_sec, lin_of_grp. cbn [fst snd]. rewrite map_rev. reflexivity.
      * rewrite map_map. apply map_ext. intros sec. symmetry. apply lin_grp_sec.
    + intros Hf. apply Forall_rev. constructor; [exists p; split; [reflexivity|assumption]|assumption].
  - inversion Hs as [|? ? (q & Hq & Hq0 & Hq1 & Hq2) Hs']; subst.
    cbn [csweep map fold_left]. rewrite Hq.
    assert (Ha : area_of a = mkItv (ps q) (pe q)) by (unfold area_of; rewrite Hq; reflexivity).
    rewrite Ha, step_overlap by assumption.
    destruct (overlap [q] [p]) eqn:Ho; cbn [negb].
    + pose proof Ho as Ho'. apply simple_overlap in Ho'; [|lia|lia]. destruct Ho' as [Ho1 Ho2].
      change (@cons loc) with (@cons (list part)); change (@nil loc) with (@nil (list part)).
      rewrite (connect_two N w p q Hw) by assumption. cbn [bind].
      destruct (IH [h2 q p] (a :: incl_rev) secs_rev (h2 q p) Hs' eq_refl) as (final & Hf & Hm & Hsimple);
        [cbn; lia|cbn; lia|cbn; lia|].
      exists final. split; [exact Hf|]. split; [|exact Hsimple].
      rewrite Hm. cbn [h2 ps pe map]. rewrite Ha, (Z.min_comm (ps q)), (Z.max_comm (pe q)). reflexivity.
    + destruct (IH [q] [a] (([p], rev incl_rev) :: secs_rev) q Hs' eq_refl Hq0 Hq1 Hq2) as (final & Hf & Hm & Hsimple).
      exists final. split; [exact Hf|]. split.
      * rewrite Hm. cbn [map]. rewrite Ha. unfold grp_of_sec at 1. cbn [fst snd lstart lend map lmin lmax fold_left].
        rewrite (map_rev area_of), rev_involutive. reflexivity.
      * intros Hsec. apply Hsimple. constructor; [exists p; split; [reflexivity|assumption]|assumption].
Qed.

Lemma csweep_members (P : carea -> Prop) w : forall areas location incl_rev secs_rev final,
  Forall P areas -> Forall P incl_rev -> Forall (fun sec => Forall P (snd sec)) secs_rev ->
  csweep w location incl_rev secs_rev areas = Ok final -> Forall (fun sec => Forall P (snd sec)) final.
Proof.
  induction areas as [|a r IH]; intros location incl_rev secs_rev final Ha Hi Hs; cbn [csweep].
  - intros H. injection H as <-. apply Forall_app. split; [apply Forall_rev; exact Hs|].
    constructor; [cbn [snd]; apply Forall_rev; exact Hi|constructor].
  - inversion Ha; subst. destruct (negb (overlap (cloc a) location)).
    + apply IH; [assumption|constructor; [assumption|constructor]|].
      constructor; [cbn [snd]; apply Forall_rev; exact Hi|exact Hs].
    + destruct (connect_locations [cloc a; location] w) as [l|k]; cbn [bind]; [|discriminate].
      apply IH; [assumption|constructor; assumption|assumption].
Qed.

Lemma insert_by_map {A B} (f : A -> B) (lt : A -> A -> bool) (lt' : B -> B -> bool) (P : A -> Prop) :
  (forall x y, P x -> P y -> lt x y = lt' (f x) (f y)) ->
  forall x l, P x -> Forall P l ->
  map f (insert_by lt x l) = insert_by lt' (f x) (map f l) /\ Forall P (insert_by lt x l).
Proof.
  intros H x. induction l as [|y l IH]; intros Hx Hl; cbn [insert_by map].
  - split; [reflexivity|constructor; auto].
  - inversion Hl; subst. rewrite <- H by assumption. destruct (lt x y); cbn [map].
    + split; [reflexivity|constructor; assumption].
    + destruct (IH Hx H3) as [E F]. rewrite E. split; [reflexivity|constructor; assumption].
Qed.

Lemma sort_by_map {A B} (f : A -> B) (lt : A -> A -> bool) (lt' : B -> B -> bool) (P : A -> Prop) :
  (forall x y, P x -> P y -> lt x y = lt' (f x) (f y)) ->
  forall l, Forall P l -> map f (sort_by lt l) = sort_by lt' (map f l) /\ Forall P (sort_by lt l).
Proof.
  intros H. unfold sort_by.
  assert (G : forall l acc, Forall P l -> Forall P acc ->
              map f (fold_left (fun acc x => insert_by lt x acc) l acc)
              = fold_left (fun acc x => insert_by lt' x acc) (map f l) (map f acc) /\
              Forall P (fold_left (fun acc x => insert_by lt x acc) l acc)).
  { induction l as [|x l IH]; intros acc Hl Hacc; cbn [fold_left map]; [split; [reflexivity|assumption]|].
    inversion Hl; subst. destruct (insert_by_map f lt lt' P H x acc H2 Hacc) as [E F].
    destruct (IH (insert_by lt x acc) H3 F) as [E' F']. rewrite E', E. split; [reflexivity|assumption]. }
  intros l Hl. apply (G l []); [assumption|constructor].
Qed.

Lemma hulls_first_last : forall gs, hulls_ordered gs -> forall f rest x, rev gs = f :: rest -> In x rest ->
  snd (fst f) <= fst (fst x).
Proof.
  intros gs Hord f rest x Hrev Hin.
  assert (Hgs : gs = rev rest ++ [f]) by (rewrite <- (rev_involutive gs), Hrev; reflexivity).
  rewrite Hgs in Hord. apply ho_app_last in Hord. rewrite Forall_forall in Hord. apply Hord. apply -> in_rev. exact Hin.
Qed.

Lemma simple_area_wf N a : simple_area N a -> wf N (area_of a).
Proof. intros (p & Hp & H0 & H1 & H2). unfold area_of, wf. rewrite Hp. cbn. lia. Qed.

(* ---------- the merge of the sections overlapping the first one ---------- *)
Lemma cmerge_pass_none w floc fareas : forall others_rev kept m,
  Forall (fun sec : csec => overlap floc (fst sec) = false) others_rev ->
  cmerge_pass w floc fareas others_rev kept m = Ok (floc, fareas, rev others_rev ++ kept, m).
Proof.
  induction others_rev as [|[oloc oareas] r IH]; intros kept m H; [reflexivity|].
  inversion H; subst. cbn [fst] in *. cbn [cmerge_pass]. rewrite H2. cbn [negb].
  rewrite IH by assumption. cbn [rev]. rewrite <- app_assoc. reflexivity.
Qed.

(* a pass that reports `merged = False` changed nothing and met no section overlapping the first *)
Lemma cmerge_pass_post w : forall others_rev floc fareas kept m l a kept',
  cmerge_pass w floc fareas others_rev kept m = Ok (l, a, kept', false) ->
  l = floc /\ a = fareas /\ kept' = rev others_rev ++ kept /\ m = false /\
  Forall (fun sec : csec => overlap floc (fst sec) = false) others_rev.
Proof.
  induction others_rev as [|[oloc oareas] r IH]; intros floc fareas kept m l a kept' H; cbn [cmerge_pass] in H.
  - inversion H; subst. repeat split; constructor.
  - destruct (overlap floc oloc) eqn:Ho; cbn [negb] in H.
    + destruct (connect_locations [floc; oloc] w) as [l'|k]; cbn [bind] in H; [|discriminate].
      apply IH in H. destruct H as (_ & _ & _ & Hm & _). discriminate.
    + apply IH in H. destruct H as (-> & -> & -> & -> & Hf). repeat split.
      * cbn [rev]. rewrite <- app_assoc. reflexivity.
      * constructor; [exact Ho|exact Hf].
Qed.

(* a pass never lengthens the list, and a pass that merged shortened it *)
Lemma cmerge_pass_len w : forall others_rev floc fareas kept m l a kept' m',
  cmerge_pass w floc fareas others_rev kept m = Ok (l, a, kept', m') ->
  (length kept' <= length others_rev + length kept)%nat /\
  (m = false -> m' = true -> (length kept' < length others_rev + length kept)%nat).
Proof.
  induction others_rev as [|[oloc oareas] r IH]; intros floc fareas kept m l a kept' m' H; cbn [cmerge_pass] in H.
  - inversion H; subst. cbn [length]. split; [lia|]. intros -> H'; discriminate.
  - destruct (overlap floc oloc) eqn:Ho; cbn [negb] in H.
    + destruct (connect_locations [floc; oloc] w) as [l'|k]; cbn [bind] in H; [|discriminate].
      apply IH in H. destruct H as [H1 _]. cbn [length]. split; [lia|]. intros _ _. lia.
    + apply IH in H. destruct H as [H1 H2]. cbn [length] in *. split; [lia|]. intros Hm Hm'. specialize (H2 Hm Hm'). lia.
Qed.

Definition first_absorbs (secs : list csec) : Prop :=
  match secs with
  | [] => True
  | (floc, _) :: rest => Forall (fun sec : csec => overlap floc (fst sec) = false) rest
  end.

Lemma cmerge_loop_post w : forall fuel secs secs', cmerge_loop fuel w secs = Ok secs' -> first_absorbs secs'.
Proof.
  induction fuel as [|f IH]; intros secs secs' H; cbn [cmerge_loop] in H; [discriminate|].
  destruct secs as [|[floc fareas] rest]; [inversion H; exact I|].
  destruct (cmerge_pass w floc fareas (rev rest) [] false) as [[[[l a] kept] merged]|k] eqn:Hp; cbn [bind] in H; [|discriminate].
  destruct merged; [apply IH in H; exact H|].
  inversion H; subst. apply cmerge_pass_post in Hp. destruct Hp as (-> & -> & -> & _ & Hf).
  cbn [first_absorbs]. rewrite app_nil_r, rev_involutive. apply Forall_rev in Hf. rewrite rev_involutive in Hf. exact Hf.
Qed.

Lemma cfixup_post w secs secs' : cfixup w secs = Ok secs' -> first_absorbs secs'.
Proof.
  unfold cfixup. destruct secs as [|[floc fareas] [|r1 rest]]; intros H.
  - inversion H. exact I.
  - inversion H. constructor.
  - eapply cmerge_loop_post. exact H.
Qed.

(* the fuel of the while loop never runs out: any two fuels above the number of sections give the same result *)
Lemma cmerge_loop_fuel w : forall f1 f2 secs, (length secs < f1)%nat -> (length secs < f2)%nat ->
  cmerge_loop f1 w secs = cmerge_loop f2 w secs.
Proof.
  induction f1 as [|f1 IH]; intros f2 secs H1 H2; [lia|]. destruct f2 as [|f2]; [lia|].
  cbn [cmerge_loop]. destruct secs as [|[floc fareas] rest]; [reflexivity|].
  destruct (cmerge_pass w floc fareas (rev rest) [] false) as [[[[l a] kept] merged]|k] eqn:Hp; cbn [bind]; [|reflexivity].
  destruct merged; [|reflexivity].
  apply cmerge_pass_len in Hp. destruct Hp as [_ Hlt]. specialize (Hlt eq_refl eq_refl).
  rewrite rev_length in Hlt. cbn [length] in *. apply IH; cbn [length]; lia.
Qed.

Lemma cfixup_fuel w secs extra : (1 < length secs)%nat ->
  cfixup w secs = cmerge_loop (S (length secs) + extra) w secs.
Proof.
  intros H. unfold cfixup. destruct secs as [|x [|y rest]]; cbn [length] in H; try lia.
  apply cmerge_loop_fuel; lia.
Qed.

Lemma ring_sections_linear N circular cands subs : Forall (simple_area N) (cands ++ subs) ->
  exists secs, csections (wrap_of N circular) cands subs = Ok secs /\
               map lin_of_sec secs = regions N (map area_of (cands ++ subs)) /\ Forall sec_simple secs /\
               Forall (fun sec => Forall (simple_area N) (snd sec)) secs.
Proof.
  intros Hs.
  assert (Hw : wrap_of N circular = None \/ wrap_of N circular = Some N) by (destruct circular; cbn; auto).
  assert (Hwf : Forall (wf N) (map area_of (cands ++ subs))).
  { apply Forall_forall. intros i Hi. apply in_map_iff in Hi. destruct Hi as (a & <- & Ha).
    apply simple_area_wf. rewrite Forall_forall in Hs. apply Hs. exact Ha. }
  rewrite (regions_are_sections N _ Hwf).
  destruct (sort_by_map area_of (fun a b => coll_lt (cloc a) (cloc b)) area_lt (simple_area N)) with (l := cands ++ subs)
    as [Hsort Hsimple]; [|exact Hs|].
  { intros x y (p & Hp & ? & ? & ?) (q & Hq & ? & ? & ?). unfold area_of. rewrite Hp, Hq. apply coll_lt_simple; lia. }
  unfold csections, sections. rewrite <- Hsort.
  destruct (sort_by _ (cands ++ subs)) as [|a r] eqn:Hsorted.
  - exists []. repeat split; constructor.
  - inversion Hsimple as [|? ? (p & Hp & Hp0 & Hp1 & Hp2) Hr]; subst.
    assert (Hasimple : simple_area N a) by (exists p; auto).
    destruct (csweep_sim N _ Hw r (cloc a) [a] [] p Hr Hp Hp0 Hp1 Hp2) as (final & Hf & Hm & Hfs).
    rewrite Hf. cbn [bind].
    assert (Hsw : sweep N 0 (map area_of (a :: r)) = fold_left (step N 0) (map area_of r) [(ps p, pe p, [area_of a])]).
    { assert (Hsi : s (area_of a) = ps p /\ e (area_of a) = pe p) by (unfold area_of; rewrite Hp; split; reflexivity).
      unfold sweep. cbn [map fold_left]. f_equal. unfold step. destruct Hsi as [-> ->]. reflexivity. }
    assert (Hm' : map lin_of_sec final = map lin_of_grp (rev (sweep N 0 (map area_of (a :: r))))) by (rewrite Hsw; exact Hm).
    clear Hm. rename Hm' into Hm.
    specialize (Hfs (Forall_nil _)).
    (* no later section overlaps the first one: the merge loop stops after one pass *)
    assert (Hfix : cfixup (wrap_of N circular) final = Ok final).
    { unfold cfixup. destruct final as [|[floc fareas] [|r1 rest]]; try reflexivity.
      cbn [cmerge_loop]. rewrite cmerge_pass_none; [cbn [bind]; rewrite app_nil_r, rev_involutive; reflexivity|].
      apply Forall_rev. apply Forall_forall. intros [lloc lareas] Hl. cbn [fst].
      assert (Hord : hulls_ordered (sweep N 0 (map area_of (a :: r)))).
      { rewrite Hsort. destruct (sections_spec N _ Hwf) as (_ & _ & _ & lo & Hinv). eapply inv_hulls_ordered. exact Hinv. }
      destruct (rev (sweep N 0 (map area_of (a :: r)))) as [|g0 grest] eqn:Hrev; [discriminate|].
      cbn [map] in Hm. injection Hm as Hg0 Hrest.
      assert (Hx : In (lin_of_sec (lloc, lareas)) (map lin_of_grp grest)).
      { rewrite <- Hrest. apply (in_map lin_of_sec (r1 :: rest)). exact Hl. }
      apply in_map_iff in Hx. destruct Hx as (x & Hxeq & Hxin).
      pose proof (hulls_first_last _ Hord g0 grest x Hrev Hxin) as Hle.
      rewrite Forall_forall in Hfs.
      destruct (Hfs (floc, fareas)) as (qf & Hqf & Hqf1); [left; reflexivity|].
      destruct (Hfs (lloc, lareas)) as (ql & Hql & Hql1); [right; exact Hl|].
      cbn [fst] in Hqf, Hql. subst floc lloc.
      destruct g0 as [[c0 h0] m0], x as [[cx hx] mx]. unfold lin_of_sec, lin_of_grp in Hg0, Hxeq. cbn [fst snd] in *.
      inversion Hg0; inversion Hxeq; subst.
      destruct (overlap [qf] [ql]) eqn:Ho; [|reflexivity]. apply simple_overlap in Ho; [|lia|lia].
      rewrite lend1, lstart1 in Hle. lia. }
    exists final. split; [exact Hfix|]. split; [|split; [exact Hfs|]].
    + rewrite Hm. reflexivity.
    + eapply (csweep_members (simple_area N)); [exact Hr|constructor; [exact Hasimple|constructor]|constructor|exact Hf].
Qed.

(* the layout of the repaired finding origin_spanning_area: sub-regions 29..42, 90..99, 60..24 (origin-spanning) and
   59..77 on a ring of 100 give the two components {60..24, 90..99, 59..77} and {29..42} *)
Lemma ring_f12_layout :
  let sub i l := mkCA i 0 l in
  let a0 := sub 0 [mkPart 29 42 1] in let a1 := sub 1 [mkPart 90 99 1] in
  let a2 := sub 2 [mkPart 60 100 1; mkPart 0 24 1] in let a3 := sub 3 [mkPart 59 77 1] in
  record_regions 100 true [a0; a1; a2; a3]
  = Ok [mkCR [mkPart 59 100 1; mkPart 0 24 1] [] [a2; a1; a3]; mkCR [mkPart 29 42 1] [] [a0]].
Proof. vm_compute. reflexivity. Qed.

(* what is still false with an origin-spanning area (origin_spanning_long_arc): (a) an area that shares no base with
   any other area ends up in their region, which is the whole record; (b) the whole-record location of such a
   region overlaps the region of another component and creation raises *)
Lemma ring_counterexamples :
  (exists N supply reg a b, record_regions N true supply = Ok [reg] /\ In a (rsubs reg) /\ In b (rsubs reg) /\
     forall c, In c supply -> cid c <> cid b -> ~ shares_base (cloc b) (cloc c)) /\
  (exists N supply, record_regions N true supply = Err E_Value).
Proof.
  split.
  - exists 1000, [mkCA 0 0 [mkPart 953 1000 1; mkPart 0 499 1]; mkCA 1 0 [mkPart 495 499 1]; mkCA 2 0 [mkPart 497 508 1];
                  mkCA 3 0 [mkPart 532 572 1]].
    eexists. exists (mkCA 0 0 [mkPart 953 1000 1; mkPart 0 499 1]), (mkCA 3 0 [mkPart 532 572 1]).
    split; [vm_compute; reflexivity|]. split; [cbn; tauto|]. split; [cbn; tauto|].
    intros c Hc Hne (x & (p & Hp & Hx) & (q & Hq & Hy)).
    destruct Hp as [<-|[]]. cbn [ps pe] in Hx.
    destruct Hc as [<-|[<-|[<-|[<-|[]]]]]; cbn [cloc cid] in *; try congruence;
      repeat (destruct Hq as [<-|Hq]; [cbn [ps pe] in Hy; lia|]); destruct Hq.
  - exists 300, [mkCA 0 0 [mkPart 128 161 1]; mkCA 1 1 [mkPart 158 198 1]; mkCA 2 0 [mkPart 189 300 1; mkPart 0 20 1];
                 mkCA 3 1 [mkPart 113 117 1]].
    vm_compute. reflexivity.
Qed.

(* ---------- Region.__init__ and add_region on these sections: one region per section ---------- *)
Definition sec_tight (N : Z) (sec : loc * list carea) : Prop :=
  snd sec <> [] /\ Forall (simple_area N) (snd sec) /\
  (forall a, In a (snd sec) -> lstart (fst sec) <= lstart (cloc a) /\ lend (cloc a) <= lend (fst sec)) /\
  (exists a, In a (snd sec) /\ lstart (cloc a) = lstart (fst sec)) /\
  (exists a, In a (snd sec) /\ lend (cloc a) = lend (fst sec)).

Lemma simple_locs_of N l : Forall (simple_area N) l ->
  L.simple_locs (map cloc l) /\ Forall L.wf_loc (map cloc l).
Proof.
  induction 1 as [|a l (p & Hp & H0 & H1 & H2) _ [IH1 IH2]]; cbn [map]; split; try constructor; try assumption.
  - exists p. exact Hp.
  - rewrite Hp. split; [discriminate|]. constructor; [exact H1|constructor].
Qed.

Lemma region_init_simple N cs ss c0 h0 :
  ss ++ cs <> [] -> Forall (simple_area N) (ss ++ cs) ->
  (forall a, In a (ss ++ cs) -> c0 <= lstart (cloc a) /\ lend (cloc a) <= h0) ->
  (exists a, In a (ss ++ cs) /\ lstart (cloc a) = c0) -> (exists a, In a (ss ++ cs) /\ lend (cloc a) = h0) ->
  exists h, region_init cs ss = Ok (mkCR [h] cs ss) /\ ps h = c0 /\ pe h = h0 /\ 0 <= c0 /\ c0 < h0 /\ h0 <= N.
Proof.
  intros Hne Hs Hb (amin & Hamin & Hmin) (amax & Hamax & Hmax).
  unfold region_init. remember (ss ++ cs) as children eqn:Hch.
  destruct children as [|ch0 chr]; [congruence|]. set (children := ch0 :: chr) in *.
  destruct (simple_locs_of N children Hs) as [Hsl Hwl].
  rewrite (L.existsb_bridges_simple _ Hsl).
  destruct (L.connect_line_simple (map cloc children)) as (h & Hc & Hps & Hpe & _ & Hlt); [discriminate|assumption|assumption|].
  rewrite Hc. cbn [bind is_compound].
  assert (Hh0 : ps h = c0).
  { rewrite Hps. apply Z.le_antisymm.
    - apply L.lmin_le. rewrite map_map. apply in_map_iff. exists amin. split; assumption.
    - assert (Hin : In (lmin (map lstart (map cloc children))) (map lstart (map cloc children))) by (apply L.lmin_in; discriminate).
      rewrite map_map in Hin. apply in_map_iff in Hin. destruct Hin as (x & Hx & Hxin). rewrite map_map, <- Hx. apply Hb. exact Hxin. }
  assert (Hh1 : pe h = h0).
  { rewrite Hpe. apply Z.le_antisymm.
    - assert (Hin : In (lmax (map lend (map cloc children))) (map lend (map cloc children))) by (apply L.lmax_in; discriminate).
      rewrite map_map in Hin. apply in_map_iff in Hin. destruct Hin as (x & Hx & Hxin). rewrite map_map, <- Hx. apply Hb. exact Hxin.
    - apply L.lmax_ge. rewrite map_map. apply in_map_iff. exists amax. split; assumption. }
  assert (Hrange : 0 <= c0 /\ h0 <= N).
  { rewrite Forall_forall in Hs. destruct (Hs amin Hamin) as (p & Hp & ? & ? & ?). destruct (Hs amax Hamax) as (q & Hq & ? & ? & ?).
    rewrite Hp in Hmin. rewrite Hq in Hmax. rewrite lstart1 in Hmin. rewrite lend1 in Hmax. lia. }
  cbn [all_same_strand forallb negb]. rewrite lstart1, lend1.
  replace (pe h <? ps h) with false by lia. replace (ps h <? 0) with false by lia. cbn [andb].
  assert (Hcont : forallb (fun c => contains [h] (cloc c)) children = true).
  { apply forallb_forall. intros c Hc'. rewrite Forall_forall in Hs. destruct (Hs c Hc') as (q & Hq & ? & ? & ?).
    destruct (Hb c Hc') as [Hb1 Hb2]. rewrite Hq in *. rewrite lstart1 in Hb1. rewrite lend1 in Hb2.
    cbn [contains forallb existsb]. unfold part_contains. lia. }
  rewrite Hcont. cbn [negb]. exists h. repeat split; try assumption; try lia.
Qed.

(* a list of sections in location order, pairwise disjoint *)
Fixpoint secs_ordered (l : list (loc * list carea)) : Prop :=
  match l with
  | [] => True
  | x :: t => Forall (fun y => lend (fst x) <= lstart (fst y)) t /\ secs_ordered t
  end.

Definition region_of_sec (sec : loc * list carea) : Z * Z * list carea * list carea :=
  (lstart (fst sec), lend (fst sec), fst (split_kinds (snd sec)), snd (split_kinds (snd sec))).
Definition region_view (r : cregion) : Z * Z * list carea * list carea := (lstart (rloc r), lend (rloc r), rcands r, rsubs r).

Lemma split_kinds_perm l : Permutation (snd (split_kinds l) ++ fst (split_kinds l)) l.
Proof.
  unfold split_kinds. cbn [fst snd]. induction l as [|a l IH]; cbn [filter]; [constructor|].
  destruct (ckind a =? 1); cbn [negb app].
  - apply Permutation_sym. apply Permutation_cons_app. apply Permutation_sym. exact IH.
  - constructor. exact IH.
Qed.

Lemma add_sections_simple N : forall secs regs,
  Forall (simple_reg N) regs -> sorted_disjoint regs -> Forall (sec_tight N) secs -> secs_ordered secs ->
  (forall r sec, In r regs -> In sec secs -> lend (rloc r) <= lstart (fst sec)) ->
  exists regs', add_sections N regs secs = Ok regs' /\
    map region_view regs' = map region_view regs ++ map region_of_sec secs /\
    Forall (simple_reg N) regs' /\ sorted_disjoint regs'.
Proof.
  induction secs as [|[sl sareas] secs IH]; intros regs Hs Hsd Ht Ho Hbefore.
  - exists regs. cbn [add_sections map]. rewrite app_nil_r. auto.
  - inversion Ht as [|? ? (Hne & Hsimple & Hbounds & Hmin & Hmax) Ht']; subst. destruct Ho as [Hall Ho'].
    cbn [add_sections fst snd] in *.
    pose proof (split_kinds_perm sareas) as Hperm.
    destruct (split_kinds sareas) as [cs ss] eqn:Hsk. cbn [fst snd] in Hperm.
    assert (Hin : forall a, In a (ss ++ cs) <-> In a sareas).
    { intros a. split; intros H; [eapply Permutation_in; [exact Hperm|exact H]|eapply Permutation_in; [apply Permutation_sym; exact Hperm|exact H]]. }
    destruct (region_init_simple N cs ss (lstart sl) (lend sl)) as (h & Hri & Hh0 & Hh1 & Hr0 & Hr1 & Hr2).
    { intros E. apply Hne. apply Permutation_nil. rewrite E in Hperm. exact Hperm. }
    { apply Forall_forall. intros a Ha. rewrite Forall_forall in Hsimple. apply Hsimple. apply Hin. exact Ha. }
    { intros a Ha. apply Hbounds. apply Hin. exact Ha. }
    { destruct Hmin as (a & Ha & E). exists a. split; [apply Hin; exact Ha|exact E]. }
    { destruct Hmax as (a & Ha & E). exists a. split; [apply Hin; exact Ha|exact E]. }
    rewrite Hri. cbn [bind].
    (* the new region lies after every region of the record: it is appended *)
    assert (Hnew : simple_reg N (mkCR [h] cs ss)) by (exists h; cbn [rloc]; split; [reflexivity|lia]).
    assert (Hadd : add_region N regs (mkCR [h] cs ss) = Ok (regs ++ [mkCR [h] cs ss])).
    { unfold add_region. cbn [rloc]. rewrite lstart1, lend1. replace ((ps h <? 0) || (N <? pe h)) with false by lia.
      destruct (add_scan_spec N h ltac:(lia) regs 0%nat Hs Hsd) as [_ H2].
      destruct H2 as (k & Hk & Hlen & Hf & Hsk').
      { intros (ex & Hex & Hsh). rewrite Forall_forall in Hs. destruct (Hs ex Hex) as (q & Hq & ? & ? & ?).
        specialize (Hbefore ex (sl, sareas) Hex (or_introl eq_refl)). cbn [fst] in Hbefore.
        rewrite Hq in Hsh, Hbefore. rewrite lend1 in Hbefore. apply simple_shares in Hsh; lia. }
      rewrite Hk. cbn [bind Nat.add]. f_equal. unfold insert_at.
      assert (Hnil : skipn k regs = []).
      { destruct (skipn k regs) as [|x t] eqn:E; [reflexivity|]. exfalso.
        assert (Hx : In x regs) by (rewrite <- (firstn_skipn k regs), E; apply in_or_app; right; left; reflexivity).
        inversion Hsk'; subst. rewrite Forall_forall in Hs. destruct (Hs x Hx) as (q & Hq & ? & ? & ?).
        specialize (Hbefore x (sl, sareas) Hx (or_introl eq_refl)). cbn [fst] in Hbefore.
        rewrite Hq in *. rewrite lend1 in Hbefore. rewrite lstart1 in H1. lia. }
      rewrite Hnil. rewrite <- (firstn_skipn k regs) at 2. rewrite Hnil, app_nil_r. reflexivity. }
    rewrite Hadd. cbn [bind].
    destruct (IH (regs ++ [mkCR [h] cs ss])) as (regs' & Hr & Hview & Hs' & Hsd').
    + apply Forall_app. split; [assumption|constructor; [assumption|constructor]].
    + replace (regs ++ [mkCR [h] cs ss]) with (regs ++ mkCR [h] cs ss :: []) by reflexivity.
      apply sorted_disjoint_insert; [rewrite app_nil_r; assumption|cbn [rloc]; rewrite lstart1, lend1; lia| |constructor].
      apply Forall_forall. intros x Hx. cbn [rloc]. rewrite lstart1, Hh0. apply (Hbefore x (sl, sareas) Hx). left. reflexivity.
    + assumption.
    + assumption.
    + intros r sec Hr' Hsec. apply in_app_or in Hr'. destruct Hr' as [Hr'|[<-|[]]].
      * apply (Hbefore r sec Hr'). right. exact Hsec.
      * cbn [rloc]. rewrite lend1, Hh1. rewrite Forall_forall in Hall. apply Hall. exact Hsec.
    + exists regs'. split; [exact Hr|]. split; [|split; assumption].
      rewrite Hview, map_app, <- app_assoc. f_equal. cbn [map app]. f_equal.
      unfold region_view, region_of_sec. cbn [rloc rcands rsubs fst snd]. rewrite Hsk, lstart1, lend1, Hh0, Hh1. reflexivity.
Qed.

Fixpoint lin_ordered (l : list (Z * Z * list itv)) : Prop :=
  match l with
  | [] => True
  | x :: t => Forall (fun y => snd (fst x) <= fst (fst y)) t /\ lin_ordered t
  end.
Lemma lin_ordered_app_last : forall l x, lin_ordered l -> Forall (fun y => snd (fst y) <= fst (fst x)) l -> lin_ordered (l ++ [x]).
Proof.
  induction l as [|y l IH]; intros x Ho Hf; cbn [app lin_ordered]; [split; [constructor|exact I]|].
  destruct Ho as [Hy Ho]. inversion Hf; subst. split; [apply Forall_app; split; [assumption|constructor; [assumption|constructor]]|apply IH; assumption].
Qed.
Lemma hulls_lin_ordered : forall gs, hulls_ordered gs -> lin_ordered (map lin_of_grp (rev gs)).
Proof.
  induction gs as [|[[cs he] ms] rest IH]; intros H; [exact I|]. destruct H as [Hf Hr].
  cbn [rev]. rewrite map_app. apply lin_ordered_app_last; [apply IH; exact Hr|].
  apply Forall_forall. intros y Hy. apply in_map_iff in Hy. destruct Hy as ([[cs' he'] ms'] & <- & Hin).
  apply in_rev in Hin. rewrite Forall_forall in Hf. specialize (Hf _ Hin). cbn. exact Hf.
Qed.
Lemma secs_ordered_of_lin : forall secs, lin_ordered (map lin_of_sec secs) -> secs_ordered secs.
Proof.
  induction secs as [|x secs IH]; intros H; [exact I|]. destruct H as [Hf Hr]. split; [|apply IH; exact Hr].
  apply Forall_forall. intros y Hy. rewrite Forall_forall in Hf. apply (Hf (lin_of_sec y)). apply in_map. exact Hy.
Qed.

Lemma ring_create_regions N circular cands subs : Forall (simple_area N) (cands ++ subs) ->
  exists secs regs,
    csections (wrap_of N circular) cands subs = Ok secs /\
    create_regions N circular [] cands subs = Ok regs /\
    map lin_of_sec secs = regions N (map area_of (cands ++ subs)) /\
    map region_view regs = map region_of_sec secs /\
    sorted_disjoint regs /\ Forall (simple_reg N) regs.
Proof.
  intros Hs. destruct (ring_sections_linear N circular cands subs Hs) as (secs & Hsec & Hlin & _ & Hmem).
  assert (Hwf : Forall (wf N) (map area_of (cands ++ subs))).
  { apply Forall_forall. intros i Hi. apply in_map_iff in Hi. destruct Hi as (a & <- & Ha).
    apply simple_area_wf. rewrite Forall_forall in Hs. apply Hs. exact Ha. }
  rewrite (regions_are_sections N _ Hwf) in Hlin.
  destruct (sections_spec N _ Hwf) as (_ & Hgroups & _ & lo & Hinv).
  set (gs := sweep N 0 (sort_by area_lt (map area_of (cands ++ subs)))) in *.
  assert (Hlin' : map lin_of_sec secs = map lin_of_grp (rev gs)) by exact Hlin.
  assert (Hord : secs_ordered secs).
  { apply secs_ordered_of_lin. rewrite Hlin'. apply hulls_lin_ordered. eapply inv_hulls_ordered. exact Hinv. }
  assert (Htight : Forall (sec_tight N) secs).
  { apply Forall_forall. intros sec Hsecin.
    assert (Hx : In (lin_of_sec sec) (map lin_of_grp (rev gs))) by (rewrite <- Hlin'; apply in_map; exact Hsecin).
    apply in_map_iff in Hx. destruct Hx as ([[cs he] ms] & Hxeq & Hxin). apply in_rev in Hxin.
    destruct (Hgroups _ Hxin) as (Hne & Hb & (mn & Hmn & Hmns) & (mx & Hmx & Hmxe) & _).
    unfold lin_of_grp, lin_of_sec in Hxeq. injection Hxeq as Hcs Hhe Hms. cbn [members core_of fst snd] in *.
    assert (Hin : forall m, In m ms <-> exists a, In a (snd sec) /\ area_of a = m).
    { intros m. rewrite (in_rev ms m), Hms, in_map_iff. split; intros (a & H1 & H2); exists a; tauto. }
    rewrite Forall_forall in Hmem. unfold sec_tight. repeat split.
    - intros E. apply Hne. rewrite E in Hms. cbn in Hms. destruct ms; [reflexivity|]. cbn in Hms. destruct (rev ms); discriminate.
    - apply Hmem. exact Hsecin.
    - rewrite <- Hcs. apply (Hb (area_of a)). apply Hin. exists a. split; [assumption|reflexivity].
    - rewrite <- Hhe. apply (Hb (area_of a)). apply Hin. exists a. split; [assumption|reflexivity].
    - apply Hin in Hmn. destruct Hmn as (a & Ha & <-). exists a. split; [exact Ha|]. rewrite <- Hcs. exact Hmns.
    - apply Hin in Hmx. destruct Hmx as (a & Ha & <-). exists a. split; [exact Ha|]. rewrite <- Hhe. exact Hmxe. }
  destruct (add_sections_simple N secs [] (Forall_nil _) I Htight Hord) as (regs & Hr & Hview & Hsr & Hsd); [intros r sec []|].
  exists secs, regs. unfold create_regions. rewrite Hsec. cbn [bind].
  rewrite (regions_are_sections N _ Hwf). repeat split; assumption.
Qed.


(* ====================================================================================
   A gene added after the regions: what the bisected window of _link_cds_to_parent finds
   ==================================================================================== *)
Lemma hits_from_sound : forall window g k i, In i (hits_from k window g) ->
  (k <= i)%nat /\ exists r, nth_error window (i - k) = Some r /\ contains r g = true.
Proof.
  induction window as [|r t IH]; intros g k i Hin; cbn [hits_from] in Hin; [destruct Hin|].
  destruct (contains r g) eqn:E.
  - destruct Hin as [<-|Hin].
    + split; [lia|]. exists r. rewrite Nat.sub_diag. split; [reflexivity|exact E].
    + destruct (IH g (S k) i Hin) as (Hle & r' & Hn & Hc). split; [lia|]. exists r'. split; [|exact Hc].
      replace (i - k)%nat with (S (i - S k)) by lia. exact Hn.
  - destruct (IH g (S k) i Hin) as (Hle & r' & Hn & Hc). split; [lia|]. exists r'. split; [|exact Hc].
    replace (i - k)%nat with (S (i - S k)) by lia. exact Hn.
Qed.

Lemma nth_error_firstn_some {A} : forall n (l : list A) j x, nth_error (firstn n l) j = Some x -> nth_error l j = Some x.
Proof.
  induction n as [|n IH]; intros l j x H; [destruct j; discriminate|].
  destruct l as [|y l]; [destruct j; discriminate|]. destruct j as [|j]; [exact H|]. cbn in H |- *. apply IH. exact H.
Qed.
Lemma nth_error_skipn_ {A} : forall n (l : list A) j, nth_error (skipn n l) j = nth_error l (n + j).
Proof.
  induction n as [|n IH]; intros l j; [reflexivity|]. destruct l as [|y l]; [destruct j; reflexivity|]. cbn. apply IH.
Qed.

(* the gene is only ever linked to a region of the record that contains it *)
Lemma link_hits_sound regs g i : In i (link_hits regs g) ->
  exists r, nth_error regs i = Some r /\ contains r g = true.
Proof.
  unfold link_hits, link_window. intros Hin. apply in_app_or in Hin. destruct Hin as [Hin|Hin].
  - (* the region put in front of the slice: region 0 *)
    apply hits_from_sound in Hin. destruct Hin as (_ & r & Hn & Hc). exists r. split; [|exact Hc].
    unfold link_first in Hn. destruct regs as [|r0 rest]; [destruct (i - 0)%nat; discriminate|].
    destruct (_ && bridges r0); [|destruct (i - 0)%nat; discriminate].
    destruct i as [|i]; [exact Hn|]. cbn in Hn. destruct i; discriminate.
  - apply hits_from_sound in Hin. destruct Hin as (Hle & r & Hn & Hc). exists r. split; [|exact Hc].
    apply nth_error_firstn_some in Hn. rewrite nth_error_skipn_ in Hn. rewrite <- Hn. f_equal. lia.
Qed.

(* after a history that ends with strip_antismash_annotations no link is left at all *)
Lemma strip_resets_everything : forall ops gl, let st := fold_left l_apply (ops ++ [LStrip gl]) l_empty in
  (forall p, lget p (l_pparent st) = None) /\ (forall a, lget a (l_aparent st) = None) /\
  (forall g, lget g (l_cdsreg st) = None).
Proof.
  intros ops gl st. destruct (no_stale_links (ops ++ [LStrip gl])) as (H1 & H2 & H3). fold st in H1, H2, H3.
  assert (Hst : st = l_strip gl (fold_left l_apply ops l_empty)).
  { unfold st. rewrite fold_left_app. reflexivity. }
  destruct (strip_no_regions gl (fold_left l_apply ops l_empty)) as [Hr Hc]. rewrite <- Hst in Hr, Hc.
  rewrite Hr in H2, H3. rewrite Hc in H1. repeat split.
  - intros p. destruct (lget p (l_pparent st)) as [c|] eqn:E; [destruct (H1 p c E)|reflexivity].
  - intros a. destruct (lget a (l_aparent st)) as [r|] eqn:E; [destruct (H2 a r E)|reflexivity].
  - intros g. destruct (lget g (l_cdsreg st)) as [r|] eqn:E; [destruct (H3 g r E)|reflexivity].
Qed.


(* ====================================================================================
   A gene added after the regions: completeness of the candidates of _link_cds_to_parent (repaired finding
   late_gene_origin_region_unlinked)
   ==================================================================================== *)
(* ---- the binary search on a list that the test splits into a true prefix and a false suffix ---- *)
Lemma div2_bounds lo hi : (lo < hi)%nat -> (lo <= Nat.div2 (lo + hi) < hi)%nat.
Proof. intros H. rewrite Nat.div2_div. split.
  - apply Nat.div_le_lower_bound; lia.
  - apply Nat.div_lt_upper_bound; lia.
Qed.

Lemma bisect_go_partition {A} (p : A -> bool) (a b : list A) :
  (forall x, In x a -> p x = true) -> (forall x, In x b -> p x = false) ->
  forall fuel lo hi, (lo <= length a <= hi)%nat -> (hi <= length (a ++ b))%nat -> (hi - lo < fuel)%nat ->
  bisect_go p (a ++ b) fuel lo hi = length a.
Proof.
  intros Ha Hb. induction fuel as [|f IH]; intros lo hi Hk Hhi Hf; [lia|].
  cbn [bisect_go]. destruct (Nat.ltb lo hi) eqn:Hlt.
  - apply Nat.ltb_lt in Hlt. pose proof (div2_bounds lo hi Hlt) as Hm.
    set (mid := Nat.div2 (lo + hi)) in *.
    destruct (nth_error (a ++ b) mid) as [e|] eqn:Hn.
    + destruct (Nat.lt_ge_cases mid (length a)) as [Hma|Hma].
      * rewrite nth_error_app1 in Hn by exact Hma.
        rewrite (Ha e (nth_error_In _ _ Hn)). apply IH; lia.
      * rewrite nth_error_app2 in Hn by exact Hma.
        rewrite (Hb e (nth_error_In _ _ Hn)). apply IH; lia.
    + apply nth_error_None in Hn. lia.
  - apply Nat.ltb_ge in Hlt. lia.
Qed.

Lemma bisect_go_ge {A} (p : A -> bool) l : forall fuel lo hi, (lo <= bisect_go p l fuel lo hi)%nat.
Proof.
  induction fuel as [|f IH]; intros lo hi; cbn [bisect_go]; [lia|].
  destruct (Nat.ltb lo hi) eqn:Hlt; [|lia].
  apply Nat.ltb_lt in Hlt. pose proof (div2_bounds lo hi Hlt) as Hm.
  destruct (nth_error l (Nat.div2 (lo + hi))); [|lia].
  destruct (p a).
  - specialize (IH (S (Nat.div2 (lo + hi))) hi). lia.
  - apply IH.
Qed.

Lemma In_nth_firstn {A} (l : list A) k x : In x (firstn k l) -> exists j, (j < k)%nat /\ nth_error l j = Some x.
Proof.
  intros H. apply In_nth_error in H. destruct H as (j & Hj). exists j.
  assert (j < length (firstn k l))%nat by (apply nth_error_Some; congruence).
  rewrite firstn_length in H. split; [lia|]. rewrite nth_error_firstn_lt in Hj by lia. exact Hj.
Qed.
Lemma In_nth_skipn {A} (l : list A) k x : In x (skipn k l) -> exists j, (k <= j)%nat /\ nth_error l j = Some x.
Proof.
  intros H. apply In_nth_error in H. destruct H as (j & Hj). exists (k + j)%nat. split; [lia|].
  rewrite <- nth_error_skipn_. exact Hj.
Qed.

(* the test holds at every position before k and fails at every position from k on: bisect_left answers k *)
Lemma bisect_left_split {A} (p : A -> bool) (l : list A) k : (k <= length l)%nat ->
  (forall j x, (j < k)%nat -> nth_error l j = Some x -> p x = true) ->
  (forall j x, (k <= j)%nat -> nth_error l j = Some x -> p x = false) ->
  bisect_left p l = k.
Proof.
  intros Hk Ht Hf. unfold bisect_left. rewrite <- (firstn_skipn k l) at 1.
  assert (Hlen : length (firstn k l) = k) by (rewrite firstn_length; lia).
  rewrite <- Hlen at 3.
  replace (length l) with (length (firstn k l ++ skipn k l)) by (now rewrite firstn_skipn).
  apply bisect_go_partition.
  - intros x Hx. apply In_nth_firstn in Hx. destruct Hx as (j & Hj & Hn). exact (Ht j x Hj Hn).
  - intros x Hx. apply In_nth_skipn in Hx. destruct Hx as (j & Hj & Hn). exact (Hf j x Hj Hn).
  - rewrite Hlen, app_length, Hlen. lia.
  - lia.
  - lia.
Qed.

(* ---- what the loop over the candidates finds ---- *)
Lemma hits_from_complete : forall window g k j r, nth_error window j = Some r -> contains r g = true ->
  In (k + j)%nat (hits_from k window g).
Proof.
  induction window as [|r0 t IH]; intros g k j r Hn Hc; [destruct j; discriminate|].
  cbn [hits_from]. destruct j as [|j].
  - cbn in Hn. injection Hn as ->. rewrite Hc. left. lia.
  - cbn [nth_error] in Hn. specialize (IH g (S k) j r Hn Hc). replace (k + S j)%nat with (S k + j)%nat by lia.
    destruct (contains r0 g); [right|]; exact IH.
Qed.

(* a region containing the gene at position left - 1 or left lies in the slice *)
Lemma link_hits_window regs g i r : nth_error regs i = Some r -> contains r g = true ->
  let left := bisect_left (fun r => coll_lt r g) regs in
  (left - 1 <= i <= left)%nat -> In i (link_hits regs g).
Proof.
  intros Hn Hc left Hi. unfold link_hits, link_window. fold left.
  set (right := bisect_from (fun r0 => negb (feat_lt g r0)) regs left).
  assert (Hr : (left <= right)%nat) by (unfold right, bisect_from; apply bisect_go_ge).
  apply in_or_app. right.
  replace i with ((left - 1) + (i - (left - 1)))%nat at 1 by lia.
  apply (hits_from_complete _ g _ _ r); [|exact Hc].
  rewrite nth_error_firstn_lt by lia. rewrite nth_error_skipn_. rewrite <- Hn. f_equal. lia.
Qed.

(* region 0, when it crosses the origin and contains the gene, is always among the candidates *)
Lemma link_hits_first regs g r0 : nth_error regs 0 = Some r0 -> bridges r0 = true -> contains r0 g = true ->
  In 0%nat (link_hits regs g).
Proof.
  intros Hn Hb Hc. unfold link_hits, link_window.
  set (left := bisect_left (fun r => coll_lt r g) regs).
  set (right := bisect_from (fun r1 => negb (feat_lt g r1)) regs left).
  assert (Hr : (left <= right)%nat) by (unfold right, bisect_from; apply bisect_go_ge).
  apply in_or_app. destruct (left - 1)%nat as [|f] eqn:Ef.
  - right. change 0%nat with (0 + 0)%nat at 1. apply (hits_from_complete _ g _ _ r0); [|exact Hc].
    rewrite nth_error_firstn_lt by lia. exact Hn.
  - left. destruct regs as [|x rest]; [discriminate|]. cbn in Hn. injection Hn as ->.
    unfold link_first. cbn [Nat.ltb Nat.leb andb]. rewrite Hb. cbn [hits_from]. rewrite Hc. now left.
Qed.

(* ---- the layouts of the region list: ascending, pairwise disjoint one-part regions, in front of them possibly one
   region [s, w) + [0, e) crossing the origin, every other region lying between e and s ---- *)
Definition simple_ok (N : Z) (x : part) : Prop := 0 <= ps x /\ ps x < pe x /\ pe x <= N.
Fixpoint asc (l : list part) : Prop :=
  match l with [] => True | x :: t => Forall (fun y => pe x <= ps y) t /\ asc t end.
Definition cross_ok (N : Z) (p q : part) : Prop :=
  pst p = 1 /\ pst q = 1 /\ ps q = 0 /\ 0 < pe q /\ pe q <= ps p /\ ps p < pe p /\ pe p = N.
Notation one := (fun x : part => ([x] : loc)).
Definition lay (N : Z) (regs : list loc) : Prop :=
  exists sl, Forall (simple_ok N) sl /\ asc sl /\
    (regs = map one sl \/
     exists p q, regs = [p; q] :: map one sl /\ cross_ok N p q /\ Forall (fun x => pe q <= ps x /\ pe x <= ps p) sl).

Lemma asc_nth : forall sl j k x y, asc sl -> (j < k)%nat -> nth_error sl j = Some x -> nth_error sl k = Some y -> pe x <= ps y.
Proof.
  induction sl as [|a t IH]; intros j k x y Ha Hjk Hx Hy; [destruct j; discriminate|].
  destruct Ha as [Hh Ht]. destruct k as [|k]; [lia|]. cbn [nth_error] in Hy. destruct j as [|j].
  - cbn in Hx. injection Hx as ->. rewrite Forall_forall in Hh. apply Hh. exact (nth_error_In _ _ Hy).
  - cbn [nth_error] in Hx. apply (IH j k x y Ht); [lia|exact Hx|exact Hy].
Qed.

(* the comparisons CDSCollection.__lt__(region, gene) that the bisection makes *)
Lemma cross_bridges N p q : cross_ok N p q -> bridges [p; q] = true.
Proof.
  intros (Hp & Hq & Hs & He & Hd & Hn & _). unfold bridges. cbn [is_compound lstrand forallb].
  rewrite Hp, Hq. cbn. lia.
Qed.

Lemma cross_kstart N p q : cross_ok N p q -> kstart [p; q] = ps p - pe p.
Proof.
  intros H. unfold kstart. rewrite (cross_bridges N p q H). destruct H as (Hp & Hq & Hs & He & Hd & Hn & _).
  unfold split_bridging. cbn [is_compound negb all_same_strand forallb lstrand]. rewrite Hp, Hq.
  cbn [Z.eqb andb negb]. cbn [split_fwd rev app].
  replace (ps p <? ps q) with false by lia. cbn [rev app nonempty andb negb].
  unfold valid_split. cbn [nonempty andb hull_part map lmin lmax fold_left]. unfold part_overlap, in_part. cbn [ps pe].
  cbn [sorted_le sorted_ge andb].
  cbn. match goal with |- context [if ?c then Err E_Value else Ok _] => destruct c eqn:Ec end; [exfalso; lia|].
  cbn. reflexivity.
Qed.

(* a one-part region strictly before the gene's start compares less; one that compares less does not start after it *)
Lemma simple_lt_gene x pg : ps x < pe x -> ps pg < pe pg ->
  (coll_lt [x] [pg] = true -> ps x <= ps pg) /\ (ps x < ps pg -> coll_lt [x] [pg] = true).
Proof.
  intros Hx Hg. unfold coll_lt, kstart.
  cbn [bridges is_compound contains forallb existsb lstart llen map lmin fold_left fold_right]. unfold part_contains.
  repeat match goal with |- context [if ?c then _ else _] => destruct c eqn:? end; split; intros H; lia.
Qed.

(* the crossing region compares less than a gene that lies in a region between its two parts *)
Lemma cross_lt_gene N p q x pg : cross_ok N p q -> pe q <= ps x -> pe x <= ps p -> ps pg < pe pg ->
  ps x <= ps pg -> pe pg <= pe x -> coll_lt [p; q] [pg] = true.
Proof.
  intros H Hqx Hxp Hg Hs He. unfold coll_lt. rewrite (cross_kstart N p q H).
  destruct H as (Hp & Hq & Hs0 & He0 & Hd & Hn & _).
  unfold kstart. cbn [bridges is_compound contains forallb existsb lstart llen map lmin fold_left fold_right]. unfold part_contains.
  repeat match goal with |- context [if ?c then _ else _] => destruct c eqn:? end; lia.
Qed.

Lemma contains_one x pg : contains [x] [pg] = true -> ps x <= ps pg /\ pe pg <= pe x.
Proof. cbn. unfold part_contains. lia. Qed.

(* THE completeness lemma: on such a layout, the region that contains a non-empty one-part gene is found *)
Lemma link_hits_complete N regs pg i r : lay N regs -> ps pg < pe pg ->
  nth_error regs i = Some r -> contains r [pg] = true -> In i (link_hits regs [pg]).
Proof.
  intros (sl & Hok & Hasc & Hshape) Hg Hn Hc.
  rewrite Forall_forall in Hok.
  (* the one-part regions: position j of sl *)
  assert (Hsimple : forall off, (forall j x, nth_error sl j = Some x -> nth_error regs (off + j) = Some [x]) ->
            (forall j y, nth_error regs j = Some y -> (j < off)%nat -> coll_lt y [pg] = true) ->
            (forall j y, nth_error regs (off + j) = Some y -> exists x, nth_error sl j = Some x /\ y = [x]) ->
            length regs = (off + length sl)%nat ->
            forall j x, nth_error sl j = Some x -> contains [x] [pg] = true -> In (off + j)%nat (link_hits regs [pg])).
  { intros off Hreg Hfront Hback Hlen j x Hx Hcx.
    apply contains_one in Hcx. destruct Hcx as [Hs He].
    assert (Hxok : simple_ok N x) by (apply Hok; exact (nth_error_In _ _ Hx)).
    set (k := if coll_lt [x] [pg] then S (off + j) else (off + j)%nat).
    assert (Hjlen : (j < length sl)%nat) by (apply nth_error_Some; congruence).
    assert (Hleft : bisect_left (fun r => coll_lt r [pg]) regs = k).
    { apply bisect_left_split.
      - unfold k. destruct (coll_lt [x] [pg]); lia.
      - intros j' y Hj' Hy. destruct (Nat.lt_ge_cases j' off) as [Hlo|Hhi]; [exact (Hfront j' y Hy Hlo)|].
        replace j' with (off + (j' - off))%nat in Hy by lia.
        destruct (Hback _ _ Hy) as (x' & Hx' & ->).
        assert (Hx'ok : simple_ok N x') by (apply Hok; exact (nth_error_In _ _ Hx')).
        destruct Hx'ok as (Hx'0 & Hx'ne & Hx'N).
        destruct (Nat.eq_dec (j' - off) j) as [E|NE].
        + rewrite E in Hx'. assert (x' = x) by congruence. subst x'.
          unfold k in Hj'. destruct (coll_lt [x] [pg]) eqn:Ecl; [reflexivity|lia].
        + assert (Hlt : (j' - off < j)%nat) by (unfold k in Hj'; destruct (coll_lt [x] [pg]); lia).
          pose proof (asc_nth sl _ _ x' x Hasc Hlt Hx' Hx) as Hord.
          apply (simple_lt_gene x' pg); [exact Hx'ne|exact Hg|]. lia.
      - intros j' y Hj' Hy.
        assert (Hoff : (off <= j')%nat) by (unfold k in Hj'; destruct (coll_lt [x] [pg]); lia).
        replace j' with (off + (j' - off))%nat in Hy by lia.
        destruct (Hback _ _ Hy) as (x' & Hx' & ->).
        assert (Hx'ok : simple_ok N x') by (apply Hok; exact (nth_error_In _ _ Hx')).
        destruct Hx'ok as (Hx'0 & Hx'ne & Hx'N).
        destruct (Nat.eq_dec (j' - off) j) as [E|NE].
        + rewrite E in Hx'. assert (x' = x) by congruence. subst x'.
          unfold k in Hj'. destruct (coll_lt [x] [pg]) eqn:Ecl; [lia|reflexivity].
        + assert (Hlt : (j < j' - off)%nat) by (unfold k in Hj'; destruct (coll_lt [x] [pg]); lia).
          pose proof (asc_nth sl _ _ x x' Hasc Hlt Hx Hx') as Hord.
          destruct (coll_lt [x'] [pg]) eqn:Ecl; [|reflexivity].
          apply (simple_lt_gene x' pg) in Ecl; [|exact Hx'ne|exact Hg]. lia. }
    apply (link_hits_window regs [pg] (off + j)%nat [x]).
    - apply Hreg. exact Hx.
    - cbn. unfold part_contains. lia.
    - cbv zeta. rewrite Hleft. unfold k. destruct (coll_lt [x] [pg]); lia. }
  destruct Hshape as [->|(p & q & -> & Hcross & Hbetween)].
  - (* no crossing region *)
    assert (Hi : exists x, nth_error sl i = Some x /\ r = [x]).
    { rewrite nth_error_map in Hn. destruct (nth_error sl i) as [x|]; [|discriminate]. exists x. cbn in Hn. split; congruence. }
    destruct Hi as (x & Hx & ->).
    apply (Hsimple 0%nat) with (j := i) (x := x); try assumption.
    + intros j y Hy. cbn. rewrite nth_error_map, Hy. reflexivity.
    + intros j y _ Hlt. lia.
    + intros j y Hy. cbn in Hy. rewrite nth_error_map in Hy. destruct (nth_error sl j) as [x'|]; [|discriminate].
      exists x'. cbn in Hy. split; congruence.
    + rewrite map_length. reflexivity.
  - destruct i as [|i].
    + (* the crossing region itself *)
      cbn in Hn. injection Hn as <-.
      apply (link_hits_first _ [pg] [p; q]); [reflexivity|exact (cross_bridges N p q Hcross)|exact Hc].
    + cbn [nth_error] in Hn.
      assert (Hi : exists x, nth_error sl i = Some x /\ r = [x]).
      { rewrite nth_error_map in Hn. destruct (nth_error sl i) as [x|]; [|discriminate]. exists x. cbn in Hn. split; congruence. }
      destruct Hi as (x & Hx & ->).
      change (S i) with (1 + i)%nat. apply (Hsimple 1%nat) with (j := i) (x := x); try assumption.
      * intros j y Hy. cbn. rewrite nth_error_map, Hy. reflexivity.
      * intros j y Hy Hlt. assert (j = 0%nat) by lia. subst j. cbn in Hy. injection Hy as <-.
        rewrite Forall_forall in Hbetween. destruct (Hbetween x (nth_error_In _ _ Hx)) as [Hqx Hxp].
        apply contains_one in Hc. destruct Hc as [Hs He].
        exact (cross_lt_gene N p q x pg Hcross Hqx Hxp Hg Hs He).
      * intros j y Hy. cbn in Hy. rewrite nth_error_map in Hy. destruct (nth_error sl j) as [x'|]; [|discriminate].
        exists x'. cbn in Hy. split; congruence.
      * cbn [length]. rewrite map_length. reflexivity.
Qed.

(* ---- add_region keeps the layout ---- *)
Definition reg_ok (N : Z) (l : loc) : Prop :=
  (exists x, l = [x] /\ simple_ok N x) \/ (exists p q, l = [p; q] /\ cross_ok N p q).

Lemma part_overlap_false a b : ps a < pe a -> ps b < pe b -> part_overlap a b = false -> pe a <= ps b \/ pe b <= ps a.
Proof. unfold part_overlap, in_part. lia. Qed.

Lemma cross_not_lt N n p q : cross_ok N p q -> simple_ok N n -> pe q <= ps n -> pe n <= ps p -> coll_lt [n] [p; q] = false.
Proof.
  intros H (Hn0 & Hn1 & Hn2) Hqn Hnp. unfold coll_lt. rewrite (cross_kstart N p q H).
  destruct H as (Hp & Hq & Hs0 & He0 & Hd & Hn & HN).
  unfold kstart. cbn [bridges is_compound contains forallb existsb lstart llen map lmin fold_left fold_right]. unfold part_contains.
  repeat match goal with |- context [if ?c then _ else _] => destruct c eqn:? end; lia.
Qed.
Lemma cross_lt_simple N x p q : cross_ok N p q -> simple_ok N x -> pe q <= ps x -> pe x <= ps p -> coll_lt [p; q] [x] = true.
Proof.
  intros H (Hn0 & Hn1 & Hn2) Hqn Hnp. unfold coll_lt. rewrite (cross_kstart N p q H).
  destruct H as (Hp & Hq & Hs0 & He0 & Hd & Hn & HN).
  unfold kstart. cbn [bridges is_compound contains forallb existsb lstart llen map lmin fold_left fold_right]. unfold part_contains.
  repeat match goal with |- context [if ?c then _ else _] => destruct c eqn:? end; lia.
Qed.

(* a one-part region that overlaps none of the ascending one-part regions goes between those before and those after it *)
Lemma add_index_simple N n (mk : part -> cregion) : (forall x, rloc (mk x) = [x]) -> simple_ok N n ->
  forall sl off, Forall (simple_ok N) sl -> asc sl ->
  Forall (fun x => overlap [n] [x] = false) sl ->
  exists sl1 sl2, sl = sl1 ++ sl2 /\ add_index [n] (map mk sl) off = (off + length sl1)%nat /\
    Forall (fun x => pe x <= ps n) sl1 /\ Forall (fun y => pe n <= ps y) sl2.
Proof.
  intros Hmk (Hn0 & Hn1 & Hn2). induction sl as [|x t IH]; intros off Hok Hasc Hno.
  - exists [], []. cbn. repeat split; try constructor. lia.
  - inversion Hok as [|? ? (Hx0 & Hx1 & Hx2) Hok']; subst. inversion Hno as [|? ? Hox Hno']; subst.
    destruct Hasc as [Hxt Hasc'].
    destruct (simple_coll_lt n x Hn1 Hx1 Hox) as [Hcl Hclf].
    cbn [map add_index]. rewrite Hmk. destruct (coll_lt [n] [x]) eqn:E.
    + exists [], (x :: t). cbn [app length]. repeat split; [lia|constructor|].
      constructor; [lia|]. rewrite Forall_forall in Hxt |- *. intros y Hy. specialize (Hxt y Hy). lia.
    + destruct (IH (S off) Hok' Hasc' Hno') as (sl1 & sl2 & -> & Hidx & H1 & H2).
      exists (x :: sl1), sl2. cbn [app length]. repeat split; [lia| |exact H2].
      constructor; [apply Hclf; reflexivity|exact H1].
Qed.

Lemma asc_app_intro : forall a b, asc a -> asc b -> (forall x y, In x a -> In y b -> pe x <= ps y) -> asc (a ++ b).
Proof.
  induction a as [|x a IH]; intros b Ha Hb Hab; [exact Hb|]. destruct Ha as [Hx Ha]. cbn [app asc]. split.
  - apply Forall_app. split; [exact Hx|]. apply Forall_forall. intros y Hy. apply Hab; [now left|exact Hy].
  - apply IH; [exact Ha|exact Hb|]. intros u v Hu Hv. apply Hab; [now right|exact Hv].
Qed.
Lemma asc_app_inv : forall a b, asc (a ++ b) -> asc a /\ asc b /\ (forall x y, In x a -> In y b -> pe x <= ps y).
Proof.
  induction a as [|x a IH]; intros b H; [split; [exact I|split; [exact H|intros ? ? []]]|].
  destruct H as [Hx H]. destruct (IH b H) as (Ha & Hb & Hab). apply Forall_app in Hx. destruct Hx as [Hxa Hxb].
  split; [split; assumption|]. split; [exact Hb|]. intros u v [<-|Hu] Hv; [|now apply Hab].
  rewrite Forall_forall in Hxb. now apply Hxb.
Qed.

Lemma map_insert_at {A B} (f : A -> B) i x l : map f (insert_at i x l) = insert_at i (f x) (map f l).
Proof. unfold insert_at. rewrite map_app, firstn_map, skipn_map. reflexivity. Qed.

Lemma add_index_locs new : forall regs regs' i, map rloc regs = map rloc regs' -> add_index new regs i = add_index new regs' i.
Proof.
  induction regs as [|a t IH]; intros [|b t'] i E; try discriminate; [reflexivity|].
  cbn in E. injection E as Eh Et. cbn [add_index]. rewrite Eh. destruct (coll_lt new (rloc b)); [reflexivity|]. now apply IH.
Qed.

Lemma skipn_length_app_ {A} (a b : list A) : skipn (length a) (a ++ b) = b.
Proof. induction a as [|x a IH]; [reflexivity|exact IH]. Qed.
Lemma firstn_length_app_ {A} (a b : list A) : firstn (length a) (a ++ b) = a.
Proof. induction a as [|x a IH]; [reflexivity|cbn [length app firstn]; now rewrite IH]. Qed.

Lemma lay_add_region N regs r regs' : lay N (map rloc regs) -> reg_ok N (rloc r) ->
  add_region N regs r = Ok regs' -> lay N (map rloc regs').
Proof.
  intros (sl & Hok & Hasc & Hshape) Hr H. unfold add_region in H.
  destruct ((lstart (rloc r) <? 0) || (N <? lend (rloc r))); [discriminate|].
  unfold add_scan in H. destruct (existsb (fun ex => overlap (rloc r) (rloc ex)) regs) eqn:Hex; [discriminate|].
  cbn [bind] in H. injection H as <-. rewrite map_insert_at.
  assert (Hno : forall l, In l (map rloc regs) -> overlap (rloc r) l = false).
  { intros l Hl. apply in_map_iff in Hl. destruct Hl as (ex & <- & Hin).
    destruct (overlap (rloc r) (rloc ex)) eqn:E; [|reflexivity].
    assert (existsb (fun ex => overlap (rloc r) (rloc ex)) regs = true) by (apply existsb_exists; exists ex; split; assumption).
    congruence. }
  set (mk := fun x : part => mkCR [x] [] []).
  destruct Hr as [(n & En & Hn)|(p & q & En & Hpq)]; rewrite En in *.
  - (* a one-part region *)
    destruct Hshape as [E|(p & q & E & Hcross & Hbetween)].
    + assert (Hnosl : Forall (fun x => overlap [n] [x] = false) sl).
      { apply Forall_forall. intros x Hx. apply Hno. rewrite E. apply in_map_iff. exists x. split; [reflexivity|exact Hx]. }
      destruct (add_index_simple N n mk (fun x => eq_refl) Hn sl 0%nat Hok Hasc Hnosl) as (sl1 & sl2 & Esl & Hidx & H1 & H2).
      rewrite (add_index_locs [n] regs (map mk sl) 0%nat) by (rewrite E, map_map; reflexivity).
      rewrite Hidx, E, Esl. cbn [Nat.add]. exists (sl1 ++ n :: sl2).
      rewrite Esl in Hok, Hasc. apply Forall_app in Hok. destruct Hok as [Hok1 Hok2].
      destruct (asc_app_inv _ _ Hasc) as (Ha1 & Ha2 & Ha12).
      split; [apply Forall_app; split; [exact Hok1|constructor; assumption]|]. split.
      * apply asc_app_intro; [exact Ha1|split; [exact H2|exact Ha2]|].
        intros x y Hx [<-|Hy]; [rewrite Forall_forall in H1; now apply H1|now apply Ha12].
      * left. unfold insert_at. rewrite map_app. rewrite <- (map_length (fun x => [x] : loc) sl1).
        rewrite firstn_length_app_, skipn_length_app_. rewrite map_app. reflexivity.
    + assert (Hnosl : Forall (fun x => overlap [n] [x] = false) sl).
      { apply Forall_forall. intros x Hx. apply Hno. rewrite E. right. apply in_map_iff. exists x. split; [reflexivity|exact Hx]. }
      assert (Hnc : overlap [n] [p; q] = false) by (apply Hno; rewrite E; now left).
      destruct Hn as (Hn0 & Hn1 & Hn2). pose proof Hcross as (Hp & Hq & Hs0 & He0 & Hd & Hpn & HN).
      cbn [overlap existsb] in Hnc. rewrite !orb_false_r in Hnc. apply orb_false_iff in Hnc. destruct Hnc as [Hnp Hnq].
      apply (part_overlap_false n p Hn1 Hpn) in Hnp. apply (part_overlap_false n q Hn1) in Hnq; [|lia].
      assert (Hqn : pe q <= ps n) by lia. assert (Hnp' : pe n <= ps p) by lia.
      destruct (add_index_simple N n mk (fun x => eq_refl) (conj Hn0 (conj Hn1 Hn2)) sl 1%nat Hok Hasc Hnosl)
        as (sl1 & sl2 & Esl & Hidx & H1 & H2).
      rewrite (add_index_locs [n] regs (mkCR [p; q] [] [] :: map mk sl) 0%nat) by (rewrite E; cbn [map rloc]; rewrite map_map; reflexivity).
      cbn [add_index rloc]. rewrite (cross_not_lt N n p q Hcross (conj Hn0 (conj Hn1 Hn2)) Hqn Hnp').
      rewrite Hidx, E, Esl. exists (sl1 ++ n :: sl2).
      rewrite Esl in Hok, Hasc, Hbetween. apply Forall_app in Hok. destruct Hok as [Hok1 Hok2].
      apply Forall_app in Hbetween. destruct Hbetween as [Hb1 Hb2].
      destruct (asc_app_inv _ _ Hasc) as (Ha1 & Ha2 & Ha12).
      split; [apply Forall_app; split; [exact Hok1|constructor; [repeat split; assumption|exact Hok2]]|]. split.
      * apply asc_app_intro; [exact Ha1|split; [exact H2|exact Ha2]|].
        intros x y Hx [<-|Hy]; [rewrite Forall_forall in H1; now apply H1|now apply Ha12].
      * right. exists p, q. split; [|split; [exact Hcross|]].
        -- unfold insert_at. change (1 + length sl1)%nat with (S (length sl1)). cbn [firstn skipn app].
           rewrite map_app. rewrite <- (map_length (fun x => [x] : loc) sl1).
           rewrite firstn_length_app_, skipn_length_app_. rewrite map_app. reflexivity.
        -- apply Forall_app. split; [exact Hb1|constructor; [split; assumption|exact Hb2]].
  - (* a region crossing the origin: the record has none yet, and it goes to the front *)
    pose proof Hpq as (Hp & Hq & Hs0 & He0 & Hd & Hpn & HN).
    destruct Hshape as [E|(p' & q' & E & Hcross & Hbetween)].
    2:{ exfalso. assert (Hnc : overlap [p; q] [p'; q'] = false) by (apply Hno; rewrite E; now left).
        destruct Hcross as (Hp' & Hq' & Hs0' & He0' & Hd' & Hpn' & HN').
        cbn [overlap existsb] in Hnc. unfold part_overlap, in_part in Hnc. lia. }
    assert (Hbetween : Forall (fun x => pe q <= ps x /\ pe x <= ps p) sl).
    { apply Forall_forall. intros x Hx.
      assert (Hnc : overlap [p; q] [x] = false) by (apply Hno; rewrite E; apply in_map_iff; exists x; split; [reflexivity|exact Hx]).
      rewrite Forall_forall in Hok. destruct (Hok x Hx) as (Hx0 & Hx1 & Hx2).
      cbn [overlap existsb] in Hnc. unfold part_overlap, in_part in Hnc. lia. }
    exists sl. split; [exact Hok|]. split; [exact Hasc|]. right. exists p, q. split; [|split; assumption].
    destruct sl as [|x t].
    + destruct regs; [|discriminate]. reflexivity.
    + destruct regs as [|r0 regs0]; [discriminate|]. cbn [map] in E. injection E as E0 Et.
      cbn [add_index]. rewrite E0.
      inversion Hbetween as [|? ? [Hqx Hxp] _]; subst. inversion Hok as [|? ? Hxok _]; subst.
      rewrite (cross_lt_simple _ x p q Hpq Hxok Hqx Hxp). unfold insert_at. cbn [firstn skipn app map]. rewrite E0, Et. reflexivity.
Qed.

Lemma add_region_incl N regs r regs' : add_region N regs r = Ok regs' -> In r regs' /\ incl regs regs'.
Proof.
  unfold add_region. destruct (_ || _); [discriminate|]. destruct (add_scan (rloc r) regs 0) as [i|]; [|discriminate].
  cbn [bind]. intros H. injection H as <-. unfold insert_at. split.
  - apply in_or_app. right. now left.
  - intros x Hx. rewrite <- (firstn_skipn i regs) in Hx. apply in_app_or in Hx. apply in_or_app.
    destruct Hx; [now left|right; now right].
Qed.

Lemma add_sections_incl N : forall secs regs out, add_sections N regs secs = Ok out -> incl regs out.
Proof.
  induction secs as [|[l areas] t IH]; intros regs out H.
  - cbn in H. injection H as <-. apply incl_refl.
  - cbn [add_sections] in H. destruct (split_kinds areas) as [cs ss].
    destruct (region_init cs ss) as [reg|]; [|discriminate]. cbn [bind] in H.
    destruct (add_region N regs reg) as [regs'|] eqn:Ea; [|discriminate]. cbn [bind] in H.
    destruct (add_region_incl _ _ _ _ Ea) as [_ Hi]. intros x Hx. apply (IH _ _ H). now apply Hi.
Qed.

Lemma add_sections_lay N : forall secs regs out, add_sections N regs secs = Ok out ->
  lay N (map rloc regs) -> Forall (fun r => reg_ok N (rloc r)) out -> lay N (map rloc out).
Proof.
  induction secs as [|[l areas] t IH]; intros regs out H Hlay Hok.
  - cbn in H. injection H as <-. exact Hlay.
  - cbn [add_sections] in H. destruct (split_kinds areas) as [cs ss].
    destruct (region_init cs ss) as [reg|]; [|discriminate]. cbn [bind] in H.
    destruct (add_region N regs reg) as [regs'|] eqn:Ea; [|discriminate]. cbn [bind] in H.
    apply (IH _ _ H); [|exact Hok].
    apply (lay_add_region N regs reg regs' Hlay); [|exact Ea].
    rewrite Forall_forall in Hok. apply Hok. apply (add_sections_incl _ _ _ _ H). exact (proj1 (add_region_incl _ _ _ _ Ea)).
Qed.

Lemma lay_nil N : lay N [].
Proof. exists []. split; [constructor|]. split; [exact I|]. now left. Qed.

(* every region list that create_regions builds on a record without regions, its locations being well-formed *)
Lemma late_gene_complete N circular cands subs regs : create_regions N circular [] cands subs = Ok regs ->
  Forall (fun r => reg_ok N (rloc r)) regs ->
  forall pg i r, ps pg < pe pg -> nth_error regs i = Some r -> contains (rloc r) [pg] = true ->
  In i (link_hits (map rloc regs) [pg]).
Proof.
  intros H Hok pg i r Hg Hn Hc. unfold create_regions in H.
  destruct (csections (wrap_of N circular) cands subs) as [secs|]; [|discriminate]. cbn [bind] in H.
  apply (link_hits_complete N (map rloc regs) pg i (rloc r)); [|exact Hg| |exact Hc].
  - exact (add_sections_lay N secs [] regs H (lay_nil N) Hok).
  - rewrite nth_error_map, Hn. reflexivity.
Qed.

(* on such a layout only region 0 can cross the origin *)
Lemma lay_bridges_first N regs i r : lay N regs -> nth_error regs i = Some r -> bridges r = true -> i = 0%nat.
Proof.
  intros (sl & _ & _ & Hshape) Hn Hb. destruct Hshape as [->|(p & q & -> & _)].
  - rewrite nth_error_map in Hn. destruct (nth_error sl i); [|discriminate]. cbn in Hn. injection Hn as <-. discriminate.
  - destruct i as [|i]; [reflexivity|]. cbn [nth_error] in Hn. rewrite nth_error_map in Hn.
    destruct (nth_error sl i); [|discriminate]. cbn in Hn. injection Hn as <-. discriminate.
Qed.

(* ... and any gene, of whatever shape, that region 0 contains while it crosses the origin is found *)
Lemma late_gene_complete_crossing N circular cands subs regs : create_regions N circular [] cands subs = Ok regs ->
  Forall (fun r => reg_ok N (rloc r)) regs ->
  forall g i r, nth_error regs i = Some r -> bridges (rloc r) = true -> contains (rloc r) g = true ->
  i = 0%nat /\ In i (link_hits (map rloc regs) g).
Proof.
  intros H Hok g i r Hn Hb Hc. unfold create_regions in H.
  destruct (csections (wrap_of N circular) cands subs) as [secs|]; [|discriminate]. cbn [bind] in H.
  pose proof (add_sections_lay N secs [] regs H (lay_nil N) Hok) as Hlay.
  assert (Hn' : nth_error (map rloc regs) i = Some (rloc r)) by (rewrite nth_error_map, Hn; reflexivity).
  pose proof (lay_bridges_first N _ i _ Hlay Hn' Hb) as ->. split; [reflexivity|].
  exact (link_hits_first _ g (rloc r) Hn' Hb Hc).
Qed.

(* the witness of the repaired finding: circular record of 1000, sub-regions 900..50 (origin-spanning), 100..200, 400..500,
   600..700 give four regions; the genes 950..980 and 10..40, both inside the first region, are linked to it when they
   are added after the regions (before the repair the first was linked to nothing), 120..150 to the second region *)
Lemma late_gene_witness :
  let sub i l := mkCA i 0 l in
  let supply := [sub 0 [mkPart 900 1000 1; mkPart 0 50 1]; sub 1 [mkPart 100 200 1]; sub 2 [mkPart 400 500 1];
                 sub 3 [mkPart 600 700 1]] in
  exists regs, record_regions 1000 true supply = Ok regs /\ Forall (fun r => reg_ok 1000 (rloc r)) regs /\
    link_hits (map rloc regs) [mkPart 950 980 1] = [0%nat] /\
    link_hits (map rloc regs) [mkPart 10 40 1] = [0%nat] /\
    link_hits (map rloc regs) [mkPart 120 150 1] = [1%nat] /\
    link_hits (map rloc regs) [mkPart 300 320 1] = [].
Proof.
  cbn zeta. eexists. split; [vm_compute; reflexivity|]. split.
  - repeat apply Forall_cons; [| | | |apply Forall_nil]; cbn [rloc].
    + right. eexists. eexists. split; [reflexivity|]. unfold cross_ok. cbn. lia.
    + left. eexists. split; [reflexivity|]. unfold simple_ok. cbn. lia.
    + left. eexists. split; [reflexivity|]. unfold simple_ok. cbn. lia.
    + left. eexists. split; [reflexivity|]. unfold simple_ok. cbn. lia.
  - repeat split; vm_compute; reflexivity.
Qed.

Lemma create_regions_lay N circular cands subs regs : create_regions N circular [] cands subs = Ok regs ->
  Forall (fun r => reg_ok N (rloc r)) regs -> lay N (map rloc regs).
Proof.
  intros H Hok. unfold create_regions in H.
  destruct (csections (wrap_of N circular) cands subs) as [secs|]; [|discriminate]. cbn [bind] in H.
  exact (add_sections_lay N secs [] regs H (lay_nil N) Hok).
Qed.
