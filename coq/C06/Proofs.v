(* C06 proofs: on a record without origin-spanning areas the regions are exactly the connected
   components of the "share a base" graph, pairwise disjoint, in location order. *)
From Coq Require Import Lia ZifyBool Sorting.Permutation.
From ASV.C03 Require Import Proofs.
From ASV.C06 Require Import Model.

Lemma area_lt_true a b : area_lt a b = true -> s a <= s b.
Proof. unfold area_lt. lia. Qed.
Lemma area_lt_false a b : area_lt a b = false -> s b <= s a.
Proof. unfold area_lt. lia. Qed.

Lemma insert_sorted_area x : forall l, sortedS l -> sortedS (insert_by area_lt x l).
Proof.
  induction l as [|y l IH]; intros Hs; cbn [insert_by].
  - cbn. split; [constructor|exact I].
  - destruct Hs as [Hy Hs]. destruct (area_lt x y) eqn:Hc.
    + apply area_lt_true in Hc. cbn [sortedS]. split; [|split; assumption].
      constructor; [exact Hc|]. eapply Forall_impl; [|exact Hy]. cbn. intros; lia.
    + apply area_lt_false in Hc. cbn [sortedS]. split; [|apply IH; exact Hs].
      assert (Hall : forall l', Forall (fun z => s y <= s z) l' -> Forall (fun z => s y <= s z) (insert_by area_lt x l')).
      { induction l' as [|z l' IH']; intros Hf; cbn [insert_by].
        - constructor; [exact Hc|constructor].
        - inversion Hf; subst. destruct (area_lt x z).
          + constructor; [exact Hc|]. constructor; assumption.
          + constructor; [assumption|]. apply IH'; assumption. }
      apply Hall. exact Hy.
Qed.
Lemma sort_sorted_area_acc : forall l acc, sortedS acc -> sortedS (fold_left (fun acc x => insert_by area_lt x acc) l acc).
Proof. induction l as [|x l IH]; intros acc Hs; cbn [fold_left]; [exact Hs|]. apply IH. apply insert_sorted_area. exact Hs. Qed.
Lemma sort_sorted_area l : sortedS (sort_by area_lt l).
Proof. unfold sort_by. apply sort_sorted_area_acc. exact I. Qed.

(* two areas share a base *)
Definition share_base (a b : itv) : Prop := near 0 a b.
Lemma share_base_spec a b : s a < e a -> s b < e b ->
  (share_base a b <-> exists x, s a <= x < e a /\ s b <= x < e b).
Proof.
  intros Ha Hb. unfold share_base, near. split.
  - intros [H1 H2]. exists (Z.max (s a) (s b)). lia.
  - intros (x & H1 & H2). lia.
Qed.

(* the sections before the first/last fix-up *)
Lemma sections_spec N areas : Forall (wf N) areas ->
  let gs := sweep N 0 (sort_by area_lt areas) in
  Permutation areas (flatten gs) /\
  (forall g, In g gs ->
     members g <> [] /\
     (forall m, In m (members g) -> fst (core_of g) <= s m /\ e m <= snd (core_of g)) /\
     (exists m, In m (members g) /\ s m = fst (core_of g)) /\
     (exists m, In m (members g) /\ e m = snd (core_of g)) /\
     (forall a b, In a (members g) -> In b (members g) -> conn 0 (members g) a b)) /\
  (forall g1 g2 a b, In g1 gs -> In g2 gs -> g1 <> g2 -> In a (members g1) -> In b (members g2) -> ~ share_base a b) /\
  (exists lo, inv N 0 lo gs).
Proof.
  intros Hwf. apply (chain_sorted N 0 areas (sort_by area_lt areas)); [lia|exact Hwf|apply sort_perm|apply sort_sorted_area].
Qed.

(* region locations of different sections are disjoint and in increasing order: from the
   separation invariant, the hull of an older section ends no later than any newer one starts *)
Fixpoint hulls_ordered (gs : list group) : Prop :=
  match gs with
  | [] => True
  | (cs, he, ms) :: rest => Forall (fun g' : group => let '(cs', he', _) := g' in he' <= cs) rest /\ hulls_ordered rest
  end.

Lemma inv_hulls_ordered N : forall gs lo, inv N 0 lo gs -> hulls_ordered gs.
Proof.
  induction gs as [|[[cs he] ms] rest IH]; intros lo [Hg Hs]; [exact I|].
  inversion Hg as [|? ? Hg1 Hgr]; subst. destruct Hs as [Hs1 Hsr]. cbn [hulls_ordered]. split.
  - apply Forall_forall. intros [[cs' he'] ms'] Hin.
    destruct Hg1 as (_ & _ & _ & (mn & Hmn & Hmns) & _).
    specialize (Hs1 cs' he' ms' mn Hin Hmn). lia.
  - apply (IH lo). split; assumption.
Qed.

(* hence the first/last fix-up never fires on such records *)
Lemma last_opt_In {A} (l : list A) x : last_opt l = Some x -> In x l.
Proof.
  unfold last_opt. destruct (rev l) as [|y r] eqn:Hr; [discriminate|]. intros H. inversion H; subst.
  apply in_rev. rewrite Hr. left. reflexivity.
Qed.

Lemma ho_app_last : forall l x, hulls_ordered (l ++ [x]) -> Forall (fun g : group => snd (fst x) <= fst (fst g)) l.
Proof.
  induction l as [|[[cs he] ms] l IH]; intros x H; cbn [app hulls_ordered] in H; [constructor|].
  destruct H as [Hf Hr]. constructor.
  - rewrite Forall_forall in Hf. assert (Hx : In x (l ++ [x])) by (apply in_or_app; right; left; reflexivity).
    specialize (Hf x Hx). destruct x as [[cs' he'] ms']. cbn [fst snd]. exact Hf.
  - apply IH. exact Hr.
Qed.

Lemma hulls_ordered_rev_map : forall gs, hulls_ordered gs ->
  forall secs, secs = map (fun g : group => let '(cs, he, ms) := g in (cs, he, rev ms)) (rev gs) ->
  fixup secs = secs.
Proof.
  intros gs Hord secs ->.
  destruct (rev gs) as [|[[fs fe] fms] rest] eqn:Hrg; [reflexivity|].
  assert (Hgs : gs = rev rest ++ [(fs, fe, fms)]).
  { rewrite <- (rev_involutive gs), Hrg. reflexivity. }
  rewrite Hgs in Hord. apply ho_app_last in Hord. cbn [fst snd] in Hord.
  cbn [map]. unfold fixup.
  destruct (map _ rest) as [|r1 rest'] eqn:Hm; [reflexivity|].
  destruct (last_opt (r1 :: rest')) as [[[ls le] la]|] eqn:Hl; [|reflexivity].
  apply last_opt_In in Hl. rewrite <- Hm in Hl. apply in_map_iff in Hl.
  destruct Hl as ([[cs1 he1] ms1] & Heq & Hin). inversion Heq; subst.
  rewrite Forall_forall in Hord. specialize (Hord (ls, le, ms1)). cbn [fst snd] in Hord.
  assert (fe <= ls) by (apply Hord; apply -> in_rev; exact Hin).
  replace ((fs <? le) && (ls <? fe)) with false by lia. reflexivity.
Qed.

Lemma regions_are_sections N areas : Forall (wf N) areas -> regions N areas = sections N areas.
Proof.
  intros Hwf. unfold regions. destruct (sections_spec N areas Hwf) as (_ & _ & _ & lo & Hinv).
  eapply hulls_ordered_rev_map; [eapply inv_hulls_ordered; exact Hinv|reflexivity].
Qed.
