(* C06 proofs: on a record without origin-spanning areas the regions are exactly the connected
   components of the "share a base" graph, pairwise disjoint, in location order. *)
From Coq Require Import Lia ZifyBool Sorting.Permutation.
From ASV.C03 Require Import Proofs.
From ASV.C06 Require Import Model.

Lemma area_lt_true a b : area_lt a b = true -> s a <= s b.
Proof. unfold area_lt. lia. Qed.
Lemma area_lt_false a b : area_lt a b = false -> s b <= s a.
Proof. unfold area_lt. lia. Qed.

Lemma insert_sorted_area x : forall l, sortedS l -> sortedS (insert_by area_lt x l).
Proof.
  induction l as [|y l IH]; intros Hs; cbn [insert_by].
  - cbn. split; [constructor|exact I].
  - destruct Hs as [Hy Hs]. destruct (area_lt x y) eqn:Hc.
    + apply area_lt_true in Hc. cbn [sortedS]. split; [|split; assumption].
      constructor; [exact Hc|]. eapply Forall_impl; [|exact Hy]. cbn. intros; lia.
    + apply area_lt_false in Hc. cbn [sortedS]. split; [|apply IH; exact Hs].
      assert (Hall : forall l', Forall (fun z => s y <= s z) l' -> Forall (fun z => s y <= s z) (insert_by area_lt x l')).
      { induction l' as [|z l' IH']; intros Hf; cbn [insert_by].
        - constructor; [exact Hc|constructor].
        - inversion Hf; subst. destruct (area_lt x z).
          + constructor; [exact Hc|]. constructor; assumption.
          + constructor; [assumption|]. apply IH'; assumption. }
      apply Hall. exact Hy.
Qed.
Lemma sort_sorted_area_acc : forall l acc, sortedS acc -> sortedS (fold_left (fun acc x => insert_by area_lt x acc) l acc).
Proof. induction l as [|x l IH]; intros acc Hs; cbn [fold_left]; [exact Hs|]. apply IH. apply insert_sorted_area. exact Hs. Qed.
Lemma sort_sorted_area l : sortedS (sort_by area_lt l).
Proof. unfold sort_by. apply sort_sorted_area_acc. exact I. Qed.

(* two areas share a base *)
Definition share_base (a b : itv) : Prop := near 0 a b.
Lemma share_base_spec a b : s a < e a -> s b < e b ->
  (share_base a b <-> exists x, s a <= x < e a /\ s b <= x < e b).
Proof.
  intros Ha Hb. unfold share_base, near. split.
  - intros [H1 H2]. exists (Z.max (s a) (s b)). lia.
  - intros (x & H1 & H2). lia.
Qed.

(* the sections before the first/last fix-up *)
Lemma sections_spec N areas : Forall (wf N) areas ->
  let gs := sweep N 0 (sort_by area_lt areas) in
  Permutation areas (flatten gs) /\
  (forall g, In g gs ->
     members g <> [] /\
     (forall m, In m (members g) -> fst (core_of g) <= s m /\ e m <= snd (core_of g)) /\
     (exists m, In m (members g) /\ s m = fst (core_of g)) /\
     (exists m, In m (members g) /\ e m = snd (core_of g)) /\
     (forall a b, In a (members g) -> In b (members g) -> conn 0 (members g) a b)) /\
  (forall g1 g2 a b, In g1 gs -> In g2 gs -> g1 <> g2 -> In a (members g1) -> In b (members g2) -> ~ share_base a b) /\
  (exists lo, inv N 0 lo gs).
Proof.
  intros Hwf. apply (chain_sorted N 0 areas (sort_by area_lt areas)); [lia|exact Hwf|apply sort_perm|apply sort_sorted_area].
Qed.

(* region locations of different sections are disjoint and in increasing order: from the
   separation invariant, the hull of an older section ends no later than any newer one starts *)
Fixpoint hulls_ordered (gs : list group) : Prop :=
  match gs with
  | [] => True
  | (cs, he, ms) :: rest => Forall (fun g' : group => let '(cs', he', _) := g' in he' <= cs) rest /\ hulls_ordered rest
  end.

Lemma inv_hulls_ordered N : forall gs lo, inv N 0 lo gs -> hulls_ordered gs.
Proof.
  induction gs as [|[[cs he] ms] rest IH]; intros lo [Hg Hs]; [exact I|].
  inversion Hg as [|? ? Hg1 Hgr]; subst. destruct Hs as [Hs1 Hsr]. cbn [hulls_ordered]. split.
  - apply Forall_forall. intros [[cs' he'] ms'] Hin.
    destruct Hg1 as (_ & _ & _ & (mn & Hmn & Hmns) & _).
    specialize (Hs1 cs' he' ms' mn Hin Hmn). lia.
  - apply (IH lo). split; assumption.
Qed.

(* hence the first/last fix-up never fires on such records *)
Lemma last_opt_In {A} (l : list A) x : last_opt l = Some x -> In x l.
Proof.
  unfold last_opt. destruct (rev l) as [|y r] eqn:Hr; [discriminate|]. intros H. inversion H; subst.
  apply in_rev. rewrite Hr. left. reflexivity.
Qed.

Lemma ho_app_last : forall l x, hulls_ordered (l ++ [x]) -> Forall (fun g : group => snd (fst x) <= fst (fst g)) l.
Proof.
  induction l as [|[[cs he] ms] l IH]; intros x H; cbn [app hulls_ordered] in H; [constructor|].
  destruct H as [Hf Hr]. constructor.
  - rewrite Forall_forall in Hf. assert (Hx : In x (l ++ [x])) by (apply in_or_app; right; left; reflexivity).
    specialize (Hf x Hx). destruct x as [[cs' he'] ms']. cbn [fst snd]. exact Hf.
  - apply IH. exact Hr.
Qed.

Lemma hulls_ordered_rev_map : forall gs, hulls_ordered gs ->
  forall secs, secs = map (fun g : group => let '(cs, he, ms) := g in (cs, he, rev ms)) (rev gs) ->
  fixup secs = secs.
Proof.
  intros gs Hord secs ->.
  destruct (rev gs) as [|[[fs fe] fms] rest] eqn:Hrg; [reflexivity|].
  assert (Hgs : gs = rev rest ++ [(fs, fe, fms)]).
  { rewrite <- (rev_involutive gs), Hrg. reflexivity. }
  rewrite Hgs in Hord. apply ho_app_last in Hord. cbn [fst snd] in Hord.
  cbn [map]. unfold fixup.
  destruct (map _ rest) as [|r1 rest'] eqn:Hm; [reflexivity|].
  destruct (last_opt (r1 :: rest')) as [[[ls le] la]|] eqn:Hl; [|reflexivity].
  apply last_opt_In in Hl. rewrite <- Hm in Hl. apply in_map_iff in Hl.
  destruct Hl as ([[cs1 he1] ms1] & Heq & Hin). inversion Heq; subst.
  rewrite Forall_forall in Hord. specialize (Hord (ls, le, ms1)). cbn [fst snd] in Hord.
  assert (fe <= ls) by (apply Hord; apply -> in_rev; exact Hin).
  replace ((fs <? le) && (ls <? fe)) with false by lia. reflexivity.
Qed.

Lemma regions_are_sections N areas : Forall (wf N) areas -> regions N areas = sections N areas.
Proof.
  intros Hwf. unfold regions. destruct (sections_spec N areas Hwf) as (_ & _ & _ & lo & Hinv).
  eapply hulls_ordered_rev_map; [eapply inv_hulls_ordered; exact Hinv|reflexivity].
Qed.

(* ---------- numbering invariant ---------- *)
Definition num_inv (st : list Z * numbering) : Prop :=
  NoDup (fst st) /\ forall j x, nth_error (fst st) j = Some x -> number_of x (snd st) = Some (Z.of_nat j + 1).

Lemma renumber_other : forall t j m y, ~ In y t -> number_of y (renumber t j m) = number_of y m.
Proof.
  induction t as [|x t IH]; intros j m y Hy; cbn [renumber]; [reflexivity|].
  rewrite IH by (intros H; apply Hy; right; exact H). cbn [number_of].
  destruct (y =? x) eqn:E; [exfalso; apply Hy; left; lia|reflexivity].
Qed.

Lemma renumber_at : forall t j m k y, NoDup t -> nth_error t k = Some y ->
  number_of y (renumber t j m) = Some (j + Z.of_nat k).
Proof.
  induction t as [|x t IH]; intros j m k y Hnd Hk; [destruct k; discriminate|].
  inversion Hnd as [|? ? Hx Hnd']; subst. cbn [renumber]. destruct k as [|k].
  - cbn in Hk. inversion Hk; subst. rewrite renumber_other by exact Hx. cbn [number_of].
    replace (y =? y) with true by lia. f_equal. lia.
  - cbn in Hk. rewrite (IH (j + 1) _ k y Hnd' Hk). f_equal. lia.
Qed.

Lemma nth_error_firstn_lt {A} : forall (l : list A) n j, (j < n)%nat -> nth_error (firstn n l) j = nth_error l j.
Proof.
  induction l as [|x l IH]; intros n j H; [destruct n, j; reflexivity|].
  destruct n as [|n]; [lia|]. destruct j as [|j]; [reflexivity|]. cbn. apply IH. lia.
Qed.
Lemma NoDup_app_r {A} : forall (a b : list A), NoDup (a ++ b) -> NoDup b.
Proof. induction a as [|x a IH]; intros b H; [exact H|]. inversion H; subst. apply IH. assumption. Qed.
Lemma NoDup_app_disj {A} : forall (a b : list A) y, NoDup (a ++ b) -> In y a -> In y b -> False.
Proof.
  induction a as [|x a IH]; intros b y H Ha Hb; [destruct Ha|].
  cbn in H. inversion H; subst. destruct Ha as [->|Ha]; [apply H2; apply in_or_app; right; exact Hb|eapply IH; eassumption].
Qed.

Lemma add_at_inv index x st : num_inv st -> ~ In x (fst st) -> (index <= length (fst st))%nat ->
  num_inv (add_at index x st).
Proof.
  destruct st as [l m]. cbn [fst snd]. intros [Hnd Hnum] Hx Hidx. unfold add_at. cbn [fst snd].
  assert (Hsplit : l = firstn index l ++ skipn index l) by (symmetry; apply firstn_skipn).
  assert (Hnd2 : NoDup (firstn index l ++ x :: skipn index l)).
  { apply NoDup_Add with (a := x) (l := firstn index l ++ skipn index l).
    - apply Add_app.
    - rewrite <- Hsplit. split; assumption. }
  split; [exact Hnd2|].
  intros j y Hj. cbn [fst snd] in Hj |- *.
  assert (Hlen : length (firstn index l) = index) by (apply firstn_length_le; exact Hidx).
  destruct (Nat.lt_ge_cases j index) as [Hlt|Hge].
  - (* before the insertion point: untouched *)
    rewrite nth_error_app1 in Hj by (rewrite Hlen; exact Hlt).
    assert (Hyf : In y (firstn index l)) by (eapply nth_error_In; exact Hj).
    assert (Hy : ~ In y (x :: skipn index l)).
    { intros [<-|Hin].
      - apply Hx. rewrite Hsplit. apply in_or_app. left. exact Hyf.
      - rewrite Hsplit in Hnd. exact (NoDup_app_disj _ _ y Hnd Hyf Hin). }
    rewrite renumber_other by exact Hy. apply Hnum.
    rewrite <- Hj. symmetry. apply nth_error_firstn_lt. exact Hlt.
  - (* at or after the insertion point: renumbered *)
    rewrite nth_error_app2 in Hj by (rewrite Hlen; exact Hge). rewrite Hlen in Hj.
    assert (Hnd3 : NoDup (x :: skipn index l)).
    { constructor.
      - intros Hin. apply Hx. rewrite Hsplit. apply in_or_app. right. exact Hin.
      - rewrite Hsplit in Hnd. apply NoDup_app_r in Hnd. exact Hnd. }
    rewrite (renumber_at _ _ _ (j - index) y Hnd3 Hj). f_equal. lia.
Qed.

Lemma clear_inv st : num_inv (clear st).
Proof. split; [constructor|]. intros j x H. destruct j; discriminate. Qed.

(* histories: any sequence of adds (fresh features at admissible indexes) and clears *)
Inductive op := OAdd (index : nat) (x : Z) | OClear.
Definition apply_op (st : list Z * numbering) (o : op) : list Z * numbering :=
  match o with OAdd i x => add_at i x st | OClear => clear st end.
Fixpoint admissible (st : list Z * numbering) (ops : list op) : Prop :=
  match ops with
  | [] => True
  | o :: r => match o with
              | OAdd i x => ~ In x (fst st) /\ (i <= length (fst st))%nat
              | OClear => True
              end /\ admissible (apply_op st o) r
  end.

Lemma history_inv : forall ops st, num_inv st -> admissible st ops -> num_inv (fold_left apply_op ops st).
Proof.
  induction ops as [|o ops IH]; intros st Hinv Hadm; cbn [fold_left]; [exact Hinv|].
  destruct Hadm as [Ho Hr]. apply IH; [|exact Hr].
  destruct o as [i x|]; cbn [apply_op]; [apply add_at_inv; tauto|apply clear_inv].
Qed.
