(* C06 - property theorems only *)
From Coq Require Import Sorting.Permutation.
From ASV.C03 Require Import Proofs.
From ASV.C06 Require Import Model Proofs.

(* On a record whose areas do not span the origin (every linear record; circular records without
   origin-spanning areas), for every multiset of areas in any supply order: the sections found by
   create_regions are exactly the connected components of the "share a base" graph - each area in
   exactly one section, no empty section, areas of one section chained through overlapping pairs,
   areas of different sections never share a base - and each section's location is the tight hull
   of its areas. *)
Theorem C06_components_linear : forall N areas, Forall (wf N) areas ->
  let gs := sweep N 0 (sort_by area_lt areas) in
  Permutation areas (flatten gs) /\
  (forall g, In g gs ->
     members g <> [] /\
     (forall m, In m (members g) -> fst (core_of g) <= s m /\ e m <= snd (core_of g)) /\
     (exists m, In m (members g) /\ s m = fst (core_of g)) /\
     (exists m, In m (members g) /\ e m = snd (core_of g)) /\
     (forall a b, In a (members g) -> In b (members g) -> conn 0 (members g) a b)) /\
  (forall g1 g2 a b, In g1 gs -> In g2 gs -> g1 <> g2 -> In a (members g1) -> In b (members g2) -> ~ share_base a b) /\
  (exists lo, inv N 0 lo gs).
Proof. exact sections_spec. Qed.
Print Assumptions C06_components_linear.

Theorem C06_share_base_meaning : forall a b, s a < e a -> s b < e b ->
  (share_base a b <-> exists x, s a <= x < e a /\ s b <= x < e b).
Proof. exact share_base_spec. Qed.
Print Assumptions C06_share_base_meaning.

(* the region locations are pairwise disjoint and in increasing order (so add_region never
   refuses one), and the first/last fix-up never fires: the regions are the sections *)
Theorem C06_regions_disjoint_sorted : forall N areas, Forall (wf N) areas ->
  hulls_ordered (sweep N 0 (sort_by area_lt areas)) /\ regions N areas = sections N areas.
Proof.
  intros N areas Hwf. split; [|apply regions_are_sections; exact Hwf].
  destruct (sections_spec N areas Hwf) as (_ & _ & _ & lo & Hinv). eapply inv_hulls_ordered. exact Hinv.
Qed.
Print Assumptions C06_regions_disjoint_sorted.

(* non-vacuity: nested area, chained areas, touching areas (sharing no base) *)
Example C06_example :
  Forall (wf 1000) [mkItv 400 600; mkItv 100 500; mkItv 150 200; mkItv 600 700] /\
  regions 1000 [mkItv 400 600; mkItv 100 500; mkItv 150 200; mkItv 600 700]
  = [(100, 600, [mkItv 100 500; mkItv 150 200; mkItv 400 600]); (600, 700, [mkItv 600 700])].
Proof. split; [repeat constructor; cbn; lia|vm_compute; reflexivity]. Qed.

(* Numbering: for every history of additions (a fresh feature inserted at any admissible index of
   the ordered list, renumbering from that index) and clears, every feature currently in the list
   carries the number position + 1 - so the numbers are 1..n in list (location) order, the number
   identifies the feature, and get_x(number) returns it.  (Stale dictionary entries of removed
   features are never cleared by the code; they are not in the list, hence outside the statement.) *)
Theorem C06_numbering_inv : forall ops st, num_inv st -> admissible st ops ->
  num_inv (fold_left apply_op ops st).
Proof. exact history_inv. Qed.
Print Assumptions C06_numbering_inv.

Example C06_numbering_example :
  let st := fold_left apply_op [OAdd 0 7; OAdd 0 5; OAdd 1 9; OClear; OAdd 0 7] ([], []) in
  admissible ([], []) [OAdd 0 7; OAdd 0 5; OAdd 1 9; OClear; OAdd 0 7] /\ num_inv ([], []) /\
  fst st = [7] /\ number_of 7 (snd st) = Some 1 /\
  fst (fold_left apply_op [OAdd 0 7; OAdd 0 5; OAdd 1 9] ([], [])) = [5; 9; 7].
Proof.
  cbn. repeat split; try (intros [H|H]; try lia; try destruct H; lia); try lia; try tauto; try constructor.
  intros j x H. destruct j; discriminate.
Qed.
