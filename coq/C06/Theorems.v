(* C06 - property theorems only *)
From Coq Require Import Sorting.Permutation.
From ASV.C03 Require Import Proofs.
From ASV.C06 Require Import Model Proofs.

(* On a record whose areas do not span the origin (every linear record; circular records without
   origin-spanning areas), for every multiset of areas in any supply order: the sections found by
   create_regions are exactly the connected components of the "share a base" graph - each area in
   exactly one section, no empty section, areas of one section chained through overlapping pairs,
   areas of different sections never share a base - and each section's location is the tight hull
   of its areas. *)
Theorem C06_components_linear : forall N areas, Forall (wf N) areas ->
  let gs := sweep N 0 (sort_by area_lt areas) in
  Permutation areas (flatten gs) /\
  (forall g, In g gs ->
     members g <> [] /\
     (forall m, In m (members g) -> fst (core_of g) <= s m /\ e m <= snd (core_of g)) /\
     (exists m, In m (members g) /\ s m = fst (core_of g)) /\
     (exists m, In m (members g) /\ e m = snd (core_of g)) /\
     (forall a b, In a (members g) -> In b (members g) -> conn 0 (members g) a b)) /\
  (forall g1 g2 a b, In g1 gs -> In g2 gs -> g1 <> g2 -> In a (members g1) -> In b (members g2) -> ~ share_base a b) /\
  (exists lo, inv N 0 lo gs).
Proof. exact sections_spec. Qed.
Print Assumptions C06_components_linear.

Theorem C06_share_base_meaning : forall a b, s a < e a -> s b < e b ->
  (share_base a b <-> exists x, s a <= x < e a /\ s b <= x < e b).
Proof. exact share_base_spec. Qed.
Print Assumptions C06_share_base_meaning.

(* the region locations are pairwise disjoint and in increasing order (so add_region never
   refuses one), and the merge of sections overlapping the first one never fires: the regions are the sections *)
Theorem C06_regions_disjoint_sorted : forall N areas, Forall (wf N) areas ->
  hulls_ordered (sweep N 0 (sort_by area_lt areas)) /\ regions N areas = sections N areas.
Proof.
  intros N areas Hwf. split; [|apply regions_are_sections; exact Hwf].
  destruct (sections_spec N areas Hwf) as (_ & _ & _ & lo & Hinv). eapply inv_hulls_ordered. exact Hinv.
Qed.
Print Assumptions C06_regions_disjoint_sorted.

(* non-vacuity: nested area, chained areas, touching areas (sharing no base) *)
Example C06_example :
  Forall (wf 1000) [mkItv 400 600; mkItv 100 500; mkItv 150 200; mkItv 600 700] /\
  regions 1000 [mkItv 400 600; mkItv 100 500; mkItv 150 200; mkItv 600 700]
  = [(100, 600, [mkItv 100 500; mkItv 150 200; mkItv 400 600]); (600, 700, [mkItv 600 700])].
Proof. split; [repeat constructor; cbn; lia|vm_compute; reflexivity]. Qed.

(* Numbering: for every history of additions (a fresh feature inserted at any admissible index of
   the ordered list, renumbering from that index) and clears, every feature currently in the list
   carries the number position + 1 - so the numbers are 1..n in list (location) order, the number
   identifies the feature, and get_x(number) returns it.  (Stale dictionary entries of removed
   features are never cleared by the code; they are not in the list, hence outside the statement.) *)
Theorem C06_numbering_inv : forall ops st, num_inv st -> admissible st ops ->
  num_inv (fold_left apply_op ops st).
Proof. exact history_inv. Qed.
Print Assumptions C06_numbering_inv.

Example C06_numbering_example :
  let st := fold_left apply_op [OAdd 0 7; OAdd 0 5; OAdd 1 9; OClear; OAdd 0 7] ([], []) in
  admissible ([], []) [OAdd 0 7; OAdd 0 5; OAdd 1 9; OClear; OAdd 0 7] /\ num_inv ([], []) /\
  fst st = [7] /\ number_of 7 (snd st) = Some 1 /\
  fst (fold_left apply_op [OAdd 0 7; OAdd 0 5; OAdd 1 9] ([], [])) = [5; 9; 7].
Proof.
  cbn. repeat split; try (intros [H|H]; try lia; try destruct H; lia); try lia; try tauto; try constructor.
  intros j x H. destruct j; discriminate.
Qed.

(* the same feature objects handed to the record again after a clear, in another order (their stale numbers 1, 2, 3 are
   still in the dictionary): features 1 < 2 < 3 added in location order, cleared, added again as 3, 2, 1 *)
Example C06_numbering_readd_example :
  let ops := [OAdd 0 1; OAdd 1 2; OAdd 2 3; OClear; OAdd 0 3; OAdd 0 2; OAdd 0 1] in
  let st := fold_left apply_op ops ([], []) in
  admissible ([], []) ops /\ fst st = [1; 2; 3] /\
  number_of 1 (snd st) = Some 1 /\ number_of 2 (snd st) = Some 2 /\ number_of 3 (snd st) = Some 3.
Proof.
  cbn. repeat split; try (intros [H|H]; try lia; try destruct H; lia); try lia; try tauto.
Qed.

(* add_region on a record whose regions do not span the origin (every linear record): the list being
   in location order and pairwise disjoint, a new region is refused (ValueError) exactly when it
   shares a base with a region of the record; otherwise it is inserted, and the list stays in location
   order and pairwise disjoint.  (Origin-spanning regions: C06_add_region_rejects_overlap_ring below.) *)
Theorem C06_add_region_rejects_overlap : forall N regs r,
  Forall (simple_reg N) regs -> simple_reg N r -> sorted_disjoint regs ->
  ((exists ex, In ex regs /\ shares_base (rloc r) (rloc ex)) -> add_region N regs r = Err E_Value) /\
  (~ (exists ex, In ex regs /\ shares_base (rloc r) (rloc ex)) ->
   exists i, (i <= length regs)%nat /\ add_region N regs r = Ok (insert_at i r regs) /\
             sorted_disjoint (insert_at i r regs) /\ Forall (simple_reg N) (insert_at i r regs)).
Proof. exact add_region_linear. Qed.
Print Assumptions C06_add_region_rejects_overlap.

Example C06_add_region_example :
  let mk s e := mkCR [mkPart s e 1] [] [mkCA 0 0 [mkPart s e 1]] in
  let regs := [mk 100 200; mk 400 500; mk 700 800] in
  Forall (simple_reg 1000) regs /\ sorted_disjoint regs /\ simple_reg 1000 (mk 200 400) /\
  add_region 1000 regs (mk 200 400) = Ok [mk 100 200; mk 200 400; mk 400 500; mk 700 800] /\
  add_region 1000 regs (mk 450 750) = Err E_Value /\ add_region 1000 regs (mk 50 101) = Err E_Value.
Proof.
  cbn zeta. repeat split; try reflexivity;
    repeat (constructor; try (eexists; split; [reflexivity|cbn; lia])); cbn; try lia.
  eexists; split; [reflexivity|cbn; lia].
Qed.

(* add_region on ANY record, origin-spanning new and existing regions included (repaired finding
   add_region_scan_stops_early: every existing region is tested before the insertion index is looked for): the new
   region is refused (ValueError) exactly when it shares a base with a region of the record; otherwise it is
   inserted at some index, and a pairwise disjoint list stays pairwise disjoint.  (Location order of the list is only
   claimed without origin-spanning regions, C06_add_region_rejects_overlap.) *)
Theorem C06_add_region_rejects_overlap_ring : forall N regs r,
  Forall wf_reg regs -> wf_reg r -> 0 <= lstart (rloc r) -> lend (rloc r) <= N ->
  ((exists ex, In ex regs /\ shares_base (rloc r) (rloc ex)) -> add_region N regs r = Err E_Value) /\
  (~ (exists ex, In ex regs /\ shares_base (rloc r) (rloc ex)) ->
   exists i, (i <= length regs)%nat /\ add_region N regs r = Ok (insert_at i r regs) /\
             (pw_disjoint regs -> pw_disjoint (insert_at i r regs))).
Proof. exact add_region_ring. Qed.
Print Assumptions C06_add_region_rejects_overlap_ring.

(* the witness of the repaired finding: regions 50..150, 400..500, 800..950 on a ring of 1000, new region
   join{[900:1000], [0:20]} shares bases 900..949 with the last one and is refused *)
Example C06_add_region_ring_example :
  let mk l := mkCR l [] [mkCA 0 0 l] in
  let regs := [mk [mkPart 50 150 1]; mk [mkPart 400 500 1]; mk [mkPart 800 950 1]] in
  Forall wf_reg regs /\ wf_reg (mk [mkPart 900 1000 1; mkPart 0 20 1]) /\ pw_disjoint regs /\
  add_region 1000 regs (mk [mkPart 900 1000 1; mkPart 0 20 1]) = Err E_Value /\
  add_region 1000 regs (mk [mkPart 950 1000 1; mkPart 0 20 1])
  = Ok (mk [mkPart 950 1000 1; mkPart 0 20 1] :: regs).
Proof.
  cbn zeta. unfold wf_reg, L.wf_part. cbn [rloc].
  split; [repeat constructor; cbn; lia|]. split; [repeat constructor; cbn; lia|]. split.
  - cbn [pw_disjoint rloc]. repeat split; repeat constructor;
      intros (x & (p & [<-|[]] & Hp) & (q & [<-|[]] & Hq)); cbn [ps pe] in *; lia.
  - split; vm_compute; reflexivity.
Qed.

(* Parent and region links: after EVERY history of add_protocluster, CandidateCluster(...) +
   add_candidate_cluster, add_subregion, create_candidate_clusters (whichever candidates formation builds, drops and
   returns, as long as its own assertion holds), create_regions, clear_regions, clear_candidate_clusters,
   clear_subregions, clear_protoclusters (whatever create_regions groups and whichever genes lie
   within the regions), every protocluster's parent is None or a candidate cluster of the record, every
   area's parent is None or a region of the record, and every gene's region link is None or a region
   of the record.  (Histories in which a call raises are not covered: a create_regions that fails
   half way leaves the areas of the refused region pointing at it.) *)
Theorem C06_no_stale_parents : forall ops, let st := fold_left l_apply ops l_empty in
  (forall p c, lget p (l_pparent st) = Some c -> In c (map fst (l_cands st))) /\
  (forall a r, lget a (l_aparent st) = Some r -> In r (map lr_id (l_regions st))) /\
  (forall g r, lget g (l_cdsreg st) = Some r -> In r (map lr_id (l_regions st))).
Proof. exact no_stale_links. Qed.
Print Assumptions C06_no_stale_parents.

(* the final loop of create_candidates_from_protoclusters (repair e5074b2a) is what the theorem rests on for
   create_candidate_clusters: without it the members of a candidate built last and dropped as redundant point at it *)
Theorem C06_form_without_relink_refuted : exists built returned p c,
  let st := l_form false built returned (fold_left l_apply [LAddProto 100; LAddProto 101; LAddProto 102] l_empty) in
  l_cover built returned = true /\ lget p (l_pparent st) = Some c /\ ~ In c (map fst (l_cands st)).
Proof. exact form_without_relink_stale. Qed.
Print Assumptions C06_form_without_relink_refuted.

Example C06_form_relinks_example :
  let ops := [LAddProto 100; LAddProto 101; LAddProto 102;
              LFormCands [(200, [100; 101]); (201, [100; 102; 101]); (202, [100; 101; 102])] [(201, [100; 102; 101]); (200, [100; 101])]] in
  let st := fold_left l_apply ops l_empty in
  lget 100 (l_pparent st) = Some 200 /\ lget 101 (l_pparent st) = Some 200 /\ lget 102 (l_pparent st) = Some 201 /\
  map fst (l_cands st) = [200; 201].
Proof. vm_compute. repeat split; reflexivity. Qed.

Example C06_no_stale_parents_example :
  let ops := [LAddProto 100; LAddCand 200 [100]; LAddSub 300; LCreate [([200; 300], [0; 1])]; LClearSubs [([200], [0])]] in
  let st := fold_left l_apply ops l_empty in
  lget 100 (l_pparent st) = Some 200 /\ lget 200 (l_aparent st) = Some 1 /\ lget 300 (l_aparent st) = None /\
  lget 0 (l_cdsreg st) = Some 1 /\ lget 1 (l_cdsreg st) = None /\ map lr_id (l_regions st) = [1].
Proof. vm_compute. repeat split; reflexivity. Qed.

(* clear_protoclusters, then the same protoclusters and the same candidate cluster object handed to the record again,
   then strip_antismash_annotations with regions present: no link survives *)
Example C06_no_stale_parents_readd_example :
  let ops := [LAddProto 100; LAddCand 200 [100]; LAddSub 300; LCreate [([200; 300], [0; 1])]; LClearProtos [([300], [1])];
              LAddProto 100; LReAddCand 200 [100]] in
  let st := fold_left l_apply ops l_empty in
  let st' := fold_left l_apply (ops ++ [LStrip [[([300], [1])]; [([300], [1])]; []]]) l_empty in
  lget 100 (l_pparent st) = None /\ lget 200 (l_aparent st) = None /\ lget 300 (l_aparent st) = Some 1 /\
  map fst (l_cands st) = [200] /\ l_protos st = [100] /\
  lget 300 (l_aparent st') = None /\ lget 1 (l_cdsreg st') = None /\ l_regions st' = [] /\ l_subs st' = [].
Proof. vm_compute. repeat split; reflexivity. Qed.

(* every history that ends with strip_antismash_annotations (clear_protoclusters, clear_candidate_clusters,
   clear_subregions, clear_regions, each of the first three re-creating the regions when there are some) leaves no
   parent and no region link at all *)
Theorem C06_strip_resets_everything : forall ops gl, let st := fold_left l_apply (ops ++ [LStrip gl]) l_empty in
  (forall p, lget p (l_pparent st) = None) /\ (forall a, lget a (l_aparent st) = None) /\
  (forall g, lget g (l_cdsreg st) = None).
Proof. exact strip_resets_everything. Qed.
Print Assumptions C06_strip_resets_everything.

(* Circular (and linear) records in the Loc.v model, guard: no area spans the origin.  For every
   such record and every supply of candidate clusters and sub-regions: the sweep of create_regions
   with overlaps_with / connect_locations(wrap_point) and the merge of sections overlapping the first one succeeds and finds
   exactly the sections of the interval model, i.e. (C06_components_linear,
   C06_regions_disjoint_sorted) the connected components of the share-a-base graph with their tight
   hulls; Region.__init__ accepts every section (location = that hull, every child contained) and
   add_region refuses none: create_regions succeeds with one region per section, in section order,
   holding the section's candidate clusters and sub-regions, and the region list is in location
   order and pairwise disjoint.  Partial: with an origin-spanning area the statement is false
   (C06_components_ring_refuted). *)
Theorem C06_components_ring_partial : forall N circular cands subs,
  Forall (simple_area N) (cands ++ subs) ->
  exists secs regs,
    csections (wrap_of N circular) cands subs = Ok secs /\
    create_regions N circular [] cands subs = Ok regs /\
    map lin_of_sec secs = regions N (map area_of (cands ++ subs)) /\
    map region_view regs = map region_of_sec secs /\
    sorted_disjoint regs /\ Forall (simple_reg N) regs.
Proof. exact ring_create_regions. Qed.
Print Assumptions C06_components_ring_partial.

Example C06_components_ring_example :
  let sub i s e := mkCA i 0 [mkPart s e 1] in
  let subs := [sub 0 100 500; sub 1 150 200; sub 2 400 600; sub 3 600 700] in
  Forall (simple_area 1000) ([] ++ subs) /\
  match csections (Some 1000) [] subs with
  | Ok secs => map lin_of_sec secs
  | Err _ => []
  end = [(100, 600, [mkItv 100 500; mkItv 150 200; mkItv 400 600]); (600, 700, [mkItv 600 700])].
Proof. split; [repeat constructor; eexists; (split; [reflexivity|cbn; lia])|vm_compute; reflexivity]. Qed.

(* create_regions merges EVERY section that overlaps the first one (repaired finding origin_spanning_area; only the
   first section of the sweep can span the origin): whenever the merge succeeds, no remaining section overlaps the
   first section's location, for every list of sections and every wrap point.  (The unrepaired code compared the
   first section with the last one only.) *)
Theorem C06_first_section_absorbs_overlaps : forall w secs secs',
  cfixup w secs = Ok secs' ->
  match secs' with
  | [] => True
  | (floc, _) :: rest => Forall (fun sec : csec => overlap floc (fst sec) = false) rest
  end.
Proof. exact cfixup_post. Qed.
Print Assumptions C06_first_section_absorbs_overlaps.

(* the loop of that merge ends by itself: a pass that merged removed a section, so the bound on the number of passes
   used by the model is never reached (any larger bound gives the same result) *)
Theorem C06_merge_loop_terminates : forall w secs extra, (1 < length secs)%nat ->
  cfixup w secs = cmerge_loop (S (length secs) + extra) w secs.
Proof. exact cfixup_fuel. Qed.
Print Assumptions C06_merge_loop_terminates.

(* the witness of the repaired finding: ring of 100, sub-regions 29..42, 90..99, 60..24 (origin-spanning), 59..77:
   two regions, {60..24, 90..99, 59..77} with location join{[59:100], [0:24]} and {29..42} *)
Example C06_components_ring_f12_example :
  let sub i l := mkCA i 0 l in
  let a0 := sub 0 [mkPart 29 42 1] in let a1 := sub 1 [mkPart 90 99 1] in
  let a2 := sub 2 [mkPart 60 100 1; mkPart 0 24 1] in let a3 := sub 3 [mkPart 59 77 1] in
  record_regions 100 true [a0; a1; a2; a3]
  = Ok [mkCR [mkPart 59 100 1; mkPart 0 24 1] [] [a2; a1; a3]; mkCR [mkPart 29 42 1] [] [a0]].
Proof. exact ring_f12_layout. Qed.

(* the full statement still fails on a ring (origin_spanning_long_arc, connect_locations): (a) an area that shares no
   base with any other area ends up in their region, whose location is the whole record; (b) the whole-record
   location of such a region overlaps the region of another component and creation raises ValueError *)
Theorem C06_components_ring_refuted :
  (exists N supply reg a b, record_regions N true supply = Ok [reg] /\ In a (rsubs reg) /\ In b (rsubs reg) /\
     forall c, In c supply -> cid c <> cid b -> ~ shares_base (cloc b) (cloc c)) /\
  (exists N supply, record_regions N true supply = Err E_Value).
Proof. exact ring_counterexamples. Qed.
Print Assumptions C06_components_ring_refuted.

(* A gene added AFTER the regions (Record._link_cds_to_parent, bisected window over the region list).  Whatever the
   regions and the gene: the gene is only linked to regions of the record that contain it ... *)
Theorem C06_late_gene_link_sound : forall regs g i, In i (link_hits regs g) ->
  exists r, nth_error regs i = Some r /\ contains r g = true.
Proof. exact link_hits_sound. Qed.
Print Assumptions C06_late_gene_link_sound.

(* ... and to every one: "each gene points to the region containing it, whether it was added before or after the
   areas" (a clause of C08).  Formerly C06_late_gene_link_refuted (finding late_gene_origin_region_unlinked, repaired:
   _link_cds_to_parent also looks at region 0 when that region crosses the origin and the slice does not start there).
   For EVERY record length, supply of candidate clusters and sub-regions and region list that create_regions builds from
   them on a record without regions - origin-spanning areas included - whose region locations are well-formed (reg_ok:
   one non-empty part inside the record, or the two parts [s, N) + [0, e) with 0 < e <= s < N; a decidable test of the
   output that the harness applies to every region list of the implementation): the list has the layout `lay` (at most
   one region crosses the origin, it is the first, the others are one-part, ascending and pairwise disjoint between its
   two parts), and (1) every non-empty one-part gene added afterwards is given to the region that contains it, wherever
   that region is in the list; (2) a gene of ANY shape (multi-exon, origin-crossing) inside a region that crosses the
   origin is given to that region, which is region 0.  Not proved: multi-part genes inside a one-part region; that the
   locations connect_locations builds always pass reg_ok (C04's subject; tested on every run). *)
Theorem C06_late_gene_link_complete : forall N circular cands subs regs,
  create_regions N circular [] cands subs = Ok regs -> Forall (fun r => reg_ok N (rloc r)) regs ->
  lay N (map rloc regs) /\
  (forall pg i r, ps pg < pe pg -> nth_error regs i = Some r -> contains (rloc r) [pg] = true ->
     In i (link_hits (map rloc regs) [pg])) /\
  (forall g i r, nth_error regs i = Some r -> bridges (rloc r) = true -> contains (rloc r) g = true ->
     i = 0%nat /\ In i (link_hits (map rloc regs) g)).
Proof.
  intros N circular cands subs regs H Hok. split; [|split].
  - exact (create_regions_lay N circular cands subs regs H Hok).
  - exact (late_gene_complete N circular cands subs regs H Hok).
  - exact (late_gene_complete_crossing N circular cands subs regs H Hok).
Qed.
Print Assumptions C06_late_gene_link_complete.

(* the layout alone is enough, however the list was built (add_region by hand, re-creation after a clear) *)
Theorem C06_late_gene_link_layout : forall N regs pg i r, lay N regs -> ps pg < pe pg ->
  nth_error regs i = Some r -> contains r [pg] = true -> In i (link_hits regs [pg]).
Proof. exact link_hits_complete. Qed.
Print Assumptions C06_late_gene_link_layout.

(* add_region keeps that layout: a record whose region list has it, after any accepted add_region of a well-formed region *)
Theorem C06_add_region_keeps_layout : forall N regs r regs', lay N (map rloc regs) -> reg_ok N (rloc r) ->
  add_region N regs r = Ok regs' -> lay N (map rloc regs').
Proof. exact lay_add_region. Qed.
Print Assumptions C06_add_region_keeps_layout.

(* the witness of the repaired finding in full: ring of 1000, sub-regions 900..50, 100..200, 400..500, 600..700; the late
   genes 950..980 (before the origin; linked to nothing before the repair) and 10..40 (after it) go to region 0, 120..150
   to region 1, 300..320 to none *)
Example C06_late_gene_link_example :
  let sub i l := mkCA i 0 l in
  let supply := [sub 0 [mkPart 900 1000 1; mkPart 0 50 1]; sub 1 [mkPart 100 200 1]; sub 2 [mkPart 400 500 1];
                 sub 3 [mkPart 600 700 1]] in
  exists regs, record_regions 1000 true supply = Ok regs /\ Forall (fun r => reg_ok 1000 (rloc r)) regs /\
    link_hits (map rloc regs) [mkPart 950 980 1] = [0%nat] /\
    link_hits (map rloc regs) [mkPart 10 40 1] = [0%nat] /\
    link_hits (map rloc regs) [mkPart 120 150 1] = [1%nat] /\
    link_hits (map rloc regs) [mkPart 300 320 1] = [].
Proof. exact late_gene_witness. Qed.
