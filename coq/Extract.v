(* Extraction: only the directives of ExtrOcamlBasic are in force. *)
From ASV Require Import Run.
From Coq Require Import Extraction ExtrOcamlBasic.
Extraction "../ocaml/model.ml" run.
