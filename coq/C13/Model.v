(* C13 - HMM hit refinement.  Executable transcription of
     antismash/common/hmmscan_refinement.py : HMMResult.merge/__len__, gather_by_query,
         refine_hmmscan_results (both modes), _remove_overlapping, _merge_domain_list,
         _merge_immediate_neigbours, remove_incomplete
     antismash/common/hmmer.py : remove_overlapping
     antismash/common/hmm_rule_parser/cluster_prediction.py : hsp_overlap_size, filter_results,
         filter_result_multiple
     antismash/detection/nrps_pks_domains/domain_identification.py : filter_nonterminal_docking_domains
   No proofs in this file.
   Transcribes the code after the repairs F41 (merge: least start, greatest end), F42 (grouping loop
   over hits[1:]), F43 (both hmmer sorts by (protein_start, ranking_stats)), FC13a (filter_results
   unites all the groups a linking pair touches) and C17-K5 filter_results_score_tie_set_order (filter_results
   searches the best hit of a group in the order of the gene's hit list, not in set order).

   Numbers.  Floats never enter.  A bitscore s travels as the integer 2*s (the harness generates
   multiples of 0.5), an e-value as the integer e with float value e*1e-10 (strictly monotone), a
   cutoff c as 2*c.  Float comparisons of the source become integer comparisons:
     start < end - 0.20*L        <->  5*start < 5*end - L        (DESIGN C13, float justification)
     end - start' < 1.5*L        <->  2*(end - start') < 3*L
     len > 0.5*L                 <->  2*len > L
     len1/L1 > len2/L2 (L>0)     <->  len1*L2 > len2*L1
     len/L > 1/3       (L>0)     <->  3*len > L
     c1/s1 < c2/s2 (s>0)         <->  c1*s2 < c2*s1
     1/len1 < 1/len2 (len>0)     <->  len2 < len1
   Domain of the tie: profile lengths >= 1, hmmer scores > 0 (the decoders reject anything else). *)
From ASV Require Import Base.

(* ------------------------------------------------------------------ HMMResult *)
Record hit := mkHit { prof : Z; st : Z; en : Z; ev : Z; sc : Z }.

Definition hit_eqb (a b : hit) : bool :=
  (prof a =? prof b) && (st a =? st b) && (en a =? en b) && (ev a =? ev b) && (sc a =? sc b).

(* HMMResult.__len__ *)
Definition hlen (h : hit) : Z := en h - st h.

(* HMMResult.merge (the assert on equal hit_id holds at both call sites: they test it first):
   start = min of the starts, end = max of the ends *)
Definition merge (a b : hit) : hit :=
  mkHit (prof a) (Z.min (st a) (st b)) (Z.max (en a) (en b)) (Z.min (ev a) (ev b)) (Z.max (sc a) (sc b)).
(* the method itself, assert included *)
Definition merge_checked (a b : hit) : res hit :=
  if prof a =? prof b then Ok (merge a b) else Err E_Assert.

(* a Python set of values: first occurrences *)
Fixpoint mem {A} (eqb : A -> A -> bool) (x : A) (l : list A) : bool :=
  match l with [] => false | y :: ys => eqb x y || mem eqb x ys end.
Fixpoint dedupe {A} (eqb : A -> A -> bool) (l : list A) : list A :=
  match l with
  | [] => []
  | x :: xs => x :: filter (fun y => negb (eqb x y)) (dedupe eqb xs)
  end.

(* the sort key of refine_hmmscan_results:
   (query_start, query_end, hit_id, -bitscore, evalue), compared as Python compares tuples *)
Definition key_lt (a b : hit) : bool :=
  (st a <? st b) || ((st a =? st b) &&
  ((en a <? en b) || ((en a =? en b) &&
  ((prof a <? prof b) || ((prof a =? prof b) &&
  ((sc b <? sc a) || ((sc b =? sc a) &&
  (ev a <? ev b)))))))).

(* ------------------------------------------------------------------ _remove_overlapping *)
(* result.query_start < previous.query_end - 0.20 * max(L[result], L[previous]) *)
Definition ovl (L : Z -> Z) (r p : hit) : bool :=
  5 * st r <? 5 * en p - Z.max (L (prof r)) (L (prof p)).

(* the loop, with non_overlapping[-1] carried as [prev]; the hits before it are final *)
Fixpoint ro (L : Z -> Z) (prev : hit) (rest : list hit) : list hit :=
  match rest with
  | [] => [prev]
  | r :: rs =>
    if ovl L r prev
    then (if sc prev <? sc r then ro L r rs else ro L prev rs)
    else prev :: ro L r rs
  end.
(* results[0] of an empty list is an IndexError; refine_hmmscan_results never passes one *)
Definition remove_overlapping_l (L : Z -> Z) (l : list hit) : res (list hit) :=
  match l with [] => Err E_Index | h :: t => Ok (ro L h t) end.

(* ------------------------------------------------------------------ _merge_immediate_neigbours *)
Fixpoint mn (L : Z -> Z) (cur : hit) (rest : list hit) : list hit :=
  match rest with
  | [] => [cur]
  | d :: ds =>
    if negb (prof d =? prof cur) then cur :: mn L d ds
    else if 2 * (en d - st cur) <? 3 * L (prof d) then mn L (merge cur d) ds
    else cur :: mn L d ds
  end.
Definition merge_neighbours_l (L : Z -> Z) (l : list hit) : res (list hit) :=
  match l with [] => Err E_Index | h :: t => Ok (mn L h t) end.

(* ------------------------------------------------------------------ _merge_domain_list *)
(* one category: max_span is computed once from the category's profile p *)
Fixpoint mcat (L : Z -> Z) (p : Z) (merged : hit) (rest : list hit) : list hit :=
  match rest with
  | [] => [merged]
  | o :: os =>
    if 2 * (en o - st merged) <? 3 * L p then mcat L p (merge merged o) os
    else merged :: mcat L p o os
  end.
(* categories: a dict keyed by hit_id, iterated in first-appearance order *)
Definition profiles_of (l : list hit) : list Z := dedupe Z.eqb (map prof l).
Definition category (p : Z) (l : list hit) : list hit := filter (fun h => prof h =? p) l.
Definition start_lt (a b : hit) : bool := st a <? st b.
Definition merge_domain_list (L : Z -> Z) (l : list hit) : list hit :=
  sort_by start_lt
    (flat_map (fun p => match category p l with [] => [] | c0 :: cs => mcat L p c0 cs end)
              (profiles_of l)).

(* ------------------------------------------------------------------ remove_incomplete *)
Definition is_complete (L : Z -> Z) (d : hit) : bool := L (prof d) <? 2 * hlen d.

(* the "longest proportional length" loop: state = (numerator, denominator, the hit at
   longest_index); longest starts as 0.0 = 0/1 *)
Definition longest_step (L : Z -> Z) (s : Z * Z * option hit) (d : hit) : Z * Z * option hit :=
  let '(num, den, best) := s in
  if num * L (prof d) <? hlen d * den then (hlen d, L (prof d), Some d) else s.
Definition longest (L : Z -> Z) (l : list hit) : Z * Z * option hit :=
  fold_left (longest_step L) l (0, 1, None).

Definition remove_incomplete (L : Z -> Z) (reg : Z -> bool) (l : list hit) : list hit :=
  match filter (is_complete L) l with
  | (_ :: _) as complete => complete
  | [] =>
    let '(num, den, best) := longest L l in
    match (if den <? 3 * num then best else None) with
    | Some d => [d]
    | None =>
      match filter (fun d => reg (prof d)) l with
      | d :: _ => [d]
      | [] => []
      end
    end
  end.

(* ------------------------------------------------------------------ refine_hmmscan_results *)
(* one gene: the set of its HMMResults, sorted by the total key *)
Definition canonical (l : list hit) : list hit := sort_by key_lt (dedupe hit_eqb l).

Definition refine_gene (neighbour : bool) (L : Z -> Z) (reg : Z -> bool) (l : list hit) : res (list hit) :=
  let refined := canonical l in
  if neighbour then
    do r1 <- remove_overlapping_l L refined;
    do r2 <- merge_neighbours_l L r1;
    Ok (remove_incomplete L reg r2)
  else
    do r2 <- remove_overlapping_l L (merge_domain_list L refined);
    Ok (remove_incomplete L reg r2).

(* all genes; the result dictionary is observed key-sorted, genes without a refined hit are absent *)
Definition gene_lt (a b : Z) : bool := a <? b.
Definition genes_of (l : list (Z * hit)) : list Z := sort_by gene_lt (dedupe Z.eqb (map fst l)).
Definition hits_of (g : Z) (l : list (Z * hit)) : list hit :=
  map snd (filter (fun gh => fst gh =? g) l).

Definition refine_all (neighbour : bool) (L : Z -> Z) (reg : Z -> bool) (l : list (Z * hit))
  : res (list (Z * list hit)) :=
  do per <- mapM (fun g => do r <- refine_gene neighbour L reg (hits_of g l); Ok (g, r)) (genes_of l);
  Ok (filter (fun gr => match snd gr with [] => false | _ => true end) per).

(* profile table: entry = (present, length, regulator flag) *)
Definition ptable := list (Z * Z * Z).
Definition pentry (t : ptable) (p : Z) : Z * Z * Z := nth (Z.to_nat p) t (0, 1, 0).
Definition plen (t : ptable) (p : Z) : Z := snd (fst (pentry t p)).
Definition preg (t : ptable) (p : Z) : bool := negb (snd (pentry t p) =? 0).
Definition ppresent (t : ptable) (p : Z) : bool := negb (fst (fst (pentry t p)) =? 0).

(* hmm_lengths[hit_id] raises KeyError for a profile without a length.  Every hit of a gene is
   looked up at least once on every path (category[0] in _merge_domain_list; result/previous in
   _remove_overlapping when there are two or more hits; remove_incomplete for a single one), so the
   call raises KeyError exactly when some hit's profile is absent: checked up front. *)
Definition refine_table (neighbour : bool) (t : ptable) (l : list (Z * hit)) : res (list (Z * list hit)) :=
  if forallb (fun gh => ppresent t (prof (snd gh))) l
  then refine_all neighbour (plen t) (preg t) l
  else Err E_Key.

(* ------------------------------------------------------------------ hmmer.remove_overlapping *)
Record hhit := mkHH { h_id : Z; h_st : Z; h_en : Z; h_sc : Z }.
Definition hh_eqb (a b : hhit) : bool :=
  (h_id a =? h_id b) && (h_st a =? h_st b) && (h_en a =? h_en b) && (h_sc a =? h_sc b).
Definition hh_len (h : hhit) : Z := h_en h - h_st h.

(* ranking_stats: (cutoff/score, 1/len, protein_start, identifier) ascending *)
Definition rank_lt (cut : Z -> Z) (a b : hhit) : bool :=
  let na := cut (h_id a) * h_sc b in
  let nb := cut (h_id b) * h_sc a in
  (na <? nb) || ((na =? nb) &&
  ((hh_len b <? hh_len a) || ((hh_len b =? hh_len a) &&
  ((h_st a <? h_st b) || ((h_st a =? h_st b) &&
  (h_id a <? h_id b)))))).

Definition set_add (x : hhit) (s : list hhit) : list hhit := if mem hh_eqb x s then s else s ++ [x].

(* the grouping loop (`for hit in hits[1:]`): state = (finished groups, current, max_current) *)
Definition group_step (limit : Z) (s : list (list hhit) * list hhit * Z) (h : hhit)
  : list (list hhit) * list hhit * Z :=
  let '(groups, current, maxc) := s in
  if maxc - limit <? h_st h then (groups ++ [current], [h], h_en h)
  else (groups, set_add h current, Z.max maxc (h_en h)).

Definition hh_groups (limit : Z) (sorted : list hhit) : list (list hhit) :=
  match sorted with
  | [] => []
  | h0 :: rest =>
    let '(groups, current, _) := fold_left (group_step limit) rest ([], [h0], h_en h0) in
    groups ++ [current]
  end.

(* hit.protein_start <= other.protein_end - limit and hit.protein_end >= other.protein_start + limit *)
Definition conflict (limit : Z) (h o : hhit) : bool :=
  (h_st h <=? h_en o - limit) && (h_st o + limit <=? h_en h).

Definition best_step (limit : Z) (best_of : list hhit) (h : hhit) : list hhit :=
  if existsb (conflict limit h) best_of then best_of else best_of ++ [h].
Definition best_of_group (limit : Z) (cut : Z -> Z) (g : list hhit) : list hhit :=
  fold_left (best_step limit) (sort_by (rank_lt cut) g) [].

(* both sorts: key (protein_start, ranking_stats(hit)), compared as Python compares tuples *)
Definition hh_sort_lt (cut : Z -> Z) (a b : hhit) : bool :=
  (h_st a <? h_st b) || ((h_st a =? h_st b) && rank_lt cut a b).

(* cutoffs[hit.identifier] *)
Definition cut_of (cutoffs : list (option Z)) : Z -> Z :=
  fun i => match nth (Z.to_nat i) cutoffs None with Some c => c | None => 0 end.

Definition hmmer_remove_overlapping (limit : Z) (cutoffs : list (option Z)) (hits : list hhit)
  : res (list hhit) :=
  match hits with
  | [] => Err E_Assert                                   (* if not hits: assert 0 *)
  | _ =>
    if forallb (fun h => match nth (Z.to_nat (h_id h)) cutoffs None with Some _ => true | None => false end) hits
    then
      let cut := cut_of cutoffs in
      let sorted := sort_by (hh_sort_lt cut) hits in
      let cleaned := flat_map (best_of_group limit cut) (hh_groups limit sorted) in
      Ok (sort_by (hh_sort_lt cut) cleaned)
    else Err E_Value                                     (* KeyError re-raised as ValueError *)
  end.

(* ------------------------------------------------------------------ filter_result_multiple *)
Record mhit := mkMH { m_id : Z; m_prof : Z; m_hs : Z; m_sc : Z }.

(* query_scores: association list in dict insertion order; value = (index, hit);
   the threshold -1 of the default entry is -2 on the doubled score scale *)
Fixpoint qs_get (p : Z) (qs : list (Z * (Z * mhit))) : option (Z * mhit) :=
  match qs with [] => None | (q, v) :: r => if q =? p then Some v else qs_get p r end.
Fixpoint qs_set (p : Z) (v : Z * mhit) (qs : list (Z * (Z * mhit))) : list (Z * (Z * mhit)) :=
  match qs with
  | [] => [(p, v)]
  | (q, w) :: r => if q =? p then (q, v) :: r else (q, w) :: qs_set p v r
  end.
Definition frm_step (s : list (Z * (Z * mhit)) * Z) (h : mhit) : list (Z * (Z * mhit)) * Z :=
  let '(qs, i) := s in
  let old := match qs_get (m_prof h) qs with Some (_, b) => m_sc b | None => -2 end in
  (if old <? m_sc h then qs_set (m_prof h) (i, h) qs else qs, i + 1).
Definition frm_cds (hits : list mhit) : list mhit :=
  let qs := fst (fold_left frm_step hits ([], 0)) in
  map snd (sort_by (fun a b => fst a <? fst b) (map snd qs)).
Definition filter_result_multiple (cds : list (list mhit)) : list mhit * list (list mhit) :=
  let by_id := map frm_cds cds in
  (sort_by (fun a b => m_hs a <? m_hs b) (concat by_id), by_id).

(* ------------------------------------------------------------------ filter_results *)
(* f_rank = position of the object in set iteration order (its hash) *)
Record fhit := mkFH { f_id : Z; f_prof : Z; f_hs : Z; f_he : Z; f_sc : Z; f_rank : Z }.

Definition hsp_overlap_size (a b : fhit) : res Z :=
  if negb (f_hs a <? f_he a) then Err E_Assert
  else if negb (f_hs b <? f_he b) then Err E_Assert
  else Ok (Z.max 0 (Z.min (f_he a) (f_he b) - Z.max (f_hs a) (f_hs b))).

Definition fmem (x : fhit) (s : list fhit) : bool := existsb (fun y => f_id x =? f_id y) s.
Definition fadd (x : fhit) (s : list fhit) : list fhit := if fmem x s then s else s ++ [x].

(* pairing & group *)
Definition touches (a b : fhit) (g : list fhit) : bool := fmem a g || fmem b g.
(* group.update(other) *)
Definition fupdate (g other : list fhit) : list fhit := fold_left (fun s x => fadd x s) other g.

(* linked = [group for group in overlapping_groups if pairing & group]
   if not linked: (None) ...
   linked[0].update(pairing, *linked[1:])
   overlapping_groups = [group for group in overlapping_groups if not any(group is other for other in linked[1:])]
   - the first linked group stays where it is and takes the pair and every later linked group, which are dropped *)
Fixpoint unite_groups (a b : fhit) (groups : list (list fhit)) : option (list (list fhit)) :=
  match groups with
  | [] => None
  | g :: gs =>
    if touches a b g
    then Some (fold_left fupdate (filter (touches a b) gs) (fadd b (fadd a g))
               :: filter (fun g' => negb (touches a b g')) gs)
    else match unite_groups a b gs with
         | Some gs' => Some (g :: gs')
         | None => None
         end
  end.

Definition pair_step (h : fhit) (s : res (list (list fhit))) (o : fhit) : res (list (list fhit)) :=
  do groups <- s;
  if f_id h =? f_id o then Ok groups else
  do size <- hsp_overlap_size h o;
  if size <=? 20 then Ok groups else
  match unite_groups h o groups with
  | Some groups' => Ok groups'
  | None => Ok (groups ++ [[h; o]])
  end.

Definition overlapping_groups (cds : list fhit) : res (list (list fhit)) :=
  fold_left (fun s h => fold_left (pair_step h) cds s) cds (Ok []).

(* a group is a set of identity-hashed objects: `for hit in group` iterates it in set order (ascending f_rank) *)
Definition rank_order (g : list fhit) : list fhit := sort_by (fun a b => f_rank a <? f_rank b) g.
(* ordered = [hit for hit in cdsresults if hit in group]      (cdsresults IS results_by_id[cds], the live list)
   best = ordered[0]; for hit in ordered: if hit.bitscore > best.bitscore: best = hit
   - since the repair of filter_results_score_tie_set_order the best hit is searched in the order of the gene's hit list:
     of several hits with the highest bitscore the first one listed is kept (before: `best = list(group)[0]; for hit in
     group`, i.e. best_of (rank_order g)).  `ordered[0]` of an empty list (IndexError) does not occur: a group is a
     non-empty set of hits of the live list (C13_filter_results_best_of) *)
Definition hit_order (mine g : list fhit) : list fhit := filter (fun h => fmem h g) mine.
Definition best_of (ordered : list fhit) : option fhit :=
  match ordered with
  | [] => None
  | b :: r => Some (fold_left (fun best h => if f_sc best <? f_sc h then h else best) (b :: r) b)
  end.

Definition remove_id (i : Z) (l : list fhit) : list fhit := filter (fun h => negb (f_id h =? i)) l.

(* removal pass of one group: state = (results, this gene's list, removed ids) *)
Definition removal_step (best : fhit) (s : list fhit * list fhit * list Z) (h : fhit)
  : list fhit * list fhit * list Z :=
  let '(results, mine, removed) := s in
  if f_id h =? f_id best then s
  else if mem Z.eqb (f_id h) removed then s
  else (remove_id (f_id h) results, remove_id (f_id h) mine, f_id h :: removed).

Definition group_pass (s : list fhit * list fhit * list Z) (g : list fhit) : list fhit * list fhit * list Z :=
  let '(_, mine, _) := s in
  match best_of (hit_order mine g) with
  | None => s
  | Some best => fold_left (removal_step best) (rank_order g) s
  end.

(* one gene under one equivalence group *)
Definition fr_cds (eqg : list Z) (s : res (list fhit * list Z)) (mine : list fhit)
  : res (list fhit * list Z) * list fhit :=
  match s with
  | Err k => (Err k, mine)
  | Ok (results, removed) =>
    let present := dedupe Z.eqb (map f_prof mine) in
    if zlen (filter (fun p => mem Z.eqb p eqg) present) <? 2 then (s, mine)
    else match overlapping_groups mine with
         | Err k => (Err k, mine)
         | Ok groups =>
           let '(results', mine', removed') := fold_left group_pass groups (results, mine, removed) in
           match mine' with
           | [] => (Err E_Assert, mine')
           | _ => (Ok (results', removed'), mine')
           end
         end
  end.

Fixpoint fr_all_cds (eqg : list Z) (s : res (list fhit * list Z)) (by_id : list (list fhit))
  : res (list fhit * list Z) * list (list fhit) :=
  match by_id with
  | [] => (s, [])
  | mine :: rest =>
    let '(s1, mine') := fr_cds eqg s mine in
    let '(s2, rest') := fr_all_cds eqg s1 rest in
    (s2, mine' :: rest')
  end.

Fixpoint filter_results (eqgs : list (list Z)) (results : list fhit) (by_id : list (list fhit))
  : res (list fhit * list (list fhit)) :=
  match eqgs with
  | [] => Ok (results, by_id)
  | eqg :: more =>
    match fr_all_cds eqg (Ok (results, [])) by_id with
    | (Err k, _) => Err k
    | (Ok (results', _), by_id') => filter_results more results' by_id'
    end
  end.

(* ------------------------------------------------------------------ filter_results: decidable specification
   (no part of the transcription; evaluated on the implementation's output, fn 105) *)
(* two different objects with hsp_overlap_size > 20 *)
Definition fov (a b : fhit) : bool :=
  negb (f_id a =? f_id b) && (20 <? Z.min (f_he a) (f_he b) - Z.max (f_hs a) (f_hs b)).
(* connected component of h under fov among the gene's hits: closure by repeated growth *)
Definition fgrow (cds S : list fhit) : list fhit :=
  S ++ filter (fun x => negb (fmem x S) && existsb (fun y => fov y x) S) cds.
Fixpoint fclosure (n : nat) (cds S : list fhit) : list fhit :=
  match n with O => S | Datatypes.S n' => fclosure n' cds (fgrow cds S) end.
Definition fcomp (cds : list fhit) (h : fhit) : list fhit := fclosure (length cds) cds [h].
(* h scores at least as high as every hit of its component *)
Definition comp_best (cds : list fhit) (h : fhit) : bool :=
  forallb (fun o => f_sc o <=? f_sc h) (fcomp cds h).

Fixpoint znodup (l : list Z) : bool :=
  match l with [] => true | x :: t => negb (mem Z.eqb x t) && znodup t end.
(* domain: hit_start < hit_end, distinct objects *)
Definition fwf (cds : list fhit) : bool :=
  forallb (fun h => f_hs h <? f_he h) cds && znodup (map f_id cds).
Definition distinct_scores (cds : list fhit) : bool := znodup (map f_sc cds).
(* len(hits & equivalence_group) >= 2 *)
Definition competing (eqg : list Z) (mine : list fhit) : bool :=
  negb (zlen (filter (fun p => mem Z.eqb p eqg) (dedupe Z.eqb (map f_prof mine))) <? 2).

(* what the property demands of one gene under one equivalence group: of every connected component
   of the overlap relation exactly the best-scoring hit stays, everything else is untouched.
   result: (results', mine', applicable (domain and pairwise distinct scores)) *)
Definition fr_step_spec (eqg : list Z) (results mine : list fhit) : list fhit * list fhit * bool :=
  if competing eqg mine then
    let dead := filter (fun h => negb (comp_best mine h)) mine in
    (filter (fun r => negb (fmem r dead)) results, filter (comp_best mine) mine,
     fwf mine && distinct_scores mine)
  else (results, mine, true).
Fixpoint fr_genes_spec (eqg : list Z) (results : list fhit) (by_id : list (list fhit))
  : list fhit * list (list fhit) * bool :=
  match by_id with
  | [] => (results, [], true)
  | mine :: rest =>
    let '(r1, m1, a1) := fr_step_spec eqg results mine in
    let '(r2, rest', a2) := fr_genes_spec eqg r1 rest in
    (r2, m1 :: rest', a1 && a2)
  end.
Fixpoint fr_spec (eqgs : list (list Z)) (results : list fhit) (by_id : list (list fhit))
  : list fhit * list (list fhit) * bool :=
  match eqgs with
  | [] => (results, by_id, true)
  | eqg :: more =>
    let '(r1, b1, a1) := fr_genes_spec eqg results by_id in
    let '(r2, b2, a2) := fr_spec more r1 b1 in
    (r2, b2, a1 && a2)
  end.

(* ------------------------------------------------------------------ filter_nonterminal_docking_domains *)
Record dhit := mkDH { d_id : Z; d_dock : Z; d_s : Z; d_e : Z }.
Definition docking_keep (cds_length : Z) (h : dhit) : bool :=
  negb (negb (d_dock h =? 0) &&
        negb ((cds_length - Z.max (d_s h) (d_e h) <? 50) || (Z.min (d_s h) (d_e h) <? 50))).
Definition filter_docking (cds : list (Z * list dhit)) : list (Z * list dhit) :=
  filter (fun c => match snd c with [] => false | _ => true end)
         (map (fun c => (fst c, filter (docking_keep (fst c)) (snd c))) cds).

(* ------------------------------------------------------------------ decidable specifications
   evaluated on an output (the implementation's or the model's) *)
Fixpoint sorted_by_start (l : list hit) : bool :=
  match l with
  | a :: ((b :: _) as t) => (st a <=? st b) && sorted_by_start t
  | _ => true
  end.
(* no hit starts earlier than (end of an earlier hit) - 0.2 * max length *)
Fixpoint pairwise_margin (L : Z -> Z) (l : list hit) : bool :=
  match l with
  | [] => true
  | a :: t => forallb (fun b => negb (ovl L b a)) t && pairwise_margin L t
  end.
(* field provenance: profile/start/end/score/e-value each come from an input hit of that profile *)
Definition from_input (inp : list hit) (h : hit) : bool :=
  existsb (fun a => (prof a =? prof h) && (st a =? st h)) inp &&
  existsb (fun a => (prof a =? prof h) && (en a =? en h)) inp &&
  existsb (fun a => (prof a =? prof h) && (sc a =? sc h)) inp &&
  existsb (fun a => (prof a =? prof h) && (ev a =? ev h)) inp.

(* "the merge spans its fragments": h covers x = same profile and x lies inside h *)
Definition covers (h x : hit) : bool := (prof h =? prof x) && (st h <=? st x) && (en x <=? en h).
(* neighbour mode, one gene: every complete hit that survives the overlap pass lies inside a
   returned hit of its profile (repaired finding class merge_truncates) *)
Definition gene_coverage (L : Z -> Z) (l out : list hit) : bool :=
  match canonical l with
  | [] => true
  | c :: t => forallb (fun x => negb (is_complete L x) || existsb (fun h => covers h x) out) (ro L c t)
  end.
Definition out_of (g : Z) (out : list (Z * list hit)) : list hit :=
  match find (fun gr => fst gr =? g) out with Some gr => snd gr | None => [] end.
Definition coverage_all (L : Z -> Z) (l : list (Z * hit)) (out : list (Z * list hit)) : bool :=
  forallb (fun g => gene_coverage L (hits_of g l) (out_of g out)) (genes_of l).

(* ------------------------------------------------------------------ the guard of the pairwise-margin clause
   (finding class greedy_replacement_margin = inputs outside it) *)
(* monotone overlap: in list order a .. b .. c, if c overlaps a beyond the margin then so does b *)
Fixpoint mono_from (L : Z -> Z) (a : hit) (t : list hit) : bool :=
  match t with
  | [] => true
  | b :: t' => forallb (fun c => negb (ovl L c a) || ovl L b a) t' && mono_from L a t'
  end.
Fixpoint mono_ovl (L : Z -> Z) (l : list hit) : bool :=
  match l with
  | [] => true
  | a :: t => mono_from L a t && mono_ovl L t
  end.
(* the guard of one gene: the list handed to _remove_overlapping has monotone overlap *)
Definition margin_guard (neighbour : bool) (L : Z -> Z) (l : list hit) : bool :=
  mono_ovl L (if neighbour then canonical l else merge_domain_list L (canonical l)).
(* the guard of a whole call: every gene's *)
Definition margin_guard_all (neighbour : bool) (L : Z -> Z) (l : list (Z * hit)) : bool :=
  forallb (fun g => margin_guard neighbour L (hits_of g l)) (genes_of l).
(* all hits' profiles have the same length *)
Definition uniform_len (L : Z -> Z) (l : list hit) : bool :=
  match l with [] => true | h :: t => forallb (fun x => L (prof x) =? L (prof h)) t end.


(* ------------------------------------------------------------------ encoding *)
Definition dHit : dec hit := fun l =>
  match l with a :: b :: c :: d :: e :: r => Some (mkHit a b c d e, r) | _ => None end.
Definition dGHit : dec (Z * hit) := dPair dZ dHit.
Definition dPEntry : dec (Z * Z * Z) := fun l =>
  match l with a :: b :: c :: r => Some ((a, b, c), r) | _ => None end.
Definition eHit (h : hit) : list Z := [prof h; st h; en h; ev h; sc h].
Definition eGenes (l : list (Z * list hit)) : list Z := eList (fun gr => fst gr :: eList eHit (snd gr)) l.

Definition table_ok (t : ptable) (l : list (Z * hit)) : bool :=
  forallb (fun e => let '(p, len, _) := e in (p =? 0) || (1 <=? len)) t &&
  forallb (fun gh => (0 <=? prof (snd gh)) && (prof (snd gh) <? zlen t)) l.

Definition dHH : dec hhit := fun l =>
  match l with a :: b :: c :: d :: r => Some (mkHH a b c d, r) | _ => None end.
Definition eHH (h : hhit) : list Z := [h_id h; h_st h; h_en h; h_sc h].
Definition dMH : dec mhit := fun l =>
  match l with a :: b :: c :: d :: r => Some (mkMH a b c d, r) | _ => None end.
Definition dFH : dec fhit := fun l =>
  match l with a :: b :: c :: d :: e :: f :: r => Some (mkFH a b c d e f, r) | _ => None end.
Definition dDH : dec dhit := fun l =>
  match l with a :: b :: c :: d :: r => Some (mkDH a b c d, r) | _ => None end.

Definition eMIds (l : list mhit) : list Z := eList (fun h => [m_id h]) l.
Definition eFIds (l : list fhit) : list Z := eList (fun h => [f_id h]) l.
Definition eDIds (l : list dhit) : list Z := eList (fun h => [d_id h]) l.

(* ------------------------------------------------------------------ find_hmmer_hits: the two filters in sequence
     results, results_by_id = filter_results(results, results_by_id, equivalence_groups)   # competition of profiles
     results, results_by_id = filter_result_multiple(results, results_by_id)               # best hit per profile
   (the per-gene lists the first one leaves are what the second one scans).  find_hits_filters_swapped is the
   order a seeded change of round 6 used: a profile's best-scoring hit is picked BEFORE the competition, so a profile
   that wins one domain and scores higher but loses on another domain disappears from the gene *)
Definition to_mhit (h : fhit) : mhit := mkMH (f_id h) (f_prof h) (f_hs h) (f_sc h).
Definition find_hits_filters (eqgs : list (list Z)) (results : list fhit) (by_id : list (list fhit))
  : res (list mhit * list (list mhit)) :=
  do r <- filter_results eqgs results by_id;
  Ok (filter_result_multiple (map (map to_mhit) (snd r))).
(* what find_hmmer_hits returns: per gene the surviving hits in the order of the final `results` list (sorted by
   hit_start); a gene without survivors has no entry (an empty list here) *)
Definition find_hits_view (out : list mhit * list (list mhit)) : list (list Z) :=
  map (fun g => map m_id (filter (fun h => existsb (Z.eqb (m_id h)) (map m_id g)) (fst out))) (snd out).
Definition find_hits_filters_swapped (eqgs : list (list Z)) (results : list fhit) (by_id : list (list fhit))
  : res (list Z * list (list Z)) :=
  let kept := map m_id (fst (filter_result_multiple (map (map to_mhit) by_id))) in
  let keep := fun h => existsb (Z.eqb (f_id h)) kept in
  do r <- filter_results eqgs (filter keep results) (map (filter keep) by_id);
  Ok (map f_id (fst r), map (map f_id) (snd r)).

Definition run_refine (neighbour : bool) (l : list Z) : list Z :=
  match dPair (dList dPEntry) (dList dGHit) l with
  | Some ((t, hits), []) =>
    if table_ok t hits then eRes eGenes (refine_table neighbour t hits) else bad_input
  | _ => bad_input
  end.

(* spec on an output: payload = table, input hits, then the (implementation's) result.
   answer: [ok; sorted; provenance; pairwise margin; coverage (neighbour mode only); margin guard of the input] *)
Definition run_refine_spec (neighbour : bool) (l : list Z) : list Z :=
  match dPair (dList dPEntry) (dList dGHit) l with
  | Some ((t, hits), 0 :: r) =>
    match dList (dPair dZ (dList dHit)) r with
    | Some (out, []) =>
      let s := forallb (fun gr => sorted_by_start (snd gr)) out in
      let p := forallb (fun gr => forallb (from_input (hits_of (fst gr) hits)) (snd gr)) out in
      let m := forallb (fun gr => pairwise_margin (plen t) (snd gr)) out in
      let c := if neighbour then coverage_all (plen t) hits out else true in
      let g := margin_guard_all neighbour (plen t) hits in
      eBool (s && p && m && c) ++ eBool s ++ eBool p ++ eBool m ++ eBool c ++ eBool g
    | _ => bad_input
    end
  | Some (_, [1; _]) => [1; 1; 1; 1; 1; 1]
  | _ => bad_input
  end.

Fixpoint pairwise_noconflict (limit : Z) (l : list hhit) : bool :=
  match l with
  | [] => true
  | a :: t => forallb (fun b => negb (conflict limit a b)) t && pairwise_noconflict limit t
  end.
(* multiplicity: no hit is returned more often than it occurs in the input *)
Fixpoint hcount (x : hhit) (l : list hhit) : Z :=
  match l with [] => 0 | y :: t => (if hh_eqb x y then 1 else 0) + hcount x t end.
Definition hh_nomult (inp out : list hhit) : bool :=
  forallb (fun x => hcount x out <=? hcount x inp) out.

(* every input hit is returned or conflicts with a returned hit that ranks strictly better *)
Definition hh_dropped_ok (limit : Z) (cut : Z -> Z) (inp out : list hhit) : bool :=
  forallb (fun x => mem hh_eqb x out || existsb (fun k => conflict limit x k && rank_lt cut k x) out) inp.

Definition hh_ok (n : Z) (h : hhit) : bool :=
  (0 <=? h_id h) && (h_id h <? n) && (h_st h <? h_en h) && (0 <? h_sc h).

Definition run_C13 (fn : Z) (l : list Z) : list Z :=
  match fn with
  | 1 => run_refine true l
  | 2 => run_refine false l
  | 3 => match dPair dZ (dPair (dList (dOpt dZ)) (dList dHH)) l with
         | Some ((limit, (cutoffs, hits)), []) =>
           if forallb (hh_ok (zlen cutoffs)) hits
              && forallb (fun c => match c with Some v => 0 <? v | None => true end) cutoffs
           then eRes (eList eHH) (hmmer_remove_overlapping limit cutoffs hits)
           else bad_input
         | _ => bad_input
         end
  | 4 => match dList (dList dMH) l with
         | Some (cds, []) =>
           let '(results, by_id) := filter_result_multiple cds in
           0 :: eMIds results ++ eList eMIds by_id
         | _ => bad_input
         end
  | 5 => match dPair (dList (dList dZ)) (dPair (dList dFH) (dList (dList dFH))) l with
         | Some ((eqgs, (results, by_id)), []) =>
           eRes (fun r => eFIds (fst r) ++ eList eFIds (snd r)) (filter_results eqgs results by_id)
         | _ => bad_input
         end
  | 6 => match dList (dPair dZ (dList dDH)) l with
         | Some (cds, []) => 0 :: eList (fun c => fst c :: eDIds (snd c)) (filter_docking cds)
         | _ => bad_input
         end
  | 8 => (* the two filters in the order find_hmmer_hits applies them *)
         match dPair (dList (dList dZ)) (dPair (dList dFH) (dList (dList dFH))) l with
         | Some ((eqgs, (results, by_id)), []) =>
           eRes (fun r => eList (fun ids => eList (fun i => [i]) ids) (find_hits_view r)) (find_hits_filters eqgs results by_id)
         | _ => bad_input
         end
  | 7 => (* HMMResult.merge itself *)
         match dPair dHit dHit l with
         | Some ((a, b), []) => eRes eHit (merge_checked a b)
         | _ => bad_input
         end
  | 105 => (* payload of fn 5 followed by the result: [ok; applicable; result = specification] *)
         match dPair (dList (dList dZ)) (dPair (dList dFH) (dList (dList dFH))) l with
         | Some ((eqgs, (results, by_id)), r) =>
           let '(sr, sb, app0) := fr_spec eqgs results by_id in
           let app := app0 && znodup (map f_id (concat by_id)) in
           let same :=
             match r with
             | 0 :: r' =>
               match dPair (dList dZ) (dList (dList dZ)) r' with
               | Some ((ir, ib), []) =>
                 list_eqb Z.eqb ir (map f_id sr) && list_eqb (list_eqb Z.eqb) ib (map (map f_id) sb)
               | _ => false
               end
             | _ => false
             end in
           eBool (negb app || same) ++ eBool app ++ eBool same
         | _ => bad_input
         end
  | 101 => run_refine_spec true l
  | 102 => run_refine_spec false l
  | 107 => (* payload of fn 7 followed by the result: [the merged hit spans both operands; best score and least e-value] *)
         match dPair dHit dHit l with
         | Some ((a, b), 0 :: r) =>
           match dHit r with
           | Some (m, []) => eBool (covers m a && covers m b)
                             ++ eBool ((sc m =? Z.max (sc a) (sc b)) && (ev m =? Z.min (ev a) (ev b)))
           | _ => bad_input
           end
         | Some (_, [1; _]) => [1; 1]
         | _ => bad_input
         end
  | 103 => (* payload of fn 3 followed by the result: [ok; no conflicting pair; multiplicity; dropped only for a kept better-ranked conflicting hit] *)
         match dPair dZ (dPair (dList (dOpt dZ)) (dList dHH)) l with
         | Some ((limit, (cutoffs, hits)), 0 :: r) =>
           match dList dHH r with
           | Some (out, []) =>
             let c := pairwise_noconflict limit out in
             let d := hh_nomult hits out in
             let b := hh_dropped_ok limit (cut_of cutoffs) hits out in
             eBool (c && d && b) ++ eBool c ++ eBool d ++ eBool b
           | _ => bad_input
           end
         | Some (_, [1; _]) => [1; 1; 1; 1]
         | _ => bad_input
         end
  | _ => bad_input
  end.
