(* C13 - lemmas and proofs. *)
From ASV Require Import Base.
From ASV.C13 Require Import Model.
From Coq Require Import Sorting.Sorted Sorting.Permutation ZifyBool.

(* ------------------------------------------------------------------ generic: sets as lists *)
Lemma filter_sub_In {A} (f : A -> bool) x l : In x (filter f l) -> In x l.
Proof. intros H. apply filter_In in H. tauto. Qed.

Lemma dedupe_In {A} (eqb : A -> A -> bool) (Heq : forall a b, eqb a b = true <-> a = b) :
  forall l x, In x (dedupe eqb l) <-> In x l.
Proof.
  induction l as [|y ys IH]; intros x; cbn [dedupe]; [tauto|].
  split.
  - intros [H|H]; [left; exact H|]. apply filter_In in H. right. apply IH. tauto.
  - intros [H|H]; [left; exact H|].
    destruct (eqb y x) eqn:E.
    + left. apply Heq. exact E.
    + right. apply filter_In. split; [apply IH; exact H|]. rewrite E. reflexivity.
Qed.

Lemma dedupe_NoDup {A} (eqb : A -> A -> bool) (Heq : forall a b, eqb a b = true <-> a = b) :
  forall l, NoDup (dedupe eqb l).
Proof.
  induction l as [|y ys IH]; cbn [dedupe]; [constructor|].
  constructor.
  - intros H. apply filter_In in H. destruct H as [_ H].
    assert (E : eqb y y = true) by (apply Heq; reflexivity). rewrite E in H. discriminate.
  - apply NoDup_filter. exact IH.
Qed.

(* ------------------------------------------------------------------ generic: insertion sort *)
Lemma insert_by_In {A} (lt : A -> A -> bool) x : forall l z, In z (insert_by lt x l) <-> z = x \/ In z l.
Proof.
  induction l as [|y ys IH]; intros z; cbn [insert_by].
  - cbn. intuition.
  - destruct (lt x y); cbn [In].
    + intuition.
    + rewrite IH. intuition.
Qed.

Lemma fold_insert_In {A} (lt : A -> A -> bool) : forall l acc z,
  In z (fold_left (fun acc x => insert_by lt x acc) l acc) <-> In z l \/ In z acc.
Proof.
  induction l as [|x xs IH]; intros acc z; cbn [fold_left].
  - cbn. tauto.
  - rewrite IH. rewrite insert_by_In. cbn [In]. intuition.
Qed.

Lemma sort_by_In {A} (lt : A -> A -> bool) l z : In z (sort_by lt l) <-> In z l.
Proof. unfold sort_by. rewrite fold_insert_In. cbn. tauto. Qed.

Definition ssorted {A} (lt : A -> A -> bool) (l : list A) : Prop :=
  StronglySorted (fun a b => lt a b = true) l.

Lemma insert_by_ssorted {A} (lt : A -> A -> bool)
  (Htrans : forall a b c, lt a b = true -> lt b c = true -> lt a c = true) x :
  forall l, ssorted lt l -> (forall y, In y l -> lt x y = false -> lt y x = true) ->
  ssorted lt (insert_by lt x l).
Proof.
  induction l as [|y ys IH]; intros Hs Hx; cbn [insert_by].
  - constructor; [constructor|constructor].
  - inversion Hs as [|? ? Hs' Hall]; subst.
    destruct (lt x y) eqn:E.
    + constructor; [exact Hs|].
      constructor; [exact E|].
      rewrite Forall_forall in *. intros z Hz. apply Htrans with y; [exact E|apply Hall; exact Hz].
    + constructor.
      * apply IH; [exact Hs'|]. intros z Hz. apply Hx. right. exact Hz.
      * rewrite Forall_forall in *. intros z Hz. apply insert_by_In in Hz. destruct Hz as [Hz|Hz].
        -- subst z. apply Hx; [left; reflexivity|exact E].
        -- apply Hall. exact Hz.
Qed.

Lemma fold_insert_ssorted {A} (lt : A -> A -> bool)
  (Htrans : forall a b c, lt a b = true -> lt b c = true -> lt a c = true)
  (Htotal : forall a b, lt a b = false -> lt b a = false -> a = b) :
  forall l acc, NoDup l -> (forall x, In x l -> ~ In x acc) -> ssorted lt acc ->
  ssorted lt (fold_left (fun acc x => insert_by lt x acc) l acc).
Proof.
  induction l as [|x xs IH]; intros acc Hnd Hdis Hs; cbn [fold_left]; [exact Hs|].
  inversion Hnd as [|? ? Hnx Hnd']; subst.
  apply IH; [exact Hnd'| |].
  - intros z Hz Hin. apply insert_by_In in Hin. destruct Hin as [Hin|Hin].
    + subst z. contradiction.
    + apply (Hdis z); [right; exact Hz|exact Hin].
  - apply insert_by_ssorted; [exact Htrans|exact Hs|].
    intros y Hy Hxy. destruct (lt y x) eqn:E; [reflexivity|].
    exfalso. apply (Hdis x); [left; reflexivity|].
    rewrite (Htotal x y Hxy E). exact Hy.
Qed.

Lemma ssorted_unique {A} (lt : A -> A -> bool)
  (Hirr : forall a, lt a a = false)
  (Htrans : forall a b c, lt a b = true -> lt b c = true -> lt a c = true) :
  forall l1 l2, ssorted lt l1 -> ssorted lt l2 -> (forall x, In x l1 <-> In x l2) -> l1 = l2.
Proof.
  induction l1 as [|a t1 IH]; intros l2 H1 H2 Hin.
  - destruct l2 as [|b t2]; [reflexivity|]. exfalso. apply (Hin b). left. reflexivity.
  - destruct l2 as [|b t2]; [exfalso; apply (Hin a); left; reflexivity|].
    inversion H1 as [|? ? H1' Ha]; subst. inversion H2 as [|? ? H2' Hb]; subst.
    rewrite Forall_forall in Ha, Hb.
    assert (Hab : a = b).
    { destruct (proj1 (Hin a) (or_introl eq_refl)) as [E|E]; [symmetry; exact E|].
      destruct (proj2 (Hin b) (or_introl eq_refl)) as [E'|E']; [exact E'|].
      pose proof (Hb a E) as X. pose proof (Ha b E') as Y.
      pose proof (Htrans _ _ _ X Y) as Z1. rewrite Hirr in Z1. discriminate. }
    subst b. f_equal. apply IH; [exact H1'|exact H2'|].
    intros x. split; intros Hx.
    + destruct (proj1 (Hin x) (or_intror Hx)) as [E|E]; [|exact E].
      subst x. pose proof (Ha a Hx) as X. rewrite Hirr in X. discriminate.
    + destruct (proj2 (Hin x) (or_intror Hx)) as [E|E]; [|exact E].
      subst x. pose proof (Hb a Hx) as X. rewrite Hirr in X. discriminate.
Qed.

(* sorting the set of a list by a strict total order depends on the set only *)
Lemma sort_dedupe_ext {A} (eqb lt : A -> A -> bool)
  (Heq : forall a b, eqb a b = true <-> a = b)
  (Hirr : forall a, lt a a = false)
  (Htrans : forall a b c, lt a b = true -> lt b c = true -> lt a c = true)
  (Htotal : forall a b, lt a b = false -> lt b a = false -> a = b) :
  forall l l', (forall x, In x l <-> In x l') ->
  sort_by lt (dedupe eqb l) = sort_by lt (dedupe eqb l').
Proof.
  intros l l' Hin.
  assert (S : forall m, ssorted lt (sort_by lt (dedupe eqb m))).
  { intros m. unfold sort_by. apply fold_insert_ssorted; [exact Htrans|exact Htotal| | |constructor].
    - apply dedupe_NoDup. exact Heq.
    - intros x _ H. exact H. }
  apply (ssorted_unique lt Hirr Htrans); [apply S|apply S|].
  intros x. rewrite !sort_by_In. rewrite !(dedupe_In eqb Heq). apply Hin.
Qed.

(* insertion sort by an integer key gives a list ordered by the key *)
Lemma insert_by_key_sorted {A} (f : A -> Z) x : forall l,
  StronglySorted Z.le (map f l) ->
  StronglySorted Z.le (map f (insert_by (fun a b => f a <? f b) x l)).
Proof.
  induction l as [|y ys IH]; intros Hs; cbn [insert_by map].
  - constructor; constructor.
  - cbn [map] in Hs. inversion Hs as [|? ? Hs' Hall]; subst.
    destruct (f x <? f y) eqn:E; cbn [map].
    + constructor; [exact Hs|]. constructor; [lia|].
      rewrite Forall_forall in *. intros z Hz. specialize (Hall z Hz). lia.
    + constructor; [apply IH; exact Hs'|].
      rewrite Forall_forall in *. intros z Hz. apply in_map_iff in Hz. destruct Hz as [w [Hw Hz]].
      apply insert_by_In in Hz. destruct Hz as [Hz|Hz].
      * subst. lia.
      * apply Hall. apply in_map_iff. exists w. tauto.
Qed.

Lemma sort_by_key_sorted {A} (f : A -> Z) (l : list A) :
  StronglySorted Z.le (map f (sort_by (fun a b => f a <? f b) l)).
Proof.
  unfold sort_by.
  assert (G : forall l acc, StronglySorted Z.le (map f acc) ->
              StronglySorted Z.le (map f (fold_left (fun acc x => insert_by (fun a b => f a <? f b) x acc) l acc))).
  { clear l. induction l as [|x xs IH]; intros acc Hs; cbn [fold_left]; [exact Hs|].
    apply IH. apply insert_by_key_sorted. exact Hs. }
  apply G. constructor.
Qed.

(* insertion sort by a comparison that refines an integer key gives a list ordered by the key *)
Lemma insert_by_key_sorted_gen {A} (f : A -> Z) (lt : A -> A -> bool)
  (H1 : forall a b, lt a b = true -> f a <= f b) (H2 : forall a b, lt a b = false -> f b <= f a) x : forall l,
  StronglySorted Z.le (map f l) -> StronglySorted Z.le (map f (insert_by lt x l)).
Proof.
  induction l as [|y ys IH]; intros Hs; cbn [insert_by map].
  - constructor; constructor.
  - cbn [map] in Hs. inversion Hs as [|? ? Hs' Hall]; subst.
    destruct (lt x y) eqn:E; cbn [map].
    + apply H1 in E. constructor; [exact Hs|]. constructor; [lia|].
      rewrite Forall_forall in *. intros z Hz. specialize (Hall z Hz). lia.
    + apply H2 in E. constructor; [apply IH; exact Hs'|].
      rewrite Forall_forall in *. intros z Hz. apply in_map_iff in Hz. destruct Hz as [w [Hw Hz]].
      apply insert_by_In in Hz. destruct Hz as [Hz|Hz].
      * subst. lia.
      * apply Hall. apply in_map_iff. exists w. tauto.
Qed.

Lemma sort_by_key_sorted_gen {A} (f : A -> Z) (lt : A -> A -> bool)
  (H1 : forall a b, lt a b = true -> f a <= f b) (H2 : forall a b, lt a b = false -> f b <= f a) (l : list A) :
  StronglySorted Z.le (map f (sort_by lt l)).
Proof.
  unfold sort_by.
  assert (G : forall l acc, StronglySorted Z.le (map f acc) ->
              StronglySorted Z.le (map f (fold_left (fun acc x => insert_by lt x acc) l acc))).
  { clear l. induction l as [|x xs IH]; intros acc Hs; cbn [fold_left]; [exact Hs|].
    apply IH. apply insert_by_key_sorted_gen; assumption. }
  apply G. constructor.
Qed.

(* the insertion sort permutes its input *)
Lemma insert_by_perm {A} (lt : A -> A -> bool) x : forall l, Permutation (insert_by lt x l) (x :: l).
Proof.
  induction l as [|y ys IH]; cbn [insert_by]; [apply Permutation_refl|].
  destruct (lt x y); [apply Permutation_refl|].
  apply Permutation_trans with (y :: x :: ys); [apply perm_skip; exact IH|apply perm_swap].
Qed.

Lemma sort_by_perm {A} (lt : A -> A -> bool) (l : list A) : Permutation (sort_by lt l) l.
Proof.
  unfold sort_by.
  assert (G : forall l acc, Permutation (fold_left (fun acc x => insert_by lt x acc) l acc) (l ++ acc)).
  { clear l. induction l as [|x xs IH]; intros acc; cbn [fold_left app]; [apply Permutation_refl|].
    apply Permutation_trans with (xs ++ insert_by lt x acc); [apply IH|].
    apply Permutation_trans with (xs ++ x :: acc); [apply Permutation_app_head; apply insert_by_perm|].
    apply Permutation_sym. apply Permutation_middle. }
  rewrite <- (app_nil_r l) at 2. apply G.
Qed.

(* ... and, for a strict order that is total on the elements (ties are equal elements), the result
   depends on the multiset only: duplicates allowed *)
Definition wsorted {A} (lt : A -> A -> bool) (l : list A) : Prop :=
  StronglySorted (fun a b => lt b a = false) l.

Lemma insert_by_wsorted {A} (lt : A -> A -> bool) (P : A -> Prop)
  (Hirr : forall a, lt a a = false)
  (Htrans : forall a b c, P a -> P b -> P c -> lt a b = true -> lt b c = true -> lt a c = true) x :
  forall l, P x -> Forall P l -> wsorted lt l -> wsorted lt (insert_by lt x l).
Proof.
  induction l as [|y ys IH]; intros Px HP Hs; cbn [insert_by].
  - constructor; [constructor|constructor].
  - inversion Hs as [|? ? Hs' Hall]; subst. inversion HP as [|? ? Py HP']; subst.
    rewrite Forall_forall in Hall, HP'.
    destruct (lt x y) eqn:E.
    + constructor; [exact Hs|]. constructor.
      * destruct (lt y x) eqn:E2; [|reflexivity].
        pose proof (Htrans x y x Px Py Px E E2) as X. rewrite Hirr in X. discriminate.
      * rewrite Forall_forall. intros z Hz. destruct (lt z x) eqn:E2; [|reflexivity].
        pose proof (Htrans z x y (HP' z Hz) Px Py E2 E) as X. rewrite (Hall z Hz) in X. discriminate.
    + constructor; [apply IH; [exact Px|rewrite Forall_forall; exact HP'|exact Hs']|].
      rewrite Forall_forall. intros z Hz. apply insert_by_In in Hz. destruct Hz as [->|Hz]; [exact E|apply Hall; exact Hz].
Qed.

Lemma sort_by_wsorted {A} (lt : A -> A -> bool) (P : A -> Prop)
  (Hirr : forall a, lt a a = false)
  (Htrans : forall a b c, P a -> P b -> P c -> lt a b = true -> lt b c = true -> lt a c = true) (l : list A) :
  Forall P l -> wsorted lt (sort_by lt l).
Proof.
  unfold sort_by.
  assert (G : forall l acc, Forall P l -> Forall P acc -> wsorted lt acc ->
              wsorted lt (fold_left (fun acc x => insert_by lt x acc) l acc)).
  { clear l. induction l as [|x xs IH]; intros acc Hl Ha Hs; cbn [fold_left]; [exact Hs|].
    inversion Hl as [|? ? Px Hxs]; subst. apply IH; [exact Hxs| |].
    - rewrite Forall_forall in *. intros z Hz. apply insert_by_In in Hz. destruct Hz as [->|Hz]; [exact Px|apply Ha; exact Hz].
    - apply (insert_by_wsorted lt P Hirr Htrans); assumption. }
  intros Hl. apply G; [exact Hl|constructor|constructor].
Qed.

Lemma wsorted_perm_eq {A} (lt : A -> A -> bool) (P : A -> Prop)
  (Htotal : forall a b, P a -> P b -> lt a b = false -> lt b a = false -> a = b) :
  forall l1 l2, Forall P l1 -> wsorted lt l1 -> wsorted lt l2 -> Permutation l1 l2 -> l1 = l2.
Proof.
  induction l1 as [|a t1 IH]; intros l2 HP H1 H2 Hp.
  - apply Permutation_nil in Hp. symmetry. exact Hp.
  - destruct l2 as [|b t2]; [apply Permutation_sym in Hp; apply Permutation_nil in Hp; discriminate|].
    inversion H1 as [|? ? H1' Ha]; subst. inversion H2 as [|? ? H2' Hb]; subst.
    inversion HP as [|? ? Pa HP']; subst.
    rewrite Forall_forall in Ha, Hb.
    assert (Pb : P b).
    { rewrite Forall_forall in HP. apply HP. apply (Permutation_in _ (Permutation_sym Hp)). left. reflexivity. }
    assert (Hab : a = b).
    { pose proof (Permutation_in _ Hp (or_introl eq_refl)) as Ia.
      pose proof (Permutation_in _ (Permutation_sym Hp) (or_introl eq_refl)) as Ib.
      destruct Ia as [E|Ia]; [symmetry; exact E|]. destruct Ib as [E|Ib]; [exact E|].
      apply Htotal; [exact Pa|exact Pb|apply Hb; exact Ia|apply Ha; exact Ib]. }
    subst b. f_equal. apply IH; [exact HP'|exact H1'|exact H2'|].
    apply (Permutation_cons_inv Hp).
Qed.

Lemma sort_by_perm_eq {A} (lt : A -> A -> bool) (P : A -> Prop)
  (Hirr : forall a, lt a a = false)
  (Htrans : forall a b c, P a -> P b -> P c -> lt a b = true -> lt b c = true -> lt a c = true)
  (Htotal : forall a b, P a -> P b -> lt a b = false -> lt b a = false -> a = b) :
  forall l l', Forall P l -> Permutation l l' -> sort_by lt l = sort_by lt l'.
Proof.
  intros l l' HP Hp.
  assert (HP' : Forall P l').
  { rewrite Forall_forall in *. intros x Hx. apply HP. apply (Permutation_in _ (Permutation_sym Hp)). exact Hx. }
  apply (wsorted_perm_eq lt P Htotal).
  - rewrite Forall_forall in *. intros x Hx. apply HP. apply (Permutation_in _ (sort_by_perm lt l)). exact Hx.
  - apply (sort_by_wsorted lt P Hirr Htrans). exact HP.
  - apply (sort_by_wsorted lt P Hirr Htrans). exact HP'.
  - apply Permutation_trans with l; [apply sort_by_perm|].
    apply Permutation_trans with l'; [exact Hp|apply Permutation_sym; apply sort_by_perm].
Qed.

(* sublists *)
Inductive sub {A} : list A -> list A -> Prop :=
| sub_nil : sub [] []
| sub_skip x l1 l2 : sub l1 l2 -> sub l1 (x :: l2)
| sub_keep x l1 l2 : sub l1 l2 -> sub (x :: l1) (x :: l2).

Lemma sub_refl {A} (l : list A) : sub l l.
Proof. induction l; constructor; assumption. Qed.
Lemma sub_nil_l {A} (l : list A) : sub [] l.
Proof. induction l; constructor; assumption. Qed.
Lemma sub_In {A} (l1 l2 : list A) : sub l1 l2 -> forall x, In x l1 -> In x l2.
Proof.
  induction 1 as [|y l1 l2 H IH|y l1 l2 H IH]; intros x Hx.
  - exact Hx.
  - right. apply IH. exact Hx.
  - destruct Hx as [Hx|Hx]; [left; exact Hx|right; apply IH; exact Hx].
Qed.
Lemma sub_trans {A} (l1 l2 l3 : list A) : sub l1 l2 -> sub l2 l3 -> sub l1 l3.
Proof.
  intros H12 H23. revert l1 H12.
  induction H23 as [|y l2 l3 H IH|y l2 l3 H IH]; intros l1 H12.
  - exact H12.
  - constructor. apply IH. exact H12.
  - inversion H12 as [|? ? ? H'|? ? ? H']; subst.
    + apply sub_skip. apply IH. exact H'.
    + apply sub_keep. apply IH. exact H'.
Qed.
Lemma sub_app_skip {A} (x : A) : forall p l r, sub l (p ++ r) -> sub l (p ++ x :: r).
Proof.
  induction p as [|a p IH]; intros l r H; cbn [app] in *.
  - apply sub_skip. exact H.
  - inversion H as [|? ? ? H'|? ? ? H']; subst.
    + apply sub_skip. apply IH. exact H'.
    + apply sub_keep. apply IH. exact H'.
Qed.
Lemma sub_filter {A} (f : A -> bool) (l : list A) : sub (filter f l) l.
Proof. induction l as [|x xs IH]; cbn [filter]; [constructor|]. destruct (f x); constructor; exact IH. Qed.
Lemma sub_map {A B} (f : A -> B) (l1 l2 : list A) : sub l1 l2 -> sub (map f l1) (map f l2).
Proof. induction 1; cbn [map]; constructor; assumption. Qed.
Lemma sub_sorted (l1 l2 : list Z) : sub l1 l2 -> StronglySorted Z.le l2 -> StronglySorted Z.le l1.
Proof.
  induction 1 as [|y l1 l2 H IH|y l1 l2 H IH]; intros Hs.
  - constructor.
  - inversion Hs; subst. apply IH. assumption.
  - inversion Hs as [|? ? Hs' Hall]; subst. constructor; [apply IH; exact Hs'|].
    rewrite Forall_forall in *. intros z Hz. apply Hall. apply (sub_In _ _ H). exact Hz.
Qed.

(* ------------------------------------------------------------------ the total key *)
Lemma hit_eqb_eq a b : hit_eqb a b = true <-> a = b.
Proof.
  unfold hit_eqb. split.
  - intros H. destruct a, b. cbn in H. f_equal; lia.
  - intros ->. destruct b. cbn. lia.
Qed.
Lemma key_lt_irrefl a : key_lt a a = false.
Proof. unfold key_lt. lia. Qed.
Lemma key_lt_trans a b c : key_lt a b = true -> key_lt b c = true -> key_lt a c = true.
Proof. unfold key_lt. lia. Qed.
Lemma key_lt_total a b : key_lt a b = false -> key_lt b a = false -> a = b.
Proof.
  unfold key_lt. intros H1 H2. destruct a, b. cbn in *. f_equal; lia.
Qed.
Lemma key_lt_start a b : key_lt a b = true -> st a <= st b.
Proof. unfold key_lt. lia. Qed.

Lemma canonical_ext l l' : (forall x, In x l <-> In x l') -> canonical l = canonical l'.
Proof.
  unfold canonical. apply sort_dedupe_ext.
  - exact hit_eqb_eq.
  - exact key_lt_irrefl.
  - exact key_lt_trans.
  - exact key_lt_total.
Qed.

Lemma canonical_In l x : In x (canonical l) <-> In x l.
Proof. unfold canonical. rewrite sort_by_In. apply dedupe_In. exact hit_eqb_eq. Qed.

Lemma canonical_ssorted l : ssorted key_lt (canonical l).
Proof.
  unfold canonical, sort_by. apply fold_insert_ssorted.
  - exact key_lt_trans.
  - exact key_lt_total.
  - apply dedupe_NoDup. exact hit_eqb_eq.
  - intros x _ H. exact H.
  - constructor.
Qed.

Definition sorted_st (l : list hit) : Prop := StronglySorted Z.le (map st l).

Lemma canonical_sorted_st l : sorted_st (canonical l).
Proof.
  unfold sorted_st. pose proof (canonical_ssorted l) as H. unfold ssorted in H.
  induction H as [|a t Hs IH Hall]; cbn [map]; constructor; [exact IH|].
  rewrite Forall_forall in *. intros z Hz. apply in_map_iff in Hz. destruct Hz as [w [<- Hw]].
  apply key_lt_start. apply Hall. exact Hw.
Qed.

(* ------------------------------------------------------------------ order independence *)
Lemma refine_gene_ext nb L reg l l' :
  (forall x, In x l <-> In x l') -> refine_gene nb L reg l = refine_gene nb L reg l'.
Proof. intros H. unfold refine_gene. rewrite (canonical_ext l l' H). reflexivity. Qed.

Lemma refine_gene_perm nb L reg l l' :
  Permutation l l' -> refine_gene nb L reg l = refine_gene nb L reg l'.
Proof.
  intros H. apply refine_gene_ext. intros x. split; intros Hx.
  - apply (Permutation_in _ H). exact Hx.
  - apply (Permutation_in _ (Permutation_sym H)). exact Hx.
Qed.

Lemma Zeqb_eq a b : Z.eqb a b = true <-> a = b.
Proof. apply Z.eqb_eq. Qed.

Lemma genes_of_ext l l' : (forall x, In x l <-> In x l') -> genes_of l = genes_of l'.
Proof.
  intros H. unfold genes_of. apply sort_dedupe_ext.
  - exact Zeqb_eq.
  - intros a. unfold gene_lt. lia.
  - intros a b c. unfold gene_lt. lia.
  - intros a b. unfold gene_lt. lia.
  - intros g. rewrite !in_map_iff. split; intros [x [E Hx]]; exists x; (split; [exact E|apply H; exact Hx]).
Qed.

Lemma hits_of_In g l h : In h (hits_of g l) <-> In (g, h) l.
Proof.
  unfold hits_of. rewrite in_map_iff. split.
  - intros [[g' h'] [E Hx]]. cbn in E. subst h'. apply filter_In in Hx. destruct Hx as [Hx Hg].
    cbn in Hg. assert (g' = g) by lia. subst. exact Hx.
  - intros Hx. exists (g, h). split; [reflexivity|]. apply filter_In. split; [exact Hx|]. cbn. lia.
Qed.

Lemma mapM_ext {A B} (f g : A -> res B) l : (forall x, In x l -> f x = g x) -> mapM f l = mapM g l.
Proof.
  induction l as [|x xs IH]; intros H; cbn [mapM]; [reflexivity|].
  rewrite (H x (or_introl eq_refl)). rewrite IH; [reflexivity|]. intros y Hy. apply H. right. exact Hy.
Qed.

Lemma refine_all_ext nb L reg l l' :
  (forall x, In x l <-> In x l') -> refine_all nb L reg l = refine_all nb L reg l'.
Proof.
  intros H. unfold refine_all. rewrite (genes_of_ext l l' H).
  rewrite (mapM_ext _ (fun g => do r <- refine_gene nb L reg (hits_of g l'); Ok (g, r))); [reflexivity|].
  intros g _. rewrite (refine_gene_ext nb L reg (hits_of g l) (hits_of g l')); [reflexivity|].
  intros h. rewrite !hits_of_In. apply H.
Qed.

Lemma refine_table_perm nb t l l' : Permutation l l' -> refine_table nb t l = refine_table nb t l'.
Proof.
  intros H.
  assert (E : forall x, In x l <-> In x l').
  { intros x. split; intros Hx; [apply (Permutation_in _ H)|apply (Permutation_in _ (Permutation_sym H))]; exact Hx. }
  unfold refine_table.
  assert (F : forallb (fun gh => ppresent t (prof (snd gh))) l = forallb (fun gh => ppresent t (prof (snd gh))) l').
  { apply eq_true_iff_eq. rewrite !forallb_forall. split; intros G x Hx; apply G; apply E; exact Hx. }
  rewrite F. rewrite (refine_all_ext nb (plen t) (preg t) l l' E). reflexivity.
Qed.

(* ------------------------------------------------------------------ outputs are ordered by start *)
Lemma ro_sub L : forall rest prev, sub (ro L prev rest) (prev :: rest).
Proof.
  induction rest as [|r rs IH]; intros prev; cbn [ro].
  - apply sub_refl.
  - destruct (ovl L r prev).
    + destruct (sc prev <? sc r).
      * apply sub_skip. apply IH.
      * specialize (IH prev). inversion IH as [|? ? ? H'|? ? ? H']; subst.
        -- apply sub_skip. apply sub_skip. exact H'.
        -- apply sub_keep. apply sub_skip. exact H'.
    + apply sub_keep. apply IH.
Qed.

Lemma ro_nonempty L rest prev : ro L prev rest <> [].
Proof.
  revert prev. induction rest as [|r rs IH]; intros prev; cbn [ro]; [discriminate|].
  destruct (ovl L r prev); [destruct (sc prev <? sc r); apply IH|discriminate].
Qed.

Lemma sorted_st_sub l1 l2 : sub l1 l2 -> sorted_st l2 -> sorted_st l1.
Proof. unfold sorted_st. intros H. apply sub_sorted. apply sub_map. exact H. Qed.

Lemma merge_st a b : st (merge a b) = Z.min (st a) (st b).
Proof. reflexivity. Qed.
Lemma merge_en a b : en (merge a b) = Z.max (en a) (en b).
Proof. reflexivity. Qed.
Lemma merge_sc a b : sc (merge a b) = Z.max (sc a) (sc b).
Proof. reflexivity. Qed.
Lemma merge_ev a b : ev (merge a b) = Z.min (ev a) (ev b).
Proof. reflexivity. Qed.
Lemma merge_prof a b : prof (merge a b) = prof a.
Proof. reflexivity. Qed.

Lemma mn_starts L : forall rest cur, sorted_st (cur :: rest) ->
  sub (map st (mn L cur rest)) (map st (cur :: rest)).
Proof.
  induction rest as [|d ds IH]; intros cur Hs; cbn [mn].
  - apply sub_refl.
  - unfold sorted_st in Hs. cbn [map] in Hs.
    inversion Hs as [|? ? Hs' Hall]; subst.
    destruct (negb (prof d =? prof cur)).
    + cbn [map]. apply sub_keep. apply IH. exact Hs'.
    + destruct (2 * (en d - st cur) <? 3 * L (prof d)).
      * assert (E : st (merge cur d) = st cur).
        { rewrite merge_st. inversion Hall; subst. lia. }
        cbn [map]. rewrite <- E.
        apply sub_trans with (map st (merge cur d :: ds)).
        -- apply IH. unfold sorted_st. cbn [map]. rewrite E.
           inversion Hs' as [|? ? Hs'' Hall']; subst. inversion Hall as [|? ? Hle Hall'']; subst.
           constructor; [exact Hs''|exact Hall''].
        -- cbn [map]. apply sub_keep. apply sub_skip. apply sub_refl.
      * cbn [map]. apply sub_keep. apply IH. exact Hs'.
Qed.

Lemma mn_sorted L rest cur : sorted_st (cur :: rest) -> sorted_st (mn L cur rest).
Proof. intros H. unfold sorted_st. apply (sub_sorted _ _ (mn_starts L rest cur H)). exact H. Qed.

Lemma remove_incomplete_sub L reg l : sub (remove_incomplete L reg l) l.
Proof.
  unfold remove_incomplete.
  destruct (filter (is_complete L) l) as [|c cs] eqn:E.
  - destruct (longest L l) as [[num den] best] eqn:El.
    assert (Hbest : forall d, best = Some d -> In d l).
    { unfold longest in El.
      assert (G : forall l0 s d, snd (fold_left (longest_step L) l0 s) = Some d ->
                  snd s = Some d \/ In d l0).
      { induction l0 as [|x xs IH]; intros s d H; cbn [fold_left] in H; [left; exact H|].
        apply IH in H. destruct H as [H|H]; [|right; right; exact H].
        destruct s as [[n dn] b]. unfold longest_step in H.
        destruct (n * L (prof x) <? hlen x * dn); cbn [snd] in H.
        - inversion H; subst. right. left. reflexivity.
        - left. exact H. }
      intros d Hd. specialize (G l (0, 1, None) d). rewrite El in G. cbn [snd] in G.
      destruct (G Hd) as [X|X]; [discriminate|exact X]. }
    assert (S1 : forall d, In d l -> sub [d] l).
    { clear. induction l as [|x xs IH]; intros d Hd; [destruct Hd|]. destruct Hd as [Hd|Hd].
      - subst. apply sub_keep. apply sub_nil_l.
      - apply sub_skip. apply IH. exact Hd. }
    destruct (if den <? 3 * num then best else None) as [d|] eqn:Eb.
    + apply S1. apply Hbest. destruct (den <? 3 * num); [exact Eb|discriminate].
    + destruct (filter (fun d => reg (prof d)) l) as [|d ds] eqn:Er.
      * apply sub_nil_l.
      * apply S1. apply (filter_sub_In (fun d => reg (prof d))). rewrite Er. left. reflexivity.
  - rewrite <- E. apply sub_filter.
Qed.

Lemma merge_domain_list_sorted L l : sorted_st (merge_domain_list L l).
Proof. unfold merge_domain_list, sorted_st, start_lt. apply sort_by_key_sorted. Qed.

Lemma StronglySorted_le_bool : forall l, sorted_st l -> sorted_by_start l = true.
Proof.
  induction l as [|a t IH]; intros H; [reflexivity|].
  unfold sorted_st in H. cbn [map] in H. inversion H as [|? ? Hs Hall]; subst.
  destruct t as [|b t']; [reflexivity|].
  pose proof (IH Hs) as IH'. cbn [map] in Hall. inversion Hall; subst.
  change (sorted_by_start (a :: b :: t')) with ((st a <=? st b) && sorted_by_start (b :: t')).
  rewrite IH'. lia.
Qed.

Lemma refine_gene_sorted nb L reg l out : refine_gene nb L reg l = Ok out -> sorted_st out.
Proof.
  unfold refine_gene. destruct nb.
  - destruct (canonical l) as [|h t] eqn:E; cbn [remove_overlapping_l bind]; [discriminate|].
    destruct (ro L h t) as [|h' t'] eqn:Er; cbn [merge_neighbours_l bind]; [discriminate|].
    intros H. inversion H; subst.
    apply (sorted_st_sub _ _ (remove_incomplete_sub L reg _)).
    apply mn_sorted. rewrite <- Er.
    apply (sorted_st_sub _ _ (ro_sub L t h)). rewrite <- E. apply canonical_sorted_st.
  - destruct (merge_domain_list L (canonical l)) as [|h t] eqn:E; cbn [remove_overlapping_l bind]; [discriminate|].
    intros H. inversion H; subst.
    apply (sorted_st_sub _ _ (remove_incomplete_sub L reg _)).
    apply (sorted_st_sub _ _ (ro_sub L t h)). rewrite <- E. apply merge_domain_list_sorted.
Qed.

Lemma mapM_In {A B} (f : A -> res B) : forall l out y, mapM f l = Ok out -> In y out ->
  exists x, In x l /\ f x = Ok y.
Proof.
  induction l as [|x xs IH]; intros out y H Hy; cbn [mapM] in H.
  - inversion H; subst. destruct Hy.
  - destruct (f x) as [b|k] eqn:Ef; cbn [bind] in H; [|discriminate].
    destruct (mapM f xs) as [bs|k] eqn:Em; cbn [bind] in H; [|discriminate].
    inversion H; subst. destruct Hy as [Hy|Hy].
    + subst. exists x. split; [left; reflexivity|exact Ef].
    + destruct (IH bs y eq_refl Hy) as [x' [Hx' Hf]]. exists x'. split; [right; exact Hx'|exact Hf].
Qed.

Lemma refine_all_gene nb L reg l out g hs : refine_all nb L reg l = Ok out -> In (g, hs) out ->
  refine_gene nb L reg (hits_of g l) = Ok hs /\ hs <> [].
Proof.
  unfold refine_all. intros H Hin.
  destruct (mapM _ (genes_of l)) as [per|k] eqn:Em; cbn [bind] in H; [|discriminate].
  inversion H; subst. apply filter_In in Hin. destruct Hin as [Hin Hne].
  destruct (mapM_In _ _ _ _ Em Hin) as [g' [_ Hf]].
  destruct (refine_gene nb L reg (hits_of g' l)) as [r|k] eqn:Er; cbn [bind] in Hf; [|discriminate].
  inversion Hf; subst. split; [exact Er|]. cbn [snd] in Hne. destruct hs; [discriminate|discriminate].
Qed.

(* ------------------------------------------------------------------ provenance *)
(* a returned hit is an input hit, or the merge of a (merged) hit with a further input hit of the
   same profile whose end lies less than 1.5 profile lengths after the start of the merged hit *)
Inductive frag (L : Z -> Z) (inp : list hit) : hit -> Prop :=
| frag_in h : In h inp -> frag L inp h
| frag_merge a b : frag L inp a -> In b inp -> prof a = prof b ->
    2 * (en b - st a) < 3 * L (prof b) -> frag L inp (merge a b).

Lemma frag_incl L inp inp' h : (forall x, In x inp -> In x inp') -> frag L inp h -> frag L inp' h.
Proof.
  intros Hi H. induction H as [h Hh|a b Ha IH Hb Hp Hs].
  - apply frag_in. apply Hi. exact Hh.
  - apply frag_merge; [exact IH|apply Hi; exact Hb|exact Hp|exact Hs].
Qed.

Lemma mn_frag L inp : forall rest cur, frag L inp cur -> (forall x, In x rest -> In x inp) ->
  forall h, In h (mn L cur rest) -> frag L inp h.
Proof.
  induction rest as [|d ds IH]; intros cur Hc Hr h Hh; cbn [mn] in Hh.
  - destruct Hh as [<-|[]]. exact Hc.
  - assert (Hd : In d inp) by (apply Hr; left; reflexivity).
    assert (Hds : forall x, In x ds -> In x inp) by (intros x Hx; apply Hr; right; exact Hx).
    destruct (negb (prof d =? prof cur)) eqn:Ep.
    + destruct Hh as [<-|Hh]; [exact Hc|]. apply (IH d); [apply frag_in; exact Hd|exact Hds|exact Hh].
    + destruct (2 * (en d - st cur) <? 3 * L (prof d)) eqn:Es.
      * apply (IH (merge cur d)); [|exact Hds|exact Hh].
        apply frag_merge; [exact Hc|exact Hd|lia|lia].
      * destruct Hh as [<-|Hh]; [exact Hc|]. apply (IH d); [apply frag_in; exact Hd|exact Hds|exact Hh].
Qed.

Lemma mcat_frag L inp p : forall rest merged, frag L inp merged ->
  (forall x, In x rest -> In x inp /\ prof x = p) -> prof merged = p ->
  forall h, In h (mcat L p merged rest) -> frag L inp h.
Proof.
  induction rest as [|o os IH]; intros merged Hm Hr Hp h Hh; cbn [mcat] in Hh.
  - destruct Hh as [<-|[]]. exact Hm.
  - destruct (Hr o (or_introl eq_refl)) as [Ho Hpo].
    assert (Hos : forall x, In x os -> In x inp /\ prof x = p) by (intros x Hx; apply Hr; right; exact Hx).
    destruct (2 * (en o - st merged) <? 3 * L p) eqn:Es.
    + apply (IH (merge merged o)); [|exact Hos|rewrite merge_prof; exact Hp|exact Hh].
      apply frag_merge; [exact Hm|exact Ho|congruence|rewrite Hpo; lia].
    + destruct Hh as [<-|Hh]; [exact Hm|].
      apply (IH o); [apply frag_in; exact Ho|exact Hos|exact Hpo|exact Hh].
Qed.

Lemma merge_domain_list_frag L l h : In h (merge_domain_list L l) -> frag L l h.
Proof.
  unfold merge_domain_list. rewrite sort_by_In. rewrite in_flat_map. intros [p [_ Hh]].
  destruct (category p l) as [|c0 cs] eqn:Ec; [destruct Hh|].
  assert (Hc : forall x, In x (c0 :: cs) -> In x l /\ prof x = p).
  { intros x Hx. rewrite <- Ec in Hx. unfold category in Hx. apply filter_In in Hx. split; [tauto|lia]. }
  apply (mcat_frag L l p cs c0).
  - apply frag_in. apply Hc. left. reflexivity.
  - intros x Hx. apply Hc. right. exact Hx.
  - apply Hc. left. reflexivity.
  - exact Hh.
Qed.

Lemma refine_gene_frag nb L reg l out h : refine_gene nb L reg l = Ok out -> In h out -> frag L l h.
Proof.
  unfold refine_gene. destruct nb.
  - destruct (canonical l) as [|c t] eqn:E; cbn [remove_overlapping_l bind]; [discriminate|].
    destruct (ro L c t) as [|h' t'] eqn:Er; cbn [merge_neighbours_l bind]; [discriminate|].
    intros H Hh. inversion H; subst.
    apply (sub_In _ _ (remove_incomplete_sub L reg _)) in Hh.
    assert (Hro : forall x, In x (h' :: t') -> In x l).
    { intros x Hx. rewrite <- Er in Hx. apply (sub_In _ _ (ro_sub L t c)) in Hx. rewrite <- E in Hx.
      apply canonical_In. exact Hx. }
    apply (mn_frag L l t' h'); [apply frag_in; apply Hro; left; reflexivity| |exact Hh].
    intros x Hx. apply Hro. right. exact Hx.
  - destruct (merge_domain_list L (canonical l)) as [|c t] eqn:E; cbn [remove_overlapping_l bind]; [discriminate|].
    intros H Hh. inversion H; subst.
    apply (sub_In _ _ (remove_incomplete_sub L reg _)) in Hh.
    apply (sub_In _ _ (ro_sub L t c)) in Hh. rewrite <- E in Hh.
    apply merge_domain_list_frag in Hh.
    apply (frag_incl L (canonical l)); [|exact Hh]. intros x. apply canonical_In.
Qed.

(* what a fragment-merge is made of: profile, start, end, score and e-value each come from an
   input hit of the same profile; start is the least start, score the best, e-value the least of
   the hits merged *)
Lemma frag_from_input L inp h : frag L inp h -> from_input inp h = true.
Proof.
  intros H. induction H as [h Hh|a b Ha IH Hb Hp Hs].
  - unfold from_input. rewrite !andb_true_iff. repeat split; apply existsb_exists; exists h; (split; [exact Hh|lia]).
  - unfold from_input in *. rewrite !andb_true_iff in *. destruct IH as [[[I1 I2] I3] I4].
    apply existsb_exists in I1, I2, I3, I4.
    destruct I1 as [x1 [X1 Y1]]. destruct I2 as [x2 [X2 Y2]]. destruct I3 as [x3 [X3 Y3]]. destruct I4 as [x4 [X4 Y4]].
    rewrite merge_prof.
    repeat split; apply existsb_exists.
    + rewrite merge_st. destruct (Z.min_spec (st a) (st b)) as [[_ ->]|[_ ->]].
      * exists x1. split; [exact X1|lia].
      * exists b. split; [exact Hb|lia].
    + rewrite merge_en. destruct (Z.max_spec (en a) (en b)) as [[_ ->]|[_ ->]].
      * exists b. split; [exact Hb|lia].
      * exists x2. split; [exact X2|lia].
    + rewrite merge_sc. destruct (Z.max_spec (sc a) (sc b)) as [[_ ->]|[_ ->]].
      * exists b. split; [exact Hb|lia].
      * exists x3. split; [exact X3|lia].
    + rewrite merge_ev. destruct (Z.min_spec (ev a) (ev b)) as [[_ ->]|[_ ->]].
      * exists x4. split; [exact X4|lia].
      * exists b. split; [exact Hb|lia].
Qed.

(* ------------------------------------------------------------------ the merge spans its fragments *)
Definition coversP (h x : hit) : Prop := prof h = prof x /\ st h <= st x /\ en x <= en h.

Lemma covers_iff h x : covers h x = true <-> coversP h x.
Proof. unfold covers, coversP. lia. Qed.
Lemma coversP_refl x : coversP x x.
Proof. unfold coversP. lia. Qed.
Lemma coversP_trans a b c : coversP a b -> coversP b c -> coversP a c.
Proof. unfold coversP. lia. Qed.
Lemma merge_covers_l a b : coversP (merge a b) a.
Proof. unfold coversP. rewrite merge_prof, merge_st, merge_en. lia. Qed.
Lemma merge_covers_r a b : prof a = prof b -> coversP (merge a b) b.
Proof. unfold coversP. rewrite merge_prof, merge_st, merge_en. lia. Qed.

(* _merge_immediate_neigbours loses no residue: whatever the current hit covers, and every later
   hit, lies inside a hit of the result *)
Lemma mn_covers L : forall rest cur,
  (forall y, coversP cur y -> exists h, In h (mn L cur rest) /\ coversP h y) /\
  (forall x, In x rest -> exists h, In h (mn L cur rest) /\ coversP h x).
Proof.
  induction rest as [|d ds IH]; intros cur; cbn [mn].
  - split; [intros y Hy; exists cur; split; [left; reflexivity|exact Hy]|intros x []].
  - assert (Keep : (forall y, coversP cur y -> exists h, In h (cur :: mn L d ds) /\ coversP h y) /\
                   (forall x, In x (d :: ds) -> exists h, In h (cur :: mn L d ds) /\ coversP h x)).
    { destruct (IH d) as [I1 I2]. split.
      - intros y Hy. exists cur. split; [left; reflexivity|exact Hy].
      - intros x [<-|Hx].
        + destruct (I1 d (coversP_refl d)) as [h [Hh Hc]]. exists h. split; [right; exact Hh|exact Hc].
        + destruct (I2 x Hx) as [h [Hh Hc]]. exists h. split; [right; exact Hh|exact Hc]. }
    destruct (negb (prof d =? prof cur)) eqn:Ep; [exact Keep|].
    destruct (2 * (en d - st cur) <? 3 * L (prof d)) eqn:Es; [|exact Keep].
    destruct (IH (merge cur d)) as [I1 I2]. split.
    + intros y Hy. apply I1. apply coversP_trans with cur; [apply merge_covers_l|exact Hy].
    + intros x [<-|Hx]; [apply I1; apply merge_covers_r; lia|apply I2; exact Hx].
Qed.

(* the same for one category of _merge_domain_list *)
Lemma mcat_covers L p : forall rest merged, prof merged = p -> (forall x, In x rest -> prof x = p) ->
  (forall y, coversP merged y -> exists h, In h (mcat L p merged rest) /\ coversP h y) /\
  (forall x, In x rest -> exists h, In h (mcat L p merged rest) /\ coversP h x).
Proof.
  induction rest as [|o os IH]; intros merged Hp Hr; cbn [mcat].
  - split; [intros y Hy; exists merged; split; [left; reflexivity|exact Hy]|intros x []].
  - assert (Ho : prof o = p) by (apply Hr; left; reflexivity).
    assert (Hos : forall x, In x os -> prof x = p) by (intros x Hx; apply Hr; right; exact Hx).
    destruct (2 * (en o - st merged) <? 3 * L p) eqn:Es.
    + destruct (IH (merge merged o)) as [I1 I2]; [rewrite merge_prof; exact Hp|exact Hos|]. split.
      * intros y Hy. apply I1. apply coversP_trans with merged; [apply merge_covers_l|exact Hy].
      * intros x [<-|Hx]; [apply I1; apply merge_covers_r; congruence|apply I2; exact Hx].
    + destruct (IH o Ho Hos) as [I1 I2]. split.
      * intros y Hy. exists merged. split; [left; reflexivity|exact Hy].
      * intros x [<-|Hx].
        -- destruct (I1 o (coversP_refl o)) as [h [Hh Hc]]. exists h. split; [right; exact Hh|exact Hc].
        -- destruct (I2 x Hx) as [h [Hh Hc]]. exists h. split; [right; exact Hh|exact Hc].
Qed.

Lemma merge_domain_list_covers L l x : In x l -> exists h, In h (merge_domain_list L l) /\ coversP h x.
Proof.
  intros Hx. unfold merge_domain_list.
  assert (Hc : In x (category (prof x) l)) by (unfold category; apply filter_In; split; [exact Hx|lia]).
  destruct (category (prof x) l) as [|c0 cs] eqn:Ec; [destruct Hc|].
  assert (Hall : forall y, In y (c0 :: cs) -> prof y = prof x).
  { intros y Hy. rewrite <- Ec in Hy. unfold category in Hy. apply filter_In in Hy. lia. }
  destruct (mcat_covers L (prof x) cs c0) as [I1 I2];
    [apply Hall; left; reflexivity|intros y Hy; apply Hall; right; exact Hy|].
  assert (exists h, In h (mcat L (prof x) c0 cs) /\ coversP h x) as [h [Hh Hcov]].
  { destruct Hc as [<-|Hc]; [apply I1; apply coversP_refl|apply I2; exact Hc]. }
  exists h. split; [|exact Hcov]. rewrite sort_by_In. apply in_flat_map. exists (prof x). split.
  - unfold profiles_of. apply (dedupe_In Z.eqb Z.eqb_eq). apply in_map. exact Hx.
  - rewrite Ec. exact Hh.
Qed.

(* ------------------------------------------------------------------ remove_incomplete *)
Lemma remove_incomplete_spec L reg l :
  let out := remove_incomplete L reg l in
  (forall h, In h out -> In h l) /\
  (forall h, In h l -> is_complete L h = true -> In h out) /\
  (forall h, In h l -> ~ In h out -> is_complete L h = false) /\
  ((exists h, In h l /\ is_complete L h = true) -> forall h, In h out -> is_complete L h = true).
Proof.
  cbn zeta. split; [apply sub_In; apply remove_incomplete_sub|].
  unfold remove_incomplete.
  destruct (filter (is_complete L) l) as [|c cs] eqn:E.
  - assert (N : forall h, In h l -> is_complete L h = false).
    { intros h Hh. destruct (is_complete L h) eqn:Ec; [|reflexivity].
      assert (X : In h (filter (is_complete L) l)) by (apply filter_In; tauto). rewrite E in X. destruct X. }
    split; [|split].
    + intros h Hh Hc. rewrite (N h Hh) in Hc. discriminate.
    + intros h Hh _. apply N. exact Hh.
    + intros [h [Hh Hc]]. rewrite (N h Hh) in Hc. discriminate.
  - rewrite <- E. split; [|split].
    + intros h Hh Hc. apply filter_In. tauto.
    + intros h Hh Hn. destruct (is_complete L h) eqn:Ec; [|reflexivity]. exfalso. apply Hn. apply filter_In. tauto.
    + intros _ h Hh. apply filter_In in Hh. tauto.
Qed.

(* neighbour mode: a complete hit that survives the overlap pass lies inside a returned hit *)
Lemma refine_gene_coverage L reg l out : refine_gene true L reg l = Ok out -> gene_coverage L l out = true.
Proof.
  unfold refine_gene, gene_coverage.
  destruct (canonical l) as [|c t] eqn:E; cbn [remove_overlapping_l bind]; [discriminate|].
  destruct (ro L c t) as [|h' t'] eqn:Er; cbn [merge_neighbours_l bind]; [discriminate|].
  intros H. inversion H; subst out. clear H.
  apply forallb_forall. intros x Hx.
  destruct (is_complete L x) eqn:Ec; [cbn [negb orb]|reflexivity].
  apply existsb_exists.
  destruct (mn_covers L t' h') as [I1 I2].
  assert (exists h, In h (mn L h' t') /\ coversP h x) as [h [Hh Hc]].
  { destruct Hx as [<-|Hx]; [apply I1; apply coversP_refl|apply I2; exact Hx]. }
  exists h. split; [|apply covers_iff; exact Hc].
  pose proof (remove_incomplete_spec L reg (mn L h' t')) as R. cbn zeta in R. destruct R as [_ [K _]].
  apply K; [exact Hh|].
  unfold is_complete, hlen in *. destruct Hc as [Hp [H1 H2]]. rewrite Hp. lia.
Qed.

Lemma find_none_intro {A} (f : A -> bool) : forall l, (forall x, In x l -> f x = false) -> find f l = None.
Proof.
  induction l as [|y ys IH]; intros H; cbn [find]; [reflexivity|].
  rewrite (H y (or_introl eq_refl)). apply IH. intros x Hx. apply H. right. exact Hx.
Qed.

Definition nonempty_res (gr : Z * list hit) : bool := match snd gr with [] => false | _ => true end.

Lemma mapM_refine_out_of nb L reg l : forall gs per, NoDup gs ->
  mapM (fun g => do r <- refine_gene nb L reg (hits_of g l); Ok (g, r)) gs = Ok per ->
  (forall gr, In gr per -> In (fst gr) gs) /\
  forall g, In g gs -> exists r, refine_gene nb L reg (hits_of g l) = Ok r /\ out_of g (filter nonempty_res per) = r.
Proof.
  induction gs as [|g0 gs IH]; intros per Hnd H; cbn [mapM] in H.
  - inversion H; subst. split; [intros gr []|intros g []].
  - destruct (refine_gene nb L reg (hits_of g0 l)) as [r0|k] eqn:Er; cbn [bind] in H; [|discriminate].
    destruct (mapM _ gs) as [per'|k] eqn:Em; cbn [bind] in H; [|discriminate].
    inversion H; subst per. clear H. inversion Hnd as [|? ? Hn0 Hnd']; subst.
    destruct (IH per' Hnd' eq_refl) as [J1 J2]. split.
    + intros gr [<-|Hgr]; [left; reflexivity|right; apply J1; exact Hgr].
    + assert (Hskip : forall g, g <> g0 ->
                out_of g (filter nonempty_res ((g0, r0) :: per')) = out_of g (filter nonempty_res per')).
      { intros g Hg. cbn [filter]. destruct (nonempty_res (g0, r0)); [|reflexivity].
        unfold out_of. cbn [find fst]. destruct (g0 =? g) eqn:Eg; [lia|reflexivity]. }
      intros g [<-|Hg].
      * exists r0. split; [exact Er|]. cbn [filter]. destruct r0 as [|x xs].
        -- cbn. unfold out_of. rewrite find_none_intro; [reflexivity|].
           intros gr Hgr. apply filter_In in Hgr. destruct Hgr as [Hgr _].
           destruct (fst gr =? g0) eqn:Eg; [|reflexivity]. exfalso. apply Hn0.
           assert (fst gr = g0) by lia. subst g0. apply J1. exact Hgr.
        -- cbn. unfold out_of. cbn [find fst]. rewrite Z.eqb_refl. reflexivity.
      * destruct (J2 g Hg) as [r [R1 R2]]. exists r. split; [exact R1|].
        rewrite Hskip; [exact R2|]. intros ->. contradiction.
Qed.

Lemma genes_of_NoDup l : NoDup (genes_of l).
Proof.
  unfold genes_of. apply (Permutation_NoDup (Permutation_sym (sort_by_perm gene_lt _))).
  apply dedupe_NoDup. exact Z.eqb_eq.
Qed.

Lemma refine_all_coverage L reg l out : refine_all true L reg l = Ok out -> coverage_all L l out = true.
Proof.
  unfold refine_all, coverage_all. intros H.
  destruct (mapM _ (genes_of l)) as [per|k] eqn:Em; cbn [bind] in H; [|discriminate].
  inversion H; subst out. clear H.
  destruct (mapM_refine_out_of true L reg l (genes_of l) per (genes_of_NoDup l) Em) as [_ J].
  apply forallb_forall. intros g Hg. destruct (J g Hg) as [r [R1 R2]].
  change (fun gr : Z * list hit => match snd gr with [] => false | _ :: _ => true end) with nonempty_res.
  rewrite R2. exact (refine_gene_coverage L reg _ r R1).
Qed.

(* ------------------------------------------------------------------ the greedy pass *)
(* x descends from p: x = p, or p was replaced by a strictly better overlapping hit from which x descends *)
Inductive desc (L : Z -> Z) : hit -> hit -> Prop :=
| desc_refl p : desc L p p
| desc_step p r x : ovl L r p = true -> sc p < sc r -> desc L r x -> desc L p x.

Lemma desc_score L p x : desc L p x -> sc p <= sc x.
Proof. induction 1; lia. Qed.

Definition adjacent {A} (p x : A) (l : list A) : Prop := exists l1 l2, l = l1 ++ p :: x :: l2.

Lemma adjacent_cons {A} (a p x : A) l : adjacent p x (a :: l) ->
  (exists t, l = x :: t /\ a = p) \/ adjacent p x l.
Proof.
  intros [l1 [l2 H]]. destruct l1 as [|b l1]; cbn in H; inversion H; subst.
  - left. exists l2. split; reflexivity.
  - right. exists l1, l2. reflexivity.
Qed.

Lemma ro_adjacent L : forall rest prev,
  (exists x tl, ro L prev rest = x :: tl /\ desc L prev x) /\
  (forall p x, adjacent p x (ro L prev rest) ->
     exists b, In b rest /\ ovl L b p = false /\ desc L b x).
Proof.
  induction rest as [|r rs IH]; intros prev; cbn [ro].
  - split.
    + exists prev, []. split; [reflexivity|constructor].
    + intros p x [l1 [l2 H]]. destruct l1 as [|? [|? ?]]; cbn in H; discriminate.
  - destruct (ovl L r prev) eqn:Eo.
    + destruct (sc prev <? sc r) eqn:Es.
      * destruct (IH r) as [[x [tl [E D]]] A]. split.
        -- exists x, tl. split; [exact E|]. apply desc_step with r; [exact Eo|lia|exact D].
        -- intros p y Hadj. destruct (A p y Hadj) as [b [Hb Hrest]]. exists b. split; [right; exact Hb|exact Hrest].
      * destruct (IH prev) as [[x [tl [E D]]] A]. split.
        -- exists x, tl. split; [exact E|exact D].
        -- intros p y Hadj. destruct (A p y Hadj) as [b [Hb Hrest]]. exists b. split; [right; exact Hb|exact Hrest].
    + destruct (IH r) as [[x [tl [E D]]] A]. split.
      * exists prev, (ro L r rs). split; [reflexivity|constructor].
      * intros p y Hadj. apply adjacent_cons in Hadj. destruct Hadj as [[t [Et Ep]]|Hadj].
        -- subst p. rewrite E in Et. inversion Et; subst. exists r. split; [left; reflexivity|]. split; [exact Eo|exact D].
        -- destruct (A p y Hadj) as [b [Hb Hrest]]. exists b. split; [right; exact Hb|exact Hrest].
Qed.

Lemma ro_dropped L : forall rest prev h, In h (prev :: rest) -> ~ In h (ro L prev rest) ->
  exists q, In q (prev :: rest) /\
    ((ovl L h q = true /\ sc h <= sc q) \/ (ovl L q h = true /\ sc h < sc q)).
Proof.
  induction rest as [|r rs IH]; intros prev h Hin Hout; cbn [ro] in Hout.
  - exfalso. apply Hout. destruct Hin as [<-|[]]. left. reflexivity.
  - destruct (ovl L r prev) eqn:Eo.
    + destruct (sc prev <? sc r) eqn:Es.
      * destruct Hin as [<-|Hin].
        -- exists r. split; [right; left; reflexivity|]. right. split; [exact Eo|lia].
        -- destruct (IH r h Hin Hout) as [q [Hq Hd]]. exists q. split; [right; exact Hq|exact Hd].
      * destruct Hin as [<-|[<-|Hin]].
        -- destruct (IH prev prev (or_introl eq_refl) Hout) as [q [Hq Hd]]. exists q. split; [|exact Hd].
           destruct Hq as [Hq|Hq]; [left; exact Hq|right; right; exact Hq].
        -- exists prev. split; [left; reflexivity|]. left. split; [exact Eo|lia].
        -- destruct (IH prev h (or_intror Hin) Hout) as [q [Hq Hd]]. exists q. split; [|exact Hd].
           destruct Hq as [Hq|Hq]; [left; exact Hq|right; right; exact Hq].
    + destruct Hin as [<-|Hin]; [exfalso; apply Hout; left; reflexivity|].
      assert (Hout' : ~ In h (ro L r rs)) by (intros X; apply Hout; right; exact X).
      destruct (IH r h Hin Hout') as [q [Hq Hd]]. exists q. split; [right; exact Hq|exact Hd].
Qed.

(* ------------------------------------------------------------------ hmmer.remove_overlapping *)
Lemma conflict_sym limit a b : conflict limit a b = conflict limit b a.
Proof. unfold conflict. lia. Qed.

Definition noconf (limit : Z) (l : list hhit) : Prop :=
  forall a b, In a l -> In b l -> a <> b -> conflict limit a b = false.

Lemma best_fold_noconf limit : forall l acc, noconf limit acc ->
  noconf limit (fold_left (best_step limit) l acc) /\
  (forall x, In x (fold_left (best_step limit) l acc) -> In x acc \/ In x l) /\
  (forall x, In x acc -> In x (fold_left (best_step limit) l acc)).
Proof.
  induction l as [|h hs IH]; intros acc Hn; cbn [fold_left].
  - split; [exact Hn|]. split; [intros x Hx; left; exact Hx|intros x Hx; exact Hx].
  - assert (Hn' : noconf limit (best_step limit acc h)).
    { unfold best_step. destruct (existsb (conflict limit h) acc) eqn:E; [exact Hn|].
      intros a b Ha Hb Hab. apply in_app_or in Ha. apply in_app_or in Hb.
      assert (F : forall o, In o acc -> conflict limit h o = false).
      { intros o Ho. destruct (conflict limit h o) eqn:Ec; [|reflexivity].
        assert (X : existsb (conflict limit h) acc = true) by (apply existsb_exists; exists o; tauto).
        rewrite X in E. discriminate. }
      destruct Ha as [Ha|[<-|[]]]; destruct Hb as [Hb|[<-|[]]].
      - apply Hn; assumption.
      - rewrite conflict_sym. apply F. exact Ha.
      - apply F. exact Hb.
      - contradiction. }
    destruct (IH _ Hn') as [I1 [I2 I3]]. split; [exact I1|]. split.
    + intros x Hx. destruct (I2 x Hx) as [Hx'|Hx']; [|right; right; exact Hx'].
      unfold best_step in Hx'. destruct (existsb (conflict limit h) acc); [left; exact Hx'|].
      apply in_app_or in Hx'. destruct Hx' as [Hx'|[<-|[]]]; [left; exact Hx'|right; left; reflexivity].
    + intros x Hx. apply I3. unfold best_step. destruct (existsb (conflict limit h) acc); [exact Hx|].
      apply in_or_app. left. exact Hx.
Qed.

Lemma best_of_group_noconf limit cut g : noconf limit (best_of_group limit cut g).
Proof. unfold best_of_group. apply best_fold_noconf. intros a b []. Qed.

Lemma best_of_group_In limit cut g x : In x (best_of_group limit cut g) -> In x g.
Proof.
  unfold best_of_group. intros Hx.
  destruct (best_fold_noconf limit (sort_by (rank_lt cut) g) [] (fun a b (H : In a []) => match H with end)) as [_ [I2 _]].
  destruct (I2 x Hx) as [[]|H]. apply sort_by_In in H. exact H.
Qed.

(* the best-ranked hit of a group is kept *)
Lemma best_of_group_head limit cut g b rest :
  sort_by (rank_lt cut) g = b :: rest -> In b (best_of_group limit cut g).
Proof.
  unfold best_of_group. intros E. rewrite E. cbn [fold_left].
  assert (N : noconf limit (best_step limit [] b)) by (unfold best_step; cbn; intros x y [<-|[]] [<-|[]] H; contradiction).
  destruct (best_fold_noconf limit rest _ N) as [_ [_ I3]]. apply I3. unfold best_step. cbn. left. reflexivity.
Qed.

(* groups: every hit of a later group starts after (end - limit) of every hit of an earlier group *)
Definition before (limit : Z) (G G' : list hhit) : Prop :=
  forall o c, In o G -> In c G' -> h_en o - limit < h_st c.

Lemma FOP_snoc {A} (R : A -> A -> Prop) : forall l y, ForallOrdPairs R l -> (forall x, In x l -> R x y) ->
  ForallOrdPairs R (l ++ [y]).
Proof.
  induction l as [|a t IH]; intros y H Hy; cbn [app].
  - constructor; [constructor|constructor].
  - inversion H as [|? ? Ha Ht]; subst. constructor.
    + apply Forall_app. split; [exact Ha|]. constructor; [apply Hy; left; reflexivity|constructor].
    + apply IH; [exact Ht|]. intros x Hx. apply Hy. right. exact Hx.
Qed.

Lemma set_add_In x s z : In z (set_add x s) -> z = x \/ In z s.
Proof.
  unfold set_add. destruct (mem hh_eqb x s); [right; assumption|].
  intros H. apply in_app_or in H. destruct H as [H|[<-|[]]]; [right; exact H|left; reflexivity].
Qed.

Lemma group_fold_inv limit : forall rest groups current maxc,
  StronglySorted Z.le (map h_st rest) ->
  (forall o, In o current -> h_en o <= maxc) ->
  (forall G, In G groups -> forall o c, In o G -> (In c current \/ In c rest) -> h_en o - limit < h_st c) ->
  ForallOrdPairs (before limit) groups ->
  forall groups' current' maxc',
  fold_left (group_step limit) rest (groups, current, maxc) = (groups', current', maxc') ->
  ForallOrdPairs (before limit) (groups' ++ [current']) /\
  (forall G, In G (groups' ++ [current']) -> forall x, In x G ->
     In x current \/ In x rest \/ exists G0, In G0 groups /\ In x G0).
Proof.
  induction rest as [|h hs IH]; intros groups current maxc Hs Ha Hb Hd groups' current' maxc' E; cbn [fold_left] in E.
  - inversion E; subst. split.
    + apply FOP_snoc; [exact Hd|]. intros G HG o c Ho Hc. apply (Hb G HG o c Ho). left. exact Hc.
    + intros G HG x Hx. apply in_app_or in HG. destruct HG as [HG|[<-|[]]].
      * right. right. exists G. tauto.
      * left. exact Hx.
  - cbn [map] in Hs. inversion Hs as [|? ? Hs' Hall]; subst. rewrite Forall_forall in Hall.
    assert (Hge : forall c, In c hs -> h_st h <= h_st c).
    { intros c Hc. apply Hall. apply in_map. exact Hc. }
    unfold group_step at 2 in E. destruct (maxc - limit <? h_st h) eqn:Et.
    + specialize (IH (groups ++ [current]) [h] (h_en h) Hs').
      destruct (IH) with (groups' := groups') (current' := current') (maxc' := maxc') as [I1 I2].
      * intros o [<-|[]]. lia.
      * intros G HG o c Ho Hc. apply in_app_or in HG. destruct HG as [HG|[<-|[]]].
        -- apply (Hb G HG o c Ho). right. destruct Hc as [[<-|[]]|Hc]; [left; reflexivity|right; exact Hc].
        -- specialize (Ha o Ho). destruct Hc as [[<-|[]]|Hc]; [lia|]. specialize (Hge c Hc). lia.
      * apply FOP_snoc; [exact Hd|]. intros G HG o c Ho Hc. apply (Hb G HG o c Ho). left. exact Hc.
      * exact E.
      * split; [exact I1|]. intros G HG x Hx. destruct (I2 G HG x Hx) as [[<-|[]]|[Hr|[G0 [HG0 Hx0]]]].
        -- right. left. left. reflexivity.
        -- right. left. right. exact Hr.
        -- apply in_app_or in HG0. destruct HG0 as [HG0|[<-|[]]].
           ++ right. right. exists G0. tauto.
           ++ left. exact Hx0.
    + specialize (IH groups (set_add h current) (Z.max maxc (h_en h)) Hs').
      destruct (IH) with (groups' := groups') (current' := current') (maxc' := maxc') as [I1 I2].
      * intros o Ho. apply set_add_In in Ho. destruct Ho as [->|Ho]; [lia|]. specialize (Ha o Ho). lia.
      * intros G HG o c Ho Hc. apply (Hb G HG o c Ho). destruct Hc as [Hc|Hc]; [|right; right; exact Hc].
        apply set_add_In in Hc. destruct Hc as [->|Hc]; [right; left; reflexivity|left; exact Hc].
      * exact Hd.
      * exact E.
      * split; [exact I1|]. intros G HG x Hx. destruct (I2 G HG x Hx) as [Hc|[Hr|Hg]].
        -- apply set_add_In in Hc. destruct Hc as [->|Hc]; [right; left; left; reflexivity|left; exact Hc].
        -- right. left. right. exact Hr.
        -- right. right. exact Hg.
Qed.

Lemma hh_groups_spec limit sorted : StronglySorted Z.le (map h_st sorted) ->
  ForallOrdPairs (before limit) (hh_groups limit sorted) /\
  (forall G x, In G (hh_groups limit sorted) -> In x G -> In x sorted).
Proof.
  intros Hs. unfold hh_groups. destruct sorted as [|h0 t]; [split; [constructor|intros G x []]|].
  cbn [map] in Hs. inversion Hs as [|? ? Hs' _]; subst.
  destruct (fold_left (group_step limit) t ([], [h0], h_en h0)) as [[groups current] maxc] eqn:Ef.
  destruct (group_fold_inv limit t [] [h0] (h_en h0) Hs') with (groups' := groups) (current' := current) (maxc' := maxc)
    as [I1 I2].
  - intros o [<-|[]]. lia.
  - intros G [].
  - constructor.
  - exact Ef.
  - split; [exact I1|]. intros G x HG Hx. destruct (I2 G HG x Hx) as [[<-|[]]|[Hr|[G0 [[] _]]]].
    + left. reflexivity.
    + right. exact Hr.
Qed.

Lemma hh_sort_lt_le cut a b : hh_sort_lt cut a b = true -> h_st a <= h_st b.
Proof. unfold hh_sort_lt. destruct (rank_lt cut a b); lia. Qed.
Lemma hh_sort_lt_ge cut a b : hh_sort_lt cut a b = false -> h_st b <= h_st a.
Proof. unfold hh_sort_lt. destruct (rank_lt cut a b); lia. Qed.

Lemma hh_sorted_by_start cut l : StronglySorted Z.le (map h_st (sort_by (hh_sort_lt cut) l)).
Proof. apply sort_by_key_sorted_gen; [apply hh_sort_lt_le|apply hh_sort_lt_ge]. Qed.

Lemma hmmer_no_overlap limit cutoffs hits out :
  hmmer_remove_overlapping limit cutoffs hits = Ok out -> noconf limit out /\ (forall x, In x out -> In x hits).
Proof.
  unfold hmmer_remove_overlapping. destruct hits as [|h0 t] eqn:Eh; [discriminate|]. rewrite <- Eh.
  destruct (forallb _ hits); [|discriminate]. intros H. inversion H; subst out. clear H.
  set (cut := cut_of cutoffs).
  set (sorted := sort_by (hh_sort_lt cut) hits).
  assert (Hs : StronglySorted Z.le (map h_st sorted)) by (apply hh_sorted_by_start).
  destruct (hh_groups_spec limit sorted Hs) as [G1 G2].
  split.
  - intros a b Ha Hb Hab. rewrite sort_by_In in Ha, Hb. rewrite in_flat_map in Ha, Hb.
    destruct Ha as [Ga [HGa Ha]]. destruct Hb as [Gb [HGb Hb]].
    destruct (ForallOrdPairs_In G1 _ _ HGa HGb) as [Eq|[Hlt|Hgt]].
    + subst Gb. apply (best_of_group_noconf limit cut Ga); assumption.
    + apply best_of_group_In in Ha, Hb. specialize (Hlt a b Ha Hb). rewrite conflict_sym. unfold conflict. lia.
    + apply best_of_group_In in Ha, Hb. specialize (Hgt b a Hb Ha). unfold conflict. lia.
  - intros x Hx. rewrite sort_by_In in Hx. rewrite in_flat_map in Hx. destruct Hx as [G [HG Hx]].
    apply best_of_group_In in Hx. apply (G2 G x HG) in Hx. unfold sorted in Hx. rewrite sort_by_In in Hx. exact Hx.
Qed.

Lemma hmmer_best_kept limit cutoffs hits out :
  hmmer_remove_overlapping limit cutoffs hits = Ok out ->
  let cut := cut_of cutoffs in
  forall G b rest, In G (hh_groups limit (sort_by (hh_sort_lt cut) hits)) ->
    sort_by (rank_lt cut) G = b :: rest -> In b out.
Proof.
  unfold hmmer_remove_overlapping. destruct hits as [|h0 t] eqn:Eh; [discriminate|]. rewrite <- Eh.
  destruct (forallb _ hits); [|discriminate]. intros H. inversion H; subst out. clear H.
  cbn zeta. intros G b rest HG Hb. rewrite sort_by_In. rewrite in_flat_map. exists G. split; [exact HG|].
  apply (best_of_group_head _ _ _ _ rest). exact Hb.
Qed.

(* multiplicity: no hit is returned more often than the input list holds it *)
Lemma hh_eqb_eq a b : hh_eqb a b = true <-> a = b.
Proof.
  unfold hh_eqb. split.
  - intros H. destruct a, b. cbn in H. f_equal; lia.
  - intros ->. destruct b. cbn. lia.
Qed.
Lemma hcount_app x l m : hcount x (l ++ m) = hcount x l + hcount x m.
Proof. induction l as [|y ys IH]; cbn [app hcount]; lia. Qed.
Lemma hcount_nonneg x l : 0 <= hcount x l.
Proof. induction l as [|y ys IH]; cbn [hcount]; [lia|]. destruct (hh_eqb x y); lia. Qed.
Lemma hcount_perm x l m : Permutation l m -> hcount x l = hcount x m.
Proof. induction 1; cbn [hcount]; lia. Qed.
Lemma sub_hcount x l m : sub l m -> hcount x l <= hcount x m.
Proof.
  induction 1 as [|y l1 l2 H IH|y l1 l2 H IH]; cbn [hcount]; [lia| |lia].
  destruct (hh_eqb x y); lia.
Qed.

Lemma concat_snoc {A} (gs : list (list A)) g : concat (gs ++ [g]) = concat gs ++ g.
Proof. rewrite concat_app. cbn [concat]. rewrite app_nil_r. reflexivity. Qed.

(* the groups, read in order, are the sorted list with repeated set members left out *)
Lemma group_fold_sub limit : forall rest groups current maxc groups' current' maxc',
  fold_left (group_step limit) rest (groups, current, maxc) = (groups', current', maxc') ->
  sub (concat (groups' ++ [current'])) (concat (groups ++ [current]) ++ rest).
Proof.
  induction rest as [|h hs IH]; intros groups current maxc groups' current' maxc' E; cbn [fold_left] in E.
  - inversion E; subst. rewrite app_nil_r. apply sub_refl.
  - unfold group_step at 2 in E. destruct (maxc - limit <? h_st h).
    + apply IH in E.
      replace (concat ((groups ++ [current]) ++ [[h]]) ++ hs) with (concat (groups ++ [current]) ++ h :: hs) in E;
        [exact E|].
      rewrite (concat_snoc (groups ++ [current]) [h]). rewrite <- app_assoc. reflexivity.
    + apply IH in E. unfold set_add in E. destruct (mem hh_eqb h current).
      * apply sub_app_skip. exact E.
      * replace (concat (groups ++ [current ++ [h]]) ++ hs) with (concat (groups ++ [current]) ++ h :: hs) in E;
          [exact E|].
        rewrite !concat_snoc. rewrite <- !app_assoc. reflexivity.
Qed.

Lemma hh_groups_sub limit sorted : sub (concat (hh_groups limit sorted)) sorted.
Proof.
  unfold hh_groups. destruct sorted as [|h0 t]; [constructor|].
  destruct (fold_left (group_step limit) t ([], [h0], h_en h0)) as [[groups current] maxc] eqn:Ef.
  apply group_fold_sub in Ef. exact Ef.
Qed.

Lemma best_fold_sub limit : forall l acc, exists m, fold_left (best_step limit) l acc = acc ++ m /\ sub m l.
Proof.
  induction l as [|h hs IH]; intros acc; cbn [fold_left].
  - exists []. split; [rewrite app_nil_r; reflexivity|constructor].
  - unfold best_step at 2. destruct (existsb (conflict limit h) acc).
    + destruct (IH acc) as [m [E S]]. exists m. split; [exact E|apply sub_skip; exact S].
    + destruct (IH (acc ++ [h])) as [m [E S]]. exists (h :: m). split; [rewrite E, <- app_assoc; reflexivity|apply sub_keep; exact S].
Qed.

Lemma best_of_group_hcount limit cut x g : hcount x (best_of_group limit cut g) <= hcount x g.
Proof.
  unfold best_of_group. destruct (best_fold_sub limit (sort_by (rank_lt cut) g) []) as [m [E S]].
  rewrite E. cbn [app]. rewrite <- (hcount_perm x _ _ (sort_by_perm (rank_lt cut) g)). apply sub_hcount. exact S.
Qed.

Lemma hcount_flat_map x (f : list hhit -> list hhit) : (forall g, hcount x (f g) <= hcount x g) ->
  forall gs, hcount x (flat_map f gs) <= hcount x (concat gs).
Proof.
  intros Hf. induction gs as [|g gs IH]; cbn [flat_map concat]; [lia|].
  rewrite !hcount_app. specialize (Hf g). lia.
Qed.

Lemma hmmer_multiplicity limit cutoffs hits out :
  hmmer_remove_overlapping limit cutoffs hits = Ok out -> forall x, hcount x out <= hcount x hits.
Proof.
  unfold hmmer_remove_overlapping. destruct hits as [|h0 t] eqn:Eh; [discriminate|]. rewrite <- Eh.
  destruct (forallb _ hits); [|discriminate]. intros H. inversion H; subst out. clear H. intros x.
  set (cut := cut_of cutoffs).
  rewrite (hcount_perm x _ _ (sort_by_perm (hh_sort_lt cut) _)).
  apply Z.le_trans with (hcount x (concat (hh_groups limit (sort_by (hh_sort_lt cut) hits)))).
  - apply hcount_flat_map. intros g. apply best_of_group_hcount.
  - rewrite <- (hcount_perm x _ _ (sort_by_perm (hh_sort_lt cut) hits)). apply sub_hcount. apply hh_groups_sub.
Qed.

Lemma hmmer_nomult limit cutoffs hits out :
  hmmer_remove_overlapping limit cutoffs hits = Ok out -> hh_nomult hits out = true.
Proof.
  intros H. unfold hh_nomult. apply forallb_forall. intros x _.
  pose proof (hmmer_multiplicity limit cutoffs hits out H x). lia.
Qed.

(* order independence: on hits with positive scores and cutoffs the sort key
   (protein_start, ranking_stats) is a strict total order *)
Definition hh_pos (cut : Z -> Z) (h : hhit) : Prop := 0 < h_sc h /\ 0 < cut (h_id h).

Lemma hh_sort_lt_irrefl cut a : hh_sort_lt cut a a = false.
Proof. unfold hh_sort_lt, rank_lt. lia. Qed.

Lemma ratio_lt_le ca cb cc sa sb sc : 0 < sa -> 0 < sb -> 0 < sc ->
  ca * sb < cb * sa -> cb * sc <= cc * sb -> ca * sc < cc * sa.
Proof.
  intros Ha Hb Hc H1 H2.
  assert (X1 : ca * sb * sc < cb * sa * sc) by (apply Z.mul_lt_mono_pos_r; assumption).
  assert (X2 : cb * sc * sa <= cc * sb * sa) by (apply Z.mul_le_mono_nonneg_r; lia).
  apply (Z.mul_lt_mono_pos_r sb); [exact Hb|].
  replace (ca * sc * sb) with (ca * sb * sc) by ring.
  replace (cc * sa * sb) with (cc * sb * sa) by ring.
  replace (cb * sa * sc) with (cb * sc * sa) in X1 by ring. lia.
Qed.
Lemma ratio_le_lt ca cb cc sa sb sc : 0 < sa -> 0 < sb -> 0 < sc ->
  ca * sb <= cb * sa -> cb * sc < cc * sb -> ca * sc < cc * sa.
Proof.
  intros Ha Hb Hc H1 H2.
  assert (X1 : ca * sb * sc <= cb * sa * sc) by (apply Z.mul_le_mono_nonneg_r; lia).
  assert (X2 : cb * sc * sa < cc * sb * sa) by (apply Z.mul_lt_mono_pos_r; assumption).
  apply (Z.mul_lt_mono_pos_r sb); [exact Hb|].
  replace (ca * sc * sb) with (ca * sb * sc) by ring.
  replace (cc * sa * sb) with (cc * sb * sa) by ring.
  replace (cb * sa * sc) with (cb * sc * sa) in X1 by ring. lia.
Qed.
Lemma ratio_eq_eq ca cb cc sa sb sc : 0 < sb ->
  ca * sb = cb * sa -> cb * sc = cc * sb -> ca * sc = cc * sa.
Proof.
  intros Hb H1 H2. apply (Z.mul_reg_r _ _ sb); [lia|].
  replace (ca * sc * sb) with (ca * sb * sc) by ring. rewrite H1.
  replace (cb * sa * sc) with (cb * sc * sa) by ring. rewrite H2. ring.
Qed.

Lemma hh_sort_lt_trans cut a b c : hh_pos cut a -> hh_pos cut b -> hh_pos cut c ->
  hh_sort_lt cut a b = true -> hh_sort_lt cut b c = true -> hh_sort_lt cut a c = true.
Proof.
  unfold hh_pos, hh_sort_lt, rank_lt. intros [Sa _] [Sb _] [Sc _].
  pose proof (ratio_lt_le (cut (h_id a)) (cut (h_id b)) (cut (h_id c)) (h_sc a) (h_sc b) (h_sc c) Sa Sb Sc) as T1.
  pose proof (ratio_le_lt (cut (h_id a)) (cut (h_id b)) (cut (h_id c)) (h_sc a) (h_sc b) (h_sc c) Sa Sb Sc) as T2.
  pose proof (ratio_eq_eq (cut (h_id a)) (cut (h_id b)) (cut (h_id c)) (h_sc a) (h_sc b) (h_sc c) Sb) as T3.
  unfold hh_len. lia.
Qed.

Lemma hh_sort_lt_total cut a b : hh_pos cut a -> hh_pos cut b ->
  hh_sort_lt cut a b = false -> hh_sort_lt cut b a = false -> a = b.
Proof.
  unfold hh_pos, hh_sort_lt, rank_lt, hh_len. intros [_ Ca] [_ Cb] H1 H2.
  assert (Ei : h_id a = h_id b) by lia.
  assert (Es : h_st a = h_st b) by lia.
  assert (Ee : h_en a = h_en b) by lia.
  assert (En : cut (h_id a) * h_sc b = cut (h_id b) * h_sc a) by lia.
  rewrite <- Ei in En. apply Z.mul_reg_l in En; [|lia].
  destruct a, b. cbn in *. f_equal; lia.
Qed.

Lemma hmmer_perm limit cutoffs l l' :
  (forall h, In h l -> hh_pos (cut_of cutoffs) h) -> Permutation l l' ->
  hmmer_remove_overlapping limit cutoffs l = hmmer_remove_overlapping limit cutoffs l'.
Proof.
  intros Hpos Hp. unfold hmmer_remove_overlapping.
  assert (Es : sort_by (hh_sort_lt (cut_of cutoffs)) l = sort_by (hh_sort_lt (cut_of cutoffs)) l').
  { apply (sort_by_perm_eq _ (hh_pos (cut_of cutoffs)) (hh_sort_lt_irrefl _) (hh_sort_lt_trans _) (hh_sort_lt_total _));
      [apply Forall_forall; exact Hpos|exact Hp]. }
  assert (Ef : forall f, forallb f l = forallb f l').
  { intros f. apply eq_true_iff_eq. rewrite !forallb_forall. split; intros G x Hx; apply G.
    - apply (Permutation_in _ (Permutation_sym Hp)). exact Hx.
    - apply (Permutation_in _ Hp). exact Hx. }
  destruct l as [|a t]; destruct l' as [|a' t'].
  - reflexivity.
  - apply Permutation_nil in Hp. discriminate.
  - apply Permutation_sym in Hp. apply Permutation_nil in Hp. discriminate.
  - rewrite Ef. cbn zeta. rewrite Es. reflexivity.
Qed.

(* ------------------------------------------------------------------ docking domains *)
Lemma docking_keep_iff len h : docking_keep len h = true <->
  (d_dock h = 0 \/ len - Z.max (d_s h) (d_e h) < 50 \/ Z.min (d_s h) (d_e h) < 50).
Proof. unfold docking_keep. lia. Qed.

Lemma filter_docking_spec cds len hs : In (len, hs) (filter_docking cds) ->
  hs <> [] /\ exists hs0, In (len, hs0) cds /\
    forall h, In h hs <-> (In h hs0 /\ (d_dock h = 0 \/ len - Z.max (d_s h) (d_e h) < 50 \/ Z.min (d_s h) (d_e h) < 50)).
Proof.
  unfold filter_docking. intros H. apply filter_In in H. destruct H as [H Hne].
  apply in_map_iff in H. destruct H as [[len0 hs0] [E Hc]]. cbn [fst snd] in E. inversion E; subst.
  split; [cbn [snd] in Hne; destruct (filter (docking_keep len) hs0); [discriminate|discriminate]|].
  exists hs0. split; [exact Hc|]. intros h. rewrite filter_In. rewrite docking_keep_iff. tauto.
Qed.

(* ------------------------------------------------------------------ filter_result_multiple *)
Definition qkeys (qs : list (Z * (Z * mhit))) : list Z := map fst qs.

Lemma qs_get_In p : forall qs v, qs_get p qs = Some v -> In (p, v) qs.
Proof.
  induction qs as [|[q w] r IH]; intros v H; cbn [qs_get] in H; [discriminate|].
  destruct (q =? p) eqn:E.
  - inversion H; subst. left. f_equal. lia.
  - right. apply IH. exact H.
Qed.

Lemma qs_get_None p : forall qs, qs_get p qs = None -> ~ In p (qkeys qs).
Proof.
  induction qs as [|[q w] r IH]; intros H; cbn [qs_get] in H; [intros []|].
  destruct (q =? p) eqn:E; [discriminate|].
  intros [X|X]; [cbn in X; lia|]. apply (IH H). exact X.
Qed.

Lemma In_qs_get p v : forall qs, NoDup (qkeys qs) -> In (p, v) qs -> qs_get p qs = Some v.
Proof.
  induction qs as [|[q w] r IH]; intros Hn Hin; [destruct Hin|].
  cbn [qkeys map fst] in Hn. inversion Hn as [|? ? Hq Hn']; subst. cbn [qs_get].
  destruct Hin as [Hin|Hin].
  - inversion Hin; subst. rewrite Z.eqb_refl. reflexivity.
  - destruct (q =? p) eqn:E.
    + exfalso. apply Hq. assert (q = p) by lia. subst. apply in_map_iff. exists (p, v). split; [reflexivity|exact Hin].
    + apply IH; assumption.
Qed.

Lemma qs_set_spec p v : forall qs, NoDup (qkeys qs) ->
  NoDup (qkeys (qs_set p v qs)) /\
  (forall q w, In (q, w) (qs_set p v qs) <-> ((q = p /\ w = v) \/ (q <> p /\ In (q, w) qs))).
Proof.
  induction qs as [|[q0 w0] r IH]; intros Hn; cbn [qs_set].
  - split; [cbn; constructor; [intros []|constructor]|].
    intros q w. cbn. split.
    + intros [H|[]]. inversion H; subst. left. tauto.
    + intros [[-> ->]|[_ []]]. left. reflexivity.
  - cbn [qkeys map fst] in Hn. inversion Hn as [|? ? Hq Hn']; subst.
    destruct (q0 =? p) eqn:E.
    + assert (q0 = p) by lia. subst q0. split; [cbn [qkeys map fst]; constructor; assumption|].
      intros q w. cbn [In]. split.
      * intros [H|H].
        -- inversion H; subst. left. tauto.
        -- right. split; [|right; exact H]. intros ->. apply Hq. apply in_map_iff. exists (p, w). tauto.
      * intros [[-> ->]|[Hne [H|H]]].
        -- left. reflexivity.
        -- inversion H; subst. contradiction.
        -- right. exact H.
    + destruct (IH Hn') as [I1 I2]. split.
      * cbn [qkeys map fst]. constructor; [|exact I1].
        intros X. apply in_map_iff in X. destruct X as [[q w] [Eq X]]. cbn in Eq. subst q.
        apply I2 in X. destruct X as [[-> _]|[_ X]]; [lia|]. apply Hq. apply in_map_iff. exists (q0, w). tauto.
      * intros q w. cbn [In]. rewrite I2. split.
        -- intros [H|[H|H]]; [inversion H; subst; right; split; [lia|left; reflexivity]|left; exact H|right; tauto].
        -- intros [H|[Hne [H|H]]]; [right; left; exact H|left; exact H|right; right; tauto].
Qed.

Definition frm_inv (qs : list (Z * (Z * mhit))) (pre : list mhit) : Prop :=
  NoDup (qkeys qs) /\
  (forall p i h, In (p, (i, h)) qs ->
     In h pre /\ m_prof h = p /\ -2 < m_sc h /\ forall h', In h' pre -> m_prof h' = p -> m_sc h' <= m_sc h) /\
  (forall h', In h' pre -> -2 < m_sc h' -> In (m_prof h') (qkeys qs)).

Lemma frm_fold_inv : forall rest qs i pre, frm_inv qs pre ->
  frm_inv (fst (fold_left frm_step rest (qs, i))) (pre ++ rest).
Proof.
  induction rest as [|h hs IH]; intros qs i pre Hinv; cbn [fold_left].
  - rewrite app_nil_r. exact Hinv.
  - replace (pre ++ h :: hs) with ((pre ++ [h]) ++ hs) by (rewrite <- app_assoc; reflexivity).
    unfold frm_step at 2.
    destruct Hinv as [Hn [H1 H2]].
    set (old := match qs_get (m_prof h) qs with Some (_, b) => m_sc b | None => -2 end).
    destruct (old <? m_sc h) eqn:E.
    + apply IH. destruct (qs_set_spec (m_prof h) (i, h) qs Hn) as [S1 S2].
      split; [exact S1|]. split.
      * intros p j x Hx. apply S2 in Hx. destruct Hx as [[Hp Ev]|[Hne Hx]].
        -- assert (Ej : j = i) by congruence. assert (Exh : x = h) by congruence. subst j x p. clear Ev.
           split; [apply in_or_app; right; left; reflexivity|]. split; [reflexivity|].
           assert (Hold : -2 <= old /\ forall h', In h' pre -> m_prof h' = m_prof h -> m_sc h' <= old).
           { unfold old. destruct (qs_get (m_prof h) qs) as [[j b]|] eqn:Eg.
             - apply qs_get_In in Eg. destruct (H1 _ _ _ Eg) as [_ [_ [Hb Hmax]]]. split; [lia|].
               intros h' Hh' Hp. specialize (Hmax h' Hh' Hp). lia.
             - split; [lia|]. intros h' Hh' Hp. destruct (Z_lt_le_dec (-2) (m_sc h')) as [Hlt|Hle]; [|lia].
               exfalso. apply (qs_get_None _ _ Eg). rewrite <- Hp. apply H2; assumption. }
           destruct Hold as [Ho1 Ho2]. split; [lia|].
           intros h' Hh' Hp. apply in_app_or in Hh'. destruct Hh' as [Hh'|[<-|[]]]; [|lia].
           specialize (Ho2 h' Hh' Hp). lia.
        -- destruct (H1 _ _ _ Hx) as [A [B [C D]]]. split; [apply in_or_app; left; exact A|]. split; [exact B|]. split; [exact C|].
           intros h' Hh' Hp. apply in_app_or in Hh'. destruct Hh' as [Hh'|[<-|[]]]; [apply D; assumption|congruence].
      * intros h' Hh' Hs. apply in_app_or in Hh'.
        destruct (Z.eq_dec (m_prof h') (m_prof h)) as [Ep|Ep].
        -- rewrite Ep. apply in_map_iff. exists (m_prof h, (i, h)). split; [reflexivity|]. apply S2. left. tauto.
        -- destruct Hh' as [Hh'|[<-|[]]]; [|contradiction].
           specialize (H2 h' Hh' Hs). apply in_map_iff in H2. destruct H2 as [[q w] [Eq Hq]]. cbn in Eq. subst q.
           apply in_map_iff. exists (m_prof h', w). split; [reflexivity|]. apply S2. right. tauto.
    + apply IH. split; [exact Hn|]. split.
      * intros p j x Hx. destruct (H1 _ _ _ Hx) as [A [B [C D]]]. split; [apply in_or_app; left; exact A|]. split; [exact B|]. split; [exact C|].
        intros h' Hh' Hp. apply in_app_or in Hh'. destruct Hh' as [Hh'|[<-|[]]]; [apply D; assumption|].
        assert (Hx' : In (m_prof h, (j, x)) qs) by (rewrite Hp; exact Hx).
        unfold old in E. rewrite (In_qs_get (m_prof h) (j, x) qs Hn Hx') in E. lia.
      * intros h' Hh' Hs. apply in_app_or in Hh'. destruct Hh' as [Hh'|[<-|[]]]; [apply H2; assumption|].
        unfold old in E. destruct (qs_get (m_prof h) qs) as [[j b]|] eqn:Eg; [|lia].
        apply qs_get_In in Eg. apply in_map_iff. exists (m_prof h, (j, b)). tauto.
Qed.

Lemma frm_cds_spec hits :
  (forall h, In h (frm_cds hits) ->
     In h hits /\ -2 < m_sc h /\ forall h', In h' hits -> m_prof h' = m_prof h -> m_sc h' <= m_sc h) /\
  (forall h', In h' hits -> -2 < m_sc h' -> exists h, In h (frm_cds hits) /\ m_prof h = m_prof h').
Proof.
  assert (Hinv : frm_inv (fst (fold_left frm_step hits ([], 0))) hits).
  { apply (frm_fold_inv hits [] 0 []). split; [constructor|]. split; [intros p i h []|intros h' []]. }
  destruct Hinv as [Hn [H1 H2]]. unfold frm_cds. split.
  - intros h Hh. apply in_map_iff in Hh. destruct Hh as [[i x] [Ex Hx]]. cbn in Ex. subst x.
    apply sort_by_In in Hx. apply in_map_iff in Hx. destruct Hx as [[p w] [Ew Hx]]. cbn in Ew. subst w.
    destruct (H1 _ _ _ Hx) as [A [B [C D]]]. split; [exact A|]. split; [exact C|]. intros h' Hh' Hp. apply D; [exact Hh'|congruence].
  - intros h' Hh' Hs. specialize (H2 h' Hh' Hs). apply in_map_iff in H2. destruct H2 as [[q [i h]] [Eq Hq]]. cbn in Eq. subst q.
    exists h. split.
    + apply in_map_iff. exists (i, h). split; [reflexivity|]. apply sort_by_In. apply in_map_iff. exists (m_prof h', (i, h)). tauto.
    + destruct (H1 _ _ _ Hq) as [_ [B _]]. exact B.
Qed.

(* ------------------------------------------------------------------ statements of Theorems.v proved here *)
Lemma C13_sorted_proof : forall neighbour L reg hits out,
  refine_gene neighbour L reg hits = Ok out -> sorted_by_start out = true.
Proof. intros nb L reg hits out H. apply StronglySorted_le_bool. exact (refine_gene_sorted nb L reg hits out H). Qed.

Lemma C13_sorted_all_proof : forall neighbour L reg ghits out g hs,
  refine_all neighbour L reg ghits = Ok out -> In (g, hs) out ->
  sorted_by_start hs = true /\ hs <> [].
Proof.
  intros nb L reg ghits out g hs H Hin. destruct (refine_all_gene nb L reg ghits out g hs H Hin) as [Hg Hne].
  split; [|exact Hne]. apply StronglySorted_le_bool. exact (refine_gene_sorted nb L reg _ hs Hg).
Qed.

Lemma C13_provenance_all_proof : forall neighbour L reg ghits out g hs h,
  refine_all neighbour L reg ghits = Ok out -> In (g, hs) out -> In h hs ->
  frag L (hits_of g ghits) h /\ from_input (hits_of g ghits) h = true.
Proof.
  intros nb L reg ghits out g hs h H Hin Hh. destruct (refine_all_gene nb L reg ghits out g hs H Hin) as [Hg _].
  pose proof (refine_gene_frag nb L reg _ hs h Hg Hh) as F. split; [exact F|exact (frag_from_input _ _ _ F)].
Qed.

Lemma C13_pairwise_margin_refuted_proof : exists L reg hits out,
  refine_gene true L reg hits = Ok out /\ pairwise_margin L out = false.
Proof.
  exists (fun p => if p =? 1 then 100 else 10), (fun _ => false),
         [mkHit 0 0 30 1 100; mkHit 1 15 120 1 80; mkHit 2 16 40 1 120].
  eexists. split; vm_compute; reflexivity.
Qed.

Lemma C13_adjacent_margin_partial_proof : forall L l out p x,
  remove_overlapping_l L l = Ok out -> adjacent p x out ->
  exists b, In b l /\ ovl L b p = false /\ desc L b x /\ sc b <= sc x.
Proof.
  intros L l out p x H Hadj. destruct l as [|h t]; [discriminate|]. cbn in H. inversion H; subst.
  destruct (ro_adjacent L t h) as [_ A]. destruct (A p x Hadj) as [b [Hb [Ho Hd]]].
  exists b. split; [right; exact Hb|]. split; [exact Ho|]. split; [exact Hd|exact (desc_score L b x Hd)].
Qed.

Lemma C13_dropped_has_better_partial_proof : forall L l out h,
  remove_overlapping_l L l = Ok out -> In h l -> ~ In h out ->
  exists q, In q l /\ ((ovl L h q = true /\ sc h <= sc q) \/ (ovl L q h = true /\ sc h < sc q)).
Proof.
  intros L l out h H Hin Hout. destruct l as [|p t]; [discriminate|]. cbn in H. inversion H; subst.
  exact (ro_dropped L t p h Hin Hout).
Qed.

Lemma C13_dropped_has_kept_better_refuted_proof : exists L reg hits out h,
  refine_gene true L reg hits = Ok out /\ In h hits /\ is_complete L h = true /\
  forall k, In k out -> en k <= st h \/ en h <= st k.
Proof.
  exists (fun _ => 10), (fun _ => false),
         [mkHit 0 0 100 1 100; mkHit 1 10 40 1 20; mkHit 2 90 200 1 120], [mkHit 2 90 200 1 120], (mkHit 1 10 40 1 20).
  split; [vm_compute; reflexivity|]. split; [right; left; reflexivity|]. split; [vm_compute; reflexivity|].
  intros k [<-|[]]. cbn. lia.
Qed.

Lemma C13_merge_spans_proof : forall a b, prof a = prof b ->
  covers (merge a b) a = true /\ covers (merge a b) b = true.
Proof. intros a b H. split; apply covers_iff; [apply merge_covers_l|apply merge_covers_r; exact H]. Qed.

Lemma C13_merge_keeps_complete_proof : forall L reg hits out r1 x,
  refine_gene true L reg hits = Ok out -> remove_overlapping_l L (canonical hits) = Ok r1 ->
  In x r1 -> is_complete L x = true ->
  exists h, In h out /\ prof h = prof x /\ st h <= st x /\ en x <= en h.
Proof.
  intros L reg hits out r1 x H Hr Hx Hc. pose proof (refine_gene_coverage L reg hits out H) as G.
  unfold gene_coverage in G. destruct (canonical hits) as [|c t]; [discriminate|].
  cbn [remove_overlapping_l] in Hr. inversion Hr; subst r1.
  rewrite forallb_forall in G. specialize (G x Hx). rewrite Hc in G. cbn [negb orb] in G.
  apply existsb_exists in G. destruct G as [h [Hh Hcov]]. exists h. split; [exact Hh|].
  apply covers_iff in Hcov. exact Hcov.
Qed.

(* ================================================================== deepening round *)

(* ---------- connected components of the overlap relation of filter_results (closure computation) *)

(* DEFINITIONS *)
(* connected by a chain of overlaps > 20 through hits of the gene *)
Inductive fconn (cds : list fhit) : fhit -> fhit -> Prop :=
| fconn_refl h : In h cds -> fconn cds h h
| fconn_step a b c : fconn cds a b -> In c cds -> fov b c = true -> fconn cds a c.

Definition fc_closedP (cds T : list fhit) : Prop :=
  forall y x, In y T -> In x cds -> fov y x = true -> In x T.

(* ------------------------------------------------------------------ 1 *)
Lemma fov_sym : forall a b, fov a b = fov b a.
Proof.
  intros a b. unfold fov.
  rewrite (Z.eqb_sym (f_id a) (f_id b)), (Z.min_comm (f_he a)), (Z.max_comm (f_hs a)).
  reflexivity.
Qed.

(* ------------------------------------------------------------------ 2 *)
Lemma fc_mem_In : forall (x : Z) l, mem Z.eqb x l = true <-> In x l.
Proof.
  intros x l. induction l as [|y t IH]; simpl.
  - split; [discriminate | tauto].
  - rewrite orb_true_iff, IH, Z.eqb_eq. split; intros [H|H]; auto.
Qed.

Lemma znodup_NoDup : forall l, znodup l = true <-> NoDup l.
Proof.
  induction l as [|x t IH]; simpl.
  - split; [constructor | reflexivity].
  - rewrite andb_true_iff, negb_true_iff, IH. split.
    + intros [Hm Hn]. constructor; auto.
      intro Hin. apply fc_mem_In in Hin. congruence.
    + intro Hn. inversion Hn; subst. split; auto.
      destruct (mem Z.eqb x t) eqn:E; auto.
      apply fc_mem_In in E. contradiction.
Qed.

(* ------------------------------------------------------------------ 3 *)
Lemma fconn_In : forall cds a b, fconn cds a b -> In a cds /\ In b cds.
Proof.
  intros cds a b H. induction H; tauto.
Qed.

Lemma fconn_trans : forall cds a b c, fconn cds a b -> fconn cds b c -> fconn cds a c.
Proof.
  intros cds a b c Hab Hbc. induction Hbc.
  - assumption.
  - eapply fconn_step; [apply IHHbc; assumption | assumption | assumption].
Qed.

Lemma fc_fconn_step_l : forall cds a b c,
  In a cds -> fov a b = true -> fconn cds b c -> fconn cds a c.
Proof.
  intros cds a b c Ha Hov Hbc. induction Hbc.
  - eapply fconn_step; [apply fconn_refl; assumption | assumption | assumption].
  - eapply fconn_step; [apply IHHbc; assumption | assumption | assumption].
Qed.

Lemma fconn_sym : forall cds a b, fconn cds a b -> fconn cds b a.
Proof.
  intros cds a b H. induction H.
  - apply fconn_refl; assumption.
  - eapply fc_fconn_step_l; [assumption | | exact IHfconn].
    rewrite fov_sym. assumption.
Qed.

(* ------------------------------------------------------------------ 4 helpers *)
Lemma fc_fmem_true : forall x T, fmem x T = true <-> exists y, In y T /\ f_id x = f_id y.
Proof.
  intros x T. unfold fmem. rewrite existsb_exists.
  split; intros [y [Hy He]]; exists y; split; auto; apply Z.eqb_eq; assumption.
Qed.

Lemma fc_fmem_false : forall x T, fmem x T = false -> ~ In (f_id x) (map f_id T).
Proof.
  intros x T Hf Hin. apply in_map_iff in Hin. destruct Hin as [y [He Hy]].
  assert (fmem x T = true) by (apply fc_fmem_true; exists y; auto).
  congruence.
Qed.

Lemma fc_id_inj : forall cds x y,
  NoDup (map f_id cds) -> In x cds -> In y cds -> f_id x = f_id y -> x = y.
Proof.
  induction cds as [|c t IH]; simpl; intros x y Hn Hx Hy He.
  - contradiction.
  - inversion Hn as [|? ? Hnin Hn']; subst.
    destruct Hx as [Hx|Hx], Hy as [Hy|Hy]; subst.
    + reflexivity.
    + exfalso. apply Hnin. rewrite He. apply in_map; assumption.
    + exfalso. apply Hnin. rewrite <- He. apply in_map; assumption.
    + apply IH; assumption.
Qed.

Lemma fc_NoDup_app : forall (A : Type) (l m : list A),
  NoDup l -> NoDup m -> (forall x, In x l -> ~ In x m) -> NoDup (l ++ m).
Proof.
  intros A l m Hl Hm Hd. induction l as [|a l IH]; simpl.
  - assumption.
  - inversion Hl; subst. constructor.
    + intro Hin. apply in_app_or in Hin. destruct Hin as [Hin|Hin].
      * contradiction.
      * apply (Hd a); simpl; auto.
    + apply IH; auto. intros x Hx. apply Hd. simpl; auto.
Qed.

Lemma fc_NoDup_map_filter : forall (A B : Type) (f : A -> B) (p : A -> bool) (l : list A),
  NoDup (map f l) -> NoDup (map f (filter p l)).
Proof.
  intros A B f p l. induction l as [|a l IH]; simpl; intro Hn.
  - constructor.
  - inversion Hn; subst. destruct (p a); simpl; auto.
    constructor; auto.
    intro Hin. apply in_map_iff in Hin. destruct Hin as [y [He Hy]].
    apply filter_In in Hy. destruct Hy as [Hy _].
    match goal with H : ~ In _ _ |- _ => apply H end.
    rewrite <- He. apply in_map; assumption.
Qed.

Lemma fc_fgrow_incl : forall cds T, incl T cds -> incl (fgrow cds T) cds.
Proof.
  intros cds T Hi x Hx. unfold fgrow in Hx. apply in_app_or in Hx.
  destruct Hx as [Hx|Hx]; [apply Hi; assumption|].
  apply filter_In in Hx. tauto.
Qed.

Lemma fc_fgrow_NoDup : forall cds T,
  NoDup (map f_id cds) -> NoDup (map f_id T) -> NoDup (map f_id (fgrow cds T)).
Proof.
  intros cds T Hc Ht. unfold fgrow. rewrite map_app.
  apply fc_NoDup_app.
  - assumption.
  - apply fc_NoDup_map_filter; assumption.
  - intros i Hi Hi2. apply in_map_iff in Hi2. destruct Hi2 as [x [He Hx]].
    apply filter_In in Hx. destruct Hx as [_ Hp].
    apply andb_true_iff in Hp. destruct Hp as [Hp _].
    apply negb_true_iff in Hp. apply fc_fmem_false in Hp.
    rewrite He in Hp. contradiction.
Qed.

Lemma fc_stationary_closed : forall cds T,
  NoDup (map f_id cds) -> incl T cds ->
  filter (fun x => negb (fmem x T) && existsb (fun y => fov y x) T) cds = [] ->
  fc_closedP cds T.
Proof.
  intros cds T Hc Hi Hf y x Hy Hx Hov.
  destruct (fmem x T) eqn:Em.
  - apply fc_fmem_true in Em. destruct Em as [z [Hz He]].
    assert (x = z) by (apply (fc_id_inj cds); auto).
    subst. assumption.
  - exfalso.
    assert (Hin : In x (filter (fun x => negb (fmem x T) && existsb (fun y => fov y x) T) cds)).
    { apply filter_In. split; auto. rewrite Em. simpl.
      apply existsb_exists. exists y. auto. }
    rewrite Hf in Hin. contradiction.
Qed.

Lemma fc_fclosure_fix : forall n cds T, fgrow cds T = T -> fclosure n cds T = T.
Proof.
  induction n as [|n IH]; simpl; intros cds T Hg.
  - reflexivity.
  - rewrite Hg. apply IH. assumption.
Qed.

Lemma fc_full_all : forall cds T,
  NoDup (map f_id cds) -> NoDup (map f_id T) -> incl T cds ->
  (length cds <= length T)%nat -> forall x, In x cds -> In x T.
Proof.
  intros cds T Hc Ht Hi Hl x Hx.
  assert (Hincl : incl (map f_id cds) (map f_id T)).
  { apply NoDup_length_incl.
    - assumption.
    - rewrite !map_length. assumption.
    - intros i Hin. apply in_map_iff in Hin. destruct Hin as [z [He Hz]].
      rewrite <- He. apply in_map. apply Hi. assumption. }
  assert (Hin : In (f_id x) (map f_id T)) by (apply Hincl; apply in_map; assumption).
  apply in_map_iff in Hin. destruct Hin as [z [He Hz]].
  assert (z = x) by (apply (fc_id_inj cds); auto).
  subst. assumption.
Qed.

Lemma fc_closure_closed : forall cds, NoDup (map f_id cds) ->
  forall n T, NoDup (map f_id T) -> incl T cds ->
  (length cds <= length T + n)%nat -> fc_closedP cds (fclosure n cds T).
Proof.
  intros cds Hc. induction n as [|n IH]; intros T Ht Hi Hl; simpl.
  - intros y x Hy Hx _. apply (fc_full_all cds); auto. lia.
  - destruct (filter (fun x => negb (fmem x T) && existsb (fun y => fov y x) T) cds) eqn:Ef.
    + assert (Hg : fgrow cds T = T) by (unfold fgrow; rewrite Ef; apply app_nil_r).
      rewrite Hg. rewrite fc_fclosure_fix by assumption.
      apply fc_stationary_closed; assumption.
    + apply IH.
      * apply fc_fgrow_NoDup; assumption.
      * apply fc_fgrow_incl; assumption.
      * unfold fgrow. rewrite Ef, app_length. simpl. lia.
Qed.

Lemma fc_closure_mono : forall n cds T x, In x T -> In x (fclosure n cds T).
Proof.
  induction n as [|n IH]; simpl; intros cds T x Hx.
  - assumption.
  - apply IH. unfold fgrow. apply in_or_app. left. assumption.
Qed.

Lemma fc_closure_sound : forall n cds T, incl T cds ->
  forall x, In x (fclosure n cds T) -> exists s, In s T /\ fconn cds s x.
Proof.
  induction n as [|n IH]; simpl; intros cds T Hi x Hx.
  - exists x. split; auto. apply fconn_refl. apply Hi. assumption.
  - apply IH in Hx; [|apply fc_fgrow_incl; assumption].
    destruct Hx as [s [Hs Hsx]]. unfold fgrow in Hs. apply in_app_or in Hs.
    destruct Hs as [Hs|Hs].
    + exists s. auto.
    + apply filter_In in Hs. destruct Hs as [Hsc Hp].
      apply andb_true_iff in Hp. destruct Hp as [_ Hp].
      apply existsb_exists in Hp. destruct Hp as [y [Hy Hov]].
      exists y. split; auto.
      eapply fconn_trans; [|exact Hsx].
      eapply fconn_step; [apply fconn_refl; apply Hi; assumption | assumption | assumption].
Qed.

Lemma fc_closed_conn : forall cds T a x,
  fc_closedP cds T -> fconn cds a x -> In a T -> In x T.
Proof.
  intros cds T a x Hcl Hc. induction Hc; intro Ha.
  - assumption.
  - apply (Hcl b c); auto.
Qed.

(* ------------------------------------------------------------------ 4 MAIN *)
Lemma fcomp_spec : forall cds h, NoDup (map f_id cds) -> In h cds ->
  forall x, In x (fcomp cds h) <-> fconn cds h x.
Proof.
  intros cds h Hc Hh x. unfold fcomp.
  assert (Hi : incl [h] cds).
  { intros z [Hz|[]]. subst. assumption. }
  split.
  - intro Hx. apply fc_closure_sound in Hx; [|assumption].
    destruct Hx as [s [[Hs|[]] Hsx]]. subst. assumption.
  - intro Hx. eapply fc_closed_conn; [| exact Hx |].
    + apply fc_closure_closed; [assumption | | assumption | ].
      * simpl. constructor; [simpl; tauto | constructor].
      * simpl. lia.
    + apply fc_closure_mono. simpl. auto.
Qed.

(* ------------------------------------------------------------------ 5 *)
Lemma comp_best_spec : forall cds h, NoDup (map f_id cds) -> In h cds ->
  (comp_best cds h = true <-> forall o, fconn cds h o -> f_sc o <= f_sc h).
Proof.
  intros cds h Hc Hh. unfold comp_best. rewrite forallb_forall. split.
  - intros H o Ho. apply Z.leb_le. apply H. apply fcomp_spec; assumption.
  - intros H o Ho. apply Z.leb_le. apply H. apply fcomp_spec in Ho; assumption.
Qed.

(* ------------------------------------------------------------------ 6 *)
Lemma fconn_perm : forall cds cds', (forall x, In x cds <-> In x cds') ->
  forall a b, fconn cds a b -> fconn cds' a b.
Proof.
  intros cds cds' He a b H. induction H.
  - apply fconn_refl. apply He. assumption.
  - eapply fconn_step; [exact IHfconn | apply He; assumption | assumption].
Qed.

Lemma comp_best_perm : forall cds cds' h, Permutation cds cds' ->
  NoDup (map f_id cds) -> In h cds -> comp_best cds h = comp_best cds' h.
Proof.
  intros cds cds' h Hp Hc Hh.
  assert (He : forall x, In x cds <-> In x cds').
  { intro x. split; apply Permutation_in; [assumption | apply Permutation_sym; assumption]. }
  assert (Hc' : NoDup (map f_id cds')).
  { eapply Permutation_NoDup; [apply Permutation_map; exact Hp | assumption]. }
  assert (Hh' : In h cds') by (apply He; assumption).
  assert (Hiff : comp_best cds h = true <-> comp_best cds' h = true).
  { rewrite (comp_best_spec cds h Hc Hh), (comp_best_spec cds' h Hc' Hh').
    split; intros H o Ho; apply H.
    - eapply fconn_perm; [|exact Ho]. intro x. symmetry. apply He.
    - eapply fconn_perm; [|exact Ho]. assumption. }
  destruct (comp_best cds h), (comp_best cds' h); auto.
  - symmetry. apply Hiff. reflexivity.
  - apply Hiff. reflexivity.
Qed.



(* ================================================================== filter_results *)
(* DEFINITIONS (shared with the closure part) *)
Lemma fhit_eq_dec_aux (a b : fhit) : {a = b} + {a <> b}.
Proof. decide equality; apply Z.eq_dec. Qed.

Lemma fr_fov_sym a b : fov a b = fov b a.
Proof. unfold fov. rewrite (Z.eqb_sym (f_id a)), (Z.min_comm (f_he a)), (Z.max_comm (f_hs a)). reflexivity. Qed.

Lemma fr_fconn_In cds a b : fconn cds a b -> In a cds /\ In b cds.
Proof. induction 1 as [h H|a b c H [IH1 IH2] Hc Hf]; auto. Qed.

Lemma fr_fconn_trans cds a b c : fconn cds a b -> fconn cds b c -> fconn cds a c.
Proof. intros Hab Hbc. induction Hbc as [h H|x y z H IH Hz Hf]; auto. apply (fconn_step cds a y z); auto. Qed.

Lemma fr_fconn_edge cds a b : In a cds -> In b cds -> fov a b = true -> fconn cds a b.
Proof. intros Ha Hb H. apply (fconn_step cds a a b); auto. apply fconn_refl; auto. Qed.

Lemma fr_fconn_sym cds a b : fconn cds a b -> fconn cds b a.
Proof.
  induction 1 as [h H|a b c H IH Hc Hf]; [apply fconn_refl; auto|].
  apply (fr_fconn_trans cds c b a); [|exact IH].
  apply fr_fconn_edge; auto; [apply (fr_fconn_In cds a b H)|rewrite fr_fov_sym; exact Hf].
Qed.

(* a chain leaving a starts with an edge at a *)
Lemma fr_fconn_first_edge cds a c : fconn cds a c -> a = c \/ exists b, In b cds /\ fov a b = true.
Proof.
  induction 1 as [h H|a b c H IH Hc Hf]; [left; reflexivity|].
  destruct IH as [->|R]; [right; exists c; auto|right; exact R].
Qed.

(* ---------- identities *)
Lemma fr_id_inj cds : NoDup (map f_id cds) -> forall x y, In x cds -> In y cds -> f_id x = f_id y -> x = y.
Proof.
  induction cds as [|a t IH]; cbn; intros ND x y Hx Hy E; [contradiction|].
  inversion ND as [|? ? Hn ND']; subst.
  destruct Hx as [->|Hx], Hy as [->|Hy]; auto.
  - exfalso. apply Hn. rewrite E. apply in_map. exact Hy.
  - exfalso. apply Hn. rewrite <- E. apply in_map. exact Hx.
Qed.

Lemma fr_fmem_iff x s : fmem x s = true <-> exists y, In y s /\ f_id x = f_id y.
Proof.
  unfold fmem. rewrite existsb_exists. split; intros [y [H1 H2]]; exists y; split; auto.
  - apply Z.eqb_eq. exact H2.
  - apply Z.eqb_eq. exact H2.
Qed.

Lemma fr_fmem_In cds g x : NoDup (map f_id cds) -> incl g cds -> In x cds -> fmem x g = true -> In x g.
Proof.
  intros ND Hg Hx H. apply fr_fmem_iff in H. destruct H as [y [Hy E]].
  rewrite (fr_id_inj cds ND x y Hx (Hg y Hy) E). exact Hy.
Qed.

Lemma fr_In_fmem x s : In x s -> fmem x s = true.
Proof. intros H. apply fr_fmem_iff. exists x. auto. Qed.

Lemma fr_fadd_old x s y : In y s -> In y (fadd x s).
Proof. unfold fadd. destruct (fmem x s); auto. intros H. apply in_or_app. auto. Qed.

Lemma fr_fadd_inv x s y : In y (fadd x s) -> In y s \/ y = x.
Proof.
  unfold fadd. destruct (fmem x s); auto. intros H. apply in_app_or in H. destruct H as [H|[H|[]]]; auto.
Qed.

Lemma fr_fadd_self cds x s : NoDup (map f_id cds) -> incl s cds -> In x cds -> In x (fadd x s).
Proof.
  intros ND Hs Hx. unfold fadd. destruct (fmem x s) eqn:E.
  - apply (fr_fmem_In cds); auto.
  - apply in_or_app. right. left. reflexivity.
Qed.

Lemma fr_fadd_incl cds x s : incl s cds -> In x cds -> incl (fadd x s) cds.
Proof. intros Hs Hx y Hy. apply fr_fadd_inv in Hy. destruct Hy as [Hy| ->]; auto. Qed.

(* ---------- the pair loop without the result monad *)
Definition fr_pstep (h : fhit) (groups : list (list fhit)) (o : fhit) : list (list fhit) :=
  if fov h o then
    match unite_groups h o groups with
    | Some groups' => groups'
    | None => groups ++ [[h; o]]
    end
  else groups.

Lemma fr_pair_step_pure h o groups : f_hs h < f_he h -> f_hs o < f_he o ->
  pair_step h (Ok groups) o = Ok (fr_pstep h groups o).
Proof.
  intros Hh Ho. unfold pair_step, fr_pstep, fov, hsp_overlap_size. cbn [bind].
  destruct (f_id h =? f_id o) eqn:Ei; cbn [negb andb]; [reflexivity|].
  replace (f_hs h <? f_he h) with true by lia. replace (f_hs o <? f_he o) with true by lia. cbn [negb bind].
  destruct (Z.max 0 (Z.min (f_he h) (f_he o) - Z.max (f_hs h) (f_hs o)) <=? 20) eqn:E1;
    destruct (20 <? Z.min (f_he h) (f_he o) - Z.max (f_hs h) (f_hs o)) eqn:E2; try lia; [reflexivity|].
  destruct (unite_groups h o groups); reflexivity.
Qed.

Definition fr_pos (cds : list fhit) : Prop := forall h, In h cds -> f_hs h < f_he h.

Lemma fr_inner_pure h : forall os gs, f_hs h < f_he h -> fr_pos os ->
  fold_left (pair_step h) os (Ok gs) = Ok (fold_left (fr_pstep h) os gs).
Proof.
  induction os as [|o os IH]; intros gs Hh Hp; cbn [fold_left]; [reflexivity|].
  rewrite fr_pair_step_pure; auto; [|apply Hp; left; reflexivity].
  apply IH; auto. intros x Hx. apply Hp. right. exact Hx.
Qed.

Definition fr_groups (cds : list fhit) : list (list fhit) :=
  fold_left (fun gs h => fold_left (fr_pstep h) cds gs) cds [].

Lemma fr_outer_pure cds : fr_pos cds -> forall hs gs, fr_pos hs ->
  fold_left (fun s h => fold_left (pair_step h) cds s) hs (Ok gs)
  = Ok (fold_left (fun gs h => fold_left (fr_pstep h) cds gs) hs gs).
Proof.
  intros Hp. induction hs as [|h hs IH]; intros gs Hh; cbn [fold_left]; [reflexivity|].
  rewrite fr_inner_pure; auto; [|apply Hh; left; reflexivity].
  apply IH. intros x Hx. apply Hh. right. exact Hx.
Qed.

Lemma fr_overlapping_groups_pure cds : fr_pos cds -> overlapping_groups cds = Ok (fr_groups cds).
Proof. intros Hp. unfold overlapping_groups, fr_groups. apply fr_outer_pure; auto. Qed.

(* ---------- set.update *)
Lemma fr_fupdate_old other : forall g y, In y g -> In y (fupdate g other).
Proof.
  unfold fupdate. induction other as [|x t IH]; intros g y H; cbn [fold_left]; [exact H|].
  apply IH. apply fr_fadd_old. exact H.
Qed.

Lemma fr_fupdate_inv other : forall g y, In y (fupdate g other) -> In y g \/ In y other.
Proof.
  unfold fupdate. induction other as [|x t IH]; intros g y H; cbn [fold_left] in H; [left; exact H|].
  apply IH in H. destruct H as [H|H]; [|right; right; exact H].
  apply fr_fadd_inv in H. destruct H as [H| ->]; [left; exact H|right; left; reflexivity].
Qed.

Lemma fr_fupdate_new cds : NoDup (map f_id cds) -> forall other g y, incl other cds -> incl g cds ->
  In y other -> In y (fupdate g other).
Proof.
  intros ND. unfold fupdate. induction other as [|x t IH]; intros g y Ho Hg Hy; [contradiction|]. cbn [fold_left].
  assert (Hx : In x cds) by (apply Ho; left; reflexivity).
  destruct Hy as [<-|Hy].
  - apply (fr_fupdate_old t). apply (fr_fadd_self cds); auto.
  - apply IH; auto; [intros z Hz; apply Ho; right; exact Hz|apply (fr_fadd_incl cds); auto].
Qed.

Lemma fr_fupdate_incl cds g other : incl g cds -> incl other cds -> incl (fupdate g other) cds.
Proof. intros Hg Ho y Hy. apply fr_fupdate_inv in Hy. destruct Hy as [Hy|Hy]; auto. Qed.

(* linked[0].update(pairing, *linked[1:]) *)
Lemma fr_funion_old qs : forall s y, In y s -> In y (fold_left fupdate qs s).
Proof.
  induction qs as [|q t IH]; intros s y H; cbn [fold_left]; [exact H|]. apply IH. apply fr_fupdate_old. exact H.
Qed.

Lemma fr_funion_inv qs : forall s y, In y (fold_left fupdate qs s) -> In y s \/ exists q, In q qs /\ In y q.
Proof.
  induction qs as [|q t IH]; intros s y H; cbn [fold_left] in H; [left; exact H|].
  apply IH in H. destruct H as [H|[q' [Hq' Hy]]]; [|right; exists q'; split; [right; exact Hq'|exact Hy]].
  apply fr_fupdate_inv in H. destruct H as [H|H]; [left; exact H|right; exists q; split; [left; reflexivity|exact H]].
Qed.

Lemma fr_funion_new cds : NoDup (map f_id cds) -> forall qs s y q, (forall q', In q' qs -> incl q' cds) -> incl s cds ->
  In q qs -> In y q -> In y (fold_left fupdate qs s).
Proof.
  intros ND. induction qs as [|q0 t IH]; intros s y q Hqs Hs Hq Hy; [contradiction|]. cbn [fold_left].
  assert (H0 : incl q0 cds) by (apply Hqs; left; reflexivity).
  destruct Hq as [->|Hq].
  - apply fr_funion_old. apply (fr_fupdate_new cds ND); auto.
  - apply (IH _ y q); auto; [intros q' Hq'; apply Hqs; right; exact Hq'|apply fr_fupdate_incl; auto].
Qed.

(* ---------- what unite_groups returns: one united group U (the first linked group, the pair and
   every other linked group) in place of all linked groups, the other groups unchanged *)
Lemma fr_unite_none a b : forall gs, unite_groups a b gs = None -> forall g, In g gs -> touches a b g = false.
Proof.
  induction gs as [|g0 gs IH]; cbn [unite_groups]; intros H g Hg; [contradiction|].
  destruct (touches a b g0) eqn:T; [discriminate|].
  destruct (unite_groups a b gs) eqn:E; [discriminate|].
  destruct Hg as [<-|Hg]; [exact T|apply IH; auto].
Qed.

Lemma fr_unite_some a b : forall gs gs', unite_groups a b gs = Some gs' ->
  exists g qs U, In g gs /\ touches a b g = true /\ (forall q, In q qs -> In q gs /\ touches a b q = true) /\
    U = fold_left fupdate qs (fadd b (fadd a g)) /\ In U gs' /\
    (forall g', In g' gs' -> g' = U \/ (In g' gs /\ touches a b g' = false)) /\
    (forall g', In g' gs -> touches a b g' = false -> In g' gs') /\
    (forall g', In g' gs -> touches a b g' = true -> g' = g \/ In g' qs).
Proof.
  induction gs as [|g0 gs IH]; cbn [unite_groups]; intros gs' H; [discriminate|].
  destruct (touches a b g0) eqn:T.
  - injection H as <-. exists g0, (filter (touches a b) gs), (fold_left fupdate (filter (touches a b) gs) (fadd b (fadd a g0))).
    split; [left; reflexivity|]. split; [exact T|]. split.
    { intros q Hq. apply filter_In in Hq. destruct Hq as [Hq Tq]. split; [right; exact Hq|exact Tq]. }
    split; [reflexivity|]. split; [left; reflexivity|]. split; [|split].
    + intros g' [<-|Hg']; [left; reflexivity|]. apply filter_In in Hg'. destruct Hg' as [Hg' Tg'].
      right. split; [right; exact Hg'|apply negb_true_iff; exact Tg'].
    + intros g' [<-|Hg'] Tg'; [congruence|]. right. apply filter_In. split; [exact Hg'|rewrite Tg'; reflexivity].
    + intros g' [<-|Hg'] Tg'; [left; reflexivity|]. right. apply filter_In. split; assumption.
  - destruct (unite_groups a b gs) as [l|] eqn:E; [|discriminate]. injection H as <-.
    destruct (IH l eq_refl) as [g [qs [U [H1 [H2 [H3 [H4 [H5 [H6 [H7 H8]]]]]]]]]].
    exists g, qs, U. split; [right; exact H1|]. split; [exact H2|]. split.
    { intros q Hq. destruct (H3 q Hq) as [Q1 Q2]. split; [right; exact Q1|exact Q2]. }
    split; [exact H4|]. split; [right; exact H5|]. split; [|split].
    + intros g' [<-|Hg']; [right; split; [left; reflexivity|exact T]|].
      destruct (H6 g' Hg') as [E'|[I' T']]; [left; exact E'|right; split; [right; exact I'|exact T']].
    + intros g' [<-|Hg'] Tg'; [left; reflexivity|right; apply H7; assumption].
    + intros g' [<-|Hg'] Tg'; [congruence|apply H8; assumption].
Qed.

(* ---------- invariants of the group building *)
Definition fr_gconn (cds g : list fhit) : Prop := forall x y, In x g -> In y g -> fconn cds x y.
Definition fr_inv (cds : list fhit) (gs : list (list fhit)) : Prop :=
  forall g, In g gs -> incl g cds /\ fr_gconn cds g /\ g <> [].
(* two groups of the list are the same group or share no hit *)
Definition fr_disj (g1 g2 : list fhit) : Prop := forall x, In x g1 -> In x g2 -> False.
Definition fr_pd (gs : list (list fhit)) : Prop := forall g1 g2, In g1 gs -> In g2 gs -> g1 = g2 \/ fr_disj g1 g2.
Definition fr_gle (gs gs' : list (list fhit)) : Prop := forall g, In g gs -> exists g', In g' gs' /\ incl g g'.
Definition fr_covers (gs : list (list fhit)) (h o : fhit) : Prop := exists g, In g gs /\ In h g /\ In o g.

Lemma fr_gle_refl gs : fr_gle gs gs.
Proof. intros g Hg. exists g. split; auto. apply incl_refl. Qed.
Lemma fr_gle_trans a b c : fr_gle a b -> fr_gle b c -> fr_gle a c.
Proof.
  intros H1 H2 g Hg. destruct (H1 g Hg) as [g1 [Hg1 I1]]. destruct (H2 g1 Hg1) as [g2 [Hg2 I2]].
  exists g2. split; auto. eapply incl_tran; eauto.
Qed.
Lemma fr_covers_gle gs gs' h o : fr_gle gs gs' -> fr_covers gs h o -> fr_covers gs' h o.
Proof. intros H [g [Hg [Hh Ho]]]. destruct (H g Hg) as [g' [Hg' I]]. exists g'. auto. Qed.

Lemma fr_star cds g h : (forall z, In z g -> fconn cds z h) -> fr_gconn cds g.
Proof.
  intros H x y Hx Hy. apply (fr_fconn_trans cds x h y); [apply H; exact Hx|apply fr_fconn_sym, H; exact Hy].
Qed.

Lemma fr_disj_sym g1 g2 : fr_disj g1 g2 -> fr_disj g2 g1.
Proof. intros H x H2 H1. exact (H x H1 H2). Qed.

Lemma fr_touches_In cds a b g : NoDup (map f_id cds) -> incl g cds -> In a cds -> In b cds ->
  touches a b g = true -> In a g \/ In b g.
Proof.
  intros ND Hg Ha Hb T. unfold touches in T. apply orb_true_iff in T.
  destruct T as [T|T]; [left|right]; apply (fr_fmem_In cds); auto.
Qed.

Lemma fr_pstep_spec cds h o gs : NoDup (map f_id cds) -> In h cds -> In o cds -> fr_inv cds gs -> fr_pd gs ->
  fr_inv cds (fr_pstep h gs o) /\ fr_pd (fr_pstep h gs o) /\ fr_gle gs (fr_pstep h gs o) /\
  (fov h o = true -> fr_covers (fr_pstep h gs o) h o).
Proof.
  intros ND Hh Ho Inv Pd. unfold fr_pstep. destruct (fov h o) eqn:Ef.
  2:{ split; [exact Inv|]. split; [exact Pd|]. split; [apply fr_gle_refl|discriminate]. }
  assert (Hoh : fconn cds o h) by (apply fr_fconn_edge; auto; rewrite fr_fov_sym; exact Ef).
  (* every member of a linked group is chained to h *)
  assert (Link : forall t, In t gs -> touches h o t = true -> forall z, In z t -> fconn cds z h).
  { intros t Ht Tt z Hz. destruct (Inv t Ht) as [I1 [I2 _]].
    destruct (fr_touches_In cds h o t ND I1 Hh Ho Tt) as [Hin|Hin].
    - apply I2; auto.
    - apply (fr_fconn_trans cds z o h); [apply I2; auto|exact Hoh]. }
  destruct (unite_groups h o gs) as [gs'|] eqn:EU.
  - destruct (fr_unite_some h o gs gs' EU) as [g [qs [U [Hg [Tg [Hqs [EqU [HU [Hnew [Hkeep Hlinked]]]]]]]]]].
    destruct (Inv g Hg) as [G1 [G2 G3]].
    assert (Hbase : incl (fadd o (fadd h g)) cds) by (apply (fr_fadd_incl cds); auto; apply (fr_fadd_incl cds); auto).
    assert (Hqs_incl : forall q, In q qs -> incl q cds).
    { intros q Hq. destruct (Hqs q Hq) as [Q1 _]. apply (Inv q Q1). }
    assert (Uinv : forall x, In x U -> In x g \/ x = h \/ x = o \/ exists q, In q qs /\ In x q).
    { intros x Hx. rewrite EqU in Hx. apply fr_funion_inv in Hx. destruct Hx as [Hx|Hx]; [|auto].
      apply fr_fadd_inv in Hx. destruct Hx as [Hx| ->]; [|auto].
      apply fr_fadd_inv in Hx. destruct Hx as [Hx| ->]; auto. }
    assert (Ug : incl g U).
    { intros x Hx. rewrite EqU. apply fr_funion_old. apply fr_fadd_old, fr_fadd_old. exact Hx. }
    assert (Uh : In h U).
    { rewrite EqU. apply fr_funion_old. apply fr_fadd_old. apply (fr_fadd_self cds); auto. }
    assert (Uo : In o U).
    { rewrite EqU. apply fr_funion_old. apply (fr_fadd_self cds); auto. apply (fr_fadd_incl cds); auto. }
    assert (Uq : forall q, In q qs -> incl q U).
    { intros q Hq x Hx. rewrite EqU. apply (fr_funion_new cds ND qs _ x q); auto. }
    assert (Ucds : incl U cds).
    { intros x Hx. destruct (Uinv x Hx) as [H1|[->|[->|[q [Hq H1]]]]]; auto. apply (Hqs_incl q Hq). exact H1. }
    assert (Uconn : forall z, In z U -> fconn cds z h).
    { intros z Hz. destruct (Uinv z Hz) as [H1|[->|[->|[q [Hq H1]]]]].
      - apply (Link g Hg Tg). exact H1.
      - apply fconn_refl. exact Hh.
      - exact Hoh.
      - destruct (Hqs q Hq) as [Q1 Q2]. apply (Link q Q1 Q2). exact H1. }
    (* U shares no hit with a group the pair does not touch *)
    assert (Udisj : forall p, In p gs -> touches h o p = false -> fr_disj U p).
    { intros p Hp Tp x Hx Hxp. unfold touches in Tp. apply orb_false_iff in Tp. destruct Tp as [Tp1 Tp2].
      assert (Sep : forall t, In t gs -> touches h o t = true -> In x t -> False).
      { intros t Ht Tt Hxt. destruct (Pd t p Ht Hp) as [->|D]; [|exact (D x Hxt Hxp)].
        unfold touches in Tt. rewrite Tp1, Tp2 in Tt. discriminate. }
      destruct (Uinv x Hx) as [H1|[->|[->|[q [Hq H1]]]]].
      - exact (Sep g Hg Tg H1).
      - rewrite (fr_In_fmem h p Hxp) in Tp1. discriminate.
      - rewrite (fr_In_fmem o p Hxp) in Tp2. discriminate.
      - destruct (Hqs q Hq) as [Q1 Q2]. exact (Sep q Q1 Q2 H1). }
    split; [|split; [|split]].
    + intros g' Hg'. destruct (Hnew g' Hg') as [->|[Hin _]]; [|apply Inv; exact Hin].
      split; [exact Ucds|]. split; [apply (fr_star cds U h); exact Uconn|]. intros E. rewrite E in Uh. contradiction.
    + intros g1 g2 H1 H2. destruct (Hnew g1 H1) as [->|[I1 T1]], (Hnew g2 H2) as [->|[I2 T2]].
      * left. reflexivity.
      * right. apply Udisj; auto.
      * right. apply fr_disj_sym. apply Udisj; auto.
      * apply Pd; auto.
    + intros g0 Hg0. destruct (touches h o g0) eqn:T0.
      * exists U. split; [exact HU|]. destruct (Hlinked g0 Hg0 T0) as [->|Hq]; [exact Ug|apply Uq; exact Hq].
      * exists g0. split; [apply Hkeep; auto|apply incl_refl].
    + intros _. exists U. auto.
  - pose proof (fr_unite_none h o gs EU) as Hnone.
    assert (Hpair : forall p, In p gs -> fr_disj [h; o] p).
    { intros p Hp x Hx Hxp. specialize (Hnone p Hp). unfold touches in Hnone. apply orb_false_iff in Hnone.
      destruct Hnone as [T1 T2]. destruct Hx as [<-|[<-|[]]].
      - rewrite (fr_In_fmem h p Hxp) in T1. discriminate.
      - rewrite (fr_In_fmem o p Hxp) in T2. discriminate. }
    split; [|split; [|split]].
    + intros g Hg. apply in_app_or in Hg. destruct Hg as [Hg|[<-|[]]]; [apply Inv; exact Hg|].
      split; [intros z [<-|[<-|[]]]; auto|]. split; [|discriminate].
      apply (fr_star cds _ h). intros z [<-|[<-|[]]]; [apply fconn_refl; exact Hh|exact Hoh].
    + intros g1 g2 H1 H2. apply in_app_or in H1. apply in_app_or in H2.
      destruct H1 as [H1|[<-|[]]], H2 as [H2|[<-|[]]].
      * apply Pd; auto.
      * right. apply fr_disj_sym. apply Hpair. exact H1.
      * right. apply Hpair. exact H2.
      * left. reflexivity.
    + intros g Hg. exists g. split; [apply in_or_app; left; exact Hg|apply incl_refl].
    + intros _. exists [h; o]. split; [apply in_or_app; right; left; reflexivity|]. split; [left|right; left]; reflexivity.
Qed.

Lemma fr_inner_spec cds h : NoDup (map f_id cds) -> In h cds -> forall os gs, incl os cds -> fr_inv cds gs -> fr_pd gs ->
  let gs' := fold_left (fr_pstep h) os gs in
  fr_inv cds gs' /\ fr_pd gs' /\ fr_gle gs gs' /\ forall o, In o os -> fov h o = true -> fr_covers gs' h o.
Proof.
  intros ND Hh. induction os as [|o os IH]; intros gs Hos Inv Pd; cbn [fold_left].
  - split; [exact Inv|]. split; [exact Pd|]. split; [apply fr_gle_refl|intros o []].
  - assert (Ho : In o cds) by (apply Hos; left; reflexivity).
    destruct (fr_pstep_spec cds h o gs ND Hh Ho Inv Pd) as [I1 [P1 [G1 C1]]].
    destruct (IH (fr_pstep h gs o) (fun x Hx => Hos x (or_intror Hx)) I1 P1) as [I2 [P2 [G2 C2]]].
    split; [exact I2|]. split; [exact P2|]. split; [eapply fr_gle_trans; eauto|].
    intros o' [<-|Ho'] Hf; [|apply C2; auto]. apply (fr_covers_gle _ _ _ _ G2). apply C1. exact Hf.
Qed.

Lemma fr_outer_spec cds : NoDup (map f_id cds) -> forall hs gs, incl hs cds -> fr_inv cds gs -> fr_pd gs ->
  let gs' := fold_left (fun gs h => fold_left (fr_pstep h) cds gs) hs gs in
  fr_inv cds gs' /\ fr_pd gs' /\ fr_gle gs gs' /\
  forall h o, In h hs -> In o cds -> fov h o = true -> fr_covers gs' h o.
Proof.
  intros ND. induction hs as [|h hs IH]; intros gs Hhs Inv Pd; cbn [fold_left].
  - split; [exact Inv|]. split; [exact Pd|]. split; [apply fr_gle_refl|intros h o []].
  - assert (Hh : In h cds) by (apply Hhs; left; reflexivity).
    destruct (fr_inner_spec cds h ND Hh cds gs (incl_refl _) Inv Pd) as [I1 [P1 [G1 C1]]].
    destruct (IH _ (fun x Hx => Hhs x (or_intror Hx)) I1 P1) as [I2 [P2 [G2 C2]]].
    split; [exact I2|]. split; [exact P2|]. split; [eapply fr_gle_trans; eauto|].
    intros h' o [<-|Hh'] Ho Hf; [|apply C2; auto]. apply (fr_covers_gle _ _ _ _ G2). apply C1; auto.
Qed.

(* what the groups are, for every input: sets of the gene's hits, each chained together by overlaps,
   and every overlapping pair lies inside one of them *)
Lemma fr_groups_spec cds : NoDup (map f_id cds) ->
  fr_inv cds (fr_groups cds) /\ forall h o, In h cds -> In o cds -> fov h o = true -> fr_covers (fr_groups cds) h o.
Proof.
  intros ND. destruct (fr_outer_spec cds ND cds [] (incl_refl _)) as [I [_ [_ C]]]; [intros g []|intros g1 g2 []|].
  split; [exact I|exact C].
Qed.

(* ... and (since the repair of FC13a) no hit lies in two of them *)
Lemma fr_groups_disjoint cds : NoDup (map f_id cds) -> fr_pd (fr_groups cds).
Proof.
  intros ND. destruct (fr_outer_spec cds ND cds [] (incl_refl _)) as [_ [P _]]; [intros g []|intros g1 g2 []|exact P].
Qed.

(* ---------- every group is a connected component *)
Lemma fr_group_component cds gs g h : NoDup (map f_id cds) -> fr_inv cds gs -> fr_pd gs ->
  (forall a b, In a cds -> In b cds -> fov a b = true -> fr_covers gs a b) ->
  In g gs -> In h g -> forall x, In x g <-> fconn cds h x.
Proof.
  intros ND Inv Pd Cov Hg Hh x. destruct (Inv g Hg) as [I1 [I2 _]]. split; [intros Hx; apply I2; auto|].
  induction 1 as [h H|a b c H IH Hc' Hf]; [exact Hh|].
  specialize (IH Hh). destruct (Cov b c (I1 b IH) Hc' Hf) as [g2 [Hg2 [Hb2 Hc2]]].
  destruct (Pd g2 g Hg2 Hg) as [<-|D]; [exact Hc2|]. exfalso. exact (D b Hb2 IH).
Qed.

(* ---------- best of a group *)
Lemma fr_fold_best : forall l b0,
  let b := fold_left (fun best h => if f_sc best <? f_sc h then h else best) l b0 in
  (b = b0 \/ In b l) /\ f_sc b0 <= f_sc b /\ forall x, In x l -> f_sc x <= f_sc b.
Proof.
  induction l as [|h l IH]; intros b0; cbn [fold_left].
  - split; [left; reflexivity|]. split; [lia|intros x []].
  - destruct (IH (if f_sc b0 <? f_sc h then h else b0)) as [H1 [H2 H3]]. cbv zeta in *.
    destruct (f_sc b0 <? f_sc h) eqn:E.
    + split; [destruct H1 as [->|H1]; [right; left; reflexivity|right; right; exact H1]|].
      split; [lia|]. intros x [<-|Hx]; [exact H2|apply H3; exact Hx].
    + split; [destruct H1 as [H1|H1]; [left; exact H1|right; right; exact H1]|].
      split; [exact H2|]. intros x [<-|Hx]; [lia|apply H3; exact Hx].
Qed.

Lemma fr_rank_order_In g x : In x (rank_order g) <-> In x g.
Proof. unfold rank_order. apply sort_by_In. Qed.

Lemma fr_best_of_spec l b : best_of l = Some b -> In b l /\ forall x, In x l -> f_sc x <= f_sc b.
Proof.
  unfold best_of. destruct l as [|r0 rt]; [discriminate|]. intros H. injection H as Hb.
  pose proof (fr_fold_best (r0 :: rt) r0) as P. cbv zeta in P. cbn [fold_left] in P, Hb. rewrite Hb in P. destruct P as [H1 [_ H3]]. split.
  - destruct H1 as [->|H1]; [left; reflexivity|exact H1].
  - exact H3.
Qed.

Lemma fr_best_of_some l : l <> [] -> exists b, best_of l = Some b.
Proof. intros Hl. unfold best_of. destruct l as [|r0 rt]; [contradiction|eexists; reflexivity]. Qed.

(* the tie rule (repair of filter_results_score_tie_set_order): best_of returns the FIRST hit of the list with the
   highest score *)
Definition fr_first_max (l : list fhit) (b : fhit) : Prop :=
  exists l1 l2, l = l1 ++ b :: l2 /\ (forall x, In x l1 -> f_sc x < f_sc b) /\ (forall x, In x l2 -> f_sc x <= f_sc b).

Lemma fr_fold_first_max : forall l p1 b0 p2,
  (forall x, In x p1 -> f_sc x < f_sc b0) -> (forall x, In x p2 -> f_sc x <= f_sc b0) ->
  fr_first_max ((p1 ++ b0 :: p2) ++ l) (fold_left (fun best h => if f_sc best <? f_sc h then h else best) l b0).
Proof.
  induction l as [|h l IH]; intros p1 b0 p2 H1 H2; cbn [fold_left].
  - exists p1, p2. rewrite app_nil_r. auto.
  - destruct (f_sc b0 <? f_sc h) eqn:E.
    + replace ((p1 ++ b0 :: p2) ++ h :: l) with (((p1 ++ b0 :: p2) ++ h :: []) ++ l)
        by (rewrite <- app_assoc; reflexivity).
      apply IH; [|intros x []].
      intros x Hx. apply in_app_or in Hx. destruct Hx as [Hx|[<-|Hx]]; [specialize (H1 x Hx); lia|lia|specialize (H2 x Hx); lia].
    + replace ((p1 ++ b0 :: p2) ++ h :: l) with ((p1 ++ b0 :: (p2 ++ [h])) ++ l)
        by (rewrite <- !app_assoc; cbn; rewrite <- app_assoc; reflexivity).
      apply IH; [exact H1|].
      intros x Hx. apply in_app_or in Hx. destruct Hx as [Hx|[<-|[]]]; [apply H2; exact Hx|lia].
Qed.

Lemma fr_best_of_first_max l b : best_of l = Some b -> fr_first_max l b.
Proof.
  unfold best_of. destruct l as [|r0 rt]; [discriminate|]. intros H. injection H as Hb. subst b.
  cbn [fold_left]. rewrite Z.ltb_irrefl.
  apply (fr_fold_first_max rt [] r0 []); intros x [].
Qed.

Lemma fr_first_max_unique : forall l b b', fr_first_max l b -> fr_first_max l b' -> b = b'.
Proof.
  intros l b b' [l1 [l2 [E [A1 A2]]]] [l1' [l2' [E' [B1 B2]]]]. subst l.
  revert l1' E' A1 B1. induction l1 as [|a l1 IH]; intros l1' E' A1 B1.
  - destruct l1' as [|a' l1']; cbn in E'; [injection E' as ->; reflexivity|]. exfalso.
    injection E' as <- E'. specialize (B1 b (or_introl eq_refl)).
    assert (In b' l2) by (rewrite E'; apply in_or_app; right; left; reflexivity). specialize (A2 b' H). lia.
  - destruct l1' as [|a' l1']; cbn in E'.
    + exfalso. injection E' as -> E'. specialize (A1 b' (or_introl eq_refl)).
      assert (In b l2') by (rewrite <- E'; apply in_or_app; right; left; reflexivity). specialize (B2 b H). lia.
    + injection E' as <- E'. apply (IH l1' E'); intros x Hx; [apply A1|apply B1]; right; exact Hx.
Qed.

Lemma fr_first_max_best_of l b : fr_first_max l b -> best_of l = Some b.
Proof.
  intros H. destruct (fr_best_of_some l) as [b' Eb'].
  - destruct H as [l1 [l2 [-> _]]]. destruct l1; discriminate.
  - rewrite Eb'. f_equal. apply (fr_first_max_unique l); [apply fr_best_of_first_max; exact Eb'|exact H].
Qed.

(* the best hit of a list is still the best of any sublist that keeps it *)
Lemma fr_best_of_filter (f : fhit -> bool) l b : best_of l = Some b -> f b = true -> best_of (filter f l) = Some b.
Proof.
  intros Eb Hf. apply fr_first_max_best_of. destruct (fr_best_of_first_max l b Eb) as [l1 [l2 [-> [A1 A2]]]].
  exists (filter f l1), (filter f l2). rewrite filter_app. cbn [filter]. rewrite Hf. split; [reflexivity|].
  split; intros x Hx; apply filter_In in Hx; destruct Hx as [Hx _]; auto.
Qed.

(* the best hit of a group: searched in the order of the gene's hit list *)
Definition gbest (mine g : list fhit) : option fhit := best_of (hit_order mine g).

Lemma fr_hit_order_In mine g x : NoDup (map f_id mine) -> incl g mine -> (In x (hit_order mine g) <-> In x g).
Proof.
  intros ND Hg. unfold hit_order. rewrite filter_In. split.
  - intros [Hx Hm]. apply (fr_fmem_In mine g x ND Hg Hx Hm).
  - intros Hx. split; [apply Hg; exact Hx|apply fr_In_fmem; exact Hx].
Qed.

Lemma fr_gbest_spec mine g b : NoDup (map f_id mine) -> incl g mine -> gbest mine g = Some b ->
  In b g /\ forall x, In x g -> f_sc x <= f_sc b.
Proof.
  intros ND Hg E. destruct (fr_best_of_spec _ b E) as [H1 H2]. split.
  - apply (fr_hit_order_In mine g b ND Hg). exact H1.
  - intros x Hx. apply H2. apply (fr_hit_order_In mine g x ND Hg). exact Hx.
Qed.

Lemma fr_gbest_some mine g : NoDup (map f_id mine) -> incl g mine -> g <> [] -> exists b, gbest mine g = Some b.
Proof.
  intros ND Hg Hne. apply fr_best_of_some. destruct g as [|x t]; [contradiction|]. intros E.
  assert (In x (hit_order mine (x :: t))) by (apply (fr_hit_order_In mine _ x ND Hg); left; reflexivity).
  rewrite E in H. contradiction.
Qed.

(* ---------- the removal pass as a filter *)
Definition fr_state := (list fhit * list fhit * list Z)%type.
Definition fr_J (s : fr_state) : Prop :=
  let '(R, M, rem) := s in forall i, In i rem -> (forall r, In r R -> f_id r <> i) /\ (forall r, In r M -> f_id r <> i).

Lemma fr_filter_true {A} (f : A -> bool) l : (forall x, In x l -> f x = true) -> filter f l = l.
Proof.
  induction l as [|a t IH]; cbn; intros H; [reflexivity|].
  rewrite (H a (or_introl eq_refl)). f_equal. apply IH. intros x Hx. apply H. right. exact Hx.
Qed.

Lemma fr_filter_filter {A} (f g : A -> bool) l : filter f (filter g l) = filter (fun x => g x && f x) l.
Proof.
  induction l as [|a t IH]; cbn; [reflexivity|]. destruct (g a); cbn; [destruct (f a); rewrite IH; reflexivity|exact IH].
Qed.

Lemma fr_fold_filter {X} (step : fr_state -> X -> fr_state) (p : X -> fhit -> bool) :
  (forall R M rem x, fr_J (R, M, rem) ->
     exists rem', step (R, M, rem) x = (filter (fun r => negb (p x r)) R, filter (fun r => negb (p x r)) M, rem')
                  /\ fr_J (filter (fun r => negb (p x r)) R, filter (fun r => negb (p x r)) M, rem')) ->
  forall l R M rem, fr_J (R, M, rem) ->
     exists rem', fold_left step l (R, M, rem)
                  = (filter (fun r => negb (existsb (fun x => p x r) l)) R,
                     filter (fun r => negb (existsb (fun x => p x r) l)) M, rem')
                  /\ fr_J (filter (fun r => negb (existsb (fun x => p x r) l)) R,
                           filter (fun r => negb (existsb (fun x => p x r) l)) M, rem').
Proof.
  intros Hstep. induction l as [|x l IH]; intros R M rem J; cbn [fold_left existsb].
  - exists rem. rewrite !fr_filter_true by reflexivity. split; [reflexivity|exact J].
  - destruct (Hstep R M rem x J) as [rem1 [E1 J1]]. rewrite E1.
    destruct (IH _ _ rem1 J1) as [rem2 [E2 J2]]. exists rem2.
    rewrite !fr_filter_filter in E2, J2.
    assert (Ext : forall L : list fhit, filter (fun r => negb (p x r) && negb (existsb (fun x0 => p x0 r) l)) L
                                 = filter (fun r => negb (p x r || existsb (fun x0 => p x0 r) l)) L).
    { intros L. apply filter_ext. intros r. rewrite negb_orb. reflexivity. }
    rewrite !Ext in E2, J2. split; [exact E2|exact J2].
Qed.

Definition fr_p1 (b h r : fhit) : bool := (f_id h =? f_id r) && negb (f_id h =? f_id b).

Lemma fr_removal_step_filter b : forall R M rem h, fr_J (R, M, rem) ->
  exists rem', removal_step b (R, M, rem) h
               = (filter (fun r => negb (fr_p1 b h r)) R, filter (fun r => negb (fr_p1 b h r)) M, rem')
               /\ fr_J (filter (fun r => negb (fr_p1 b h r)) R, filter (fun r => negb (fr_p1 b h r)) M, rem').
Proof.
  intros R M rem h J. unfold removal_step, fr_p1. destruct (f_id h =? f_id b) eqn:Eb.
  - exists rem. rewrite !fr_filter_true by (intros; rewrite andb_false_r; reflexivity). split; [reflexivity|exact J].
  - destruct (mem Z.eqb (f_id h) rem) eqn:Em.
    + exists rem. assert (Hin : In (f_id h) rem).
      { clear -Em. induction rem as [|a t IH]; cbn in Em; [discriminate|].
        apply orb_true_iff in Em. destruct Em as [E|E]; [left; symmetry; apply Z.eqb_eq; exact E|right; apply IH; exact E]. }
      destruct (J _ Hin) as [JR JM].
      rewrite (fr_filter_true _ R), (fr_filter_true _ M); [split; [reflexivity|exact J]| |].
      * intros r Hr. specialize (JM r Hr). cbn. rewrite andb_true_r. apply negb_true_iff. apply Z.eqb_neq. auto.
      * intros r Hr. specialize (JR r Hr). cbn. rewrite andb_true_r. apply negb_true_iff. apply Z.eqb_neq. auto.
    + exists (f_id h :: rem). unfold remove_id.
      assert (Ext : forall L : list fhit, filter (fun x => negb (f_id x =? f_id h)) L
                                   = filter (fun r => negb ((f_id h =? f_id r) && negb false)) L).
      { intros L. apply filter_ext. intros r. cbn. rewrite andb_true_r, Z.eqb_sym. reflexivity. }
      rewrite !Ext. split; [reflexivity|].
      intros i [<-|Hi].
      * split; intros r Hr; apply filter_In in Hr; destruct Hr as [_ Hr]; cbn in Hr; rewrite andb_true_r in Hr;
          apply negb_true_iff, Z.eqb_neq in Hr; auto.
      * destruct (J i Hi) as [JR JM]. split; intros r Hr; apply filter_In in Hr; destruct Hr as [Hr _]; auto.
Qed.

(* r is a member (by identity) of g other than g's best (the first of the highest scoring hits of g in the list `mine`) *)
Definition fr_dead (mine g : list fhit) (r : fhit) : bool :=
  match gbest mine g with None => false | Some b => existsb (fun h => fr_p1 b h r) (rank_order g) end.
Definition fr_bad (mine : list fhit) (gs : list (list fhit)) (r : fhit) : bool := existsb (fun g => fr_dead mine g r) gs.

(* one group, as long as the live list still yields the best hit of the original list *)
Lemma fr_group_pass_filter mine : forall R M rem g, fr_J (R, M, rem) -> best_of (hit_order M g) = gbest mine g ->
  exists rem', group_pass (R, M, rem) g
               = (filter (fun r => negb (fr_dead mine g r)) R, filter (fun r => negb (fr_dead mine g r)) M, rem')
               /\ fr_J (filter (fun r => negb (fr_dead mine g r)) R, filter (fun r => negb (fr_dead mine g r)) M, rem').
Proof.
  intros R M rem g J E. unfold group_pass, fr_dead. rewrite E. destruct (gbest mine g) as [b|].
  - apply (fr_fold_filter (removal_step b) (fr_p1 b)); [apply fr_removal_step_filter|exact J].
  - exists rem. rewrite !fr_filter_true by reflexivity. split; [reflexivity|exact J].
Qed.

Lemma fr_dead_member mine g r : fr_dead mine g r = true ->
  exists b h, gbest mine g = Some b /\ In h g /\ f_id h = f_id r /\ f_id h <> f_id b.
Proof.
  unfold fr_dead. destruct (gbest mine g) as [b|]; [|discriminate]. intros H.
  apply existsb_exists in H. destruct H as [h [Hh Hp]]. apply (proj1 (fr_rank_order_In g h)) in Hh.
  unfold fr_p1 in Hp. apply andb_true_iff in Hp. destruct Hp as [P1 P2].
  apply Z.eqb_eq in P1. apply negb_true_iff, Z.eqb_neq in P2. exists b, h. auto.
Qed.

(* the best hit of a group is removed by no group (groups are pairwise disjoint) *)
Lemma fr_gbest_not_bad mine gs g b : NoDup (map f_id mine) -> fr_inv mine gs -> fr_pd gs -> In g gs ->
  gbest mine g = Some b -> forall done, incl done gs -> fr_bad mine done b = false.
Proof.
  intros ND Inv Pd Hg Eb done Hd. destruct (fr_bad mine done b) eqn:E; [|reflexivity]. exfalso.
  unfold fr_bad in E. apply existsb_exists in E. destruct E as [g' [Hg' H]].
  destruct (fr_dead_member mine g' b H) as [b' [h [Eb' [Hh [Eid Hne]]]]].
  destruct (Inv g Hg) as [I1 _]. destruct (Inv g' (Hd g' Hg')) as [I1' _].
  destruct (fr_gbest_spec mine g b ND I1 Eb) as [Hbg _].
  assert (h = b) by (apply (fr_id_inj mine ND); [apply I1'; exact Hh|apply I1; exact Hbg|exact Eid]). subst h.
  destruct (Pd g g' Hg (Hd g' Hg')) as [<-|D].
  - rewrite Eb in Eb'. injection Eb' as <-. apply Hne. reflexivity.
  - exact (D b Hbg Hh).
Qed.

(* so the live list `cdsresults` (the gene's list minus what earlier groups removed) gives the same best hit *)
Lemma fr_live_best mine gs g done : NoDup (map f_id mine) -> fr_inv mine gs -> fr_pd gs -> In g gs -> incl done gs ->
  best_of (hit_order (filter (fun r => negb (fr_bad mine done r)) mine) g) = gbest mine g.
Proof.
  intros ND Inv Pd Hg Hd. unfold hit_order at 1. rewrite fr_filter_filter.
  assert (E : filter (fun x => negb (fr_bad mine done x) && fmem x g) mine
              = filter (fun r => negb (fr_bad mine done r)) (hit_order mine g)).
  { unfold hit_order. rewrite fr_filter_filter. apply filter_ext. intros x. apply andb_comm. }
  rewrite E. unfold gbest. destruct (best_of (hit_order mine g)) as [b|] eqn:Eb.
  - apply fr_best_of_filter; [exact Eb|]. rewrite (fr_gbest_not_bad mine gs g b ND Inv Pd Hg Eb done Hd). reflexivity.
  - unfold best_of in Eb. destruct (hit_order mine g); [reflexivity|discriminate].
Qed.

Lemma fr_bad_app mine a b r : fr_bad mine (a ++ b) r = fr_bad mine a r || fr_bad mine b r.
Proof. unfold fr_bad. apply existsb_app. Qed.

Lemma fr_groups_pass_go mine gs : NoDup (map f_id mine) -> fr_inv mine gs -> fr_pd gs ->
  forall todo done R rem, incl done gs -> incl todo gs ->
  fr_J (R, filter (fun r => negb (fr_bad mine done r)) mine, rem) ->
  exists rem', fold_left group_pass todo (R, filter (fun r => negb (fr_bad mine done r)) mine, rem)
               = (filter (fun r => negb (fr_bad mine todo r)) R,
                  filter (fun r => negb (fr_bad mine (done ++ todo) r)) mine, rem').
Proof.
  intros ND Inv Pd. induction todo as [|g t IH]; intros done R rem Hd Ht J; cbn [fold_left].
  - exists rem. rewrite app_nil_r. rewrite (fr_filter_true _ R) by reflexivity. reflexivity.
  - assert (Hg : In g gs) by (apply Ht; left; reflexivity).
    destruct (fr_group_pass_filter mine R _ rem g J (fr_live_best mine gs g done ND Inv Pd Hg Hd)) as [rem1 [E1 J1]].
    rewrite E1.
    assert (EM : filter (fun r => negb (fr_dead mine g r)) (filter (fun r => negb (fr_bad mine done r)) mine)
                 = filter (fun r => negb (fr_bad mine (done ++ [g]) r)) mine).
    { rewrite fr_filter_filter. apply filter_ext. intros r. rewrite fr_bad_app. unfold fr_bad at 3. cbn [existsb].
      rewrite orb_false_r, negb_orb. reflexivity. }
    rewrite EM in J1. rewrite EM.
    destruct (IH (done ++ [g]) (filter (fun r => negb (fr_dead mine g r)) R) rem1) as [rem2 E2]; [| |exact J1|].
    + intros x Hx. apply in_app_or in Hx. destruct Hx as [Hx|[<-|[]]]; [apply Hd; exact Hx|exact Hg].
    + intros x Hx. apply Ht. right. exact Hx.
    + exists rem2. rewrite E2. rewrite fr_filter_filter. rewrite <- app_assoc. cbn [app]. f_equal. f_equal.
      apply filter_ext. intros r. unfold fr_bad. cbn [existsb]. rewrite negb_orb. reflexivity.
Qed.

Lemma fr_groups_pass_filter mine gs R rem : NoDup (map f_id mine) -> fr_inv mine gs -> fr_pd gs -> fr_J (R, mine, rem) ->
  exists rem', fold_left group_pass gs (R, mine, rem)
               = (filter (fun r => negb (fr_bad mine gs r)) R, filter (fun r => negb (fr_bad mine gs r)) mine, rem').
Proof.
  intros ND Inv Pd J.
  assert (E0 : filter (fun r => negb (fr_bad mine [] r)) mine = mine) by (apply fr_filter_true; reflexivity).
  pose proof (fr_groups_pass_go mine gs ND Inv Pd gs [] R rem (fun x (H : In x []) => match H with end) (incl_refl _)) as G.
  rewrite E0 in G. cbn [app] in G. exact (G J).
Qed.

(* for a hit of the gene: bad = it belongs to a group whose best is another hit *)
Lemma fr_bad_iff cds gs r : NoDup (map f_id cds) -> fr_inv cds gs -> In r cds ->
  (fr_bad cds gs r = true <-> exists g b, In g gs /\ In r g /\ gbest cds g = Some b /\ b <> r).
Proof.
  intros ND Inv Hr. unfold fr_bad. rewrite existsb_exists. split.
  - intros [g [Hg H]]. destruct (fr_dead_member cds g r H) as [b [h [Eb [Hh [P1 P2]]]]].
    destruct (Inv g Hg) as [I1 _].
    assert (h = r) by (apply (fr_id_inj cds ND); [apply I1; exact Hh|exact Hr|exact P1]). subst h.
    exists g, b. repeat split; auto. intros ->. apply P2. reflexivity.
  - intros [g [b [Hg [Hrg [Eb Hne]]]]]. exists g. split; [exact Hg|]. unfold fr_dead. rewrite Eb.
    apply existsb_exists. exists r. split; [apply fr_rank_order_In; exact Hrg|].
    unfold fr_p1. rewrite Z.eqb_refl. cbn. apply negb_true_iff, Z.eqb_neq. intros E.
    destruct (Inv g Hg) as [I1 _]. destruct (fr_gbest_spec cds g b ND I1 Eb) as [Hb _].
    apply Hne. symmetry. apply (fr_id_inj cds ND); auto.
Qed.

(* ---------- one gene under one equivalence group *)
Lemma fr_znodup_NoDup : forall l, znodup l = true -> NoDup l.
Proof.
  induction l as [|a t IH]; cbn; intros H; [constructor|]. apply andb_true_iff in H. destruct H as [H1 H2].
  constructor; [|apply IH; exact H2]. intros Hin. apply negb_true_iff in H1.
  assert (mem Z.eqb a t = true); [|congruence].
  clear -Hin. induction t as [|b t IH]; cbn; [contradiction|]. destruct Hin as [->|Hin]; [rewrite Z.eqb_refl; reflexivity|].
  rewrite IH by exact Hin. apply orb_true_r.
Qed.

Lemma fr_fwf_spec cds : fwf cds = true -> fr_pos cds /\ NoDup (map f_id cds).
Proof.
  unfold fwf. intros H. apply andb_true_iff in H. destruct H as [H1 H2]. split.
  - intros h Hh. rewrite forallb_forall in H1. specialize (H1 h Hh). lia.
  - apply fr_znodup_NoDup. exact H2.
Qed.

Definition fr_keep (mine : list fhit) (r : fhit) : bool := negb (fr_bad mine (fr_groups mine) r).

(* (b), for every input of the domain: exactly the hits that are the best of every group they belong
   to survive, in their old order, in the gene's list and in the global list; everything else is untouched *)
Lemma fr_cds_survivors eqg results removed mine :
  fwf mine = true -> competing eqg mine = true -> fr_J (results, mine, removed) ->
  exists removed',
    fr_cds eqg (Ok (results, removed)) mine
    = (match filter (fr_keep mine) mine with
       | [] => Err E_Assert
       | _ => Ok (filter (fr_keep mine) results, removed')
       end, filter (fr_keep mine) mine).
Proof.
  intros Hwf Hc J. destruct (fr_fwf_spec mine Hwf) as [Hp ND].
  unfold fr_cds. unfold competing in Hc. apply negb_true_iff in Hc. rewrite Hc.
  rewrite (fr_overlapping_groups_pure mine Hp).
  destruct (fr_groups_spec mine ND) as [Inv _].
  destruct (fr_groups_pass_filter mine (fr_groups mine) results removed ND Inv (fr_groups_disjoint mine ND) J) as [rem' E].
  exists rem'. rewrite E. unfold fr_keep. destruct (filter (fun r => negb (fr_bad mine (fr_groups mine) r)) mine); reflexivity.
Qed.

Lemma fr_cds_not_competing eqg s mine : competing eqg mine = false ->
  fr_cds eqg (Ok s) mine = (Ok s, mine).
Proof.
  intros Hc. unfold fr_cds. destruct s as [results removed]. unfold competing in Hc. apply negb_false_iff in Hc.
  rewrite Hc. reflexivity.
Qed.

(* no two survivors of a gene overlap by more than 20 *)
Lemma fr_survivors_disjoint mine x y : fwf mine = true ->
  In x (filter (fr_keep mine) mine) -> In y (filter (fr_keep mine) mine) -> fov x y = false.
Proof.
  intros Hwf Hx Hy. destruct (fr_fwf_spec mine Hwf) as [Hp ND].
  destruct (fr_groups_spec mine ND) as [Inv Cov].
  apply filter_In in Hx. destruct Hx as [Hx Kx]. apply filter_In in Hy. destruct Hy as [Hy Ky].
  destruct (fov x y) eqn:Ef; [|reflexivity]. exfalso.
  destruct (Cov x y Hx Hy Ef) as [g [Hg [Hxg Hyg]]]. destruct (Inv g Hg) as [_ [_ Hne]].
  destruct (Inv g Hg) as [Ig _]. destruct (fr_gbest_some mine g ND Ig Hne) as [b Eb].
  unfold fr_keep in Kx, Ky. apply negb_true_iff in Kx. apply negb_true_iff in Ky.
  assert (b = x).
  { destruct (fhit_eq_dec_aux b x) as [E|E]; [exact E|]. exfalso.
    assert (fr_bad mine (fr_groups mine) x = true) by (apply (fr_bad_iff mine); auto; exists g, b; auto). congruence. }
  assert (b = y).
  { destruct (fhit_eq_dec_aux b y) as [E|E]; [exact E|]. exfalso.
    assert (fr_bad mine (fr_groups mine) y = true) by (apply (fr_bad_iff mine); auto; exists g, b; auto). congruence. }
  subst x y. unfold fov in Ef. rewrite Z.eqb_refl in Ef. discriminate.
Qed.

(* whatever the scores (ties included), the assertion `assert results_by_id[cds]` never fires: some hit survives *)
Lemma fr_some_survivor mine : fwf mine = true -> mine <> [] -> filter (fr_keep mine) mine <> [].
Proof.
  intros Hwf Hne. destruct (fr_fwf_spec mine Hwf) as [Hp ND].
  destruct (fr_groups_spec mine ND) as [Inv _]. pose proof (fr_groups_disjoint mine ND) as Pd.
  destruct mine as [|h0 t]; [contradiction|]. set (mine := h0 :: t) in *.
  assert (Hh0 : In h0 mine) by (left; reflexivity).
  assert (K : exists k, In k mine /\ fr_keep mine k = true).
  { destruct (existsb (fun g => fmem h0 g) (fr_groups mine)) eqn:Ex.
    - apply existsb_exists in Ex. destruct Ex as [g [Hg Hm]]. destruct (Inv g Hg) as [I1 [_ I3]].
      destruct (fr_gbest_some mine g ND I1 I3) as [b Eb]. destruct (fr_gbest_spec mine g b ND I1 Eb) as [Hbg _].
      exists b. split; [apply I1; exact Hbg|]. unfold fr_keep.
      rewrite (fr_gbest_not_bad mine (fr_groups mine) g b ND Inv Pd Hg Eb (fr_groups mine) (incl_refl _)). reflexivity.
    - exists h0. split; [exact Hh0|]. unfold fr_keep. destruct (fr_bad mine (fr_groups mine) h0) eqn:Eb; [|reflexivity]. exfalso.
      apply (fr_bad_iff mine) in Eb; auto. destruct Eb as [g [b [Hg [Hhg _]]]].
      assert (existsb (fun g => fmem h0 g) (fr_groups mine) = true); [|congruence].
      apply existsb_exists. exists g. split; [exact Hg|apply fr_In_fmem; exact Hhg]. }
  destruct K as [k [Hk Kk]]. intros E.
  assert (In k (filter (fr_keep mine) mine)) by (apply filter_In; auto). rewrite E in H. contradiction.
Qed.

(* ---------- the best hit of every connected component *)
Lemma fr_key_inj (f : fhit -> Z) cds : NoDup (map f cds) -> forall x y, In x cds -> In y cds -> f x = f y -> x = y.
Proof.
  induction cds as [|a t IH]; cbn; intros ND x y Hx Hy E; [contradiction|].
  inversion ND as [|? ? Hn ND']; subst.
  destruct Hx as [->|Hx], Hy as [->|Hy]; auto.
  - exfalso. apply Hn. rewrite E. apply in_map. exact Hy.
  - exfalso. apply Hn. rewrite <- E. apply in_map. exact Hx.
Qed.

(* unguarded: the best hit of its component always survives *)
Lemma fr_best_survives mine h : fwf mine = true -> distinct_scores mine = true -> In h mine ->
  comp_best mine h = true -> fr_keep mine h = true.
Proof.
  intros Hwf Hd Hh Hc. destruct (fr_fwf_spec mine Hwf) as [Hp ND]. apply fr_znodup_NoDup in Hd.
  destruct (fr_groups_spec mine ND) as [Inv Cov].
  unfold fr_keep. destruct (fr_bad mine (fr_groups mine) h) eqn:Eb; [|reflexivity]. exfalso.
  apply (fr_bad_iff mine) in Eb; auto. destruct Eb as [g [b [Hg [Hhg [Ebest Hne]]]]].
  destruct (Inv g Hg) as [I1 [I2 _]]. destruct (fr_gbest_spec mine g b ND I1 Ebest) as [Hbg Hmax].
  pose proof (proj1 (comp_best_spec mine h ND Hh) Hc b (I2 h b Hhg Hbg)) as Hle.
  specialize (Hmax h Hhg). apply Hne. apply (fr_key_inj f_sc mine Hd); auto. lia.
Qed.

(* the survivors are exactly the best hits of the connected components *)
Lemma fr_keep_spec mine h : fwf mine = true -> distinct_scores mine = true ->
  In h mine -> fr_keep mine h = comp_best mine h.
Proof.
  intros Hwf Hd Hh. destruct (comp_best mine h) eqn:Ec; [apply fr_best_survives; auto|].
  destruct (fr_keep mine h) eqn:Ek; [|reflexivity]. exfalso.
  destruct (fr_fwf_spec mine Hwf) as [Hp ND].
  destruct (fr_groups_spec mine ND) as [Inv Cov]. pose proof (fr_groups_disjoint mine ND) as Pd.
  assert (C : comp_best mine h = true); [|congruence].
  apply (comp_best_spec mine h ND Hh). intros o Ho.
  unfold fr_keep in Ek. apply negb_true_iff in Ek.
  destruct (existsb (fun g => fmem h g) (fr_groups mine)) eqn:Ex.
  - apply existsb_exists in Ex. destruct Ex as [g [Hgin Hm]]. destruct (Inv g Hgin) as [I1 [_ I3]].
    assert (Hhg : In h g) by (apply (fr_fmem_In mine); auto).
    assert (Hog : In o g) by (apply (fr_group_component mine (fr_groups mine) g h ND Inv Pd Cov Hgin Hhg); exact Ho).
    destruct (fr_gbest_some mine g ND I1 I3) as [b Eb]. destruct (fr_gbest_spec mine g b ND I1 Eb) as [_ Hmax].
    destruct (fhit_eq_dec_aux b h) as [->|Hne]; [apply Hmax; exact Hog|]. exfalso.
    assert (fr_bad mine (fr_groups mine) h = true) by (apply (fr_bad_iff mine); auto; exists g, b; auto). congruence.
  - destruct (fr_fconn_first_edge mine h o Ho) as [->|[b [Hb Hf]]]; [lia|]. exfalso.
    destruct (Cov h b Hh Hb Hf) as [g [Hgin [Hhg _]]].
    assert (existsb (fun g => fmem h g) (fr_groups mine) = true); [|congruence].
    apply existsb_exists. exists g. split; [exact Hgin|apply fr_In_fmem; exact Hhg].
Qed.

Lemma fr_bad_id mine gs r r' : f_id r = f_id r' -> fr_bad mine gs r = fr_bad mine gs r'.
Proof. intros E. unfold fr_bad, fr_dead, fr_p1. rewrite E. reflexivity. Qed.

Lemma fr_bad_member cds gs r : fr_inv cds gs -> fr_bad cds gs r = true -> exists h, In h cds /\ f_id h = f_id r.
Proof.
  intros Inv H. unfold fr_bad in H. apply existsb_exists in H. destruct H as [g [Hg H]].
  destruct (fr_dead_member cds g r H) as [b [h [_ [Hh [P1 _]]]]].
  destruct (Inv g Hg) as [I1 _]. exists h. split; [apply I1; exact Hh|exact P1].
Qed.

Lemma fr_max_exists : forall l : list fhit, l <> [] -> exists m, In m l /\ forall x, In x l -> f_sc x <= f_sc m.
Proof.
  induction l as [|a t IH]; intros H; [contradiction|]. destruct t as [|b t'].
  - exists a. split; [left; reflexivity|]. intros x [<-|[]]. lia.
  - destruct IH as [m [Hm Hmax]]; [discriminate|]. destruct (Z.le_gt_cases (f_sc a) (f_sc m)) as [Hle|Hgt].
    + exists m. split; [right; exact Hm|]. intros x [<-|Hx]; [exact Hle|apply Hmax; exact Hx].
    + exists a. split; [left; reflexivity|]. intros x [<-|Hx]; [lia|]. specialize (Hmax x Hx). lia.
Qed.

(* (a)+(b): the step is exactly what the property demands (fr_step_spec) *)
Lemma fr_cds_meets_spec eqg results removed mine r' m' app :
  fr_step_spec eqg results mine = (r', m', app) -> app = true ->
  fr_J (results, mine, removed) ->
  exists removed', fr_cds eqg (Ok (results, removed)) mine = (Ok (r', removed'), m').
Proof.
  unfold fr_step_spec. destruct (competing eqg mine) eqn:Ec.
  2:{ intros E _ _. inversion E; subst. exists removed. apply fr_cds_not_competing. exact Ec. }
  intros E Happ J. inversion E as [[E1 E2 E3]]. clear E. rewrite Happ in E3.
  apply andb_true_iff in E3. destruct E3 as [Hwf Hd].
  destruct (fr_fwf_spec mine Hwf) as [Hp ND].
  destruct (fr_groups_spec mine ND) as [Inv Cov].
  destruct (fr_cds_survivors eqg results removed mine Hwf Ec J) as [rem' Ecds].
  assert (EM : filter (fr_keep mine) mine = filter (comp_best mine) mine).
  { apply filter_ext_in. intros h Hh. apply fr_keep_spec; auto. }
  assert (ER : filter (fr_keep mine) results
               = filter (fun r => negb (fmem r (filter (fun h => negb (comp_best mine h)) mine))) results).
  { apply filter_ext. intros r. unfold fr_keep. f_equal.
    destruct (fmem r (filter (fun h => negb (comp_best mine h)) mine)) eqn:Ef.
    - apply fr_fmem_iff in Ef. destruct Ef as [h [Hh Eid]]. apply filter_In in Hh. destruct Hh as [Hh Hc].
      rewrite (fr_bad_id mine _ r h Eid). apply negb_true_iff in Hc.
      pose proof (fr_keep_spec mine h Hwf Hd Hh) as K. rewrite Hc in K. unfold fr_keep in K.
      apply negb_false_iff in K. exact K.
    - destruct (fr_bad mine (fr_groups mine) r) eqn:Eb; [|reflexivity]. exfalso.
      destruct (fr_bad_member mine _ r Inv Eb) as [h [Hh Eid]].
      assert (fmem r (filter (fun h => negb (comp_best mine h)) mine) = true); [|congruence].
      apply fr_fmem_iff. exists h. split; [|symmetry; exact Eid]. apply filter_In. split; [exact Hh|].
      rewrite (fr_bad_id mine _ r h (eq_sym Eid)) in Eb.
      pose proof (fr_keep_spec mine h Hwf Hd Hh) as K. unfold fr_keep in K. rewrite Eb in K. cbn in K.
      rewrite <- K. reflexivity. }
  rewrite EM, ER in Ecds. clear E1 E2.
  destruct (filter (comp_best mine) mine) as [|m0 mt] eqn:EF; [|exists rem'; exact Ecds]. exfalso.
  destruct mine as [|h0 t]; [cbv in Ec; discriminate|].
  destruct (fr_max_exists (h0 :: t)) as [m [Hm Hmax]]; [discriminate|].
  assert (In m (filter (comp_best (h0 :: t)) (h0 :: t))); [|rewrite EF in H; contradiction].
  apply filter_In. split; [exact Hm|]. apply (comp_best_spec _ m ND Hm). intros o Ho.
  apply Hmax. apply (fconn_In _ _ _ Ho).
Qed.

(* (c) the survivors do not depend on the order of the gene's hit list *)
Lemma fr_order_independent mine mine2 :
  Permutation mine mine2 -> fwf mine = true -> fwf mine2 = true ->
  distinct_scores mine = true -> distinct_scores mine2 = true ->
  forall h, In h (filter (fr_keep mine) mine) <-> In h (filter (fr_keep mine2) mine2).
Proof.
  intros P W1 W2 D1 D2 h. destruct (fr_fwf_spec mine W1) as [_ ND]. rewrite !filter_In.
  split; intros [Hh K].
  - assert (Hh2 : In h mine2) by (apply (Permutation_in _ P); exact Hh). split; [exact Hh2|].
    rewrite (fr_keep_spec mine2 h W2 D2 Hh2). rewrite <- (comp_best_perm mine mine2 h P ND Hh).
    rewrite <- (fr_keep_spec mine h W1 D1 Hh). exact K.
  - assert (Hh1 : In h mine) by (apply (Permutation_in _ (Permutation_sym P)); exact Hh). split; [exact Hh1|].
    rewrite (fr_keep_spec mine h W1 D1 Hh1). rewrite (comp_best_perm mine mine2 h P ND Hh1).
    rewrite <- (fr_keep_spec mine2 h W2 D2 Hh). exact K.
Qed.

(* ---------- the witness of the repaired finding FC13a: a chain of five hits v4-v0-v2-v1-v3 given in
   the order v0 v3 v1 v4 v2.  Before the repair the loop built the groups {v0,v4,v2,v1} and
   {v3,v1,v2,v0}, never united them, and v4, v3 both survived; now a pair touching two groups unites them *)
Definition fr_w0 := mkFH 0 0 70 170 20 0.
Definition fr_w1 := mkFH 1 1 210 310 60 1.
Definition fr_w2 := mkFH 2 2 140 240 40 2.
Definition fr_w3 := mkFH 3 3 280 380 180 3.
Definition fr_w4 := mkFH 4 4 0 100 200 4.
Definition fr_wit := [fr_w0; fr_w3; fr_w1; fr_w4; fr_w2].
Definition fr_wit_sorted := [fr_w4; fr_w0; fr_w2; fr_w1; fr_w3].

Lemma fr_witness_perm : Permutation fr_wit fr_wit_sorted.
Proof.
  unfold fr_wit, fr_wit_sorted.
  apply NoDup_Permutation.
  - repeat constructor; cbn; intros H; repeat (destruct H as [H|H]; [discriminate|]); exact H.
  - repeat constructor; cbn; intros H; repeat (destruct H as [H|H]; [discriminate|]); exact H.
  - intros x. cbn. tauto.
Qed.

(* one group (the component), one survivor (its best hit v4), for the witness order and the positional one *)
Lemma fr_witness_repaired :
  fwf fr_wit = true /\ distinct_scores fr_wit = true /\ competing [0; 1; 2; 3; 4] fr_wit = true /\
  (exists g, overlapping_groups fr_wit = Ok [g] /\ length g = 5%nat) /\
  (exists rem, fr_cds [0; 1; 2; 3; 4] (Ok (fr_wit, [])) fr_wit = (Ok ([fr_w4], rem), [fr_w4])) /\
  (exists rem, fr_cds [0; 1; 2; 3; 4] (Ok (fr_wit, [])) fr_wit_sorted = (Ok ([fr_w4], rem), [fr_w4])).
Proof.
  split; [reflexivity|]. split; [reflexivity|]. split; [reflexivity|]. split; [|split].
  - eexists. split; vm_compute; reflexivity.
  - eexists. vm_compute. reflexivity.
  - eexists. vm_compute. reflexivity.
Qed.

(* ---------- hmmer.remove_overlapping rank order; best score / least e-value of merges *)

(* DEFINITIONS *)
(* a returned hit together with the input hits it is made of (in merge order) *)
Inductive fragof (L : Z -> Z) (inp : list hit) : list hit -> hit -> Prop :=
| fragof_in h : In h inp -> fragof L inp [h] h
| fragof_merge a b cs : fragof L inp cs a -> In b inp -> prof b = prof a ->
    2 * (en b - st a) < 3 * L (prof a) -> fragof L inp (cs ++ [b]) (merge a b).
(* END DEFINITIONS *)

(* ------------------------------------------------------------------ A1: ranking_stats is a strict total order *)
Lemma rank_lt_irrefl cut a : rank_lt cut a a = false.
Proof. unfold rank_lt. lia. Qed.

Lemma rank_lt_trans cut a b c : hh_pos cut a -> hh_pos cut b -> hh_pos cut c ->
  rank_lt cut a b = true -> rank_lt cut b c = true -> rank_lt cut a c = true.
Proof.
  unfold hh_pos, rank_lt. intros [Sa _] [Sb _] [Sc _].
  pose proof (ratio_lt_le (cut (h_id a)) (cut (h_id b)) (cut (h_id c)) (h_sc a) (h_sc b) (h_sc c) Sa Sb Sc) as T1.
  pose proof (ratio_le_lt (cut (h_id a)) (cut (h_id b)) (cut (h_id c)) (h_sc a) (h_sc b) (h_sc c) Sa Sb Sc) as T2.
  pose proof (ratio_eq_eq (cut (h_id a)) (cut (h_id b)) (cut (h_id c)) (h_sc a) (h_sc b) (h_sc c) Sb) as T3.
  unfold hh_len. lia.
Qed.

Lemma rank_lt_total cut a b : hh_pos cut a -> hh_pos cut b ->
  rank_lt cut a b = false -> rank_lt cut b a = false -> a = b.
Proof.
  unfold hh_pos, rank_lt, hh_len. intros [_ Ca] [_ Cb] H1 H2.
  assert (Ei : h_id a = h_id b) by lia.
  assert (Es : h_st a = h_st b) by lia.
  assert (Ee : h_en a = h_en b) by lia.
  assert (En : cut (h_id a) * h_sc b = cut (h_id b) * h_sc a) by lia.
  rewrite <- Ei in En. apply Z.mul_reg_l in En; [|lia].
  destruct a, b. cbn in *. f_equal; lia.
Qed.

Lemma rank_lt_asym cut a b : hh_pos cut a -> hh_pos cut b ->
  rank_lt cut a b = true -> rank_lt cut b a = false.
Proof.
  intros Pa Pb H. destruct (rank_lt cut b a) eqn:E; [|reflexivity].
  pose proof (rank_lt_trans cut a b a Pa Pb Pa H E) as X. rewrite rank_lt_irrefl in X. discriminate.
Qed.

(* on distinct hits "not worse" is "strictly better" *)
Lemma rank_lt_connected cut a b : hh_pos cut a -> hh_pos cut b -> a <> b ->
  rank_lt cut a b = false -> rank_lt cut b a = true.
Proof.
  intros Pa Pb Hne H. destruct (rank_lt cut b a) eqn:E; [reflexivity|].
  exfalso. apply Hne. apply (rank_lt_total cut a b Pa Pb H E).
Qed.

(* what "x does not rank strictly better than b" says, field by field *)
Lemma rank_lt_false_spelled cut x b : rank_lt cut x b = false <->
  (cut (h_id b) * h_sc x <= cut (h_id x) * h_sc b /\
   (cut (h_id b) * h_sc x = cut (h_id x) * h_sc b -> hh_len x <= hh_len b /\
    (hh_len x = hh_len b -> h_st b <= h_st x /\
     (h_st b = h_st x -> h_id b <= h_id x)))).
Proof. unfold rank_lt. lia. Qed.

(* ------------------------------------------------------------------ A2: the head of the rank-sorted group is a best hit *)
Lemma rank_sort_wsorted cut G : (forall h, In h G -> hh_pos cut h) ->
  wsorted (rank_lt cut) (sort_by (rank_lt cut) G).
Proof.
  intros Hpos.
  apply (sort_by_wsorted (rank_lt cut) (hh_pos cut) (rank_lt_irrefl cut) (rank_lt_trans cut)).
  apply Forall_forall. exact Hpos.
Qed.

Lemma rank_head_best cut G b rest :
  (forall h, In h G -> hh_pos cut h) -> sort_by (rank_lt cut) G = b :: rest ->
  In b G /\ forall x, In x G -> rank_lt cut x b = false.
Proof.
  intros Hpos E. pose proof (rank_sort_wsorted cut G Hpos) as W. rewrite E in W.
  split.
  - apply (sort_by_In (rank_lt cut)). rewrite E. left. reflexivity.
  - intros x Hx. apply (sort_by_In (rank_lt cut)) in Hx. rewrite E in Hx.
    inversion W as [|? ? _ Hall]; subst. rewrite Forall_forall in Hall.
    destruct Hx as [<-|Hx]; [apply rank_lt_irrefl|apply Hall; exact Hx].
Qed.

Lemma rank_head_best_spelled cut G b rest :
  (forall h, In h G -> hh_pos cut h) -> sort_by (rank_lt cut) G = b :: rest ->
  In b G /\ forall x, In x G ->
    cut (h_id b) * h_sc x <= cut (h_id x) * h_sc b /\
    (cut (h_id b) * h_sc x = cut (h_id x) * h_sc b -> hh_len x <= hh_len b /\
     (hh_len x = hh_len b -> h_st b <= h_st x /\
      (h_st b = h_st x -> h_id b <= h_id x))).
Proof.
  intros Hpos E. destruct (rank_head_best cut G b rest Hpos E) as [Hb Hall].
  split; [exact Hb|]. intros x Hx. apply rank_lt_false_spelled. apply Hall. exact Hx.
Qed.

(* ------------------------------------------------------------------ A3: a dropped hit has a better-ranked, overlapping, kept hit *)
Lemma mem_hh_In x : forall s, mem hh_eqb x s = true -> In x s.
Proof.
  induction s as [|y ys IH]; cbn [mem]; intros H; [discriminate|].
  apply orb_true_iff in H. destruct H as [H|H].
  - left. symmetry. apply hh_eqb_eq. exact H.
  - right. apply IH. exact H.
Qed.

Lemma set_add_In_conv x s z : z = x \/ In z s -> In z (set_add x s).
Proof.
  unfold set_add. intros H. destruct (mem hh_eqb x s) eqn:E.
  - destruct H as [->|H]; [apply mem_hh_In; exact E|exact H].
  - apply in_or_app. destruct H as [->|H]; [right; left; reflexivity|left; exact H].
Qed.

Lemma group_fold_complete limit : forall rest groups current maxc groups' current' maxc',
  fold_left (group_step limit) rest (groups, current, maxc) = (groups', current', maxc') ->
  forall x, (In x rest \/ In x current \/ exists G0, In G0 groups /\ In x G0) ->
  exists G, In G (groups' ++ [current']) /\ In x G.
Proof.
  induction rest as [|h hs IH]; intros groups current maxc groups' current' maxc' E x Hx; cbn [fold_left] in E.
  - inversion E; subst. destruct Hx as [[]|[Hx|[G0 [HG0 Hx]]]].
    + exists current'. split; [apply in_or_app; right; left; reflexivity|exact Hx].
    + exists G0. split; [apply in_or_app; left; exact HG0|exact Hx].
  - unfold group_step at 2 in E. destruct (maxc - limit <? h_st h).
    + apply (IH _ _ _ _ _ _ E x).
      destruct Hx as [[<-|Hx]|[Hx|[G0 [HG0 Hx]]]].
      * right. left. left. reflexivity.
      * left. exact Hx.
      * right. right. exists current. split; [apply in_or_app; right; left; reflexivity|exact Hx].
      * right. right. exists G0. split; [apply in_or_app; left; exact HG0|exact Hx].
    + apply (IH _ _ _ _ _ _ E x).
      destruct Hx as [[<-|Hx]|[Hx|Hx]].
      * right. left. apply set_add_In_conv. left. reflexivity.
      * left. exact Hx.
      * right. left. apply set_add_In_conv. right. exact Hx.
      * right. right. exact Hx.
Qed.

(* every hit of the sorted list lies in some group *)
Lemma hh_groups_complete limit sorted : forall x, In x sorted ->
  exists G, In G (hh_groups limit sorted) /\ In x G.
Proof.
  intros x Hx. unfold hh_groups. destruct sorted as [|h0 t]; [destruct Hx|].
  destruct (fold_left (group_step limit) t ([], [h0], h_en h0)) as [[groups current] maxc] eqn:Ef.
  apply (group_fold_complete limit t [] [h0] (h_en h0) groups current maxc Ef x).
  destruct Hx as [<-|Hx]; [right; left; left; reflexivity|left; exact Hx].
Qed.

Lemma best_fold_acc_In limit l acc x : In x acc -> In x (fold_left (best_step limit) l acc).
Proof.
  intros Hx. destruct (best_fold_sub limit l acc) as [m [E _]]. rewrite E. apply in_or_app. left. exact Hx.
Qed.

(* the pass over a list in which no later element ranks strictly better than an earlier one:
   a hit that is not kept conflicts with a kept hit that is an initial one or not worse ranked *)
Lemma best_fold_dropped limit cut : forall l acc, wsorted (rank_lt cut) l ->
  forall x, In x l -> ~ In x (fold_left (best_step limit) l acc) ->
  exists k, In k (fold_left (best_step limit) l acc) /\ conflict limit x k = true /\
    (In k acc \/ rank_lt cut x k = false).
Proof.
  induction l as [|h hs IH]; intros acc Hs x Hx Hn; [destruct Hx|].
  cbn [fold_left] in *. inversion Hs as [|? ? Hs' Hall]; subst. rewrite Forall_forall in Hall.
  remember (best_step limit acc h) as acc' eqn:Ea. unfold best_step in Ea.
  destruct Hx as [<-|Hx].
  - destruct (existsb (conflict limit h) acc) eqn:E.
    + apply existsb_exists in E. destruct E as [o [Ho Hc]]. exists o. subst acc'.
      split; [apply best_fold_acc_In; exact Ho|]. split; [exact Hc|left; exact Ho].
    + exfalso. apply Hn. apply best_fold_acc_In. subst acc'. apply in_or_app. right. left. reflexivity.
  - destruct (IH acc' Hs' x Hx Hn) as [k [Hk [Hc [Hka|Hr]]]].
    + exists k. split; [exact Hk|]. split; [exact Hc|].
      destruct (existsb (conflict limit h) acc); subst acc'.
      * left. exact Hka.
      * apply in_app_or in Hka. destruct Hka as [Hka|[<-|[]]]; [left; exact Hka|right; apply Hall; exact Hx].
    + exists k. split; [exact Hk|]. split; [exact Hc|right; exact Hr].
Qed.

Lemma best_of_group_dropped_weak limit cut G : (forall h, In h G -> hh_pos cut h) ->
  forall x, In x G -> ~ In x (best_of_group limit cut G) ->
  exists k, In k (best_of_group limit cut G) /\ conflict limit x k = true /\ rank_lt cut x k = false.
Proof.
  intros Hpos x Hx Hn.
  assert (Hx' : In x (sort_by (rank_lt cut) G)) by (apply sort_by_In; exact Hx).
  destruct (best_fold_dropped limit cut (sort_by (rank_lt cut) G) [] (rank_sort_wsorted cut G Hpos) x Hx' Hn)
    as [k [Hk [Hc [[]|Hr]]]].
  exists k. split; [exact Hk|]. split; [exact Hc|exact Hr].
Qed.

Lemma best_of_group_dropped limit cut G : (forall h, In h G -> hh_pos cut h) ->
  forall x, In x G -> ~ In x (best_of_group limit cut G) ->
  exists k, In k (best_of_group limit cut G) /\ conflict limit x k = true /\ rank_lt cut k x = true.
Proof.
  intros Hpos x Hx Hn.
  destruct (best_of_group_dropped_weak limit cut G Hpos x Hx Hn) as [k [Hk [Hc Hr]]].
  exists k. split; [exact Hk|]. split; [exact Hc|].
  apply rank_lt_connected; [apply Hpos; exact Hx|apply Hpos; apply (best_of_group_In limit cut G k Hk)| |exact Hr].
  intros ->. contradiction.
Qed.

Lemma hh_eq_dec (a b : hhit) : {a = b} + {a <> b}.
Proof.
  destruct (hh_eqb a b) eqn:E.
  - left. apply hh_eqb_eq. exact E.
  - right. intros H. apply hh_eqb_eq in H. rewrite H in E. discriminate.
Qed.

(* A4: within one group, kept = no better-ranked kept hit conflicts *)
Lemma hmmer_kept_iff limit cut G : (forall h, In h G -> hh_pos cut h) ->
  forall x, In x (best_of_group limit cut G) <->
    (In x G /\ forall k, In k (best_of_group limit cut G) -> rank_lt cut k x = true -> conflict limit x k = false).
Proof.
  intros Hpos x. split.
  - intros Hx. split; [apply (best_of_group_In limit cut G x Hx)|].
    intros k Hk Hr. apply (best_of_group_noconf limit cut G x k Hx Hk).
    intros ->. rewrite rank_lt_irrefl in Hr. discriminate.
  - intros [Hx Hall].
    destruct (in_dec hh_eq_dec x (best_of_group limit cut G)) as [Hin|Hn]; [exact Hin|].
    exfalso. destruct (best_of_group_dropped limit cut G Hpos x Hx Hn) as [k [Hk [Hc Hr]]].
    rewrite (Hall k Hk Hr) in Hc. discriminate.
Qed.

Lemma hmmer_dropped_has_better_kept limit cutoffs hits out :
  hmmer_remove_overlapping limit cutoffs hits = Ok out ->
  (forall h, In h hits -> hh_pos (cut_of cutoffs) h) ->
  forall x, In x hits -> ~ In x out ->
  exists k, In k out /\ conflict limit x k = true /\ rank_lt (cut_of cutoffs) k x = true.
Proof.
  unfold hmmer_remove_overlapping. destruct hits as [|h0 t] eqn:Eh; [discriminate|]. rewrite <- Eh.
  destruct (forallb _ hits); [|discriminate]. intros H. inversion H; subst out. clear H.
  set (cut := cut_of cutoffs).
  set (sorted := sort_by (hh_sort_lt cut) hits).
  intros Hpos x Hx Hnx.
  assert (Hs : StronglySorted Z.le (map h_st sorted)) by (apply hh_sorted_by_start).
  destruct (hh_groups_spec limit sorted Hs) as [_ G2].
  assert (Hxs : In x sorted) by (unfold sorted; apply sort_by_In; exact Hx).
  destruct (hh_groups_complete limit sorted x Hxs) as [G [HG HxG]].
  assert (HposG : forall h, In h G -> hh_pos cut h).
  { intros h Hh. apply Hpos. apply (sort_by_In (hh_sort_lt cut)). apply (G2 G h HG Hh). }
  assert (Hnb : ~ In x (best_of_group limit cut G)).
  { intros X. apply Hnx. apply sort_by_In. apply in_flat_map. exists G. split; assumption. }
  destruct (best_of_group_dropped limit cut G HposG x HxG Hnb) as [k [Hk [Hc Hr]]].
  exists k. split; [|split; assumption].
  apply sort_by_In. apply in_flat_map. exists G. split; assumption.
Qed.

(* ------------------------------------------------------------------ B: the merged hit carries the extremes of its fragments *)
Lemma merge_best_score a b :
  sc (merge a b) = Z.max (sc a) (sc b) /\ ev (merge a b) = Z.min (ev a) (ev b) /\
  st (merge a b) = Z.min (st a) (st b) /\ en (merge a b) = Z.max (en a) (en b).
Proof. repeat split; reflexivity. Qed.

Lemma fragof_incl L inp inp' cs h : (forall x, In x inp -> In x inp') -> fragof L inp cs h -> fragof L inp' cs h.
Proof.
  intros Hi H. induction H as [h Hh|a b cs Ha IH Hb Hp Hs].
  - apply fragof_in. apply Hi. exact Hh.
  - apply fragof_merge; [exact IH|apply Hi; exact Hb|exact Hp|exact Hs].
Qed.

Lemma fragof_frag L inp cs h : fragof L inp cs h -> frag L inp h.
Proof.
  intros H. induction H as [h Hh|a b cs Ha IH Hb Hp Hs].
  - apply frag_in. exact Hh.
  - apply frag_merge; [exact IH|exact Hb|symmetry; exact Hp|rewrite Hp; exact Hs].
Qed.

Lemma fragof_extremes L inp cs h : fragof L inp cs h ->
  cs <> [] /\
  (forall c, In c cs -> In c inp /\ prof c = prof h /\ sc c <= sc h /\ ev h <= ev c /\ st h <= st c /\ en c <= en h) /\
  (exists c, In c cs /\ sc c = sc h) /\
  (exists c, In c cs /\ ev c = ev h) /\
  (exists c, In c cs /\ st c = st h) /\
  (exists c, In c cs /\ en c = en h).
Proof.
  intros H. induction H as [h Hh|a b cs Ha IH Hb Hp Hs].
  - split; [discriminate|]. split.
    + intros c [<-|[]]. split; [exact Hh|]. lia.
    + repeat split; exists h; (split; [left; reflexivity|reflexivity]).
  - destruct IH as [Hne [Hall [[c1 [I1 E1]] [[c2 [I2 E2]] [[c3 [I3 E3]] [c4 [I4 E4]]]]]]].
    split; [destruct cs; discriminate|]. split.
    + intros c Hc. rewrite merge_prof, merge_sc, merge_ev, merge_st, merge_en.
      apply in_app_or in Hc. destruct Hc as [Hc|[<-|[]]].
      * destruct (Hall c Hc) as [A [B C]]. split; [exact A|]. split; [exact B|]. lia.
      * split; [exact Hb|]. split; [exact Hp|]. lia.
    + rewrite merge_sc, merge_ev, merge_st, merge_en.
      assert (Inb : In b (cs ++ [b])) by (apply in_or_app; right; left; reflexivity).
      assert (Inc : forall c, In c cs -> In c (cs ++ [b])) by (intros c Hc; apply in_or_app; left; exact Hc).
      split; [|split; [|split]].
      * destruct (Z.max_spec (sc a) (sc b)) as [[_ ->]|[_ ->]].
        -- exists b. split; [exact Inb|reflexivity].
        -- exists c1. split; [apply Inc; exact I1|exact E1].
      * destruct (Z.min_spec (ev a) (ev b)) as [[_ ->]|[_ ->]].
        -- exists c2. split; [apply Inc; exact I2|exact E2].
        -- exists b. split; [exact Inb|reflexivity].
      * destruct (Z.min_spec (st a) (st b)) as [[_ ->]|[_ ->]].
        -- exists c3. split; [apply Inc; exact I3|exact E3].
        -- exists b. split; [exact Inb|reflexivity].
      * destruct (Z.max_spec (en a) (en b)) as [[_ ->]|[_ ->]].
        -- exists b. split; [exact Inb|reflexivity].
        -- exists c4. split; [apply Inc; exact I4|exact E4].
Qed.

Lemma mn_fragof L inp : forall rest cur, (exists cs, fragof L inp cs cur) -> (forall x, In x rest -> In x inp) ->
  forall h, In h (mn L cur rest) -> exists cs, fragof L inp cs h.
Proof.
  induction rest as [|d ds IH]; intros cur Hc Hr h Hh; cbn [mn] in Hh.
  - destruct Hh as [<-|[]]. exact Hc.
  - assert (Hd : In d inp) by (apply Hr; left; reflexivity).
    assert (Hds : forall x, In x ds -> In x inp) by (intros x Hx; apply Hr; right; exact Hx).
    assert (Fd : exists cs, fragof L inp cs d) by (exists [d]; apply fragof_in; exact Hd).
    destruct (negb (prof d =? prof cur)) eqn:Ep.
    + destruct Hh as [<-|Hh]; [exact Hc|]. apply (IH d); [exact Fd|exact Hds|exact Hh].
    + destruct (2 * (en d - st cur) <? 3 * L (prof d)) eqn:Es.
      * apply (IH (merge cur d)); [|exact Hds|exact Hh].
        destruct Hc as [cs Hc]. exists (cs ++ [d]).
        assert (Epr : prof d = prof cur) by lia.
        apply fragof_merge; [exact Hc|exact Hd|exact Epr|rewrite <- Epr; lia].
      * destruct Hh as [<-|Hh]; [exact Hc|]. apply (IH d); [exact Fd|exact Hds|exact Hh].
Qed.

Lemma mcat_fragof L inp p : forall rest merged, (exists cs, fragof L inp cs merged) ->
  (forall x, In x rest -> In x inp /\ prof x = p) -> prof merged = p ->
  forall h, In h (mcat L p merged rest) -> exists cs, fragof L inp cs h.
Proof.
  induction rest as [|o os IH]; intros merged Hm Hr Hp h Hh; cbn [mcat] in Hh.
  - destruct Hh as [<-|[]]. exact Hm.
  - destruct (Hr o (or_introl eq_refl)) as [Ho Hpo].
    assert (Hos : forall x, In x os -> In x inp /\ prof x = p) by (intros x Hx; apply Hr; right; exact Hx).
    destruct (2 * (en o - st merged) <? 3 * L p) eqn:Es.
    + apply (IH (merge merged o)); [|exact Hos|rewrite merge_prof; exact Hp|exact Hh].
      destruct Hm as [cs Hm]. exists (cs ++ [o]).
      apply fragof_merge; [exact Hm|exact Ho|congruence|rewrite Hp; lia].
    + destruct Hh as [<-|Hh]; [exact Hm|].
      apply (IH o); [exists [o]; apply fragof_in; exact Ho|exact Hos|exact Hpo|exact Hh].
Qed.

Lemma merge_domain_list_fragof L l h : In h (merge_domain_list L l) -> exists cs, fragof L l cs h.
Proof.
  unfold merge_domain_list. rewrite sort_by_In. rewrite in_flat_map. intros [p [_ Hh]].
  destruct (category p l) as [|c0 cs] eqn:Ec; [destruct Hh|].
  assert (Hc : forall x, In x (c0 :: cs) -> In x l /\ prof x = p).
  { intros x Hx. rewrite <- Ec in Hx. unfold category in Hx. apply filter_In in Hx. split; [tauto|lia]. }
  apply (mcat_fragof L l p cs c0).
  - exists [c0]. apply fragof_in. apply Hc. left. reflexivity.
  - intros x Hx. apply Hc. right. exact Hx.
  - apply Hc. left. reflexivity.
  - exact Hh.
Qed.

Lemma refine_gene_fragof nb L reg l out h : refine_gene nb L reg l = Ok out -> In h out ->
  exists cs, fragof L l cs h.
Proof.
  unfold refine_gene. destruct nb.
  - destruct (canonical l) as [|c t] eqn:E; cbn [remove_overlapping_l bind]; [discriminate|].
    destruct (ro L c t) as [|h' t'] eqn:Er; cbn [merge_neighbours_l bind]; [discriminate|].
    intros H Hh. inversion H; subst.
    apply (sub_In _ _ (remove_incomplete_sub L reg _)) in Hh.
    assert (Hro : forall x, In x (h' :: t') -> In x l).
    { intros x Hx. rewrite <- Er in Hx. apply (sub_In _ _ (ro_sub L t c)) in Hx. rewrite <- E in Hx.
      apply canonical_In. exact Hx. }
    apply (mn_fragof L l t' h'); [exists [h']; apply fragof_in; apply Hro; left; reflexivity| |exact Hh].
    intros x Hx. apply Hro. right. exact Hx.
  - destruct (merge_domain_list L (canonical l)) as [|c t] eqn:E; cbn [remove_overlapping_l bind]; [discriminate|].
    intros H Hh. inversion H; subst.
    apply (sub_In _ _ (remove_incomplete_sub L reg _)) in Hh.
    apply (sub_In _ _ (ro_sub L t c)) in Hh. rewrite <- E in Hh.
    apply merge_domain_list_fragof in Hh. destruct Hh as [cs Hh]. exists cs.
    apply (fragof_incl L (canonical l)); [|exact Hh]. intros x. apply canonical_In.
Qed.

(* the two together: a returned hit carries the best score and least e-value of input hits of its
   profile that it spans *)
Lemma refine_gene_best_of_fragments nb L reg l out h : refine_gene nb L reg l = Ok out -> In h out ->
  exists cs, cs <> [] /\
    (forall c, In c cs -> In c l /\ prof c = prof h /\ sc c <= sc h /\ ev h <= ev c /\ st h <= st c /\ en c <= en h) /\
    (exists c, In c cs /\ sc c = sc h) /\ (exists c, In c cs /\ ev c = ev h) /\
    (exists c, In c cs /\ st c = st h) /\ (exists c, In c cs /\ en c = en h).
Proof.
  intros H Hh. destruct (refine_gene_fragof nb L reg l out h H Hh) as [cs F].
  exists cs. exact (fragof_extremes L l cs h F).
Qed.


(* C13 - the pairwise-margin clause under a decidable input-level guard. *)

(* LEMMAS (go to the end of Proofs.v) *)
(* ------------------------------------------------------------------ pairwise margin: list algebra *)
Lemma pm_cons L a t : pairwise_margin L (a :: t) = true <->
  (forall b, In b t -> ovl L b a = false) /\ pairwise_margin L t = true.
Proof.
  cbn [pairwise_margin]. rewrite andb_true_iff, forallb_forall. split; intros [H1 H2]; (split; [|exact H2]).
  - intros b Hb. specialize (H1 b Hb). destruct (ovl L b a); [discriminate|reflexivity].
  - intros b Hb. rewrite (H1 b Hb). reflexivity.
Qed.

Lemma pm_snoc L x : forall fin, pairwise_margin L (fin ++ [x]) = true <->
  pairwise_margin L fin = true /\ (forall z, In z fin -> ovl L x z = false).
Proof.
  induction fin as [|a fin IH]; cbn [app].
  - split; [intros _; split; [reflexivity|intros z []]|intros _; reflexivity].
  - rewrite !pm_cons, IH. split.
    + intros [H1 [H2 H3]]. split; [split; [|exact H2]|].
      * intros b Hb. apply H1. apply in_or_app. left. exact Hb.
      * intros z [<-|Hz]; [apply H1; apply in_or_app; right; left; reflexivity|apply H3; exact Hz].
    + intros [[H1 H2] H3]. split; [|split; [exact H2|]].
      * intros b Hb. apply in_app_or in Hb. destruct Hb as [Hb|[<-|[]]]; [apply H1; exact Hb|apply H3; left; reflexivity].
      * intros z Hz. apply H3. right. exact Hz.
Qed.

Lemma pm_sub L l1 l2 : sub l1 l2 -> pairwise_margin L l2 = true -> pairwise_margin L l1 = true.
Proof.
  induction 1 as [|y l1 l2 H IH|y l1 l2 H IH]; intros Hp.
  - reflexivity.
  - apply pm_cons in Hp. apply IH. tauto.
  - apply pm_cons in Hp. destruct Hp as [H1 H2]. apply pm_cons. split; [|apply IH; exact H2].
    intros b Hb. apply H1. apply (sub_In _ _ H). exact Hb.
Qed.

(* the Prop reading of pairwise_margin: an ordered pair of the list never overlaps beyond the margin *)
Lemma pm_pairs L l : pairwise_margin L l = true <-> (forall a b, sub [a; b] l -> ovl L b a = false).
Proof.
  induction l as [|x t IH].
  - split; [intros _ a b H; inversion H|reflexivity].
  - rewrite pm_cons, IH. split.
    + intros [H1 H2] a b H. inversion H as [|? ? ? H'|? ? ? H']; subst.
      * apply H2. exact H'.
      * apply H1. apply (sub_In _ _ H'). left. reflexivity.
    + intros H. split.
      * intros b Hb. apply H. apply sub_keep. clear - Hb. induction t as [|y t IH]; [destruct Hb|].
        destruct Hb as [<-|Hb]; [apply sub_keep; apply sub_nil_l|apply sub_skip; apply IH; exact Hb].
      * intros a b H'. apply H. apply sub_skip. exact H'.
Qed.

(* ------------------------------------------------------------------ monotone overlap *)
Definition monoP (L : Z -> Z) (l : list hit) : Prop :=
  forall a b c, sub [a; b; c] l -> ovl L c a = true -> ovl L b a = true.

Lemma mono_from_spec L a : forall t, mono_from L a t = true ->
  forall b c, sub [b; c] t -> ovl L c a = true -> ovl L b a = true.
Proof.
  induction t as [|x t IH]; intros Hm b c Hs Hc; [inversion Hs|].
  cbn [mono_from] in Hm. apply andb_true_iff in Hm. destruct Hm as [H1 H2].
  inversion Hs as [|? ? ? H'|? ? ? H']; subst.
  - apply (IH H2 b c H' Hc).
  - rewrite forallb_forall in H1. specialize (H1 c (sub_In _ _ H' c (or_introl eq_refl))).
    rewrite Hc in H1. cbn [negb orb] in H1. exact H1.
Qed.

Lemma mono_ovl_monoP L : forall l, mono_ovl L l = true -> monoP L l.
Proof.
  induction l as [|x t IH]; intros Hm a b c Hs Hc; [inversion Hs|].
  cbn [mono_ovl] in Hm. apply andb_true_iff in Hm. destruct Hm as [H1 H2].
  inversion Hs as [|? ? ? H'|? ? ? H']; subst.
  - apply (IH H2 a b c H' Hc).
  - eapply mono_from_spec; eassumption.
Qed.

Lemma monoP_sub L l1 l2 : sub l1 l2 -> monoP L l2 -> monoP L l1.
Proof. intros Hs Hm a b c H. apply Hm. apply (sub_trans _ _ _ H Hs). Qed.

(* the boolean guard is exactly the Prop *)
Lemma sub_pair_In {A} (b c : A) : forall t, In c t -> sub [b; c] (b :: t).
Proof.
  intros t Hc. apply sub_keep. induction t as [|y t IH]; [destruct Hc|].
  destruct Hc as [<-|Hc]; [apply sub_keep; apply sub_nil_l|apply sub_skip; apply IH; exact Hc].
Qed.

Lemma mono_from_complete L a : forall t,
  (forall b c, sub [b; c] t -> ovl L c a = true -> ovl L b a = true) -> mono_from L a t = true.
Proof.
  induction t as [|b t IH]; intros H; cbn [mono_from]; [reflexivity|].
  apply andb_true_iff. split.
  - apply forallb_forall. intros c Hc. destruct (ovl L c a) eqn:E; [|reflexivity].
    rewrite (H b c (sub_pair_In b c t Hc) E). reflexivity.
  - apply IH. intros b' c' Hs. apply H. apply sub_skip. exact Hs.
Qed.

Lemma mono_ovl_iff L : forall l, mono_ovl L l = true <-> monoP L l.
Proof.
  intros l. split; [apply mono_ovl_monoP|].
  induction l as [|a t IH]; intros H; cbn [mono_ovl]; [reflexivity|].
  apply andb_true_iff. split.
  - apply mono_from_complete. intros b c Hs. apply H. apply sub_keep. exact Hs.
  - apply IH. apply (monoP_sub L t (a :: t)); [apply sub_skip; apply sub_refl|exact H].
Qed.

Lemma sub_In_app {A} (z : A) : forall fin l1 l2, In z fin -> sub l1 l2 -> sub (z :: l1) (fin ++ l2).
Proof.
  induction fin as [|a fin IH]; intros l1 l2 Hz Hs; [destruct Hz|]. cbn [app].
  destruct Hz as [<-|Hz].
  - apply sub_keep. clear IH. induction fin as [|b fin IH]; [exact Hs|]. cbn [app]. apply sub_skip. exact IH.
  - apply sub_skip. apply IH; assumption.
Qed.

Lemma sub_app_l {A} (p : list A) : forall l1 l2, sub l1 l2 -> sub (p ++ l1) (p ++ l2).
Proof. induction p as [|a p IH]; intros l1 l2 H; cbn [app]; [exact H|]. apply sub_keep. apply IH. exact H. Qed.

(* _remove_overlapping under the guard: [fin] = the hits already final, in order *)
Lemma ro_pairwise_inv L : forall rest prev fin,
  monoP L (fin ++ prev :: rest) -> pairwise_margin L fin = true ->
  (forall z, In z fin -> ovl L prev z = false) ->
  pairwise_margin L (fin ++ ro L prev rest) = true.
Proof.
  induction rest as [|r rs IH]; intros prev fin Hm Hp Hz; cbn [ro].
  - apply pm_snoc. split; assumption.
  - assert (Hr : forall z, In z fin -> ovl L r z = false).
    { intros z Hin. destruct (ovl L r z) eqn:E; [|reflexivity].
      rewrite <- (Hz z Hin). symmetry. apply (Hm z prev r); [|exact E].
      apply sub_In_app; [exact Hin|]. apply sub_keep. apply sub_keep. apply sub_nil_l. }
    destruct (ovl L r prev) eqn:Eo.
    + destruct (sc prev <? sc r).
      * apply IH; [|exact Hp|exact Hr].
        apply (monoP_sub L _ _ (sub_app_l fin _ _ (sub_skip prev _ _ (sub_refl (r :: rs)))) Hm).
      * apply IH; [|exact Hp|exact Hz].
        apply (monoP_sub L _ (fin ++ prev :: r :: rs)); [|exact Hm].
        apply sub_app_l. apply sub_keep. apply sub_skip. apply sub_refl.
    + change (fin ++ prev :: ro L r rs) with (fin ++ [prev] ++ ro L r rs). rewrite app_assoc.
      apply IH.
      * rewrite <- app_assoc. exact Hm.
      * apply pm_snoc. split; assumption.
      * intros z Hin. apply in_app_or in Hin. destruct Hin as [Hin|[<-|[]]]; [apply Hr; exact Hin|exact Eo].
Qed.

Lemma ro_pairwise_guarded : forall L rest prev,
  mono_ovl L (prev :: rest) = true -> pairwise_margin L (ro L prev rest) = true.
Proof.
  intros L rest prev H. apply (ro_pairwise_inv L rest prev []).
  - apply mono_ovl_monoP. exact H.
  - reflexivity.
  - intros z [].
Qed.

(* ------------------------------------------------------------------ _merge_immediate_neigbours *)
Lemma sorted_st_cons_inv a t : sorted_st (a :: t) -> sorted_st t /\ (forall x, In x t -> st a <= st x).
Proof.
  unfold sorted_st. cbn [map]. intros H. inversion H as [|? ? Hs Hall]; subst. split; [exact Hs|].
  rewrite Forall_forall in Hall. intros x Hx. apply Hall. apply in_map. exact Hx.
Qed.

Lemma sorted_st_cons a t : sorted_st t -> (forall x, In x t -> st a <= st x) -> sorted_st (a :: t).
Proof.
  unfold sorted_st. cbn [map]. intros Hs Hall. constructor; [exact Hs|].
  rewrite Forall_forall. intros z Hz. apply in_map_iff in Hz. destruct Hz as [w [<- Hw]]. apply Hall. exact Hw.
Qed.

Lemma sorted_st_merge cur d ds : sorted_st (cur :: d :: ds) ->
  st (merge cur d) = st cur /\ sorted_st (merge cur d :: ds).
Proof.
  intros H. apply sorted_st_cons_inv in H. destruct H as [H1 H2].
  apply sorted_st_cons_inv in H1. destruct H1 as [H1 H3].
  assert (E : st (merge cur d) = st cur).
  { rewrite merge_st. specialize (H2 d (or_introl eq_refl)). lia. }
  split; [exact E|]. apply sorted_st_cons; [exact H1|].
  intros x Hx. rewrite E. apply H2. right. exact Hx.
Qed.

(* every hit of the result starts where a hit of the input starts, with that hit's profile *)
Lemma mn_heads L : forall rest cur, sorted_st (cur :: rest) ->
  forall y, In y (mn L cur rest) -> exists x, In x (cur :: rest) /\ st y = st x /\ prof y = prof x.
Proof.
  induction rest as [|d ds IH]; intros cur Hs y Hy; cbn [mn] in Hy.
  - destruct Hy as [<-|[]]. exists cur. split; [left; reflexivity|split; reflexivity].
  - assert (Keep : In y (cur :: mn L d ds) -> exists x, In x (cur :: d :: ds) /\ st y = st x /\ prof y = prof x).
    { intros [<-|Hy']; [exists cur; split; [left; reflexivity|split; reflexivity]|].
      destruct (IH d (proj1 (sorted_st_cons_inv _ _ Hs)) y Hy') as [x [Hx E]].
      exists x. split; [right; exact Hx|exact E]. }
    destruct (negb (prof d =? prof cur)); [exact (Keep Hy)|].
    destruct (2 * (en d - st cur) <? 3 * L (prof d)); [|exact (Keep Hy)].
    destruct (sorted_st_merge cur d ds Hs) as [E Hs'].
    destruct (IH (merge cur d) Hs' y Hy) as [x [[<-|Hx] [E1 E2]]].
    + exists cur. split; [left; reflexivity|]. rewrite E1, E2, E, merge_prof. split; reflexivity.
    + exists x. split; [right; right; exact Hx|split; assumption].
Qed.

Lemma ovl_same_head L y x p : st y = st x -> prof y = prof x -> ovl L y p = ovl L x p.
Proof. intros E1 E2. unfold ovl. rewrite E1, E2. reflexivity. Qed.

Lemma mn_pairwise L : forall rest cur, sorted_st (cur :: rest) ->
  pairwise_margin L (cur :: rest) = true -> pairwise_margin L (mn L cur rest) = true.
Proof.
  induction rest as [|d ds IH]; intros cur Hs Hp; cbn [mn]; [reflexivity|].
  assert (Keep : pairwise_margin L (cur :: mn L d ds) = true).
  { apply pm_cons in Hp. destruct Hp as [H1 H2]. destruct (sorted_st_cons_inv _ _ Hs) as [Hs' _].
    apply pm_cons. split; [|apply IH; assumption].
    intros y Hy. destruct (mn_heads L ds d Hs' y Hy) as [x [Hx [E1 E2]]].
    rewrite (ovl_same_head L y x cur E1 E2). apply H1. exact Hx. }
  destruct (negb (prof d =? prof cur)) eqn:Ep; [exact Keep|].
  destruct (2 * (en d - st cur) <? 3 * L (prof d)); [|exact Keep].
  destruct (sorted_st_merge cur d ds Hs) as [E Hs'].
  apply IH; [exact Hs'|].
  apply pm_cons in Hp. destruct Hp as [H1 H2]. apply pm_cons in H2. destruct H2 as [H2 H3].
  apply pm_cons. split; [|exact H3].
  intros x Hx. specialize (H1 x (or_intror Hx)). specialize (H2 x Hx).
  assert (Epd : prof d = prof cur) by lia.
  unfold ovl in *. rewrite merge_prof, merge_en. rewrite Epd in H2. lia.
Qed.

(* ------------------------------------------------------------------ the whole per-gene call *)
Lemma refine_gene_pairwise_guarded : forall nb L reg l out,
  refine_gene nb L reg l = Ok out -> margin_guard nb L l = true -> pairwise_margin L out = true.
Proof.
  intros nb L reg l out. unfold refine_gene, margin_guard. destruct nb.
  - destruct (canonical l) as [|c t] eqn:E; cbn [remove_overlapping_l bind]; [discriminate|].
    destruct (ro L c t) as [|h' t'] eqn:Er; cbn [merge_neighbours_l bind]; [discriminate|].
    intros H G. inversion H; subst.
    apply (pm_sub L _ _ (remove_incomplete_sub L reg _)).
    apply mn_pairwise.
    + rewrite <- Er. apply (sorted_st_sub _ _ (ro_sub L t c)). rewrite <- E. apply canonical_sorted_st.
    + rewrite <- Er. apply ro_pairwise_guarded. exact G.
  - destruct (merge_domain_list L (canonical l)) as [|c t] eqn:E; cbn [remove_overlapping_l bind]; [discriminate|].
    intros H G. inversion H; subst.
    apply (pm_sub L _ _ (remove_incomplete_sub L reg _)).
    apply ro_pairwise_guarded. exact G.
Qed.

(* all genes *)
Lemma refine_all_gene_in nb L reg l out g hs : refine_all nb L reg l = Ok out -> In (g, hs) out ->
  In g (genes_of l).
Proof.
  unfold refine_all. intros H Hin.
  destruct (mapM _ (genes_of l)) as [per|k] eqn:Em; cbn [bind] in H; [|discriminate].
  inversion H; subst. apply filter_In in Hin. destruct Hin as [Hin _].
  destruct (mapM_In _ _ _ _ Em Hin) as [g' [Hg' Hf]].
  destruct (refine_gene nb L reg (hits_of g' l)) as [r|k] eqn:Er; cbn [bind] in Hf; [|discriminate].
  inversion Hf; subst. exact Hg'.
Qed.

Lemma refine_all_pairwise_guarded : forall nb L reg l out g hs,
  refine_all nb L reg l = Ok out -> margin_guard_all nb L l = true -> In (g, hs) out ->
  pairwise_margin L hs = true.
Proof.
  intros nb L reg l out g hs H G Hin.
  destruct (refine_all_gene nb L reg l out g hs H Hin) as [Hg _].
  apply (refine_gene_pairwise_guarded nb L reg _ hs Hg).
  unfold margin_guard_all in G. rewrite forallb_forall in G. apply G.
  exact (refine_all_gene_in nb L reg l out g hs H Hin).
Qed.

Lemma refine_table_pairwise_guarded : forall nb t l out g hs,
  refine_table nb t l = Ok out -> margin_guard_all nb (plen t) l = true -> In (g, hs) out ->
  pairwise_margin (plen t) hs = true.
Proof.
  intros nb t l out g hs H G Hin. unfold refine_table in H.
  destruct (forallb _ l); [|discriminate].
  exact (refine_all_pairwise_guarded nb (plen t) (preg t) l out g hs H G Hin).
Qed.

(* ------------------------------------------------------------------ one profile length *)
Definition unifP (L : Z -> Z) (l : list hit) : Prop :=
  forall x y, In x l -> In y l -> L (prof x) = L (prof y).

Lemma uniform_len_unifP L l : uniform_len L l = true -> unifP L l.
Proof.
  destruct l as [|h t]; intros H x y Hx Hy; [destruct Hx|].
  cbn [uniform_len] in H. rewrite forallb_forall in H.
  assert (G : forall z, In z (h :: t) -> L (prof z) = L (prof h)).
  { intros z [<-|Hz]; [reflexivity|]. specialize (H z Hz). lia. }
  rewrite (G x Hx), (G y Hy). reflexivity.
Qed.

Lemma mono_from_sorted_uniform L a : forall t, sorted_st t -> unifP L t -> mono_from L a t = true.
Proof.
  induction t as [|b t IH]; intros Hs Hu; cbn [mono_from]; [reflexivity|].
  destruct (sorted_st_cons_inv _ _ Hs) as [Hs' Hle].
  apply andb_true_iff. split.
  - apply forallb_forall. intros c Hc. specialize (Hle c Hc).
    pose proof (Hu b c (or_introl eq_refl) (or_intror Hc)) as E.
    unfold ovl. rewrite E. lia.
  - apply IH; [exact Hs'|]. intros x y Hx Hy. apply Hu; right; assumption.
Qed.

Lemma mono_ovl_sorted_uniform L : forall l, sorted_st l -> unifP L l -> mono_ovl L l = true.
Proof.
  induction l as [|a t IH]; intros Hs Hu; cbn [mono_ovl]; [reflexivity|].
  destruct (sorted_st_cons_inv _ _ Hs) as [Hs' _].
  assert (Hu' : unifP L t) by (intros x y Hx Hy; apply Hu; right; assumption).
  apply andb_true_iff. split; [apply mono_from_sorted_uniform; assumption|apply IH; assumption].
Qed.

Lemma frag_prof L inp h : frag L inp h -> exists x, In x inp /\ prof x = prof h.
Proof.
  intros H. induction H as [h Hh|a b Ha IH Hb Hp Hs].
  - exists h. split; [exact Hh|reflexivity].
  - destruct IH as [x [Hx E]]. exists x. split; [exact Hx|]. rewrite merge_prof. exact E.
Qed.

Lemma uniform_len_guard : forall nb L l, uniform_len L l = true -> margin_guard nb L l = true.
Proof.
  intros nb L l H. apply uniform_len_unifP in H. unfold margin_guard.
  assert (Hc : unifP L (canonical l)).
  { intros x y Hx Hy. apply H; apply canonical_In; assumption. }
  destruct nb.
  - apply mono_ovl_sorted_uniform; [apply canonical_sorted_st|exact Hc].
  - apply mono_ovl_sorted_uniform; [apply merge_domain_list_sorted|].
    intros x y Hx Hy.
    destruct (frag_prof L _ x (merge_domain_list_frag L _ x Hx)) as [x' [Hx' Ex]].
    destruct (frag_prof L _ y (merge_domain_list_frag L _ y Hy)) as [y' [Hy' Ey]].
    rewrite <- Ex, <- Ey. apply Hc; assumption.
Qed.

Lemma refine_gene_pairwise_uniform : forall nb L reg l out,
  refine_gene nb L reg l = Ok out -> uniform_len L l = true -> pairwise_margin L out = true.
Proof.
  intros nb L reg l out H U. apply (refine_gene_pairwise_guarded nb L reg l out H).
  apply uniform_len_guard. exact U.
Qed.

(* ------------------------------------------------------------------ sharpness and non-vacuity *)
(* the guard rejects the recorded witness of greedy_replacement_margin, in both modes *)
Example margin_guard_rejects_F21_neighbour :
  margin_guard true (fun p => if p =? 1 then 100 else 10)
    [mkHit 0 0 30 1 100; mkHit 1 15 120 1 80; mkHit 2 16 40 1 120] = false.
Proof. vm_compute. reflexivity. Qed.
Example margin_guard_rejects_F21_default :
  margin_guard false (fun p => if p =? 1 then 100 else 10)
    [mkHit 0 0 30 1 100; mkHit 1 15 120 1 80; mkHit 2 16 40 1 120] = false.
Proof. vm_compute. reflexivity. Qed.
(* ... and the witness without any replacement: a long profile in between hides the overlap *)
Example margin_guard_rejects_hidden_overlap :
  let L := fun p => if p =? 1 then 1000 else 10 in
  let l := [mkHit 0 0 100 1 100; mkHit 1 50 55 1 100; mkHit 2 60 200 1 100] in
  margin_guard true L l = false /\
  refine_gene true L (fun _ => true) l = Ok [mkHit 0 0 100 1 100; mkHit 2 60 200 1 100] /\
  pairwise_margin L [mkHit 0 0 100 1 100; mkHit 2 60 200 1 100] = false.
Proof. vm_compute. repeat split; reflexivity. Qed.
(* the guard holds on an input where a replacement happens (three hits in, two out), with two
   different profile lengths: it is not the uniform case only *)
Example margin_guard_accepts_replacement :
  let L := fun p => if p =? 1 then 100 else 10 in
  let l := [mkHit 0 0 30 1 100; mkHit 1 28 120 1 80; mkHit 2 29 140 1 120] in
  margin_guard true L l = true /\ margin_guard false L l = true /\ uniform_len L l = false /\
  refine_gene true L (fun _ => false) l = Ok [mkHit 0 0 30 1 100; mkHit 2 29 140 1 120] /\
  refine_gene false L (fun _ => false) l = Ok [mkHit 0 0 30 1 100; mkHit 2 29 140 1 120].
Proof. vm_compute. repeat split; reflexivity. Qed.


(* ---------- statements as used in Theorems.v *)
Lemma C13_filter_groups_proof cds : fwf cds = true ->
  overlapping_groups cds = Ok (fr_groups cds) /\
  (forall g, In g (fr_groups cds) -> incl g cds /\ (forall x y, In x g -> In y g -> fconn cds x y) /\ g <> []) /\
  (forall h o, In h cds -> In o cds -> fov h o = true -> exists g, In g (fr_groups cds) /\ In h g /\ In o g).
Proof.
  intros H. destruct (fr_fwf_spec cds H) as [Hp ND]. split; [apply fr_overlapping_groups_pure; exact Hp|].
  exact (fr_groups_spec cds ND).
Qed.

Lemma C13_filter_components_proof cds g h : fwf cds = true -> In g (fr_groups cds) ->
  In h g -> forall x, In x g <-> fconn cds h x.
Proof.
  intros H Hg Hh. destruct (fr_fwf_spec cds H) as [Hp ND]. destruct (fr_groups_spec cds ND) as [Inv Cov].
  exact (fr_group_component cds _ g h ND Inv (fr_groups_disjoint cds ND) Cov Hg Hh).
Qed.

Lemma C13_filter_groups_disjoint_proof cds g1 g2 : fwf cds = true -> In g1 (fr_groups cds) -> In g2 (fr_groups cds) ->
  g1 = g2 \/ forall x, In x g1 -> In x g2 -> False.
Proof. intros H. destruct (fr_fwf_spec cds H) as [_ ND]. exact (fr_groups_disjoint cds ND g1 g2). Qed.

Lemma C13_filter_keep_iff mine r : fwf mine = true -> In r mine ->
  (fr_keep mine r = false <-> exists g b, In g (fr_groups mine) /\ In r g /\ best_of (hit_order mine g) = Some b /\ b <> r).
Proof.
  intros H Hr. destruct (fr_fwf_spec mine H) as [Hp ND]. destruct (fr_groups_spec mine ND) as [Inv _].
  unfold fr_keep. rewrite negb_false_iff. exact (fr_bad_iff mine _ r ND Inv Hr).
Qed.

Lemma C13_filter_best_of_proof mine g : fwf mine = true -> In g (fr_groups mine) ->
  exists b, best_of (hit_order mine g) = Some b /\ In b g /\ forall x, In x g -> f_sc x <= f_sc b.
Proof.
  intros H Hg. destruct (fr_fwf_spec mine H) as [Hp ND]. destruct (fr_groups_spec mine ND) as [Inv _].
  destruct (Inv g Hg) as [I1 [_ I3]]. destruct (fr_gbest_some mine g ND I1 I3) as [b Eb].
  exists b. split; [exact Eb|]. exact (fr_gbest_spec mine g b ND I1 Eb).
Qed.

Lemma C13_filter_live_list_proof mine g done : fwf mine = true -> In g (fr_groups mine) -> incl done (fr_groups mine) ->
  best_of (hit_order (filter (fun r => negb (fr_bad mine done r)) mine) g) = best_of (hit_order mine g).
Proof.
  intros H Hg Hd. destruct (fr_fwf_spec mine H) as [Hp ND]. destruct (fr_groups_spec mine ND) as [Inv _].
  exact (fr_live_best mine (fr_groups mine) g done ND Inv (fr_groups_disjoint mine ND) Hg Hd).
Qed.

Lemma C13_comp_best_proof cds h : fwf cds = true -> In h cds ->
  (forall x, In x (fcomp cds h) <-> fconn cds h x) /\
  (comp_best cds h = true <-> forall o, fconn cds h o -> f_sc o <= f_sc h).
Proof.
  intros H Hh. destruct (fr_fwf_spec cds H) as [_ ND]. split; [exact (fcomp_spec cds h ND Hh)|exact (comp_best_spec cds h ND Hh)].
Qed.

Lemma C13_rank_order_proof cut : 
  (forall a, rank_lt cut a a = false) /\
  (forall a b c, hh_pos cut a -> hh_pos cut b -> hh_pos cut c ->
     rank_lt cut a b = true -> rank_lt cut b c = true -> rank_lt cut a c = true) /\
  (forall a b, hh_pos cut a -> hh_pos cut b -> rank_lt cut a b = false -> rank_lt cut b a = false -> a = b).
Proof.
  split; [exact (rank_lt_irrefl cut)|]. split; [exact (rank_lt_trans cut)|exact (rank_lt_total cut)].
Qed.

Lemma hmmer_dropped_ok limit cutoffs hits out :
  hmmer_remove_overlapping limit cutoffs hits = Ok out ->
  (forall h, In h hits -> hh_pos (cut_of cutoffs) h) ->
  hh_dropped_ok limit (cut_of cutoffs) hits out = true.
Proof.
  intros H Hp. unfold hh_dropped_ok. apply forallb_forall. intros x Hx.
  destruct (mem hh_eqb x out) eqn:Em; [reflexivity|]. cbn.
  assert (Hn : ~ In x out).
  { intros Hin. clear -Hin Em. induction out as [|a t IH]; cbn in Em; [contradiction|].
    apply orb_false_iff in Em. destruct Em as [E1 E2]. destruct Hin as [->|Hin]; [|apply IH; auto].
    assert (hh_eqb x x = true) by (apply hh_eqb_eq; reflexivity). congruence. }
  destruct (hmmer_dropped_has_better_kept limit cutoffs hits out H Hp x Hx Hn) as [k [Hk [Hc Hr]]].
  apply existsb_exists. exists k. split; [exact Hk|]. rewrite Hc, Hr. reflexivity.
Qed.


(* ---------- find_hmmer_hits: competition of equivalent profiles first, then the best hit of each profile ---------- *)
Lemma find_hits_filters_spec eqgs results by_id r :
  filter_results eqgs results by_id = Ok r ->
  exists out, find_hits_filters eqgs results by_id = Ok out /\
    snd out = map (fun g => frm_cds (map to_mhit g)) (snd r) /\
    forall g, In g (snd r) ->
      (forall h, In h (frm_cds (map to_mhit g)) ->
         In h (map to_mhit g) /\ -2 < m_sc h /\
         forall h', In h' (map to_mhit g) -> m_prof h' = m_prof h -> m_sc h' <= m_sc h) /\
      (forall h', In h' (map to_mhit g) -> -2 < m_sc h' -> exists h, In h (frm_cds (map to_mhit g)) /\ m_prof h = m_prof h').
Proof.
  intros E. unfold find_hits_filters. rewrite E. cbn [bind]. eexists. split; [reflexivity|]. split.
  - unfold filter_result_multiple. cbn [snd]. rewrite map_map. reflexivity.
  - intros g _. apply frm_cds_spec.
Qed.

(* the other order loses a profile: Q (1) wins the first domain against P (0), P wins the second one, Q scores higher on
   the second domain than on the first *)
Lemma find_hits_filters_swapped_differs : exists eqgs results by_id out,
  find_hits_filters eqgs results by_id = Ok out /\ map (map m_id) (snd out) = [[0; 3]] /\
  find_hits_filters_swapped eqgs results by_id = Ok ([3], [[3]]).
Proof.
  exists [[0; 1]], [mkFH 0 1 0 100 100 0; mkFH 1 0 0 100 80 1; mkFH 2 1 200 300 120 2; mkFH 3 0 200 300 160 3],
         [[mkFH 0 1 0 100 100 0; mkFH 1 0 0 100 80 1; mkFH 2 1 200 300 120 2; mkFH 3 0 200 300 160 3]].
  eexists. split; [vm_compute; reflexivity|]. split; vm_compute; reflexivity.
Qed.
